import FerrousSpec.Drv.Arith
def main : IO Unit := Ferrous.Drv.Arith.main
