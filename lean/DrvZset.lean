import FerrousSpec.Drv.ZSet
def main : IO Unit := Ferrous.Drv.ZSet.main
