/-
  Driver family `resp` (C20): serializer, frame parser, incremental parser.
-/
import FerrousSpec.Drv.Util
import FerrousSpec.Gen.Consts
namespace Ferrous.Drv.Resp
open Ferrous Ferrous.Drv

def showEvs (evs : List Ev) : String :=
  if evs.isEmpty then "." else
  String.intercalate " ; " (evs.map fun
    | .frame f => "F " ++ showFrame f
    | .err => "E")

/-- Stateless: every line is a complete request. -/
def step (_ : Unit) (ws : List String) : Unit × String :=
  match ws with
  | "ser" :: toks =>
    match readFrame toks with
    | some (f, []) => ((), toHex (ser f))
    | _ => ((), "bad-op")
  | ["parse", h] =>
    match ofHex h with
    | none => ((), "bad-op")
    | some d =>
      let rv := reserveOf Gen.reserveCapped (maxNesting + 1) d
      match parseBytes d with
      | .need => ((), s!"need {rv}")
      | .err => ((), s!"err {rv}")
      | .ok f r => ((), s!"ok {showFrame f} {d.length - r.length} {rv}")
  | ["run", hs] =>
    match parseHexList hs with
    | none => ((), "bad-op")
    | some cs => ((), showEvs (runChunks Gen.pingFix [] cs))
  | _ => ((), "bad-op")

def main : IO Unit := loop step ()

end Ferrous.Drv.Resp
