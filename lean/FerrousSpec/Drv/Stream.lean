/-
  Driver family `stream` (C15): one stream object (`Code.Stream` next to `Spec.Stream`) and a key space
  of streams behind the command handlers.  Every answer is `<code answer> # <spec answer>`:
  the first is compared with the implementation (correspondence), the second judges it (oracle).
  At command level the oracle is the handler model with all three repairs (`fixed`), which
  Props/C15.lean proves equal to the filter semantics.
-/
import FerrousSpec.Drv.Util
import FerrousSpec.Model.Stream
namespace Ferrous.Drv.Stream
open Ferrous Ferrous.Drv Ferrous.Stream

structure DState where
  q : Quirks
  code : Code.Stream
  spec : Spec.Stream
  ks : Cmd.Keyspace
  ksSpec : Cmd.Keyspace

def DState.init : DState := ⟨pinned, Code.Stream.new, Spec.Stream.new, [], []⟩

def showId (a : Id) : String := s!"{a.ms}-{a.seq}"

def showFields (f : Fields) : String :=
  String.intercalate "," (f.map fun (k, v) => toHex k ++ "=" ++ toHex v)

def showEntry (e : Entry) : String := showId e.1 ++ ":" ++ showFields e.2

def showEntries (es : List Entry) : String :=
  if es.isEmpty then "." else String.intercalate ";" (es.map showEntry)

def parseFields (s : String) : Option Fields :=
  if s == "." then some [] else
    (s.splitOn ",").foldlM (fun (acc : Fields) kv =>
      match kv.splitOn "=" with
      | [k, v] => match ofHex k, ofHex v with
        | some k, some v => some (insertField k v acc)
        | _, _ => none
      | _ => none) []

def parseIdTok (s : String) : Option Id :=
  match s.splitOn "-" with
  | [a, b] => match a.toNat?, b.toNat? with
    | some a, some b => some ⟨a, b⟩
    | _, _ => none
  | _ => none

def parseIds (s : String) : Option (List Id) :=
  if s == "." then some [] else (s.splitOn "|").mapM parseIdTok

def parseCount (s : String) : Option (Option Nat) :=
  if s == "none" then some none else s.toNat?.map some

def showReply : Cmd.Reply → String
  | .err => "err"
  | .bulk b => "bulk " ++ toHex b
  | .int n => s!"int {n}"
  | .entries es => "ents " ++ showEntries es
  | .streams xs =>
    "streams " ++ (if xs.isEmpty then "." else
      String.intercalate "/" (xs.map fun (k, es) => toHex k ++ ">" ++ showEntries es))

def two (a b : String) : String := a ++ " # " ++ b

def bit (s : String) : Option Bool := if s == "1" then some true else if s == "0" then some false else none

def step (st : DState) (ws : List String) : DState × String :=
  let bad := (st, "bad-op")
  match ws with
  | "cfg" :: bits =>
    -- rangeEndFix seqCarry parseChecked persistLastId fieldsList readCountZeroAll idIncomplete
    match bits.mapM bit with
    | some [a, b, c, d, e, f, g] => ({ st with q := ⟨a, b, c, d, e, f, g⟩ }, "ok")
    | _ => bad
  | ["new"] => ({ st with code := Code.Stream.new, spec := Spec.Stream.new }, two "ok" "ok")
  | ["addid", ms, seq, f] =>
    match ms.toNat?, seq.toNat?, parseFields f with
    | some ms, some seq, some f =>
      let id : Id := ⟨ms, seq⟩
      let (c', ok) := Code.addWithId id f st.code
      let (s', sok) := match Spec.add id f st.spec with
        | some s' => (s', true)
        | none => (st.spec, false)
      ({ st with code := c', spec := s' }, two (if ok then "ok" else "refused") (if sok then "ok" else "refused"))
    | _, _, _ => bad
  | ["auto", ms, seq, f] =>
    -- the implementation returned ms-seq; the clock reading it must have used is `ms`
    match ms.toNat?, seq.toNat?, parseFields f with
    | some ms, some seq, some f =>
      let (c', r) := Code.addAuto st.q ms f st.code
      let (s', sok) := match Spec.add ⟨ms, seq⟩ f st.spec with
        | some s' => (s', true)
        | none => (st.spec, false)
      ({ st with code := c', spec := s' },
        two (match r with | some id => s!"id {id.ms} {id.seq}" | none => "refused") (if sok then "ok" else "viol"))
    | _, _, _ => bad
  | ["autoref", f] =>
    -- the implementation refused `*`: legitimate only when no ID above the greatest ever added exists;
    -- a refusal never depends on the clock having advanced, so the model runs with clock reading 0
    match parseFields f with
    | some f =>
      let (c', r) := Code.addAuto st.q 0 f st.code
      ({ st with code := c' },
        two (match r with | some id => s!"id {id.ms} {id.seq}" | none => "refused")
            (if (Spec.succId st.spec.maxEver).isNone then "ok" else "viol"))
    | none => bad
  | ["range", sm, ss, em, es, c, rev] =>
    match sm.toNat?, ss.toNat?, em.toNat?, es.toNat?, parseCount c, bit rev with
    | some sm, some ss, some em, some es, some c, some rev =>
      let s : Id := ⟨sm, ss⟩
      let e : Id := ⟨em, es⟩
      (st, two (showEntries (Code.range st.q st.code.entries s e c rev))
               (showEntries (if rev then Spec.revrange st.spec.entries s e c else Spec.range st.spec.entries s e c)))
    | _, _, _, _, _, _ => bad
  | ["after", m, s, c] =>
    match m.toNat?, s.toNat?, parseCount c with
    | some m, some s, some c =>
      (st, two (showEntries (Code.rangeAfter st.code.entries ⟨m, s⟩ c))
               (showEntries (Spec.readAfter st.spec.entries ⟨m, s⟩ c)))
    | _, _, _ => bad
  | ["del", ids] =>
    match parseIds ids with
    | some ids =>
      let (c', n) := Code.delete st.code ids
      let es' := Spec.del st.spec.entries ids
      ({ st with code := c', spec := { st.spec with entries := es' } },
        two s!"{n}" s!"{st.spec.entries.length - es'.length}")
    | none => bad
  | ["trimc", n] =>
    match n.toNat? with
    | some n =>
      let (c', k) := Code.trimByCount st.code n
      let es' := Spec.trimCount st.spec.entries n
      ({ st with code := c', spec := { st.spec with entries := es' } },
        two s!"{k}" s!"{st.spec.entries.length - es'.length}")
    | none => bad
  | ["trimmin", m, s] =>
    match m.toNat?, s.toNat? with
    | some m, some s =>
      let (c', k) := Code.trimByMinId st.code ⟨m, s⟩
      let es' := Spec.trimMinId st.spec.entries ⟨m, s⟩
      ({ st with code := c', spec := { st.spec with entries := es' } },
        two s!"{k}" s!"{st.spec.entries.length - es'.length}")
    | _, _ => bad
  | ["len"] => (st, two s!"{st.code.length}" s!"{st.spec.entries.length}")
  | ["first"] =>
    (st, two (match st.code.entries.head? with | some e => showEntry e | none => "none")
             (match st.spec.entries.head? with | some e => showEntry e | none => "none"))
  | ["last"] =>
    (st, two (match st.code.entries.getLast? with | some e => showEntry e | none => "none")
             (match st.spec.entries.getLast? with | some e => showEntry e | none => "none"))
  | ["dump"] =>
    (st, two s!"len={st.code.length} atom={st.code.atomMs}-{st.code.atomSeq} {showEntries st.code.entries}"
             s!"len={st.spec.entries.length} max={showId st.spec.maxEver} {showEntries st.spec.entries}")
  | ["parseid", h] =>
    match ofHex h with
    | some b =>
      let sh := fun (o : Option Id) => match o with | some a => s!"some {a.ms} {a.seq}" | none => "none"
      (st, two (sh (Code.parseId st.q b)) (sh (Spec.parseId b)))
    | none => bad
  | ["cnew"] => ({ st with ks := [], ksSpec := [] }, two "ok" "ok")
  | ["crestart"] =>
    -- SAVE + restart of the key space (the oracle's key space restarts as the repaired tree does: unchanged)
    ({ st with ks := Cmd.restartAll st.q st.ks, ksSpec := Cmd.restartAll fixed st.ksSpec }, two "ok" "ok")
  | "cmd" :: args =>
    match args.mapM ofHex with
    | some args =>
      match Cmd.handle st.q 0 st.ks args, Cmd.handle fixed 0 st.ksSpec args with
      | some (ks', r), some (ksS', rS) => ({ st with ks := ks', ksSpec := ksS' }, two (showReply r) (showReply rS))
      | _, _ => bad
    | none => bad
  | "cmdauto" :: ms :: args =>
    -- XADD key * …: the implementation answered with millisecond `ms`, the clock reading it used
    match ms.toNat?, args.mapM ofHex with
    | some ms, some args =>
      match Cmd.handle st.q ms st.ks args, Cmd.handle fixed ms st.ksSpec args with
      | some (ks', r), some (ksS', rS) => ({ st with ks := ks', ksSpec := ksS' }, two (showReply r) (showReply rS))
      | _, _ => bad
    | _, _ => bad
  | _ => bad

def main : IO Unit := loop step DState.init

end Ferrous.Drv.Stream
