/-
  Driver family `scan` (C19): SCAN/HSCAN/SSCAN/ZSCAN cursor walk, MATCH glob, option parsing.

  Same line protocol as `harness/src/bin/impl_scan.rs` (which answers from the real engine):
    reset                                  -> ok
    add <type> <key>                       -> ok          (string|list|set|hash|zset|stream; replaces the key)
    addttl <type> <key> <ms>               -> ok          (the same with a TTL that outlives the run: a live key)
    addexp <type> <key>                    -> ok          (created with a TTL that has run out: the key does not exist)
    del <key>                              -> 1 | 0
    scan <cursor> <count> <pat|~> <type|~> -> <next> <keys>
    eadd <h|s|z> <member> <value|-|score>  -> ok
    edel <h|s|z> <member>                  -> 1 | 0
    escan <h|s|z> <cursor> <count> <pat|~> <novalues 0|1> -> <next> <items> <fast 0|1>
    glob <pattern> <text>                  -> <code 0|1> <spec 0|1>
    cmd <name|arg|arg...>                  -> err | <next> <items> [<fast>]
    cfg <default> <cap> <factor> <lossy> <slot> <typefold> -> ok          (Lean side only: the constants of `Gen.scanCfg`,
                                                          sent by the check so that the driver builds even
                                                          when the translator no longer recognises the source)
  The impl side prints neither the `fast` flag nor the `spec` verdict.
-/
import FerrousSpec.Drv.Util
import FerrousSpec.Model.Scan
namespace Ferrous.Drv.Scan
open Ferrous Ferrous.Drv Ferrous.Scan

structure St where
  g : Cfg := ⟨10, 1000, 10, false, true, true⟩
  db : Db := []
  h : List (Bytes × Bytes) := []
  s : List Bytes := []
  z : List (Bytes × Int) := []

def typeCode (s : String) : Option Nat :=
  match s with
  | "string" => some 0 | "list" => some 1 | "set" => some 2 | "hash" => some 3
  | "zset" => some 4 | "stream" => some 5 | _ => none

def optHex (s : String) : Option (Option Bytes) :=
  if s == "~" then some none else (ofHex s).map some

def u64? (s : String) : Option Nat :=
  match s.toNat? with
  | some n => if n ≤ u64Max then some n else none
  | none => none

def showZ (xs : List (Bytes × Int)) : String :=
  if xs.isEmpty then "." else String.intercalate "|" (xs.map fun (m, sc) => toHex m ++ "=" ++ toString sc)

def flag (b : Bool) : String := if b then "1" else "0"

def upsert {β : Type} (k : Bytes) (v : β) (l : List (Bytes × β)) : List (Bytes × β) :=
  (k, v) :: l.filter (fun kv => kv.1 != k)

def escan (st : St) (kind : String) (cur cnt : Nat) (pat : Option Bytes) (nov : Bool) : Option String :=
  match kind with
  | "h" =>
    let r := Code.hscan st.g st.h cur cnt pat nov
    some s!"{r.1} {hexList r.2} {flag (Code.fastPath st.g st.h.length cur cnt pat)}"
  | "s" =>
    if nov then none else
    let r := Code.sscan st.g st.s cur cnt pat
    some s!"{r.1} {hexList r.2} {flag (Code.fastPath st.g st.s.length cur cnt pat)}"
  | "z" =>
    if nov then none else
    let r := Code.zscan st.g st.z cur cnt pat
    some s!"{r.1} {showZ r.2} {flag (Code.fastPath st.g st.z.length cur cnt pat)}"
  | _ => none

def collSize (st : St) (name : Bytes) : Option (String × Nat) :=
  if name = [72] then some ("h", st.h.length)
  else if name = [83] then some ("s", st.s.length)
  else if name = [90] then some ("z", st.z.length)
  else none

/-- `handle_hscan` / `handle_sscan` / `handle_zscan` on `key cursor [opts]`. -/
def cmdColl (st : St) (kind : String) (args : List Bytes) : String :=
  match args with
  | key :: cur :: opts =>
    match parseU64 cur, Code.parseOpts false (kind == "h") opts {} with
    | some c, some o =>
      match collSize st key with
      | some (k, n) =>
        if n = 0 then "0 . 1"                                  -- key does not exist
        else if k != kind then "err"                           -- WRONGTYPE
        else if kind == "z" then
          let r := Code.zscan st.g st.z c o.count o.pat
          let flat := r.2.flatMap fun (m, sc) => [m, intDigits sc]
          s!"{r.1} {hexList flat} {flag (Code.fastPath st.g st.z.length c o.count o.pat)}"
        else (escan st kind c o.count o.pat o.noValues).getD "bad-op"
      | none => "0 . 1"                                        -- key does not exist
    | _, _ => "err"
  | _ => "err"

def step (st : St) (ws : List String) : St × String :=
  match ws with
  | ["reset"] => ({ g := st.g }, "ok")
  | ["cfg", d, c, f, l, sl, tf] =>
    match d.toNat?, c.toNat?, f.toNat? with
    | some d, some c, some f =>
      if (l == "1" || l == "0") && (sl == "1" || sl == "0") && (tf == "1" || tf == "0") then
        ({ st with g := ⟨d, c, f, l == "1", sl == "1", tf == "1"⟩ }, "ok")
      else (st, "bad-op")
    | _, _, _ => (st, "bad-op")
  | ["add", ty, k] =>
    match typeCode ty, ofHex k with
    | some t, some key => ({ st with db := upsert key t st.db }, "ok")
    | _, _ => (st, "bad-op")
  | ["addttl", ty, k, ms] =>
    match typeCode ty, ofHex k, ms.toNat? with
    | some t, some key, some _ => ({ st with db := upsert key t st.db }, "ok")
    | _, _, _ => (st, "bad-op")
  | ["addexp", ty, k] =>
    match typeCode ty, ofHex k with
    | some _, some key => ({ st with db := st.db.filter (fun kv => kv.1 != key) }, "ok")
    | _, _ => (st, "bad-op")
  | ["del", k] =>
    match ofHex k with
    | some key =>
      if st.db.any (fun kv => kv.1 == key) then ({ st with db := st.db.filter (fun kv => kv.1 != key) }, "1")
      else (st, "0")
    | none => (st, "bad-op")
  | ["scan", cur, cnt, pat, ty] =>
    match u64? cur, u64? cnt, optHex pat, optHex ty with
    | some c, some n, some p, some t =>
      let r := Code.scan st.g st.db c n p t
      (st, s!"{r.1} {hexList r.2}")
    | _, _, _, _ => (st, "bad-op")
  | ["eadd", kind, m, v] =>
    match kind, ofHex m with
    | "h", some mem =>
      match ofHex v with
      | some val => ({ st with h := upsert mem val st.h }, "ok")
      | none => (st, "bad-op")
    | "s", some mem =>
      if v == "-" then ({ st with s := mem :: st.s.filter (· != mem) }, "ok") else (st, "bad-op")
    | "z", some mem =>
      match v.toInt? with
      | some sc => ({ st with z := upsert mem sc st.z }, "ok")
      | none => (st, "bad-op")
    | _, _ => (st, "bad-op")
  | ["edel", kind, m] =>
    match kind, ofHex m with
    | "h", some mem =>
      if st.h.any (fun kv => kv.1 == mem) then ({ st with h := st.h.filter (fun kv => kv.1 != mem) }, "1") else (st, "0")
    | "s", some mem =>
      if st.s.contains mem then ({ st with s := st.s.filter (· != mem) }, "1") else (st, "0")
    | "z", some mem =>
      if st.z.any (fun kv => kv.1 == mem) then ({ st with z := st.z.filter (fun kv => kv.1 != mem) }, "1") else (st, "0")
    | _, _ => (st, "bad-op")
  | ["escan", kind, cur, cnt, pat, nov] =>
    match u64? cur, u64? cnt, optHex pat with
    | some c, some n, some p =>
      if nov != "0" && nov != "1" then (st, "bad-op")
      else (st, (escan st kind c n p (nov == "1")).getD "bad-op")
    | _, _, _ => (st, "bad-op")
  | ["glob", p, t] =>
    match ofHex p, ofHex t with
    | some pat, some txt =>
      (st, s!"{flag (Code.matchBytes st.g.lossy pat txt)} {flag (Spec.matchBytes pat txt)}")
    | _, _ => (st, "bad-op")
  | ["cmd", a] =>
    match parseHexList a with
    | some (name :: args) =>
      let u := name.map upperAscii
      if u = [83, 67, 65, 78] then
        match Code.cmdScan st.g st.db args with
        | some r => (st, s!"{r.1} {hexList r.2}")
        | none => (st, "err")
      else if u = [72, 83, 67, 65, 78] then (st, cmdColl st "h" args)
      else if u = [83, 83, 67, 65, 78] then (st, cmdColl st "s" args)
      else if u = [90, 83, 67, 65, 78] then (st, cmdColl st "z" args)
      else (st, "bad-op")
    | _ => (st, "bad-op")
  | _ => (st, "bad-op")

def main : IO Unit := loop step {}

end Ferrous.Drv.Scan
