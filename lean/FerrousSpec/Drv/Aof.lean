/-
  Driver family `aof` (C11): the live connection, the log it leaves, and the replay of that log.

  cfg <names A|B|…> <logSelect 0|1> <logWake 0|1> <byEffect 0|1> <logExpiry 0|1>   → ok   (table and switches come from the translator via the check)
  reset                                             → ok          (empty server, empty log, db 0)
  restart                                           → ok          (server restarted on the same file with its dataset: new connection in db 0, `last_db` unknown)
  ev cmd <viaExec 0|1> <now> <obs> <arg-hex>…        → <entries appended> # <db selected afterwards> # <covered 0|1> # <inModel 0|1>
                                                       (obs: what a SPOP/SRANDMEMBER/RANDOMKEY drew, the id an `XADD *` was assigned; `_` none)
  ev wake <db> <now> <L|R> <key-hex>                 → same
  ev expire <db> <now> <key-hex>                     → same, or `not-expired` if the model's key is not there with a passed deadline
  droplast                                          → ok          (a torn last entry was cut off)
  log                                               → the entries: commands separated by ` ; `, arguments by `|`  (`.` = no entry)
  file                                              → hex of the bytes of the file (`-` = empty)
  read <file-hex>                                   → <commands as in `log`> # clean | torn <hex> | corrupt <hex>     (the model's strict reader)
  chunks <hex>|<hex>|…                              → what ferrous's incremental parser yields when fed these chunks: commands as in `log`, `E` = error
  dump <db> <now>                                   → canonical dump of the live dataset (as drv_ks)
  replaydump <t> <db> <now>                         → the same for the replay of the current log at instant <t> on a fresh connection
-/
import FerrousSpec.Drv.Util
import FerrousSpec.Drv.Keyspace
import FerrousSpec.Model.Aof
namespace Ferrous.Drv.Aof
open Ferrous Ferrous.Drv Ferrous.KS Ferrous.Aof

structure St where
  cfg : Cfg := Cfg.code []
  live : Conn := {}
  lst : LogSt := {}
  entries : List (List Bytes) := []      -- in order

def showCmds (cs : List (List Bytes)) : String :=
  if cs.isEmpty then "." else String.intercalate " ; " (cs.map fun c => if c.isEmpty then "()" else hexList c)

def showTail : Tail → String
  | .clean => "clean"
  | .torn r => "torn " ++ toHex r
  | .corrupt r => "corrupt " ++ toHex r

def evAnswer (st : St) (ev : Ferrous.Aof.Ev) : St × String :=
  let (es, lst') := logEv st.cfg st.lst ev
  let live' := execEv Quirks.spec st.live ev
  ({ st with live := live', lst := lst', entries := st.entries ++ es },
   s!"{es.length} # {live'.cur} # {if covered st.cfg st.lst ev then 1 else 0} # {if inModel ev then 1 else 0}")

def parseObs (obs : String) : Option (Option (List Bytes)) :=
  if obs == "_" then some none else (parseHexList obs).map some

def showEvs (evs : List Ferrous.Ev) : String :=
  if evs.isEmpty then "." else
  String.intercalate " ; " (evs.map fun e => match e with
    | .err => "E"
    | .frame f => match cmdOfFrame f with
      | some c => if c.isEmpty then "()" else hexList c
      | none => "F")

def step (st : St) (ws : List String) : St × String :=
  match ws with
  | ["cfg", names, ls, lw, le, lx] =>
    if (ls != "0" && ls != "1") || (lw != "0" && lw != "1") || (le != "0" && le != "1") || (lx != "0" && lx != "1") then (st, "bad-op") else
    let w := if names == "." then [] else names.splitOn "|"
    ({ st with cfg := { writes := w, logSelect := ls == "1", logWake := lw == "1", byEffect := le == "1", logExpiry := lx == "1" } }, "ok")
  | ["reset"] => ({ st with live := {}, lst := {}, entries := [] }, "ok")
  | ["restart"] => ({ st with live := st.live.restarted, lst := LogSt.restarted }, "ok")
  | "ev" :: "cmd" :: ve :: now :: obs :: args =>
    match now.toNat?, parseObs obs, args.mapM ofHex with
    | some now, some obs, some raw =>
      if ve != "0" && ve != "1" then (st, "bad-op") else
      evAnswer st (.cmd (ve == "1") now obs raw)
    | _, _, _ => (st, "bad-op")
  | ["ev", "wake", db, now, side, key] =>
    match db.toNat?, now.toNat?, ofHex key with
    | some db, some now, some key =>
      if (side != "L" && side != "R") || db ≥ 16 then (st, "bad-op") else
      evAnswer st (.wake db now (side == "L") key)
    | _, _, _ => (st, "bad-op")
  | ["ev", "expire", db, now, key] =>
    match db.toNat?, now.toNat?, ofHex key with
    | some db, some now, some key =>
      if db ≥ 16 then (st, "bad-op") else
      -- inadmissible if the model's key is alive (the harness mis-observed an expiry).  The key may be gone already: an
      -- earlier command on that database dropped every dead entry of the model (`purge`), while the server keeps a dead
      -- key, invisible, until something looks at it — the removal is logged then all the same
      let aliveNow := match lookup (getDb st.live.store db) key with
        | some e => alive now e
        | none => false
      if aliveNow then (st, "not-expired") else evAnswer st (.expire db now key)
    | _, _, _ => (st, "bad-op")
  | ["droplast"] =>
    -- the last entry of the file was torn by a crash and cut off at the restart
    ({ st with entries := st.entries.dropLast }, "ok")
  | ["log"] => (st, showCmds st.entries)
  | ["file"] => (st, toHex (fileOf st.entries))
  | ["read", h] =>
    match ofHex h with
    | some d => let r := readLog d; (st, showCmds r.1 ++ " # " ++ showTail r.2)
    | none => (st, "bad-op")
  | ["chunks", hs] =>
    match parseHexList hs with
    | some cs => (st, showEvs (runChunks true [] cs))
    | none => (st, "bad-op")
  | ["dump", db, now] =>
    match db.toNat?, now.toNat? with
    | some db, some now => (st, Keyspace.showDb now (getDb st.live.store db))
    | _, _ => (st, "bad-op")
  | ["replaydump", t, db, now] =>
    match t.toNat?, db.toNat?, now.toNat? with
    | some t, some db, some now => (st, Keyspace.showDb now (getDb (replayAt Quirks.spec t st.entries).store db))
    | _, _, _ => (st, "bad-op")
  | _ => (st, "bad-op")

def main : IO Unit := loop step {}

end Ferrous.Drv.Aof
