/-
  Driver family `tx`: MULTI/EXEC over the key-space machine (C07).

  reset                                          → ok
  frame <conn> <now-ms> <watchOk 0|1> <arg-hex>… → <code reply> # <spec reply> # same|differ
        one frame of connection <conn> through `processFrame`; the state follows `Quirks.ofSource` (the switches the translator
        reads off the current source: today = `Quirks.code`, the tree as found); the
        prescribed reply (`Quirks.spec`) is computed from the same pre-state; `same` iff both variants
        leave the same dataset, hand-over log and state of that connection
  disc <conn>                                    → ok          (the connection goes away)
  conn <conn>                                    → <db> <inTx 0|1> <queue length> <aborted 0|1>
  dump <db> <now-ms>                             → canonical dump of one database (as drv_ks)
  ext                                            → hand-over log `<conn>:<NAME>|…` or `.`
  switches                                       → immediate names (`|`-joined or `.`) selectInExecIgnored blockingInExecNoResponse

  Replies: as drv_ks (every error is `( e )`); EXEC's array is `( a slot … )`, a slot holding the
  internal NoResponse marker is `( noresponse )`, a reply produced by pub/sub / AUTH / … is `( ext )`.
-/
import FerrousSpec.Drv.Keyspace
import FerrousSpec.Proofs.TxSource
namespace Ferrous.Drv.Tx
open Ferrous Ferrous.Drv Ferrous.Tx

def showOut : Out → String
  | .frame f => Keyspace.showReply f
  | .noResponse => "( noresponse )"
  | .external => "( ext )"

def showReply : Reply → String
  | .one o => showOut o
  | .exec slots => "( a" ++ String.join (slots.map fun o => " " ++ showOut o) ++ " )"

structure St where
  s : Server := {}

def showExt (l : List (Nat × Cmd)) : String :=
  if l.isEmpty then "." else String.intercalate "|" (l.map fun p => s!"{p.1}:{nameOf p.2}")

def b01 (b : Bool) : String := if b then "1" else "0"

def step (st : St) (ws : List String) : St × String :=
  match ws with
  | ["reset"] => ({}, "ok")
  | "frame" :: conn :: now :: w :: args =>
    match conn.toNat?, now.toNat?, args.mapM ofHex with
    | some cid, some now, some args =>
      if w != "0" && w != "1" then (st, "bad-op") else
      let r : Req := { cmd := args, now := now, watchOk := w == "1" }
      let (s1, r1) := processFrame Quirks.ofSource st.s cid r
      let (s2, r2) := processFrame Quirks.spec st.s cid r
      let same := s1.store == s2.store && s1.ext == s2.ext && s1.conns cid == s2.conns cid
      ({ s := s1 }, showReply r1 ++ " # " ++ showReply r2 ++ " # " ++ (if same then "same" else "differ"))
    | _, _, _ => (st, "bad-op")
  | ["disc", conn] =>
    match conn.toNat? with
    | some cid => ({ s := (stepEvent Quirks.ofSource st.s (.disconnect cid)).1 }, "ok")
    | none => (st, "bad-op")
  | ["conn", conn] =>
    match conn.toNat? with
    | some cid =>
      let c := st.s.conns cid
      (st, s!"{c.db} {b01 c.inTx} {c.queue.length} {b01 c.aborted}")
    | none => (st, "bad-op")
  | ["dump", db, now] =>
    match db.toNat?, now.toNat? with
    | some db, some now => (st, Keyspace.showDb now (KS.getDb st.s.store db))
    | _, _ => (st, "bad-op")
  | ["ext"] => (st, showExt st.s.ext)
  | ["switches"] =>
    let q := Quirks.ofSource
    (st, (if q.immediate.isEmpty then "." else String.intercalate "|" q.immediate) ++ " " ++ b01 q.selectInExecIgnored ++ " " ++ b01 q.blockingInExecNoResponse)
  | _ => (st, "bad-op")

def main : IO Unit := loop step {}

end Ferrous.Drv.Tx
