/-
  Driver family `tx`: MULTI/EXEC over the key-space machine (C07).

  reset                                          → ok
  frame <conn> <now-ms> <watchOk 0|1 or two digits: source variant, prescribed> <arg-hex>… → <code reply> # <spec reply> # same|differ # <code deliveries> # <spec deliveries>
        (deliveries: what the service of blocked clients after this frame sends to OTHER connections,
         `<conn>=<reply> ; …` in the order served, `.` = none)
        one frame of connection <conn> through `processFrame`; the state follows `Quirks.ofSource` (the switches the translator
        reads off the current source: today = `Quirks.code`, the tree as found); the
        prescribed reply (`Quirks.spec`) is computed from the same pre-state; `same` iff both variants
        leave the same dataset, hand-over log and state of that connection
  disc <conn>                                    → ok          (the connection goes away)
  conn <conn>                                    → <db> <inTx 0|1> <queue length> <aborted 0|1> <blocked 0|1>
  dump <db> <now-ms>                             → canonical dump of one database (as drv_ks), state following the source variant
  dumpspec <db> <now-ms>                         → the same for the state that followed `Quirks.spec` from the start of the history
  waiters                                        → blocked clients in registration order `<conn>:<db>:<L|R>:<key-hex,…>;…` or `.`
  ext                                            → hand-over log `<conn>:<NAME>|…` or `.`
  switches                                       → immediate names (`|`-joined or `.`) selectInExecIgnored blockingInExecNoResponse controlArityUnchecked connCommandsUnderConnZero

  Replies: as drv_ks (every error is `( e )`); EXEC's array is `( a slot … )`, a slot holding the
  internal NoResponse marker is `( noresponse )`, a reply produced by pub/sub / AUTH / … is `( ext )`.
-/
import FerrousSpec.Drv.Keyspace
import FerrousSpec.Proofs.TxSource
namespace Ferrous.Drv.Tx
open Ferrous Ferrous.Drv Ferrous.Tx

def showOut : Out → String
  | .frame f => Keyspace.showReply f
  | .noResponse => "( noresponse )"
  | .external => "( ext )"

def showReply : Reply → String
  | .one o => showOut o
  | .exec slots => "( a" ++ String.join (slots.map fun o => " " ++ showOut o) ++ " )"

structure St where
  /-- follows `Quirks.ofSource` (what the current source does, as far as the translator can tell) -/
  L : Loop := {}
  /-- follows `Quirks.spec` from the start of the history (what the property prescribes) -/
  P : Loop := {}

def showExt (l : List (Nat × Cmd)) : String :=
  if l.isEmpty then "." else String.intercalate "|" (l.map fun p => s!"{p.1}:{nameOf p.2}")

def showDeliveries (l : List (Nat × Frame)) : String :=
  if l.isEmpty then "." else String.intercalate " ; " (l.map fun p => s!"{p.1}={Keyspace.showReply p.2}")

def showWaiters (l : List Waiter) : String :=
  if l.isEmpty then "." else String.intercalate ";" (l.map fun w =>
    s!"{w.cid}:{w.db}:{if w.left then "L" else "R"}:{String.intercalate "," (w.keys.map toHex)}")

def b01 (b : Bool) : String := if b then "1" else "0"

def step (st : St) (ws : List String) : St × String :=
  match ws with
  | ["reset"] => ({}, "ok")
  | "frame" :: conn :: now :: w :: args =>
    match conn.toNat?, now.toNat?, args.mapM ofHex with
    | some cid, some now, some args =>
      -- <watchOk>: one digit, or two: the outcome of the WATCH check for the source variant, then the prescribed one
      -- (they differ when the source drops watches the property keeps, e.g. UNWATCH run at once inside MULTI)
      if !(["0", "1", "00", "01", "10", "11"].contains w) then (st, "bad-op") else
      let wc := w.take 1 == "1"
      let wsp := (if w.length == 2 then w.drop 1 else w) == "1"
      let r : Req := { cmd := args, now := now, watchOk := wc }
      let rs : Req := { cmd := args, now := now, watchOk := wsp }
      let (l1, r1, d1) := Loop.frame Quirks.ofSource st.L cid r
      let (l2, r2, d2) := Loop.frame Quirks.spec st.L cid rs
      let (p1, _, _) := Loop.frame Quirks.spec st.P cid rs
      let same := l1.srv.store == l2.srv.store && l1.srv.ext == l2.srv.ext && l1.srv.conns cid == l2.srv.conns cid
        && l1.waiters == l2.waiters
      ({ L := l1, P := p1 }, showReply r1 ++ " # " ++ showReply r2 ++ " # " ++ (if same then "same" else "differ")
        ++ " # " ++ showDeliveries d1 ++ " # " ++ showDeliveries d2)
    | _, _, _ => (st, "bad-op")
  | ["disc", conn] =>
    match conn.toNat? with
    | some cid => ({ L := Loop.disconnect Quirks.ofSource st.L cid, P := Loop.disconnect Quirks.spec st.P cid }, "ok")
    | none => (st, "bad-op")
  | ["conn", conn] =>
    match conn.toNat? with
    | some cid =>
      let c := st.L.srv.conns cid
      (st, s!"{c.db} {b01 c.inTx} {c.queue.length} {b01 c.aborted} {b01 (st.L.waiters.any (·.cid == cid))}")
    | none => (st, "bad-op")
  | ["dump", db, now] =>
    match db.toNat?, now.toNat? with
    | some db, some now => (st, Keyspace.showDb now (KS.getDb st.L.srv.store db))
    | _, _ => (st, "bad-op")
  | ["dumpspec", db, now] =>
    match db.toNat?, now.toNat? with
    | some db, some now => (st, Keyspace.showDb now (KS.getDb st.P.srv.store db))
    | _, _ => (st, "bad-op")
  | ["ext"] => (st, showExt st.L.srv.ext)
  | ["waiters"] => (st, showWaiters st.L.waiters)
  | ["switches"] =>
    let q := Quirks.ofSource
    (st, (if q.immediate.isEmpty then "." else String.intercalate "|" q.immediate) ++ " " ++ b01 q.selectInExecIgnored ++ " " ++ b01 q.blockingInExecNoResponse
      ++ " " ++ b01 q.controlArityUnchecked ++ " " ++ b01 q.connCommandsUnderConnZero)
  | _ => (st, "bad-op")

def main : IO Unit := loop step {}

end Ferrous.Drv.Tx
