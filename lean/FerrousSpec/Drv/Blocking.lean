/-
  Driver family `blk` (C13): the blocking event machine `Ferrous.Blk`.

  One session = one line stream.  Keys and elements travel as lower-case hex (`-` = empty).
    cfg <npe> <wap> <uas> <rit> <ddk> <dra> <nbh> <dfb> <xat> <wcc> <svd> <pri> -> ok   quirk switches (0/1): notifyPerElement wakeAtPush
                                                   unregisterAllOnServe refuseBlockingInTx dedupKeys drainAll
                                                   noticeBlockedHangup deferBatchWhenBlocked execAtomic wakeChecksClient
                                                   serveDrains probeReadsInput; resets the state
    reset                              -> ok
    ev wakeups                         -> <A> <tags> <F> <ftags> <outs>
    ev timeouts <now>                  -> <A> <tags> <F> <ftags> <outs>
    ev hangup <c> | ev reap <c>        -> <A> <tags> <F> <ftags> <outs>
    ev kill <c> | ev dirty <c>         -> <A> <tags> <F> <ftags> <outs>     CLIENT KILL of c / c writes bytes, then closes (`hangupDirty`)
    ev conn <c> <now> <cmd> ...        -> <A> <tags> <F> <ftags> <outs>
         cmd  = bpop:<L|R>:<k|k…>:<ms> | push:<L|R>:<k>:<v|v…> | pop:<L|R>:<k> | multi | exec
         A    = 1 iff the event satisfies `eventOk` in the state before it (the history stays `Allowed`)
         tags = which conjunct of `eventOk` failed, joined by `,` (`.` = none): multi-key multi-push
                pop-while-wake exec-conn0 second-bpop hangup-blocked arity
         F    = 1 iff the event satisfies `eventOkF` (the history stays `AllowedFixed`); ftags = which conjunct
                failed: hangup-blocked hangup-behind-bytes second-bpop big-push kill-blocked batch-before-hangup-noticed
         outs = replies written by this event, `c:r` joined by `,` (`.` = none)
         r    = i<n> | b=<k>=<v> | n | p=<k>=<v> | na | ok | q | e | h<n>
    dump <c|c…> <k|k…>                 -> reg=… wq=… lists=… conns=… lost=<n> stranded=… leftover=… unreg=…
         reg      `k:c~dl+c~dl…` per key with waiters (first-appearance order; dl = deadline or inf) joined by `;`
         wq       `c@k` joined by `,`
         lists    `k:v|v…` for every asked key
         conns    `c:<-|B/k|k…/<deadline|inf>/<L|R>><d if frames are deferred><x if peer closed><u if bytes of the peer are unread><g if gone><t if in MULTI>`
         stranded asked (conn@key) blocked on a non-empty key while the wake queue is empty (NoStrandedClient)
         leftover asked conns that are not blocked but named by the registry or the wake queue (NoLeftoverRegistration)
         unreg    asked conns that are blocked but in no queue while the wake queue is empty (RegistryIffBlocked, ←)

  Registry / wake-queue part alone (same lines answered by harness/src/bin/impl_blk.rs from the real
  `BlockingManager`); the state is the machine's, registration goes through `dataCmd`, the scan through `step`:
    rnew                               -> ok
    rreg <c> <L|R> <k|k…> <inf|past|future> -> ok    (`past` = deadline 1, `future` = 10^9; the scan runs at 1000)
    rnotify <k>                        -> ok
    rhas <k>                           -> 0|1
    rwake                              -> c@k@op,…|.   the first `wakeBatch` requests, removed from the queue
    runreg <c>                         -> ok
    rexpire                            -> c,c,…|.      connections answered nil by `step (.timeouts 1000)`, sorted, de-duplicated
    rdump                              -> reg=k:c+c;… wq=<n>
-/
import FerrousSpec.Drv.Util
import FerrousSpec.Model.Blocking
namespace Ferrous.Drv.Blocking
open Ferrous Ferrous.Drv Ferrous.Blk

structure Sess where
  q : Quirks := Quirks.code
  s : State := {}

def joinOr (sep : String) (xs : List String) : String := if xs.isEmpty then "." else String.intercalate sep xs

def readBool : String → Option Bool
  | "0" => some false
  | "1" => some true
  | _ => none

def readOp : String → Option Op
  | "L" => some .left
  | "R" => some .right
  | _ => none

def showOp : Op → String
  | .left => "L"
  | .right => "R"

def readCmd (w : String) : Option Cmd :=
  match w.splitOn ":" with
  | ["bpop", o, ks, t] => do
      let op ← readOp o
      let keys ← parseHexList ks
      let ms ← t.toNat?
      some (.bpop op keys ms)
  | ["push", o, k, vs] => do
      let op ← readOp o
      let key ← ofHex k
      let vals ← parseHexList vs
      some (.push op key vals)
  | ["pop", o, k] => do
      let op ← readOp o
      let key ← ofHex k
      some (.pop op key)
  | ["multi"] => some .multi
  | ["exec"] => some .exec
  | _ => none

def showReply : Reply → String
  | .int n => s!"i{n}"
  | .bulk k v => s!"b={toHex k}={toHex v}"
  | .nil => "n"
  | .pair k v => s!"p={toHex k}={toHex v}"
  | .nilArr => "na"
  | .ok => "ok"
  | .queued => "q"
  | .err => "e"
  | .arrHdr n => s!"h{n}"

def showOuts (os : List (Conn × Reply)) : String :=
  joinOr "," (os.map fun o => s!"{o.1}:{showReply o.2}")

def readEvent : List String → Option Event
  | ["wakeups"] => some .wakeups
  | ["timeouts", n] => n.toNat?.map .timeouts
  | ["hangup", c] => c.toNat?.map .hangup
  | ["reap", c] => c.toNat?.map .reap
  | ["kill", c] => c.toNat?.map .kill
  | ["dirty", c] => c.toNat?.map .hangupDirty
  | "conn" :: c :: n :: cmds => do
      let c ← c.toNat?
      let n ← n.toNat?
      let cs ← cmds.mapM readCmd
      some (.conn c n cs)
  | _ => none

def parseNatList (s : String) : Option (List Nat) :=
  if s == "." then some [] else (s.splitOn "|").mapM (·.toNat?)

/-- keys of the registry in order of first appearance -/
def keysOfReg (reg : List (Key × Waiter)) : List Key :=
  reg.foldl (fun acc e => if acc.contains e.1 then acc else acc ++ [e.1]) []

def showReg (reg : List (Key × Waiter)) : String :=
  joinOr ";" ((keysOfReg reg).map fun k =>
    toHex k ++ ":" ++ String.intercalate "+" ((reg.filter (keyIs k)).map fun e =>
      toString e.2.conn ++ "~" ++ (match e.2.deadline with | none => "inf" | some d => toString d)))

def showRegPlain (reg : List (Key × Waiter)) : String :=
  joinOr ";" ((keysOfReg reg).map fun k =>
    toHex k ++ ":" ++ String.intercalate "+" ((reg.filter (keyIs k)).map fun e => toString e.2.conn))

def showConn (s : State) (c : Conn) : String :=
  let cs := s.conns c
  let b := match cs.blocked with
    | none => "-"
    | some b =>
      let dl := match b.deadline with
        | none => "inf"
        | some d => toString d
      "B/" ++ hexList b.keys ++ "/" ++ dl ++ "/" ++ showOp b.op
  s!"{c}:{b}" ++ (if cs.pending.isEmpty then "" else "d") ++ (if cs.peerClosed then "x" else "") ++ (if cs.unread then "u" else "") ++ (if cs.gone then "g" else "") ++ (if cs.inTx then "t" else "")

def inLine (s : State) (c : Conn) : Bool :=
  s.registry.any (fun e => e.2.conn == c) || s.wakeQ.any (fun w => w.conn == c)

def dump (s : State) (conns : List Conn) (keys : List Key) : String :=
  let wq := joinOr "," (s.wakeQ.map fun w => s!"{w.conn}@{toHex w.key}")
  let lists := joinOr ";" (keys.map fun k => toHex k ++ ":" ++ hexList (listOf s.store k))
  let cs := joinOr ";" (conns.map (showConn s))
  let quiet := s.wakeQ.isEmpty
  let stranded := conns.flatMap fun c =>
    match (s.conns c).blocked with
    | none => []
    | some b => if quiet then (b.keys.filter fun k => !(listOf s.store k).isEmpty).map fun k => s!"{c}@{toHex k}" else []
  let leftover := conns.filter fun c => (s.conns c).blocked.isNone && inLine s c
  let unreg := conns.filter fun c => (s.conns c).blocked.isSome && quiet && !inLine s c
  s!"reg={showReg s.registry} wq={wq} lists={lists} conns={cs} lost={s.lost.length} " ++
  s!"stranded={joinOr "," stranded} leftover={joinOr "," (leftover.map toString)} unreg={joinOr "," (unreg.map toString)}"

/-! Which conjunct of `dataOk` / `eventOk` fails (mirrors Model/Blocking.lean; the check asserts `A = 1 ↔ no tag`). -/

def dataTags (s : State) (cid : Conn) : Cmd → List String
  | .bpop _ keys _ =>
    (if cid == 0 then ["exec-conn0"] else []) ++
    (if keys.length ≥ 2 then ["multi-key"] else []) ++
    (if keys.isEmpty then ["arity"] else []) ++
    (if cid != 0 && (s.conns cid).blocked.isSome then ["second-bpop"] else []) ++
    (if keys.any (fun k => !noWakeFor s k) then ["pop-while-wake"] else [])
  | .push _ _ vs => if vs.length ≥ 2 then ["multi-push"] else if vs.isEmpty then ["arity"] else []
  | .pop _ k => if !noWakeFor s k then ["pop-while-wake"] else []
  | _ => []

def dataSeqTags (q : Quirks) (now : Nat) (c cid : Conn) : State → List Cmd → List String
  | _, [] => []
  | s, cmd :: r => dataTags s cid cmd ++ dataSeqTags q now c cid (dataCmd q now c cid s cmd) r

def topTags (q : Quirks) (now : Nat) (c : Conn) (s : State) : Cmd → List String
  | .multi => []
  | .exec =>
    if (s.conns c).inTx then
      dataSeqTags q now c 0
        (emit (setConn s c fun cs => { cs with inTx := false, queue := [] }) c (.arrHdr (s.conns c).queue.length))
        (s.conns c).queue
    else []
  | cmd => if (s.conns c).inTx then [] else dataTags s c cmd

def topSeqTags (q : Quirks) (now : Nat) (c : Conn) : List Cmd → State → List String
  | [], _ => []
  | cmd :: r, s =>
    topTags q now c s cmd ++
      (if q.deferBatchWhenBlocked && ((topCmd q now c s cmd).conns c).blocked.isSome then []
       else topSeqTags q now c r (topCmd q now c s cmd))

def eventTags (q : Quirks) (s : State) : Event → List String
  | .conn c now cmds =>
    if canRun s c then topSeqTags q now c ((s.conns c).pending ++ cmds) (setConn s c fun cs => { cs with pending := [] })
    else if ghostRun s c then ["hangup-behind-bytes"] else []
  | .hangup c => if (s.conns c).blocked.isSome then ["hangup-blocked"] else []
  | .hangupDirty c => if (s.conns c).blocked.isSome then ["hangup-behind-bytes"] else []
  | .kill c => if (s.conns c).blocked.isSome then ["kill-blocked"] else []
  | _ => []

/-! The same for `dataOkF` / `eventOkF`. -/

def dataTagsF (q : Quirks) (s : State) (cid : Conn) : Cmd → List String
  | .bpop _ _ _ => if cid != 0 && (s.conns cid).blocked.isSome then ["second-bpop"] else []
  | .push _ _ vs => if !q.drainAll && vs.length > wakeBatch then ["big-push"] else []
  | _ => []

def dataSeqTagsF (q : Quirks) (now : Nat) (c cid : Conn) : State → List Cmd → List String
  | _, [] => []
  | s, cmd :: r => dataTagsF q s cid cmd ++ dataSeqTagsF q now c cid (dataCmd q now c cid s cmd) r

def topTagsF (q : Quirks) (now : Nat) (c : Conn) (s : State) : Cmd → List String
  | .multi => []
  | .exec =>
    if (s.conns c).inTx then
      dataSeqTagsF q now c 0
        (emit (setConn s c fun cs => { cs with inTx := false, queue := [] }) c (.arrHdr (s.conns c).queue.length))
        (s.conns c).queue
    else []
  | cmd => if (s.conns c).inTx then [] else dataTagsF q s c cmd

def topSeqTagsF (q : Quirks) (now : Nat) (c : Conn) : List Cmd → State → List String
  | [], _ => []
  | cmd :: r, s =>
    topTagsF q now c s cmd ++
      (if q.deferBatchWhenBlocked && ((topCmd q now c s cmd).conns c).blocked.isSome then []
       else topSeqTagsF q now c r (topCmd q now c s cmd))

def eventTagsF (q : Quirks) (s : State) : Event → List String
  | .conn c now cmds =>
    (if calmReg s then [] else ["batch-before-hangup-noticed"]) ++
    if canRun s c then topSeqTagsF q now c ((s.conns c).pending ++ cmds) (setConn s c fun cs => { cs with pending := [] })
    else if ghostRun s c then ["hangup-behind-bytes"] else []
  | .hangup c => if (s.conns c).blocked.isSome && !(q.noticeBlockedHangup && q.wakeChecksClient) then ["hangup-blocked"] else []
  | .hangupDirty c =>
    if (s.conns c).blocked.isSome && !(q.noticeBlockedHangup && q.wakeChecksClient && q.probeReadsInput) then ["hangup-behind-bytes"] else []
  | .kill c => if (s.conns c).blocked.isSome then ["kill-blocked"] else []
  | _ => []

def step (ss : Sess) (ws : List String) : Sess × String :=
  match ws with
  | "cfg" :: flags =>
    match flags.mapM readBool with
    | some [a, b, c, d, e, f, g, h, i, j, k, l] => ({ q := ⟨a, b, c, d, e, f, g, h, i, j, k, l⟩, s := {} }, "ok")
    | _ => (ss, "bad-op")
  | ["reset"] => ({ ss with s := {} }, "ok")
  | "ev" :: rest =>
    match readEvent rest with
    | none => (ss, "bad-op")
    | some e =>
      let ok := eventOk ss.q ss.s e
      let s' := Blk.step ss.q ss.s e
      let newOut := s'.out.drop ss.s.out.length
      let okF := eventOkF ss.q ss.s e
      ({ ss with s := s' }, (if ok then "1 " else "0 ") ++ joinOr "," (eventTags ss.q ss.s e).eraseDups ++ " " ++
        (if okF then "1 " else "0 ") ++ joinOr "," (eventTagsF ss.q ss.s e).eraseDups ++ " " ++ showOuts newOut)
  | ["rnew"] => ({ ss with s := {} }, "ok")
  | ["rreg", c, o, ks, dl] =>
    match c.toNat?, readOp o, parseHexList ks, (match dl with | "inf" => some 0 | "past" => some 1 | "future" => some 1000000000 | _ => none) with
    | some c, some op, some keys, some t =>
      if keys.isEmpty then (ss, "ok")
      else ({ ss with s := dataCore ss.q 0 c c { ss.s with store := [] } (.bpop op keys t) }, "ok")
    | _, _, _, _ => (ss, "bad-op")
  | ["rnotify", k] =>
    match ofHex k with
    | some k => ({ ss with s := notify k ss.s }, "ok")
    | none => (ss, "bad-op")
  | ["rhas", k] =>
    match ofHex k with
    | some k => (ss, if ss.s.registry.any (keyIs k) then "1" else "0")
    | none => (ss, "bad-op")
  | ["rwake"] =>
    let ws := ss.s.wakeQ.take wakeBatch
    ({ ss with s := { ss.s with wakeQ := ss.s.wakeQ.drop wakeBatch } },
      joinOr "," (ws.map fun w => s!"{w.conn}@{toHex w.key}@{showOp w.op}"))
  | ["runreg", c] =>
    match c.toNat? with
    | some c => ({ ss with s := { ss.s with registry := ss.s.registry.filter fun x => x.2.conn != c } }, "ok")
    | none => (ss, "bad-op")
  | ["rexpire"] =>
    let s' := Blk.step ss.q ss.s (.timeouts 1000)
    let ids := ((s'.out.drop ss.s.out.length).filterMap fun o => if o.2 == Reply.nilArr then some o.1 else none).eraseDups
    let sorted := ids.toArray.qsort (· < ·) |>.toList
    ({ ss with s := s' }, joinOr "," (sorted.map toString))
  | ["rdump"] => (ss, s!"reg={showRegPlain ss.s.registry} wq={ss.s.wakeQ.length}")
  | ["dump", cs, ks] =>
    match parseNatList cs, parseHexList ks with
    | some cs, some ks => (ss, dump ss.s cs ks)
    | _, _ => (ss, "bad-op")
  | _ => (ss, "bad-op")

def main : IO Unit := loop step {}

end Ferrous.Drv.Blocking
