/-
  Driver family `auth`: the connection-level order of processing and the authentication gate (C17).
  The model runs with the lists regenerated from the source (`Gen/Auth.lean`), the concrete
  normalisations and the key-space machine as dispatch (database 0).

  tables                         → preGate=<hexlist> guarded=<hexlist> unknown=<hexlist> allow=<name-hex>:<arm>|… default=<0|1> first=<0|1> names=<n> unreadable=<n> deferral=<absent|blocked-only|unknown> cliRule=<if-given|always|unknown> idStart=<n> subIds=<n|n…>
  names                          → `|`-joined hex of Gen.allCommandNames
  unreadable                     → what the translator could not read (`.` = nothing), entries separated by ` ;; `
  configlines <cli-hexlist> <file-lines-hexlist> → code=<hex|none|error|unknown> spec=<hex|none|error>   the same with the raw LINES of the configuration
                                   file: code = `Code.loadConfig` under the tree's grammar (unknown: not a modelled one — no predictions for this
                                   server), spec = under the prescribed grammar `Grammar.spec`; error = the server does not start; none = it runs OPEN
  reset <password-hex|none>      → ok                         (empty dataset, no connections)
  config <cli-hexlist> <file-hexlist> → code=<hex|none> spec=<hex|none>   fresh server GIVEN these `--requirepass`/`--password` values and these
                                   `requirepass` lines (in order): the password the code ends up with (Gen.cliPasswordRule) and the one the
                                   Spec holds it to (a password given by any means is in force); the Spec verdicts use the latter
  accept <c>                     → state of c afterwards
  wake <c> | close <c> | drop <c> → state of c afterwards
  state <c>                      → connected|authenticated|blocked|closing|none
  classify <name-hex>            → pregate|allowed|refused|unknown   (request of an unauthenticated connection, password set;
                                   unknown = pre-gate special case under a condition the translator cannot interpret: no prediction)
  norm <name-hex>                → <normLoop-hex> <normFrame-hex>
  frame <c> <req>                → <code reply class> # <spec verdict> # <state of c afterwards> # <same|changed> # <replicas>
  batch <c> <req> ; <req> ; …    → <class> / <verdict> ; … # <state of c afterwards (QUIT applied)> # <same|changed> # <replicas>
                                   (`skipped / skipped`: behind a QUIT that ended the batch — neither executed nor answered)
      req  := cmd <name-hex> <arg>… | badname | notarray        arg := <hex> | `~` (not a bulk string)
      reply class := err-noauth | err | ok | pong | echo <hex|~> | leak | continue | d <canonical reply of dispatch> | unknown
      spec verdict (the property's own oracle, from its own record of who presented the exact password):
         authenticated (anything may happen) | must-refuse | harmless (PING, QUIT) | auth-ok | auth-fail
      same|changed: everything except the caller's own connection state (dataset, subscriptions, replicas,
      monitors, other connections)
-/
import FerrousSpec.Drv.Util
import FerrousSpec.Drv.Keyspace
import FerrousSpec.Model.Auth
import FerrousSpec.Gen.Auth
namespace Ferrous.Drv.Auth
open Ferrous Ferrous.Drv Ferrous.Auth

/-- the model instantiated with the regenerated lists (the same definition as `C17.tree`) -/
def tree : Cfg :=
  Cfg.ofTables Gen.preGate Gen.authAllow Code.normLoop (Code.normFrame Gen.frameNameTrimmed) Gen.quitEndsBatch

abbrev Srv := Server KS.Store
abbrev Rep := Reply KS.Store Frame

/-- dispatch behind the gate as the driver instantiates it: PING and QUIT of `process_normal_command`
    (name upper-cased, not trimmed), everything else the key-space machine on database 0 -/
def disp : Dispatch KS.Store Frame := fun s c name args =>
  let n := Code.normLoop name
  if n = PING then
    (s, match args with
        | [] => .simple [80, 79, 78, 71]
        | some a :: _ => .bulk a
        | none :: _ => .int 5)
  else if n = QUIT then (s, KS.ok)
  else ksDispatch {} 1000 s c name args

structure St where
  s : Srv := { password := none, conns := [], store := KS.emptyStore, subs := [], replicas := [], monitors := [] }
  /-- the Spec's own record: connections that presented exactly the password -/
  specAuthed : List Nat := []
  /-- the Spec's own password: what the server was GIVEN (`Spec.configuredPassword`), whatever the code made of it -/
  specPassword : Option Bytes := none
  /-- this server was configured through a part of the source the translator could not read: no predictions -/
  noPred : Bool := false

def showState : Option CState → String
  | none => "none"
  | some .connected => "connected"
  | some .authenticated => "authenticated"
  | some .blocked => "blocked"
  | some .closing => "closing"

def showArg : Arg → String
  | some b => toHex b
  | none => "~"

def showClass : Rep → String
  | .error .noauth => "err-noauth"
  | .error .other => "err"
  | .ok => "ok"
  | .pong => "pong"
  | .echo a => "echo " ++ showArg a
  | .fullResync _ => "leak"
  | .continue_ => "continue"
  | .dispatched r => "d " ++ Keyspace.showReply r

def showArm : Arm → String
  | .auth => "auth" | .ping => "ping" | .okOnly => "okOnly" | .other => "other"

def parseArg (w : String) : Option Arg :=
  if w == "~" then some none else (ofHex w).map some

def parseReq : List String → Option Req
  | ["badname"] => some .badName
  | ["notarray"] => some .notArray
  | "cmd" :: n :: args =>
    match ofHex n, args.mapM parseArg with
    | some n, some as => some (.cmd n as)
    | _, _ => none
  | _ => none

/-- split a token list at `;` -/
def splitSemi : List String → List (List String)
  | [] => [[]]
  | ";" :: t => [] :: splitSemi t
  | w :: t => match splitSemi t with
    | [] => [[w]]
    | g :: gs => (w :: g) :: gs

/-- The property's oracle for one request of connection `c`. -/
def specVerdict (st : St) (c : Nat) (req : Req) : String × Bool :=
  if st.specPassword.isNone ∨ c ∈ st.specAuthed then ("authenticated", false)
  else match req with
    | .cmd name args =>
      let n := tree.normFrame name
      if n = AUTH then
        if Spec.authenticates st.specPassword args then ("auth-ok", true) else ("auth-fail", false)
      else if Spec.mayExecute true false n then ("harmless", false)
      else ("must-refuse", false)
    | _ => ("must-refuse", false)

/-- everything except the caller's own connection state -/
def others (s : Srv) (c : Nat) : Srv := { s with conns := removeConn s.conns c }

/-- names whose pre-gate special case depends on a condition the translator could not interpret: the model
    makes no prediction for them (class `unknown`; the state is left as if the request had been refused) -/
def unknownNames : List Bytes := Gen.preGateUnknownGuard.map fun p => nameBytes p.1

/-- the translator could not read the source (`Gen.unreadable`): the tables are inert defaults, no prediction at all -/
def cliRule : Option CliRule :=
  if Gen.cliPasswordRule = "if-given" then some .ifGiven else if Gen.cliPasswordRule = "always" then some .always else none

/-- the configuration-file grammar of the tree, if it is one of the modelled ones -/
def treeGrammar : Option Grammar :=
  let ws : Option Bool := if Gen.configLineGrammar = "rest-of-line-trimmed" then some false
    else if Gen.configLineGrammar = "first-whitespace-bom" then some true else none
  let uq : Option Bool := if Gen.requirepassValue = "verbatim" then some false
    else if Gen.requirepassValue = "one-sdssplitargs-argument" then some true else none
  match ws, uq with
  | some w, some u => some ⟨w, w, u⟩
  | _, _ => none

def blind : Bool := !Gen.unreadable.isEmpty || cliRule.isNone || !Gen.passwordSourcesUnderstood

def isUnknown : Req → Bool
  | .cmd name _ => blind || unknownNames.contains (Code.normLoop name)
  | _ => blind

def doFrame (st : St) (c : Nat) (req : Req) : St × String × String :=
  let (verdict, nowAuthed) := specVerdict st c req
  -- no prediction: the model state stays, the Spec's own record of who presented the password is kept up to date
  if isUnknown req || st.noPred then ({ st with specAuthed := if nowAuthed then c :: st.specAuthed else st.specAuthed }, "unknown", verdict) else
  let (s', r) := Code.processConnectionFrame tree disp st.s c req
  ({ st with s := s', specAuthed := if nowAuthed then c :: st.specAuthed else st.specAuthed }, showClass r, verdict)

def step (st : St) (ws : List String) : St × String :=
  match ws with
  | ["tables"] =>
    (st, s!"preGate={hexList tree.preGate} guarded={hexList (Gen.preGateGuarded.map nameBytes)} unknown={hexList unknownNames} allow=" ++
      String.intercalate "|" (tree.allow.map fun p => toHex p.1 ++ ":" ++ showArm p.2) ++
      s!" default={if Gen.gateDefaultRefuses then 1 else 0} first={if Gen.gateIsFirst then 1 else 0} names={Gen.allCommandNames.length}" ++
      s!" unreadable={Gen.unreadable.length + (if cliRule.isNone || !Gen.passwordSourcesUnderstood then 1 else 0)} deferral={(Gen.deferral.splitOn ":").head!}" ++
      s!" quitEndsBatch={if Gen.quitEndsBatch then 1 else 0} frameNameTrimmed={if Gen.frameNameTrimmed then 1 else 0}" ++
      s!" configGrammar={Gen.configLineGrammar} requirepassValue={Gen.requirepassValue}" ++
      s!" cliRule={(Gen.cliPasswordRule.splitOn ":").head!} idStart={Gen.connIdStart} subIds=" ++
      (if Gen.substituteConnIds.isEmpty then "." else String.intercalate "|" (Gen.substituteConnIds.map toString)))
  | "configlines" :: cli :: lines :: _ =>
    -- a fresh server started with these command-line passwords and a configuration file with these LINES.  code: what the tree's
    -- grammar (Gen.configLineGrammar, Gen.requirepassValue) makes of them; spec: what the prescribed grammar (`Grammar.spec`) does
    match parseHexList cli, parseHexList lines with
    | some cli, some lines =>
      let out (o : Outcome) : Option (Option Bytes) := match o with
        | .startError => none
        | .running fp => some (Code.effectivePassword (cliRule.getD .ifGiven) cli fp.toList)
      let sout (o : Outcome) : Option (Option Bytes) := match o with
        | .startError => none
        | .running fp => some (Spec.configuredPassword cli fp.toList)
      let shw (o : Option (Option Bytes)) : String := match o with
        | none => "error" | some none => "none" | some (some b) => toHex b
      let sp := sout (Code.loadConfig Grammar.spec lines)
      match treeGrammar with
      | some g =>
        let p := out (Code.loadConfig g lines)
        ({ s := { password := p.getD none, conns := [], store := KS.emptyStore, subs := [], replicas := [], monitors := [] },
           specPassword := sp.getD none, noPred := false }, "code=" ++ shw p ++ " spec=" ++ shw sp)
      | none =>
        -- no prediction: the model state takes the Spec's password so that its connections start as the Spec expects them
        ({ s := { password := sp.getD none, conns := [], store := KS.emptyStore, subs := [], replicas := [], monitors := [] },
           specPassword := sp.getD none, noPred := true }, "code=unknown spec=" ++ shw sp)
    | _, _ => (st, "bad-op")
  | ["names"] => (st, hexList (Gen.allCommandNames.map nameBytes))
  | ["unreadable"] => (st, if Gen.unreadable.isEmpty && Gen.preGateUnknownGuard.isEmpty then "." else
      String.intercalate " ;; " (Gen.unreadable ++ Gen.preGateUnknownGuard.map fun p => s!"preGate guard of {p.1}: {p.2}"))
  | ["reset", pw] =>
    match (if pw == "none" then some none else (ofHex pw).map some) with
    | some p => ({ s := { password := p, conns := [], store := KS.emptyStore, subs := [], replicas := [], monitors := [] }, specPassword := p }, "ok")
    | none => (st, "bad-op")
  | ["config", cli, file] =>
    -- a fresh server given these command-line passwords and these `requirepass` lines (in order)
    match parseHexList cli, parseHexList file with
    | some cli, some file =>
      let p := Code.effectivePassword (cliRule.getD .ifGiven) cli file
      let sp := Spec.configuredPassword cli file
      ({ s := { password := p, conns := [], store := KS.emptyStore, subs := [], replicas := [], monitors := [] }, specPassword := sp },
       (match p with | some b => "code=" ++ toHex b | none => "code=none") ++ " " ++
       (match sp with | some b => "spec=" ++ toHex b | none => "spec=none"))
    | _, _ => (st, "bad-op")
  | ["classify", n] =>
    match ofHex n with
    | some n => (st, if blind || unknownNames.contains (Code.normLoop n) then "unknown" else
        match classify tree n with | .pregate => "pregate" | .allowed => "allowed" | .refused => "refused")
    | none => (st, "bad-op")
  | ["norm", n] =>
    match ofHex n with
    | some n => (st, toHex (tree.normLoop n) ++ " " ++ toHex (tree.normFrame n))
    | none => (st, "bad-op")
  | ["state", c] =>
    match c.toNat? with
    | some c => (st, showState (stateOf st.s.conns c))
    | none => (st, "bad-op")
  | [op, c] =>
    let ev : Option Code.Event := match c.toNat? with
      | none => none
      | some c =>
        if op == "accept" then some (.accept c) else if op == "wake" then some (.wake c)
        else if op == "close" then some (.close c) else if op == "drop" then some (.drop c) else none
    match ev, c.toNat? with
    | some e, some c =>
      let s' := (Code.applyEvent tree disp st.s e).1
      ({ st with s := s', specAuthed := if op == "drop" then st.specAuthed.filter (· ≠ c) else st.specAuthed },
       showState (stateOf s'.conns c))
    | _, _ => (st, "bad-op")
  | "frame" :: c :: rest =>
    match c.toNat?, parseReq rest with
    | some c, some req =>
      let (st', cls, verdict) := doFrame st c req
      (st', s!"{cls} # {verdict} # {showState (stateOf st'.s.conns c)} # " ++
        (if others st'.s c == others st.s c then "same" else "changed") ++ s!" # {st'.s.replicas.length}")
    | _, _ => (st, "bad-op")
  | "batch" :: c :: rest =>
    match c.toNat?, (splitSemi rest).mapM parseReq with
    | some c, some reqs =>
      -- the frame loop: a QUIT that was processed ends the batch when `tree.quitEndsBatch` (what follows is `skipped`: neither
      -- executed nor answered — the Spec says the same: nothing behind QUIT may run)
      let (st', out, quitSeen) := reqs.foldl (fun (acc : St × List String × Bool) req =>
        if acc.2.2 && tree.quitEndsBatch then (acc.1, acc.2.1 ++ ["skipped / skipped"], true) else
        let (st1, cls, verdict) := doFrame acc.1 c req
        (st1, acc.2.1 ++ [cls ++ " / " ++ verdict], acc.2.2 || Code.isQuit tree req)) (st, [], false)
      let s'' := if quitSeen then { st'.s with conns := setState st'.s.conns c .closing } else st'.s
      ({ st' with s := s'' }, String.intercalate " ; " out ++ s!" # {showState (stateOf s''.conns c)} # " ++
        (if others s'' c == others st.s c then "same" else "changed") ++ s!" # {s''.replicas.length}")
    | _, _ => (st, "bad-op")
  | ["replicas"] => (st, toString st.s.replicas.length)
  | _ => (st, "bad-op")

def main : IO Unit := loop step {}

end Ferrous.Drv.Auth
