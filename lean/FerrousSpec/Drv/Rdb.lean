/-
  Driver family `rdb` (C09, reusable for C10): the RDB codec model over the line protocol.

    cfg <ver hex> <dropExpired 0|1> <keepEmptyStream 0|1> <listEscape 0|1> <escapeWrite 0|1>   -> ok
                                           (crate version string, the three loader switches `Fix`, the writer's
                                            escape rule; reader and writer are separate so that a tree with only
                                            one half of the rule is still modelled exactly)
    enclen <n>                          -> <hex>
    declen <hex>                        -> ok <n> <consumed> | err
    encsnap <t> <dataset tokens>        -> <file hex>                     (Rdb.saveSnapshot with the writer switch)
    decsnap <now> <file hex>            -> ok <#allocs> <max alloc> <dataset tokens> | err <kind> <#allocs> <max alloc>
    live <now> <dataset tokens>         -> <dataset tokens>               (Spec: what a restart at `now` must yield)
    hyps <t> <now> <dataset tokens>     -> <wf> <marker> <emptystream> <expires> <reserved>   (0|1 each: the hypotheses /
                                           deviation predicates of the theorems in Props/C09.lean, evaluated on this dataset;
                                           <wf> = well-formed AS WRITTEN by the configured writer, <reserved> = some list is
                                           headed by the marker or the escape string)

  Dataset tokens (same grammar as harness/src/bin/impl_rdb.rs; deadlines are absolute ms):
    `D <db>`, then per key `K <key> <deadline|-> S <val>` | `L <hexlist>` | `T <hexlist>` | `H <flat hexlist>` |
    `Z <flat hexlist: member|8 LE score bytes …>` | `X <n> (<ms>-<seq> <flat hexlist>)*n`.
-/
import FerrousSpec.Drv.Util
import FerrousSpec.Model.Rdb
namespace Ferrous.Drv.Rdb
open Ferrous Ferrous.Drv Ferrous.Rdb

/-! tail-recursive hex transport (values of 70 000 bytes and lists of 65 536 items occur) -/

def nib (c : UInt8) : Option Nat :=
  let n := c.toNat
  if 48 ≤ n ∧ n ≤ 57 then some (n - 48)
  else if 97 ≤ n ∧ n ≤ 102 then some (n - 87)
  else none

def ofHexFast (s : String) : Option Bytes :=
  if s == "-" then some [] else
  let a := s.toUTF8
  if a.size % 2 ≠ 0 ∨ a.size = 0 then none else
  let rec go : Nat → Bytes → Option Bytes
    | 0, acc => some acc
    | i+1, acc =>
      match nib a[2 * i]!, nib a[2 * i + 1]! with
      | some x, some y => go i ((x * 16 + y) :: acc)
      | _, _ => none
  go (a.size / 2) []

def hexChar (n : Nat) : UInt8 := if n < 10 then (48 + n).toUInt8 else (87 + n).toUInt8

def toHexFast (b : Bytes) : String :=
  if b.isEmpty then "-" else
  let arr := b.foldl (fun (a : ByteArray) x => (a.push (hexChar (x / 16 % 16))).push (hexChar (x % 16))) (ByteArray.emptyWithCapacity (2 * b.length))
  String.fromUTF8! arr

def hexListFast (bs : List Bytes) : String :=
  if bs.isEmpty then "." else String.intercalate "|" (bs.map toHexFast)

def parseHexListFast (s : String) : Option (List Bytes) :=
  if s == "." then some [] else (s.splitOn "|").mapM ofHexFast

def pairUp : List Bytes → Option (List (Bytes × Bytes))
  | [] => some []
  | [_] => none
  | a :: b :: t => (pairUp t).map fun r => (a, b) :: r

def flatPairs (ps : List (Bytes × Bytes)) : List Bytes := ps.flatMap fun p => [p.1, p.2]

def parseId (s : String) : Option (Nat × Nat) :=
  match s.splitOn "-" with
  | [a, b] => match a.toNat?, b.toNat? with
    | some x, some y => some (x, y)
    | _, _ => none
  | _ => none

def parseDl (s : String) : Option (Option Nat) :=
  if s == "-" then some none else s.toNat?.map some

partial def parseSEntries : Nat → List String → Option (List SEntry × List String)
  | 0, ts => some ([], ts)
  | n+1, id :: fs :: ts =>
    match parseId id, (parseHexListFast fs).bind pairUp, parseSEntries n ts with
    | some (ms, seq), some fields, some (es, r) => some (⟨ms, seq, fields⟩ :: es, r)
    | _, _, _ => none
  | _, _ => none

/-- tokens → dataset, databases and keys in the order given -/
partial def parseDataset (ts : List String) (acc : Dataset) : Option Dataset :=
  let addEntry (e : Entry) (acc : Dataset) : Option Dataset :=
    match acc.reverse with
    | [] => none
    | (i, db) :: before => some ((before.reverse) ++ [(i, db ++ [e])])
  match ts with
  | [] => some acc
  | "D" :: i :: r => match i.toNat? with
    | some i => parseDataset r (acc ++ [(i, [])])
    | none => none
  | "K" :: k :: dl :: ty :: r =>
    match ofHexFast k, parseDl dl with
    | some k, some dl =>
      if ty == "S" then match r with
        | v :: r' => (ofHexFast v).bind fun v => (addEntry ⟨k, .str v, dl⟩ acc).bind (parseDataset r')
        | _ => none
      else if ty == "L" then match r with
        | v :: r' => (parseHexListFast v).bind fun xs => (addEntry ⟨k, .list xs, dl⟩ acc).bind (parseDataset r')
        | _ => none
      else if ty == "T" then match r with
        | v :: r' => (parseHexListFast v).bind fun xs => (addEntry ⟨k, .set xs, dl⟩ acc).bind (parseDataset r')
        | _ => none
      else if ty == "H" then match r with
        | v :: r' => ((parseHexListFast v).bind pairUp).bind fun fs => (addEntry ⟨k, .hash fs, dl⟩ acc).bind (parseDataset r')
        | _ => none
      else if ty == "Z" then match r with
        | v :: r' => ((parseHexListFast v).bind pairUp).bind fun zs =>
            (addEntry ⟨k, .zset (zs.map fun p => (p.1, leVal p.2)), dl⟩ acc).bind (parseDataset r')
        | _ => none
      else if ty == "X" then match r with
        | n :: r' => match n.toNat? with
          | some n => match parseSEntries n r' with
            | some (es, r'') => (addEntry ⟨k, .stream es, dl⟩ acc).bind (parseDataset r'')
            | none => none
          | none => none
        | _ => none
      else none
    | _, _ => none
  | _ => none

def showDl : Option Nat → String
  | none => "-"
  | some d => toString d

def showValue : Value → String
  | .str b => "S " ++ toHexFast b
  | .list xs => "L " ++ hexListFast xs
  | .set xs => "T " ++ hexListFast xs
  | .hash fs => "H " ++ hexListFast (flatPairs fs)
  | .zset zs => "Z " ++ hexListFast (zs.flatMap fun p => [p.1, u64le p.2])
  | .stream es => "X " ++ toString es.length ++
      String.join (es.map fun e => s!" {e.ms}-{e.seq} " ++ hexListFast (flatPairs e.fields))

def showDataset (d : Dataset) : String :=
  let s := String.join (d.map fun p => s!" D {p.1}" ++
    String.join (p.2.map fun e => s!" K {toHexFast e.key} {showDl e.deadline} " ++ showValue e.val))
  if s.isEmpty then " ." else s

def showErr : Err → String
  | .eof => "eof"
  | .shortString w a => s!"short-string:{w}:{a}"
  | .badLength => "bad-length"
  | .badMagic => "bad-magic"
  | .badVersion => "bad-version"
  | .unknownType t => s!"unknown-type:{t}"
  | .wrongType => "wrong-type"
  | .invalidDb => "invalid-db"
  | .badExpire => "bad-expire"
  | .fuel => "fuel"

structure Cfg where
  ver : Bytes
  fix : Fix
  /-- the writer applies the escape rule -/
  escW : Bool

def maxOf (l : List Nat) : Nat := l.foldl max 0

def step (c : Cfg) (ws : List String) : Cfg × String :=
  match ws with
  | ["cfg", v, a, b, e, w] =>
    match ofHexFast v with
    | some v =>
      if [a, b, e, w].all (fun x => x == "0" || x == "1") then (⟨v, ⟨a == "1", b == "1", e == "1"⟩, w == "1"⟩, "ok")
      else (c, "bad-op")
    | none => (c, "bad-op")
  | ["enclen", n] => match n.toNat? with
    | some n => (c, toHexFast (encLen n))
    | none => (c, "bad-op")
  | ["declen", h] => match ofHexFast h with
    | some d => match readLen d with
      | .ok n r _ => (c, s!"ok {n} {d.length - r.length}")
      | .err _ _ => (c, "err")
    | none => (c, "bad-op")
  | "encsnap" :: t :: toks =>
    match t.toNat?, parseDataset (if toks == ["."] then [] else toks) [] with
    | some t, some d => (c, toHexFast (saveSnapshot c.escW c.ver d t))
    | _, _ => (c, "bad-op")
  | ["decsnap", now, h] =>
    match now.toNat?, ofHexFast h with
    | some now, some bs =>
      match decSnapshotT c.fix bs now with
      | .ok s _ al => (c, s!"ok {al.length} {maxOf al}" ++ showDataset s)
      | .err e al =>
        let tr := (Ferrous.Rdb.Res.err e al : Ferrous.Rdb.Res Store).trace
        (c, s!"err {showErr e} {tr.length} {maxOf tr}")
    | _, _ => (c, "bad-op")
  | "live" :: now :: toks =>
    match now.toNat?, parseDataset (if toks == ["."] then [] else toks) [] with
    | some now, some d => (c, (showDataset (live now d)).trimAscii.toString)
    | _, _ => (c, "bad-op")
  | "hyps" :: t :: now :: toks =>
    match t.toNat?, now.toNat?, parseDataset (if toks == ["."] then [] else toks) [] with
    | some t, some now, some d =>
      let b (x : Bool) : String := if x then "1" else "0"
      (c, s!"{b (datasetWF (escDataset c.escW d))} {b (anyEntry (fun e => startsWithMarker e.val) d)} {b (anyEntry (fun e => isEmptyStream e.val) d)} {b (anyEntry (expiresInDowntime t now) d)} {b (anyEntry (fun e => reservedHead e.val) d)}")
    | _, _, _ => (c, "bad-op")
  | _ => (c, "bad-op")

def main : IO Unit := loop step ⟨[48, 46, 49, 46, 48], Fix.code, false⟩

end Ferrous.Drv.Rdb
