/-
  Driver family `pubsub` (C14): the pub/sub maps, publish with/without de-duplication, the
  set-of-subscriptions spec, the glob matcher and its declarative meaning.

  One session = one line stream; `reset` starts a new history.  Every answer carries the
  `Code` result and the `Spec` result (`C … S …`).
    reset                              -> ok
    sub   <conn> <c|p> <hexlist>       -> C <acks> S <acks>           ack = name,count,isNew
    unsub <conn> <c|p> <hexlist|*>     -> C <acks> S <acks> Q <0|1>   Q 1 = connection had no entry (code stays silent)
    disc  <conn>                       -> ok
    pub   <dedup 0|1> <conn> <ch> <msg>-> C <dels> S <dels>           del = conn,pattern-hex or conn,_
    info  <conn>                       -> C <0|1> <chans> <pats> S <chans> <pats>
    chcount <ch>                       -> <n>
    recv  <dedup 0|1> <idle 0|1> <conn>-> C <events> S <events>       stream read by <conn> over the whole history
                                          (idle 1 = the handlers confirm (P)UNSUBSCRIBE of a client holding nothing;
                                           a nil name is printed `_`)
    glob  <pattern> <text>             -> C <0|1> S <0|1>
    globs <pattern> <hexlist of texts> -> C <0101…> S <0101…>         one digit per text
-/
import FerrousSpec.Drv.Util
import FerrousSpec.Model.PubSub
namespace Ferrous.Drv.PubSub
open Ferrous Ferrous.Drv Ferrous.PubSub

structure Sess where
  code : PubSub.State := {}
  spec : Spec.State := []
  hist : List Op := []      -- newest first

def b01 (b : Bool) : String := if b then "1" else "0"

def joinOr (xs : List String) : String := if xs.isEmpty then "." else String.intercalate "|" xs

def showAcks (as : List Ack) : String :=
  joinOr (as.map fun a => s!"{toHex a.name},{a.count},{b01 a.isNew}")

def showDels (ds : List Delivery) : String :=
  joinOr (ds.map fun d => match d.2 with
    | none => s!"{d.1},_"
    | some p => s!"{d.1},{toHex p}")

def kindCh : Kind → String
  | .chan => "c"
  | .pat => "p"

def showEvent : Event → String
  | .ack a => s!"a:{kindCh a.kind}:{b01 a.un}:{toHex a.name}:{a.count}"
  | .ackNil k n => s!"a:{kindCh k}:1:_:{n}"
  | .message ch m => s!"m:{toHex ch}:{toHex m}"
  | .pmessage p ch m => s!"p:{toHex p}:{toHex ch}:{toHex m}"
  | .published n => s!"n:{n}"

def showEvents (es : List Event) : String := joinOr (es.map showEvent)

def readKind : String → Option Kind
  | "c" => some .chan
  | "p" => some .pat
  | _ => none

def readBool : String → Option Bool
  | "0" => some false
  | "1" => some true
  | _ => none

def doOp (s : Sess) (op : Op) : Sess :=
  { code := Code.next s.code op, spec := Spec.next s.spec op, hist := op :: s.hist }

def step (s : Sess) (ws : List String) : Sess × String :=
  match ws with
  | ["reset"] => ({}, "ok")
  | ["sub", c, k, hs] =>
    match c.toNat?, readKind k, parseHexList hs with
    | some c, some k, some xs =>
      let op := Op.subscribe c k xs
      (doOp s op, s!"C {showAcks (Code.apply s.code op).2} S {showAcks (Spec.apply s.spec op).2}")
    | _, _, _ => (s, "bad-op")
  | ["unsub", c, k, hs] =>
    match c.toNat?, readKind k, (if hs == "*" then some none else (parseHexList hs).map some) with
    | some c, some k, some xs =>
      let op := Op.unsubscribe c k xs
      let q := (aget s.code.subs c).isNone
      (doOp s op, s!"C {showAcks (Code.apply s.code op).2} S {showAcks (Spec.apply s.spec op).2} Q {b01 q}")
    | _, _, _ => (s, "bad-op")
  | ["disc", c] =>
    match c.toNat? with
    | some c => (doOp s (.disconnect c), "ok")
    | none => (s, "bad-op")
  | ["pub", d, c, ch, m] =>
    match readBool d, c.toNat?, ofHex ch, ofHex m with
    | some d, some c, some ch, some m =>
      (doOp s (.publish c ch m), s!"C {showDels (publish d s.code ch)} S {showDels (Spec.deliveries s.spec ch)}")
    | _, _, _, _ => (s, "bad-op")
  | ["info", c] =>
    match c.toNat? with
    | some c =>
      let (present, h) := match aget s.code.subs c with
        | some h => (true, h)
        | none => (false, (([], []) : Held))
      (s, s!"C {b01 present} {hexList h.1} {hexList h.2} S {hexList (Spec.heldBy s.spec c .chan)} {hexList (Spec.heldBy s.spec c .pat)}")
    | none => (s, "bad-op")
  | ["chcount", ch] =>
    match ofHex ch with
    | some ch => (s, s!"{((aget s.code.channels ch).getD []).length}")
    | none => (s, "bad-op")
  | ["recv", d, i, c] =>
    match readBool d, readBool i, c.toNat? with
    | some d, some i, some c =>
      let ops := s.hist.reverse
      (s, s!"C {showEvents (received (Code.log d i {} ops) c)} S {showEvents (received (Spec.log [] ops) c)}")
    | _, _, _ => (s, "bad-op")
  | ["glob", p, t] =>
    match ofHex p, ofHex t with
    | some p, some t => (s, s!"C {b01 (globBytes p t)} S {b01 (Spec.glob p t)}")
    | _, _ => (s, "bad-op")
  | ["globs", p, ts] =>
    match ofHex p, parseHexList ts with
    | some p, some ts =>
      (s, s!"C {String.join (ts.map fun t => b01 (globBytes p t))} S {String.join (ts.map fun t => b01 (Spec.glob p t))}")
    | _, _ => (s, "bad-op")
  | _ => (s, "bad-op")

def main : IO Unit := loop step {}

end Ferrous.Drv.PubSub
