/-
  Driver family `conn` (C05): the connection loop over the key-space machine.

  reset                          → ok
  run <now-ms> <chunk-hex|…>     → <reply> ; <reply> ; … # open|closed     (one connection, fresh parser, persistent dataset)
-/
import FerrousSpec.Drv.Keyspace
import FerrousSpec.Model.Conn
namespace Ferrous.Drv.Conn
open Ferrous Ferrous.Drv Ferrous.KS Ferrous.Conn

def bulkArgs : List Frame → Option (List Bytes)
  | [] => some []
  | .bulk b :: r => (bulkArgs r).map (b :: ·)
  | _ => none

/-- the handler: data commands through `KS.step` on database 0; PING and ECHO; anything else an error -/
def handler (now : Nat) (s : Store) (f : Frame) : Store × Frame :=
  match f with
  | .array (.bulk n :: rest) =>
    match bulkArgs rest with
    | none =>
      -- ECHO returns its argument frame as it is, whatever its type
      if String.ofList ((upperBytes n).map fun b => Char.ofNat b) = "ECHO" ∧ rest.length = 1 then (s, rest.headD KS.err)
      else (s, KS.err)
    | some args =>
      let name := String.ofList ((upperBytes n).map fun b => Char.ofNat b)
      if name = "PING" then
        match args with
        | [] => (s, .simple (strBytes "PONG"))
        | m :: _ => (s, .bulk m)      -- the code echoes the first argument whatever the arity
      else if name = "ECHO" then
        match args with
        | [m] => (s, .bulk m)
        | _ => (s, KS.err)
      else KS.step Quirks.spec s 0 now (n :: args) none
  | _ => (s, KS.err)

def step (st : Store) (ws : List String) : Store × String :=
  match ws with
  | ["reset"] => (emptyStore, "ok")
  | ["run", now, hs] =>
    match now.toNat?, parseHexList hs with
    | some now, some cs =>
      let o := connRun (handler now) st [] cs
      (o.state, (if o.replies.isEmpty then "." else String.intercalate " ; " (o.replies.map Keyspace.showReply))
        ++ " # " ++ (if o.closed then "closed" else "open"))
    | _, _ => (st, "bad-op")
  | _ => (st, "bad-op")

def main : IO Unit := loop step emptyStore

end Ferrous.Drv.Conn
