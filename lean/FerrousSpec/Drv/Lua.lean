/-
  Driver family `lua` (property C12): the conversions and call programs of Model/Lua.lean.

  reset                                   → ok          (empty store, empty script cache; switches unchanged)
  refused                                 → the names of `Lua.refusedNames`, joined by `|`
  cfg depthlimit <n>                      → ok          (reply-depth limit of the return-value conversion, 0 = none: `ret`, `eval`, `evalsha` then answer
                                                         the error reply for a value nested deeper)
  quirks <name>=<0|1> …                   → ok          (the `Lua.Quirks` switches the `code` answers use; default: `Quirks.code`)
  ksquirks <name>=<0|1> …                 → ok          (the `KS.Quirks` switches of the key-space machine)
  cmd <db> <now> <arg-hex>…               → <reply>     (a direct command on the model store)
  dump <db> <now>                         → canonical dump of one database (as drv_ks)
  conv <variant> <frame tokens>           → <code reply> # <spec reply> # <tags>
        what a script `return <variant>(redis.call(...))` replies when the command replied <frame>:
        variant ∈ raw | praw | type | ptype | isfalse | isnil | wrap | len   (p… = redis.pcall)
  ret <luaval tokens>                     → <code reply> # <spec reply> # <tags>      (`return <value>`)
  env <hex>                               → <code hex> # <spec hex>                  (a KEYS / ARGV element as the script sees it)
  eval <db> <now> K <hexlist> A <hexlist> S <step>… R <ret>
                                          → <code reply> # <spec reply> # same|differ # <tags>
        runs the program on the model store (the state follows the `code` answer)
        step: c:<arg>,<arg>…  (redis.call)  |  p:<arg>,…  (redis.pcall);  arg: l<hex> | a<i> | k<i> | u
        ret:  res:<i> type:<i> isfalse:<i> isnil:<i> wrap:<i> len:<i> argv:<i> key:<i> lenargv:<i> lenkey:<i> all | val <luaval tokens>
  load <sha-hex> S <step>… R <ret>        → ok          (SCRIPT LOAD: program stored under the sha)
  evalsha <db> <now> <sha-hex> K <hexlist> A <hexlist>
                                          → as eval

  luaval tokens: nil | true | false | ( int n ) | ( num n d ) | ( str hex ) | ( tbl v… ) | ( err hex ) | ( status hex )
  tags: the switches without which the `code` answer would be different (`.` = none).
  Errors are shown as `( e )` (wording is never compared).
-/
import FerrousSpec.Drv.Util
import FerrousSpec.Drv.Keyspace
import FerrousSpec.Model.Lua
namespace Ferrous.Drv.Lua
open Ferrous Ferrous.Drv Ferrous.Lua

partial def showReply : Frame → String
  | .error _ => "( e )"
  | .array xs => "( a" ++ String.join (xs.map fun x => " " ++ showReply x) ++ " )"
  | f => showFrame f

mutual
partial def readVal : List String → Option (LuaVal × List String)
  | "nil" :: r => some (.nil, r)
  | "true" :: r => some (.bool true, r)
  | "false" :: r => some (.bool false, r)
  | "(" :: "int" :: n :: ")" :: r => n.toInt?.map fun i => (.int i, r)
  | "(" :: "num" :: n :: d :: ")" :: r =>
    match n.toInt?, d.toNat? with
    | some n, some d => if d = 0 then none else some (.num n d, r)
    | _, _ => none
  | "(" :: "str" :: h :: ")" :: r => (ofHex h).map fun b => (.str b, r)
  | "(" :: "err" :: h :: ")" :: r => (ofHex h).map fun b => (.errTable b, r)
  | "(" :: "status" :: h :: ")" :: r => (ofHex h).map fun b => (.statusTable b, r)
  | "(" :: "tbl" :: r => (readVals r).map fun (xs, r') => (.table xs, r')
  | _ => none
partial def readVals : List String → Option (List LuaVal × List String)
  | ")" :: r => some ([], r)
  | toks => match readVal toks with
    | none => none
    | some (v, r) => match readVals r with
      | none => none
      | some (vs, r') => some (v :: vs, r')
end

def setQuirk (q : Quirks) (kv : String) : Option Quirks :=
  match kv.splitOn "=" with
  | [k, v] =>
    if v != "0" && v != "1" then none else
    let b := v == "1"
    if k == "nilBulkIsNil" then some { q with nilBulkIsNil := b }
    else if k == "statusIsString" then some { q with statusIsString := b }
    else if k == "lossyStrings" then some { q with lossyStrings := b }
    else if k == "pcallErrIsNil" then some { q with pcallErrIsNil := b }
    else if k == "falseIsZero" then some { q with falseIsZero := b }
    else if k == "fracIsBulk" then some { q with fracIsBulk := b }
    else if k == "emptyTableIsNil" then some { q with emptyTableIsNil := b }
    else if k == "okErrTablesIgnored" then some { q with okErrTablesIgnored := b }
    else if k == "utf8ArgsOnly" then some { q with utf8ArgsOnly := b }
    else if k == "evalshaDb0" then some { q with evalshaDb0 := b }
    else none
  | _ => none

/-- the variants of `q` with one switch that is on turned off, with the switch's name -/
def singleFixes (q : Quirks) : List (String × Quirks) :=
  (if q.nilBulkIsNil then [("nilBulkIsNil", { q with nilBulkIsNil := false })] else []) ++
  (if q.statusIsString then [("statusIsString", { q with statusIsString := false })] else []) ++
  (if q.lossyStrings then [("lossyStrings", { q with lossyStrings := false })] else []) ++
  (if q.pcallErrIsNil then [("pcallErrIsNil", { q with pcallErrIsNil := false })] else []) ++
  (if q.falseIsZero then [("falseIsZero", { q with falseIsZero := false })] else []) ++
  (if q.fracIsBulk then [("fracIsBulk", { q with fracIsBulk := false })] else []) ++
  (if q.emptyTableIsNil then [("emptyTableIsNil", { q with emptyTableIsNil := false })] else []) ++
  (if q.okErrTablesIgnored then [("okErrTablesIgnored", { q with okErrTablesIgnored := false })] else []) ++
  (if q.utf8ArgsOnly then [("utf8ArgsOnly", { q with utf8ArgsOnly := false })] else []) ++
  (if q.evalshaDb0 then [("evalshaDb0", { q with evalshaDb0 := false })] else [])

/-- `Quirks.spec` with one switch (that is on in `q`) turned on, with the switch's name -/
def singleBreaks (q : Quirks) : List (String × Quirks) :=
  let s := Quirks.spec
  (if q.nilBulkIsNil then [("nilBulkIsNil", { s with nilBulkIsNil := true })] else []) ++
  (if q.statusIsString then [("statusIsString", { s with statusIsString := true })] else []) ++
  (if q.lossyStrings then [("lossyStrings", { s with lossyStrings := true })] else []) ++
  (if q.pcallErrIsNil then [("pcallErrIsNil", { s with pcallErrIsNil := true })] else []) ++
  (if q.falseIsZero then [("falseIsZero", { s with falseIsZero := true })] else []) ++
  (if q.fracIsBulk then [("fracIsBulk", { s with fracIsBulk := true })] else []) ++
  (if q.emptyTableIsNil then [("emptyTableIsNil", { s with emptyTableIsNil := true })] else []) ++
  (if q.okErrTablesIgnored then [("okErrTablesIgnored", { s with okErrTablesIgnored := true })] else []) ++
  (if q.utf8ArgsOnly then [("utf8ArgsOnly", { s with utf8ArgsOnly := true })] else []) ++
  (if q.evalshaDb0 then [("evalshaDb0", { s with evalshaDb0 := true })] else [])

/-- names of the switches that matter for the answer `f q`: those whose repair alone changes the
    `code` answer, and those whose presence alone changes the `spec` answer -/
def tagsOf {α : Type} [BEq α] (q : Quirks) (f : Quirks → α) : String :=
  let base := f q
  let spec := f Quirks.spec
  let t1 := (singleFixes q).filterMap fun (n, q') => if f q' == base then none else some n
  let t2 := (singleBreaks q).filterMap fun (n, q') => if f q' == spec then none else some n
  let ts := t1 ++ t2.filter fun n => !t1.contains n
  if ts.isEmpty then "." else String.intercalate "," ts

/-- the reply of `return <variant>(redis.[p]call(cmd))` when the command replied `f` -/
def convVariant (variant : String) (q : Quirks) (f : Frame) : Option Frame :=
  let pc := variant.startsWith "p"
  let kind := if pc then (variant.drop 1).toString else variant
  let r : Except Bytes LuaVal :=
    match respToLua q f with
    | .errTable m => if pc then .ok (pcallFailure q m) else .error m
    | v => .ok v
  let ret : Option Ret :=
    if kind == "raw" then some (.res 1) else if kind == "type" then some (.typeOf 1)
    else if kind == "isfalse" then some (.isFalse 1) else if kind == "isnil" then some (.isNil 1)
    else if kind == "wrap" then some (.wrap 1) else if kind == "len" then some (.lenRes 1) else none
  match ret with
  | none => none
  | some ret =>
    match r with
    | .error m => some (.error m)
    | .ok v =>
      match evalRet { keys := [], argv := [] } [v] ret with
      | some x => some (luaToResp q x)
      | none => some scriptErr

def parseArg (s : String) : Option Arg :=
  if s == "u" then some .unpackArgv
  else match s.toList with
    | 'l' :: h => (ofHex (String.ofList h)).map .lit
    | 'a' :: n => (String.ofList n).toNat?.map .argv
    | 'k' :: n => (String.ofList n).toNat?.map .key
    | _ => none

def parseStep (s : String) : Option Step :=
  match s.splitOn ":" with
  | [k, as] =>
    if k != "c" && k != "p" then none else
    let toks := if as == "" then [] else as.splitOn ","
    (toks.mapM parseArg).map fun args => { pcall := k == "p", args := args }
  | _ => none

def parseRet (ws : List String) : Option Ret :=
  match ws with
  | ["all"] => some .all
  | "val" :: toks =>
    match readVal toks with
    | some (v, []) => some (.val v)
    | _ => none
  | [w] =>
    match w.splitOn ":" with
    | [k, n] =>
      match n.toNat? with
      | none => none
      | some i =>
        if k == "res" then some (.res i) else if k == "type" then some (.typeOf i)
        else if k == "isfalse" then some (.isFalse i) else if k == "isnil" then some (.isNil i)
        else if k == "wrap" then some (.wrap i) else if k == "len" then some (.lenRes i)
        else if k == "argv" then some (.argv i) else if k == "key" then some (.key i)
        else if k == "lenargv" then some (.lenArgv i) else if k == "lenkey" then some (.lenKey i)
        else none
    | _ => none
  | _ => none

/-- `S <step>… R <ret…>` -/
def parseProgram (ws : List String) : Option Program :=
  match ws with
  | "S" :: rest =>
    let steps := rest.takeWhile (· != "R")
    match rest.dropWhile (· != "R") with
    | "R" :: r =>
      match steps.mapM parseStep, parseRet r with
      | some st, some ret => some { steps := st, ret := ret }
      | _, _ => none
    | _ => none
  | _ => none

structure St where
  q : Quirks := Quirks.code
  kq : KS.Quirks := {}
  s : KS.Store := KS.emptyStore
  cache : Cache := []
  /-- reply-depth limit of `lua_value_to_resp` (0 = none); sent by lib/c12.py from the regenerated fact -/
  limit : Nat := 0

def answer (st : St) (run : Quirks → KS.Store × Frame) : St × String :=
  let (s', r) := run st.q
  let (s'', r') := run Quirks.spec
  ({ st with s := s' },
    showReply r ++ " # " ++ showReply r' ++ " # " ++ (if s' == s'' then "same" else "differ") ++ " # " ++
      tagsOf st.q fun q => (showReply (run q).2, (run q).1 == s'))

def step (st : St) (ws : List String) : St × String :=
  match ws with
  | ["reset"] => ({ st with s := KS.emptyStore, cache := [] }, "ok")
  | ["refused"] => (st, String.intercalate "|" refusedNames)
  | ["cfg", "depthlimit", n] =>
    match n.toNat? with
    | some n => ({ st with limit := n }, "ok")
    | none => (st, "bad-op")
  | "quirks" :: kvs =>
    match kvs.foldlM setQuirk st.q with
    | some q => ({ st with q := q }, "ok")
    | none => (st, "bad-op")
  | "ksquirks" :: kvs =>
    match kvs.foldlM Ferrous.Drv.Keyspace.setQuirk st.kq with
    | some q => ({ st with kq := q }, "ok")
    | none => (st, "bad-op")
  | "cmd" :: db :: now :: args =>
    match db.toNat?, now.toNat?, args.mapM ofHex with
    | some db, some now, some args =>
      if db ≥ 16 then (st, "bad-op") else
      let (s', r) := KS.step st.kq st.s db now args none
      ({ st with s := s' }, showReply r)
    | _, _, _ => (st, "bad-op")
  | ["dump", db, now] =>
    match db.toNat?, now.toNat? with
    | some db, some now => (st, Ferrous.Drv.Keyspace.showDb now (KS.getDb st.s db))
    | _, _ => (st, "bad-op")
  | "conv" :: variant :: toks =>
    match readFrame toks with
    | some (f, []) =>
      match convVariant variant st.q f, convVariant variant Quirks.spec f with
      | some a, some b =>
        (st, showReply a ++ " # " ++ showReply b ++ " # " ++ tagsOf st.q fun q => (convVariant variant q f).map showReply)
      | _, _ => (st, "bad-op")
    | _ => (st, "bad-op")
  | "ret" :: toks =>
    match readVal toks with
    | some (v, []) =>
      let conv := fun (q : Quirks) => if st.limit = 0 then luaToResp q v else (luaToRespD q st.limit v 0).getD stackLimitErr
      (st, showReply (conv st.q) ++ " # " ++ showReply (conv Quirks.spec) ++ " # " ++
        tagsOf st.q fun q => showReply (conv q))
    | _ => (st, "bad-op")
  | ["env", h] =>
    match ofHex h with
    | some b => (st, toHex (st.q.ls b) ++ " # " ++ toHex (Quirks.spec.ls b))
    | none => (st, "bad-op")
  | "eval" :: db :: now :: "K" :: ks :: "A" :: as :: prog =>
    match db.toNat?, now.toNat?, parseHexList ks, parseHexList as, parseProgram prog with
    | some db, some now, some ks, some as, some p =>
      if db ≥ 16 then (st, "bad-op") else
      answer st fun q => if st.limit = 0 then eval q st.kq st.s db now ks as p else evalB q st.kq st.limit st.s db now ks as p
    | _, _, _, _, _ => (st, "bad-op")
  | "load" :: sha :: prog =>
    match ofHex sha, parseProgram prog with
    | some sha, some p => ({ st with cache := (sha, p) :: st.cache }, "ok")
    | _, _ => (st, "bad-op")
  | ["evalsha", db, now, sha, "K", ks, "A", as] =>
    match db.toNat?, now.toNat?, ofHex sha, parseHexList ks, parseHexList as with
    | some db, some now, some sha, some ks, some as =>
      if db ≥ 16 then (st, "bad-op") else
      answer st fun q =>
        if st.limit = 0 then evalsha q st.kq st.cache st.s db now sha ks as else
        match cacheGet st.cache sha with
        | none => (st.s, noScript)
        | some p => evalB q st.kq st.limit st.s (if q.evalshaDb0 then 0 else db) now ks as p
    | _, _, _, _, _ => (st, "bad-op")
  | _ => (st, "bad-op")

def main : IO Unit := loop step {}

end Ferrous.Drv.Lua
