/-
  Driver family `dbs` (C18): the connection machine over the 16 databases.

  reset                                           → ok            (empty server, no connections; switches kept)
  switches                                        → evalshaDb0=<0|1> scriptDbCmdsDb0=<0|1> execSelectNoop=<0|1>   (initially: read off Gen/Dispatch.lean)
  switches <name>=<0|1> …                         → ok
  blockingcfg [<name>=<0|1> …]                    → deferExec=.. notifyOnce=.. noticeHangup=..  (from Gen/Blocking.lean; setting it resets the state)
  timeout <conn>                                  → `.` or `<conn>:( na )`: the time-out of a blocked client fires
  close <conn>                                    → ghost | gone: the client closes its socket (ghost: blocked and unnoticed, stays registered)
  luaquirks                                       → the conversion switches of Gen/Lua.lean (`Gen.luaQuirksSeen`) the script replies are converted with
  req <conn> <now> <obs> plain <arg-hex>…         → <reply> # <served> # <accesses> # <spec reply> # <spec served> # same|differ # <sel>
  req <conn> <now> _ script <0|1> <forms> <cmd>/<cmd>… → (same)  cmd = arg-hex joined by `,`; 1 = EVALSHA, 0 = EVAL; forms = one letter per
                                                    call: `c` redis.call, `p` redis.pcall
      reply: a frame (errors as `( e )`) or `noreply`; served: `.` or `<conn>:<frame>` joined by ` ;; `;
      accesses: `.` or `<path>:<db>:<sel>` joined by `,` (what the code variant did);
      the state follows the code variant (current switches); the spec reply / post-state are those of `Switches.fixed`
      from the same pre-state; `same` compares stores, selections, MULTI and blocked flags of all connections seen so far.
      Script replies (also inside an EXEC reply) are passed through C12's model of the Lua conversion (Model/Lua.lean) with the
      switches regenerated from lua_engine.rs (Gen/Lua.lean).
  dumpall <now>                                   → 16 canonical dumps joined by ` || `
  sels <conn>…                                    → selections, blank-separated
  probe <now> <arg-hex>…                          → the reply this command would get on each of the 16 databases, joined by ` || ` (state unchanged)
-/
import FerrousSpec.Drv.Util
import FerrousSpec.Drv.Keyspace
import FerrousSpec.Proofs.DbsCode
import FerrousSpec.Model.Lua
import FerrousSpec.Gen.Lua
import FerrousSpec.Gen.Blocking
namespace Ferrous.Drv.Dbs
open Ferrous Ferrous.Drv Ferrous.KS Ferrous.Dbs

/-- The reply conversion of the script path is C12's subject: its model (Model/Lua.lean: `respToLua` then `luaToResp`,
    i.e. `resp_frame_to_lua_value` followed by `lua_value_to_resp` for the wrapper script's `return redis.call(..)`) is
    used as it is, with the quirk switches the translator reads off lua_engine.rs on every run (`Gen.luaQuirksSeen`,
    translator/lua_tables.py) — a conversion fix in /repo flips a generated switch and this driver follows. -/
def seen (name : String) : Bool :=
  match Gen.luaQuirksSeen.find? (fun p => p.1 == name) with
  | some p => p.2
  | none => false

def luaQuirks : Lua.Quirks :=
  { nilBulkIsNil := seen "nilBulkIsNil", statusIsString := seen "statusIsString", lossyStrings := seen "lossyStrings",
    pcallErrIsNil := seen "pcallErrIsNil", falseIsZero := seen "falseIsZero", fracIsBulk := seen "fracIsBulk",
    emptyTableIsNil := seen "emptyTableIsNil", okErrTablesIgnored := seen "okErrTablesIgnored",
    utf8ArgsOnly := seen "utf8ArgsOnly", evalshaDb0 := seen "evalshaDb0" }

def luaConv (f : Frame) : Frame := Lua.luaToResp luaQuirks (Lua.respToLua luaQuirks f)

def showPath : Path → String
  | .direct => "direct"
  | .exec => "exec"
  | .script false => "eval"
  | .script true => "evalsha"
  | .served => "served"

def showAccesses (as : List Access) : String :=
  if as.isEmpty then "." else String.intercalate "," (as.map fun a => s!"{showPath a.path}:{a.db}:{a.sel}")

def showServed (xs : List (Nat × Frame)) : String :=
  if xs.isEmpty then "." else String.intercalate " ;; " (xs.map fun p => s!"{p.1}:{Keyspace.showReply p.2}")

/-- Lua conversion where the reply came out of a script -/
def convReply (pre : Conn) (r : Req) (f : Frame) : Frame :=
  match r with
  | .script _ _ _ => if pre.inMulti then f else luaConv f
  | .plain a _ =>
    if nameOf a == "EXEC" && pre.inMulti then
      match f with
      | .array xs => .array ((xs.zip pre.queue).map fun p => match p.2 with
          | .script _ _ _ => luaConv p.1
          | _ => p.1)
      | g => g
    else f

def showOut (pre : Conn) (r : Req) (o : Out) : String :=
  match o.reply with
  | none => "noreply"
  | some f => Keyspace.showReply (convReply pre r f)

def setSwitch (w : Switches) (kv : String) : Option Switches :=
  match kv.splitOn "=" with
  | [k, v] =>
    if v != "0" && v != "1" then none else
    let b := v == "1"
    if k == "evalshaDb0" then some { w with evalshaDb0 := b }
    else if k == "scriptDbCmdsDb0" then some { w with scriptDbCmdsDb0 := b }
    else if k == "execSelectNoop" then some { w with execSelectNoop := b }
    else none
  | _ => none

def b01 (b : Bool) : String := if b then "1" else "0"

/-- configuration of the wake-up machinery as C13's translator reads it off the source (Gen/Blocking.lean): it decides WHEN a
    blocked client is served, never on which database; the driver follows the tree so that C13's repairs do not break C18 -/
structure BCfg where
  deferExec : Bool := Gen.Blocking.execAtomic || !Gen.Blocking.wakeAtPush
  notifyOnce : Bool := !Gen.Blocking.notifyPerElement
  noticeHangup : Bool := Gen.Blocking.noticeBlockedHangup
  sweep : Bool := Gen.Dispatch.sweepAfterScript

def freshState (b : BCfg) : State :=
  { cfgDeferExecWakes := b.deferExec, cfgNotifyOnce := b.notifyOnce, cfgNoticeHangup := b.noticeHangup,
    cfgSweepAfterScript := b.sweep }

structure St where
  w : Switches := codeSwitches
  q : Quirks := {}
  b : BCfg := {}
  s : State := freshState {}
  seen : List Nat := []

def setCfg (b : BCfg) (kv : String) : Option BCfg :=
  match kv.splitOn "=" with
  | [k, v] =>
    if v != "0" && v != "1" then none else
    let x := v == "1"
    if k == "deferExec" then some { b with deferExec := x }
    else if k == "notifyOnce" then some { b with notifyOnce := x }
    else if k == "noticeHangup" then some { b with noticeHangup := x }
    else if k == "sweep" then some { b with sweep := x }
    else none
  | _ => none

def sameOn (seen : List Nat) (a b : State) : Bool :=
  a.store == b.store && a.waiting == b.waiting && a.wakes == b.wakes &&
  seen.all fun c => a.conns c == b.conns c

def parseScript (s : String) : Option (List (List Bytes)) :=
  (s.splitOn "/").mapM fun c => (c.splitOn ",").mapM ofHex

/-- `c` = redis.call, `p` = redis.pcall, one letter per call -/
def parseForms (s : String) (n : Nat) : Option (List Bool) :=
  let cs := s.toList
  if cs.length != n || !cs.all (fun c => c == 'c' || c == 'p') then none else some (cs.map (· == 'p'))

def doReq (st : St) (c now : Nat) (r : Req) : St × String :=
  let s0 := { st.s with log := [] }
  let pre := s0.conns c
  let (s1, o1) := exec st.w st.q s0 now c r
  let (s2, o2) := exec Switches.fixed st.q s0 now c r
  let seen := if st.seen.contains c then st.seen else c :: st.seen
  let same := sameOn seen s1 s2
  ({ st with s := s1, seen := seen },
   showOut pre r o1 ++ " # " ++ showServed o1.served ++ " # " ++ showAccesses s1.log ++ " # " ++
   showOut pre r o2 ++ " # " ++ showServed o2.served ++ " # " ++ (if same then "same" else "differ") ++ " # " ++ toString (s1.conns c).db)

def step (st : St) (ws : List String) : St × String :=
  match ws with
  | ["reset"] => ({ st with s := freshState st.b, seen := [] }, "ok")
  | ["blockingcfg"] =>
    (st, s!"deferExec={b01 st.b.deferExec} notifyOnce={b01 st.b.notifyOnce} noticeHangup={b01 st.b.noticeHangup} sweep={b01 st.b.sweep}")
  | "blockingcfg" :: kvs =>
    match kvs.foldlM setCfg st.b with
    | some b => ({ st with b := b, s := freshState b, seen := [] }, "ok")
    | none => (st, "bad-op")
  | ["timeout", c] =>
    match c.toNat? with
    | some c => let r := timeoutConn st.s c; ({ st with s := r.1 }, showServed r.2)
    | none => (st, "bad-op")
  | ["close", c] =>
    match c.toNat? with
    | some c => ({ st with s := closeConn st.s c }, if (st.s.conns c).blocked && !st.s.cfgNoticeHangup then "ghost" else "gone")
    | none => (st, "bad-op")
  | ["switches"] =>
    (st, s!"evalshaDb0={b01 st.w.evalshaDb0} scriptDbCmdsDb0={b01 st.w.scriptDbCmdsDb0} execSelectNoop={b01 st.w.execSelectNoop}")
  | ["luaquirks"] =>
    (st, String.intercalate " " (Gen.luaQuirksSeen.map fun p => s!"{p.1}={b01 p.2}"))
  | "switches" :: kvs =>
    match kvs.foldlM setSwitch st.w with
    | some w => ({ st with w := w }, "ok")
    | none => (st, "bad-op")
  | "req" :: c :: now :: obs :: "plain" :: args =>
    match c.toNat?, now.toNat?, args.mapM ofHex, (if obs == "_" then some none else (parseHexList obs).map some) with
    | some c, some now, some args, some obs => doReq st c now (.plain args obs)
    | _, _, _, _ => (st, "bad-op")
  | ["req", c, now, "_", "script", sha, forms, cmds] =>
    match c.toNat?, now.toNat?, parseScript cmds with
    | some c, some now, some cmds =>
      match parseForms forms cmds.length with
      | some pcs =>
        if sha == "0" then doReq st c now (.script false cmds pcs)
        else if sha == "1" then doReq st c now (.script true cmds pcs)
        else (st, "bad-op")
      | none => (st, "bad-op")
    | _, _, _ => (st, "bad-op")
  | ["dumpall", now] =>
    match now.toNat? with
    | some now => (st, String.intercalate " || " ((List.range numDbs).map fun i => Keyspace.showDb now (getDb st.s.store i)))
    | none => (st, "bad-op")
  | "sels" :: cs =>
    match cs.mapM String.toNat? with
    | some cs => (st, String.intercalate " " (cs.map fun c => toString (st.s.conns c).db))
    | none => (st, "bad-op")
  | "probe" :: now :: args =>
    match now.toNat?, args.mapM ofHex with
    | some now, some args =>
      (st, String.intercalate " || " ((List.range numDbs).map fun i => Keyspace.showReply (KS.step st.q st.s.store i now args none).2))
    | _, _ => (st, "bad-op")
  | _ => (st, "bad-op")

def main : IO Unit := loop step {}

end Ferrous.Drv.Dbs
