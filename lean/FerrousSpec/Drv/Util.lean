/-
  Line-protocol utilities shared by every driver family — import-free.
-/
import FerrousSpec.Model.Resp
namespace Ferrous.Drv
open Ferrous

def words (line : String) : List String :=
  (line.trimAscii.toString.splitOn " ").filter (· ≠ "")

def hexList (bs : List Bytes) : String :=
  if bs.isEmpty then "." else String.intercalate "|" (bs.map toHex)

def parseHexList (s : String) : Option (List Bytes) :=
  if s == "." then some [] else (s.splitOn "|").mapM ofHex

/-! Frame s-expressions with blank-separated tokens: `( a ( b 6162 ) ( i 5 ) )`. -/

mutual
partial def showFrame : Frame → String
  | .simple b => s!"( s {toHex b} )"
  | .error b => s!"( e {toHex b} )"
  | .int n => s!"( i {n} )"
  | .bulk b => s!"( b {toHex b} )"
  | .nullBulk => "( nb )"
  | .array xs => "( a" ++ showFrames xs ++ " )"
  | .nullArray => "( na )"
  | .null => "( n )"
  | .bool true => "( t )"
  | .bool false => "( f )"
  | .double l => s!"( d {toHex l} )"
  | .map xs => "( m" ++ showFrames xs ++ " )"
  | .set xs => "( S" ++ showFrames xs ++ " )"
partial def showFrames : List Frame → String
  | [] => ""
  | f :: fs => " " ++ showFrame f ++ showFrames fs
end

mutual
/-- Parse one frame from a token list; returns the frame and the remaining tokens. -/
partial def readFrame : List String → Option (Frame × List String)
  | "(" :: "s" :: h :: ")" :: r => (ofHex h).map fun b => (.simple b, r)
  | "(" :: "e" :: h :: ")" :: r => (ofHex h).map fun b => (.error b, r)
  | "(" :: "i" :: n :: ")" :: r => n.toInt?.map fun i => (.int i, r)
  | "(" :: "b" :: h :: ")" :: r => (ofHex h).map fun b => (.bulk b, r)
  | "(" :: "nb" :: ")" :: r => some (.nullBulk, r)
  | "(" :: "na" :: ")" :: r => some (.nullArray, r)
  | "(" :: "n" :: ")" :: r => some (.null, r)
  | "(" :: "t" :: ")" :: r => some (.bool true, r)
  | "(" :: "f" :: ")" :: r => some (.bool false, r)
  | "(" :: "d" :: h :: ")" :: r => (ofHex h).map fun b => (.double b, r)
  | "(" :: "a" :: r => (readFrames r).map fun (xs, r') => (.array xs, r')
  | "(" :: "m" :: r => (readFrames r).map fun (xs, r') => (.map xs, r')
  | "(" :: "S" :: r => (readFrames r).map fun (xs, r') => (.set xs, r')
  | _ => none
/-- Parse frames up to the closing parenthesis (consumed). -/
partial def readFrames : List String → Option (List Frame × List String)
  | ")" :: r => some ([], r)
  | toks => match readFrame toks with
    | none => none
    | some (f, r) => match readFrames r with
      | none => none
      | some (fs, r') => some (f :: fs, r')
end

/-- Generic stateful line loop: `step` maps a state and the words of a line to a new state and an answer. -/
partial def loop {σ : Type} (step : σ → List String → σ × String) (s : σ) : IO Unit := do
  let stdin ← IO.getStdin
  let stdout ← IO.getStdout
  let rec go (s : σ) : IO Unit := do
    let line ← stdin.getLine
    if line.isEmpty then
      stdout.flush
      return ()
    let (s', out) := step s (words line)
    stdout.putStrLn out
    stdout.flush
    go s'
  go s

end Ferrous.Drv
