/-
  Driver family `rdbsave` (C10).  Answers every op of family `rdb` (Drv/Rdb.lean) and in addition:

    chunks <t> <dataset tokens>         -> <#calls> <chunk|chunk|…>          the `write_raw` calls of a save (RdbSave.cSnapshot of the dataset
                                                                              as the configured writer sees it: `Rdb.escDataset`, C09's escape rule)
    fsrun <exclusive 0|1> <old hex|none> <event>…
         events: `S <fail|-> <chunks>` (SAVE) | `B <fail|-> <chunks>` (BGSAVE) | `T <i>` (run i makes its next file operation)
                                        -> dump=<hex|none> tmp=<hex|none> flag=<0|1> procs=<n> log=<newest,…|.> nosavebg=<0|1>
    krun <atomic 0|1> <itemsFirst 0|1> <t> <key> <state> ; <ev> ; <ev> …
         state: `N` | `<deadline|-> <type> <value tokens>`;  ev: `s` (saver read step) | `set <dl|-> <type> <value>` | `del` |
         `ttl <dl|->` | `mut <type> <value>` | `zmut <flat hexlist member|8 LE score bytes…>`
                                        -> none | pending | rec <consistent 0|1> <disturbed 0|1> <zlen|-> <file hex> <dl|-> <type> <value tokens>
    allocs <bounded 0|1> <now> <file hex> -> <a,a,…|.>                        (RdbSave.loaderAllocs, loader switches from `cfg`)
-/
import FerrousSpec.Drv.Rdb
import FerrousSpec.Model.RdbSave
namespace Ferrous.Drv.RdbSave
open Ferrous Ferrous.Drv Ferrous.Rdb Ferrous.RdbSave Ferrous.Drv.Rdb

def splitOnTok (sep : String) (ts : List String) : List (List String) :=
  let rec go (ts : List String) (cur : List String) (acc : List (List String)) : List (List String) :=
    match ts with
    | [] => (cur.reverse :: acc).reverse
    | t :: r => if t == sep then go r [] (cur.reverse :: acc) else go r (t :: cur) acc
  go ts [] []

/-- `<dl|-> <type> <value tokens>` -> value and deadline -/
def parseVal (toks : List String) : Option (Value × Option Nat) :=
  match parseDataset (["D", "0", "K", "-"] ++ toks) [] with
  | some [(_, [e])] => some (e.val, e.deadline)
  | _ => none

def parseState (toks : List String) : Option KeyState :=
  match toks with
  | ["N"] => some none
  | _ => (parseVal toks).map some

def parseKEv (toks : List String) : Option KEv :=
  match toks with
  | ["s"] => some .saver
  | ["del"] => some (.cmd .del)
  | ["ttl", d] => (parseDl d).map fun dl => .cmd (.ttl dl)
  | "set" :: r => (parseVal r).map fun p => .cmd (.set p.1 p.2)
  | "mut" :: r => (parseVal ("-" :: r)).map fun p => .cmd (.mutate p.1)
  | ["zmut", h] => ((parseHexListFast h).bind pairUp).map fun zs => .cmd (.zmutate (zs.map fun p => (p.1, leVal p.2)))
  | _ => none

def showOpt (o : Option Bytes) : String :=
  match o with
  | none => "none"
  | some b => toHexFast b

def showOutcome : Outcome → String
  | .saved => "saved"
  | .failed => "failed"
  | .refused => "refused"

partial def parseEvs (ts : List String) (acc : List Ferrous.RdbSave.Ev) : Option (List Ferrous.RdbSave.Ev) :=
  let fail (f : String) : Option (Option Nat) := if f == "-" then some none else f.toNat?.map some
  match ts with
  | [] => some acc.reverse
  | "S" :: f :: c :: r => match fail f, parseHexListFast c with
    | some fa, some cs => parseEvs r (.startSave ⟨cs, fa⟩ :: acc)
    | _, _ => none
  | "B" :: f :: c :: r => match fail f, parseHexListFast c with
    | some fa, some cs => parseEvs r (.startBgsave ⟨cs, fa⟩ :: acc)
    | _, _ => none
  | "T" :: i :: r => match i.toNat? with
    | some i => parseEvs r (.step i :: acc)
    | none => none
  | _ => none

def step (c : Cfg) (ws : List String) : Cfg × String :=
  match ws with
  | "chunks" :: t :: toks =>
    match t.toNat?, parseDataset (if toks == ["."] then [] else toks) [] with
    | some t, some d =>
      let cs := cSnapshot c.ver (escDataset c.escW d) t
      (c, s!"{cs.length} " ++ hexListFast cs)
    | _, _ => (c, "bad-op")
  | "fsrun" :: x :: old :: evs =>
    let oldB : Option (Option Bytes) := if old == "none" then some none else (ofHexFast old).map some
    match oldB, parseEvs evs [] with
    | some ob, some es =>
      if x == "0" || x == "1" then
        let s := run (x == "1") (initSys ob) es
        let lg := if s.log.isEmpty then "." else String.intercalate "," (s.log.map showOutcome)
        let b (v : Bool) : String := if v then "1" else "0"
        (c, s!"dump={showOpt (dumpContent s.fs)} tmp={showOpt (tmpContent s.fs)} flag={b s.flag} procs={s.procs.length} log={lg} nosavebg={b (noSaveDuringBgsave (x == "1") (initSys ob) es)}")
      else (c, "bad-op")
    | _, _ => (c, "bad-op")
  | "krun" :: a :: itf :: t :: k :: rest =>
    match t.toNat?, ofHexFast k, splitOnTok ";" rest with
    | some t, some k, st :: evToks =>
      match parseState st, evToks.mapM parseKEv with
      | some st, some evs =>
        if (a == "0" || a == "1") && (itf == "0" || itf == "1") then
          let m := krun (a == "1") (itf == "1") (kinit st) evs
          match m.phase with
          | .done none => (c, "none")
          | .done (some r) =>
            let b (v : Bool) : String := if v then "1" else "0"
            let zl := match r.zlen with
              | none => "-"
              | some n => toString n
            (c, s!"rec {b (decide (r.consistent m.hist))} {b m.disturbed} {zl} {toHexFast (fileOf c.ver t 0 (recBytes t k r))} {showDl r.ttl} {showValue r.val}")
          | _ => (c, "pending")
        else (c, "bad-op")
      | _, _ => (c, "bad-op")
    | _, _, _ => (c, "bad-op")
  | ["allocs", b, now, h] =>
    match now.toNat?, ofHexFast h with
    | some now, some bs =>
      if b == "0" || b == "1" then
        let al := loaderAllocs (b == "1") c.fix bs now
        (c, if al.isEmpty then "." else String.intercalate "," (al.map toString))
      else (c, "bad-op")
    | _, _ => (c, "bad-op")
  | _ => Ferrous.Drv.Rdb.step c ws

def main : IO Unit := loop step ⟨[48, 46, 49, 46, 48], Fix.code, false⟩

end Ferrous.Drv.RdbSave
