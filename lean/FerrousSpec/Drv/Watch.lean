/-
  Driver family `watch` (C08): the WATCH tracker / EXEC decision model next to its Spec.

  Line protocol (one answer line per request line; `now` in milliseconds on the check's clock):
    reset <perDb 0|1> <rewatchKeeps 0|1> <watchPurges 0|1> <unwatchQueued 0|1> -> ok   (forgets the table rows too)
    refused <c> <now>                                    -> err       (a command refused for its arity: nothing changes)
    fn <name> <mutates 0|1> <keyParams|.> <marked|.> <marksAll 0|1>   -> ok
         one row of the translator's table (the same rows that become `Gen.storageFns`); parameter names
         joined with `,`.  Sent by the check, so that the driver builds whatever the translator extracted.
    watch <c> <now> <key>|<key>...                       -> ok | err
    unwatch <c> <now>                                    -> ok | queued
    multi <c> <now>                                      -> ok | err
    discard <c> <now>                                    -> ok | err
    select <c> <now> <db>                                -> ok | queued | err
    cmd <c> <now> <op>*                                  -> ok | queued
    exec <c> <now> <op>*                                 -> <nil | array <n> | err> <mustNil | mustRun | open | ->
         first the code model's reply, then the Spec's verdict for this EXEC; the operations are what the
         queued commands do if they run
    sweep <db> <now> <key>                               -> ok        (the sweeper deleted this key)
    info <db> <key>                                      -> shard=<n> active=<n> counter=<n> global=<n>
  op:
    k:<fn>:<param>:<key>:<done 0|1>:<present 0|1>:<chg>   chg = `-` unchanged | `d` deleted | `p<val>` | `p<val>@<deadline>`
         `marks` is looked up in the table row (is <param> among the marked parameters?), the effect comes
         from `effOf (touchRule fn) done present chg`
    f:<all 0|1>                                           flush_db of the connection's db / of all; marks = row flush_db.marksAll
  Keys are lower-case hex (`-` = empty key).  Malformed requests, unknown functions/parameters: `bad-op`.
-/
import FerrousSpec.Drv.Util
import FerrousSpec.Model.Watch
namespace Ferrous.Drv.Watch
open Ferrous Ferrous.Drv Ferrous.Watch

structure St where
  q : Q := Q.code
  s : State := {}
  ss : Spec.SState := []
  fns : List StorageFn := []

def bool? (s : String) : Option Bool :=
  if s == "1" then some true else if s == "0" then some false else none

def names (s : String) : List String := if s == "." then [] else s.splitOn ","

def findFn (fns : List StorageFn) (n : String) : Option StorageFn := fns.find? (·.name == n)

def parseChg (s : String) : Option (Option (Option Entry)) :=
  if s == "-" then some none
  else if s == "d" then some (some none)
  else if s.startsWith "p" then
    match (s.drop 1).toString.splitOn "@" with
    | [v] => v.toNat?.map fun n => some (some ⟨n, none⟩)
    | [v, d] => match v.toNat?, d.toNat? with
      | some n, some dl => some (some (some ⟨n, some dl⟩))
      | _, _ => none
    | _ => none
  else none

def parseOp (fns : List StorageFn) (tok : String) : Option Op :=
  match tok.splitOn ":" with
  | ["f", a] =>
    match bool? a, findFn fns "flush_db" with
    | some all, some row => some (.flush all row.marksAll)
    | _, _ => none
  | ["k", fn, param, key, done, present, chg] =>
    match findFn fns fn, touchRule fn, ofHex key, bool? done, bool? present, parseChg chg with
    | some row, some rule, some k, some dn, some pr, some ch =>
      if row.keyParams.contains param then
        some (.key ⟨fn, k, row.marked.contains param, effOf rule dn pr ch⟩)
      else none
    | _, _, _, _, _, _ => none
  | _ => none

def showReply : Ferrous.Watch.Reply → String
  | .ok => "ok" | .queued => "queued" | .err => "err" | .nil => "nil"
  | .array n => s!"array {n}"

def showVerdict : Option Spec.Verdict → String
  | some .mustNil => "mustNil" | some .mustRun => "mustRun" | some .open => "open" | none => "-"

/-- run one event through Spec and code model -/
def event (st : St) (now : Nat) (ev : Ferrous.Watch.Ev) : St × Ferrous.Watch.Reply × Option Spec.Verdict :=
  let (ss', v) := Spec.step st.q st.s now st.ss ev
  let (s', r) := step st.q st.s now ev
  ({ st with s := s', ss := ss' }, r, v)

def simple (st : St) (now : Nat) (ev : Ferrous.Watch.Ev) : St × String :=
  let (st', r, _) := event st now ev
  (st', showReply r)

def handle (st : St) (ws : List String) : St × String :=
  match ws with
  | ["reset", a, b, p, u] =>
    match bool? a, bool? b, bool? p, bool? u with
    | some pd, some rk, some wp, some uq => ({ q := ⟨pd, rk, wp, uq⟩ }, "ok")
    | _, _, _, _ => (st, "bad-op")
  | ["refused", c, now] =>
    match c.toNat?, now.toNat? with
    | some c, some now => simple st now (.refused c)
    | _, _ => (st, "bad-op")
  | ["fn", n, m, kps, mk, ma] =>
    match bool? m, bool? ma with
    | some mu, some al =>
      ({ st with fns := (st.fns.filter (·.name != n)) ++ [⟨n, names kps, mu, names mk, al⟩] }, "ok")
    | _, _ => (st, "bad-op")
  | ["watch", c, now, keys] =>
    match c.toNat?, now.toNat?, parseHexList keys with
    | some c, some now, some ks => simple st now (.watch c ks)
    | _, _, _ => (st, "bad-op")
  | ["unwatch", c, now] =>
    match c.toNat?, now.toNat? with
    | some c, some now => simple st now (.unwatch c)
    | _, _ => (st, "bad-op")
  | ["multi", c, now] =>
    match c.toNat?, now.toNat? with
    | some c, some now => simple st now (.multi c)
    | _, _ => (st, "bad-op")
  | ["discard", c, now] =>
    match c.toNat?, now.toNat? with
    | some c, some now => simple st now (.discard c)
    | _, _ => (st, "bad-op")
  | ["select", c, now, d] =>
    match c.toNat?, now.toNat?, d.toNat? with
    | some c, some now, some d => simple st now (.select c d)
    | _, _, _ => (st, "bad-op")
  | "cmd" :: c :: now :: ops =>
    match c.toNat?, now.toNat?, ops.mapM (parseOp st.fns) with
    | some c, some now, some os => simple st now (.cmd c os)
    | _, _, _ => (st, "bad-op")
  | "exec" :: c :: now :: ops =>
    match c.toNat?, now.toNat?, ops.mapM (parseOp st.fns) with
    | some c, some now, some os =>
      let (st', r, v) := event st now (.exec c os)
      (st', showReply r ++ " " ++ showVerdict v)
    | _, _, _ => (st, "bad-op")
  | ["sweep", d, now, key] =>
    match d.toNat?, now.toNat?, ofHex key, findFn st.fns "expiration_cleanup_loop" with
    | some d, some now, some k, some row => simple st now (.sweep d k (row.marked.contains "key"))
    | _, _, _, _ => (st, "bad-op")
  | ["info", d, key] =>
    match d.toNat?, ofHex key with
    | some d, some k =>
      let t := st.s.tracker d (shardOf k)
      (st, s!"shard={shardOf k} active={t.active} counter={t.counter k} global={t.global}")
    | _, _ => (st, "bad-op")
  | _ => (st, "bad-op")

def main : IO Unit := loop handle {}

end Ferrous.Drv.Watch
