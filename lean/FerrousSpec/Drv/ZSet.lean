/-
  Driver family `zset` (C04): the skip-list model (`sl …`), the engine-level model (`zs …`) and
  the command-level model (`cmd …`), each answering with the Code reply, the Spec reply, the
  deviation tags and the states, one line per request.

  Scores: `ninf` | `pinf` | `nan` | `nz` (-0.0) | decimal order key (`0` is +0.0).  Members/keys: hex.  Entries `member:score`,
  lists joined by `,`, `.` = empty.  `cfg <fixedRange> <fixedZadd> <fixedZincr> <fixedOpt> <fixedBounds> <fixedPop>` selects the model variant that
  corresponds to the tree under test (lib/c04.py reads it off the Rust source).
-/
import FerrousSpec.Drv.Util
import FerrousSpec.Model.ZSet
namespace Ferrous.Drv.ZSet
open Ferrous Ferrous.Drv Ferrous.ZSet

structure St where
  fixedRange : Bool := false
  fixedZadd : Bool := false
  fixedZincr : Bool := false
  fixedOpt : Bool := false
  fixedBounds : Bool := false
  fixedPop : Bool := false
  sl : Code.SkipList := Code.empty
  spec : Spec.ZSet := []
  keys : List (Bytes × Code.SkipList) := []
  skeys : List (Bytes × Spec.ZSet) := []

def showScore : CScore → String
  | .nan => "nan"
  | .num .ninf => "ninf"
  | .num .pinf => "pinf"
  | .num .nzero => "nz"
  | .num (.fin k) => toString k

def parseScore (s : String) : Option CScore :=
  if s == "nan" then some .nan
  else if s == "ninf" then some (.num .ninf)
  else if s == "pinf" then some (.num .pinf)
  else if s == "nz" then some (.num .nzero)
  else s.toInt?.map fun k => .num (.fin k)

def showEnt (e : CEntry) : String := toHex e.2 ++ ":" ++ showScore e.1
def showEnts (l : List CEntry) : String :=
  if l.isEmpty then "." else String.intercalate "," (l.map showEnt)
def showSpec (z : Spec.ZSet) : String := showEnts (z.map lift)
def showOptScore : Option CScore → String
  | none => "none"
  | some s => showScore s
def showOptNat : Option Nat → String
  | none => "none"
  | some n => toString n
def showOptEnt : Option CEntry → String
  | none => "none"
  | some e => showEnt e
def b01 (b : Bool) : String := if b then "1" else "0"

def dump (sl : Code.SkipList) : String :=
  "L=" ++ String.intercalate ";" (sl.levels.map showEnts) ++
  " I=" ++ showEnts (sl.keyIndex.map fun p => (p.2, p.1)) ++
  " N=" ++ toString sl.length

def getKey (k : Bytes) (st : St) : Code.ZKey := (st.keys.find? (·.1 == k)).map (·.2)
def setKey (k : Bytes) (v : Code.ZKey) (st : St) : St :=
  let rest := st.keys.filter (·.1 != k)
  { st with keys := match v with | none => rest | some sl => (k, sl) :: rest }
def getSpec (k : Bytes) (st : St) : Spec.ZSet := ((st.skeys.find? (·.1 == k)).map (·.2)).getD []
def setSpec (k : Bytes) (z : Spec.ZSet) (st : St) : St :=
  let rest := st.skeys.filter (·.1 != k)
  { st with skeys := if z.isEmpty then rest else (k, z) :: rest }

def showKey (v : Code.ZKey) : String :=
  match v with
  | none => "absent"
  | some sl => dump sl ++ " inv=" ++ b01 (Code.invB sl)

/-- Common tail of every engine/command answer: Code state of the key and Spec set. -/
def tail (k : Bytes) (st : St) : String :=
  " K=" ++ showKey (getKey k st) ++ " Z=" ++ showSpec (getSpec k st)

def unnum : CScore → Option Score
  | .num s => some s
  | .nan => none

/-- pairs `score:member,…` of a ZADD command; score `bad` = unparsable -/
def parsePairs (s : String) : Option (List (Option CScore × Bytes)) :=
  (s.splitOn ",").mapM fun p =>
    match p.splitOn ":" with
    | [sc, m] =>
      match ofHex m with
      | none => none
      | some mb => if sc == "bad" then some (none, mb) else (parseScore sc).map fun s => (some s, mb)
    | _ => none

/-- entries `member:score,…` with numeric scores (re-synchronising the Spec state with an observed one) -/
def parseSpecEnts (s : String) : Option Spec.ZSet :=
  if s == "." then some [] else
  (s.splitOn ",").mapM fun p =>
    match p.splitOn ":" with
    | [m, sc] =>
      match ofHex m, parseScore sc with
      | some mb, some (.num v) => some (v, mb)
      | _, _ => none
    | _ => none

/-- the optional argument after the bounds of a range command: absent, WITHSCORES, or something else -/
def parseOpt (s : String) : Option (Option Bool) :=
  if s == "none" then some none
  else if s == "ws" then some (some true)
  else if s == "other" then some (some false)
  else none

def parseNats (s : String) : Option (List Nat) :=
  if s == "." then some [] else (s.splitOn ",").mapM String.toNat?

def slStep (st : St) (ws : List String) : St × String :=
  match ws with
  | ["new"] => ({ st with sl := Code.empty, spec := [] }, "ok")
  | ["ins", h, m, s] =>
    match h.toNat?, ofHex m, parseScore s with
    | some h, some m, some s =>
      let r := Code.insert h m s st.sl
      let spec := match s with | .num s' => Spec.zadd m s' st.spec | .nan => st.spec
      ({ st with sl := r.1, spec := spec },
        s!"old={showOptScore r.2} {dump r.1} inv={b01 (Code.invB r.1)} S={showSpec spec}")
    | _, _, _ => (st, "bad-op")
  | ["rem", m] =>
    match ofHex m with
    | some m =>
      let r := Code.remove m st.sl
      let spec := Spec.zrem m st.spec
      ({ st with sl := r.1, spec := spec },
        s!"old={showOptScore r.2} {dump r.1} inv={b01 (Code.invB r.1)} S={showSpec spec}")
    | none => (st, "bad-op")
  | ["rank", m] =>
    match ofHex m with
    | some m => (st, s!"C={showOptNat (Code.getRank m st.sl)} S={showOptNat (Spec.zrank m st.spec)}")
    | none => (st, "bad-op")
  | ["score", m] =>
    match ofHex m with
    | some m => (st, s!"C={showOptScore (Code.getScore m st.sl)} S={showOptScore ((Spec.zscore m st.spec).map .num)}")
    | none => (st, "bad-op")
  | ["byrank", a, b] =>
    match a.toNat?, b.toNat? with
    | some a, some b =>
      (st, s!"C={showEnts (Code.rangeByRank a b st.sl)} S={showSpec ((st.spec.drop a).take (b + 1 - a))}")
    | _, _ => (st, "bad-op")
  | ["byscore", lo, hi] =>
    match parseScore lo, parseScore hi with
    | some lo, some hi =>
      let s := match unnum lo, unnum hi with
        | some l, some h => showSpec (Spec.zrangebyscore st.spec l h)
        | _, _ => "na"
      (st, s!"C={showEnts (Code.rangeByScore lo hi st.sl)} S={s}")
    | _, _ => (st, "bad-op")
  | ["setspec", es] =>
    match parseSpecEnts es with
    | some z => ({ st with spec := z }, "ok")
    | none => (st, "bad-op")
  | ["len"] => (st, s!"C={st.sl.length} S={Spec.zcard st.spec}")
  | ["dump"] => (st, s!"{dump st.sl} inv={b01 (Code.invB st.sl)} S={showSpec st.spec}")
  | _ => (st, "bad-op")

def zsStep (st : St) (op : String) (k : Bytes) (args : List String) : St × String :=
  let ck := getKey k st
  let z := getSpec k st
  match op, args with
  | "zadd", [h, m, s] =>
    match h.toNat?, ofHex m, parseScore s with
    | some h, some m, some s =>
      let r := Code.zadd h m s ck
      let (z', sr) := match s with
        | .num s' => (Spec.zadd m s' z, b01 (Spec.zscore m z).isNone)
        | .nan => (z, "refuse")
      let st' := setSpec k z' (setKey k r.1 st)
      (st', s!"C={b01 r.2} S={sr} D=-" ++ tail k st')
    | _, _, _ => (st, "bad-op")
  | "zrem", [m] =>
    match ofHex m with
    | some m =>
      let r := Code.zrem m ck
      let st' := setSpec k (Spec.zrem m z) (setKey k r.1 st)
      (st', s!"C={b01 r.2} S={b01 (Spec.zscore m z).isSome} D=-" ++ tail k st')
    | none => (st, "bad-op")
  | "zscore", [m] =>
    match ofHex m with
    | some m => (st, s!"C={showOptScore (Code.zscore m ck)} S={showOptScore ((Spec.zscore m z).map .num)} D=-" ++ tail k st)
    | none => (st, "bad-op")
  | "zrank", [m, r] =>
    match ofHex m, r with
    | some m, "0" => (st, s!"C={showOptNat (Code.zrank m false ck)} S={showOptNat (Spec.zrank m z)} D=-" ++ tail k st)
    | some m, "1" => (st, s!"C={showOptNat (Code.zrank m true ck)} S={showOptNat (Spec.zrevrank m z)} D=-" ++ tail k st)
    | _, _ => (st, "bad-op")
  | "zrange", [a, b, r] =>
    match a.toInt?, b.toInt?, r with
    | some a, some b, "0" =>
      let d := if !st.fixedRange && Code.zrangeDev false (Code.zcard ck) a b then "zrange-clamp" else "-"
      (st, s!"C={showEnts (Code.zrange st.fixedRange a b false ck)} S={showSpec (Spec.zrange z a b)} D={d}" ++ tail k st)
    | some a, some b, "1" =>
      let d := if !st.fixedRange && Code.zrangeDev true (Code.zcard ck) a b then "zrevrange-clamp" else "-"
      (st, s!"C={showEnts (Code.zrange st.fixedRange a b true ck)} S={showSpec (Spec.zrevrange z a b)} D={d}" ++ tail k st)
    | _, _, _ => (st, "bad-op")
  | "zrbs", [lo, hi, r] =>
    match parseScore lo, parseScore hi, r with
    | some lo, some hi, r =>
      if r != "0" && r != "1" then (st, "bad-op") else
      let rev := r == "1"
      let s := match unnum lo, unnum hi with
        | some l, some h => showSpec (if rev then Spec.zrevrangebyscore z l h else Spec.zrangebyscore z l h)
        | _, _ => "na"
      (st, s!"C={showEnts (Code.zrangebyscore lo hi rev ck)} S={s} D=-" ++ tail k st)
    | _, _, _ => (st, "bad-op")
  | "zcount", [lo, hi] =>
    match parseScore lo, parseScore hi with
    | some lo, some hi =>
      let s := match unnum lo, unnum hi with
        | some l, some h => toString (Spec.zcount z l h)
        | _, _ => "na"
      (st, s!"C={Code.zcount lo hi ck} S={s} D=-" ++ tail k st)
    | _, _ => (st, "bad-op")
  | "zincrby", [h, m, sum] =>
    match h.toNat?, ofHex m, parseScore sum with
    | some h, some m, some sum =>
      let r := Code.zincrby h m sum ck
      let sp := Spec.zincrbyCmd sum m z
      let st' := setSpec k sp.1 (setKey k r.1 st)
      let sr := match sp.2 with | some s => showScore (.num s) | none => "refuse"
      (st', s!"C={showScore r.2} S={sr} D=-" ++ tail k st')
    | _, _, _ => (st, "bad-op")
  | "zcard", [] => (st, s!"C={Code.zcard ck} S={Spec.zcard z} D=-" ++ tail k st)
  | "exists", [] => (st, s!"C={b01 ck.isSome} S={b01 (Spec.keyExists z)} D=-" ++ tail k st)
  | "pop", [w] =>
    if w != "min" && w != "max" then (st, "bad-op") else
    let mx := w == "max"
    let r := Code.zpop st.fixedRange mx ck
    let sp := if mx then Spec.zpopmax z else Spec.zpopmin z
    let (z', sr) := match sp with
      | none => (z, "none")
      | some (e, rest) => (rest, showEnt (lift e))
    let st' := setSpec k z' (setKey k r.1 st)
    (st', s!"C={showOptEnt r.2} S={sr} D=-" ++ tail k st')
  | "zaddmany", [hs, ps] =>
    match parseNats hs, parseSpecEnts ps with      -- pairs `member:score` with numeric scores
    | some hs, some vs =>
      let r := Code.zaddMany hs vs ck 0
      let z' := Spec.zaddAll vs z
      let st' := setSpec k z' (setKey k r.1 st)
      (st', s!"C={r.2} S={z'.length - z.length} D=-" ++ tail k st')
    | _, _ => (st, "bad-op")
  | "zremmany", [ms] =>
    match parseHexList ms with
    | some ms =>
      let r := Code.zremMany ms ck 0
      let z' := Spec.zremAll ms z
      let st' := setSpec k z' (setKey k r.1 st)
      (st', s!"C={r.2} S={z.length - z'.length} D=-" ++ tail k st')
    | none => (st, "bad-op")
  | "popn", [w, n] =>
    match n.toNat? with
    | some n =>
      if w != "min" && w != "max" then (st, "bad-op") else
      let mx := w == "max"
      let r := Code.zpopMany mx n ck []
      let sp := Spec.zpopN mx n z
      let st' := setSpec k sp.1 (setKey k r.1 st)
      (st', s!"C={showEnts r.2} S={showSpec sp.2} D=-" ++ tail k st')
    | none => (st, "bad-op")
  | "setspec", [es] =>
    match parseSpecEnts es with
    | some z' => (setSpec k z' st, "ok")
    | none => (st, "bad-op")
  | "dump", [] => (st, "K=" ++ showKey ck ++ " Z=" ++ showSpec z)
  | _, _ => (st, "bad-op")

/-- Command level (handlers of server.rs); heights of the nodes actually inserted are given. -/
def cmdStep (st : St) (op : String) (k : Bytes) (args : List String) : St × String :=
  let ck := getKey k st
  let z := getSpec k st
  match op, args with
  | "zadd", [hs, ps] =>
    match parseNats hs, parsePairs ps with
    | some hs, some ps =>
      let r := Code.zaddCmd st.fixedZadd hs ps ck 0
      let sp := Spec.zaddCmd ps z
      let st' := setSpec k sp.1 (setKey k r.1 st)
      let cr := match r.2 with | some n => toString n | none => "err"
      let sr := if sp.2 then toString (sp.1.length - z.length) else "err"
      (st', s!"C={cr} S={sr} D=-" ++ tail k st')
    | _, _ => (st, "bad-op")
  | "zincrby", [h, m, sum] =>
    match h.toNat?, ofHex m, parseScore sum with
    | some h, some m, some sum =>
      let r := Code.zincrbyCmd st.fixedZincr h m sum ck
      let sp := Spec.zincrbyCmd sum m z
      let st' := setSpec k sp.1 (setKey k r.1 st)
      let cr := match r.2 with | some s => showScore s | none => "err"
      let sr := match sp.2 with | some s => showScore (.num s) | none => "err"
      (st', s!"C={cr} S={sr} D=-" ++ tail k st')
    | _, _, _ => (st, "bad-op")
  | "zpop", [w, n] =>
    match n.toNat? with
    | some n =>
      if w != "min" && w != "max" then (st, "bad-op") else
      let mx := w == "max"
      let r := Code.zpopMany mx n ck []          -- handle_zpopmin/max: one `storage.zpop(key, count, min)`
      let sp := Spec.zpopN mx n z
      let st' := setSpec k sp.1 (setKey k r.1 st)
      let cr := if r.2.isEmpty && Code.zpopEmptyIsNull st.fixedPop then "null" else showEnts r.2
      (st', s!"C={cr} S={showSpec sp.2} D=-" ++ tail k st')
    | none => (st, "bad-op")
  | "zrem", [ms] =>
    match parseHexList ms with
    | some ms =>
      let r := Code.zremMany ms ck 0
      let z' := Spec.zremAll ms z
      let st' := setSpec k z' (setKey k r.1 st)
      (st', s!"C={r.2} S={z.length - z'.length} D=-" ++ tail k st')
    | none => (st, "bad-op")
  -- range commands with their optional trailing argument: `opt` = none | ws (WITHSCORES) | other
  | "zrange", [a, b, r, opt] =>
    match a.toInt?, b.toInt?, parseOpt opt with
    | some a, some b, some o =>
      if r != "0" && r != "1" then (st, "bad-op") else
      let rev := r == "1"
      let d := if !st.fixedRange && Code.zrangeDev rev (Code.zcard ck) a b then (if rev then "zrevrange-clamp" else "zrange-clamp") else "-"
      let cr := match Code.rangeOption st.fixedOpt o with
        | none => "err"
        | some w => b01 w ++ "/" ++ showEnts (Code.zrange st.fixedRange a b rev ck)
      let sr := match Spec.rangeOption o with
        | none => "err"
        | some w => b01 w ++ "/" ++ showSpec (if rev then Spec.zrevrange z a b else Spec.zrange z a b)
      (st, s!"C={cr} S={sr} D={d}" ++ tail k st)
    | _, _, _ => (st, "bad-op")
  | "zrbs", [lo, hi, r, opt] =>
    match parseScore lo, parseScore hi, parseOpt opt with
    | some lo, some hi, some o =>
      if r != "0" && r != "1" then (st, "bad-op") else
      let rev := r == "1"
      let cr := match Code.scoreBounds st.fixedBounds lo hi, Code.rangeOption st.fixedOpt o with
        | some (l, h), some w => b01 w ++ "/" ++ showEnts (Code.zrangebyscore l h rev ck)
        | _, _ => "err"
      let sr := match Spec.scoreBounds lo hi, Spec.rangeOption o with
        | some (l, h), some w => b01 w ++ "/" ++ showSpec (if rev then Spec.zrevrangebyscore z l h else Spec.zrangebyscore z l h)
        | _, _ => "err"
      (st, s!"C={cr} S={sr} D=-" ++ tail k st)
    | _, _, _ => (st, "bad-op")
  | "zcount", [lo, hi] =>
    match parseScore lo, parseScore hi with
    | some lo, some hi =>
      let cr := match Code.scoreBounds st.fixedBounds lo hi with
        | some (l, h) => toString (Code.zcount l h ck)
        | none => "err"
      let sr := match Spec.scoreBounds lo hi with
        | some (l, h) => toString (Spec.zcount z l h)
        | none => "err"
      (st, s!"C={cr} S={sr} D=-" ++ tail k st)
    | _, _ => (st, "bad-op")
  | _, _ => (st, "bad-op")

def step (st : St) (ws : List String) : St × String :=
  match ws with
  | "cfg" :: bs =>
    if bs.length == 6 && bs.all (fun x => x == "0" || x == "1") then
      let g := fun (i : Nat) => bs.getD i "0" == "1"
      ({ st with fixedRange := g 0, fixedZadd := g 1, fixedZincr := g 2, fixedOpt := g 3, fixedBounds := g 4, fixedPop := g 5 }, "ok")
    else (st, "bad-op")
  | ["reset"] => ({ st with sl := Code.empty, spec := [], keys := [], skeys := [] }, "ok")
  | "sl" :: rest => slStep st rest
  | "zs" :: op :: k :: args =>
    match ofHex k with
    | some k => zsStep st op k args
    | none => (st, "bad-op")
  | "cmd" :: op :: k :: args =>
    match ofHex k with
    | some k => cmdStep st op k args
    | none => (st, "bad-op")
  | _ => (st, "bad-op")

def main : IO Unit := loop step {}

end Ferrous.Drv.ZSet
