/-
  Driver family `arith` (C06): the arithmetic-site models.
  getrange <len> <start> <stop> | setrange <cur|-> <offset> <vlen> | srand <count> | evalkeys <parts> <numkeys> | lindex <len> <i>
  → ok <values…> | none | refused | panic
-/
import FerrousSpec.Drv.Util
import FerrousSpec.Model.Arith
namespace Ferrous.Drv.Arith
open Ferrous.Arith

def step (_ : Unit) (ws : List String) : Unit × String :=
  match ws with
  | ["getrange", l, s, e] => match l.toNat?, s.toInt?, e.toInt? with
    | some l, some s, some e => match getrange l s e with
      | .ok none => ((), "none")
      | .ok (some (a, b)) => ((), s!"ok {a} {b}")
      | .refused => ((), "refused")
      | .panic _ => ((), "panic")
    | _, _, _ => ((), "bad-op")
  | ["setrange", c, o, v] => match (if c == "-" then some none else c.toNat?.map some), o.toNat?, v.toNat? with
    | some c, some o, some v => match setrange c o v with
      | .ok n => ((), s!"ok {n}")
      | .refused => ((), "refused")
      | .panic _ => ((), "panic")
    | _, _, _ => ((), "bad-op")
  | ["srand", c] => match c.toInt? with
    | some c => match srandPicks c 24 with
      | .ok n => ((), s!"ok {n / 24}")
      | .refused => ((), "refused")
      | .panic _ => ((), "panic")
    | none => ((), "bad-op")
  | ["evalkeys", p, n] => match p.toNat?, n.toNat? with
    | some p, some n => match evalKeys p n 32 with
      | .ok _ => ((), "ok")
      | .refused => ((), "refused")
      | .panic _ => ((), "panic")
    | _, _ => ((), "bad-op")
  | ["lindex", l, i] => match l.toNat?, i.toInt? with
    | some l, some i => match listIndex l i with
      | .ok none => ((), "none")
      | .ok (some j) => ((), s!"ok {j}")
      | _ => ((), "panic")
    | _, _ => ((), "bad-op")
  | _ => ((), "bad-op")

def main : IO Unit := Ferrous.Drv.loop step ()
end Ferrous.Drv.Arith
