/-
  Driver family `grp` (C16): consumer groups.

  Request lines (names are decimal numbers, ids `ms-seq`, id lists joined by `|`, `.` = empty):
    quirks <startFix> <noackFix> <rangeFix> <histFix> <redeliverFix> <filterFix>     (0/1; which repairs the tree has)
    reset | add <id> | del <ids> | create <g> <id|$> | destroy <g> | setid <g> <id|$>
    createc <g> <c> | delc <g> <c> | read <g> <c> <>|id> <count|-> <noack 0|1> | ack <g> <ids>
    bad <kind> <g>   (malformed command at handler level: refused, nothing changes)
    mread <g> <c> <count|-> <noack> <nogroup|wrongtype|badid>   (XREADGROUP STREAMS <this> <failing second stream>)
    names 100 / 101 = the two distinct non-UTF-8 names g\xff / g\xfe (c\xff / c\xfe); 199 = their lossy image
    tnow <ms> | pidle <g> <id> | claim <g> <c> <0|huge|ms> <force 0|1> <ids> | autoclaim <g> <c> <0|huge> <start> <count>
    pending <g> | prange <g> <start> <end> <count> <c|->      (bounds: - + ms-seq ms, optional ( prefix, anything else = junk)
  answered by the `Code` model as  `<reply> ;; S <stream ids> ;; G <g> <last> <byid> <byc> <cons> <total> <min> <max> ;; …`
  (byte-identical to harness/src/bin/impl_grp.rs on the real code), and
    judge <op words> ;; S <ids before> ;; <G-dump before | none> ;; <reply> ;; <G-dump after | none>
  which evaluates the property's own oracle (`Spec.gstep` on the abstraction of the IMPLEMENTATION's
  dump, plus `Agree` preservation) and answers `ok` or `fail <aspects>`.
-/
import FerrousSpec.Drv.Util
import FerrousSpec.Model.Groups
namespace Ferrous.Drv.Groups
open Ferrous Ferrous.Drv Ferrous.Grp

/-! ### rendering -/

def showId (i : Id) : String := s!"{i.1}-{i.2}"
def showIds (l : List Id) : String := if l.isEmpty then "." else String.intercalate "|" (l.map showId)
def showOptId : Option Id → String
  | some i => showId i
  | none => "-"
def joinOrDot (l : List String) : String := if l.isEmpty then "." else String.intercalate "|" l

def insertBy {α : Type} (key : α → Nat) (x : α) : List α → List α
  | [] => [x]
  | y :: ys => if key x < key y then x :: y :: ys else y :: insertBy key x ys
def sortBy {α : Type} (key : α → Nat) (l : List α) : List α := l.foldr (insertBy key) []

def showCons (l : List (Name × Nat)) : String :=
  joinOrDot ((sortBy (·.1) l).map fun p => s!"{p.1}={p.2}")

def showEntries (l : List (Id × Name × Nat)) : String :=
  joinOrDot (l.map fun e => s!"{showId e.1}:{e.2.1}:{e.2.2}")

def showReply : Reply → String
  | .ok => "ok" | .busy => "busy" | .nogroup => "nogroup" | .err => "err" | .panic => "panic" | .refused => "refused"
  | .num n => toString n
  | .ids l => showIds l
  | .next n l => s!"{showId n} {showIds l}"
  | .summary n mn mx cons => s!"{n} {showOptId mn} {showOptId mx} {showCons cons}"
  | .entries l => showEntries l

def showGroup (name : Name) (g : Group) : String :=
  let byid := joinOrDot (g.byId.map fun e => s!"{showId e.id}:{e.owner}:{e.count}")
  let byc := joinOrDot ((sortBy (·.1) g.byConsumer).map fun p =>
    s!"{p.1}={String.intercalate "+" (p.2.map showId)}")
  s!"G {name} {showId g.lastDelivered} {byid} {byc} {showCons g.consumers} {g.totalPending} {showOptId g.minPending} {showOptId g.maxPending}"

def showStWith (reply : String) (s : St) : String :=
  let gs := (sortBy (·.1) s.groups).map fun p => " ;; " ++ showGroup p.1 p.2
  s!"{reply} ;; S {if s.keyExists then showIds s.stream else "~"}" ++ String.join gs

def showSt (r : Reply) (s : St) : String := showStWith (showReply r) s

/-! ### parsing (malformed requests are rejected, never defaulted) -/

def num (s : String) : Option Nat :=
  if s.isEmpty || s.length > 20 || !s.all Char.isDigit then none
  else match s.toNat? with
    | some n => if n < 18446744073709551616 then some n else none
    | none => none

def parseId (s : String) : Option Id :=
  match s.splitOn "-" with
  | [a, b] => do pure ((← num a), (← num b))
  | _ => none

def parseIds (s : String) : Option (List Id) :=
  if s == "." then some [] else (s.splitOn "|").mapM parseId

def parseList {α : Type} (f : String → Option α) (s : String) : Option (List α) :=
  if s == "." then some [] else (s.splitOn "|").mapM f

def parseOptId (none_ : String) (s : String) : Option (Option Id) :=
  if s == none_ then some none else (parseId s).map some

def parseBool (s : String) : Option Bool :=
  if s == "0" then some false else if s == "1" then some true else none

def parseIdle (s : String) : Option Nat :=
  if s == "0" then some 0 else if s == "huge" then some 1 else none

/-- min-idle-time in milliseconds: `0`, `huge` (u64::MAX) or a number -/
def parseMinIdle (s : String) : Option Nat :=
  if s == "huge" then some 18446744073709551615 else num s

def parseEntry (s : String) : Option PEntry :=
  match s.splitOn ":" with
  | [i, c, n] => do pure ⟨(← parseId i), (← num c), (← num n)⟩
  | _ => none

def parseVec (s : String) : Option (Name × List Id) :=
  match s.splitOn "=" with
  | [c, l] => do pure ((← num c), (← (l.splitOn "+").mapM parseId))
  | _ => none

def parseCount (s : String) : Option (Name × Nat) :=
  match s.splitOn "=" with
  | [c, n] => do pure ((← num c), (← num n))
  | _ => none

/-- `G <g> <last> <byid> <byc> <cons> <total> <min> <max>` -/
def parseGroup : List String → Option (Name × Group)
  | ["G", g, last, byid, byc, cons, total, mn, mx] => do
    pure ((← num g), { lastDelivered := (← parseId last), byId := (← parseList parseEntry byid),
                       byConsumer := (← parseList parseVec byc), consumers := (← parseList parseCount cons),
                       totalPending := (← num total), minPending := (← parseOptId "-" mn),
                       maxPending := (← parseOptId "-" mx),
                       rooted := !(← parseList parseEntry byid).isEmpty })
  | _ => none

/-- eligibility of the XCLAIM idle test: min-idle 0 always passes, a huge one never; FORCE bypasses it -/
def eligOf (idle : Nat) (force : Bool) : Bool := idle == 0 || force

/-- a bound token of the extended XPENDING: optional `(`, then `-`, `+`, `ms-seq`, `ms`, or anything else (junk) -/
def parseBound (tok : String) : Bool × Code.Bound :=
  let excl := tok.startsWith "("
  let t := if excl then (tok.drop 1).toString else tok
  (excl, if t == "-" then .minus else if t == "+" then .plus
         else match parseId t with
           | some i => .full i
           | none => match num t with
             | some n => .ms n
             | none => .junk)

/-- `cntOf`, `frmOf`, `bnd`: how COUNT, an explicit id and an XPENDING bound are read — by the handler of the tree
    (`Code.countFrom`, `Code.explicitFrom`, `Code.boundCode`) or as the property prescribes.  `some (g, none)`: the
    command is refused (invalid bound). -/
def parseGOp (s : St) (frmOf : Id → Option Id) (cntOf : Nat → Option Nat)
    (bnd : Bool → Bool → Code.Bound → Option (Option Id)) : List String → Option (Name × Option GOp)
  | ["setid", g, id] => do
    let g ← num g
    let id ← if id == "$" then some s.dollar else parseId id
    pure (g, some (.setid id))
  | ["createc", g, c] => do pure ((← num g), some (.createc (← num c)))
  | ["delc", g, c] => do pure ((← num g), some (.delc (← num c)))
  | ["read", g, c, frm, count, noack] => do
    let frm ← if frm == ">" then some none else (parseId frm).map frmOf
    let count ← if count == "-" then some none else (num count).map cntOf
    pure ((← num g), some (.read (← num c) frm count (← parseBool noack)))
  | ["ack", g, ids] => do pure ((← num g), some (.ack (← parseIds ids)))
  | ["claim", g, c, idle, force, ids] => do
    pure ((← num g), some (.claim (← num c) (eligOf (← parseIdle idle) (← parseBool force)) (← parseIds ids)))
  | ["autoclaim", g, c, idle, start, count] => do
    pure ((← num g), some (.autoclaim (← num c) (eligOf (← parseIdle idle) false) (← parseId start) (← num count)))
  | ["pending", g] => do pure ((← num g), some .pending)
  | ["prange", g, s', e, count, c] => do
    let c ← if c == "-" then some none else (num c).map some
    let (xs, bs) := parseBound s'
    let (xe, be) := parseBound e
    let g ← num g
    let count ← num count
    match bnd true xs bs, bnd false xe be with
    | some lo, some hi => pure (g, some (.prange lo hi count c))
    | _, _ => pure (g, none)
  | _ => none

/-! ### the oracle: Spec step on the abstraction of the implementation's dumps -/

def normReply : Reply → Reply
  | .summary n mn mx cons => .summary n mn mx (sortBy (·.1) cons)
  | .entries l => .entries (l.map fun e => (e.1, e.2.1, 0))
  | r => r

def parseReplyFor (op : GOp) (ws : List String) : Option Reply :=
  match op, ws with
  | _, ["panic"] => some .panic
  | _, ["refused"] => some .refused
  | _, ["nogroup"] => some .nogroup
  | .setid _, ["ok"] => some .ok
  | .createc _, [n] => (num n).map .num
  | .delc _, [n] => (num n).map .num
  | .ack _, [n] => (num n).map .num
  | .read .., [l] => (parseIds l).map .ids
  | .claim .., [l] => (parseIds l).map .ids
  | .autoclaim .., [n, l] => do pure (.next (← parseId n) (← parseIds l))
  | .pending, [n, mn, mx, cons] => do
    pure (.summary (← num n) (← parseOptId "-" mn) (← parseOptId "-" mx) (← parseList parseCount cons))
  | .prange .., [l] => do
    let es ← parseList parseEntry l
    pure (.entries (es.map Code.showEntry))
  | _, _ => none

def firstBadClause (g : Group) : String :=
  match (agreeClauses g).find? (fun c => !c.2) with
  | some c => c.1
  | none => "-"

/-- split a word list at the `;;` separators -/
def splitSections (ws : List String) : List (List String) :=
  let r := ws.foldr (fun w (acc : List String × List (List String)) =>
    if w == ";;" then ([], acc.1 :: acc.2) else (w :: acc.1, acc.2)) ([], [])
  r.1 :: r.2

def judgeG (stream : List Id) (pre : Group) (op : GOp) (reply : Reply) (post : Group) : String :=
  let r := Spec.gstep stream (Grp.abs pre) op
  -- XAUTOCLAIM is not part of the property text: only representation agreement is judged for it
  let prescribed := match op with | .autoclaim .. => false | _ => true
  let a := (if !prescribed || Grp.abs post = r.1 then [] else
              [if (Grp.abs post).cursor ≠ r.1.cursor then "cursor" else "pending-set"])
  let b := match r.2 with
    | some want => if normReply reply = normReply want then [] else ["reply"]
    | none => if reply = .panic then ["reply"] else []
  let c := if agreeB pre && !agreeB post then ["agree:" ++ firstBadClause post] else []
  let d := if agreeB pre then [] else ["pre-disagrees:" ++ firstBadClause pre]
  match a ++ b ++ c with
  | [] => "ok" ++ (if d.isEmpty then "" else " " ++ String.intercalate " " d)
  | l => "fail " ++ String.intercalate " " (l ++ d)

def judge (s0 : St) (secs : List (List String)) : String :=
  match secs with
  | [opw, "S" :: [ids], prew, replyw, postw] =>
    match parseIds ids with
    | none => "bad-op"
    | some stream =>
      let s : St := { s0 with stream := stream }
      let pre := if prew == ["none"] then some none else (parseGroup prew).map some
      let post := if postw == ["none"] then some none else (parseGroup postw).map some
      match pre, post with
      | some pre, some post =>
        match opw with
        | ["create", _, id] =>
          match (if id == "$" then some s.dollar else parseId id), pre, post, replyw with
          | some start, none, some (_, g), ["ok"] =>
            let want := Spec.newGroup start
            let a := if Grp.abs g = want then [] else
              [if (Grp.abs g).cursor ≠ want.cursor then "cursor" else "pending-set"]
            let c := if agreeB g then [] else ["agree:" ++ firstBadClause g]
            (match a ++ c with | [] => "ok" | l => "fail " ++ String.intercalate " " l)
          | some _, some (_, g), some (_, g'), ["busy"] => if g = g' then "ok" else "fail state"
          | some _, _, _, _ => "fail reply"
          | none, _, _, _ => "bad-op"
        | ["destroy", _] =>
          match pre, post, replyw with
          | some _, none, ["1"] => "ok"
          | none, none, ["0"] => "ok"
          | _, _, _ => "fail reply"
        | _ =>
          -- the oracle reads an explicit id as what it says (history after it), whatever the handler makes of it
          match opw, pre, post with
          | ["claim", _, c, idle, force, ids], some (_, g), some (_, g') =>
            -- XCLAIM as prescribed: the idle threshold decides for pending ids (FORCE does not replace it), FORCE
            -- creates the missing rows of existing entries
            match num c, parseIdle idle, parseBool force, parseIds ids, parseIds (String.intercalate " " replyw) with
            | some c, some idle, some force, some ids, some got =>
              let r := Spec.claimF stream (Grp.abs g) c (idle == 0) force ids
              let a := if (Grp.abs g').pending = r.1.pending && (Grp.abs g').cursor = r.1.cursor then [] else ["pending-set"]
              let b := if got = r.2.filter (fun x => stream.contains x) then [] else ["reply"]
              let cc := if agreeB g && !agreeB g' then ["agree:" ++ firstBadClause g'] else []
              (match a ++ b ++ cc with | [] => "ok" | l => "fail " ++ String.intercalate " " l)
            | _, _, _, _, _ => "bad-op"
          | _, _, _ =>
          match parseGOp s some (fun n => if n = 0 then none else some n)
                  (fun isStart excl b => (Code.boundSpec isStart excl b).map some) opw, pre, post with
          | some (_, some op), some (_, g), some (_, g') =>
            match parseReplyFor op replyw with
            | some reply => judgeG stream g op reply g'
            | none => "bad-op"
          | some (_, none), some (_, g), some (_, g') =>
            -- an invalid bound: the command is refused and changes nothing
            if replyw != ["refused"] then "fail reply" else if g = g' then "ok" else "fail state"
          | some _, _, _ => "bad-op"
          | none, _, _ => "bad-op"
      | _, _ => "bad-op"
  | _ => "bad-op"

/-! ### the line loop -/

def badKinds : List String :=
  ["create-badid", "create-arity", "create-wrongtype", "setid-badid", "setid-arity", "setid-wrongtype",
   "destroy-arity", "destroy-wrongtype", "delc-arity", "delc-wrongtype", "createc-arity", "unknown-sub", "ack-badid",
   "ack-arity", "ack-wrongtype", "claim-badidle", "claim-badid", "claim-arity", "read-badid", "read-unbalanced",
   "read-syntax", "pending-badcount", "pending-syntax"]

structure DState where
  q : Quirks
  s : St
  /-- the clock (`tnow <ms>`; 0 unless the real-time layer of the check sets it) -/
  clock : Nat := 0
  /-- `last_delivery` of the pending rows, per group -/
  times : List (Name × Code.Times) := []

def timesOf (d : DState) (g : Name) : Code.Times := (alGet g d.times).getD []

/-- positions of the group and consumer names in a request -/
def namePositions (ws : List String) : List Nat :=
  match ws with
  | "bad" :: _ => [2]
  | "createc" :: _ | "delc" :: _ | "read" :: _ | "claim" :: _ | "autoclaim" :: _ | "mread" :: _ => [1, 2]
  | "prange" :: _ => [1, 5]
  | "reset" :: _ | "add" :: _ | "del" :: _ | "quirks" :: _ | "tnow" :: _ | "judge" :: _ => []
  | _ => [1]

def usesBinaryName (ws : List String) : Bool :=
  (namePositions ws).any fun i => match ws[i]? with
    | some w => (num w).any Code.isBinaryName
    | none => false

/-- the request as the handlers see it on the pinned tree: binary names replaced by what the lossy conversion stores -/
def lossyWords (ws : List String) : List String :=
  let ps := namePositions ws
  ws.zipIdx.map fun (w, i) =>
    if ps.contains i then (match num w with | some n => toString (Code.lossyName n) | none => w) else w

def step0 (d : DState) (ws : List String) : DState × String :=
  match ws with
  | "quirks" :: flags =>
    match flags.mapM parseBool with
    | some [a, b, c, e, f, g, h, i, j, k, l, m, n] => ({ d with q := ⟨a, b, c, e, f, g, h, i, j, k, l, m, n⟩ }, "ok")
    | _ => (d, "bad-op")
  | ["bad", kind, g] =>
    -- a malformed / refused administration command (handler level): it is refused and changes nothing
    match num g with
    | some _ =>
      if !badKinds.contains kind then (d, "bad-op")
      else if kind == "create-badid" then
        -- XGROUP CREATE key g notanid MKSTREAM: refused; the pinned handler has created the key by then
        let s' := { d.s with keyExists := Code.refusedCreateLeavesKey d.q d.s.keyExists }
        ({ d with s := s' }, showStWith "refused" s')
      else (d, showStWith "refused" d.s)
    | none => (d, "bad-op")
  | ["tnow", ms] =>
    match num ms with
    | some ms => ({ d with clock := ms }, "ok")
    | none => (d, "bad-op")
  | "judge" :: rest => (d, judge d.s (splitSections rest))
  | ["reset"] => ({ d with s := St.empty, clock := 0, times := [] }, showSt .ok St.empty)
  | ["add", id] =>
    match parseId id with
    | some id => let r := d.s.add id; ({ d with s := r.1 }, showSt r.2 r.1)
    | none => (d, "bad-op")
  | ["del", ids] =>
    match parseIds ids with
    | some ids => let r := d.s.del ids; ({ d with s := r.1 }, showSt r.2 r.1)
    | none => (d, "bad-op")
  | ["create", g, id] =>
    match num g, (if id == "$" then some d.s.dollar else parseId id) with
    | some g, some id =>
      let r := St.create d.q d.s g id
      ({ d with s := r.1, times := if r.2 = .ok then alSet g [] d.times else d.times }, showSt r.2 r.1)
    | _, _ => (d, "bad-op")
  | ["destroy", g] =>
    match num g with
    | some g => let r := d.s.destroy g; ({ d with s := r.1 }, showSt r.2 r.1)
    | none => (d, "bad-op")
  | ["claim", g, c, idle, force, ids] =>
    -- XCLAIM with the real idle test (`Code.claimT`): min-idle in ms against the clock and the rows' last deliveries
    match num g, num c, parseMinIdle idle, parseBool force, parseIds ids with
    | some g, some c, some minIdle, some force, some ids =>
      match alGet g d.s.groups with
      | none => (d, showSt .nogroup d.s)
      | some grp =>
        let r := Code.claimT d.q d.s.stream (grp, timesOf d g) c d.clock minIdle force ids
        let s' := { d.s with groups := alSet g r.1.1 d.s.groups }
        ({ d with s := s', times := alSet g r.1.2 d.times },
         showSt (.ids (r.2.filter (fun x => d.s.stream.contains x))) s')
    | _, _, _, _, _ => (d, "bad-op")
  | ["pidle", g, id] =>
    -- idle time XPENDING reports for one pending id
    match num g, parseId id with
    | some g, some id =>
      match alGet g d.s.groups with
      | none => (d, showSt .nogroup d.s)
      | some grp =>
        match pelFind id grp.byId with
        | some _ => (d, showStWith (toString (d.clock - Code.lastOf (timesOf d g) id)) d.s)
        | none => (d, showStWith "-" d.s)
    | _, _ => (d, "bad-op")
  | ["mread", g, c, count, noack, kind] =>
    -- XREADGROUP over two streams whose second one fails
    match num g, num c, (if count == "-" then some none else (num count).map (Code.countFrom d.q)), parseBool noack,
          ["nogroup", "wrongtype", "badid"].contains kind with
    | some g, some c, some count, some noack, true =>
      match alGet g d.s.groups with
      | none => (d, showSt .refused d.s)
      | some grp =>
        let r := Code.multiReadFailing d.q d.s.stream grp c count noack
        let s' := { d.s with groups := alSet g r.1 d.s.groups }
        let delivered := if d.q.multiFix then [] else (Code.readGroup d.q d.s.stream grp c none count noack).2
        let times := if !noack && !delivered.isEmpty then alSet g (Code.stamp (timesOf d g) delivered d.clock) d.times
                     else d.times
        ({ d with s := s', times := times }, showSt r.2 s')
    | _, _, _, _, _ => (d, "bad-op")
  | _ =>
    match parseGOp d.s (Code.explicitFrom d.q) (Code.countFrom d.q) (Code.boundCode d.q) ws with
    | some (g, none) =>
      -- the handler looks the group up before it parses the bounds
      (d, showSt (if (alGet g d.s.groups).isSome then .refused else .nogroup) d.s)
    | some (g, some op) =>
      let r := St.gop d.q d.s g op
      -- deliveries into the PEL stamp the delivered rows with the clock
      let times := match op, r.2 with
        | .read _ frm _ false, .ids l =>
          if !l.isEmpty && (frm.isNone || !d.q.histFix) then alSet g (Code.stamp (timesOf d g) l d.clock) d.times
          else d.times
        | _, _ => d.times
      ({ d with s := r.1, times := times }, showSt r.2 r.1)
    | none => (d, "bad-op")

/-- names first: binary names are refused by the repaired tree and merged by the pinned one -/
def step (d : DState) (ws : List String) : DState × String :=
  if usesBinaryName ws then
    if d.q.nameFix then
      -- refused, nothing changes (the request must still be well-formed)
      let r := step0 d (lossyWords ws)
      if r.2 == "bad-op" then (d, "bad-op") else (d, showStWith "refused" d.s)
    else step0 d (lossyWords ws)
  else step0 d ws

def main : IO Unit := loop step { q := Quirks.pinned, s := St.empty }

end Ferrous.Drv.Groups
