/-
  Driver family `ks`: the key-space machine (C01, C03; reused by C02, C07, C08, C11, C17, C18).

  reset                                  → ok
  quirks <name>=<0|1> …                  → ok
  cmd <db> <now-ms> <obs> <arg-hex>…     → <code reply> # <spec reply> # same|differ   (post-states; the state follows the code variant; obs: `_` none, else hex list `a|b`, `.` = empty list)
  dump <db> <now-ms>                     → canonical dump of the live entries of one database
-/
import FerrousSpec.Drv.Util
import FerrousSpec.Model.Keyspace
namespace Ferrous.Drv.Keyspace
open Ferrous Ferrous.Drv Ferrous.KS

/-- Error wording is never compared: every error is `( e )`; an outcome the relation refuses is `( reject )`. -/
partial def showReply : Frame → String
  | .error b => if b = strBytes "ORACLE-REJECT" then "( reject )" else "( e )"
  | .array xs => "( a" ++ String.join (xs.map fun x => " " ++ showReply x) ++ " )"
  | f => showFrame f

def showVal : Val → String
  | .str b => "string " ++ toHex b
  | .list xs => "list " ++ hexList xs
  | .set xs => "set " ++ hexList (sortBytes xs)
  | .hash fs => "hash " ++ (if fs.isEmpty then "." else
      String.intercalate "|" ((sortBy (·.1) fs).map fun p => toHex p.1 ++ "=" ++ toHex p.2))
  | .zset zs => "zset " ++ (if zs.isEmpty then "." else
      String.intercalate "|" ((sortBy (·.1) zs).map fun p => toHex p.1 ++ "=" ++ toHex p.2))
  | .stream n => s!"stream {n}"

def showDb (now : Nat) (db : Db) : String :=
  let live := sortBy (·.1) (purge now db)
  if live.isEmpty then "." else
  String.intercalate " ; " (live.map fun p =>
    toHex p.1 ++ " " ++ showVal p.2.val ++ " " ++ (if p.2.deadline.isSome then "ttl" else "nottl"))

def setQuirk (q : Quirks) (kv : String) : Option Quirks :=
  match kv.splitOn "=" with
  | [k, v] =>
    let b := v == "1"
    if k == "lateExpiryVisible" then some { q with lateExpiryVisible := b }
    else none
  | _ => none

structure St where
  q : Quirks := {}
  s : Store := emptyStore

def step (st : St) (ws : List String) : St × String :=
  match ws with
  | ["reset"] => ({ st with s := emptyStore }, "ok")
  | "quirks" :: kvs =>
    match kvs.foldlM setQuirk st.q with
    | some q => ({ st with q := q }, "ok")
    | none => (st, "bad-op")
  | "cmd" :: db :: now :: obs :: args =>
    match db.toNat?, now.toNat?, args.mapM ofHex, (if obs == "_" then some none else (parseHexList obs).map some) with
    | some db, some now, some args, some obs =>
      if db ≥ 16 then (st, "bad-op") else
      -- the state follows the code variant; the reference reply is computed from the same pre-state
      let (s', r) := KS.step st.q st.s db now args obs
      let (s'', r') := KS.step Quirks.spec st.s db now args obs
      ({ st with s := s' }, showReply r ++ " # " ++ showReply r' ++ " # " ++ (if s' == s'' then "same" else "differ"))
    | _, _, _, _ => (st, "bad-op")
  | ["dump", db, now] =>
    match db.toNat?, now.toNat? with
    | some db, some now => (st, showDb now (getDb st.s db))
    | _, _ => (st, "bad-op")
  | _ => (st, "bad-op")

def main : IO Unit := loop step {}

end Ferrous.Drv.Keyspace
