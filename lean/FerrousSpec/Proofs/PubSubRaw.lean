/-
  The invariant restated on the raw association lists (what `maps_agree` in Props/C14.lean
  says), and the absence of empty per-connection entries for histories a client can produce.
-/
import FerrousSpec.Proofs.PubSubStream
set_option linter.unusedSimpArgs false
namespace Ferrous.PubSub

theorem mem_members_iff {st : State} {k : Kind} (hk : (keys (st.idx k)).Nodup) (x : Bytes) (c : ConnId) :
    c ∈ members st k x ↔ ∃ cs, (x, cs) ∈ st.idx k ∧ c ∈ cs := by
  rw [members_def, mem_getD_aget]
  constructor
  · rintro ⟨cs, h1, h2⟩; exact ⟨cs, mem_of_aget h1, h2⟩
  · rintro ⟨cs, h1, h2⟩; exact ⟨cs, (mem_iff_aget hk _ _).1 h1, h2⟩

theorem mem_held_iff {st : State} (hk : (keys st.subs).Nodup) (c : ConnId) (k : Kind) (x : Bytes) :
    x ∈ held st c k ↔ ∃ h, (c, h) ∈ st.subs ∧ x ∈ h.sel k := by
  unfold held info
  cases ha : aget st.subs c with
  | none =>
    constructor
    · intro h; cases k <;> cases h
    · rintro ⟨h, h1, _⟩
      rw [(mem_iff_aget hk _ _).1 h1] at ha
      cases ha
  | some i =>
    constructor
    · intro h; exact ⟨i, mem_of_aget ha, h⟩
    · rintro ⟨h, h1, h2⟩
      rw [(mem_iff_aget hk _ _).1 h1] at ha
      injection ha with ha
      subst ha
      exact h2

/-- The invariant in terms of list membership only. -/
theorem Inv.raw {st : State} (h : Inv st) :
    (∀ k x c, (∃ cs, (x, cs) ∈ st.idx k ∧ c ∈ cs) ↔ (∃ i, (c, i) ∈ st.subs ∧ x ∈ i.sel k)) ∧
    (∀ k, ((st.idx k).map (·.1)).Nodup) ∧ (st.subs.map (·.1)).Nodup ∧
    (∀ k, ∀ e ∈ st.idx k, e.2 ≠ [] ∧ e.2.Nodup) ∧
    (∀ k, ∀ e ∈ st.subs, (e.2.sel k).Nodup) := by
  refine ⟨?_, h.keysIdx, h.keysSubs, ?_, ?_⟩
  · intro k x c
    rw [← mem_members_iff (h.keysIdx k), ← mem_held_iff h.keysSubs]
    exact h.agree k x c
  · intro k e he
    obtain ⟨x, cs⟩ := e
    have ha := (mem_iff_aget (h.keysIdx k) x cs).1 he
    constructor
    · intro e
      simp only at e
      subst e
      exact h.noEmpty k x ha
    · have := h.nodupMembers k x
      rw [members_def, ha] at this
      exact this
  · intro k e he
    obtain ⟨c, i⟩ := e
    have ha := (mem_iff_aget h.keysSubs c i).1 he
    have := h.nodupHeld c k
    unfold held info at this
    rw [ha] at this
    exact this

/-! ### No empty per-connection entry (client-producible histories) -/

/-- Every entry of the connection-side map records at least one subscription. -/
def NoEmptyInfo (st : State) : Prop := ∀ c i, aget st.subs c = some i → i ≠ ([], [])

theorem subs_sub1_other {k : Kind} {c c' : ConnId} (hc : c' ≠ c) (st : State) (x : Bytes) :
    aget (sub1 k c st x).1.subs c' = aget st.subs c' := by
  by_cases h : x ∈ held st c k
  · rw [sub1_dup h]
  · rw [sub1_new h]
    simp only [subs_withSubs, aget_aset]
    have : ¬ c = c' := fun e => hc e.symm
    simp [this]

theorem subs_unsub1_other {k : Kind} {c c' : ConnId} (hc : c' ≠ c) (st : State) (x : Bytes) :
    aget (unsub1 k c st x).1.subs c' = aget st.subs c' := by
  unfold unsub1
  simp only [subs_withSubs, aget_aset]
  have : ¬ c = c' := fun e => hc e.symm
  simp [this]

theorem subs_loop_other {f : State → Bytes → State × Ack} {c' : ConnId}
    (hf : ∀ st x, aget (f st x).1.subs c' = aget st.subs c') (xs : List Bytes) (st : State) :
    aget (loop f st xs).1.subs c' = aget st.subs c' := by
  induction xs generalizing st with
  | nil => rfl
  | cons x xs ih => simp only [loop]; rw [ih, hf]

/-- Once a name is held it stays held for the rest of a SUBSCRIBE loop. -/
theorem held_loop_sub1_mono {k : Kind} {c : ConnId} {y : Bytes} (xs : List Bytes) (st : State)
    (h : y ∈ held st c k) : y ∈ held (loop (sub1 k c) st xs).1 c k := by
  induction xs generalizing st with
  | nil => exact h
  | cons x xs ih =>
    simp only [loop]
    apply ih
    rw [held_sub1]
    simp only [and_self, if_true]
    exact (mem_sins _ _ _).2 (Or.inl h)

theorem held_loop_sub1_last {k : Kind} {c : ConnId} (x : Bytes) (xs : List Bytes) (st : State) :
    x ∈ held (loop (sub1 k c) st (x :: xs)).1 c k := by
  simp only [loop]
  apply held_loop_sub1_mono
  rw [held_sub1]
  simp only [and_self, if_true]
  exact (mem_sins _ _ _).2 (Or.inr rfl)

theorem ne_empty_of_held {st : State} {c : ConnId} {k : Kind} {y : Bytes} {i : Held}
    (ha : aget st.subs c = some i) (h : y ∈ held st c k) : i ≠ ([], []) := by
  unfold held info at h
  rw [ha] at h
  intro e
  subst e
  cases k <;> cases h

theorem NoEmptyInfo.next {st : State} (h : NoEmptyInfo st) (op : Op) (hop : Code.clientOp op = true) :
    NoEmptyInfo (Code.next st op) := by
  intro c' i ha
  cases op with
  | subscribe c k xs =>
    simp only [Code.next, Code.apply, subscribe] at ha
    by_cases hc : c' = c
    · subst hc
      cases xs with
      | nil => simp [Code.clientOp] at hop
      | cons x xs => exact ne_empty_of_held ha (held_loop_sub1_last x xs _)
    · rw [subs_loop_other (fun st x => subs_sub1_other hc st x)] at ha
      have : aget (ensure st c).subs c' = aget st.subs c' := by
        unfold ensure
        cases aget st.subs c with
        | some _ => rfl
        | none =>
          simp only [subs_withSubs, aget_aset]
          have : ¬ c = c' := fun e => hc e.symm
          simp [this]
      rw [this] at ha
      exact h c' i ha
  | unsubscribe c k xs =>
    simp only [Code.next, Code.apply, unsubscribe] at ha
    cases h0 : aget st.subs c with
    | none => rw [h0] at ha; exact h c' i ha
    | some j =>
      rw [h0] at ha
      simp only at ha
      by_cases hc : c' = c
      · subst hc
        exact cleanup_nonempty _ _ _ ha
      · have : aget (cleanup (loop (unsub1 k c) st (xs.getD (j.sel k))).1 c).subs c' =
            aget (loop (unsub1 k c) st (xs.getD (j.sel k))).1.subs c' := by
          unfold cleanup
          cases aget (loop (unsub1 k c) st (xs.getD (j.sel k))).1.subs c with
          | none => rfl
          | some _ =>
            simp only
            split
            · simp only [subs_withSubs, aget_adel]
              have : ¬ c = c' := fun e => hc e.symm
              simp [this]
            · rfl
        rw [this, subs_loop_other (fun st x => subs_unsub1_other hc st x)] at ha
        exact h c' i ha
  | disconnect c =>
    simp only [Code.next, Code.apply, unsubscribeAll, aget_adel] at ha
    split at ha
    · cases ha
    · exact h c' i ha
  | publish p ch msg => exact h c' i ha

theorem NoEmptyInfo.after {st : State} (h : NoEmptyInfo st) (ops : List Op) (hops : ∀ op ∈ ops, Code.clientOp op = true) :
    NoEmptyInfo (Code.after st ops) := by
  induction ops generalizing st with
  | nil => exact h
  | cons op ops ih =>
    exact ih (h.next op (hops op List.mem_cons_self)) (fun o ho => hops o (List.mem_cons_of_mem _ ho))

end Ferrous.PubSub
