/-
  Blocking pops, repaired tree — the micro-steps keep the multi-key invariant `InvG`.
-/
import FerrousSpec.Proofs.BlockingFixInv
namespace Ferrous.Blk

/-! ## Steps that do not touch registry, wake queue, blocked states -/

theorem InvG_emit {sl st} {s : State} {c : Conn} (hI : InvG sl st s) (h : (s.conns c).peerClosed = false) (r : Reply) :
    InvG sl st (emit s c r) := by
  rw [emit_open h]
  exact hI.congr' rfl rfl rfl rfl (fun _ => ⟨rfl, rfl, rfl⟩)

/-- A reply that carries no element changes `out` at most (whatever the state of the peer). -/
theorem emit_plain (s : State) (c : Conn) {r : Reply} (hr : r.elem? = none) : ∃ o, emit s c r = { s with out := o } := by
  unfold emit
  split
  · exact ⟨s.out, by simp [hr]⟩
  · exact ⟨_, rfl⟩

theorem InvG_setConn_tx {sl st} {s : State} (hI : InvG sl st s) (c : Conn) (f : ConnSt → ConnSt)
    (hf : ∀ cs, (f cs).blocked = cs.blocked ∧ (f cs).gone = cs.gone ∧ (f cs).peerClosed = cs.peerClosed) :
    InvG sl st (setConn s c f) := by
  refine hI.congr' rfl rfl rfl rfl ?_
  intro c'
  simp only [setConn]
  split
  · exact hf _
  · exact ⟨rfl, rfl, rfl⟩

/-! ## A blocking pop that finds nothing registers on its (distinct) keys -/

theorem nodup_map_pair_left {ks : List Key} (c : Conn) (h : ks.Nodup) : (ks.map fun k => (k, c)).Nodup := by
  induction ks with
  | nil => exact List.nodup_nil
  | cons k r ih =>
    obtain ⟨h1, h2⟩ := List.nodup_cons.mp h
    simp only [List.map_cons]
    refine List.nodup_cons.mpr ⟨?_, ih h2⟩
    intro hm
    obtain ⟨k', hk', heq⟩ := List.mem_map.mp hm
    exact h1 ((Prod.mk.inj heq).1 ▸ hk')

theorem InvG_register {s : State} (hI : InvF s) (c : Conn) (ks : List Key) (dl : Option Nat) (op : Op)
    (hks : ks.Nodup) (hne : ks ≠ [])
    (hc0 : c ≠ 0) (hcg : (s.conns c).gone = false) (hcp : (s.conns c).peerClosed = false)
    (hnb : (s.conns c).blocked = none)
    (hempty : ∀ k, k ∈ ks → cntL s k = 0) :
    InvF (setBlocked { s with registry := s.registry ++ ks.map fun k => (k, (⟨c, dl, op⟩ : Waiter)) } c
      (some ⟨ks, dl, op⟩)) := by
  have hconn : ∀ c', c' ≠ c → (setBlocked { s with registry := s.registry ++ ks.map fun k => (k, (⟨c, dl, op⟩ : Waiter)) } c
      (some ⟨ks, dl, op⟩)).conns c' = s.conns c' := fun c' h => setBlocked_conns_ne _ _ _ _ h
  have hself : ((setBlocked { s with registry := s.registry ++ ks.map fun k => (k, (⟨c, dl, op⟩ : Waiter)) } c
      (some ⟨ks, dl, op⟩)).conns c).blocked = some ⟨ks, dl, op⟩ := setBlocked_blocked_self _ _ _ hc0
  have hslots : slotsOf (setBlocked { s with registry := s.registry ++ ks.map fun k => (k, (⟨c, dl, op⟩ : Waiter)) } c
      (some ⟨ks, dl, op⟩)) = s.registry.map (fun e => (e.1, e.2.conn)) ++ ks.map (fun k => (k, c)) ++
        s.wakeQ.map (fun w => (w.key, w.conn)) := by
    unfold slotsOf
    rw [setBlocked_registry, setBlocked_wakeQ]
    simp [List.map_append, Function.comp_def]
  have hperm : (s.registry.map (fun e => (e.1, e.2.conn)) ++ ks.map (fun k => (k, c)) ++
        s.wakeQ.map (fun w => (w.key, w.conn))).Perm (ks.map (fun k => (k, c)) ++ slotsOf s) := by
    unfold slotsOf
    rw [List.append_assoc]
    refine List.perm_append_comm.trans ?_
    rw [List.append_assoc]
    refine List.Perm.append_left _ ?_
    exact List.perm_append_comm
  have hnoc : ∀ k, (k, c) ∉ slotsOf s := by
    intro k h
    rcases mem_slots_iff.mp h with ⟨w, hw, hwc⟩ | ⟨w, hw, _, hwc⟩
    · exact hI.no_reg_of_unblocked hnb hw hwc
    · exact hI.no_wake_of_unblocked hnb hw hwc
  refine ⟨?_, ?_, ?_, ?_, ?_, ?_, ?_, ?_, ?_⟩
  · intro k w h
    rw [setBlocked_registry] at h
    left
    rcases List.mem_append.mp h with h | h
    · have hwc : w.conn ≠ c := hI.no_reg_of_unblocked hnb h
      rw [hconn _ hwc]
      exact hI.reg_blocked h
    · obtain ⟨k', hk', heq⟩ := List.mem_map.mp h
      obtain ⟨rfl, rfl⟩ := Prod.mk.inj heq
      exact ⟨⟨ks, dl, op⟩, hself, hk', rfl, rfl⟩
  · intro w h
    rw [setBlocked_wakeQ] at h
    have hwc : w.conn ≠ c := hI.no_wake_of_unblocked hnb h
    rw [hconn _ hwc]
    exact hI.wakeOk w h
  · rw [hslots]
    refine hperm.nodup_iff.mpr (List.nodup_append.mpr ⟨nodup_map_pair_left c hks, hI.slots, ?_⟩)
    intro a ha b hb hab
    obtain ⟨k, _, rfl⟩ := List.mem_map.mp ha
    exact hnoc k (hab ▸ hb)
  · intro c' b hb k hk
    rw [hslots]
    apply hperm.symm.subset
    by_cases hcc : c' = c
    · subst hcc
      rw [hself] at hb
      obtain rfl := Option.some.inj hb
      exact List.mem_append_left _ (List.mem_map.mpr ⟨k, hk, rfl⟩)
    · rw [hconn _ hcc] at hb
      exact List.mem_append_right _ (hI.cover c' b hb k hk)
  · intro c' b hb
    by_cases hcc : c' = c
    · subst hcc
      rw [hself] at hb
      obtain rfl := Option.some.inj hb
      exact hne
    · rw [hconn _ hcc] at hb
      exact hI.keysNe c' b hb
  · intro c' hb
    by_cases hcc : c' = c
    · subst hcc
      rw [setBlocked_gone]
      exact ⟨hc0, hcg⟩
    · rw [hconn _ hcc] at hb ⊢
      exact hI.alive c' hb
  · rw [setBlocked_wakeQ]; exact hI.wakeConns
  · intro k
    have hc := hI.counts k
    simp only [cntW, cntL, cntR, setBlocked_wakeQ, setBlocked_store, setBlocked_registry, noSlack] at hc ⊢
    rw [List.countP_append]
    by_cases hk : k ∈ ks
    · have h0 := hempty k hk
      simp only [cntL] at h0
      omega
    · have : (ks.map fun k' => (k', (⟨c, dl, op⟩ : Waiter))).countP (keyIs k) = 0 := by
        apply List.countP_eq_zero.mpr
        intro x hx
        obtain ⟨k', hk', rfl⟩ := List.mem_map.mp hx
        simp only [keyIs, beq_iff_eq]
        intro e; exact hk (e ▸ hk')
      omega
  · rw [setBlocked_lost]; exact hI.lost

/-! ## A push: the elements arrive (`slackAt k n`), then `n` notifications -/

theorem countP_pushElems (op : Op) (k : Key) (vs : List Elem) (st : List (Key × Elem)) (k' : Key) :
    (pushElems op k vs st).countP (keyIs k') = st.countP (keyIs k') + (if k' = k then vs.length else 0) := by
  have hmap : ∀ (l : List Elem), (l.map fun v => ((k, v) : Key × Elem)).countP (keyIs k') = if k' = k then l.length else 0 := by
    intro l
    induction l with
    | nil => simp
    | cons v r ih =>
      simp only [List.map_cons, List.countP_cons, ih, keyIs, List.length_cons]
      by_cases h : k' = k
      · subst h; simp
      · have : (k == k') = false := by simp; exact fun e => h e.symm
        simp [h, this]
  cases op with
  | left =>
    simp only [pushElems, List.countP_append, hmap, List.length_reverse]
    omega
  | right =>
    simp only [pushElems, List.countP_append, hmap]

theorem InvG_pushStore {st} {s s1 : State} (hI : InvG noSlack st s) (k : Key) (n : Nat)
    (hr : s1.registry = s.registry) (hw : s1.wakeQ = s.wakeQ) (hl : s1.lost = s.lost)
    (hc : ∀ c, (s1.conns c).blocked = (s.conns c).blocked ∧ (s1.conns c).gone = (s.conns c).gone ∧
      (s1.conns c).peerClosed = (s.conns c).peerClosed)
    (hL : ∀ k', cntL s1 k' = cntL s k' + (if k' = k then n else 0)) :
    InvG (slackAt k n) st s1 := by
  refine hI.congr hr hw hl hc ?_
  intro k'
  have h := hI.counts k'
  have hW : cntW s1 k' = cntW s k' := by unfold cntW; rw [hw]
  have hR : cntR s1 k' = cntR s k' := by unfold cntR; rw [hr]
  rw [hW, hR, hL k']
  simp only [noSlack, slackAt] at h ⊢
  split <;> omega

/-- One element of `k` less is waiting for its notification. -/
def decAt (sl : Key → Nat) (k : Key) : Key → Nat := fun k' => if k' = k then sl k - 1 else sl k'

theorem decAt_slackAt (k : Key) (m : Nat) : decAt (slackAt k (m + 1)) k = slackAt k m := by
  funext k'; simp only [decAt, slackAt]; split <;> simp

theorem InvG_notify_sl {s : State} {sl : Key → Nat} (k : Key) (hI : InvG sl noStale s) (hpos : 0 < sl k)
    (hk : ∀ w, w ∈ s.wakeQ → w.key = k) :
    InvG (decAt sl k) noStale (notify k s) ∧ (∀ w, w ∈ (notify k s).wakeQ → w.key = k) ∧
      (notify k s).wakeQ.length ≤ s.wakeQ.length + 1 := by
  unfold notify
  split
  · next hp =>
    refine ⟨⟨hI.regOk, hI.wakeOk, hI.slots, hI.cover, hI.keysNe, hI.alive, hI.wakeConns, ?_, hI.lost⟩, hk, by omega⟩
    intro k'
    have h := hI.counts k'
    have hR0 : cntR s k = 0 := cntR_zero_of_popFirst_none hp
    simp only [decAt]
    by_cases hkk : k' = k
    · subst hkk; simp only [if_true]; omega
    · simp only [hkk, if_false]; exact h
  · next e reg' hp =>
    obtain ⟨a, b, h1, h2, h3, _⟩ := popFirst_some hp
    have hek : e.1 = k := keyIs_iff.mp h3
    have hemem : (e.1, e.2) ∈ s.registry := by rw [h1]; simp
    have hperm : (slotsOf { s with registry := reg', wakeQ := s.wakeQ ++ [(⟨e.2.conn, k, e.2.op⟩ : Wake)] }).Perm (slotsOf s) := by
      unfold slotsOf
      show (reg'.map (fun e => (e.1, e.2.conn)) ++ (s.wakeQ ++ [(⟨e.2.conn, k, e.2.op⟩ : Wake)]).map (fun w => (w.key, w.conn))).Perm
        (s.registry.map (fun e => (e.1, e.2.conn)) ++ s.wakeQ.map (fun w => (w.key, w.conn)))
      rw [h1, h2]
      simp only [List.map_append, List.map_cons, List.map_nil, hek]
      have e1 : (a.map (fun e => (e.1, e.2.conn)) ++ b.map (fun e => (e.1, e.2.conn)) ++
            (s.wakeQ.map (fun w => (w.key, w.conn)) ++ [(k, e.2.conn)]))
          = a.map (fun e => (e.1, e.2.conn)) ++ ((b.map (fun e => (e.1, e.2.conn)) ++ s.wakeQ.map (fun w => (w.key, w.conn))) ++ [(k, e.2.conn)]) := by simp
      have e2 : (a.map (fun e => (e.1, e.2.conn)) ++ (k, e.2.conn) :: b.map (fun e => (e.1, e.2.conn)) ++ s.wakeQ.map (fun w => (w.key, w.conn)))
          = a.map (fun e => (e.1, e.2.conn)) ++ ((k, e.2.conn) :: (b.map (fun e => (e.1, e.2.conn)) ++ s.wakeQ.map (fun w => (w.key, w.conn)))) := by simp
      rw [e1, e2]
      exact List.Perm.append_left _ (List.perm_append_singleton _ _)
    have hnew : e.2.conn ∉ s.wakeQ.map (·.conn) := by
      intro hm
      obtain ⟨w, hw, hwc⟩ := List.mem_map.mp hm
      have hs := hI.slots
      unfold slotsOf at hs
      have hdis := (List.nodup_append.mp hs).2.2
      have m1 : (k, e.2.conn) ∈ s.registry.map (fun e => (e.1, e.2.conn)) :=
        List.mem_map.mpr ⟨e, by rw [h1]; simp, by rw [hek]⟩
      have m2 : (k, e.2.conn) ∈ s.wakeQ.map (fun w => (w.key, w.conn)) :=
        List.mem_map.mpr ⟨w, hw, by rw [hk w hw, hwc]⟩
      exact hdis _ m1 _ m2 rfl
    refine ⟨⟨?_, ?_, ?_, ?_, hI.keysNe, hI.alive, ?_, ?_, hI.lost⟩, ?_, ?_⟩
    · intro k' w' h
      have h : (k', w') ∈ reg' := h
      apply hI.regOk k' w'
      rw [h1]; rw [h2] at h
      rcases List.mem_append.mp h with h | h
      · exact List.mem_append_left _ h
      · exact List.mem_append_right _ (List.mem_cons_of_mem _ h)
    · intro w h
      have h : w ∈ s.wakeQ ++ [(⟨e.2.conn, k, e.2.op⟩ : Wake)] := h
      rcases List.mem_append.mp h with h | h
      · exact hI.wakeOk w h
      · simp only [List.mem_singleton] at h
        subst h
        obtain ⟨b', hb', hkb, _, hop⟩ := hI.reg_blocked hemem
        exact ⟨b', hb', hek ▸ hkb, hop⟩
    · exact hperm.nodup_iff.mpr hI.slots
    · intro c b' hb' k' hk'
      exact hperm.symm.subset (hI.cover c b' hb' k' hk')
    · show ((s.wakeQ ++ [(⟨e.2.conn, k, e.2.op⟩ : Wake)]).map (·.conn)).Nodup
      rw [List.map_append]
      refine List.nodup_append.mpr ⟨hI.wakeConns, by simp, ?_⟩
      intro x hx y hy hxy
      simp only [List.map_cons, List.map_nil, List.mem_singleton] at hy
      exact hnew (hy ▸ hxy ▸ hx)
    · intro k'
      have hc' := hI.counts k'
      show (s.wakeQ ++ [(⟨e.2.conn, k, e.2.op⟩ : Wake)]).countP (fun w => w.key == k') + decAt sl k k' ≤ cntL s k' ∧
        (0 < reg'.countP (keyIs k') → cntL s k' = (s.wakeQ ++ [(⟨e.2.conn, k, e.2.op⟩ : Wake)]).countP (fun w => w.key == k') + decAt sl k k')
      have hRs : cntR s k' = (a ++ b).countP (keyIs k') + (if keyIs k' e = true then 1 else 0) := by
        unfold cntR; rw [h1]; exact countP_remove _ _ _ _
      rw [h2, List.countP_append]
      simp only [List.countP_cons, List.countP_nil, Nat.zero_add, decAt] at hc' ⊢
      have hWs : cntW s k' = s.wakeQ.countP (fun w => w.key == k') := rfl
      by_cases hkk : k' = k
      · subst hkk
        have : keyIs k' e = true := h3
        simp only [this, if_true] at hRs
        simp only [beq_self_eq_true, if_true] at hc' ⊢
        omega
      · have h5 : keyIs k' e = false := by
          apply keyIs_false_iff.mpr; rw [hek]; exact fun h => hkk h.symm
        have h6 : (k == k') = false := by simp; exact fun h => hkk h.symm
        simp only [h5, Bool.false_eq_true, if_false, Nat.add_zero] at hRs
        simp only [h6, Bool.false_eq_true, if_false, Nat.add_zero, hkk] at hc' ⊢
        omega


    · intro w h
      have h : w ∈ s.wakeQ ++ [(⟨e.2.conn, k, e.2.op⟩ : Wake)] := h
      rcases List.mem_append.mp h with h | h
      · exact hk w h
      · simp only [List.mem_singleton] at h; rw [h]
    · show (s.wakeQ ++ [(⟨e.2.conn, k, e.2.op⟩ : Wake)]).length ≤ _
      simp

theorem InvG_notify {s : State} (k : Key) (m : Nat) (hI : InvG (slackAt k (m + 1)) noStale s)
    (hk : ∀ w, w ∈ s.wakeQ → w.key = k) :
    InvG (slackAt k m) noStale (notify k s) ∧ (∀ w, w ∈ (notify k s).wakeQ → w.key = k) ∧
      (notify k s).wakeQ.length ≤ s.wakeQ.length + 1 := by
  have := InvG_notify_sl k hI (by simp [slackAt]) hk
  rw [decAt_slackAt] at this
  exact this

theorem InvG_notifyN (k : Key) : ∀ (n : Nat) (s : State), InvG (slackAt k n) noStale s → (∀ w, w ∈ s.wakeQ → w.key = k) →
    InvF (notifyN n k s) ∧ (notifyN n k s).wakeQ.length ≤ s.wakeQ.length + n := by
  intro n
  induction n with
  | zero =>
    intro s hI _
    simp only [notifyN]
    rw [slackAt_zero] at hI
    exact ⟨hI, by omega⟩
  | succ n ih =>
    intro s hI hk
    simp only [notifyN]
    obtain ⟨h1, h2, h3⟩ := InvG_notify k n hI hk
    obtain ⟨g1, g2⟩ := ih _ h1 h2
    exact ⟨g1, by omega⟩

/-! ## A wake-up is carried out: the client is served and leaves every queue -/

theorem countP_filter_le {α : Type} (p f : α → Bool) (l : List α) : (l.filter f).countP p ≤ l.countP p :=
  List.Sublist.countP_le List.filter_sublist

/-- Under the invariant the request at the head of the wake queue names a client blocked on its key. -/
theorem InvG.target_ok {sl st} {s : State} (hI : InvG sl st s) {w : Wake} {rest : List Wake} (hw : s.wakeQ = w :: rest) :
    wakeTargetOk { s with wakeQ := rest } w = true := by
  obtain ⟨b, hb, hkb, _⟩ := hI.wakeOk w (by rw [hw]; simp)
  obtain ⟨h0, hg⟩ := hI.alive w.conn (by rw [hb]; simp)
  have hl : isBlockedLive { s with wakeQ := rest } w.conn = true := isBlockedLive_of (s := { s with wakeQ := rest }) h0 hg hb
  simp [wakeTargetOk, hl, hb, hkb]

theorem wakeOne_blocked_or_none (q : Quirks) (s : State) (c : Conn) :
    ((wakeOne q s).conns c).blocked = (s.conns c).blocked ∨ ((wakeOne q s).conns c).blocked = none := by
  unfold wakeOne
  split
  · exact .inl rfl
  · next w rest _ =>
    simp only []
    split
    · split
      · rw [notify_conns]; exact .inl rfl
      · exact .inl rfl
    have h : ∀ (t : State), (t.conns = s.conns) →
        ((setBlocked t w.conn none).conns c).blocked = (s.conns c).blocked ∨ ((setBlocked t w.conn none).conns c).blocked = none := by
      intro t ht
      by_cases hc : c = w.conn
      · by_cases h0 : w.conn = 0
        · left; unfold setBlocked; simp [h0, ht]
        · right; rw [hc]; exact setBlocked_blocked_self _ _ _ h0
      · left; rw [setBlocked_conns_ne _ _ _ _ hc, ht]
    split
    · split
      · rw [notify_conns]; exact h _ rfl
      · exact h _ rfl
    split
    · exact .inl rfl
    · split
      · have h : ∀ (t : State), (t.conns = s.conns) →
            ((setBlocked t w.conn none).conns c).blocked = (s.conns c).blocked ∨ ((setBlocked t w.conn none).conns c).blocked = none := by
          intro t ht
          by_cases hc : c = w.conn
          · by_cases h0 : w.conn = 0
            · left; unfold setBlocked; simp [h0, ht]
            · right; rw [hc]; exact setBlocked_blocked_self _ _ _ h0
          · left; rw [setBlocked_conns_ne _ _ _ _ hc, ht]
        split
        · exact h _ (by simp)
        · exact h _ (by simp)
      · exact .inl rfl

theorem Calm_wakeOne (q : Quirks) (s : State) (h : Calm s) : Calm (wakeOne q s) := by
  intro c hb
  rw [(life_wakeOne q s c).2]
  rcases wakeOne_blocked_or_none q s c with h' | h'
  · rw [h'] at hb; exact h c hb
  · exact absurd h' hb

theorem InvG_wakeOne {sl : Key → Nat} (q : Quirks) (hq : q.unregisterAllOnServe = true) (s : State) (hI : InvG sl noStale s)
    (hcalm : Calm s) : InvG sl noStale (wakeOne q s) := by
  unfold wakeOne
  split
  · exact hI
  · next w rest hw =>
    have hwmem : w ∈ s.wakeQ := by rw [hw]; simp
    obtain ⟨b, hb, hkb, hop⟩ := hI.wakeOk w hwmem
    obtain ⟨h0, hg⟩ := hI.alive w.conn (by rw [hb]; simp)
    have hpc : (s.conns w.conn).peerClosed = false := hcalm w.conn (by rw [hb]; simp)
    have hWs : ∀ k', cntW s k' = rest.countP (fun w' => w'.key == k') + (if (w.key == k') = true then 1 else 0) := by
      intro k'; unfold cntW; rw [hw, List.countP_cons]
    have hps : probeSees q { s with wakeQ := rest } w.conn = false := by
      show ((s.conns w.conn).peerClosed && _) = false
      rw [hpc]; rfl
    simp only [hI.target_ok hw, hps, Bool.true_eq_false, Bool.false_eq_true, and_false, if_false]
    split
    · next hpe =>
      exfalso
      have hL0 : cntL s w.key = 0 := cntL_zero_of_popElem_none hpe
      have := hWs w.key
      have hc := (hI.counts w.key).1
      simp only [beq_self_eq_true, if_true] at this hc
      omega
    · next e st' hpe =>
      obtain ⟨a, b', h1, h2, hek⟩ := popElem_some hpe
      have hlive : isBlockedLive { s with wakeQ := rest, store := st' } w.conn = true :=
        isBlockedLive_of (s := { s with wakeQ := rest, store := st' }) h0 hg hb
      simp only [hlive, if_true, hq]
      have hopen : (({ s with wakeQ := rest, store := st' } : State).conns w.conn).peerClosed = false := hpc
      rw [emit_open hopen]
      -- other clients' wake-ups name other connections
      have hrestc : ∀ w', w' ∈ rest → w'.conn ≠ w.conn := by
        intro w' hw' e
        have hn := hI.wakeConns
        rw [hw, List.map_cons] at hn
        exact (List.nodup_cons.mp hn).1 (e ▸ List.mem_map.mpr ⟨w', hw', rfl⟩)
      have hconn : ∀ c, c ≠ w.conn → (setBlocked { s with wakeQ := rest, store := st', out := s.out ++ [(w.conn, Reply.pair e.1 e.2)] } w.conn none).conns c = s.conns c :=
        fun c hc => setBlocked_conns_ne _ _ _ _ hc
      have hxb : ((setBlocked { s with wakeQ := rest, store := st', out := s.out ++ [(w.conn, Reply.pair e.1 e.2)] } w.conn none).conns w.conn).blocked = none :=
        setBlocked_blocked_self _ _ _ h0
      refine ⟨?_, ?_, ?_, ?_, ?_, ?_, ?_, ?_, ?_⟩
      · intro k' w' h
        have h : (k', w') ∈ (setBlocked _ w.conn none).registry.filter fun x => x.2.conn != w.conn := h
        rw [setBlocked_registry] at h
        obtain ⟨hm, hne⟩ := List.mem_filter.mp h
        have hne : w'.conn ≠ w.conn := by simpa using hne
        show (∃ b, ((setBlocked _ w.conn none).conns w'.conn).blocked = some b ∧ _) ∨ _
        rw [hconn _ hne]
        exact hI.regOk k' w' hm
      · intro w' h
        have h : w' ∈ (setBlocked _ w.conn none).wakeQ := h
        rw [setBlocked_wakeQ] at h
        have h : w' ∈ rest := h
        show ∃ b, ((setBlocked _ w.conn none).conns w'.conn).blocked = some b ∧ _
        rw [hconn _ (hrestc w' h)]
        exact hI.wakeOk w' (by rw [hw]; exact List.mem_cons_of_mem _ h)
      · refine List.Nodup.sublist ?_ hI.slots
        unfold slotsOf
        simp only [setBlocked_registry, setBlocked_wakeQ, hw]
        exact List.Sublist.append (List.filter_sublist.map _) ((List.sublist_cons_self w rest).map _)
      · intro c b'' hb'' k' hk'
        have hb'' : ((setBlocked _ w.conn none).conns c).blocked = some b'' := hb''
        have hcx : c ≠ w.conn := by
          intro e; rw [e, hxb] at hb''; cases hb''
        rw [hconn _ hcx] at hb''
        rcases mem_slots_iff.mp (hI.cover c b'' hb'' k' hk') with ⟨w', hw', hwc⟩ | ⟨w', hw', hwk, hwc⟩
        · apply mem_slots_iff.mpr
          left
          refine ⟨w', ?_, hwc⟩
          show (k', w') ∈ (setBlocked _ w.conn none).registry.filter fun x => x.2.conn != w.conn
          rw [setBlocked_registry]
          exact List.mem_filter.mpr ⟨hw', by simp [hwc, hcx]⟩
        · apply mem_slots_iff.mpr
          right
          refine ⟨w', ?_, hwk, hwc⟩
          show w' ∈ (setBlocked _ w.conn none).wakeQ
          rw [setBlocked_wakeQ]
          rw [hw] at hw'
          rcases List.mem_cons.mp hw' with h | h
          · exact absurd (h ▸ hwc) (fun e => hcx e.symm)
          · exact h
      · intro c b'' hb''
        have hb'' : ((setBlocked _ w.conn none).conns c).blocked = some b'' := hb''
        have hcx : c ≠ w.conn := by
          intro e; rw [e, hxb] at hb''; cases hb''
        rw [hconn _ hcx] at hb''
        exact hI.keysNe c b'' hb''
      · intro c hc
        have hc : ((setBlocked _ w.conn none).conns c).blocked ≠ none := hc
        have hcx : c ≠ w.conn := fun e => hc (e ▸ hxb)
        show c ≠ 0 ∧ ((setBlocked _ w.conn none).conns c).gone = false
        rw [hconn _ hcx] at hc ⊢
        exact hI.alive c hc
      · show ((setBlocked _ w.conn none).wakeQ.map (·.conn)).Nodup
        rw [setBlocked_wakeQ]
        have hn := hI.wakeConns
        rw [hw, List.map_cons] at hn
        exact (List.nodup_cons.mp hn).2
      · intro k'
        have hc' := hI.counts k'
        have hLs : cntL s k' = st'.countP (keyIs k') + (if keyIs k' e = true then 1 else 0) := by
          unfold cntL; rw [h1, h2]; exact countP_remove _ _ _ _
        have hW' := hWs k'
        have hRle : (s.registry.filter fun x => x.2.conn != w.conn).countP (keyIs k') ≤ cntR s k' := countP_filter_le _ _ _
        show (setBlocked _ w.conn none).wakeQ.countP (fun w' => w'.key == k') + sl k' ≤ (setBlocked _ w.conn none).store.countP (keyIs k') ∧
          (0 < ((setBlocked _ w.conn none).registry.filter fun x => x.2.conn != w.conn).countP (keyIs k') →
            (setBlocked _ w.conn none).store.countP (keyIs k') = (setBlocked _ w.conn none).wakeQ.countP (fun w' => w'.key == k') + sl k')
        rw [setBlocked_wakeQ, setBlocked_store, setBlocked_registry]
        show rest.countP (fun w' => w'.key == k') + sl k' ≤ st'.countP (keyIs k') ∧
          (0 < (s.registry.filter fun x => x.2.conn != w.conn).countP (keyIs k') → st'.countP (keyIs k') = rest.countP (fun w' => w'.key == k') + sl k')
        by_cases hkk : k' = w.key
        · subst hkk
          have : keyIs w.key e = true := keyIs_iff.mpr hek
          simp only [this, if_true] at hLs
          simp only [beq_self_eq_true, if_true] at hW'
          omega
        · have h5 : keyIs k' e = false := by
            apply keyIs_false_iff.mpr; rw [hek]; exact fun h => hkk h.symm
          have h6 : (w.key == k') = false := by simp; exact fun h => hkk h.symm
          simp only [h5, Bool.false_eq_true, if_false, Nat.add_zero] at hLs
          simp only [h6, Bool.false_eq_true, if_false, Nat.add_zero] at hW'
          omega
      · show (setBlocked _ w.conn none).lost = []
        rw [setBlocked_lost]; exact hI.lost

theorem InvF_wakeOne (q : Quirks) (hq : q.unregisterAllOnServe = true) (s : State) (hI : InvF s) (hcalm : Calm s) :
    InvF (wakeOne q s) := InvG_wakeOne q hq s hI hcalm

/-- A drain of at least as many steps as there are requests: the invariant holds, the state stays calm, the queue is empty. -/
theorem InvF_iter_wakeOne (q : Quirks) (hq : q.unregisterAllOnServe = true) :
    ∀ n s, InvF s → Calm s → s.wakeQ.length ≤ n →
      InvF (iter (wakeOne q) n s) ∧ Calm (iter (wakeOne q) n s) ∧ (iter (wakeOne q) n s).wakeQ = [] := by
  intro n
  induction n with
  | zero => intro s h hc hl; exact ⟨h, hc, List.length_eq_zero_iff.mp (by simp only [iter]; omega)⟩
  | succ n ih =>
    intro s h hc hl
    simp only [iter]
    refine ih _ (InvF_wakeOne q hq s h hc) (Calm_wakeOne q s hc) ?_
    rw [wakeOne_wakeQ q s (fun w rest hw => h.target_ok hw) (fun w rest hw => by
      obtain ⟨b, hb, _⟩ := h.wakeOk w (by rw [hw]; simp)
      exact hc w.conn (by rw [hb]; simp)), List.length_tail]; omega

/-! ## A pop between commands (empty wake queue) -/

theorem InvF_pop {s : State} (hI : InvF s) (hquiet : s.wakeQ = []) {op : Op} {k : Key} {e : Key × Elem} {st' : List (Key × Elem)}
    (hp : popElem op k s.store = some (e, st')) : InvF { s with store := st' } := by
  obtain ⟨a, b, h1, h2, hek⟩ := popElem_some hp
  refine hI.congr rfl rfl rfl (fun _ => ⟨rfl, rfl, rfl⟩) ?_
  intro k'
  have hc := hI.counts k'
  have hL : cntL s k' = st'.countP (keyIs k') + (if keyIs k' e = true then 1 else 0) := by
    unfold cntL; rw [h1, h2]; exact countP_remove _ _ _ _
  have hW0 : cntW s k' = 0 := by unfold cntW; rw [hquiet]; rfl
  show cntW s k' + noSlack k' ≤ st'.countP (keyIs k') ∧ (0 < cntR s k' → st'.countP (keyIs k') = cntW s k' + noSlack k')
  simp only [noSlack, Nat.add_zero] at hc ⊢
  by_cases hkk : k' = k
  · subst hkk
    have : keyIs k' e = true := keyIs_iff.mpr hek
    simp only [this, if_true] at hL
    omega
  · have h5 : keyIs k' e = false := by
      apply keyIs_false_iff.mpr; rw [hek]; exact fun h => hkk h.symm
    simp only [h5, Bool.false_eq_true, if_false, Nat.add_zero] at hL
    omega

/-! ## The deadline scan, one entry at a time -/

/-- Entries the running scan at `now` may have orphaned: they are expired, the scan will remove them. -/
def staleAt (now : Nat) : Key × Waiter → Prop := fun e => isExpired now e = true

theorem InvF.toScan {s : State} (hI : InvF s) (now : Nat) : InvG noSlack (staleAt now) s :=
  ⟨fun _ _ h => .inl (hI.reg_blocked h), hI.wakeOk, hI.slots, hI.cover, hI.keysNe, hI.alive, hI.wakeConns, hI.counts, hI.lost⟩

theorem isExpired_congr {now : Nat} {e e' : Key × Waiter} (h : e.2.deadline = e'.2.deadline) :
    isExpired now e = isExpired now e' := by
  unfold isExpired; rw [h]

theorem mem_of_mem_remove {α : Type} {a b : List α} {e x : α} (h : x ∈ a ++ e :: b) (hne : x ≠ e) : x ∈ a ++ b := by
  rcases List.mem_append.mp h with h | h
  · exact List.mem_append_left _ h
  · rcases List.mem_cons.mp h with h | h
    · exact absurd h hne
    · exact List.mem_append_right _ h

theorem mem_remove_sub {α : Type} {a b : List α} {e x : α} (h : x ∈ a ++ b) : x ∈ a ++ e :: b := by
  rcases List.mem_append.mp h with h | h
  · exact List.mem_append_left _ h
  · exact List.mem_append_right _ (List.mem_cons_of_mem _ h)

theorem InvScan_expireOne (now : Nat) (s : State) (hI : InvG noSlack (staleAt now) s) (hquiet : s.wakeQ = []) :
    InvG noSlack (staleAt now) (expireOne now s) := by
  unfold expireOne
  split
  · exact hI
  · next e reg' hp =>
    obtain ⟨a, b, h1, h2, h3, _⟩ := popFirst_some hp
    have hemem : (e.1, e.2) ∈ s.registry := by rw [h1]; simp
    have hsub : ∀ x, x ∈ reg' → x ∈ s.registry := fun x hx => by rw [h1]; rw [h2] at hx; exact mem_remove_sub hx
    have hcountsR : ∀ k', reg'.countP (keyIs k') ≤ cntR s k' := by
      intro k'; unfold cntR; rw [h1, h2, countP_remove]; omega
    have hslsub : ∀ (t : State), t.registry = reg' → t.wakeQ = s.wakeQ → (slotsOf t).Sublist (slotsOf s) := by
      intro t hr hw
      unfold slotsOf
      rw [hr, hw, h1, h2]
      exact List.Sublist.append ((List.Sublist.append (List.Sublist.refl _) (List.sublist_cons_self e b)).map _) (List.Sublist.refl _)
    rcases hI.regOk e.1 e.2 hemem with ⟨b0, hb0, _, hdl, _⟩ | ⟨hnone, _⟩
    · -- the entry's connection is still blocked: it is answered nil and released
      obtain ⟨h0, hg⟩ := hI.alive e.2.conn (by rw [hb0]; simp)
      have hlive : isBlockedLive { s with registry := reg' } e.2.conn = true :=
        isBlockedLive_of (s := { s with registry := reg' }) h0 hg hb0
      unfold timeoutConn
      simp only [hlive, if_true]
      -- the nil is written to the socket, or into the void when the peer has gone unnoticed: `out` at most changes
      obtain ⟨o, ho⟩ := emit_plain { s with registry := reg' } e.2.conn (r := .nilArr) rfl
      rw [ho]
      have hconn : ∀ c, c ≠ e.2.conn → (setBlocked { s with registry := reg', out := o } e.2.conn none).conns c = s.conns c :=
        fun c hc => setBlocked_conns_ne _ _ _ _ hc
      have hxb : ((setBlocked { s with registry := reg', out := o } e.2.conn none).conns e.2.conn).blocked = none :=
        setBlocked_blocked_self _ _ _ h0
      refine ⟨?_, ?_, ?_, ?_, ?_, ?_, ?_, ?_, ?_⟩
      · intro k' w' h
        rw [setBlocked_registry] at h
        have h : (k', w') ∈ reg' := h
        have hm := hsub _ h
        by_cases hwc : w'.conn = e.2.conn
        · right
          rw [hwc]
          refine ⟨hxb, ?_⟩
          rcases hI.regOk k' w' hm with ⟨b1, hb1, _, hdl1, _⟩ | ⟨hn, _⟩
          · rw [hwc, hb0] at hb1
            obtain rfl := Option.some.inj hb1
            show isExpired now (k', w') = true
            rw [isExpired_congr (e' := e) (by show w'.deadline = e.2.deadline; rw [hdl1, hdl])]
            exact h3
          · rw [hwc, hb0] at hn; cases hn
        · rw [hconn _ hwc]
          exact hI.regOk k' w' hm
      · intro w h
        rw [setBlocked_wakeQ] at h
        have h : w ∈ s.wakeQ := h
        rw [hquiet] at h; cases h
      · exact (hslsub _ (by rw [setBlocked_registry]) (by rw [setBlocked_wakeQ])).nodup hI.slots
      · intro c b1 hb1 k' hk'
        have hcx : c ≠ e.2.conn := by
          intro h; rw [h, hxb] at hb1; cases hb1
        rw [hconn _ hcx] at hb1
        rcases mem_slots_iff.mp (hI.cover c b1 hb1 k' hk') with ⟨w', hw', hwc⟩ | ⟨w', hw', _, _⟩
        · apply mem_slots_iff.mpr
          left
          refine ⟨w', ?_, hwc⟩
          rw [setBlocked_registry]
          show (k', w') ∈ reg'
          rw [h2]; rw [h1] at hw'
          refine mem_of_mem_remove hw' ?_
          intro heq
          have : w'.conn = e.2.conn := by rw [← heq]
          exact hcx (hwc ▸ this)
        · rw [hquiet] at hw'; cases hw'
      · intro c b1 hb1
        have hcx : c ≠ e.2.conn := by
          intro h; rw [h, hxb] at hb1; cases hb1
        rw [hconn _ hcx] at hb1
        exact hI.keysNe c b1 hb1
      · intro c hc
        have hcx : c ≠ e.2.conn := fun h => hc (h ▸ hxb)
        rw [hconn _ hcx] at hc ⊢
        exact hI.alive c hc
      · rw [setBlocked_wakeQ]; exact hI.wakeConns
      · intro k'
        have hc' := hI.counts k'
        have hR := hcountsR k'
        simp only [cntW, cntL, cntR, setBlocked_wakeQ, setBlocked_store, setBlocked_registry, noSlack] at hc' hR ⊢
        show s.wakeQ.countP _ + 0 ≤ s.store.countP _ ∧ (0 < reg'.countP (keyIs k') → s.store.countP _ = s.wakeQ.countP _ + 0)
        omega
      · rw [setBlocked_lost]; exact hI.lost
    · -- an entry orphaned earlier in this scan: it just goes
      have hdead : isBlockedLive { s with registry := reg' } e.2.conn = false := by
        simp [isBlockedLive, hnone]
      unfold timeoutConn
      simp only [hdead, Bool.false_eq_true, if_false]
      refine ⟨?_, hI.wakeOk, ?_, ?_, hI.keysNe, hI.alive, hI.wakeConns, ?_, hI.lost⟩
      · intro k' w' h
        exact hI.regOk k' w' (hsub _ h)
      · exact (hslsub { s with registry := reg' } rfl rfl).nodup hI.slots
      · intro c b1 hb1 k' hk'
        rcases mem_slots_iff.mp (hI.cover c b1 hb1 k' hk') with ⟨w', hw', hwc⟩ | ⟨w', hw', _, _⟩
        · apply mem_slots_iff.mpr
          left
          refine ⟨w', ?_, hwc⟩
          show (k', w') ∈ reg'
          rw [h2]; rw [h1] at hw'
          refine mem_of_mem_remove hw' ?_
          intro heq
          have : w'.conn = e.2.conn := by rw [← heq]
          rw [← this, hwc, hb1] at hnone; cases hnone
        · rw [hquiet] at hw'; cases hw'
      · intro k'
        have hc' := hI.counts k'
        have hR := hcountsR k'
        show cntW s k' + noSlack k' ≤ cntL s k' ∧ (0 < reg'.countP (keyIs k') → cntL s k' = cntW s k' + noSlack k')
        omega

theorem InvScan_iter (now : Nat) : ∀ n s, InvG noSlack (staleAt now) s → s.wakeQ = [] →
    InvG noSlack (staleAt now) (iter (expireOne now) n s) := by
  intro n
  induction n with
  | zero => intro s h _; exact h
  | succ n ih =>
    intro s h hq
    exact ih _ (InvScan_expireOne now s h hq) (by rw [expireOne_wakeQ]; exact hq)

/-- Once no expired entry is left, nothing is orphaned. -/
theorem InvScan_finish {now : Nat} {s : State} (hI : InvG noSlack (staleAt now) s)
    (h0 : s.registry.countP (isExpired now) = 0) : InvF s := by
  refine ⟨?_, hI.wakeOk, hI.slots, hI.cover, hI.keysNe, hI.alive, hI.wakeConns, hI.counts, hI.lost⟩
  intro k w h
  rcases hI.regOk k w h with h' | ⟨_, hst⟩
  · exact .inl h'
  · exact absurd hst (List.countP_eq_zero.mp h0 (k, w) h)

/-- The whole scan keeps the invariant. -/
theorem InvF_timeouts (now : Nat) (s : State) (hI : InvF s) (hquiet : s.wakeQ = []) :
    InvF (iter (expireOne now) s.registry.length s) :=
  InvScan_finish (InvScan_iter now _ s (hI.toScan now) hquiet)
    (iter_expireOne_count now s.registry.length s List.countP_le_length)

/-! ## Hang-up (blocked or not), reaping -/

theorem InvF_hangup (s : State) (c : Conn) (hI : InvF s) :
    InvF (setConn s c fun cs => { cs with peerClosed := true }) := by
  refine hI.congr_life rfl rfl rfl rfl ?_
  intro c'
  by_cases hcc : c' = c
  · subst hcc
    exact ⟨by simp [setConn], fun _ => by simp [setConn]⟩
  · simp [setConn, hcc]

/-- Any update of a connection that leaves `blocked` and `gone` as they are (`kill` of an unblocked client, `hangupDirty`). -/
theorem InvF_setConn_life (s : State) (c : Conn) (f : ConnSt → ConnSt) (hI : InvF s)
    (hf1 : (f (s.conns c)).blocked = (s.conns c).blocked) (hf2 : (f (s.conns c)).gone = (s.conns c).gone) :
    InvF (setConn s c f) := by
  refine hI.congr_life rfl rfl rfl rfl ?_
  intro c'
  by_cases hcc : c' = c
  · subst hcc
    exact ⟨by simp [setConn, hf1], fun _ => by simp [setConn, hf2]⟩
  · simp [setConn, hcc]

theorem InvF_reap (s : State) (c : Conn) (hI : InvF s) (hnb : (s.conns c).blocked = none) :
    InvF { (setConn s c fun cs => { cs with gone := true, blocked := none }) with
           registry := (setConn s c fun cs => { cs with gone := true, blocked := none }).registry.filter fun x => x.2.conn != c } := by
  have hfil : (s.registry.filter fun x => x.2.conn != c) = s.registry := by
    apply List.filter_eq_self.mpr
    intro x hx
    simp only [bne_iff_ne, ne_eq]
    exact hI.no_reg_of_unblocked hnb (k := x.1) (w := x.2) hx
  rw [setConn_registry, hfil]
  refine hI.congr_life rfl rfl rfl rfl ?_
  intro c'
  by_cases hcc : c' = c
  · subst hcc
    refine ⟨by simp [setConn, hnb], fun h => absurd hnb h⟩
  · simp [setConn, hcc]

/-- A client is unblocked and unregistered everywhere (wake queue empty). -/
theorem InvF_unreg {s t : State} (c : Conn) (hI : InvF s) (hquiet : s.wakeQ = [])
    (hr : t.registry = s.registry.filter fun x => x.2.conn != c) (hw : t.wakeQ = s.wakeQ)
    (hs : t.store = s.store) (hl : t.lost = s.lost)
    (hconn : ∀ c', c' ≠ c → t.conns c' = s.conns c') (hself : (t.conns c).blocked = none) : InvF t := by
  refine ⟨?_, ?_, ?_, ?_, ?_, ?_, ?_, ?_, by rw [hl]; exact hI.lost⟩
  · intro k w h
    rw [hr] at h
    obtain ⟨hm, hne⟩ := List.mem_filter.mp h
    have hne : w.conn ≠ c := by simpa using hne
    rw [hconn _ hne]
    exact hI.regOk k w hm
  · intro w h
    rw [hw, hquiet] at h; cases h
  · refine List.Nodup.sublist ?_ hI.slots
    unfold slotsOf
    rw [hr, hw]
    exact List.Sublist.append (List.filter_sublist.map _) (List.Sublist.refl _)
  · intro c' b hb k hk
    have hcc : c' ≠ c := by intro e; rw [e, hself] at hb; cases hb
    rw [hconn _ hcc] at hb
    rcases mem_slots_iff.mp (hI.cover c' b hb k hk) with ⟨w, hw', hwc⟩ | ⟨w, hw', _, _⟩
    · apply mem_slots_iff.mpr
      left
      exact ⟨w, by rw [hr]; exact List.mem_filter.mpr ⟨hw', by simp [hwc, hcc]⟩, hwc⟩
    · rw [hquiet] at hw'; cases hw'
  · intro c' b hb
    have hcc : c' ≠ c := by intro e; rw [e, hself] at hb; cases hb
    rw [hconn _ hcc] at hb
    exact hI.keysNe c' b hb
  · intro c' hb
    have hcc : c' ≠ c := fun e => hb (e ▸ hself)
    rw [hconn _ hcc] at hb ⊢
    exact hI.alive c' hb
  · rw [hw]; exact hI.wakeConns
  · intro k
    have hc := hI.counts k
    have hR : (s.registry.filter fun x => x.2.conn != c).countP (keyIs k) ≤ cntR s k := countP_filter_le _ _ _
    unfold cntW cntL cntR at *
    rw [hr, hw, hs]
    exact ⟨hc.1, fun h => hc.2 (by omega)⟩

/-- The probe finds a blocked client whose peer has gone: it is dropped and unregistered everywhere at once. -/
theorem InvF_reap_blocked (s : State) (c : Conn) (hI : InvF s) (hquiet : s.wakeQ = []) :
    InvF { (setConn s c fun cs => { cs with gone := true, blocked := none }) with
           registry := (setConn s c fun cs => { cs with gone := true, blocked := none }).registry.filter fun x => x.2.conn != c } :=
  InvF_unreg c hI hquiet rfl rfl rfl rfl (fun c' h => by simp [setConn, h]) (by simp [setConn])

end Ferrous.Blk
