/-
  C04 helper lemmas (1): the orders on scores, byte strings and entries are strict total
  orders; generic facts about sorted insertion into a list.
-/
import FerrousSpec.Model.ZSet
namespace Ferrous.ZSet
open Ferrous

/-! ### Scores (`lt` is f64 `<`, `eqv` is f64 `==`: the two zeros are equal but distinct values) -/

theorem Score.lt_iff {a b : Score} :
    a.lt b = true ↔ (a.cls < b.cls ∨ (a.cls = b.cls ∧ a.mag < b.mag)) := by
  simp [Score.lt]

theorem Score.lt_false_iff {a b : Score} :
    a.lt b = false ↔ ¬ (a.cls < b.cls ∨ (a.cls = b.cls ∧ a.mag < b.mag)) := by
  rw [← Score.lt_iff]; simp

theorem Score.eqv_iff {a b : Score} : a.eqv b = true ↔ (a.cls = b.cls ∧ a.mag = b.mag) := by
  simp [Score.eqv]

theorem Score.lt_irrefl (a : Score) : a.lt a = false := by
  rw [Score.lt_false_iff]; omega

theorem Score.lt_trans {a b c : Score} (h1 : a.lt b = true) (h2 : b.lt c = true) : a.lt c = true := by
  rw [Score.lt_iff] at *; omega

theorem Score.lt_asymm {a b : Score} (h : a.lt b = true) : b.lt a = false := by
  rw [Score.lt_iff] at h; rw [Score.lt_false_iff]; omega

/-- neither below the other = equal as f64 (not necessarily the same value: ±0) -/
theorem Score.eqv_of_not_lt {a b : Score} (h1 : a.lt b = false) (h2 : b.lt a = false) : a.eqv b = true := by
  rw [Score.lt_false_iff] at h1 h2; rw [Score.eqv_iff]; omega

theorem Score.eqv_refl (a : Score) : a.eqv a = true := by rw [Score.eqv_iff]; omega
theorem Score.eqv_symm {a b : Score} (h : a.eqv b = true) : b.eqv a = true := by
  rw [Score.eqv_iff] at *; omega
theorem Score.eqv_trans {a b c : Score} (h1 : a.eqv b = true) (h2 : b.eqv c = true) : a.eqv c = true := by
  rw [Score.eqv_iff] at *; omega
theorem Score.lt_of_lt_of_eqv {a b c : Score} (h1 : a.lt b = true) (h2 : b.eqv c = true) : a.lt c = true := by
  rw [Score.eqv_iff] at h2; rw [Score.lt_iff] at *; omega
theorem Score.lt_of_eqv_of_lt {a b c : Score} (h1 : a.eqv b = true) (h2 : b.lt c = true) : a.lt c = true := by
  rw [Score.eqv_iff] at h1; rw [Score.lt_iff] at *; omega
theorem Score.not_lt_of_eqv {a b : Score} (h : a.eqv b = true) : a.lt b = false := by
  rw [Score.eqv_iff] at h; rw [Score.lt_false_iff]; omega

/-- the value is determined by its f64 equality class and the zero flag -/
theorem Score.eq_of_eqv_of_zz {a b : Score} (h : a.eqv b = true) (hz : a.zz = b.zz) : a = b := by
  rw [Score.eqv_iff] at h
  cases a <;> cases b <;> simp_all [Score.cls, Score.mag, Score.zz]

/-- `a ≤ b < c → a < c` and friends, for the score filters. -/
theorem Score.le_lt_trans {a b c : Score} (h1 : a.le b = true) (h2 : b.lt c = true) : a.lt c = true := by
  simp only [Score.le, Bool.not_eq_true'] at h1
  rw [Score.lt_false_iff] at h1; rw [Score.lt_iff] at *; omega

theorem Score.le_trans {a b c : Score} (h1 : a.le b = true) (h2 : b.le c = true) : a.le c = true := by
  simp only [Score.le, Bool.not_eq_true'] at *
  rw [Score.lt_false_iff] at *; omega

theorem Score.le_of_lt {a b : Score} (h : a.lt b = true) : a.le b = true := by
  simp [Score.le, Score.lt_asymm h]

theorem Score.le_of_eqv {a b : Score} (h : a.eqv b = true) : a.le b = true := by
  simp [Score.le, Score.not_lt_of_eqv (Score.eqv_symm h)]

theorem Score.le_refl (a : Score) : a.le a = true := by simp [Score.le, Score.lt_irrefl]

/-! ### Byte strings -/

theorem bytesLt_irrefl (a : Bytes) : bytesLt a a = false := by
  induction a with
  | nil => rfl
  | cons x xs ih => simp [bytesLt, ih]

theorem bytesLt_trans : ∀ {a b c : Bytes}, bytesLt a b = true → bytesLt b c = true → bytesLt a c = true
  | [], [], _, h, _ => by simp [bytesLt] at h
  | [], _ :: _, [], _, h => by simp [bytesLt] at h
  | [], _ :: _, _ :: _, _, _ => by simp [bytesLt]
  | _ :: _, [], _, h, _ => by simp [bytesLt] at h
  | _ :: _, _ :: _, [], _, h => by simp [bytesLt] at h
  | x :: xs, y :: ys, z :: zs, h1, h2 => by
    simp only [bytesLt, Bool.or_eq_true, Bool.and_eq_true, decide_eq_true_eq] at h1 h2 ⊢
    rcases h1 with h1 | ⟨e1, h1⟩ <;> rcases h2 with h2 | ⟨e2, h2⟩
    · left; omega
    · left; omega
    · left; omega
    · right; exact ⟨by omega, bytesLt_trans h1 h2⟩

theorem bytesLt_total : ∀ {a b : Bytes}, bytesLt a b = false → bytesLt b a = false → a = b
  | [], [], _, _ => rfl
  | [], _ :: _, h, _ => by simp [bytesLt] at h
  | _ :: _, [], _, h => by simp [bytesLt] at h
  | x :: xs, y :: ys, h1, h2 => by
    simp only [bytesLt, Bool.or_eq_false_iff, Bool.and_eq_false_iff, decide_eq_false_iff_not] at h1 h2
    have hxy : x = y := by omega
    subst hxy
    have t1 : bytesLt xs ys = false := by rcases h1.2 with h | h; exact absurd rfl h; exact h
    have t2 : bytesLt ys xs = false := by rcases h2.2 with h | h; exact absurd rfl h; exact h
    rw [bytesLt_total t1 t2]

/-! ### A strict total order given as a Boolean relation -/

structure StrictTotal {α : Type} (lt : α → α → Bool) : Prop where
  irrefl : ∀ a, lt a a = false
  trans : ∀ a b c, lt a b = true → lt b c = true → lt a c = true
  total : ∀ a b, lt a b = false → lt b a = false → a = b

theorem StrictTotal.asymm {α : Type} {lt : α → α → Bool} (st : StrictTotal lt) {a b : α}
    (h : lt a b = true) : lt b a = false := by
  cases hb : lt b a
  · rfl
  · have := st.trans _ _ _ h hb
    simp [st.irrefl] at this

theorem StrictTotal.ne {α : Type} {lt : α → α → Bool} (st : StrictTotal lt) {a b : α}
    (h : lt a b = true) : a ≠ b := by
  intro e; subst e; simp [st.irrefl] at h

/-! NaN joins the order as the greatest class (the `None` arm of `compare_nodes`) -/

theorem CScore.lt_irrefl (a : CScore) : a.lt a = false := by
  cases a <;> simp [CScore.lt, Score.lt_irrefl]

theorem CScore.lt_trans {a b c : CScore} (h1 : a.lt b = true) (h2 : b.lt c = true) : a.lt c = true := by
  cases a <;> cases b <;> cases c <;> simp_all [CScore.lt]
  exact Score.lt_trans h1 h2

theorem CScore.lt_asymm {a b : CScore} (h : a.lt b = true) : b.lt a = false := by
  cases a <;> cases b <;> simp_all [CScore.lt]
  exact Score.lt_asymm h

theorem CScore.eqv_of_not_lt {a b : CScore} (h1 : a.lt b = false) (h2 : b.lt a = false) : a.eqv b = true := by
  cases a <;> cases b <;> simp_all [CScore.lt, CScore.eqv]
  exact Score.eqv_of_not_lt h1 h2

theorem CScore.eqv_refl (a : CScore) : a.eqv a = true := by
  cases a <;> simp [CScore.eqv, Score.eqv_refl]
theorem CScore.eqv_symm {a b : CScore} (h : a.eqv b = true) : b.eqv a = true := by
  cases a <;> cases b <;> simp_all [CScore.eqv]
  exact Score.eqv_symm h
theorem CScore.eqv_trans {a b c : CScore} (h1 : a.eqv b = true) (h2 : b.eqv c = true) : a.eqv c = true := by
  cases a <;> cases b <;> cases c <;> simp_all [CScore.eqv]
  exact Score.eqv_trans h1 h2
theorem CScore.lt_of_lt_of_eqv {a b c : CScore} (h1 : a.lt b = true) (h2 : b.eqv c = true) : a.lt c = true := by
  cases a <;> cases b <;> cases c <;> simp_all [CScore.lt, CScore.eqv]
  exact Score.lt_of_lt_of_eqv h1 h2
theorem CScore.lt_of_eqv_of_lt {a b c : CScore} (h1 : a.eqv b = true) (h2 : b.lt c = true) : a.lt c = true := by
  cases a <;> cases b <;> cases c <;> simp_all [CScore.lt, CScore.eqv]
  exact Score.lt_of_eqv_of_lt h1 h2
theorem CScore.not_lt_of_eqv {a b : CScore} (h : a.eqv b = true) : a.lt b = false := by
  cases a <;> cases b <;> simp_all [CScore.lt, CScore.eqv]
  exact Score.not_lt_of_eqv h
theorem CScore.eq_of_eqv_of_zz {a b : CScore} (h : a.eqv b = true) (hz : a.zz = b.zz) : a = b := by
  cases a <;> cases b <;> simp_all [CScore.eqv, CScore.zz]
  exact Score.eq_of_eqv_of_zz h hz

/-- The proof order on `(f64, key)`: `compare_nodes` refined by the sign of zero of the same member —
    a strict total order even with NaN present. -/
theorem centLt_strictTotal : StrictTotal centLt where
  irrefl a := by simp [centLt, CScore.lt_irrefl, bytesLt_irrefl]
  trans a b c h1 h2 := by
    simp only [centLt, Bool.or_eq_true, Bool.and_eq_true, decide_eq_true_eq] at h1 h2 ⊢
    rcases h1 with h1 | ⟨e1, h1⟩ <;> rcases h2 with h2 | ⟨e2, h2⟩
    · left; exact CScore.lt_trans h1 h2
    · left; exact CScore.lt_of_lt_of_eqv h1 e2
    · left; exact CScore.lt_of_eqv_of_lt e1 h2
    · right
      refine ⟨CScore.eqv_trans e1 e2, ?_⟩
      rcases h1 with h1 | ⟨m1, z1⟩ <;> rcases h2 with h2 | ⟨m2, z2⟩
      · left; exact bytesLt_trans h1 h2
      · left; rw [← m2]; exact h1
      · left; rw [m1]; exact h2
      · right; exact ⟨m1.trans m2, by omega⟩
  total a b h1 h2 := by
    simp only [centLt, Bool.or_eq_false_iff, Bool.and_eq_false_iff, decide_eq_false_iff_not] at h1 h2
    have e : a.1.eqv b.1 = true := CScore.eqv_of_not_lt h1.1 h2.1
    have e' : b.1.eqv a.1 = true := CScore.eqv_symm e
    have t1 := h1.2.resolve_left (by simp [e])
    have t2 := h2.2.resolve_left (by simp [e'])
    have hm : a.2 = b.2 := bytesLt_total t1.1 t2.1
    have z1 := t1.2.resolve_left (by simp [hm])
    have z2 := t2.2.resolve_left (by simp [hm])
    exact Prod.ext (CScore.eq_of_eqv_of_zz e (by omega)) hm

@[simp] theorem centLt_lift (a b : Entry) : centLt (lift a) (lift b) = entLt a b := rfl

theorem lift_injective {a b : Entry} (h : lift a = lift b) : a = b := by
  simp only [lift, Prod.mk.injEq, CScore.num.injEq] at h
  exact Prod.ext h.1 h.2

theorem entLt_strictTotal : StrictTotal entLt where
  irrefl a := by rw [← centLt_lift]; exact centLt_strictTotal.irrefl _
  trans a b c h1 h2 := by
    rw [← centLt_lift] at *; exact centLt_strictTotal.trans _ _ _ h1 h2
  total a b h1 h2 := by
    rw [← centLt_lift] at *; exact lift_injective (centLt_strictTotal.total _ _ h1 h2)

/-- Between two DIFFERENT members the proof order is exactly the code's comparator / the prescribed
    (score, member) order: the zero-sign stage is never reached. -/
theorem centLt_of_ne_member {a b : CEntry} (h : a.2 ≠ b.2) : centLt a b = ccmpLt a b := by
  simp [centLt, ccmpLt, h]

theorem ccmpLt_irrefl (a : CEntry) : ccmpLt a a = false := by
  simp [ccmpLt, CScore.lt_irrefl, bytesLt_irrefl]

theorem entLt_of_ne_member {a b : Entry} (h : a.2 ≠ b.2) :
    entLt a b = (a.1.lt b.1 || (a.1.eqv b.1 && bytesLt a.2 b.2)) := by
  simp [entLt, h]

/-! ### Sorted insertion -/

section Ins
variable {α : Type} {lt : α → α → Bool}

theorem mem_insSorted {x y : α} {l : List α} : y ∈ insSorted lt x l ↔ y = x ∨ y ∈ l := by
  induction l with
  | nil => simp [insSorted]
  | cons z zs ih =>
    unfold insSorted
    split
    · simp only [List.mem_cons, ih]
      constructor
      · rintro (h | h | h) <;> simp [h]
      · rintro (h | h | h) <;> simp [h]
    · simp

theorem length_insSorted (x : α) (l : List α) : (insSorted lt x l).length = l.length + 1 := by
  induction l with
  | nil => rfl
  | cons z zs ih => unfold insSorted; split <;> simp [ih]

theorem sublist_insSorted (x : α) (l : List α) : l.Sublist (insSorted lt x l) := by
  induction l with
  | nil => simp
  | cons z zs ih =>
    unfold insSorted
    split
    · exact ih.cons_cons z
    · exact (List.Sublist.refl _).cons x

/-- Inserting keeps the list strictly sorted when every element is comparable with `x`
    (i.e. `x` itself is absent). -/
theorem pairwise_insSorted (tr : ∀ a b c, lt a b = true → lt b c = true → lt a c = true)
    {x : α} {l : List α} (hl : l.Pairwise (fun a b => lt a b = true))
    (hx : ∀ y ∈ l, lt y x = false → lt x y = true) :
    (insSorted lt x l).Pairwise (fun a b => lt a b = true) := by
  induction l with
  | nil => simp [insSorted]
  | cons z zs ih =>
    rw [List.pairwise_cons] at hl
    unfold insSorted
    split
    · rename_i hz
      rw [List.pairwise_cons]
      refine ⟨?_, ih hl.2 (fun y hy => hx y (List.mem_cons_of_mem _ hy))⟩
      intro y hy
      rcases mem_insSorted.mp hy with rfl | hy
      · exact hz
      · exact hl.1 y hy
    · rename_i hz
      have hxz : lt x z = true := hx z (List.mem_cons_self) (by simpa using hz)
      rw [List.pairwise_cons]
      refine ⟨?_, List.pairwise_cons.mpr hl⟩
      intro y hy
      rcases List.mem_cons.mp hy with rfl | hy
      · exact hxz
      · exact tr _ _ _ hxz (hl.1 y hy)

theorem insSorted_eq_cons {x : α} {l : List α} (h : ∀ y, l.head? = some y → lt y x = false) :
    insSorted lt x l = x :: l := by
  cases l with
  | nil => rfl
  | cons z zs => simp [insSorted, h z rfl]

/-- The upper level stays a sublist of the lower one when the same absent element is
    inserted into both (both strictly sorted). -/
theorem insSorted_cons (x a : α) (l : List α) :
    insSorted lt x (a :: l) = if lt a x = true then a :: insSorted lt x l else x :: a :: l := rfl

theorem sublist_insSorted_both (st : StrictTotal lt) {x : α} {u l : List α}
    (hsub : u.Sublist l) (hl : l.Pairwise (fun a b => lt a b = true)) (hx : x ∉ l) :
    (insSorted lt x u).Sublist (insSorted lt x l) := by
  induction hsub with
  | slnil => simp [insSorted]
  | @cons u l a hs ih =>
    rw [List.pairwise_cons] at hl
    have hxl : x ∉ l := fun h => hx (List.mem_cons_of_mem _ h)
    have hxa : x ≠ a := fun h => hx (h ▸ List.mem_cons_self)
    rw [insSorted_cons x a l]
    split
    · exact (ih hl.2 hxl).cons a
    · rename_i hz
      have hza : lt a x = false := by simpa using hz
      have hxa' : lt x a = true := by
        cases h : lt x a
        · exact absurd (st.total _ _ h hza) hxa
        · rfl
      -- every element of `u` lies above `a`, hence above `x`
      have hu : ∀ y, u.head? = some y → lt y x = false := by
        intro y hy
        have hyu : y ∈ u := List.mem_of_mem_head? hy
        have : lt a y = true := hl.1 y (hs.subset hyu)
        exact st.asymm (st.trans _ _ _ hxa' this)
      rw [insSorted_eq_cons hu]
      exact (hs.cons a).cons_cons x
  | @cons_cons u l a hs ih =>
    rw [List.pairwise_cons] at hl
    have hxl : x ∉ l := fun h => hx (List.mem_cons_of_mem _ h)
    rw [insSorted_cons x a l, insSorted_cons x a u]
    split
    · exact (ih hl.2 hxl).cons_cons a
    · exact (hs.cons_cons a).cons_cons x

/-- Sorted insertion commutes with an order embedding. -/
theorem insSorted_congr {lt' : α → α → Bool} {x : α} {l : List α} (h : ∀ y ∈ l, lt y x = lt' y x) :
    insSorted lt x l = insSorted lt' x l := by
  induction l with
  | nil => rfl
  | cons z zs ih =>
    simp only [insSorted, h z List.mem_cons_self, ih (fun y hy => h y (List.mem_cons_of_mem _ hy))]

theorem insSorted_map {β : Type} {lt' : β → β → Bool} (f : α → β)
    (hf : ∀ a b, lt' (f a) (f b) = lt a b) (x : α) (l : List α) :
    insSorted lt' (f x) (l.map f) = (insSorted lt x l).map f := by
  induction l with
  | nil => rfl
  | cons z zs ih =>
    simp only [List.map_cons, insSorted, hf]
    split <;> simp [ih]

end Ins

end Ferrous.ZSet
