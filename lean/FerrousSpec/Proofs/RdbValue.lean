/-
  RDB codec, part 3: `read_key_value_with_type` inverts `write_key_value` for every value type.
  Shape: loading `key ++ value ++ rest` into a database that does not hold the key appends exactly
  that key with that value and leaves `rest`.
-/
import FerrousSpec.Proofs.RdbEngine
import FerrousSpec.Proofs.Decimal
set_option linter.unusedSimpArgs false
set_option linter.unusedVariables false
namespace Ferrous.Rdb
open Ferrous

/-! ### decimal strings: stream IDs and field counts -/

theorem natDigitsF_length_le (f : Nat) : ∀ (n k : Nat), n ≤ f → n < 10 ^ (k + 1) → (natDigitsF f n).length ≤ k + 1 := by
  induction f with
  | zero => intro n k _ _; simp [natDigitsF]
  | succ f ih =>
    intro n k hf hk
    unfold natDigitsF
    split
    · simp
    · rename_i hge
      cases k with
      | zero => simp at hk; omega
      | succ k =>
        have h10 : n / 10 < 10 ^ (k + 1) := by
          rw [Nat.pow_succ] at hk
          exact Nat.div_lt_of_lt_mul (by rw [Nat.mul_comm]; exact hk)
        have := ih (n / 10) k (by omega) h10
        simp [List.length_append]
        omega

theorem natDigits_length_u64 (n : Nat) (h : n < two64) : (natDigits n).length ≤ 20 := by
  unfold two64 at h
  exact natDigitsF_length_le n n 19 (Nat.le_refl _) (by omega)

theorem parseU64Fast_natDigits (n : Nat) (h : n < two64) : parseU64Fast (natDigits n) = some n := by
  unfold parseU64Fast
  rw [digitsVal_natDigits]
  simp [h]

theorem splitDash_digits (ds rest : Bytes) (h : ds.all isDigit = true) :
    splitDash (ds ++ 45 :: rest) = some (ds, rest) := by
  induction ds with
  | nil => simp [splitDash]
  | cons d ds ih =>
    simp only [List.all_cons, Bool.and_eq_true] at h
    have hd : ¬ d = 45 := by
      have := h.1
      simp [isDigit] at this
      omega
    simp [splitDash, hd, ih h.2]

theorem parseStreamId_idString (e : SEntry) (h1 : e.ms < two64) (h2 : e.seq < two64) :
    parseStreamId (idString e) = some (e.ms, e.seq) := by
  unfold parseStreamId idString
  rw [splitDash_digits _ _ (natDigits_all e.ms)]
  simp [parseU64Fast_natDigits _ h1, parseU64Fast_natDigits _ h2]

theorem idString_length (e : SEntry) (h1 : e.ms < two64) (h2 : e.seq < two64) : (idString e).length < two32 := by
  have a := natDigits_length_u64 e.ms h1
  have b := natDigits_length_u64 e.seq h2
  unfold idString two32
  simp [List.length_append]
  omega

theorem parseStreamId_idText (p : Nat × Nat) (h1 : p.1 < two64) (h2 : p.2 < two64) :
    parseStreamId (idText p) = some p := by
  unfold parseStreamId idText
  rw [splitDash_digits _ _ (natDigits_all p.1)]
  simp [parseU64Fast_natDigits _ h1, parseU64Fast_natDigits _ h2]

theorem idText_length (p : Nat × Nat) (h1 : p.1 < two64) (h2 : p.2 < two64) : (idText p).length < two32 := by
  have a := natDigits_length_u64 p.1 h1
  have b := natDigits_length_u64 p.2 h2
  unfold idText two32
  simp [List.length_append]
  omega

/-- an entry ID is never the last-ID marker string (it starts with a digit) -/
theorem idString_ne_lastIdMarker (e : SEntry) : idString e ≠ lastIdMarker := by
  intro h
  have hall : (idString e).all (fun b => isDigit b || b == 45) = true := by
    unfold idString
    have a := natDigits_all e.ms
    have b := natDigits_all e.seq
    simp only [List.all_append, List.all_cons, Bool.and_eq_true, List.all_eq_true] at a b ⊢
    refine ⟨fun x hx => by simp [a x hx], by simp, fun x hx => by simp [b x hx]⟩
  rw [h] at hall
  revert hall
  decide

theorem parseStreamId_lastIdMarker : parseStreamId lastIdMarker = none := by decide

/-! ### finishing a pair: `expire` on the key just created -/

theorem putEntry_put_key (db : Db) (k : Bytes) (v v' : Value) (dl dl' : Option Nat) :
    putEntry (putEntry db ⟨k, v, dl⟩) ⟨k, v', dl'⟩ = putEntry db ⟨k, v', dl'⟩ :=
  putEntry_putEntry db ⟨k, v, dl⟩ ⟨k, v', dl'⟩ rfl

theorem expireOpt_put (db : Db) (k : Bytes) (v : Value) (dl : Option Nat) (hd : dlOk dl = true) :
    expireOpt true (putEntry db ⟨k, v, none⟩) k dl = .ok (putEntry db ⟨k, v, dl⟩) := by
  cases dl with
  | none => rfl
  | some d =>
    have hf := findKey_putEntry_same db ⟨k, v, none⟩
    simp only at hf
    simp only [expireOpt, expire, hd, Bool.not_true, Bool.false_eq_true, if_false, hf]
    rw [putEntry_put_key]

/-! ### allocation traces of valid values (buffer sizes = string lengths, in file order) -/

def sAllocs (e : SEntry) : List Nat :=
  (idString e).length :: (natDigits e.fields.length).length :: pairLengths e.fields

/-- the four strings of the last-ID pseudo entry -/
def lastIdAllocs (es : List SEntry) : List Nat := [lastIdMarker.length, 1, (idText (lastId es)).length, 0]

def valueAllocs : Value → List Nat
  | .str b => [b.length]
  | .list xs => lengths xs
  | .set xs => lengths xs
  | .hash fs => pairLengths fs
  | .zset zs => zLengths zs
  | .stream es => marker.length :: (lastIdAllocs es ++ es.flatMap sAllocs)

/-! ### per type -/

theorem loadTyped_str (fix : Fix) (db : Db) (k b : Bytes) (dl : Option Nat) (hd : dlOk dl = true)
    (hk : strOk k = true) (hv : valueWF (.str b) = true) (hf : k ∉ keys db) (rest : Bytes) :
    loadTyped fix true db 0 dl (encString k ++ (encValue (.str b) ++ rest)) =
      .ok (k, db ++ [⟨k, .str b, dl⟩]) rest (k.length :: valueAllocs (.str b)) := by
  simp [strOk, valueWF] at hk hv
  unfold loadTyped
  simp only [if_true, encValue]
  rw [readString_encString k hk]
  simp only [Res.bind_ok]
  rw [readString_encString b hv]
  simp [setValue, hd, putEntry_fresh db ⟨k, .str b, dl⟩ hf, valueAllocs]

theorem loadTyped_set (fix : Fix) (db : Db) (k : Bytes) (xs : List Bytes) (dl : Option Nat) (hd : dlOk dl = true)
    (hk : strOk k = true) (hv : valueWF (.set xs) = true) (hf : k ∉ keys db) (rest : Bytes) :
    loadTyped fix true db 2 dl (encString k ++ (encValue (.set xs) ++ rest)) =
      .ok (k, db ++ [⟨k, .set xs, dl⟩]) rest (k.length :: valueAllocs (.set xs)) := by
  simp [strOk, valueWF] at hk hv
  obtain ⟨⟨hlen, hnd⟩, hall⟩ := hv
  have hnone := (findKey_none_iff db k).mpr hf
  unfold loadTyped
  simp only [encValue, List.append_assoc]
  rw [readString_encString k hk]
  simp only [Res.bind_ok, Nat.reduceEqDiff, if_false, if_true, Nat.reduceEqDiff, false_or]
  rw [readLen_encLen _ hlen]
  simp only [Res.bind_ok]
  rw [readStrings_encStrings xs hall]
  simp only [Res.bind_ok, sadd, Bool.not_true, Bool.false_eq_true, if_false, hnone,
    insertAll_nodup [] xs (by simpa using hnd), List.nil_append, lift_ok, expireOpt_put _ _ _ _ hd]
  simp [putEntry_fresh db ⟨k, .set xs, dl⟩ hf, valueAllocs]

theorem loadTyped_hash (fix : Fix) (db : Db) (k : Bytes) (fs : List (Bytes × Bytes)) (dl : Option Nat) (hd : dlOk dl = true)
    (hk : strOk k = true) (hv : valueWF (.hash fs) = true) (hf : k ∉ keys db) (rest : Bytes) :
    loadTyped fix true db 4 dl (encString k ++ (encValue (.hash fs) ++ rest)) =
      .ok (k, db ++ [⟨k, .hash fs, dl⟩]) rest (k.length :: valueAllocs (.hash fs)) := by
  simp [strOk, valueWF, pairOk] at hk hv
  obtain ⟨⟨hlen, hnd⟩, hall⟩ := hv
  have hnone := (findKey_none_iff db k).mpr hf
  unfold loadTyped
  simp only [encValue, List.append_assoc]
  rw [readString_encString k hk]
  simp only [Res.bind_ok, Nat.reduceEqDiff, if_false, if_true, false_or]
  rw [readLen_encLen _ hlen]
  simp only [Res.bind_ok]
  rw [readPairs_encPairs fs (fun p hp => hall p.1 p.2 hp)]
  simp only [Res.bind_ok, hset, Bool.not_true, Bool.false_eq_true, if_false, hnone,
    upsertAll_nodup [] fs (by simpa [mkeys] using hnd), List.nil_append, lift_ok, expireOpt_put _ _ _ _ hd]
  simp [putEntry_fresh db ⟨k, .hash fs, dl⟩ hf, valueAllocs]

/-! ### lists and the escape rule -/

@[simp] theorem typeByte_escValue (esc : Bool) (v : Value) : typeByte (escValue esc v) = typeByte v := by
  cases v <;> rfl

@[simp] theorem listItems_false (xs : List Bytes) : listItems false xs = xs := by
  simp [listItems]

@[simp] theorem escValue_false (v : Value) : escValue false v = v := by
  cases v <;> simp [escValue]

theorem listItems_of_not_needs (esc : Bool) (xs : List Bytes) (h : needsEscape xs = false) : listItems esc xs = xs := by
  simp [listItems, h]

theorem escape_ne_marker : ¬ escape = marker := by decide

/-- the plain-list loop reads back what the writer wrote for `x :: xs` -/
theorem loadPlainList_enc (db : Db) (k x : Bytes) (xs : List Bytes) (dl : Option Nat) (hd : dlOk dl = true)
    (hx : x.length < two32) (hall : ∀ y ∈ xs, y.length < two32) (hf : k ∉ keys db) (rest : Bytes) :
    loadPlainList true db k dl (xs.length + 1) (encString x ++ (encStrings xs ++ rest)) =
      .ok (k, db ++ [⟨k, .list (x :: xs), dl⟩]) rest (x.length :: lengths xs) := by
  have hnone := (findKey_none_iff db k).mpr hf
  have hfind := findKey_putEntry_same db ⟨k, .list [x], none⟩
  simp only at hfind
  have hge : xs.length + 1 ≥ 1 := by omega
  unfold loadPlainList
  simp only [hge, if_true]
  rw [readString_encString x hx]
  simp only [Res.bind_ok, rpush, Bool.not_true, Bool.false_eq_true, if_false, hnone, lift_ok, Nat.add_sub_cancel]
  rw [readStrings_encStrings xs hall rest]
  simp only [Res.bind_ok, rpushMore, hfind, putEntry_put_key, expireOpt_put _ _ _ _ hd, lift_ok]
  simp [putEntry_fresh db ⟨k, .list (x :: xs), dl⟩ hf]

/-- a list written WITHOUT an escape element whose first element is neither the marker nor (for a
    loader that knows the rule) the escape string: the regular-list branch -/
theorem loadTyped_list_plain (fix : Fix) (db : Db) (k x : Bytes) (xs : List Bytes) (dl : Option Nat) (hd : dlOk dl = true)
    (hk : strOk k = true) (hv : valueWF (.list (x :: xs)) = true) (hm : ¬ x = marker)
    (he : ¬ (fix.listEscape = true ∧ x = escape)) (hf : k ∉ keys db) (rest : Bytes) :
    loadTyped fix true db 1 dl (encString k ++ (encValue (.list (x :: xs)) ++ rest)) =
      .ok (k, db ++ [⟨k, .list (x :: xs), dl⟩]) rest (k.length :: valueAllocs (.list (x :: xs))) := by
  simp [strOk, valueWF] at hk hv
  obtain ⟨hlen, hx, hall⟩ := hv
  have hnone := (findKey_none_iff db k).mpr hf
  have hfind := findKey_putEntry_same db ⟨k, .list [x], none⟩
  simp only at hfind
  unfold loadTyped
  simp only [encValue, List.append_assoc, encStrings, List.flatMap_cons]
  rw [readString_encString k hk]
  simp only [Res.bind_ok, Nat.reduceEqDiff, if_false, if_true, false_or]
  rw [readLen_encLen (x :: xs).length (by simpa using hlen)]
  have hge : (x :: xs).length ≥ 1 := by simp
  simp only [Res.bind_ok, hge, if_true]
  rw [readString_encString x hx]
  simp only [Res.bind_ok, hm, he, if_false, rpush, Bool.not_true, Bool.false_eq_true, hnone, lift_ok,
    List.length_cons, Nat.add_sub_cancel]
  have := readStrings_encStrings xs hall rest
  simp only [encStrings] at this
  rw [this]
  simp only [Res.bind_ok, rpushMore, hfind, putEntry_put_key, expireOpt_put _ _ _ _ hd, lift_ok]
  simp [putEntry_fresh db ⟨k, .list (x :: xs), dl⟩ hf, valueAllocs, lengths]

/-- a list written WITH the escape element, read by a loader that knows the rule: the element is
    dropped and `x :: xs` is a plain list whatever `x` is -/
theorem loadTyped_list_escaped (fix : Fix) (hfix : fix.listEscape = true) (db : Db) (k x : Bytes) (xs : List Bytes)
    (dl : Option Nat) (hd : dlOk dl = true) (hk : strOk k = true) (hv : valueWF (.list (escape :: x :: xs)) = true)
    (hf : k ∉ keys db) (rest : Bytes) :
    loadTyped fix true db 1 dl (encString k ++ (encValue (.list (escape :: x :: xs)) ++ rest)) =
      .ok (k, db ++ [⟨k, .list (x :: xs), dl⟩]) rest (k.length :: valueAllocs (.list (escape :: x :: xs))) := by
  simp [strOk, valueWF] at hk hv
  obtain ⟨hlen, _, hx, hall⟩ := hv
  have helen : escape.length < two32 := by decide
  unfold loadTyped
  simp only [encValue, List.append_assoc, encStrings, List.flatMap_cons]
  rw [readString_encString k hk]
  simp only [Res.bind_ok, Nat.reduceEqDiff, if_false, if_true, false_or]
  rw [readLen_encLen (escape :: x :: xs).length (by simpa using hlen)]
  have hge : (escape :: x :: xs).length ≥ 1 := by simp
  simp only [Res.bind_ok, hge, if_true]
  rw [readString_encString escape helen]
  simp only [Res.bind_ok, escape_ne_marker, hfix, and_self, if_false, if_true, List.length_cons, Nat.add_sub_cancel]
  have := loadPlainList_enc db k x xs dl hd hx hall hf rest
  simp only [encStrings] at this
  rw [this]
  simp [valueAllocs, lengths]

/-- EVERY well-formed list, written by a writer and read by a loader that agree on the escape rule
    (`fix.listEscape` on both sides).  Without the rule the marker-headed lists are excluded. -/
theorem loadTyped_list (fix : Fix) (db : Db) (k : Bytes) (xs : List Bytes) (dl : Option Nat) (hd : dlOk dl = true)
    (hk : strOk k = true) (hv : valueWF (escValue fix.listEscape (.list xs)) = true)
    (hm : startsWithMarker (.list xs) = false ∨ fix.listEscape = true)
    (hf : k ∉ keys db) (rest : Bytes) :
    loadTyped fix true db 1 dl (encString k ++ (saveValue fix.listEscape (.list xs) ++ rest)) =
      .ok (k, db ++ [⟨k, .list xs, dl⟩]) rest (k.length :: valueAllocs (escValue fix.listEscape (.list xs))) := by
  cases xs with
  | nil => simp [escValue, listItems, needsEscape, valueWF] at hv
  | cons x xs =>
    unfold saveValue
    cases hE : fix.listEscape with
    | false =>
      rw [hE] at hv
      have hm' : ¬ x = marker := by
        cases hm with
        | inl h => simpa [startsWithMarker] using h
        | inr h => rw [hE] at h; cases h
      simp only [escValue_false] at hv ⊢
      exact loadTyped_list_plain fix db k x xs dl hd hk hv hm' (by simp [hE]) hf rest
    | true =>
      rw [hE] at hv
      cases hN : needsEscape (x :: xs) with
      | true =>
        have hi : listItems true (x :: xs) = escape :: x :: xs := by simp [listItems, hN]
        simp only [escValue, hi] at hv ⊢
        exact loadTyped_list_escaped fix hE db k x xs dl hd hk hv hf rest
      | false =>
        have hi : listItems true (x :: xs) = x :: xs := listItems_of_not_needs true _ hN
        simp only [escValue, hi] at hv ⊢
        simp [needsEscape] at hN
        exact loadTyped_list_plain fix db k x xs dl hd hk hv hN.1 (by simp [hN.2]) hf rest

theorem loadTyped_zset (fix : Fix) (db : Db) (k : Bytes) (zs : List (Bytes × Nat)) (dl : Option Nat) (hd : dlOk dl = true)
    (hk : strOk k = true) (hv : valueWF (.zset zs) = true) (hf : k ∉ keys db) (rest : Bytes) :
    loadTyped fix true db 3 dl (encString k ++ (encValue (.zset zs) ++ rest)) =
      .ok (k, db ++ [⟨k, .zset zs, dl⟩]) rest (k.length :: valueAllocs (.zset zs)) := by
  cases zs with
  | nil => simp [valueWF] at hv
  | cons z zs =>
    obtain ⟨m, sc⟩ := z
    simp [strOk, valueWF] at hk hv
    obtain ⟨⟨hlen, hnd⟩, ⟨hm, hsc⟩, hall⟩ := hv
    have hnone := (findKey_none_iff db k).mpr hf
    have hfind := findKey_putEntry_same db ⟨k, .zset [(m, sc)], none⟩
    simp only at hfind
    have hup : upsertAll [(m, sc)] zs = (m, sc) :: zs :=
      upsertAll_nodup [(m, sc)] zs (by simpa [mkeys] using hnd)
    unfold loadTyped
    simp only [encValue, List.append_assoc, encZItems, List.flatMap_cons, encZItem]
    rw [readString_encString k hk]
    simp only [Res.bind_ok, Nat.reduceEqDiff, if_false, if_true, false_or, true_or]
    rw [readLen_encLen ((m, sc) :: zs).length (by simpa using hlen)]
    have hge : ((m, sc) :: zs).length ≥ 1 := by simp
    simp only [Res.bind_ok, hge, if_true]
    rw [readString_encString m hm]
    simp only [Res.bind_ok]
    rw [readFixed_u64le]
    simp only [Res.bind_ok, leVal_u64le sc hsc, zadd, Bool.not_true, Bool.false_eq_true, if_false, hnone,
      lift_ok, List.length_cons, Nat.add_sub_cancel]
    have := readZPairs_encZItems zs (fun p hp => hall p.1 p.2 hp) rest
    simp only [encZItems] at this
    rw [this]
    simp only [Res.bind_ok, zaddMore, hfind, hup, putEntry_put_key, expireOpt_put _ _ _ _ hd, lift_ok]
    simp [putEntry_fresh db ⟨k, .zset ((m, sc) :: zs), dl⟩ hf, valueAllocs, zLengths]

/-! ### streams: the `entry_idx` loop -/

/-- the database while a stream is being rebuilt: nothing until the first entry is added -/
def streamState (db : Db) (k : Bytes) (acc : List SEntry) : Db :=
  match acc with
  | [] => db
  | _ :: _ => putEntry db ⟨k, .stream acc, none⟩

theorem xaddIgnore_streamState (db : Db) (k : Bytes) (acc : List SEntry) (e : SEntry)
    (hf : k ∉ keys db) (hlt : idLt (lastId acc) (e.ms, e.seq) = true) :
    xaddIgnore true (streamState db k acc) k e = streamState db k (acc ++ [e]) := by
  cases acc with
  | nil =>
    have hnone := (findKey_none_iff db k).mpr hf
    simp only [lastId] at hlt
    simp [xaddIgnore, streamState, hnone, hlt]
  | cons a acc =>
    have hfind := findKey_putEntry_same db ⟨k, .stream (a :: acc), none⟩
    simp only at hfind
    simp only [xaddIgnore, streamState, Bool.not_true, Bool.false_eq_true, if_false, hfind, hlt, if_true,
      List.cons_append]
    rw [putEntry_put_key]

theorem streamItems_ge (e : SEntry) (es : List SEntry) : streamItems (e :: es) = 2 + 2 * e.fields.length + streamItems es := rfl

theorem length_le_streamItems (es : List SEntry) : es.length ≤ streamItems es := by
  induction es with
  | nil => simp [streamItems]
  | cons e es ih => rw [streamItems_ge]; simp; omega

theorem length_le_encSEntries (es : List SEntry) : es.length ≤ (encSEntries es).length := by
  induction es with
  | nil => simp
  | cons e es ih =>
    have := encLen_length_pos (idString e).length
    simp only [encSEntries, List.flatMap_cons, List.length_append, List.length_cons, encSEntry, encString] at ih ⊢
    omega

theorem streamLoop_enc (db : Db) (k : Bytes) (remaining : Nat) (hrem : remaining < two32) (hf : k ∉ keys db)
    (rest : Bytes) (es : List SEntry) :
    ∀ (acc : List SEntry) (idx fuel : Nat),
      idx + streamItems es = remaining → es.length < fuel →
      idsIncreasing (lastId acc) es = true → es.all sentryWF = true →
      streamLoop true k remaining fuel idx (streamState db k acc) (encSEntries es ++ rest) =
        .ok (streamState db k (acc ++ es)) rest (es.flatMap sAllocs) := by
  induction es with
  | nil =>
    intro acc idx fuel hidx hfuel _ _
    cases fuel with
    | zero => simp at hfuel
    | succ f =>
      simp only [streamItems, Nat.add_zero] at hidx
      have : ¬ idx < remaining := by omega
      simp [streamLoop, this, encSEntries]
  | cons e es ih =>
    intro acc idx fuel hidx hfuel hinc hwf
    cases fuel with
    | zero => simp at hfuel
    | succ f =>
      simp only [List.all_cons, Bool.and_eq_true] at hwf
      obtain ⟨he, hes⟩ := hwf
      simp [sentryWF, pairOk, strOk] at he
      obtain ⟨⟨⟨⟨hms, hseq⟩, hne⟩, hnd⟩, hall⟩ := he
      simp only [idsIncreasing, Bool.and_eq_true] at hinc
      obtain ⟨hlt, hinc'⟩ := hinc
      rw [streamItems_ge] at hidx
      have hpos : 0 < e.fields.length := by
        cases hfl : e.fields with
        | nil => exact absurd hfl hne
        | cons a b => simp
      unfold two32 at hrem
      have c1 : idx < remaining := by omega
      have c2 : ¬ (idx + 2) % two64 ≥ remaining := by unfold two64; omega
      have hflen : e.fields.length < two32 := by unfold two32; omega
      have hcnt : (natDigits e.fields.length).length < two32 := by
        have := natDigits_length_u64 e.fields.length (by unfold two64; omega)
        unfold two32; omega
      have hparse : parseU64 (natDigits e.fields.length) = some e.fields.length :=
        parseU64_natDigits _ (by omega)
      have c3 : ¬ idx + 2 + e.fields.length * 2 > remaining := by omega
      have c4 : (idx + 2 + 2 * e.fields.length) % two64 = idx + 2 + 2 * e.fields.length := by
        unfold two64; omega
      have hup : upsertAll [] e.fields = e.fields := upsertAll_nodup [] e.fields (by simpa [mkeys] using hnd)
      unfold streamLoop
      simp only [c1, not_true, if_false, c2, encSEntries, List.flatMap_cons, encSEntry, List.append_assoc]
      rw [readString_encString _ (idString_length e hms hseq)]
      simp only [Res.bind_ok]
      rw [readString_encString _ hcnt]
      simp only [Res.bind_ok, hparse, Option.getD_some, c3, if_false]
      rw [readPairs_encPairs e.fields (fun p hp => hall p.1 p.2 hp)]
      simp only [Res.bind_ok, hup, parseStreamId_idString e hms hseq, c4]
      rw [xaddIgnore_streamState db k acc e hf hlt]
      have hl : lastId (acc ++ [e]) = (e.ms, e.seq) := lastId_append_single acc e
      have := ih (acc ++ [e]) (idx + 2 + 2 * e.fields.length) f (by omega) (by simpa using hfuel)
        (by rw [hl]; exact hinc') hes
      simp only [encSEntries] at this
      rw [this]
      simp [sAllocs, List.append_assoc]

/-- the components of a well-formed stream's greatest present ID fit 64 bits -/
theorem lastId_lt (es : List SEntry) (h : es.all sentryWF = true) : (lastId es).1 < two64 ∧ (lastId es).2 < two64 := by
  induction es with
  | nil => simp [lastId, two64]
  | cons e es ih =>
    simp only [List.all_cons, Bool.and_eq_true] at h
    cases es with
    | nil =>
      have he := h.1
      simp [sentryWF] at he
      simp only [lastId]
      exact ⟨he.1.1.1.1, he.1.1.1.2⟩
    | cons e' es' => simpa [lastId] using ih h.2

/-- the first round of the loop on the last-ID pseudo entry: four strings read, nothing added -/
theorem streamLoop_lastId (db : Db) (k : Bytes) (remaining : Nat) (hrem : remaining < two32) (h4 : 4 ≤ remaining)
    (es0 : List SEntry) (hp : (lastId es0).1 < two64 ∧ (lastId es0).2 < two64) (bs : Bytes) (f : Nat) :
    streamLoop true k remaining (f + 1) 0 db (encLastId es0 ++ bs) =
      (streamLoop true k remaining f 4 db bs).pre (lastIdAllocs es0) := by
  unfold two32 at hrem
  have c1 : 0 < remaining := by omega
  have c2 : ¬ (0 + 2) % two64 ≥ remaining := by unfold two64; omega
  have hml : lastIdMarker.length < two32 := by decide
  have h1l : ([49] : Bytes).length < two32 := by decide
  have h0l : ([] : Bytes).length < two32 := by decide
  have hidl := idText_length (lastId es0) hp.1 hp.2
  have hparse : parseU64 [49] = some 1 := by decide
  have c3 : ¬ 0 + 2 + 1 * 2 > remaining := by omega
  have c4 : (0 + 2 + 2 * 1) % two64 = 4 := by decide
  conv => lhs; unfold streamLoop
  simp only [c1, not_true, if_false, c2, encLastId, List.append_assoc]
  rw [readString_encString _ hml]
  simp only [Res.bind_ok]
  rw [readString_encString _ h1l]
  simp only [Res.bind_ok, hparse, Option.getD_some, c3, if_false]
  simp only [readPairs, List.append_assoc]
  rw [readString_encString _ hidl]
  simp only [Res.bind_ok]
  rw [readString_encString _ h0l]
  simp [parseStreamId_lastIdMarker, c4, lastIdAllocs, Res.map]

/-- … and `saved_last_id` is set by it -/
theorem streamSaved_lastId (remaining : Nat) (hrem : remaining < two32) (h4 : 4 ≤ remaining)
    (es0 : List SEntry) (hp : (lastId es0).1 < two64 ∧ (lastId es0).2 < two64) (bs : Bytes) (f : Nat) (s : Bool) :
    streamSaved remaining (f + 1) 0 s (encLastId es0 ++ bs) = streamSaved remaining f 4 true bs := by
  unfold two32 at hrem
  have c1 : 0 < remaining := by omega
  have c2 : ¬ (0 + 2) % two64 ≥ remaining := by unfold two64; omega
  have hml : lastIdMarker.length < two32 := by decide
  have h1l : ([49] : Bytes).length < two32 := by decide
  have h0l : ([] : Bytes).length < two32 := by decide
  have hidl := idText_length (lastId es0) hp.1 hp.2
  have hparse : parseU64 [49] = some 1 := by decide
  have c3 : ¬ 0 + 2 + 1 * 2 > remaining := by omega
  have c4 : (0 + 2 + 2 * 1) % two64 = 4 := by decide
  conv => lhs; unfold streamSaved
  simp only [c1, not_true, if_false, c2, encLastId, List.append_assoc]
  rw [readString_encString _ hml]
  simp only []
  rw [readString_encString _ h1l]
  simp only [hparse, Option.getD_some, c3, if_false]
  simp only [readPairs, List.append_assoc]
  rw [readString_encString _ hidl]
  simp only [Res.bind_ok]
  rw [readString_encString _ h0l]
  simp [parseStreamId_idText _ hp.1 hp.2, c4, Res.map]

/-- the entries that follow do not change it -/
theorem streamSaved_enc (remaining : Nat) (hrem : remaining < two32) (rest : Bytes) (es : List SEntry) :
    ∀ (idx fuel : Nat), idx + streamItems es = remaining → es.all sentryWF = true →
      streamSaved remaining fuel idx true (encSEntries es ++ rest) = true := by
  induction es with
  | nil =>
    intro idx fuel hidx _
    cases fuel with
    | zero => simp [streamSaved]
    | succ f =>
      simp only [streamItems, Nat.add_zero] at hidx
      have : ¬ idx < remaining := by omega
      simp [streamSaved, this]
  | cons e es ih =>
    intro idx fuel hidx hwf
    cases fuel with
    | zero => simp [streamSaved]
    | succ f =>
      simp only [List.all_cons, Bool.and_eq_true] at hwf
      obtain ⟨he, hes⟩ := hwf
      simp [sentryWF, pairOk, strOk] at he
      obtain ⟨⟨⟨⟨hms, hseq⟩, hne⟩, hnd⟩, hall⟩ := he
      rw [streamItems_ge] at hidx
      have hpos : 0 < e.fields.length := by
        cases hfl : e.fields with
        | nil => exact absurd hfl hne
        | cons a b => simp
      unfold two32 at hrem
      have c1 : idx < remaining := by omega
      have c2 : ¬ (idx + 2) % two64 ≥ remaining := by unfold two64; omega
      have hcnt : (natDigits e.fields.length).length < two32 := by
        have := natDigits_length_u64 e.fields.length (by unfold two64; omega)
        unfold two32; omega
      have hparse : parseU64 (natDigits e.fields.length) = some e.fields.length :=
        parseU64_natDigits _ (by omega)
      have c3 : ¬ idx + 2 + e.fields.length * 2 > remaining := by omega
      have c4 : (idx + 2 + 2 * e.fields.length) % two64 = idx + 2 + 2 * e.fields.length := by
        unfold two64; omega
      conv => lhs; unfold streamSaved
      simp only [c1, not_true, if_false, c2, encSEntries, List.flatMap_cons, encSEntry, List.append_assoc]
      rw [readString_encString _ (idString_length e hms hseq)]
      simp only []
      rw [readString_encString _ hcnt]
      simp only [hparse, Option.getD_some, c3, if_false]
      rw [readPairs_encPairs e.fields (fun p hp => hall p.1 p.2 hp)]
      simp only [idString_ne_lastIdMarker e, if_false, c4]
      have := ih (idx + 2 + 2 * e.fields.length) f (by omega) hes
      simp only [encSEntries] at this
      exact this

theorem loadTyped_stream (fix : Fix) (db : Db) (k : Bytes) (es : List SEntry) (dl : Option Nat) (hd : dlOk dl = true)
    (hk : strOk k = true) (hv : valueWF (.stream es) = true)
    (hs : isEmptyStream (.stream es) = false ∨ fix.keepEmptyStream = true)
    (hf : k ∉ keys db) (rest : Bytes) :
    loadTyped fix true db 1 dl (encString k ++ (encValue (.stream es) ++ rest)) =
      .ok (k, db ++ [⟨k, .stream es, dl⟩]) rest (k.length :: valueAllocs (.stream es)) := by
  simp [strOk, valueWF] at hk hv
  obtain ⟨⟨hlen, hinc⟩, hall⟩ := hv
  have hnone := (findKey_none_iff db k).mpr hf
  have hmlen : marker.length < two32 := by decide
  have hrem : 4 + streamItems es < two32 := by unfold two32 at hlen ⊢; omega
  have hall' : es.all sentryWF = true := by
    simp only [List.all_eq_true]
    exact fun x hx => hall x hx
  have hp := lastId_lt es hall'
  unfold loadTyped
  simp only [encValue, List.append_assoc]
  rw [readString_encString k hk]
  simp only [Res.bind_ok, Nat.reduceEqDiff, if_false, if_true, false_or]
  rw [readLen_encLen _ hlen]
  have hge : 1 + 4 + streamItems es ≥ 1 := by omega
  have hsub : 1 + 4 + streamItems es - 1 = 4 + streamItems es := by omega
  have hne : ¬ (4 + streamItems es = 0) := by omega
  simp only [Res.bind_ok, hge, if_true]
  rw [readString_encString marker hmlen]
  simp only [Res.bind_ok, if_true, hsub, hne, and_false, if_false, lift_ok]
  rw [streamLoop_lastId db k (4 + streamItems es) hrem (by omega) es hp (encSEntries es ++ rest)]
  rw [streamSaved_lastId (4 + streamItems es) hrem (by omega) es hp (encSEntries es ++ rest)]
  rw [streamSaved_enc (4 + streamItems es) hrem rest es 4 _ (by omega) hall']
  have hloop := streamLoop_enc db k (4 + streamItems es) hrem hf rest es [] 4
    ((encLastId es ++ (encSEntries es ++ rest)).length)
    (by omega)
    (by
      have h1 := length_le_encSEntries es
      have h2 : 0 < (encLastId es).length := by simp [encLastId, encString, List.length_append]; omega
      simp only [List.length_append]; omega)
    (by simpa [lastId] using hinc) hall'
  simp only [List.nil_append, streamState] at hloop
  rw [hloop]
  cases es with
  | nil =>
    have hk' : fix.keepEmptyStream = true := by
      cases hs with
      | inl h => simp [isEmptyStream] at h
      | inr h => exact h
    simp only [streamState, hk', true_and, if_true, Res.pre_ok, Res.bind_ok, ensureStream, Bool.not_true, Bool.false_eq_true, if_false,
      hnone, lift_ok, expireOpt_put _ _ _ _ hd]
    simp [putEntry_fresh db ⟨k, .stream [], dl⟩ hf, valueAllocs, lastIdAllocs]
  | cons e es =>
    have hfind := findKey_putEntry_same db ⟨k, .stream (e :: es), none⟩
    simp only at hfind
    by_cases hk' : fix.keepEmptyStream = true
    · simp only [streamState, hk', true_and, if_true, Res.pre_ok, Res.bind_ok, ensureStream, Bool.not_true, Bool.false_eq_true, if_false,
        hfind, lift_ok, expireOpt_put _ _ _ _ hd]
      simp [putEntry_fresh db ⟨k, .stream (e :: es), dl⟩ hf, valueAllocs, lastIdAllocs]
    · simp only [streamState, hk', false_and, if_false, Res.pre_ok, Res.bind_ok, lift_ok, expireOpt_put _ _ _ _ hd]
      simp [expireOpt_put _ _ _ _ hd, putEntry_fresh db ⟨k, .stream (e :: es), dl⟩ hf, valueAllocs, lastIdAllocs]

/-! ### all types at once -/

/-- `read_key_value_with_type ∘ write_key_value`: loading `key ++ value` into a database without
    that key appends exactly `(key, value, deadline)`, consumes exactly the pair and allocates
    exactly the string lengths — for every value that is well-formed as written, that is not a
    marker-headed list (allowed once writer and loader apply the escape rule) and not an empty stream
    (allowed once the loader keeps empty streams). -/
theorem loadTyped_encKV (fix : Fix) (db : Db) (k : Bytes) (v : Value) (dl : Option Nat) (hd : dlOk dl = true)
    (hk : strOk k = true) (hv : valueWF (escValue fix.listEscape v) = true)
    (hm : startsWithMarker v = false ∨ fix.listEscape = true)
    (hs : isEmptyStream v = false ∨ fix.keepEmptyStream = true)
    (hf : k ∉ keys db) (rest : Bytes) :
    loadTyped fix true db (typeByte v) dl (encString k ++ (saveValue fix.listEscape v ++ rest)) =
      .ok (k, db ++ [⟨k, v, dl⟩]) rest (k.length :: valueAllocs (escValue fix.listEscape v)) := by
  cases v with
  | str b => exact loadTyped_str fix db k b dl hd hk hv hf rest
  | list xs => exact loadTyped_list fix db k xs dl hd hk hv hm hf rest
  | set xs => exact loadTyped_set fix db k xs dl hd hk hv hf rest
  | hash fs => exact loadTyped_hash fix db k fs dl hd hk hv hf rest
  | zset zs => exact loadTyped_zset fix db k zs dl hd hk hv hf rest
  | stream es => exact loadTyped_stream fix db k es dl hd hk hv hs hf rest

end Ferrous.Rdb
