/-
  Helper lemmas for the MULTI/EXEC model (C07): connection map, EXEC's loop, one frame.
-/
import FerrousSpec.Model.Tx
import FerrousSpec.Proofs.KsAtomic
set_option linter.unusedSimpArgs false
set_option linter.unusedVariables false
namespace Ferrous.Tx
open Ferrous

/-! ### connection map -/

@[simp] theorem setConn_same (s : Server) (cid : Nat) (c : Conn) : (setConn s cid c).conns cid = c := by
  simp [setConn]

@[simp] theorem setConn_other (s : Server) (cid j : Nat) (c : Conn) (h : j ≠ cid) :
    (setConn s cid c).conns j = s.conns j := by
  simp [setConn, h]

@[simp] theorem setConn_store (s : Server) (cid : Nat) (c : Conn) : (setConn s cid c).store = s.store := rfl
@[simp] theorem setConn_ext (s : Server) (cid : Nat) (c : Conn) : (setConn s cid c).ext = s.ext := rfl

theorem Server.ext_eq (a b : Server) (h1 : a.store = b.store) (h2 : a.conns = b.conns) (h3 : a.ext = b.ext) : a = b := by
  cases a; cases b; simp_all

theorem setConn_self (s : Server) (cid : Nat) : setConn s cid (s.conns cid) = s := by
  apply Server.ext_eq <;> simp [setConn]
  funext j; by_cases h : j = cid <;> simp [h]

/-! ### names -/

theorem kindOf_other_iff (n : String) : kindOf n = .other ↔ n ∉ controlNames := by
  unfold kindOf controlNames
  constructor
  · intro h
    repeat' split at h
    all_goals simp_all
  · intro h
    simp only [List.mem_cons, List.not_mem_nil, or_false, not_or] at h
    simp [h.1, h.2.1, h.2.2.1, h.2.2.2]

theorem kindOf_exec (n : String) : kindOf n = .exec ↔ n = "EXEC" := by
  unfold kindOf
  constructor
  · intro h
    repeat' split at h
    all_goals simp_all
  · intro h; subst h; decide

theorem kindOf_multi (n : String) : kindOf n = .multi ↔ n = "MULTI" := by
  unfold kindOf
  constructor
  · intro h
    repeat' split at h
    all_goals simp_all
  · intro h; subst h; decide

theorem kindOf_discard (n : String) : kindOf n = .discard ↔ n = "DISCARD" := by
  unfold kindOf
  constructor
  · intro h
    repeat' split at h
    all_goals simp_all
  · intro h; subst h; decide

theorem queueable_iff (q : Quirks) (c : Cmd) :
    queueable q c = true ↔ c ≠ [] ∧ kindOf (nameOf c) = .other ∧ nameOf c ∉ q.immediate := by
  unfold queueable
  cases c <;> simp [List.contains_iff_mem, Bool.and_eq_true]

/-! ### EXEC's loop -/

theorem execFold_nil (q : Quirks) (b : Bool) (cid now : Nat) (st : ExecSt) :
    execFold q b cid now st [] = (st, []) := rfl

theorem execFold_cons (q : Quirks) (b : Bool) (cid now : Nat) (st : ExecSt) (c : Cmd) (cs : List Cmd) :
    execFold q b cid now st (c :: cs) =
      ((execFold q b cid now (runOne q b cid st now c).1 cs).1,
       (runOne q b cid st now c).2 :: (execFold q b cid now (runOne q b cid st now c).1 cs).2) := rfl

theorem execFold_append (q : Quirks) (b : Bool) (cid now : Nat) (st : ExecSt) (xs ys : List Cmd) :
    execFold q b cid now st (xs ++ ys) =
      ((execFold q b cid now (execFold q b cid now st xs).1 ys).1,
       (execFold q b cid now st xs).2 ++ (execFold q b cid now (execFold q b cid now st xs).1 ys).2) := by
  induction xs generalizing st with
  | nil => simp [execFold_nil]
  | cons x xs ih => simp [execFold_cons, ih]

/-- the state after EXEC's loop is the left fold of the single-command state transformer -/
theorem execFold_state (q : Quirks) (b : Bool) (cid now : Nat) (st : ExecSt) (cs : List Cmd) :
    (execFold q b cid now st cs).1 = cs.foldl (fun st c => (runOne q b cid st now c).1) st := by
  induction cs generalizing st with
  | nil => rfl
  | cons c cs ih => simp [execFold_cons, ih]

theorem execFold_length (q : Quirks) (b : Bool) (cid now : Nat) (st : ExecSt) (cs : List Cmd) :
    (execFold q b cid now st cs).2.length = cs.length := by
  induction cs generalizing st with
  | nil => rfl
  | cons c cs ih => simp [execFold_cons, ih]

/-- slot `i` holds the reply of command `i` run on the state left by commands `0 … i-1` -/
theorem execFold_slot (q : Quirks) (b : Bool) (cid now : Nat) (st : ExecSt) (cs : List Cmd) (i : Nat) (c : Cmd)
    (h : cs[i]? = some c) :
    (execFold q b cid now st cs).2[i]? =
      some (runOne q b cid ((cs.take i).foldl (fun st c => (runOne q b cid st now c).1) st) now c).2 := by
  induction cs generalizing st i with
  | nil => simp at h
  | cons x xs ih =>
    cases i with
    | zero => simp at h; subst h; simp [execFold_cons]
    | succ i =>
      simp at h
      simp [execFold_cons, ih _ _ h]

/-! ### one command -/

/-- commands that `runOne` does not treat itself go to the key-space machine -/
def plain (c : Cmd) : Bool :=
  nameOf c != "SELECT" && nameOf c != "BLPOP" && nameOf c != "BRPOP" && !externalNames.contains (nameOf c) &&
    !connectionNames.contains (nameOf c) && nameOf c != "UNWATCH"

theorem runOne_plain (q : Quirks) (b : Bool) (cid : Nat) (st : ExecSt) (now : Nat) (c : Cmd) (h : plain c = true) :
    runOne q b cid st now c =
      ({ st with store := (KS.step q.ks st.store st.db now c none).1 }, .frame (KS.step q.ks st.store st.db now c none).2) := by
  unfold plain at h
  simp only [Bool.and_eq_true, bne_iff_ne, ne_eq, Bool.not_eq_true'] at h
  obtain ⟨⟨⟨⟨⟨h1, h2⟩, h3⟩, h4⟩, h5⟩, h6⟩ := h
  have h4' : nameOf c ∉ externalNames := by
    intro hm; have := List.contains_iff_mem.2 hm; simp_all
  have h5' : nameOf c ∉ connectionNames := by
    intro hm; have := List.contains_iff_mem.2 hm; simp_all
  unfold runOne
  simp [h1, h2, h3, h4', h5', h6]

/-- the connection the command runs for and the `inExec` flag matter only to SELECT (when the
    switch is on) and to blocking pops that would block -/
theorem runOne_plain_indep (q : Quirks) (b b' : Bool) (cid cid' : Nat) (st : ExecSt) (now : Nat) (c : Cmd) (h : plain c = true) :
    runOne q b cid st now c = runOne q b' cid' st now c := by
  rw [runOne_plain q b cid st now c h, runOne_plain q b' cid' st now c h]

theorem runOne_db_plain (q : Quirks) (b : Bool) (cid : Nat) (st : ExecSt) (now : Nat) (c : Cmd) (h : plain c = true) :
    (runOne q b cid st now c).1.db = st.db ∧ (runOne q b cid st now c).1.ext = st.ext := by
  rw [runOne_plain q b cid st now c h]; simp

theorem runBlocking_db (q : Quirks) (b : Bool) (cid : Nat) (st : ExecSt) (now : Nat) (l : Bool) (c : Cmd) :
    (runBlocking q b cid st now l c).1.db = st.db := by
  unfold runBlocking
  repeat' split
  all_goals simp

theorem runOne_db (q : Quirks) (b : Bool) (cid : Nat) (st : ExecSt) (now : Nat) (c : Cmd) :
    (runOne q b cid st now c).1.db = dbAfter q b st.db c := by
  unfold runOne dbAfter
  by_cases h1 : nameOf c = "SELECT"
  · simp only [h1, if_true]
    repeat' split
    all_goals simp_all
  · simp only [h1, if_false]
    repeat' split
    all_goals simp [runBlocking_db]

theorem execFold_db (q : Quirks) (b : Bool) (cid now : Nat) (st : ExecSt) (cs : List Cmd) :
    (execFold q b cid now st cs).1.db = cs.foldl (dbAfter q b) st.db := by
  induction cs generalizing st with
  | nil => rfl
  | cons c cs ih => simp [execFold_cons, ih, runOne_db]

/-! ### arity of the control commands -/

theorem badArity_other (q : Quirks) (cmd : Cmd) (h : kindOf (nameOf cmd) = .other) : badArity q cmd = false := by
  unfold badArity; simp [h]

theorem badArity_watch (q : Quirks) (cmd : Cmd) (h : kindOf (nameOf cmd) = .watch) : badArity q cmd = false := by
  unfold badArity; simp [h]

/-- the command has the arity the control commands require (or the switch that ignores it is on) -/
def arityOk (q : Quirks) (cmd : Cmd) : Prop := cmd.length = 1 ∨ q.controlArityUnchecked = true

theorem badArity_ok (q : Quirks) (cmd : Cmd) (h : arityOk q cmd) : badArity q cmd = false := by
  unfold badArity
  rcases h with h | h <;> simp [h]

/-! ### one frame -/

theorem processFrame_queue (q : Quirks) (s : Server) (cid : Nat) (r : Req)
    (hin : (s.conns cid).inTx = true) (hq : queueable q r.cmd = true) :
    processFrame q s cid r =
      (setConn s cid { s.conns cid with queue := (s.conns cid).queue ++ [r.cmd] }, .one (.frame queuedFrame)) := by
  rw [queueable_iff] at hq
  obtain ⟨h1, h2, h3⟩ := hq
  unfold processFrame
  have : r.cmd.isEmpty = false := by cases hc : r.cmd <;> simp_all
  simp [this, h2, hin, h3, badArity_other q r.cmd h2]

theorem processFrame_direct (q : Quirks) (s : Server) (cid : Nat) (r : Req)
    (hne : r.cmd ≠ []) (hk : kindOf (nameOf r.cmd) = .other) (hin : (s.conns cid).inTx = false) :
    processFrame q s cid r =
      (setConn { s with store := (runOne q false cid ⟨s.store, (s.conns cid).db, s.ext⟩ r.now r.cmd).1.store,
                        ext := (runOne q false cid ⟨s.store, (s.conns cid).db, s.ext⟩ r.now r.cmd).1.ext } cid
         { s.conns cid with db := (runOne q false cid ⟨s.store, (s.conns cid).db, s.ext⟩ r.now r.cmd).1.db },
       .one (runOne q false cid ⟨s.store, (s.conns cid).db, s.ext⟩ r.now r.cmd).2) := by
  unfold processFrame
  have : r.cmd.isEmpty = false := by cases hc : r.cmd <;> simp_all
  simp [this, hk, hin, badArity_other q r.cmd hk]

theorem processFrame_exec (q : Quirks) (s : Server) (cid : Nat) (r : Req) (hn : nameOf r.cmd = "EXEC")
    (ha : arityOk q r.cmd) :
    processFrame q s cid r = exec q s cid r := by
  unfold processFrame
  have hne : r.cmd.isEmpty = false := by
    cases hc : r.cmd with
    | nil => rw [hc] at hn; simp [nameOf] at hn
    | cons a b => rfl
  have : kindOf (nameOf r.cmd) = .exec := (kindOf_exec _).2 hn
  simp [hne, this, badArity_ok q r.cmd ha]

/-! ### schedules -/

theorem run_nil (q : Quirks) (s : Server) : run q s [] = s := rfl

theorem run_cons (q : Quirks) (s : Server) (e : Event) (es : List Event) :
    run q s (e :: es) = run q (stepEvent q s e).1 es := rfl

theorem run_append (q : Quirks) (s : Server) (xs ys : List Event) :
    run q s (xs ++ ys) = run q (run q s xs) ys := by
  simp [run, List.foldl_append]

theorem run_take_succ (q : Quirks) (s : Server) (evs : List Event) (p : Nat) (e : Event) (h : evs[p]? = some e) :
    run q s (evs.take (p + 1)) = (stepEvent q (run q s (evs.take p)) e).1 := by
  rw [List.take_add_one, h, run_append]
  rfl

theorem run_split (q : Quirks) (s : Server) (evs : List Event) (p : Nat) :
    run q s evs = run q (run q s (evs.take p)) (evs.drop p) := by
  rw [← run_append, List.take_append_drop]

end Ferrous.Tx
