/-
  Helper lemmas about the two conversions of Model/Lua.lean (property C12):
  laws of the standard table, the fragment on which the code agrees with it, `from_utf8_lossy`.
-/
import FerrousSpec.Model.Lua
set_option linter.unusedSimpArgs false
set_option linter.unusedVariables false
namespace Ferrous.Lua
open Ferrous

/-! ### integers through a double -/

theorem f64Nat_small (a : Nat) (h : a < two53) : f64Nat a = a := by
  simp [f64Nat, h]

theorem f64Int_small (n : Int) (h : n.natAbs < two53) : f64Int n = n := by
  unfold f64Int
  rw [f64Nat_small _ h]
  unfold satI64 i64Min i64Max
  unfold two53 at h
  split <;> split <;> (try split) <;> omega

/-! ### `from_utf8_lossy` leaves ASCII alone -/

theorem lossyF_ascii (f : Nat) (b : Bytes) (hf : b.length < f) (h : ∀ x ∈ b, x < 128) : lossyF f b = b := by
  induction b generalizing f with
  | nil => cases f <;> simp [lossyF] at hf ⊢
  | cons x t ih =>
    cases f with
    | zero => simp at hf
    | succ f =>
      have hx : x < 128 := h x (by simp)
      simp only [lossyF, hx, if_true]
      rw [ih f (by simp at hf; omega) (fun y hy => h y (by simp [hy]))]

theorem lossy_ascii (b : Bytes) (h : ∀ x ∈ b, x < 128) : lossy b = b :=
  lossyF_ascii _ b (by omega) h

theorem validUtf8_ascii (b : Bytes) (h : ∀ x ∈ b, x < 128) : validUtf8 b = true := by
  simp [validUtf8, lossy_ascii b h]

theorem ls_valid (q : Quirks) (b : Bytes) (h : validUtf8 b = true) : q.ls b = b := by
  unfold Quirks.ls
  split
  · simpa [validUtf8] using h
  · rfl

theorem map_ls_valid (q : Quirks) (bs : List Bytes) (h : bs.all validUtf8 = true) : bs.map q.ls = bs := by
  induction bs with
  | nil => rfl
  | cons b t ih =>
    simp only [List.all_cons, Bool.and_eq_true] at h
    simp [ls_valid q b h.1, ih h.2]

theorem map_ls_off (q : Quirks) (bs : List Bytes) (h : q.lossyStrings = false) : bs.map q.ls = bs := by
  have : q.ls = id := by funext b; simp [Quirks.ls, h]
  simp [this]

/-! ### the standard table: round trip -/

mutual
/-- a RESP2 reply without null arrays whose integers survive a double exactly -/
def specClean : Frame → Bool
  | .simple _ => true
  | .error _ => true
  | .int n => decide (n.natAbs < two53)
  | .bulk _ => true
  | .nullBulk => true
  | .array xs => specCleanList xs
  | _ => false
def specCleanList : List Frame → Bool
  | [] => true
  | f :: fs => specClean f && specCleanList fs
end

/-- under the standard table no RESP2 reply becomes Lua `nil` -/
theorem spec_respToLua_not_nil (f : Frame) (h : specClean f = true) : (respToLua Quirks.spec f).isNil = false := by
  cases f <;> simp [specClean] at h <;> simp [respToLua, Quirks.spec, LuaVal.isNil]

mutual
theorem roundtrip_spec (f : Frame) (h : specClean f = true) :
    luaToResp Quirks.spec (respToLua Quirks.spec f) = f := by
  cases f with
  | simple b => simp [respToLua, luaToResp, Quirks.spec]
  | error b => simp [respToLua, luaToResp, Quirks.spec]
  | int n =>
    have hn : n.natAbs < two53 := by simpa [specClean] using h
    simp [respToLua, luaToResp, f64Int_small n hn]
  | bulk b => simp [respToLua, luaToResp, Quirks.spec, Quirks.ls]
  | nullBulk => simp [respToLua, luaToResp, Quirks.spec]
  | array xs =>
    have := roundtrip_spec_list xs (by simpa [specClean] using h)
    simp [respToLua, luaToResp, Quirks.spec] at this ⊢
    exact this
  | nullArray => simp [specClean] at h
  | null => simp [specClean] at h
  | bool b => simp [specClean] at h
  | double l => simp [specClean] at h
  | map l => simp [specClean] at h
  | set l => simp [specClean] at h
theorem roundtrip_spec_list (fs : List Frame) (h : specCleanList fs = true) :
    luaToRespList Quirks.spec (respToLuaList Quirks.spec fs) = fs := by
  cases fs with
  | nil => simp [respToLuaList, luaToRespList]
  | cons f t =>
    simp only [specCleanList, Bool.and_eq_true] at h
    have h1 := roundtrip_spec f h.1
    have h2 := roundtrip_spec_list t h.2
    have hn := spec_respToLua_not_nil f h.1
    simp [respToLuaList, luaToRespList, hn, h1, h2]
end

/-! ### the conversions do not depend on switches that are off -/

/-- the switches that `respToLua` reads -/
def Quirks.r2lFixed (q : Quirks) : Prop :=
  q.nilBulkIsNil = false ∧ q.statusIsString = false ∧ q.lossyStrings = false

/-- the switches that `luaToResp` reads -/
def Quirks.l2rFixed (q : Quirks) : Prop :=
  q.falseIsZero = false ∧ q.fracIsBulk = false ∧ q.emptyTableIsNil = false ∧ q.okErrTablesIgnored = false

mutual
theorem respToLua_fixed (q : Quirks) (h : q.r2lFixed) (f : Frame) : respToLua q f = respToLua Quirks.spec f := by
  obtain ⟨h1, h2, h3⟩ := h
  cases f with
  | array xs =>
    have := respToLuaList_fixed q ⟨h1, h2, h3⟩ xs
    simp [respToLua, this]
  | simple b => simp [respToLua, Quirks.spec, Quirks.ls, h1, h2, h3]
  | error b => simp [respToLua]
  | int n => simp [respToLua]
  | bulk b => simp [respToLua, Quirks.spec, Quirks.ls, h1, h2, h3]
  | nullBulk => simp [respToLua, Quirks.spec, h1]
  | nullArray => simp [respToLua, Quirks.spec, h1]
  | null => simp [respToLua]
  | bool b => simp [respToLua]
  | double l => simp [respToLua]
  | map l => simp [respToLua]
  | set l => simp [respToLua]
theorem respToLuaList_fixed (q : Quirks) (h : q.r2lFixed) (fs : List Frame) :
    respToLuaList q fs = respToLuaList Quirks.spec fs := by
  cases fs with
  | nil => simp [respToLuaList]
  | cons f t => simp [respToLuaList, respToLua_fixed q h f, respToLuaList_fixed q h t]
end

mutual
theorem luaToResp_fixed (q : Quirks) (h : q.l2rFixed) (v : LuaVal) : luaToResp q v = luaToResp Quirks.spec v := by
  obtain ⟨h1, h2, h3, h4⟩ := h
  cases v with
  | table xs =>
    have := luaToRespList_fixed q ⟨h1, h2, h3, h4⟩ xs
    simp [luaToResp, Quirks.spec, this, h3]
  | nil => simp [luaToResp]
  | bool b => cases b <;> simp [luaToResp, Quirks.spec, h1]
  | int n => simp [luaToResp]
  | num n d => simp [luaToResp, Quirks.spec, h2]
  | str b => simp [luaToResp]
  | errTable m => simp [luaToResp, Quirks.spec, h4]
  | statusTable m => simp [luaToResp, Quirks.spec, h4]
theorem luaToRespList_fixed (q : Quirks) (h : q.l2rFixed) (vs : List LuaVal) :
    luaToRespList q vs = luaToRespList Quirks.spec vs := by
  cases vs with
  | nil => simp [luaToRespList]
  | cons v t => simp [luaToRespList, luaToResp_fixed q h v, luaToRespList_fixed q h t]
end

/-! ### the fragment on which EVERY variant (whatever switches are on) agrees with the standard table -/

mutual
/-- replies that reach Lua as the standard table prescribes: integers, valid-UTF-8 bulk strings,
    errors, arrays of such (no nil bulk, no status reply, no invalid UTF-8) -/
def agreeR : Frame → Bool
  | .int _ => true
  | .bulk b => validUtf8 b
  | .error _ => true
  | .array xs => agreeRList xs
  | _ => false
def agreeRList : List Frame → Bool
  | [] => true
  | f :: fs => agreeR f && agreeRList fs
end

mutual
theorem respToLua_agree (q : Quirks) (f : Frame) (h : agreeR f = true) :
    respToLua q f = respToLua Quirks.spec f := by
  cases f with
  | array xs =>
    have := respToLuaList_agree q xs (by simpa [agreeR] using h)
    simp [respToLua, this]
  | int n => simp [respToLua]
  | error b => simp [respToLua]
  | bulk b =>
    have hv : validUtf8 b = true := by simpa [agreeR] using h
    simp [respToLua, ls_valid _ b hv]
  | simple b => simp [agreeR] at h
  | nullBulk => simp [agreeR] at h
  | nullArray => simp [agreeR] at h
  | null => simp [agreeR] at h
  | bool b => simp [agreeR] at h
  | double l => simp [agreeR] at h
  | map l => simp [agreeR] at h
  | set l => simp [agreeR] at h
theorem respToLuaList_agree (q : Quirks) (fs : List Frame) (h : agreeRList fs = true) :
    respToLuaList q fs = respToLuaList Quirks.spec fs := by
  cases fs with
  | nil => simp [respToLuaList]
  | cons f t =>
    simp only [agreeRList, Bool.and_eq_true] at h
    simp [respToLuaList, respToLua_agree q f h.1, respToLuaList_agree q t h.2]
end

mutual
/-- return values the code converts as the standard table prescribes: nil, `true`, integers,
    integral numbers, strings, and tables whose array part up to the first nil is non-empty and
    consists of such values (no `false`, no fractional number, no empty table, no `{ok=}`/`{err=}`) -/
def agreeL : LuaVal → Bool
  | .nil => true
  | .bool b => b
  | .int _ => true
  | .num n d => numIsInt n d
  | .str _ => true
  | .table xs => !(untilNil xs).isEmpty && agreeLList xs
  | _ => false
/-- only the elements before the first nil matter -/
def agreeLList : List LuaVal → Bool
  | [] => true
  | v :: t => v.isNil || (agreeL v && agreeLList t)
end

theorem luaToRespList_isEmpty (q : Quirks) (vs : List LuaVal) : (luaToRespList q vs).isEmpty = (untilNil vs).isEmpty := by
  cases vs with
  | nil => simp [luaToRespList, untilNil]
  | cons v t => by_cases hv : v.isNil = true <;> simp [luaToRespList, untilNil, hv]

mutual
theorem luaToResp_agree (q : Quirks) (v : LuaVal) (h : agreeL v = true) :
    luaToResp q v = luaToResp Quirks.spec v := by
  cases v with
  | table xs =>
    simp only [agreeL, Bool.and_eq_true, Bool.not_eq_true'] at h
    have hl := luaToRespList_agree q xs h.2
    have he : (luaToRespList Quirks.spec xs).isEmpty = false := by rw [luaToRespList_isEmpty]; exact h.1
    simp only [luaToResp, hl, he]
    simp [Quirks.spec]
  | nil => simp [luaToResp]
  | bool b =>
    have : b = true := by simpa [agreeL] using h
    subst this; simp [luaToResp]
  | int n => simp [luaToResp]
  | num n d =>
    have : numIsInt n d = true := by simpa [agreeL] using h
    simp [luaToResp, this]
  | str b => simp [luaToResp]
  | errTable m => simp [agreeL] at h
  | statusTable m => simp [agreeL] at h
theorem luaToRespList_agree (q : Quirks) (vs : List LuaVal) (h : agreeLList vs = true) :
    luaToRespList q vs = luaToRespList Quirks.spec vs := by
  cases vs with
  | nil => simp [luaToRespList]
  | cons v t =>
    by_cases hv : v.isNil = true
    · simp [luaToRespList, hv]
    · simp only [agreeLList, hv, Bool.false_or, Bool.and_eq_true] at h
      simp [luaToRespList, hv, luaToResp_agree q v h.1, luaToRespList_agree q t h.2]
end

/-! ### a call result returned as it is: reply → Lua → reply -/

/-- the reply of a script `return redis.call(cmd)` when the command replied `f` -/
def viaLua (q : Quirks) (f : Frame) : Frame :=
  match respToLua q f with
  | .errTable m => .error m
  | v => luaToResp q v

mutual
/-- replies every variant hands back unchanged from inside an array: integers below 2^53,
    valid-UTF-8 bulk strings, non-empty arrays of such -/
def transparentIn : Frame → Bool
  | .int n => decide (n.natAbs < two53)
  | .bulk b => validUtf8 b
  | .array xs => !xs.isEmpty && transparentList xs
  | _ => false
def transparentList : List Frame → Bool
  | [] => true
  | f :: fs => transparentIn f && transparentList fs
end

/-- … and at top level also any error reply -/
def transparent (f : Frame) : Bool :=
  match f with
  | .error _ => true
  | f => transparentIn f

theorem respToLua_errTable_iff (q : Quirks) (f : Frame) (m : Bytes) :
    respToLua q f = .errTable m ↔ f = .error m := by
  cases f <;> simp [respToLua] <;> (try split) <;> simp

mutual
theorem transparentIn_any (q : Quirks) (f : Frame) (h : transparentIn f = true) :
    luaToResp q (respToLua q f) = f ∧ (respToLua q f).isNil = false := by
  cases f with
  | int n =>
    have hn : n.natAbs < two53 := by simpa [transparentIn] using h
    simp [respToLua, luaToResp, f64Int_small n hn, LuaVal.isNil]
  | bulk b =>
    have hv : validUtf8 b = true := by simpa [transparentIn] using h
    simp [respToLua, luaToResp, ls_valid _ b hv, LuaVal.isNil]
  | array xs =>
    simp only [transparentIn, Bool.and_eq_true, Bool.not_eq_true'] at h
    have hl := transparentList_any q xs h.2
    have he : xs.isEmpty = false := h.1
    refine ⟨?_, by simp [respToLua, LuaVal.isNil]⟩
    simp only [respToLua, luaToResp, hl, he]
    simp
  | simple b => simp [transparentIn] at h
  | error b => simp [transparentIn] at h
  | nullBulk => simp [transparentIn] at h
  | nullArray => simp [transparentIn] at h
  | null => simp [transparentIn] at h
  | bool b => simp [transparentIn] at h
  | double l => simp [transparentIn] at h
  | map l => simp [transparentIn] at h
  | set l => simp [transparentIn] at h
theorem transparentList_any (q : Quirks) (fs : List Frame) (h : transparentList fs = true) :
    luaToRespList q (respToLuaList q fs) = fs := by
  cases fs with
  | nil => simp [respToLuaList, luaToRespList]
  | cons f t =>
    simp only [transparentList, Bool.and_eq_true] at h
    have h1 := transparentIn_any q f h.1
    have h2 := transparentList_any q t h.2
    simp [respToLuaList, luaToRespList, h1.1, h1.2, h2]
end

theorem viaLua_transparent (q : Quirks) (f : Frame) (h : transparent f = true) : viaLua q f = f := by
  cases f with
  | error b => simp [viaLua, respToLua]
  | int n =>
    have := transparentIn_any q (.int n) (by simpa [transparent] using h)
    simp [viaLua, respToLua] at this ⊢; exact this.1
  | bulk b =>
    have := transparentIn_any q (.bulk b) (by simpa [transparent] using h)
    simp [viaLua, respToLua] at this ⊢; exact this.1
  | array xs =>
    have := transparentIn_any q (.array xs) (by simpa [transparent] using h)
    simp [viaLua, respToLua] at this ⊢; exact this.1
  | simple b => simp [transparent, transparentIn] at h
  | nullBulk => simp [transparent, transparentIn] at h
  | nullArray => simp [transparent, transparentIn] at h
  | null => simp [transparent, transparentIn] at h
  | bool b => simp [transparent, transparentIn] at h
  | double l => simp [transparent, transparentIn] at h
  | map l => simp [transparent, transparentIn] at h
  | set l => simp [transparent, transparentIn] at h

theorem viaLua_spec_clean (f : Frame) (h : specClean f = true) : viaLua Quirks.spec f = f := by
  have hr := roundtrip_spec f h
  cases f with
  | error b => simp [viaLua, respToLua]
  | simple b => simpa [viaLua, respToLua, Quirks.spec] using hr
  | int n => simpa [viaLua, respToLua] using hr
  | bulk b => simpa [viaLua, respToLua] using hr
  | nullBulk => simpa [viaLua, respToLua, Quirks.spec] using hr
  | array xs => simpa [viaLua, respToLua] using hr
  | nullArray => simp [specClean] at h
  | null => simp [specClean] at h
  | bool b => simp [specClean] at h
  | double l => simp [specClean] at h
  | map l => simp [specClean] at h
  | set l => simp [specClean] at h

end Ferrous.Lua
