/-
  C15 helper lemmas, part 1: the ID order, sorted entry lists, the binary-search contract and
  the refinement `Code.range / Code.rangeAfter = filter` on every strictly sorted list.
-/
import FerrousSpec.Model.Stream
set_option linter.unusedSimpArgs false
set_option linter.unusedVariables false
namespace Ferrous.Stream
open Code

/-! ## the order on IDs -/

theorem Id.lt_def (a b : Id) : a < b ↔ (a.ms < b.ms ∨ (a.ms = b.ms ∧ a.seq < b.seq)) := Iff.rfl
theorem Id.le_def (a b : Id) : a ≤ b ↔ (a.ms < b.ms ∨ (a.ms = b.ms ∧ a.seq ≤ b.seq)) := Iff.rfl
theorem Id.eq_def (a b : Id) : a = b ↔ (a.ms = b.ms ∧ a.seq = b.seq) := by
  cases a; cases b; simp

/-- unfold the order on IDs everywhere and leave linear arithmetic to `omega` -/
macro "id_omega" : tactic =>
  `(tactic| ((try simp only [Id.lt_def, Id.le_def, Id.eq_def, ne_eq, Id.zero, Id.top, u64Max, u64Mod,
      true_and, and_true] at *); first | done | omega))

theorem Id.lt_irrefl (a : Id) : ¬ a < a := by id_omega
theorem Id.lt_trans {a b c : Id} (h1 : a < b) (h2 : b < c) : a < c := by id_omega
theorem Id.lt_of_lt_of_le {a b c : Id} (h1 : a < b) (h2 : b ≤ c) : a < c := by id_omega
theorem Id.lt_of_le_of_lt {a b c : Id} (h1 : a ≤ b) (h2 : b < c) : a < c := by id_omega
theorem Id.le_trans {a b c : Id} (h1 : a ≤ b) (h2 : b ≤ c) : a ≤ c := by id_omega
theorem Id.le_refl (a : Id) : a ≤ a := Or.inr ⟨rfl, Nat.le_refl _⟩
theorem Id.not_lt {a b : Id} : ¬ a < b ↔ b ≤ a := by
  constructor <;> intro h <;> id_omega
theorem Id.not_le {a b : Id} : ¬ a ≤ b ↔ b < a := by
  constructor <;> intro h <;> id_omega
theorem Id.le_iff_lt_or_eq {a b : Id} : a ≤ b ↔ a < b ∨ a = b := by
  constructor <;> intro h <;> id_omega
theorem Id.lt_iff_le_and_ne {a b : Id} : a < b ↔ a ≤ b ∧ a ≠ b := by
  constructor <;> intro h <;> id_omega
theorem Id.le_of_lt {a b : Id} (h : a < b) : a ≤ b := by id_omega
theorem Id.zero_le (a : Id) : Id.zero ≤ a := by id_omega

/-- the lexicographic order is the order of the packed `u128` the code compares -/
theorem Id.lt_iff_packed_lt (a b : Id) (ha : a.seq < u64Mod) (hb : b.seq < u64Mod) :
    a < b ↔ a.packed < b.packed := by
  simp only [Id.lt_def, Id.packed, u64Mod] at *
  omega

/-! ## sorted lists and the search contract -/

/-- strictly increasing IDs -/
def Sorted (es : List Entry) : Prop := es.Pairwise (fun a b => a.1 < b.1)

theorem sorted_cons {x : Entry} {r : List Entry} :
    Sorted (x :: r) ↔ (∀ y ∈ r, x.1 < y.1) ∧ Sorted r := List.pairwise_cons

theorem Sorted.tail {x : Entry} {r : List Entry} (h : Sorted (x :: r)) : Sorted r := (sorted_cons.1 h).2

theorem Sorted.sublist {l l' : List Entry} (h : Sorted l) (hs : l'.Sublist l) : Sorted l' :=
  List.Pairwise.sublist hs h

theorem lowerBound_le_length (es : List Entry) (t : Id) : lowerBound es t ≤ es.length := by
  induction es with
  | nil => simp [lowerBound]
  | cons x r ih => unfold lowerBound; split <;> simp <;> omega

theorem upperBound_le_length (es : List Entry) (t : Id) : upperBound es t ≤ es.length := by
  induction es with
  | nil => simp [upperBound]
  | cons x r ih => unfold upperBound; split <;> simp <;> omega

theorem lowerBound_eq_zero {r : List Entry} {s : Id} (h : ∀ y ∈ r, s ≤ y.1) : lowerBound r s = 0 := by
  cases r with
  | nil => rfl
  | cons y r' =>
    have := h y (by simp)
    unfold lowerBound
    rw [if_neg (Id.not_lt.2 this)]

theorem upperBound_eq_zero {r : List Entry} {e : Id} (h : ∀ y ∈ r, e < y.1) : upperBound r e = 0 := by
  cases r with
  | nil => rfl
  | cons y r' =>
    have := h y (by simp)
    unfold upperBound
    rw [if_neg (Id.not_le.2 this)]

theorem bsearch_snd (es : List Entry) (t : Id) : (bsearch es t).2 = lowerBound es t := by
  unfold bsearch
  simp only
  split <;> rfl

theorem bsearch_fst (es : List Entry) (t : Id) :
    (bsearch es t).1 = true ↔ ∃ x, es[lowerBound es t]? = some x ∧ x.1 = t := by
  unfold bsearch
  simp only
  split
  · rename_i x hx; simp [hx]
  · rename_i hx; simp [hx]

/-- On a sorted list `Ok(i)` adds one to the insertion point: `#{id ≤ t} = #{id < t} + [t present]`. -/
theorem upperBound_eq {es : List Entry} (h : Sorted es) (t : Id) :
    upperBound es t = lowerBound es t + (if (bsearch es t).1 then 1 else 0) := by
  induction es with
  | nil => simp [upperBound, lowerBound, bsearch]
  | cons x r ih =>
    have hx := (sorted_cons.1 h).1
    have ih := ih h.tail
    by_cases h1 : x.1 < t
    · have h2 : x.1 ≤ t := Id.le_of_lt h1
      have hb : (bsearch (x :: r) t).1 = (bsearch r t).1 := by
        rw [Bool.eq_iff_iff, bsearch_fst, bsearch_fst]
        simp [lowerBound, h1]
      simp only [upperBound, lowerBound, if_pos h1, if_pos h2, hb, ih]
      omega
    · by_cases h2 : x.1 = t
      · have h3 : x.1 ≤ t := by rw [h2]; exact Id.le_refl t
        have hb : (bsearch (x :: r) t).1 = true := by
          rw [bsearch_fst]; exact ⟨x, by simp [lowerBound, h1], h2⟩
        have hz : upperBound r t = 0 := upperBound_eq_zero (fun y hy => by rw [← h2]; exact hx y hy)
        simp [upperBound, lowerBound, h1, h3, hb, hz]
      · have h3 : ¬ x.1 ≤ t := by intro h3; id_omega
        have hb : (bsearch (x :: r) t).1 = false := by
          rw [Bool.eq_false_iff, ne_eq, bsearch_fst]
          simp [lowerBound, h1, h2]
        simp [upperBound, lowerBound, h1, h3, hb]

theorem lowerBound_le_upperBound {es : List Entry} (h : Sorted es) (t : Id) :
    lowerBound es t ≤ upperBound es t := by
  rw [upperBound_eq h]; omega

/-- contract of the search, index form: the entries before the insertion point are below the target … -/
theorem lt_of_lt_lowerBound {es : List Entry} {t : Id} {i : Nat} {x : Entry}
    (hi : i < lowerBound es t) (hx : es[i]? = some x) : x.1 < t := by
  induction es generalizing i with
  | nil => simp [lowerBound] at hi
  | cons y r ih =>
    unfold lowerBound at hi
    split at hi
    · rename_i hy
      cases i with
      | zero => simp at hx; rw [← hx]; exact hy
      | succ i => simp at hx; exact ih (by omega) hx
    · omega

/-- … and from the insertion point on they are not (sorted lists). -/
theorem le_of_lowerBound_le {es : List Entry} (h : Sorted es) {t : Id} {i : Nat} {x : Entry}
    (hi : lowerBound es t ≤ i) (hx : es[i]? = some x) : t ≤ x.1 := by
  induction es generalizing i with
  | nil => simp at hx
  | cons y r ih =>
    have hy := (sorted_cons.1 h).1
    unfold lowerBound at hi
    split at hi
    · rename_i hyt
      cases i with
      | zero => omega
      | succ i => simp at hx; exact ih h.tail (by omega) hx
    · rename_i hyt
      have hty : t ≤ y.1 := Id.not_lt.1 hyt
      cases i with
      | zero => simp at hx; rw [← hx]; exact hty
      | succ i =>
        simp at hx
        have := hy x (List.mem_of_getElem? hx)
        id_omega

/-- `Ok(i)` exactly when the ID is present -/
theorem bsearch_found_iff {es : List Entry} (h : Sorted es) (t : Id) :
    (bsearch es t).1 = true ↔ ∃ x ∈ es, x.1 = t := by
  rw [bsearch_fst]
  constructor
  · rintro ⟨x, hx, rfl⟩; exact ⟨x, List.mem_of_getElem? hx, rfl⟩
  · rintro ⟨x, hx, rfl⟩
    obtain ⟨i, hi, hxi⟩ := List.getElem_of_mem hx
    have hxi' : es[i]? = some x := by rw [List.getElem?_eq_getElem hi, hxi]
    -- i cannot be before the insertion point (x.1 < x.1) nor after it
    have h1 : ¬ i < lowerBound es x.1 := fun hlt => Id.lt_irrefl _ (lt_of_lt_lowerBound hlt hxi')
    have h2 : lowerBound es x.1 ≤ i := by omega
    rcases Nat.lt_or_ge (lowerBound es x.1) i with h3 | h3
    · -- the entry at the insertion point is ≥ x.1 and sits strictly before x in a sorted list
      have hlb : lowerBound es x.1 < es.length := by omega
      have hy : es[lowerBound es x.1]? = some es[lowerBound es x.1] := List.getElem?_eq_getElem hlb
      have h4 := le_of_lowerBound_le h (Nat.le_refl _) hy
      have h5 : es[lowerBound es x.1].1 < es[i].1 := (List.pairwise_iff_getElem.1 h) _ _ hlb hi h3
      rw [hxi] at h5
      id_omega
    · have : lowerBound es x.1 = i := by omega
      exact ⟨x, by rw [this]; exact hxi', rfl⟩

/-! ## slices of a sorted list are filters -/

theorem filter_eq_nil_of {r : List Entry} {p : Entry → Bool} (h : ∀ y ∈ r, p y = false) : r.filter p = [] := by
  rw [List.filter_eq_nil_iff]; intro y hy; simp [h y hy]

theorem take_upperBound {es : List Entry} (h : Sorted es) (e : Id) :
    es.take (upperBound es e) = es.filter (fun x => decide (x.1 ≤ e)) := by
  induction es with
  | nil => simp [upperBound]
  | cons x r ih =>
    have hx := (sorted_cons.1 h).1
    unfold upperBound
    by_cases h1 : x.1 ≤ e
    · simp [h1, ih h.tail]
    · have : r.filter (fun x => decide (x.1 ≤ e)) = [] :=
        filter_eq_nil_of (fun y hy => by have := hx y hy; simp; id_omega)
      simp [h1, this]

theorem drop_lowerBound {es : List Entry} (h : Sorted es) (s : Id) :
    es.drop (lowerBound es s) = es.filter (fun x => decide (s ≤ x.1)) := by
  induction es with
  | nil => simp [lowerBound]
  | cons x r ih =>
    have hx := (sorted_cons.1 h).1
    unfold lowerBound
    by_cases h1 : x.1 < s
    · have h2 : ¬ s ≤ x.1 := Id.not_le.2 h1
      simp [h1, h2, ih h.tail]
    · have h2 : s ≤ x.1 := Id.not_lt.1 h1
      have : r.filter (fun x => decide (s ≤ x.1)) = r := by
        rw [List.filter_eq_self]; intro y hy; have := hx y hy; simp; id_omega
      simp [h1, h2, this]

theorem drop_upperBound {es : List Entry} (h : Sorted es) (t : Id) :
    es.drop (upperBound es t) = es.filter (fun x => decide (t < x.1)) := by
  induction es with
  | nil => simp [upperBound]
  | cons x r ih =>
    have hx := (sorted_cons.1 h).1
    unfold upperBound
    by_cases h1 : x.1 ≤ t
    · have h2 : ¬ t < x.1 := Id.not_lt.2 h1
      simp [h1, h2, ih h.tail]
    · have h2 : t < x.1 := Id.not_le.1 h1
      have : r.filter (fun x => decide (t < x.1)) = r := by
        rw [List.filter_eq_self]; intro y hy; have := hx y hy; simp; id_omega
      simp [h1, h2, this]

/-- the slice `[#{id < s}, #{id ≤ e})` of a sorted list is the filter `s ≤ id ≤ e` -/
theorem slice_eq_filter {es : List Entry} (h : Sorted es) (s e : Id) :
    (es.drop (lowerBound es s)).take (upperBound es e - lowerBound es s) =
      es.filter (fun x => decide (s ≤ x.1) && decide (x.1 ≤ e)) := by
  induction es with
  | nil => simp
  | cons x r ih =>
    have hx := (sorted_cons.1 h).1
    have ih := ih h.tail
    by_cases h1 : x.1 < s
    · have h2 : ¬ s ≤ x.1 := Id.not_le.2 h1
      by_cases h3 : x.1 ≤ e
      · simp only [lowerBound, upperBound, if_pos h1, if_pos h3, List.drop_succ_cons, List.filter_cons, h2,
          decide_false, Bool.false_and, Bool.false_eq_true, if_false]
        rw [← ih]; congr 1; omega
      · have : r.filter (fun x => decide (s ≤ x.1) && decide (x.1 ≤ e)) = [] :=
          filter_eq_nil_of (fun y hy => by have := hx y hy; simp; intro _; id_omega)
        simp [lowerBound, upperBound, h1, h3, h2, this]
    · have h2 : s ≤ x.1 := Id.not_lt.1 h1
      have hlr : lowerBound r s = 0 := lowerBound_eq_zero (fun y hy => by have := hx y hy; id_omega)
      by_cases h3 : x.1 ≤ e
      · rw [hlr] at ih
        simp only [Nat.sub_zero, List.drop_zero] at ih
        simp [lowerBound, upperBound, h1, h3, h2, ih]
      · have : r.filter (fun x => decide (s ≤ x.1) && decide (x.1 ≤ e)) = [] :=
          filter_eq_nil_of (fun y hy => by have := hx y hy; simp; intro _; id_omega)
        simp [lowerBound, upperBound, h1, h3, h2, this]

/-! ## the loop -/

def takeOptN (c : Option Nat) (k : Nat) (l : List Entry) : List Entry :=
  match c with
  | some n => l.take (n - k)
  | none => l

theorem rangeLoop_eq (es : List Entry) (count : Option Nat) (idxs : List Nat) (acc : List Entry) :
    rangeLoop es count idxs acc = acc ++ takeOptN count acc.length (idxs.filterMap (es[·]?)) := by
  induction idxs generalizing acc with
  | nil => cases count <;> simp [rangeLoop, takeOptN]
  | cons i is ih =>
    unfold rangeLoop
    cases count with
    | none =>
      simp only [Bool.false_eq_true, if_false]
      cases hx : es[i]? with
      | none => simp [ih, takeOptN, hx]
      | some x => simp [ih, takeOptN, hx]
    | some c =>
      simp only [decide_eq_true_eq]
      by_cases hc : acc.length ≥ c
      · have : c - acc.length = 0 := by omega
        simp [hc, takeOptN, this]
      · rw [if_neg hc]
        cases hx : es[i]? with
        | none => simp [ih, takeOptN, hx]
        | some x =>
          have : c - acc.length = (c - (acc.length + 1)) + 1 := by omega
          simp [ih, takeOptN, hx, this]

theorem filterMap_range' (es : List Entry) (lo n : Nat) :
    (List.range' lo n).filterMap (es[·]?) = (es.drop lo).take n := by
  induction n generalizing lo with
  | zero => simp
  | succ n ih =>
    rw [List.range'_succ, List.filterMap_cons]
    cases hx : es[lo]? with
    | none =>
      have hl : es.length ≤ lo := by
        rcases Nat.lt_or_ge lo es.length with h | h
        · rw [List.getElem?_eq_getElem h] at hx; cases hx
        · exact h
      simp [ih, List.drop_eq_nil_of_le hl, List.drop_eq_nil_of_le (Nat.le_succ_of_le hl)]
    | some x =>
      have hl : lo < es.length := by
        rcases Nat.lt_or_ge lo es.length with h | h
        · exact h
        · rw [List.getElem?_eq_none h] at hx; cases hx
      have hd : es.drop lo = x :: es.drop (lo + 1) := by
        rw [List.drop_eq_getElem_cons hl]
        rw [List.getElem?_eq_getElem hl] at hx
        cases hx; rfl
      simp [ih, hd]

theorem rangeLoop_range' (es : List Entry) (count : Option Nat) (lo n : Nat) :
    rangeLoop es count (List.range' lo n) [] = Spec.takeOpt count ((es.drop lo).take n) := by
  rw [rangeLoop_eq, filterMap_range']
  cases count <;> simp [takeOptN, Spec.takeOpt]

theorem rangeLoop_range'_rev (es : List Entry) (count : Option Nat) (lo n : Nat) :
    rangeLoop es count (List.range' lo n).reverse [] = Spec.takeOpt count ((es.drop lo).take n).reverse := by
  rw [rangeLoop_eq, List.filterMap_reverse, filterMap_range']
  cases count <;> simp [takeOptN, Spec.takeOpt]

/-! ## `Code.range` -/

/-- The one situation in which the pinned `range` deviates: the end bound lies below the first entry
    and the start bound does not lie above it (`Err(0)` of the end search becomes index 0). -/
def rangeDev (es : List Entry) (s e : Id) : Prop :=
  match es with
  | [] => False
  | x :: _ => e < x.1 ∧ s ≤ x.1

instance (es : List Entry) (s e : Id) : Decidable (rangeDev es s e) := by
  unfold rangeDev; split <;> infer_instance

/-- what `range` selects before COUNT / reversal, as a slice -/
theorem range_slice (q : Quirks) {es : List Entry} (h : Sorted es) (s e : Id) (count : Option Nat) (rev : Bool)
    (hq : q.rangeEndFix = true ∨ ¬ rangeDev es s e) :
    Code.range q es s e count rev =
      Spec.takeOpt count
        (if rev then (es.filter (fun x => decide (s ≤ x.1) && decide (x.1 ≤ e))).reverse
         else es.filter (fun x => decide (s ≤ x.1) && decide (x.1 ≤ e))) := by
  have hub := upperBound_eq h e
  have hslice := slice_eq_filter h s e
  have hlo := lowerBound_le_length es s
  have hle := lowerBound_le_length es e
  unfold Code.range rangeIdx
  simp only [bsearch_snd]
  rcases hb : bsearch es e with ⟨found, i⟩
  have hi : i = lowerBound es e := by rw [← bsearch_snd, hb]
  rw [hb] at hub
  simp only at hub
  cases found with
  | true =>
    -- Ok(i): i < len, hi = i
    have hlt : i < es.length := by
      have := (bsearch_fst es e).1 (by rw [hb])
      obtain ⟨x, hx, _⟩ := this
      rw [← hi] at hx
      rcases Nat.lt_or_ge i es.length with h' | h'
      · exact h'
      · rw [List.getElem?_eq_none h'] at hx; cases hx
    have hmin : min i (es.length - 1) = i := by omega
    simp only [hmin, if_true] at hub ⊢
    have hn : i + 1 - lowerBound es s = upperBound es e - lowerBound es s := by omega
    cases rev with
    | true => simp only [if_true]; rw [rangeLoop_range'_rev, hn, hslice]
    | false => simp only [Bool.false_eq_true, if_false]; rw [rangeLoop_range', hn, hslice]
  | false =>
    simp only [Bool.false_eq_true, if_false, Nat.add_zero] at hub ⊢
    by_cases hpos : i > 0
    · have hmin : min (i - 1) (es.length - 1) = i - 1 := by omega
      simp only [hpos, if_true, hmin]
      have hn : i - 1 + 1 - lowerBound es s = upperBound es e - lowerBound es s := by omega
      cases rev with
      | true => simp only [if_true]; rw [rangeLoop_range'_rev, hn, hslice]
      | false => simp only [Bool.false_eq_true, if_false]; rw [rangeLoop_range', hn, hslice]
    · -- Err(0): nothing is ≤ e
      have hi0 : i = 0 := by omega
      have hub0 : upperBound es e = 0 := by omega
      have hfil : es.filter (fun x => decide (s ≤ x.1) && decide (x.1 ≤ e)) = [] := by
        rw [← hslice, hub0]; simp
      simp only [hpos, if_false, hfil]
      by_cases hfix : q.rangeEndFix = true
      · simp [hfix, Spec.takeOpt]; cases count <;> simp
      · have hnd : ¬ rangeDev es s e := by rcases hq with hq | hq; exact absurd hq hfix; exact hq
        simp only [hfix, Bool.false_eq_true, if_false]
        -- the slice [lo, 0] is empty unless lo = 0 and the list is not empty: that is the deviation
        have hempty : (es.drop (lowerBound es s)).take (min 0 (es.length - 1) + 1 - lowerBound es s) = [] := by
          cases es with
          | nil => simp
          | cons x r =>
            by_cases hl0 : lowerBound (x :: r) s = 0
            · exfalso
              apply hnd
              have h1 : ¬ x.1 < s := by
                intro hlt; simp [lowerBound, hlt] at hl0
              have h2 : ¬ x.1 < e := by
                intro hlt; rw [hi0] at hi; simp [lowerBound, hlt] at hi
              have h3 : x.1 ≠ e := by
                intro heq
                have : (bsearch (x :: r) e).1 = true := by
                  rw [bsearch_fst]; exact ⟨x, by rw [← hi, hi0]; rfl, heq⟩
                rw [hb] at this; cases this
              show e < x.1 ∧ s ≤ x.1
              constructor <;> id_omega
            · have : min 0 ((x :: r).length - 1) + 1 - lowerBound (x :: r) s = 0 := by omega
              rw [this]; simp
        cases rev with
        | true => simp only [if_true]; rw [rangeLoop_range'_rev, hempty]
        | false => simp only [Bool.false_eq_true, if_false]; rw [rangeLoop_range', hempty]

/-- in the deviation the pinned code returns the first entry (unless COUNT 0), whatever the direction -/
theorem range_dev_first {x : Entry} {r : List Entry} (h : Sorted (x :: r)) (s e : Id) (count : Option Nat) (rev : Bool)
    (hd : rangeDev (x :: r) s e) :
    Code.range pinned (x :: r) s e count rev = Spec.takeOpt count [x] := by
  obtain ⟨h1, h2⟩ := hd
  have hls : lowerBound (x :: r) s = 0 := by simp [lowerBound, Id.not_lt.2 h2]
  have hle : lowerBound (x :: r) e = 0 := by simp [lowerBound, Id.not_lt.2 (Id.le_of_lt h1)]
  have hne : x.1 ≠ e := by intro heq; rw [heq] at h1; exact Id.lt_irrefl _ h1
  have hb : bsearch (x :: r) e = (false, 0) := by
    unfold bsearch; simp [hle, hne]
  unfold Code.range rangeIdx
  simp only [bsearch_snd, hls, hb, pinned]
  cases rev <;> cases count <;> simp [rangeLoop, Spec.takeOpt]
  all_goals (rename_i c; cases c <;> simp)

/-! ## `Code.rangeAfter` -/

theorem rangeAfter_eq {es : List Entry} (h : Sorted es) (a : Id) (count : Option Nat) :
    Code.rangeAfter es a count = Spec.readAfter es a count := by
  have hub := upperBound_eq h a
  have hle := upperBound_le_length es a
  unfold Code.rangeAfter Spec.readAfter
  rcases hb : bsearch es a with ⟨found, i⟩
  have hi : i = lowerBound es a := by rw [← bsearch_snd, hb]
  rw [hb] at hub
  have key : ∀ l : List Entry, l.length ≤ es.length →
      Spec.takeOpt (some (count.getD es.length)) l = Spec.takeOpt count l := by
    intro l hl
    cases count with
    | none => simp only [Option.getD_none, Spec.takeOpt]; exact List.take_of_length_le hl
    | some c => simp [Spec.takeOpt]
  simp only []
  rw [rangeLoop_range', List.take_of_length_le (by simp)]
  cases found
  · have hstart : i = upperBound es a := by simp at hub; omega
    simp only [hstart]
    rw [drop_upperBound h]
    exact key _ (List.length_filter_le _ _)
  · have hstart : i + 1 = upperBound es a := by simp at hub; omega
    simp only [hstart]
    rw [drop_upperBound h]
    exact key _ (List.length_filter_le _ _)

end Ferrous.Stream
