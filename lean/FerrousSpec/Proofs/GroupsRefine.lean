/-
  C16 helper lemmas, part 4: on agreeing states the code's XACK / XCLAIM / XPENDING are the prescribed ones
  (refinement of `Spec` through the abstraction `abs`).
-/
import FerrousSpec.Proofs.GroupsOnce
namespace Ferrous.Grp
open Code

/-! ### XACK -/

theorem filter_id_eq_length {l : List PEntry} (hs : Sorted l) (id : Id) :
    (l.filter (fun e => e.id == id)).length = if (∃ e ∈ l, e.id = id) then 1 else 0 := by
  have h := length_filter_add_not (fun e : PEntry => e.id == id) l
  split
  · rename_i hex
    obtain ⟨e, he, hid⟩ := hex
    subst hid
    have := length_pelRemove hs he
    simp only [pelRemove, bne] at this
    omega
  · rename_i hex
    have : l.filter (fun e => e.id == id) = [] := by
      rw [List.filter_eq_nil_iff]
      intro e he hid
      exact hex ⟨e, he, by simpa using hid⟩
    rw [this]; rfl

theorem ackLoop_byId (g : Group) (ids : List Id) (n : Nat) (hs : Sorted g.byId) :
    (ackLoop g ids n).1.byId = g.byId.filter (fun e => !ids.contains e.id) ∧
    (ackLoop g ids n).2 = n + (g.byId.filter (fun e => ids.contains e.id)).length := by
  induction ids generalizing g n with
  | nil =>
    constructor
    · exact (List.filter_eq_self.mpr (by intros; simp)).symm
    · simp [ackLoop]
  | cons id ids ih =>
    simp only [ackLoop]
    obtain ⟨hb, hr⟩ := ackOne_byId g id
    have hs' : Sorted (ackOne g id).1.byId := by rw [hb]; exact sorted_pelRemove hs
    obtain ⟨h1, h2⟩ := ih (ackOne g id).1 (if (ackOne g id).2 then n + 1 else n) hs'
    rw [h1, h2, hb]
    constructor
    · simp only [pelRemove, List.filter_filter]
      apply List.filter_congr
      intro e _
      simp only [List.contains_cons, bne]
      cases (e.id == id) <;> cases (ids.contains e.id) <;> rfl
    · -- split the filter on the full list by "is it `id`?"
      have hsplit := length_filter_add_not (fun e : PEntry => e.id == id)
        (g.byId.filter (fun e => (id :: ids).contains e.id))
      simp only [List.filter_filter] at hsplit
      have e1 : g.byId.filter (fun e => (e.id == id) && (id :: ids).contains e.id) =
          g.byId.filter (fun e => e.id == id) := by
        apply List.filter_congr
        intro e _
        cases h : (e.id == id)
        · simp
        · have : e.id = id := by simpa using h
          simp [this]
      have e2 : g.byId.filter (fun e => (!(e.id == id)) && (id :: ids).contains e.id) =
          (pelRemove id g.byId).filter (fun e => ids.contains e.id) := by
        simp only [pelRemove, List.filter_filter]
        apply List.filter_congr
        intro e _
        simp only [List.contains_cons, bne]
        cases (e.id == id) <;> cases (ids.contains e.id) <;> rfl
      rw [e1, e2, filter_id_eq_length hs] at hsplit
      by_cases hx : (ackOne g id).2 = true
      · have := hr.mp hx
        simp only [this, if_true] at hsplit
        simp only [hx, if_true]; omega
      · have : ¬ ∃ e ∈ g.byId, e.id = id := fun h => hx (hr.mpr h)
        simp only [this, if_false] at hsplit
        simp only [hx]; simp only [Bool.false_eq_true, if_false]; omega

theorem acknowledge_refines (g : Group) (ids : List Id) (hs : Sorted g.byId) :
    abs (acknowledge g ids).1 = (Spec.ack (abs g) ids).1 ∧ (acknowledge g ids).2 = (Spec.ack (abs g) ids).2 := by
  obtain ⟨h1, h2⟩ := ackLoop_byId g ids 0 hs
  constructor
  · simp only [abs, acknowledge, Spec.ack, ackLoop_last, h1]
    congr 1
    rw [List.filter_map]; rfl
  · simp only [abs, acknowledge, Spec.ack, h2, Nat.zero_add]
    rw [List.filter_map, List.length_map]; rfl

/-! ### XCLAIM -/

theorem pelSetOwner_of_not_mem {id : Id} {c : Name} {l : List PEntry} (h : ∀ e ∈ l, e.id ≠ id) :
    pelSetOwner id c l = l := by
  unfold pelSetOwner
  conv => rhs; rw [← List.map_id l]
  apply List.map_congr_left
  intro e he
  simp [h e he]

theorem claimOne_byId (c : Name) (g : Group) (id : Id) :
    (claimOne c true g id).1.byId = pelSetOwner id c g.byId ∧
    (claimOne c true g id).2 = (pelFind id g.byId).isSome := by
  cases hf : pelFind id g.byId with
  | none =>
    simp only [claimOne, hf, Option.isSome_none, and_true]
    exact (pelSetOwner_of_not_mem (pelFind_none.mp hf)).symm
  | some e => rw [claimOne_some hf]; exact ⟨rfl, rfl⟩

theorem pelFind_pelSetOwner_isSome (i id : Id) (c : Name) (l : List PEntry) :
    (pelFind i (pelSetOwner id c l)).isSome = (pelFind i l).isSome := by
  unfold pelFind pelSetOwner
  rw [List.find?_map, Option.isSome_map]
  congr 2
  funext e
  simp only [Function.comp]
  split <;> rfl

def claimMap (c : Name) (ids : List Id) (x : Id × Name) : Id × Name := if ids.contains x.1 then (x.1, c) else x

theorem claimLoop_byId (c : Name) (g : Group) (ids : List Id) :
    (claimLoop c true g ids).1.byId.map (fun e => (e.id, e.owner)) =
      (g.byId.map (fun e => (e.id, e.owner))).map (claimMap c ids) ∧
    (claimLoop c true g ids).2 = ids.filter (fun i => (pelFind i g.byId).isSome) := by
  induction ids generalizing g with
  | nil =>
    simp only [claimLoop, List.filter_nil, and_true]
    conv => lhs; rw [← List.map_id (g.byId.map _)]
    apply List.map_congr_left
    intro x _; simp [claimMap]
  | cons id ids ih =>
    simp only [claimLoop]
    obtain ⟨hb, hr⟩ := claimOne_byId c g id
    obtain ⟨h1, h2⟩ := ih (claimOne c true g id).1
    constructor
    · rw [h1, hb]
      simp only [pelSetOwner, List.map_map]
      apply List.map_congr_left
      intro e _
      simp only [Function.comp, claimMap, List.contains_cons]
      by_cases he : e.id = id
      · subst he; simp
      · have : (e.id == id) = false := by simpa using he
        simp [he, this]
    · rw [h2, hr, hb, List.filter_cons]
      have : ids.filter (fun i => (pelFind i (pelSetOwner id c g.byId)).isSome) =
          ids.filter (fun i => (pelFind i g.byId).isSome) := by
        apply List.filter_congr; intro i _; exact pelFind_pelSetOwner_isSome i id c g.byId
      rw [this]

theorem owner_abs (g : Group) (i : Id) :
    (Spec.owner (abs g).pending i).isSome = (pelFind i g.byId).isSome := by
  simp only [Spec.owner, abs, pelFind, List.find?_map, Option.isSome_map]
  rfl

theorem claim_refines (g : Group) (c : Name) (elig : Bool) (ids : List Id) :
    abs (claim g c elig ids).1 = (Spec.claim (abs g) c elig ids).1 ∧
    (claim g c elig ids).2 = (Spec.claim (abs g) c elig ids).2 := by
  cases elig with
  | false =>
    have : ∀ (g : Group), (claimLoop c false g ids) = (g, []) := by
      intro g
      induction ids generalizing g with
      | nil => rfl
      | cons id ids ih =>
        have h1 : claimOne c false g id = (g, false) := by
          unfold claimOne; split <;> simp
        simp only [claimLoop, h1, ih]
        simp
    simp only [claim, this, Spec.claim]
    exact ⟨rfl, by simp⟩
  | true =>
    obtain ⟨h1, h2⟩ := claimLoop_byId c (createConsumer g c) ids
    constructor
    · simp only [abs, claim, Spec.claim, if_true, claimLoop_last, h1]
      rfl
    · simp only [claim, Spec.claim, if_true, h2]
      apply List.filter_congr
      intro i _
      exact (owner_abs g i).symm

/-! ### XPENDING -/

/-- in an agreeing state the length of a consumer's vector is the number of rows it owns -/
theorem AgreeCore.vec_length {g : Group} (h : AgreeCore g) {c : Name} {l : List Id}
    (hl : alGet c g.byConsumer = some l) : l.length = (g.byId.filter (fun e => e.owner == c)).length := by
  have hnd : l.Nodup := (h.lists _ (mem_of_alGet hl)).2
  have hids : (g.byId.map (·.id)).Nodup := (sorted_iff_ids.mp h.sorted).imp (fun hlt => idLt_ne hlt)
  have hperm : ((g.byId.filter (fun e => e.owner == c)).map (·.id)).Perm l := by
    apply (List.perm_ext_iff_of_nodup ?_ hnd).mpr
    · intro i
      simp only [List.mem_map, List.mem_filter, beq_iff_eq]
      constructor
      · rintro ⟨e, ⟨he, ho⟩, rfl⟩
        obtain ⟨l', hl', hidl', _, _⟩ := h.owner_facts he
        rw [ho, hl] at hl'; cases hl'; exact hidl'
      · intro hi
        obtain ⟨e, he, hid, ho⟩ := h.vec_owner hl hi
        exact ⟨e, ⟨he, ho⟩, hid⟩
    · exact hids.sublist (List.filter_sublist.map _)
  simpa using hperm.length_eq.symm

theorem countOf_abs (g : Group) (c : Name) :
    Spec.countOf (abs g).pending c = (g.byId.filter (fun e => e.owner == c)).length := by
  simp only [Spec.countOf, abs, List.filter_map, List.length_map]
  rfl

/-- the rows of the code's XPENDING summary are exactly the owners with their true counts -/
theorem pendingInfo_rows {g : Group} (h : AgreeCore g) (c : Name) (n : Nat) :
    (c, n) ∈ g.consumers.filter (fun p => p.2 > 0) ↔
      (∃ e ∈ g.byId, e.owner = c) ∧ n = (g.byId.filter (fun e => e.owner == c)).length := by
  simp only [List.mem_filter, decide_eq_true_eq]
  constructor
  · rintro ⟨hr, hpos⟩
    rcases h.cnt₂ _ hr with h0 | ⟨p, hp, hpo⟩
    · simp only at h0; omega
    · simp only at hpo
      have hl : alGet c g.byConsumer = some p.2 := alGet_of_mem h.bcKeys (by rw [← hpo]; exact hp)
      obtain ⟨r, hr', hro, hrn⟩ := h.cnt₁ p hp
      have : r = (c, n) := pair_unique h.csKeys hr' hr (by rw [hro, hpo])
      subst this
      simp only at hrn
      refine ⟨?_, by rw [hrn]; exact h.vec_length hl⟩
      have hne : p.2 ≠ [] := (h.lists p hp).1
      cases hp2 : p.2 with
      | nil => exact absurd hp2 hne
      | cons i t =>
        obtain ⟨e, he, _, ho⟩ := h.vec_owner hl (by rw [hp2]; exact List.mem_cons_self)
        exact ⟨e, he, ho⟩
  · rintro ⟨⟨e, he, ho⟩, hn⟩
    obtain ⟨l, hl, hidl, _, hc⟩ := h.owner_facts he
    rw [ho] at hl hc
    have hlen := h.vec_length hl
    have hpos : 0 < l.length := List.length_pos_of_mem hidl
    refine ⟨?_, by omega⟩
    rw [hn, ← hlen]; exact mem_of_alGet hc

theorem specInfo_rows (g : Group) (c : Name) (n : Nat) :
    (c, n) ∈ (((abs g).pending.map (·.2)).eraseDups.map (fun c => (c, Spec.countOf (abs g).pending c))) ↔
      (∃ e ∈ g.byId, e.owner = c) ∧ n = (g.byId.filter (fun e => e.owner == c)).length := by
  simp only [List.mem_map, List.mem_eraseDups, Prod.mk.injEq, countOf_abs]
  constructor
  · rintro ⟨c', ⟨x, hx, hxc⟩, hc, hn⟩
    subst hc
    simp only [abs, List.mem_map] at hx
    obtain ⟨e, he, rfl⟩ := hx
    exact ⟨⟨e, he, hxc⟩, hn.symm⟩
  · rintro ⟨⟨e, he, ho⟩, hn⟩
    refine ⟨c, ⟨(e.id, e.owner), ?_, ho⟩, rfl, hn.symm⟩
    simp only [abs, List.mem_map]
    exact ⟨e, he, rfl⟩

end Ferrous.Grp
