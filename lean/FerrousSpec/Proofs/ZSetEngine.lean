/-
  C04 helper lemmas (5): the engine-level functions (`zadd`, `zrem`, `zrange`, pops, the ZADD
  command loop) refine the Spec on a key that holds a well-formed, non-empty skip list.
-/
import FerrousSpec.Proofs.ZSetQuery
namespace Ferrous.ZSet
open Ferrous Code

theorem keyInv_none : KeyInv none := by
  intro sl h; cases h

theorem remove_old (sl : SkipList) (m : Bytes) : (remove m sl).2 = getScore m sl := by
  unfold remove getScore
  split <;> simp [*]

theorem remove_none {sl : SkipList} {m : Bytes} (h : (remove m sl).2 = none) : (remove m sl).1 = sl := by
  unfold remove at h ⊢
  split at h
  · rename_i hg; simp [hg]
  · simp at h

theorem level0_insert_ne_nil {sl : SkipList} (h : Inv sl) (ht : Nat) (m : Bytes) (s : Score) :
    level0 (Code.insert ht m (.num s) sl).1 ≠ [] := by
  rw [level0_insert h]
  intro e
  have := congrArg List.length e
  simp [length_insSorted] at this

theorem abs_empty : abs Code.empty = [] := rfl

/-- `zadd` of one (non-NaN) pair. -/
theorem zadd_refines {k : ZKey} (hk : KeyInv k) (ht : Nat) (m : Bytes) (s : Score) :
    KeyInv (Code.zadd ht m (.num s) k).1 ∧
    absKey (Code.zadd ht m (.num s) k).1 = Spec.zadd m s (absKey k) ∧
    (Code.zadd ht m (.num s) k).2 = (Spec.zscore m (absKey k)).isNone := by
  cases k with
  | none =>
    refine ⟨?_, ?_, ?_⟩
    · intro sl hsl
      simp only [Code.zadd, Option.some.injEq] at hsl
      subst hsl
      exact ⟨inv_insert inv_empty ht m s, level0_insert_ne_nil inv_empty ht m s⟩
    · simp only [Code.zadd, absKey]
      rw [abs_insert inv_empty, abs_empty]
    · simp [Code.zadd, absKey, Spec.zscore]
  | some sl =>
    have h := (hk sl rfl).1
    refine ⟨?_, ?_, ?_⟩
    · intro sl' hsl
      simp only [Code.zadd, Option.some.injEq] at hsl
      subst hsl
      exact ⟨inv_insert h ht m s, level0_insert_ne_nil h ht m s⟩
    · simp only [Code.zadd, absKey]
      exact abs_insert h ht m s
    · simp only [Code.zadd, absKey]
      rw [(insert_eq h ht m s).2, remove_old, getScore_refines h]
      cases Spec.zscore m (abs sl) <;> rfl

/-- `zrem`: the member is removed; the key disappears exactly when nothing is left. -/
theorem zrem_refines {k : ZKey} (hk : KeyInv k) (m : Bytes) :
    KeyInv (Code.zrem m k).1 ∧
    absKey (Code.zrem m k).1 = Spec.zrem m (absKey k) ∧
    (Code.zrem m k).2 = (Spec.zscore m (absKey k)).isSome := by
  cases k with
  | none => exact ⟨keyInv_none, rfl, rfl⟩
  | some sl =>
    have h := (hk sl rfl).1
    have hi := inv_remove h m
    have ha := abs_remove h m
    have ho : (remove m sl).2.isSome = (Spec.zscore m (abs sl)).isSome := by
      rw [remove_old, getScore_refines h]
      cases Spec.zscore m (abs sl) <;> rfl
    unfold Code.zrem
    simp only [absKey]
    by_cases hs : (remove m sl).2.isSome = true
    · simp only [hs, if_true]
      by_cases h0 : ((remove m sl).1.length == 0) = true
      · simp only [h0, if_true]
        refine ⟨keyInv_none, ?_, by rw [← ho, hs]⟩
        have : (abs (remove m sl).1).length = 0 := by
          rw [abs_length hi]; simpa using h0
        rw [← ha, List.eq_nil_of_length_eq_zero this]
      · simp only [h0]
        refine ⟨?_, ha, by rw [← ho, hs]⟩
        intro sl' hsl
        simp only [Bool.false_eq_true, if_false, Option.some.injEq] at hsl
        subst hsl
        refine ⟨hi, ?_⟩
        intro e
        apply h0
        rw [hi.len, e]
        rfl
    · simp only [hs]
      have hn : (remove m sl).2 = none := by
        cases hr : (remove m sl).2 with
        | none => rfl
        | some x => simp [hr] at hs
      refine ⟨?_, ha, ?_⟩
      · intro sl' hsl
        simp only [Bool.false_eq_true, if_false, Option.some.injEq] at hsl
        subst hsl
        rw [remove_none hn]
        exact hk sl rfl
      · rw [← ho]
        simpa using hs

/-- The key is absent exactly when the abstract set is empty. -/
theorem keyInv_absKey_nil {k : ZKey} (hk : KeyInv k) : absKey k = [] ↔ k = none := by
  cases k with
  | none => simp [absKey]
  | some sl =>
    simp only [absKey, reduceCtorEq, iff_false]
    intro e
    have h := hk sl rfl
    apply h.2
    rw [level0_eq_lift_abs h.1, e]
    rfl

theorem wf_absKey {k : ZKey} (hk : KeyInv k) : Spec.WF (absKey k) := by
  cases k with
  | none => exact Spec.wf_nil
  | some sl => exact abs_wf (hk sl rfl).1

/-- Engine `zrange` / reverse `zrange`: full refinement for the repaired arithmetic, and for the
    arithmetic as it is on every argument outside `zrangeDev`. -/
theorem zrange_refines {k : ZKey} (hk : KeyInv k) (fixed rev : Bool) (start stop : Int)
    (hd : fixed = true ∨ zrangeDev rev (zcard k) start stop = false) :
    Code.zrange fixed start stop rev k =
      (if rev then Spec.zrevrange (absKey k) start stop else Spec.zrange (absKey k) start stop).map lift := by
  cases k with
  | none =>
    simp only [Code.zrange, absKey, spec_zrange_nil]
    cases rev <;> rfl
  | some sl =>
    have h := (hk sl rfl).1
    apply zrange_refines_of h
    intro hpos
    simp only [zcard] at hd
    cases rev with
    | false =>
      simp only [Bool.false_eq_true, if_false]
      rcases hd with rfl | hd
      · exact zrangeIdx_fwd_fixed _ hpos _ _
      · cases fixed with
        | true => exact zrangeIdx_fwd_fixed _ hpos _ _
        | false => exact (zrangeIdx_fwd_iff _ hpos _ _).mpr hd
    | true =>
      simp only [if_true]
      rcases hd with rfl | hd
      · exact zrangeIdx_rev_fixed _ hpos _ _
      · cases fixed with
        | true => exact zrangeIdx_rev_fixed _ hpos _ _
        | false => exact (zrangeIdx_rev_iff _ hpos _ _).mpr hd

/-! ### Pops -/

theorem spec_zrange_zero_zero (z : Spec.ZSet) : Spec.zrange z 0 0 = z.take 1 := by
  cases z with
  | nil => simp [Spec.zrange, Spec.rangeIdx]
  | cons e r =>
    have : Spec.rangeIdx (r.length + 1) 0 0 = some (0, 0) := by
      unfold Spec.rangeIdx
      simp only
      repeat' split
      all_goals first
        | omega
        | (simp only [Option.some.injEq, Prod.mk.injEq, reduceCtorEq]; omega)
    simp [Spec.zrange, this, slice]

theorem spec_zrange_last (z : Spec.ZSet) : Spec.zrange z (-1) (-1) = z.drop (z.length - 1) := by
  cases hz : z with
  | nil => simp [Spec.zrange, Spec.rangeIdx]
  | cons e r =>
    have : Spec.rangeIdx (r.length + 1) (-1) (-1) = some (r.length, r.length) := by
      unfold Spec.rangeIdx
      simp only
      repeat' split
      all_goals first
        | omega
        | (simp only [Option.some.injEq, Prod.mk.injEq, reduceCtorEq]; omega)
    simp only [Spec.zrange, this, slice, List.length_cons, Nat.add_sub_cancel]
    have h1 : r.length + 1 - r.length = 1 := by omega
    rw [h1]
    apply List.take_of_length_le
    simp

theorem zrangeDev_pop (len : Nat) (hl : 0 < len) :
    zrangeDev false len 0 0 = false ∧ zrangeDev false len (-1) (-1) = false := by
  unfold zrangeDev normIdx
  rw [if_neg (Nat.ne_of_gt hl), if_neg (Nat.ne_of_gt hl)]
  simp only [Int.max_def]
  constructor
  · simp
  · simp only [Bool.false_eq_true, if_false, Bool.and_eq_false_iff, decide_eq_false_iff_not]
    left; omega

theorem zcard_pos_of_ne {k : ZKey} (hk : KeyInv k) (h : absKey k ≠ []) : 0 < zcard k := by
  cases k with
  | none => exact absurd rfl h
  | some sl =>
    have hi := (hk sl rfl).1
    simp only [zcard, absKey] at *
    rw [← abs_length hi]
    exact List.length_pos_iff.mpr h

theorem zrem_head {e : Entry} {r : Spec.ZSet} (h : Spec.WF (e :: r)) : Spec.zrem e.2 (e :: r) = r := by
  unfold Spec.zrem
  rw [List.filter_cons_of_neg (by simp)]
  apply List.filter_eq_self.mpr
  intro a ha
  simp only [bne_iff_ne, ne_eq]
  intro heq
  have hnd := h.2
  simp only [List.map_cons, List.nodup_cons] at hnd
  exact hnd.1 (List.mem_map.mpr ⟨a, ha, heq⟩)

theorem zrem_last {e : Entry} {r : Spec.ZSet} (h : Spec.WF (r ++ [e])) : Spec.zrem e.2 (r ++ [e]) = r := by
  unfold Spec.zrem
  rw [List.filter_append]
  have h2 : [e].filter (fun x => x.2 != e.2) = [] := by simp
  rw [h2, List.append_nil]
  apply List.filter_eq_self.mpr
  intro a ha
  simp only [bne_iff_ne, ne_eq]
  intro heq
  have hnd := h.2
  rw [List.map_append, List.nodup_append] at hnd
  exact hnd.2.2 _ (List.mem_map.mpr ⟨a, ha, rfl⟩) _ (by simp) heq

/-- ZPOPMIN step: pops the head of the order (whatever `fixed` is: `0 0` is never a deviating range). -/
theorem zpop_min_refines {k : ZKey} (hk : KeyInv k) (fixed : Bool) :
    match Spec.zpopmin (absKey k) with
    | none => Code.zpop fixed false k = (k, none)
    | some (e, r) => (Code.zpop fixed false k).2 = some (lift e) ∧
        absKey (Code.zpop fixed false k).1 = r ∧ KeyInv (Code.zpop fixed false k).1 := by
  unfold Code.zpop
  simp only [Bool.false_eq_true, if_false]
  cases hz : absKey k with
  | nil =>
    have : k = none := (keyInv_absKey_nil hk).mp hz
    subst this
    simp [Spec.zpopmin, Code.zrange]
  | cons e r =>
    have hpos := zcard_pos_of_ne hk (by rw [hz]; simp)
    rw [zrange_refines hk fixed false 0 0 (Or.inr (zrangeDev_pop _ hpos).1)]
    simp only [Bool.false_eq_true, if_false, spec_zrange_zero_zero, hz, Spec.zpopmin]
    have hr := zrem_refines hk e.2
    have hw := wf_absKey hk
    rw [hz] at hr hw
    have hs : (Spec.zscore e.2 (e :: r)).isSome = true := by
      rw [(Spec.zscore_eq_some hw).mpr (List.mem_cons_self)]; rfl
    simp only [List.take_succ_cons, List.take_zero, List.map_cons, List.map_nil, lift]
    rw [hr.2.2, hs]
    simp only [if_true]
    refine ⟨?_, by rw [hr.2.1, zrem_head hw], hr.1⟩
    first | rfl | trivial

/-- ZPOPMAX step: pops the last entry of the order. -/
theorem zpop_max_refines {k : ZKey} (hk : KeyInv k) (fixed : Bool) :
    match Spec.zpopmax (absKey k) with
    | none => Code.zpop fixed true k = (k, none)
    | some (e, r) => (Code.zpop fixed true k).2 = some (lift e) ∧
        absKey (Code.zpop fixed true k).1 = r ∧ KeyInv (Code.zpop fixed true k).1 := by
  unfold Code.zpop
  simp only [if_true]
  cases hl : (absKey k).getLast? with
  | none =>
    have hz : absKey k = [] := List.getLast?_eq_none_iff.mp hl
    have : k = none := (keyInv_absKey_nil hk).mp hz
    subst this
    simp [Spec.zpopmax, Code.zrange, absKey]
  | some e =>
    have hdec : absKey k = (absKey k).dropLast ++ [e] := by
      obtain ⟨ys, hys⟩ := List.getLast?_eq_some_iff.mp hl
      rw [hys, List.dropLast_concat]
    have hne : absKey k ≠ [] := by
      intro h; rw [h] at hl; simp at hl
    have hpos := zcard_pos_of_ne hk hne
    rw [zrange_refines hk fixed false (-1) (-1) (Or.inr (zrangeDev_pop _ hpos).2)]
    simp only [Bool.false_eq_true, if_false, spec_zrange_last, Spec.zpopmax, hl]
    have hdrop : (absKey k).drop ((absKey k).length - 1) = [e] := by
      have hlen : (absKey k).length - 1 = (absKey k).dropLast.length := by simp
      rw [hlen]
      conv => lhs; arg 2; rw [hdec]
      simp
    rw [hdrop]
    have hr := zrem_refines hk e.2
    have hw := wf_absKey hk
    have hs : (Spec.zscore e.2 (absKey k)).isSome = true := by
      have : e ∈ absKey k := by rw [hdec]; simp
      rw [(Spec.zscore_eq_some hw).mpr this]; rfl
    simp only [List.map_cons, List.map_nil, lift]
    rw [hr.2.2, hs]
    simp only [if_true]
    refine ⟨by first | rfl | trivial, ?_, hr.1⟩
    rw [hr.2.1]
    conv => lhs; arg 2; rw [hdec]
    rw [hdec] at hw
    exact zrem_last hw

/-! ### The ZADD command loop -/

theorem Spec.length_zrem {z : Spec.ZSet} (h : Spec.WF z) (m : Bytes) :
    (Spec.zrem m z).length = if (Spec.zscore m z).isSome then z.length - 1 else z.length := by
  induction z with
  | nil => simp [Spec.zrem, Spec.zscore]
  | cons e r ih =>
    have hr : Spec.WF r := ⟨(List.pairwise_cons.mp h.1).2, (List.nodup_cons.mp (by simpa using h.2)).2⟩
    by_cases hem : e.2 = m
    · subst hem
      rw [zrem_head h]
      have : (Spec.zscore e.2 (e :: r)).isSome = true := by
        rw [(Spec.zscore_eq_some h).mpr List.mem_cons_self]; rfl
      simp [this]
    · have h1 : Spec.zrem m (e :: r) = e :: Spec.zrem m r := by
        unfold Spec.zrem
        rw [List.filter_cons_of_pos (by simp [hem])]
      have h2 : Spec.zscore m (e :: r) = Spec.zscore m r := by
        unfold Spec.zscore
        rw [List.find?_cons_of_neg (by simp [hem])]
      rw [h1, h2, List.length_cons, ih hr]
      cases hz : Spec.zscore m r with
      | none => simp
      | some s0 =>
        have := List.length_pos_of_mem (Spec.zscore_some_mem hz)
        simp only [Option.isSome_some, if_true, List.length_cons]
        omega

theorem Spec.length_zadd {z : Spec.ZSet} (h : Spec.WF z) (m : Bytes) (s : Score) :
    (Spec.zadd m s z).length = if (Spec.zscore m z).isNone then z.length + 1 else z.length := by
  unfold Spec.zadd
  rw [length_insSorted, Spec.length_zrem h]
  cases hz : Spec.zscore m z with
  | none => simp
  | some s0 =>
    have := List.length_pos_of_mem (Spec.zscore_some_mem hz)
    simp only [Option.isSome_some, if_true, Option.isNone_some, Bool.false_eq_true, if_false]
    omega

theorem Spec.wf_zaddAll : ∀ (vs : List (Score × Bytes)) {z : Spec.ZSet}, Spec.WF z → Spec.WF (Spec.zaddAll vs z)
  | [], _, h => h
  | p :: vs, _, h => by
    unfold Spec.zaddAll
    rw [List.foldl_cons]
    exact Spec.wf_zaddAll vs (Spec.wf_zadd h p.2 p.1)

theorem Spec.length_zaddAll_ge : ∀ (vs : List (Score × Bytes)) {z : Spec.ZSet}, Spec.WF z →
    z.length ≤ (Spec.zaddAll vs z).length
  | [], _, _ => Nat.le_refl _
  | p :: vs, z, h => by
    unfold Spec.zaddAll
    rw [List.foldl_cons]
    have h1 := Spec.length_zaddAll_ge vs (Spec.wf_zadd h p.2 p.1)
    have h2 := Spec.length_zadd h p.2 p.1
    unfold Spec.zaddAll at h1
    split at h2 <;> omega

def badPair (p : Option CScore × Bytes) : Bool := decide (p.1 = none) || decide (p.1 = some CScore.nan)

theorem validPairs_none_iff : ∀ (ps : List (Option CScore × Bytes)),
    Spec.validPairs ps = none ↔ ps.any badPair = true
  | [] => by simp [Spec.validPairs]
  | (none, m) :: r => by simp [Spec.validPairs, badPair]
  | (some .nan, m) :: r => by simp [Spec.validPairs, badPair]
  | (some (.num s), m) :: r => by
    simp [Spec.validPairs, badPair, validPairs_none_iff r]

/-- ZADD with only valid scores: every pair is applied in order; the reply counts the new members. -/
theorem zaddCmd_valid (fixed : Bool) : ∀ (ps : List (Option CScore × Bytes)) (vs : List (Score × Bytes))
    (hs : List Nat) (k : ZKey) (n : Nat), KeyInv k → Spec.validPairs ps = some vs →
    KeyInv (Code.zaddCmd fixed hs ps k n).1 ∧
    absKey (Code.zaddCmd fixed hs ps k n).1 = Spec.zaddAll vs (absKey k) ∧
    (Code.zaddCmd fixed hs ps k n).2 = some (n + ((Spec.zaddAll vs (absKey k)).length - (absKey k).length))
  | [], vs, hs, k, n, hk, hv => by
    simp only [Spec.validPairs, Option.some.injEq] at hv
    subst hv
    simp [Code.zaddCmd, Spec.zaddAll, hk]
  | (none, m) :: r, vs, hs, k, n, hk, hv => by simp [Spec.validPairs] at hv
  | (some .nan, m) :: r, vs, hs, k, n, hk, hv => by simp [Spec.validPairs] at hv
  | (some (.num s), m) :: r, vs, hs, k, n, hk, hv => by
    simp only [Spec.validPairs, Option.map_eq_some_iff] at hv
    obtain ⟨vs', hv', rfl⟩ := hv
    have hany : r.any (fun p => decide (p.1 = none) || decide (p.1 = some CScore.nan)) = false := by
      cases ha : r.any badPair with
      | false => exact ha
      | true => rw [(validPairs_none_iff r).mpr ha] at hv'; cases hv'
    have hz := zadd_refines hk (hs.headD 0) m s
    have hw := wf_absKey hk
    have ih := zaddCmd_valid fixed r vs' hs.tail (Code.zadd (hs.headD 0) m (.num s) k).1
      (if (Code.zadd (hs.headD 0) m (.num s) k).2 = true then n + 1 else n) hz.1 hv'
    unfold Code.zaddCmd
    simp only [reduceCtorEq, decide_false, hany, Bool.or_false, Bool.and_false, Bool.false_eq_true, if_false]
    refine ⟨ih.1, ?_, ?_⟩
    · rw [ih.2.1, hz.2.1]; rfl
    · rw [ih.2.2, hz.2.1, hz.2.2]
      have hge := Spec.length_zaddAll_ge vs' (Spec.wf_zadd hw m s)
      have hl := Spec.length_zadd hw m s
      have e : Spec.zaddAll ((s, m) :: vs') (absKey k) = Spec.zaddAll vs' (Spec.zadd m s (absKey k)) := rfl
      rw [e]
      cases hsc : (Spec.zscore m (absKey k)).isNone <;> simp only [hsc, Bool.false_eq_true, if_false, if_true] at hl ⊢ <;>
        (congr 1; omega)

/-- ZADD with an unusable score, repaired handler: refused before anything is stored. -/
theorem zaddCmd_fixed_refuses (ps : List (Option CScore × Bytes)) (hs : List Nat) (k : ZKey) (n : Nat)
    (hne : ps ≠ []) (hv : Spec.validPairs ps = none) : Code.zaddCmd true hs ps k n = (k, none) := by
  cases ps with
  | nil => exact absurd rfl hne
  | cons p r =>
    obtain ⟨sc, m⟩ := p
    cases sc with
    | none => rfl
    | some s =>
      cases s with
      | nan => simp [Code.zaddCmd]
      | num s =>
        have : Spec.validPairs r = none := by
          simp only [Spec.validPairs, Option.map_eq_none_iff] at hv
          exact hv
        have ha := (validPairs_none_iff r).mp this
        unfold badPair at ha
        simp [Code.zaddCmd, ha]

/-! ### Command sequences -/

theorem applyCmd_refines {k : ZKey} (hk : KeyInv k) (fixed : Bool) (c : Cmd) :
    KeyInv (Code.applyCmd fixed k c) ∧ absKey (Code.applyCmd fixed k c) = Spec.applyCmd (absKey k) c := by
  cases c with
  | zadd h m s => exact ⟨(zadd_refines hk h m s).1, (zadd_refines hk h m s).2.1⟩
  | zincrby h m sum => exact ⟨(zadd_refines hk h m sum).1, (zadd_refines hk h m sum).2.1⟩
  | zrem m => exact ⟨(zrem_refines hk m).1, (zrem_refines hk m).2.1⟩
  | popmin =>
    have h := zpop_min_refines hk fixed
    simp only [Code.applyCmd, Spec.applyCmd]
    cases hz : Spec.zpopmin (absKey k) with
    | none => rw [hz] at h; simp only at h; rw [h]; exact ⟨hk, rfl⟩
    | some p => obtain ⟨e, r⟩ := p; rw [hz] at h; exact ⟨h.2.2, h.2.1⟩
  | popmax =>
    have h := zpop_max_refines hk fixed
    simp only [Code.applyCmd, Spec.applyCmd]
    cases hz : Spec.zpopmax (absKey k) with
    | none => rw [hz] at h; simp only at h; rw [h]; exact ⟨hk, rfl⟩
    | some p => obtain ⟨e, r⟩ := p; rw [hz] at h; exact ⟨h.2.2, h.2.1⟩

theorem runCmds_refines_from (fixed : Bool) (cs : List Cmd) : ∀ (k : ZKey), KeyInv k →
    KeyInv (cs.foldl (Code.applyCmd fixed) k) ∧
    absKey (cs.foldl (Code.applyCmd fixed) k) = cs.foldl Spec.applyCmd (absKey k) := by
  induction cs with
  | nil => intro k hk; exact ⟨hk, rfl⟩
  | cons c cs ih =>
    intro k hk
    have h1 := applyCmd_refines hk fixed c
    have h2 := ih _ h1.1
    simp only [List.foldl_cons]
    exact ⟨h2.1, by rw [h2.2, h1.2]⟩

/-! ### The tower heights are unobservable -/

/-- What the queries read: level 0, the key index and the length. -/
def obs (sl : SkipList) : List CEntry × List (Bytes × CScore) × Nat := (level0 sl, sl.keyIndex, sl.length)

theorem removeNode_keyIndex (m : Bytes) (s : CScore) (sl : SkipList) :
    (removeNode m s sl).keyIndex = sl.keyIndex := by
  unfold removeNode
  split
  · rfl
  · split <;> rfl

theorem keyIndex_insert (ht : Nat) (m : Bytes) (s : CScore) (sl : SkipList) :
    (Code.insert ht m s sl).1.keyIndex = idxSet m s sl.keyIndex := by
  unfold Code.insert
  split <;> simp [insertNode, removeNode_keyIndex]

theorem keyIndex_remove (m : Bytes) (sl : SkipList) :
    (remove m sl).1.keyIndex = match idxGet m sl.keyIndex with
      | none => sl.keyIndex
      | some _ => idxDel m sl.keyIndex := by
  unfold remove
  split <;> simp [removeNode_keyIndex, *]

theorem obs_insert {sl sl' : SkipList} (h : Inv sl) (h' : Inv sl') (e : obs sl = obs sl')
    (a b : Nat) (m : Bytes) (s : Score) :
    obs (Code.insert a m (.num s) sl).1 = obs (Code.insert b m (.num s) sl').1 ∧
    (Code.insert a m (.num s) sl).2 = (Code.insert b m (.num s) sl').2 := by
  simp only [obs, Prod.mk.injEq] at e
  obtain ⟨e0, ei, _⟩ := e
  have l0 : level0 (Code.insert a m (.num s) sl).1 = level0 (Code.insert b m (.num s) sl').1 := by
    rw [level0_insert h, level0_insert h', e0]
  refine ⟨?_, ?_⟩
  · simp only [obs, Prod.mk.injEq]
    refine ⟨l0, by rw [keyIndex_insert, keyIndex_insert, ei], ?_⟩
    rw [(inv_insert h a m s).len, (inv_insert h' b m s).len, l0]
  · rw [(insert_eq h a m s).2, (insert_eq h' b m s).2, remove_old, remove_old]
    simp only [getScore, ei]

theorem obs_remove {sl sl' : SkipList} (h : Inv sl) (h' : Inv sl') (e : obs sl = obs sl') (m : Bytes) :
    obs (remove m sl).1 = obs (remove m sl').1 ∧ (remove m sl).2 = (remove m sl').2 := by
  simp only [obs, Prod.mk.injEq] at e
  obtain ⟨e0, ei, _⟩ := e
  have l0 : level0 (remove m sl).1 = level0 (remove m sl').1 := by
    rw [level0_remove h, level0_remove h', e0]
  refine ⟨?_, ?_⟩
  · simp only [obs, Prod.mk.injEq]
    refine ⟨l0, by rw [keyIndex_remove, keyIndex_remove, ei], ?_⟩
    rw [(inv_remove h m).len, (inv_remove h' m).len, l0]
  · rw [remove_old, remove_old]
    simp only [getScore, ei]

/-! ### One storage call per command: `zadd_many`, `zrem_many`, `zpop` -/

theorem zaddMany_refines : ∀ (vs : List (Score × Bytes)) (hs : List Nat) (k : ZKey) (n : Nat), KeyInv k →
    KeyInv (Code.zaddMany hs vs k n).1 ∧
    absKey (Code.zaddMany hs vs k n).1 = Spec.zaddAll vs (absKey k) ∧
    (Code.zaddMany hs vs k n).2 = n + ((Spec.zaddAll vs (absKey k)).length - (absKey k).length)
  | [], hs, k, n, hk => by simp [Code.zaddMany, Spec.zaddAll, hk]
  | (s, m) :: vs, hs, k, n, hk => by
    have hz := zadd_refines hk (hs.headD 0) m s
    have hw := wf_absKey hk
    have ih := zaddMany_refines vs hs.tail (Code.zadd (hs.headD 0) m (.num s) k).1
      (if (Code.zadd (hs.headD 0) m (.num s) k).2 = true then n + 1 else n) hz.1
    unfold Code.zaddMany
    refine ⟨ih.1, ?_, ?_⟩
    · rw [ih.2.1, hz.2.1]; rfl
    · rw [ih.2.2, hz.2.1, hz.2.2]
      have hge := Spec.length_zaddAll_ge vs (Spec.wf_zadd hw m s)
      have hl := Spec.length_zadd hw m s
      have e : Spec.zaddAll ((s, m) :: vs) (absKey k) = Spec.zaddAll vs (Spec.zadd m s (absKey k)) := rfl
      rw [e]
      cases hsc : (Spec.zscore m (absKey k)).isNone <;> simp only [hsc, Bool.false_eq_true, if_false, if_true] at hl ⊢ <;>
        omega

theorem Spec.zremAll_nil (ms : List Bytes) : Spec.zremAll ms [] = [] := by
  induction ms with
  | nil => rfl
  | cons m ms ih => simpa [Spec.zremAll, Spec.zrem] using ih

theorem Spec.wf_zremAll : ∀ (ms : List Bytes) {z : Spec.ZSet}, Spec.WF z → Spec.WF (Spec.zremAll ms z)
  | [], _, h => h
  | m :: ms, _, h => by
    unfold Spec.zremAll
    rw [List.foldl_cons]
    exact Spec.wf_zremAll ms (Spec.wf_zrem h m)

theorem Spec.length_zremAll_le : ∀ (ms : List Bytes) (z : Spec.ZSet), (Spec.zremAll ms z).length ≤ z.length
  | [], _ => Nat.le_refl _
  | m :: ms, z => by
    unfold Spec.zremAll
    rw [List.foldl_cons]
    have h1 := Spec.length_zremAll_le ms (Spec.zrem m z)
    have h2 : (Spec.zrem m z).length ≤ z.length := List.length_filter_le _ _
    unfold Spec.zremAll at h1
    omega

theorem zremMany_refines : ∀ (ms : List Bytes) (k : ZKey) (n : Nat), KeyInv k →
    KeyInv (Code.zremMany ms k n).1 ∧
    absKey (Code.zremMany ms k n).1 = Spec.zremAll ms (absKey k) ∧
    (Code.zremMany ms k n).2 = n + ((absKey k).length - (Spec.zremAll ms (absKey k)).length)
  | [], k, n, hk => by simp [Code.zremMany, Spec.zremAll, hk]
  | m :: ms, none, n, _ => by
    simp [Code.zremMany, absKey, Spec.zremAll_nil, keyInv_none]
  | m :: ms, some sl, n, hk => by
    have hz := zrem_refines hk m
    have hw := wf_absKey hk
    have ih := zremMany_refines ms (Code.zrem m (some sl)).1
      (if (Code.zrem m (some sl)).2 = true then n + 1 else n) hz.1
    unfold Code.zremMany
    refine ⟨ih.1, ?_, ?_⟩
    · rw [ih.2.1, hz.2.1]; rfl
    · rw [ih.2.2, hz.2.1, hz.2.2]
      have hle := Spec.length_zremAll_le ms (Spec.zrem m (absKey (some sl)))
      have hl := Spec.length_zrem hw m
      have e : Spec.zremAll (m :: ms) (absKey (some sl)) = Spec.zremAll ms (Spec.zrem m (absKey (some sl))) := rfl
      rw [e]
      cases hsc : (Spec.zscore m (absKey (some sl))).isSome
      · simp only [hsc, Bool.false_eq_true, if_false] at hl ⊢
        omega
      · have hpos : 0 < (absKey (some sl)).length := by
          cases hz' : Spec.zscore m (absKey (some sl)) with
          | none => simp [hz'] at hsc
          | some s0 => exact List.length_pos_of_mem (Spec.zscore_some_mem hz')
        simp only [hsc, if_true] at hl ⊢
        omega

/-- One iteration of `zpop` is one pop of the prescribed order. -/
theorem zpopStep_refines {k : ZKey} (hk : KeyInv k) (max : Bool) :
    match (if max then Spec.zpopmax (absKey k) else Spec.zpopmin (absKey k)) with
    | none => Code.zpopStep max k = none
    | some (e, r) => ∃ k', Code.zpopStep max k = some (lift e, k') ∧ absKey k' = r ∧ KeyInv k' := by
  cases k with
  | none => cases max <;> simp [Code.zpopStep, absKey, Spec.zpopmin, Spec.zpopmax]
  | some sl =>
    have h := (hk sl rfl).1
    have hne := (hk sl rfl).2
    have hl0 := level0_eq_lift_abs h
    have hlen := abs_length h
    have hw := abs_wf h
    have hpos : 0 < sl.length := by
      rw [h.len]; exact List.length_pos_iff.mpr hne
    have hz : (sl.length == 0) = false := by simp; omega
    -- after removing a member of the set: exactly the key `zrem` leaves
    have hrem : ∀ e : Entry, e ∈ abs sl →
        (if (remove e.2 sl).1.length == 0 then none else some (remove e.2 sl).1) = (Code.zrem e.2 (some sl)).1 := by
      intro e he
      have : (remove e.2 sl).2.isSome = true := by
        rw [remove_old, getScore_refines h, (Spec.zscore_eq_some hw).mpr he]; rfl
      simp [Code.zrem, this]
    simp only [absKey]
    cases max with
    | false =>
      simp only [Bool.false_eq_true, if_false]
      cases ha : abs sl with
      | nil => rw [hl0, ha] at hne; exact absurd rfl hne
      | cons e r =>
        have hr : rangeByRank 0 0 sl = [lift e] := by
          unfold rangeByRank
          have : ¬ (0 ≥ sl.length) := by omega
          have h1 : min (0 + 1) sl.length - 0 = 1 := by omega
          simp [this, h1, hl0, ha]
        have hzr := zrem_refines hk e.2
        refine ⟨(Code.zrem e.2 (some sl)).1, ?_, ?_, hzr.1⟩
        · simp only [Code.zpopStep, hz, Bool.false_eq_true, if_false, hr, List.head?_cons]
          rw [← hrem e (by rw [ha]; exact List.mem_cons_self)]
          rfl
        · refine hzr.2.1.trans ?_
          simp only [absKey, ha]
          exact zrem_head (ha ▸ hw)
    | true =>
      simp only [if_true]
      unfold Spec.zpopmax
      cases hlast : (abs sl).getLast? with
      | none =>
        have : abs sl = [] := List.getLast?_eq_none_iff.mp hlast
        rw [hl0, this] at hne; exact absurd rfl hne
      | some e =>
        obtain ⟨ys, hys⟩ := List.getLast?_eq_some_iff.mp hlast
        have hyl : ys.length = sl.length - 1 := by rw [← hlen, hys]; simp
        have hr : rangeByRank (sl.length - 1) (sl.length - 1) sl = [lift e] := by
          unfold rangeByRank
          have : ¬ (sl.length - 1 ≥ sl.length) := by omega
          have h1 : min (sl.length - 1 + 1) sl.length - (sl.length - 1) = 1 := by omega
          simp only [this, if_false, h1, hl0, hys, List.map_append, List.map_cons, List.map_nil]
          rw [← hyl, ← List.length_map (f := lift), List.drop_left]
          rfl
        have hzr := zrem_refines hk e.2
        refine ⟨(Code.zrem e.2 (some sl)).1, ?_, ?_, hzr.1⟩
        · simp only [Code.zpopStep, hz, Bool.false_eq_true, if_false, if_true, hr, List.head?_cons]
          rw [← hrem e (by rw [hys]; simp)]
          rfl
        · refine hzr.2.1.trans ?_
          simp only [absKey, hys, List.dropLast_concat]
          exact zrem_last (hys ▸ hw)

theorem Spec.zpopN_min_cons (n : Nat) (e : Entry) (r : Spec.ZSet) :
    Spec.zpopN false (n + 1) (e :: r) = ((Spec.zpopN false n r).1, e :: (Spec.zpopN false n r).2) := by
  simp [Spec.zpopN]

theorem Spec.zpopN_max_snoc (n : Nat) (e : Entry) (r : Spec.ZSet) :
    Spec.zpopN true (n + 1) (r ++ [e]) = ((Spec.zpopN true n r).1, e :: (Spec.zpopN true n r).2) := by
  simp only [Spec.zpopN, if_true, List.length_append, List.length_cons, List.length_nil]
  have h1 : r.length + (0 + 1) - (n + 1) = r.length - n := by omega
  rw [h1, List.take_append_of_le_length (by omega), List.drop_append_of_le_length (by omega)]
  simp

/-- `zpop(key, count, min)` pops the first / last `count` entries of the prescribed order, in pop order. -/
theorem zpopMany_refines (max : Bool) : ∀ (n : Nat) (k : ZKey) (acc : List CEntry), KeyInv k →
    KeyInv (Code.zpopMany max n k acc).1 ∧
    absKey (Code.zpopMany max n k acc).1 = (Spec.zpopN max n (absKey k)).1 ∧
    (Code.zpopMany max n k acc).2 = acc ++ ((Spec.zpopN max n (absKey k)).2).map lift
  | 0, k, acc, hk => by
    cases max <;> simp [Code.zpopMany, Spec.zpopN, hk]
  | n + 1, k, acc, hk => by
    have hs := zpopStep_refines hk max
    unfold Code.zpopMany
    cases max with
    | false =>
      simp only [Bool.false_eq_true, if_false] at hs
      cases hz : absKey k with
      | nil =>
        simp only [hz, Spec.zpopmin] at hs
        rw [hs]
        simp [Spec.zpopN, hk, hz]
      | cons e r =>
        simp only [hz, Spec.zpopmin] at hs
        obtain ⟨k', hk1, hk2, hk3⟩ := hs
        rw [hk1]
        have ih := zpopMany_refines false n k' (acc ++ [lift e]) hk3
        simp only
        rw [Spec.zpopN_min_cons, ← hk2]
        refine ⟨ih.1, ih.2.1, ?_⟩
        rw [ih.2.2]; simp
    | true =>
      simp only [if_true] at hs
      cases hl : (absKey k).getLast? with
      | none =>
        have hz : absKey k = [] := List.getLast?_eq_none_iff.mp hl
        simp only [Spec.zpopmax, hl] at hs
        rw [hs]
        simp [Spec.zpopN, hk, hz]
      | some e =>
        obtain ⟨ys, hys⟩ := List.getLast?_eq_some_iff.mp hl
        simp only [Spec.zpopmax, hl] at hs
        obtain ⟨k', hk1, hk2, hk3⟩ := hs
        rw [hk1]
        have ih := zpopMany_refines true n k' (acc ++ [lift e]) hk3
        simp only
        rw [hys, List.dropLast_concat] at hk2
        rw [hys, Spec.zpopN_max_snoc, ← hk2]
        refine ⟨ih.1, ih.2.1, ?_⟩
        rw [ih.2.2]; simp

end Ferrous.ZSet
