/-
  C02 helper lemmas (3): frame, the sweeper phases, runs of the interleaving machine.
-/
import FerrousSpec.Proofs.ExpiryRefine
set_option linter.unusedSimpArgs false
set_option linter.unusedVariables false
namespace Ferrous.Exp
open Ferrous

/-! ### Frame: a storage call changes nothing under the keys it is not about -/

def touches : Op → Key → Bool
  | .setValue k _ _ _, x => decide (k = x)
  | .setNx k _ _, x => decide (k = x)
  | .get k, x => decide (k = x)
  | .exists k, x => decide (k = x)
  | .delete k, x => decide (k = x)
  | .expire k _, x => decide (k = x)
  | .persist k, x => decide (k = x)
  | .ttl k, x => decide (k = x)
  | .keyType k, x => decide (k = x)
  | .read _ k _, x => decide (k = x)
  | .update _ k _ _, x => decide (k = x)
  | .shrink _ k _, x => decide (k = x)
  | .rename a b, x => decide (a = x) || decide (b = x)
  | .keys _, _ => false
  | .scan, _ => false
  | .flush, _ => true

theorem step_frame (c : Cfg) (o : Op) (now : Nat) (s : Shard) (x : Key) (h : touches o x = false) :
    lookup (step c o now s).1.data x = lookup s.data x := by
  cases o with
  | setValue k tag val ttl =>
    have hk : x ≠ k := by
      simp only [touches, decide_eq_false_iff_not] at h
      exact fun hh => h hh.symm
    simp only [step]
    rw [lookup_insert_other _ _ _ _ hk]; exact (enter_frame c _ now s k x hk).1
  | setNx k val ttl =>
    have hk : x ≠ k := by
      simp only [touches, decide_eq_false_iff_not] at h
      exact fun hh => h hh.symm
    have hf := (enter_frame c (setNxFn ttl) now s k x hk).1
    simp only [step]
    generalize enter c (setNxFn ttl) now s k = r at hf ⊢
    obtain ⟨s1, cur⟩ := r
    cases cur <;> simp only [] <;> first | exact hf | (rw [lookup_insert_other _ _ _ _ hk]; exact hf)
  | get k =>
    have hk : x ≠ k := by
      simp only [touches, decide_eq_false_iff_not] at h
      exact fun hh => h hh.symm
    have hf := (enter_frame c "get" now s k x hk).1
    simp only [step]
    generalize enter c "get" now s k = r at hf ⊢
    obtain ⟨s1, cur⟩ := r
    cases cur <;> exact hf
  | «exists» k =>
    have hk : x ≠ k := by
      simp only [touches, decide_eq_false_iff_not] at h
      exact fun hh => h hh.symm
    exact (enter_frame c "exists" now s k x hk).1
  | delete k =>
    have hk : x ≠ k := by
      simp only [touches, decide_eq_false_iff_not] at h
      exact fun hh => h hh.symm
    have hf := (enter_frame c "delete" now s k x hk).1
    simp only [step]
    generalize enter c "delete" now s k = r at hf ⊢
    obtain ⟨s1, cur⟩ := r
    cases cur <;> simp only [] <;> first | exact hf | (rw [lookup_erase_other _ _ _ hk]; exact hf)
  | expire k ttl =>
    have hk : x ≠ k := by
      simp only [touches, decide_eq_false_iff_not] at h
      exact fun hh => h hh.symm
    have hf := (enter_frame c "expire" now s k x hk).1
    simp only [step]
    generalize enter c "expire" now s k = r at hf ⊢
    obtain ⟨s1, cur⟩ := r
    cases cur <;> simp only [] <;> first | exact hf | (rw [lookup_insert_other _ _ _ _ hk]; exact hf)
  | persist k =>
    have hk : x ≠ k := by
      simp only [touches, decide_eq_false_iff_not] at h
      exact fun hh => h hh.symm
    have hf := (enter_frame c "persist" now s k x hk).1
    simp only [step]
    generalize enter c "persist" now s k = r at hf ⊢
    obtain ⟨s1, cur⟩ := r
    cases cur with
    | none => exact hf
    | some e =>
      simp only []
      split
      · rw [lookup_insert_other _ _ _ _ hk]; exact hf
      · exact hf
  | ttl k =>
    have hk : x ≠ k := by
      simp only [touches, decide_eq_false_iff_not] at h
      exact fun hh => h hh.symm
    have hf := (enter_frame c "ttl" now s k x hk).1
    simp only [step]
    generalize enter c "ttl" now s k = r at hf ⊢
    obtain ⟨s1, cur⟩ := r
    cases cur <;> exact hf
  | keyType k =>
    have hk : x ≠ k := by
      simp only [touches, decide_eq_false_iff_not] at h
      exact fun hh => h hh.symm
    exact (enter_frame c "key_type" now s k x hk).1
  | read fn k tag =>
    have hk : x ≠ k := by
      simp only [touches, decide_eq_false_iff_not] at h
      exact fun hh => h hh.symm
    have hf := (enter_frame c fn now s k x hk).1
    simp only [step]
    generalize enter c fn now s k = r at hf ⊢
    obtain ⟨s1, cur⟩ := r
    cases cur with
    | none => exact hf
    | some e => simp only []; split <;> exact hf
  | update fn k tag delta =>
    have hk : x ≠ k := by
      simp only [touches, decide_eq_false_iff_not] at h
      exact fun hh => h hh.symm
    have hf := (enter_frame c fn now s k x hk).1
    simp only [step]
    generalize enter c fn now s k = r at hf ⊢
    obtain ⟨s1, cur⟩ := r
    cases cur with
    | none => simp only []; rw [lookup_insert_other _ _ _ _ hk]; exact hf
    | some e =>
      simp only []
      split
      · rw [lookup_insert_other _ _ _ _ hk]; exact hf
      · exact hf
  | shrink fn k tag =>
    have hk : x ≠ k := by
      simp only [touches, decide_eq_false_iff_not] at h
      exact fun hh => h hh.symm
    have hf := (enter_frame c fn now s k x hk).1
    simp only [step]
    generalize enter c fn now s k = r at hf ⊢
    obtain ⟨s1, cur⟩ := r
    cases cur with
    | none => exact hf
    | some e =>
      simp only []
      split
      · split
        · rw [lookup_erase_other _ _ _ hk]; exact hf
        · rw [lookup_insert_other _ _ _ _ hk]; exact hf
      · exact hf
  | rename a b =>
    have hab : x ≠ a ∧ x ≠ b := by
      simp only [touches, Bool.or_eq_false_iff, decide_eq_false_iff_not] at h
      exact ⟨fun hh => h.1 hh.symm, fun hh => h.2 hh.symm⟩
    have hf := (enter_frame c "rename" now s a x hab.1).1
    simp only [step]
    generalize enter c "rename" now s a = r at hf ⊢
    obtain ⟨s1, cur⟩ := r
    cases cur with
    | none => exact hf
    | some e =>
      simp only []
      rw [lookup_insert_other _ _ _ _ hab.2, lookup_erase_other _ _ _ hab.1]; exact hf
  | keys fn => rfl
  | scan => rfl
  | flush => simp [touches] at h

/-! ### The delete phase of the sweeper -/

theorem sweepDeleteKey_other (c : Cfg) (now : Nat) (s : Shard) (k x : Key) (h : x ≠ k) :
    lookup (sweepDeleteKey c now s k).data x = lookup s.data x := by
  unfold sweepDeleteKey
  cases hl : lookup s.data k with
  | none => simp only []; split <;> rfl
  | some e =>
    simp only []
    split
    · split
      · exact lookup_erase_other _ _ _ h
      · split <;> rfl
    · exact lookup_erase_other _ _ _ h

/-- with the re-check, the delete phase removes only entries whose STORED deadline has passed -/
theorem sweepDeleteKey_keeps_live (c : Cfg) (hr : c.sweeperRechecks = true) (now : Nat) (s : Shard) (k x : Key) (e : Stored)
    (hl : lookup s.data x = some e) (he : expired now e = false) :
    lookup (sweepDeleteKey c now s k).data x = some e := by
  by_cases hx : x = k
  · subst hx
    simp [sweepDeleteKey, hl, hr, he]
    cases e.deadline <;> simp [hl]
  · rw [sweepDeleteKey_other c now s k x hx]; exact hl

theorem sweepDelete_keeps_live (c : Cfg) (hr : c.sweeperRechecks = true) (now : Nat) (ks : List Key) (s : Shard) (x : Key) (e : Stored)
    (hl : lookup s.data x = some e) (he : expired now e = false) :
    lookup (sweepDelete c now ks s).data x = some e := by
  induction ks generalizing s with
  | nil => exact hl
  | cons k r ih =>
    simp only [sweepDelete, List.foldl_cons]
    exact ih _ (sweepDeleteKey_keeps_live c hr now s k x e hl he)

theorem sweepDelete_other (c : Cfg) (now : Nat) (ks : List Key) (s : Shard) (x : Key) (h : x ∉ ks) :
    lookup (sweepDelete c now ks s).data x = lookup s.data x := by
  induction ks generalizing s with
  | nil => rfl
  | cons k r ih =>
    simp only [List.mem_cons, not_or] at h
    simp only [sweepDelete, List.foldl_cons]
    rw [← sweepDeleteKey_other c now s k x h.1]
    exact ih _ h.2

theorem sweepDeleteKey_nodup (c : Cfg) (now : Nat) (s : Shard) (k : Key) (hn : NodupKeys s.data) :
    NodupKeys (sweepDeleteKey c now s k).data := by
  unfold sweepDeleteKey
  cases hl : lookup s.data k with
  | none => simp only []; split <;> exact hn
  | some e =>
    simp only []
    split
    · split
      · exact nodup_erase _ _ hn
      · split <;> exact hn
    · exact nodup_erase _ _ hn

theorem sweepDelete_nodup (c : Cfg) (now : Nat) (ks : List Key) (s : Shard) (hn : NodupKeys s.data) :
    NodupKeys (sweepDelete c now ks s).data := by
  induction ks generalizing s with
  | nil => exact hn
  | cons k r ih => exact ih _ (sweepDeleteKey_nodup c now s k hn)

/-- with the re-check, a delete phase is invisible: what is visible at any later time is unchanged -/
theorem sweepDeleteKey_view (c : Cfg) (hr : c.sweeperRechecks = true) (now t : Nat) (ht : now ≤ t) (s : Shard) (k : Key)
    (hn : NodupKeys s.data) : Spec.purge t (sweepDeleteKey c now s k).data = Spec.purge t s.data := by
  unfold sweepDeleteKey
  cases hl : lookup s.data k with
  | none => simp [hr]
  | some e =>
    simp only [hr, if_true]
    split
    · rename_i he
      exact purge_of_lookup_dead t s.data k e hn hl (expired_mono now t e ht he)
    · split <;> rfl

theorem sweepDelete_view (c : Cfg) (hr : c.sweeperRechecks = true) (now t : Nat) (ht : now ≤ t) (ks : List Key) (s : Shard)
    (hn : NodupKeys s.data) : Spec.purge t (sweepDelete c now ks s).data = Spec.purge t s.data := by
  induction ks generalizing s with
  | nil => rfl
  | cons k r ih =>
    simp only [sweepDelete, List.foldl_cons]
    have := ih (sweepDeleteKey c now s k) (sweepDeleteKey_nodup c now s k hn)
    simp only [sweepDelete] at this
    rw [this, sweepDeleteKey_view c hr now t ht s k hn]

/-! ### Runs -/

/-- NO SPURIOUS DELETE along a run: at every sweeper step, every stored entry whose STORED deadline is absent or
    has not passed at that moment is still stored, unchanged, after the step. -/
def SweepSafe (c : Cfg) : M → List Step → Prop
  | _, [] => True
  | m, st :: r =>
    (st.isSweeper = true → ∀ k e, lookup m.shard.data k = some e → expired st.time e = false →
        lookup (next c m st).1.shard.data k = some e) ∧ SweepSafe c (next c m st).1 r

theorem sweepSafe_of_recheck (c : Cfg) (hr : c.sweeperRechecks = true) (steps : List Step) (m : M) : SweepSafe c m steps := by
  induction steps generalizing m with
  | nil => trivial
  | cons st r ih =>
    refine ⟨?_, ih _⟩
    intro hs k e hl he
    cases st with
    | op o now => simp [Step.isSweeper] at hs
    | collect now => exact hl
    | delete now => exact sweepDelete_keeps_live c hr now m.pending m.shard k e hl he

/-- a step of the machine that is not a client call about `k` -/
def Step.avoids (k : Key) : Step → Bool
  | .op o _ => !touches o k
  | _ => true

/-- VISIBLE UNTIL THE DEADLINE / NEVER DELETED WITHOUT ONE: with the re-check, an entry survives, unchanged, every
    run of sweeper phases and client calls about other keys, as long as its stored deadline has not passed. -/
theorem entry_survives (c : Cfg) (hr : c.sweeperRechecks = true) (k : Key) (e : Stored) (steps : List Step) (m : M)
    (hl : lookup m.shard.data k = some e)
    (hq : ∀ st ∈ steps, st.avoids k = true)
    (ht : ∀ st ∈ steps, expired st.time e = false) :
    lookup (runM c m steps).shard.data k = some e := by
  induction steps generalizing m with
  | nil => exact hl
  | cons st r ih =>
    simp only [runM, List.foldl_cons]
    apply ih
    · cases st with
      | op o now =>
        have := hq (.op o now) (by simp)
        simp only [Step.avoids, Bool.not_eq_true'] at this
        simp only [next]
        rw [step_frame c o now m.shard k this]; exact hl
      | collect now => exact hl
      | delete now =>
        exact sweepDelete_keeps_live c hr now m.pending m.shard k e hl (ht (.delete now) (by simp))
    · intro st hst; exact hq st (List.mem_cons_of_mem _ hst)
    · intro st hst; exact ht st (List.mem_cons_of_mem _ hst)

theorem purge_eq_mono (t0 t : Nat) (a b : Db) (h : t0 ≤ t) (hab : Spec.purge t0 a = Spec.purge t0 b) :
    Spec.purge t a = Spec.purge t b := by
  rw [← purge_purge_le t0 t a h, ← purge_purge_le t0 t b h, hab]

theorem Spec.step_congr (o : Op) (now : Nat) (d1 d2 : Db) (h : Spec.purge now d1 = Spec.purge now d2) :
    Spec.step o now d1 = Spec.step o now d2 := by
  simp only [Spec.step, h]

/-- every client call of the run goes through a storage function that has a lazy test -/
def allLazy (c : Cfg) : List Step → Bool
  | [] => true
  | .op o _ :: r => lazyOp c o && allLazy c r
  | _ :: r => allLazy c r

/-- REFINEMENT OVER ALL INTERLEAVINGS: when every storage call of the run has a lazy test and the sweeper re-checks, the
    run — client calls interleaved in any way with sweeper phases — returns exactly what the instant-expiry store returns. -/
theorem run_refines_of (c : Cfg) (hr : c.sweeperRechecks = true) (steps : List Step) (m : M) (db : Db) (t0 : Nat)
    (hl : allLazy c steps = true)
    (hn : NodupKeys m.shard.data) (hv : Spec.purge t0 m.shard.data = Spec.purge t0 db) (hm : monotoneFrom t0 steps = true) :
    trace c m steps = Spec.trace db steps := by
  induction steps generalizing m db t0 with
  | nil => rfl
  | cons st r ih =>
    simp only [monotoneFrom, Bool.and_eq_true, decide_eq_true_eq] at hm
    cases st with
    | op o now =>
      simp only [Step.time] at hm
      simp only [allLazy, Bool.and_eq_true] at hl
      have hv' := purge_eq_mono t0 now _ _ hm.1 hv
      have href := step_refines c o now m.shard hn (Or.inl hl.1)
      have hcg := Spec.step_congr o now _ _ hv'
      simp only [trace, next, Spec.trace]
      rw [href.2, hcg]
      congr 1
      apply ih _ _ now hl.2 (step_nodup c o now m.shard hn) _ hm.2
      simp only []
      rw [href.1, hcg, ← hcg, ← href.1, purge_idem]
    | collect now =>
      simp only [Step.time] at hm
      simp only [allLazy] at hl
      simp only [trace, next, Spec.trace]
      exact ih _ _ now hl hn (purge_eq_mono t0 now _ _ hm.1 hv) hm.2
    | delete now =>
      simp only [Step.time] at hm
      simp only [allLazy] at hl
      simp only [trace, next, Spec.trace]
      apply ih _ _ now hl (sweepDelete_nodup c now m.pending m.shard hn) _ hm.2
      simp only []
      rw [sweepDelete_view c hr now now (Nat.le_refl _) m.pending m.shard hn]
      exact purge_eq_mono t0 now _ _ hm.1 hv

theorem allLazy_of_all (c : Cfg) (hl : ∀ o, lazyOp c o = true) (steps : List Step) : allLazy c steps = true := by
  induction steps with
  | nil => rfl
  | cons st r ih => cases st <;> simp [allLazy, hl, ih]

theorem run_refines (c : Cfg) (hl : ∀ o, lazyOp c o = true) (hr : c.sweeperRechecks = true) (steps : List Step) (m : M) (db : Db) (t0 : Nat)
    (hn : NodupKeys m.shard.data) (hv : Spec.purge t0 m.shard.data = Spec.purge t0 db) (hm : monotoneFrom t0 steps = true) :
    trace c m steps = Spec.trace db steps :=
  run_refines_of c hr steps m db t0 (allLazy_of_all c hl steps) hn hv hm

end Ferrous.Exp
