/-
  C16 helper lemmas, part 6: the explicit idle test of XCLAIM (`Code.claimT`).
-/
import FerrousSpec.Proofs.GroupsHistory
namespace Ferrous.Grp
open Code

theorem lastOf_setLast (ts : Times) (id : Id) (t : Nat) : lastOf (setLast ts id t) id = t := by
  simp [lastOf, setLast]

theorem claimOne_false (c : Name) (g : Group) (id : Id) : claimOne c false g id = (g, false) := by
  unfold claimOne; split <;> simp

theorem idleOk_within {now last T : Nat} (h : now - last < T) : idleOk now last T false = false := by
  simp [idleOk]; omega

/-- with a uniform outcome of the idle test (min-idle 0, FORCE, or a threshold nothing can reach) the timed claim is
    the Boolean one -/
theorem claimLoopT_uniform (c : Name) (now minIdle : Nat) (force b : Bool)
    (h : ∀ l, idleOk now l minIdle force = b) (ids : List Id) : ∀ (s : Group × Times),
    (claimLoopT c now minIdle force s ids).1.1 = (claimLoop c b s.1 ids).1 ∧
    (claimLoopT c now minIdle force s ids).2 = (claimLoop c b s.1 ids).2 := by
  induction ids with
  | nil => intro s; exact ⟨rfl, rfl⟩
  | cons id ids ih =>
    intro s
    simp only [claimLoopT, claimLoop, h]
    obtain ⟨h1, h2⟩ := ih ((claimOne c b s.1 id).1, if (claimOne c b s.1 id).2 then setLast s.2 id now else s.2)
    exact ⟨h1, by rw [h2]⟩

theorem claimLoopT_agree (c : Name) (now minIdle : Nat) (force : Bool) (ids : List Id) : ∀ (s : Group × Times),
    AgreeCore s.1 → (alGet c s.1.consumers).isSome →
    AgreeCore (claimLoopT c now minIdle force s ids).1.1 ∧
    (claimLoopT c now minIdle force s ids).1.1.totalPending = s.1.totalPending ∧
    (claimLoopT c now minIdle force s ids).1.1.byId.length = s.1.byId.length := by
  induction ids with
  | nil => intro s h _; exact ⟨h, rfl, rfl⟩
  | cons id ids ih =>
    intro s h hc
    simp only [claimLoopT]
    obtain ⟨f1, _, f3, f4⟩ := claimOne_fields c (idleOk now (lastOf s.2 id) minIdle force) s.1 id
    obtain ⟨h1, h2, h3⟩ := ih ((claimOne c (idleOk now (lastOf s.2 id) minIdle force) s.1 id).1,
      if (claimOne c (idleOk now (lastOf s.2 id) minIdle force) s.1 id).2 then setLast s.2 id now else s.2)
      (agreeCore_claimOne h c _ id hc) (f4 hc)
    exact ⟨h1, by rw [h2, f1], by rw [h3, f3]⟩

end Ferrous.Grp
