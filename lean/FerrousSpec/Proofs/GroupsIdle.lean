/-
  C16 helper lemmas, part 6: the explicit idle test of XCLAIM and FORCE (`Code.claimT`).
-/
import FerrousSpec.Proofs.GroupsHistory
namespace Ferrous.Grp
open Code

theorem lastOf_setLast (ts : Times) (id : Id) (t : Nat) : lastOf (setLast ts id t) id = t := by
  simp [lastOf, setLast]

theorem claimOne_false (c : Name) (g : Group) (id : Id) : claimOne c false g id = (g, false) := by
  unfold claimOne; split <;> simp

theorem idleOk_within {now last T : Nat} (h : now - last < T) : idleOk now last T false = false := by
  simp [idleOk]; omega

/-- a step without FORCE whose idle test fails changes nothing -/
theorem claimStepT_refused (q : Quirks) (c : Name) (now T : Nat) (stream : List Id) (s : Group × Times) (id : Id)
    (h : now - lastOf s.2 id < T) : claimStepT q c now T false stream s id = (s, false) := by
  unfold claimStepT
  cases pelFind id s.1.byId with
  | some e => simp only [Bool.false_and, idleOk_within h, claimOne_false]; simp
  | none => simp

/-- on the repaired tree FORCE does not replace the idle test either -/
theorem claimStepT_refused_force (q : Quirks) (hq : q.forceFix = true) (c : Name) (now T : Nat) (force : Bool)
    (stream : List Id) (s : Group × Times) (id : Id) (e : PEntry) (hp : pelFind id s.1.byId = some e)
    (h : now - lastOf s.2 id < T) : claimStepT q c now T force stream s id = (s, false) := by
  unfold claimStepT
  simp only [hp, hq, Bool.not_true, Bool.and_false, idleOk_within h, claimOne_false]
  simp

/-- with a uniform outcome of the idle test (min-idle 0, or a threshold nothing can reach) and no row creation
    (no FORCE, or the pinned tree) the timed claim is the Boolean one -/
theorem claimLoopT_uniform (q : Quirks) (c : Name) (now minIdle : Nat) (force b : Bool) (stream : List Id)
    (h : ∀ l, idleOk now l minIdle (force && !q.forceFix) = b) (hnc : (q.forceFix && force) = false)
    (ids : List Id) : ∀ (s : Group × Times),
    (claimLoopT q c now minIdle force stream s ids).1.1 = (claimLoop c b s.1 ids).1 ∧
    (claimLoopT q c now minIdle force stream s ids).2 = (claimLoop c b s.1 ids).2 := by
  induction ids with
  | nil => intro s; exact ⟨rfl, rfl⟩
  | cons id ids ih =>
    intro s
    have hstep : (claimStepT q c now minIdle force stream s id).1.1 = (claimOne c b s.1 id).1 ∧
        (claimStepT q c now minIdle force stream s id).2 = (claimOne c b s.1 id).2 := by
      unfold claimStepT
      cases hf : pelFind id s.1.byId with
      | some e => simp only [h]; simp
      | none =>
        simp only [hnc, Bool.false_and, Bool.false_eq_true, if_false]
        simp [claimOne, hf]
    simp only [claimLoopT, claimLoop]
    obtain ⟨h1, h2⟩ := ih (claimStepT q c now minIdle force stream s id).1
    rw [h1, h2, hstep.1, hstep.2]
    exact ⟨rfl, rfl⟩

theorem claimStepT_agree (q : Quirks) (c : Name) (now minIdle : Nat) (force : Bool) (stream : List Id)
    (s : Group × Times) (id : Id) (h : Agree s.1) (hc : (alGet c s.1.consumers).isSome) :
    Agree (claimStepT q c now minIdle force stream s id).1.1 ∧
    (alGet c (claimStepT q c now minIdle force stream s id).1.1.consumers).isSome ∧
    (claimStepT q c now minIdle force stream s id).1.1.lastDelivered = s.1.lastDelivered := by
  unfold claimStepT
  cases hf : pelFind id s.1.byId with
  | some e =>
    simp only
    obtain ⟨f1, f2, f3, f4⟩ := claimOne_fields c (idleOk now (lastOf s.2 id) minIdle (force && !q.forceFix)) s.1 id
    exact ⟨{ toAgreeCore := agreeCore_claimOne h.toAgreeCore c _ id hc, total := by rw [f1, f3]; exact h.total },
           f4 hc, f2⟩
  | none =>
    simp only
    split
    · obtain ⟨n, hn⟩ := Option.isSome_iff_exists.mp hc
      exact ⟨agree_addOne h hn (pelFind_none.mp hf), by rw [addOne_consumer c s.1 id hn]; rfl, rfl⟩
    · exact ⟨h, hc, rfl⟩

theorem claimLoopT_agree (q : Quirks) (c : Name) (now minIdle : Nat) (force : Bool) (stream : List Id)
    (ids : List Id) : ∀ (s : Group × Times), Agree s.1 → (alGet c s.1.consumers).isSome →
    Agree (claimLoopT q c now minIdle force stream s ids).1.1 ∧
    (claimLoopT q c now minIdle force stream s ids).1.1.lastDelivered = s.1.lastDelivered := by
  induction ids with
  | nil => intro s h _; exact ⟨h, rfl⟩
  | cons id ids ih =>
    intro s h hc
    simp only [claimLoopT]
    obtain ⟨a1, a2, a3⟩ := claimStepT_agree q c now minIdle force stream s id h hc
    obtain ⟨b1, b2⟩ := ih _ a1 a2
    exact ⟨b1, by rw [b2, a3]⟩

end Ferrous.Grp
