/-
  C15 helper lemmas, part 2: XDEL / XTRIM as filters on sorted lists, and the invariant of every
  history of XADD (auto and explicit), XDEL and XTRIM from the empty stream.
-/
import FerrousSpec.Proofs.StreamRange
set_option linter.unusedSimpArgs false
set_option linter.unusedVariables false
namespace Ferrous.Stream
open Code

/-! ## delete -/

theorem filter_ne_self {es : List Entry} {id : Id} (h : ¬ ∃ x ∈ es, x.1 = id) :
    es.filter (fun x => decide (x.1 ≠ id)) = es := by
  rw [List.filter_eq_self]
  intro x hx
  simp only [ne_eq, decide_eq_true_eq]
  intro heq
  exact h ⟨x, hx, heq⟩

theorem eraseIdx_lowerBound {es : List Entry} (h : Sorted es) {id : Id} (hx : ∃ x ∈ es, x.1 = id) :
    es.eraseIdx (lowerBound es id) = es.filter (fun x => decide (x.1 ≠ id)) := by
  induction es with
  | nil => obtain ⟨x, hx, _⟩ := hx; cases hx
  | cons y r ih =>
    have hy := (sorted_cons.1 h).1
    by_cases h1 : y.1 < id
    · have hne : y.1 ≠ id := by intro heq; rw [heq] at h1; exact Id.lt_irrefl _ h1
      have hx' : ∃ x ∈ r, x.1 = id := by
        obtain ⟨x, hx, hxe⟩ := hx
        rcases List.mem_cons.1 hx with rfl | hx
        · exact absurd hxe hne
        · exact ⟨x, hx, hxe⟩
      simp [lowerBound, h1, hne, ih h.tail hx']
    · by_cases h2 : y.1 = id
      · have : r.filter (fun x => decide (x.1 ≠ id)) = r :=
          filter_ne_self (by
            rintro ⟨x, hx, hxe⟩
            have := hy x hx
            rw [hxe, h2] at this
            exact Id.lt_irrefl _ this)
        have hlb : lowerBound (y :: r) id = 0 := by simp [lowerBound, h1]
        rw [hlb, List.eraseIdx_cons_zero, List.filter_cons, this]
        simp [h2]
      · exfalso
        obtain ⟨x, hx, hxe⟩ := hx
        rcases List.mem_cons.1 hx with rfl | hx
        · exact h2 hxe
        · have := hy x hx
          rw [hxe] at this
          id_omega

/-- one XDEL step on a sorted list removes exactly the entry with that ID, if present -/
theorem deleteOne_fst {es : List Entry} (h : Sorted es) (id : Id) :
    (deleteOne es id).1 = es.filter (fun x => decide (x.1 ≠ id)) := by
  unfold deleteOne
  rcases hb : bsearch es id with ⟨found, i⟩
  have hi : i = lowerBound es id := by rw [← bsearch_snd, hb]
  have hf := bsearch_found_iff h id
  rw [hb] at hf
  cases found with
  | true => simp only; rw [hi]; exact eraseIdx_lowerBound h (hf.1 rfl)
  | false =>
    simp only
    exact (filter_ne_self (fun hx => by have := hf.2 hx; cases this)).symm

theorem deleteOne_sublist (es : List Entry) (id : Id) : (deleteOne es id).1.Sublist es := by
  unfold deleteOne
  rcases bsearch es id with ⟨found, i⟩
  cases found
  · exact List.Sublist.refl _
  · exact List.eraseIdx_sublist _ _

/-- the count returned is the number of entries removed (no sortedness needed) -/
theorem deleteOne_length (es : List Entry) (id : Id) :
    (deleteOne es id).1.length + (deleteOne es id).2 = es.length := by
  unfold deleteOne
  rcases hb : bsearch es id with ⟨found, i⟩
  cases found with
  | false => simp
  | true =>
    have := (bsearch_fst es id).1 (by rw [hb])
    obtain ⟨x, hx, _⟩ := this
    have hi : i = lowerBound es id := by rw [← bsearch_snd, hb]
    have hlt : i < es.length := by
      rw [← hi] at hx
      rcases Nat.lt_or_ge i es.length with h' | h'
      · exact h'
      · rw [List.getElem?_eq_none h'] at hx; cases hx
    simp only [List.length_eraseIdx, hlt, if_true]
    omega

def delStep (acc : List Entry × Nat) (id : Id) : List Entry × Nat :=
  ((deleteOne acc.1 id).1, acc.2 + (deleteOne acc.1 id).2)

theorem deleteIds_def (es : List Entry) (ids : List Id) :
    deleteIds es ids = (dedupIds (sortIds ids)).reverse.foldl delStep (es, 0) := rfl

theorem delFold_fst {es : List Entry} (h : Sorted es) (l : List Id) (n : Nat) :
    (l.foldl delStep (es, n)).1 = es.filter (fun x => !(l.contains x.1)) := by
  induction l generalizing es n with
  | nil => simp only [List.foldl_nil]; exact (List.filter_eq_self.2 (by simp)).symm
  | cons id l ih =>
    simp only [List.foldl_cons, delStep]
    have hs : Sorted (deleteOne es id).1 := h.sublist (deleteOne_sublist es id)
    have := ih hs (n + (deleteOne es id).2)
    rw [this, deleteOne_fst h, List.filter_filter]
    apply List.filter_congr
    intro x hx
    simp only [List.contains_cons, ne_eq, Bool.not_or, Bool.and_comm]
    congr 1
    by_cases hxe : x.1 = id <;> simp [hxe]

theorem delFold_sublist (es : List Entry) (l : List Id) (n : Nat) :
    (l.foldl delStep (es, n)).1.Sublist es := by
  induction l generalizing es n with
  | nil => exact List.Sublist.refl _
  | cons id l ih =>
    simp only [List.foldl_cons, delStep]
    exact (ih _ _).trans (deleteOne_sublist es id)

theorem delFold_length (es : List Entry) (l : List Id) (n : Nat) :
    (l.foldl delStep (es, n)).1.length + (l.foldl delStep (es, n)).2 = es.length + n := by
  induction l generalizing es n with
  | nil => simp
  | cons id l ih =>
    simp only [List.foldl_cons, delStep]
    have := ih (deleteOne es id).1 (n + (deleteOne es id).2)
    have h2 := deleteOne_length es id
    omega

theorem mem_insertId (a b : Id) (l : List Id) : a ∈ insertId b l ↔ a = b ∨ a ∈ l := by
  induction l with
  | nil => simp [insertId]
  | cons c r ih =>
    unfold insertId
    split
    · simp
    · simp [ih]; constructor <;> (intro h; rcases h with h | h | h <;> simp [h])

theorem mem_sortIds (a : Id) (l : List Id) : a ∈ sortIds l ↔ a ∈ l := by
  induction l with
  | nil => simp [sortIds]
  | cons b r ih =>
    have : sortIds (b :: r) = insertId b (sortIds r) := rfl
    rw [this, mem_insertId, ih]; simp

theorem mem_dedupIds (a : Id) : ∀ l : List Id, a ∈ dedupIds l ↔ a ∈ l
  | [] => by simp [dedupIds]
  | [x] => by simp [dedupIds]
  | x :: y :: r => by
    have ih := mem_dedupIds a (y :: r)
    rw [dedupIds]
    split
    · rename_i hxy; rw [ih, hxy]; simp
    · simp only [List.mem_cons] at ih ⊢; rw [ih]

theorem deleteIds_fst {es : List Entry} (h : Sorted es) (ids : List Id) :
    (deleteIds es ids).1 = Spec.del es ids := by
  rw [deleteIds_def, delFold_fst h]
  unfold Spec.del
  apply List.filter_congr
  intro x hx
  congr 1
  rw [Bool.eq_iff_iff]
  simp only [List.contains_iff_mem, List.mem_reverse, mem_dedupIds, mem_sortIds]

theorem deleteIds_sublist (es : List Entry) (ids : List Id) : (deleteIds es ids).1.Sublist es := by
  rw [deleteIds_def]; exact delFold_sublist _ _ _

theorem deleteIds_length (es : List Entry) (ids : List Id) :
    (deleteIds es ids).1.length + (deleteIds es ids).2 = es.length := by
  rw [deleteIds_def]
  have := delFold_length es (dedupIds (sortIds ids)).reverse 0
  simpa only [Nat.add_zero] using this

/-! ## trim -/

theorem trimByCount_entries (s : Code.Stream) (n : Nat) :
    (trimByCount s n).1.entries = Spec.trimCount s.entries n := by
  unfold trimByCount Spec.trimCount
  split
  · rename_i h
    have : s.entries.length - n = 0 := by omega
    simp [this]
  · rfl

theorem trimByCount_count (s : Code.Stream) (n : Nat) :
    (trimByCount s n).2 = s.entries.length - n := by
  unfold trimByCount
  split
  · rename_i h; simp; omega
  · rfl

theorem trimByMinId_entries (s : Code.Stream) (h : Sorted s.entries) (m : Id) :
    (trimByMinId s m).1.entries = Spec.trimMinId s.entries m := by
  unfold trimByMinId Spec.trimMinId
  simp only [bsearch_snd]
  rw [← drop_lowerBound h]
  split
  · rename_i hk; rw [hk]; rfl
  · rfl

/-! ## the history invariant -/

structure Inv (r : Run) : Prop where
  /-- the three copies of the last ID agree -/
  last : r.st.lastId = ⟨r.st.atomMs, r.st.atomSeq⟩
  /-- `last_id` bounds every ID ever added … -/
  bound : ∀ e ∈ r.added, e.1 ≤ r.st.lastId
  /-- … and is the last of them (0-0 before the first XADD) -/
  lastMem : r.added ≠ [] → ∃ e ∈ r.added, e.1 = r.st.lastId
  lastZero : r.added = [] → r.st.lastId = Id.zero
  /-- accepted IDs strictly increase -/
  incr : Sorted r.added
  /-- the present entries are a sub-sequence of the accepted XADDs (same fields, same order) -/
  sub : r.st.entries.Sublist r.added
  /-- the atomic counter XLEN reads is the number of present entries -/
  len : r.st.length = r.st.entries.length

theorem Inv.sorted {r : Run} (h : Inv r) : Sorted r.st.entries := h.incr.sublist h.sub

theorem inv_init : Inv Run.init := by
  constructor <;> simp [Run.init, Stream.new, Sorted, Id.zero]

/-- the push both XADD paths perform -/
def push (s : Code.Stream) (id : Id) (f : Fields) : Code.Stream :=
  { entries := s.entries ++ [(id, f)], lastId := id, atomMs := id.ms, atomSeq := id.seq, length := s.length + 1 }

/-- appending an entry whose ID exceeds `last_id` and making it the last ID keeps the invariant -/
theorem inv_push {r : Run} (h : Inv r) (id : Id) (f : Fields) (w : Bool) (hgt : r.st.lastId < id) :
    Inv ⟨push r.st id f, r.added ++ [(id, f)], w⟩ := by
  constructor
  · simp [push]
  · intro e he
    simp only [List.mem_append, List.mem_singleton] at he
    rcases he with he | rfl
    · exact Id.le_of_lt (Id.lt_of_le_of_lt (h.bound e he) hgt)
    · exact Id.le_refl _
  · intro _; exact ⟨(id, f), by simp, rfl⟩
  · intro hnil; simp at hnil
  · show List.Pairwise _ _
    rw [List.pairwise_append]
    refine ⟨h.incr, by simp, ?_⟩
    intro a ha b hb
    simp only [List.mem_singleton] at hb
    rw [hb]
    exact Id.lt_of_le_of_lt (h.bound a ha) hgt
  · exact List.Sublist.append h.sub (List.Sublist.refl _)
  · simp [push, h.len]

theorem inv_same {r : Run} (h : Inv r) (w : Bool) : Inv ⟨r.st, r.added, w⟩ :=
  ⟨h.last, h.bound, h.lastMem, h.lastZero, h.incr, h.sub, h.len⟩

/-- the three outcomes of `add_with_id` -/
theorem addWithId_cases (id : Id) (f : Fields) (s : Code.Stream) :
    (id ≤ s.lastId ∧ addWithId id f s = (s, false)) ∨
    (s.lastId < id ∧ (bsearch s.entries id).1 = true ∧ addWithId id f s = (s, false)) ∨
    (s.lastId < id ∧ (bsearch s.entries id).1 = false ∧ addWithId id f s = (push s id f, true)) := by
  unfold addWithId
  by_cases h1 : id ≤ s.lastId
  · left; simp [h1]
  · right
    have h1' := Id.not_le.1 h1
    by_cases h2 : (bsearch s.entries id).1 = true
    · left; simp [h1, h2, h1']
    · right; simp [h1, h2, h1', push]

/-- the outcomes of `generate_next_atomic` -/
theorem nextAuto_cases (q : Quirks) (now : Nat) (s : Code.Stream) :
    (now > s.atomMs ∧ nextAuto q now s = some (⟨now, 0⟩, now, 0)) ∨
    (now ≤ s.atomMs ∧ q.seqCarry = true ∧ s.atomSeq + 1 ≥ u64Mod ∧ s.atomMs + 1 ≥ u64Mod ∧
        nextAuto q now s = some (⟨s.atomMs, u64Max⟩, s.atomMs, s.atomSeq)) ∨
    (now ≤ s.atomMs ∧ q.seqCarry = true ∧ s.atomSeq + 1 ≥ u64Mod ∧ s.atomMs + 1 < u64Mod ∧
        nextAuto q now s = some (⟨s.atomMs + 1, 0⟩, s.atomMs + 1, 0)) ∨
    (now ≤ s.atomMs ∧ (q.seqCarry = false ∨ s.atomSeq + 1 < u64Mod) ∧
        nextAuto q now s = some (⟨s.atomMs, (s.atomSeq + 1) % u64Mod⟩, s.atomMs, (s.atomSeq + 1) % u64Mod)) := by
  unfold nextAuto
  by_cases h1 : now > s.atomMs
  · left; simp [h1]
  · right
    have h1' : now ≤ s.atomMs := by omega
    by_cases h2 : q.seqCarry = true
    · by_cases h3 : s.atomSeq + 1 ≥ u64Mod
      · by_cases h4 : s.atomMs + 1 ≥ u64Mod
        · left; simp [h1, h2, h3, h4, h1']
        · right; left; simp [h1, h2, h3, h4, h1']; omega
      · right; right; simp [h1, h2, h3, h1']; omega
    · right; right
      have h2' : q.seqCarry = false := by cases hq : q.seqCarry <;> simp_all
      simp [h1, h2', h1']

/-- whenever `generate_next_atomic` yields an ID outside the wrap situation (and, for the repaired
    generator, not at the top of the ID space, which the engine refuses beforehand), it exceeds the
    last ID and the atomics are left equal to it -/
theorem nextAuto_gt (q : Quirks) (now : Nat) (s : Code.Stream) (hl : s.lastId = ⟨s.atomMs, s.atomSeq⟩)
    (hw : q.seqCarry = true ∨ wrapsAt now s = false)
    (hnt : ¬ (q.seqCarry = true ∧ isTopId s.lastId = true)) (id : Id) (ms sq : Nat)
    (hn : nextAuto q now s = some (id, ms, sq)) : s.lastId < id ∧ ms = id.ms ∧ sq = id.seq := by
  rcases nextAuto_cases q now s with ⟨h1, h⟩ | ⟨h1, h2, h3, h4, h⟩ | ⟨h1, h2, h3, h4, h⟩ | ⟨h1, h2, h⟩
  · rw [h] at hn
    simp only [Option.some.injEq, Prod.mk.injEq] at hn
    obtain ⟨rfl, rfl, rfl⟩ := hn
    rw [hl]; refine ⟨?_, rfl, rfl⟩
    simp only [Id.lt_def]; omega
  · exfalso
    apply hnt
    refine ⟨h2, ?_⟩
    rw [hl]
    simp only [isTopId, Bool.and_eq_true, decide_eq_true_eq]
    exact ⟨h4, h3⟩
  · rw [h] at hn
    simp only [Option.some.injEq, Prod.mk.injEq] at hn
    obtain ⟨rfl, rfl, rfl⟩ := hn
    rw [hl]; refine ⟨?_, rfl, rfl⟩
    simp only [Id.lt_def]; omega
  · rw [h] at hn
    simp only [Option.some.injEq, Prod.mk.injEq] at hn
    obtain ⟨rfl, rfl, rfl⟩ := hn
    rw [hl]; refine ⟨?_, rfl, rfl⟩
    have hsmall : s.atomSeq + 1 < u64Mod := by
      rcases h2 with h2 | h2
      · rcases hw with hw | hw
        · rw [hw] at h2; cases h2
        · simp only [wrapsAt, Bool.and_eq_false_iff, decide_eq_false_iff_not] at hw
          rcases hw with hw | hw <;> omega
      · exact h2
    rw [Nat.mod_eq_of_lt hsmall]
    simp only [Id.lt_def, true_and]; omega

/-- the engine's pre-check: refusal, or `add_auto` away from the top -/
theorem xaddAuto_cases (q : Quirks) (now : Nat) (f : Fields) (s : Code.Stream) :
    (q.seqCarry = true ∧ isTopId s.lastId = true ∧ xaddAuto q now f s = (s, none)) ∨
    (¬ (q.seqCarry = true ∧ isTopId s.lastId = true) ∧ xaddAuto q now f s = addAuto q now f s) := by
  unfold xaddAuto
  by_cases h : q.seqCarry = true ∧ isTopId s.lastId = true
  · left; exact ⟨h.1, h.2, by simp [h.1, h.2]⟩
  · right; refine ⟨h, ?_⟩
    rw [if_neg]; simpa using h

theorem step_wrapped_mono (q : Quirks) (r : Run) (op : Op) (h : r.wrapped = true) : (step q r op).wrapped = true := by
  cases op with
  | addAuto now f =>
    simp only [step]
    cases xaddAuto q now f r.st with
    | mk st' o => cases o <;> simp [h]
  | addId id f =>
    simp only [step]
    cases addWithId id f r.st with
    | mk st' b => cases b <;> simp [h]
  | del ids => exact h
  | trimCount n => exact h
  | trimMinId m => exact h

theorem foldl_wrapped_mono (q : Quirks) (ops : List Op) (r : Run) (h : r.wrapped = true) :
    (ops.foldl (step q) r).wrapped = true := by
  induction ops generalizing r with
  | nil => exact h
  | cons op ops ih => exact ih _ (step_wrapped_mono q r op h)

theorem step_addAuto_wrapped (q : Quirks) (r : Run) (now : Nat) (f : Fields) :
    (step q r (.addAuto now f)).wrapped = (r.wrapped || wrapsAt now r.st) := by
  simp only [step]
  cases xaddAuto q now f r.st with
  | mk st' o => cases o <;> rfl

theorem step_inv (q : Quirks) (r : Run) (op : Op) (h : Inv r)
    (hw : q.seqCarry = true ∨ (step q r op).wrapped = false) : Inv (step q r op) := by
  cases op with
  | addAuto now f =>
    have hw' : q.seqCarry = true ∨ wrapsAt now r.st = false := by
      rcases hw with hw | hw
      · exact Or.inl hw
      · right
        rw [step_addAuto_wrapped, Bool.or_eq_false_iff] at hw
        exact hw.2
    simp only [step]
    rcases xaddAuto_cases q now f r.st with ⟨_, _, he⟩ | ⟨hnt, he⟩
    · rw [he]; exact inv_same h _
    · rw [he]
      simp only [addAuto]
      cases hn : nextAuto q now r.st with
      | none => exact inv_same h _
      | some p =>
        obtain ⟨id, ms, sq⟩ := p
        obtain ⟨hgt, rfl, rfl⟩ := nextAuto_gt q now r.st h.last hw' hnt id ms sq hn
        exact inv_push h id f _ hgt
  | addId id f =>
    simp only [step]
    rcases addWithId_cases id f r.st with ⟨_, he⟩ | ⟨_, _, he⟩ | ⟨hgt, _, he⟩
    · rw [he]; exact inv_same h _
    · rw [he]; exact inv_same h _
    · rw [he]; exact inv_push h id f _ hgt
  | del ids =>
    simp only [step, Code.delete]
    have hl := deleteIds_length r.st.entries ids
    refine ⟨h.last, h.bound, h.lastMem, h.lastZero, h.incr, (deleteIds_sublist _ _).trans h.sub, ?_⟩
    simp only [h.len]; omega
  | trimCount n =>
    simp only [step, trimByCount]
    split
    · exact inv_same h _
    · refine ⟨h.last, h.bound, h.lastMem, h.lastZero, h.incr, (List.drop_sublist _ _).trans h.sub, ?_⟩
      simp [h.len]
  | trimMinId m =>
    simp only [step, trimByMinId]
    split
    · exact inv_same h _
    · refine ⟨h.last, h.bound, h.lastMem, h.lastZero, h.incr, (List.drop_sublist _ _).trans h.sub, ?_⟩
      simp [h.len]

theorem foldl_inv (q : Quirks) (ops : List Op) (r : Run) (h : Inv r)
    (hw : q.seqCarry = true ∨ (ops.foldl (step q) r).wrapped = false) : Inv (ops.foldl (step q) r) := by
  induction ops generalizing r with
  | nil => exact h
  | cons op ops ih =>
    simp only [List.foldl_cons] at hw ⊢
    apply ih _ _ hw
    apply step_inv q r op h
    rcases hw with hw | hw
    · exact Or.inl hw
    · right
      cases hs : (step q r op).wrapped with
      | false => rfl
      | true => rw [foldl_wrapped_mono q ops _ hs] at hw; cases hw

theorem run_inv (q : Quirks) (ops : List Op) (hw : q.seqCarry = true ∨ (run q ops).wrapped = false) :
    Inv (run q ops) := foldl_inv q ops _ inv_init hw

/-! ### XLEN needs no hypothesis at all -/

theorem step_len (q : Quirks) (r : Run) (op : Op) (h : r.st.length = r.st.entries.length) :
    (step q r op).st.length = (step q r op).st.entries.length := by
  cases op with
  | addAuto now f =>
    simp only [step]
    rcases xaddAuto_cases q now f r.st with ⟨_, _, he⟩ | ⟨_, he⟩
    · rw [he]; exact h
    · rw [he]
      simp only [addAuto]
      cases nextAuto q now r.st with
      | none => exact h
      | some p => obtain ⟨id, ms, sq⟩ := p; simp [h]
  | addId id f =>
    simp only [step]
    rcases addWithId_cases id f r.st with ⟨_, he⟩ | ⟨_, _, he⟩ | ⟨hgt, _, he⟩
    · rw [he]; exact h
    · rw [he]; exact h
    · rw [he]; simp [push, h]
  | del ids =>
    simp only [step, Code.delete]
    have hl := deleteIds_length r.st.entries ids
    simp only [h]; omega
  | trimCount n =>
    simp only [step, trimByCount]
    split
    · exact h
    · simp [h]
  | trimMinId m =>
    simp only [step, trimByMinId]
    split
    · exact h
    · simp [h]

theorem foldl_len (q : Quirks) (ops : List Op) (r : Run) (h : r.st.length = r.st.entries.length) :
    (ops.foldl (step q) r).st.length = (ops.foldl (step q) r).st.entries.length := by
  induction ops generalizing r with
  | nil => exact h
  | cons op ops ih => exact ih _ (step_len q r op h)

/-! ### a wrap needs a sequence number at the top of the u64 range -/

/-- explicit IDs of a history stay `slack` away from the top sequence number -/
def seqRoom (slack : Nat) : Op → Prop
  | .addId id _ => id.seq + slack < u64Mod
  | _ => True

theorem step_seq_room (q : Quirks) (r : Run) (op : Op) (k : Nat)
    (hk : r.st.atomSeq + (k + 1) < u64Mod) (hop : seqRoom (k + 1) op) :
    (step q r op).st.atomSeq + k < u64Mod ∧ ((step q r op).wrapped = r.wrapped) := by
  cases op with
  | addAuto now f =>
    have hnw : wrapsAt now r.st = false := by
      simp only [wrapsAt, Bool.and_eq_false_iff, decide_eq_false_iff_not]; right; omega
    refine ⟨?_, by rw [step_addAuto_wrapped, hnw, Bool.or_false]⟩
    simp only [step]
    rcases xaddAuto_cases q now f r.st with ⟨_, _, he⟩ | ⟨_, he⟩
    · rw [he]; simp only; omega
    · rw [he]
      simp only [addAuto]
      rcases nextAuto_cases q now r.st with ⟨h1, h⟩ | ⟨h1, h2, h3, h4, h⟩ | ⟨h1, h2, h3, h4, h⟩ | ⟨h1, h2, h⟩
      · rw [h]; simp only [u64Mod] at *; omega
      · omega
      · omega
      · rw [h, Nat.mod_eq_of_lt (by omega)]; simp only; omega
  | addId id f =>
    simp only [step]
    simp only [seqRoom] at hop
    rcases addWithId_cases id f r.st with ⟨_, he⟩ | ⟨_, _, he⟩ | ⟨hgt, _, he⟩
    · rw [he]; exact ⟨by simp only; omega, rfl⟩
    · rw [he]; exact ⟨by simp only; omega, rfl⟩
    · rw [he]; exact ⟨by simp only [push]; omega, rfl⟩
  | del ids => simp only [step, Code.delete, and_true]; omega
  | trimCount n =>
    simp only [step, trimByCount]
    split <;> simp only [and_true] <;> omega
  | trimMinId m =>
    simp only [step, trimByMinId]
    split <;> simp only [and_true] <;> omega

theorem foldl_no_wrap (q : Quirks) (ops : List Op) (r : Run)
    (hk : r.st.atomSeq + ops.length < u64Mod) (hops : ∀ op ∈ ops, seqRoom ops.length op) :
    (ops.foldl (step q) r).wrapped = r.wrapped := by
  induction ops generalizing r with
  | nil => rfl
  | cons op ops ih =>
    simp only [List.foldl_cons, List.length_cons] at hk hops ⊢
    have h1 := step_seq_room q r op ops.length (by omega) (hops op (by simp))
    rw [ih _ h1.1, h1.2]
    intro op' hop'
    have := hops op' (List.mem_cons_of_mem _ hop')
    cases op' <;> simp only [seqRoom] at this ⊢ <;> omega

end Ferrous.Stream
