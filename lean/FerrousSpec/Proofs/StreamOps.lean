/-
  C15 helper lemmas, part 2: XDEL / XTRIM as filters on sorted lists, and the invariant of every
  history of XADD (auto and explicit), XDEL and XTRIM from the empty stream.
-/
import FerrousSpec.Proofs.StreamRange
set_option linter.unusedSimpArgs false
set_option linter.unusedVariables false
namespace Ferrous.Stream
open Code

/-! ## delete -/

theorem filter_ne_self {es : List Entry} {id : Id} (h : ¬ ∃ x ∈ es, x.1 = id) :
    es.filter (fun x => decide (x.1 ≠ id)) = es := by
  rw [List.filter_eq_self]
  intro x hx
  simp only [ne_eq, decide_eq_true_eq]
  intro heq
  exact h ⟨x, hx, heq⟩

theorem eraseIdx_lowerBound {es : List Entry} (h : Sorted es) {id : Id} (hx : ∃ x ∈ es, x.1 = id) :
    es.eraseIdx (lowerBound es id) = es.filter (fun x => decide (x.1 ≠ id)) := by
  induction es with
  | nil => obtain ⟨x, hx, _⟩ := hx; cases hx
  | cons y r ih =>
    have hy := (sorted_cons.1 h).1
    by_cases h1 : y.1 < id
    · have hne : y.1 ≠ id := by intro heq; rw [heq] at h1; exact Id.lt_irrefl _ h1
      have hx' : ∃ x ∈ r, x.1 = id := by
        obtain ⟨x, hx, hxe⟩ := hx
        rcases List.mem_cons.1 hx with rfl | hx
        · exact absurd hxe hne
        · exact ⟨x, hx, hxe⟩
      simp [lowerBound, h1, hne, ih h.tail hx']
    · by_cases h2 : y.1 = id
      · have : r.filter (fun x => decide (x.1 ≠ id)) = r :=
          filter_ne_self (by
            rintro ⟨x, hx, hxe⟩
            have := hy x hx
            rw [hxe, h2] at this
            exact Id.lt_irrefl _ this)
        have hlb : lowerBound (y :: r) id = 0 := by simp [lowerBound, h1]
        rw [hlb, List.eraseIdx_cons_zero, List.filter_cons, this]
        simp [h2]
      · exfalso
        obtain ⟨x, hx, hxe⟩ := hx
        rcases List.mem_cons.1 hx with rfl | hx
        · exact h2 hxe
        · have := hy x hx
          rw [hxe] at this
          id_omega

/-- one XDEL step on a sorted list removes exactly the entry with that ID, if present -/
theorem deleteOne_fst {es : List Entry} (h : Sorted es) (id : Id) :
    (deleteOne es id).1 = es.filter (fun x => decide (x.1 ≠ id)) := by
  unfold deleteOne
  rcases hb : bsearch es id with ⟨found, i⟩
  have hi : i = lowerBound es id := by rw [← bsearch_snd, hb]
  have hf := bsearch_found_iff h id
  rw [hb] at hf
  cases found with
  | true => simp only; rw [hi]; exact eraseIdx_lowerBound h (hf.1 rfl)
  | false =>
    simp only
    exact (filter_ne_self (fun hx => by have := hf.2 hx; cases this)).symm

theorem deleteOne_sublist (es : List Entry) (id : Id) : (deleteOne es id).1.Sublist es := by
  unfold deleteOne
  rcases bsearch es id with ⟨found, i⟩
  cases found
  · exact List.Sublist.refl _
  · exact List.eraseIdx_sublist _ _

/-- the count returned is the number of entries removed (no sortedness needed) -/
theorem deleteOne_length (es : List Entry) (id : Id) :
    (deleteOne es id).1.length + (deleteOne es id).2 = es.length := by
  unfold deleteOne
  rcases hb : bsearch es id with ⟨found, i⟩
  cases found with
  | false => simp
  | true =>
    have := (bsearch_fst es id).1 (by rw [hb])
    obtain ⟨x, hx, _⟩ := this
    have hi : i = lowerBound es id := by rw [← bsearch_snd, hb]
    have hlt : i < es.length := by
      rw [← hi] at hx
      rcases Nat.lt_or_ge i es.length with h' | h'
      · exact h'
      · rw [List.getElem?_eq_none h'] at hx; cases hx
    simp only [List.length_eraseIdx, hlt, if_true]
    omega

def delStep (acc : List Entry × Nat) (id : Id) : List Entry × Nat :=
  ((deleteOne acc.1 id).1, acc.2 + (deleteOne acc.1 id).2)

theorem deleteIds_def (es : List Entry) (ids : List Id) :
    deleteIds es ids = (dedupIds (sortIds ids)).reverse.foldl delStep (es, 0) := rfl

theorem delFold_fst {es : List Entry} (h : Sorted es) (l : List Id) (n : Nat) :
    (l.foldl delStep (es, n)).1 = es.filter (fun x => !(l.contains x.1)) := by
  induction l generalizing es n with
  | nil => simp only [List.foldl_nil]; exact (List.filter_eq_self.2 (by simp)).symm
  | cons id l ih =>
    simp only [List.foldl_cons, delStep]
    have hs : Sorted (deleteOne es id).1 := h.sublist (deleteOne_sublist es id)
    have := ih hs (n + (deleteOne es id).2)
    rw [this, deleteOne_fst h, List.filter_filter]
    apply List.filter_congr
    intro x hx
    simp only [List.contains_cons, ne_eq, Bool.not_or, Bool.and_comm]
    congr 1
    by_cases hxe : x.1 = id <;> simp [hxe]

theorem delFold_sublist (es : List Entry) (l : List Id) (n : Nat) :
    (l.foldl delStep (es, n)).1.Sublist es := by
  induction l generalizing es n with
  | nil => exact List.Sublist.refl _
  | cons id l ih =>
    simp only [List.foldl_cons, delStep]
    exact (ih _ _).trans (deleteOne_sublist es id)

theorem delFold_length (es : List Entry) (l : List Id) (n : Nat) :
    (l.foldl delStep (es, n)).1.length + (l.foldl delStep (es, n)).2 = es.length + n := by
  induction l generalizing es n with
  | nil => simp
  | cons id l ih =>
    simp only [List.foldl_cons, delStep]
    have := ih (deleteOne es id).1 (n + (deleteOne es id).2)
    have h2 := deleteOne_length es id
    omega

theorem mem_insertId (a b : Id) (l : List Id) : a ∈ insertId b l ↔ a = b ∨ a ∈ l := by
  induction l with
  | nil => simp [insertId]
  | cons c r ih =>
    unfold insertId
    split
    · simp
    · simp [ih]; constructor <;> (intro h; rcases h with h | h | h <;> simp [h])

theorem mem_sortIds (a : Id) (l : List Id) : a ∈ sortIds l ↔ a ∈ l := by
  induction l with
  | nil => simp [sortIds]
  | cons b r ih =>
    have : sortIds (b :: r) = insertId b (sortIds r) := rfl
    rw [this, mem_insertId, ih]; simp

theorem mem_dedupIds (a : Id) : ∀ l : List Id, a ∈ dedupIds l ↔ a ∈ l
  | [] => by simp [dedupIds]
  | [x] => by simp [dedupIds]
  | x :: y :: r => by
    have ih := mem_dedupIds a (y :: r)
    rw [dedupIds]
    split
    · rename_i hxy; rw [ih, hxy]; simp
    · simp only [List.mem_cons] at ih ⊢; rw [ih]

theorem deleteIds_fst {es : List Entry} (h : Sorted es) (ids : List Id) :
    (deleteIds es ids).1 = Spec.del es ids := by
  rw [deleteIds_def, delFold_fst h]
  unfold Spec.del
  apply List.filter_congr
  intro x hx
  congr 1
  rw [Bool.eq_iff_iff]
  simp only [List.contains_iff_mem, List.mem_reverse, mem_dedupIds, mem_sortIds]

theorem deleteIds_sublist (es : List Entry) (ids : List Id) : (deleteIds es ids).1.Sublist es := by
  rw [deleteIds_def]; exact delFold_sublist _ _ _

theorem deleteIds_length (es : List Entry) (ids : List Id) :
    (deleteIds es ids).1.length + (deleteIds es ids).2 = es.length := by
  rw [deleteIds_def]
  have := delFold_length es (dedupIds (sortIds ids)).reverse 0
  simpa only [Nat.add_zero] using this

/-! ## trim -/

theorem trimByCount_entries (s : Code.Stream) (n : Nat) :
    (trimByCount s n).1.entries = Spec.trimCount s.entries n := by
  unfold trimByCount Spec.trimCount
  split
  · rename_i h
    have : s.entries.length - n = 0 := by omega
    simp [this]
  · rfl

theorem trimByCount_count (s : Code.Stream) (n : Nat) :
    (trimByCount s n).2 = s.entries.length - n := by
  unfold trimByCount
  split
  · rename_i h; simp; omega
  · rfl

theorem trimByMinId_entries (s : Code.Stream) (h : Sorted s.entries) (m : Id) :
    (trimByMinId s m).1.entries = Spec.trimMinId s.entries m := by
  unfold trimByMinId Spec.trimMinId
  simp only [bsearch_snd]
  rw [← drop_lowerBound h]
  split
  · rename_i hk; rw [hk]; rfl
  · rfl

/-! ## the history invariant -/

structure Inv (r : Run) : Prop where
  /-- the three copies of the last ID agree -/
  last : r.st.lastId = ⟨r.st.atomMs, r.st.atomSeq⟩
  /-- `last_id` bounds every ID ever added … -/
  bound : ∀ e ∈ r.added, e.1 ≤ r.st.lastId
  /-- … and is the last of them (0-0 before the first XADD) -/
  lastMem : r.added ≠ [] → ∃ e ∈ r.added, e.1 = r.st.lastId
  lastZero : r.added = [] → r.st.lastId = Id.zero
  /-- accepted IDs strictly increase -/
  incr : Sorted r.added
  /-- the present entries are a sub-sequence of the accepted XADDs (same fields, same order) -/
  sub : r.st.entries.Sublist r.added
  /-- the atomic counter XLEN reads is the number of present entries -/
  len : r.st.length = r.st.entries.length
  /-- no accepted ID is 0-0 -/
  pos : ∀ e ∈ r.added, Id.zero < e.1

theorem Inv.sorted {r : Run} (h : Inv r) : Sorted r.st.entries := h.incr.sublist h.sub

theorem inv_init : Inv Run.init := by
  constructor <;> simp [Run.init, Stream.new, Sorted, Id.zero]

/-- the push both XADD paths perform -/
def push (s : Code.Stream) (id : Id) (f : Fields) : Code.Stream :=
  { entries := s.entries ++ [(id, f)], lastId := id, atomMs := id.ms, atomSeq := id.seq, length := s.length + 1 }

/-- appending an entry whose ID exceeds `last_id` and making it the last ID keeps the invariant -/
theorem inv_push {r : Run} (h : Inv r) (id : Id) (f : Fields) (w l : Bool) (hgt : r.st.lastId < id) :
    Inv ⟨push r.st id f, r.added ++ [(id, f)], w, l⟩ := by
  constructor
  · simp [push]
  · intro e he
    simp only [List.mem_append, List.mem_singleton] at he
    rcases he with he | rfl
    · exact Id.le_of_lt (Id.lt_of_le_of_lt (h.bound e he) hgt)
    · exact Id.le_refl _
  · intro _; exact ⟨(id, f), by simp, rfl⟩
  · intro hnil; simp at hnil
  · show List.Pairwise _ _
    rw [List.pairwise_append]
    refine ⟨h.incr, by simp, ?_⟩
    intro a ha b hb
    simp only [List.mem_singleton] at hb
    rw [hb]
    exact Id.lt_of_le_of_lt (h.bound a ha) hgt
  · exact List.Sublist.append h.sub (List.Sublist.refl _)
  · simp [push, h.len]
  · intro e he
    simp only [List.mem_append, List.mem_singleton] at he
    rcases he with he | rfl
    · exact h.pos e he
    · exact Id.lt_of_le_of_lt (Id.zero_le _) hgt

theorem inv_same {r : Run} (h : Inv r) (w l : Bool) : Inv ⟨r.st, r.added, w, l⟩ :=
  ⟨h.last, h.bound, h.lastMem, h.lastZero, h.incr, h.sub, h.len, h.pos⟩

/-- removing entries (and adjusting the counter) keeps the invariant -/
theorem inv_shrink {r : Run} (h : Inv r) (es : List Entry) (n : Nat) (w l : Bool)
    (hs : es.Sublist r.st.entries) (hn : n = es.length) :
    Inv ⟨{ r.st with entries := es, length := n }, r.added, w, l⟩ :=
  ⟨h.last, h.bound, h.lastMem, h.lastZero, h.incr, hs.trans h.sub, hn, h.pos⟩

theorem addWithId_cases (id : Id) (f : Fields) (s : Code.Stream) :
    (id ≤ s.lastId ∧ addWithId id f s = (s, false)) ∨
    (s.lastId < id ∧ (bsearch s.entries id).1 = true ∧ addWithId id f s = (s, false)) ∨
    (s.lastId < id ∧ (bsearch s.entries id).1 = false ∧ addWithId id f s = (push s id f, true)) := by
  unfold addWithId
  by_cases h1 : id ≤ s.lastId
  · left; simp [h1]
  · right
    have h1' := Id.not_le.1 h1
    by_cases h2 : (bsearch s.entries id).1 = true
    · left; simp [h1, h2, h1']
    · right; simp [h1, h2, h1', push]

/-- the outcomes of `generate_next_atomic` -/
theorem nextAuto_cases (q : Quirks) (now : Nat) (s : Code.Stream) :
    (now > s.atomMs ∧ nextAuto q now s = some (⟨now, 0⟩, now, 0)) ∨
    (now ≤ s.atomMs ∧ q.seqCarry = true ∧ s.atomSeq + 1 ≥ u64Mod ∧ s.atomMs + 1 ≥ u64Mod ∧
        nextAuto q now s = some (⟨s.atomMs, u64Max⟩, s.atomMs, s.atomSeq)) ∨
    (now ≤ s.atomMs ∧ q.seqCarry = true ∧ s.atomSeq + 1 ≥ u64Mod ∧ s.atomMs + 1 < u64Mod ∧
        nextAuto q now s = some (⟨s.atomMs + 1, 0⟩, s.atomMs + 1, 0)) ∨
    (now ≤ s.atomMs ∧ (q.seqCarry = false ∨ s.atomSeq + 1 < u64Mod) ∧
        nextAuto q now s = some (⟨s.atomMs, (s.atomSeq + 1) % u64Mod⟩, s.atomMs, (s.atomSeq + 1) % u64Mod)) := by
  unfold nextAuto
  by_cases h1 : now > s.atomMs
  · left; simp [h1]
  · right
    have h1' : now ≤ s.atomMs := by omega
    by_cases h2 : q.seqCarry = true
    · by_cases h3 : s.atomSeq + 1 ≥ u64Mod
      · by_cases h4 : s.atomMs + 1 ≥ u64Mod
        · left; simp [h1, h2, h3, h4, h1']
        · right; left; simp [h1, h2, h3, h4, h1']; omega
      · right; right; simp [h1, h2, h3, h1']; omega
    · right; right
      have h2' : q.seqCarry = false := by cases hq : q.seqCarry <;> simp_all
      simp [h1, h2', h1']

/-- whenever `generate_next_atomic` yields an ID outside the wrap situation (and, for the repaired
    generator, not at the top of the ID space, which the engine refuses beforehand), it exceeds the
    last ID and the atomics are left equal to it -/
theorem nextAuto_gt (q : Quirks) (now : Nat) (s : Code.Stream) (hl : s.lastId = ⟨s.atomMs, s.atomSeq⟩)
    (hw : q.seqCarry = true ∨ wrapsAt now s = false)
    (hnt : ¬ (q.seqCarry = true ∧ isTopId s.lastId = true)) (id : Id) (ms sq : Nat)
    (hn : nextAuto q now s = some (id, ms, sq)) : s.lastId < id ∧ ms = id.ms ∧ sq = id.seq := by
  rcases nextAuto_cases q now s with ⟨h1, h⟩ | ⟨h1, h2, h3, h4, h⟩ | ⟨h1, h2, h3, h4, h⟩ | ⟨h1, h2, h⟩
  · rw [h] at hn
    simp only [Option.some.injEq, Prod.mk.injEq] at hn
    obtain ⟨rfl, rfl, rfl⟩ := hn
    rw [hl]; refine ⟨?_, rfl, rfl⟩
    simp only [Id.lt_def]; omega
  · exfalso
    apply hnt
    refine ⟨h2, ?_⟩
    rw [hl]
    simp only [isTopId, Bool.and_eq_true, decide_eq_true_eq]
    exact ⟨h4, h3⟩
  · rw [h] at hn
    simp only [Option.some.injEq, Prod.mk.injEq] at hn
    obtain ⟨rfl, rfl, rfl⟩ := hn
    rw [hl]; refine ⟨?_, rfl, rfl⟩
    simp only [Id.lt_def]; omega
  · rw [h] at hn
    simp only [Option.some.injEq, Prod.mk.injEq] at hn
    obtain ⟨rfl, rfl, rfl⟩ := hn
    rw [hl]; refine ⟨?_, rfl, rfl⟩
    have hsmall : s.atomSeq + 1 < u64Mod := by
      rcases h2 with h2 | h2
      · rcases hw with hw | hw
        · rw [hw] at h2; cases h2
        · simp only [wrapsAt, Bool.and_eq_false_iff, decide_eq_false_iff_not] at hw
          rcases hw with hw | hw <;> omega
      · exact h2
    rw [Nat.mod_eq_of_lt hsmall]
    simp only [Id.lt_def, true_and]; omega

/-- the engine's pre-check: refusal, or `add_auto` away from the top -/
theorem xaddAuto_cases (q : Quirks) (now : Nat) (f : Fields) (s : Code.Stream) :
    (q.seqCarry = true ∧ isTopId s.lastId = true ∧ xaddAuto q now f s = (s, none)) ∨
    (¬ (q.seqCarry = true ∧ isTopId s.lastId = true) ∧ xaddAuto q now f s = addAuto q now f s) := by
  unfold xaddAuto
  by_cases h : q.seqCarry = true ∧ isTopId s.lastId = true
  · left; exact ⟨h.1, h.2, by simp [h.1, h.2]⟩
  · right; refine ⟨h, ?_⟩
    rw [if_neg]; simpa using h


/-! ### SAVE + restart -/

/-- one step of the loader -/
def addStep (acc : Code.Stream) (e : Entry) : Code.Stream := (addWithId e.1 e.2 acc).1

theorem rebuild_def (es : List Entry) : rebuild es = es.foldl addStep Stream.new := rfl

theorem addStep_cases (acc : Code.Stream) (e : Entry) :
    ((e.1 ≤ acc.lastId ∨ (bsearch acc.entries e.1).1 = true) ∧ addStep acc e = acc) ∨
    (acc.lastId < e.1 ∧ (bsearch acc.entries e.1).1 = false ∧ addStep acc e = push acc e.1 e.2) := by
  unfold addStep
  rcases addWithId_cases e.1 e.2 acc with ⟨h1, he⟩ | ⟨_, h2, he⟩ | ⟨h1, h2, he⟩
  · left; exact ⟨Or.inl h1, by rw [he]⟩
  · left; exact ⟨Or.inr h2, by rw [he]⟩
  · right; exact ⟨h1, h2, by rw [he]⟩

/-- the last ID a loader ends with: that of the last entry, `base` if there is none -/
def lastIdOf (base : Id) : List Entry → Id
  | [] => base
  | e :: es => lastIdOf e.1 es

theorem lastIdOf_mem (base : Id) (es : List Entry) : lastIdOf base es = base ∨ ∃ e ∈ es, e.1 = lastIdOf base es := by
  induction es generalizing base with
  | nil => left; rfl
  | cons e es ih =>
    right
    rcases ih e.1 with h | ⟨x, hx, hxe⟩
    · exact ⟨e, by simp, by simp [lastIdOf, h]⟩
    · exact ⟨x, by simp [hx], by simpa [lastIdOf] using hxe⟩

theorem stream_eta (s : Code.Stream) (hl : s.lastId = ⟨s.atomMs, s.atomSeq⟩) (hn : s.length = s.entries.length) :
    s = ⟨s.entries, s.lastId, s.lastId.ms, s.lastId.seq, s.entries.length⟩ := by
  cases s with
  | mk es l a b n =>
    simp only at hl hn
    subst hl; subst hn; rfl

/-- re-adding a strictly increasing list above the accumulator's last ID appends it all -/
theorem foldl_addStep_spec (es : List Entry) : ∀ (acc : Code.Stream),
    acc.lastId = ⟨acc.atomMs, acc.atomSeq⟩ → acc.length = acc.entries.length →
    Sorted (acc.entries ++ es) → (∀ x ∈ acc.entries, x.1 ≤ acc.lastId) → (∀ e ∈ es, acc.lastId < e.1) →
    es.foldl addStep acc =
      ⟨acc.entries ++ es, lastIdOf acc.lastId es, (lastIdOf acc.lastId es).ms, (lastIdOf acc.lastId es).seq,
        (acc.entries ++ es).length⟩ := by
  induction es with
  | nil =>
    intro acc hl hn _ _ _
    simp only [List.foldl_nil, List.append_nil, lastIdOf]
    exact stream_eta acc hl hn
  | cons e es ih =>
    intro acc hl hn hs hb hlt
    have hsacc : Sorted acc.entries := (List.pairwise_append.1 hs).1
    have hses : Sorted (e :: es) := (List.pairwise_append.1 hs).2.1
    have hpush : addStep acc e = push acc e.1 e.2 := by
      rcases addStep_cases acc e with ⟨h1 | h1, _⟩ | ⟨_, _, he⟩
      · exfalso; have := hlt e (by simp); id_omega
      · exfalso
        obtain ⟨x, hx, hxe⟩ := (bsearch_found_iff hsacc e.1).1 h1
        have h2 := hb x hx
        have h3 := hlt e (by simp)
        rw [hxe] at h2
        id_omega
      · exact he
    simp only [List.foldl_cons, hpush]
    rw [ih (push acc e.1 e.2) (by simp [push]) (by simp [push, hn])
      (by simpa [push, List.append_assoc] using hs)
      (by
        intro x hx
        simp only [push, List.mem_append, List.mem_singleton] at hx ⊢
        rcases hx with hx | rfl
        · exact Id.le_of_lt (Id.lt_of_le_of_lt (hb x hx) (hlt e (by simp)))
        · exact Id.le_refl _)
      (by
        intro y hy
        exact (sorted_cons.1 hses).1 y hy)]
    simp [push, lastIdOf, List.append_assoc]

theorem rebuild_spec {es : List Entry} (hs : Sorted es) (hp : ∀ e ∈ es, Id.zero < e.1) :
    rebuild es = ⟨es, lastIdOf Id.zero es, (lastIdOf Id.zero es).ms, (lastIdOf Id.zero es).seq, es.length⟩ := by
  rw [rebuild_def]
  have h0 : Stream.new = ⟨[], Id.zero, 0, 0, 0⟩ := rfl
  rw [h0]
  have := foldl_addStep_spec es ⟨[], Id.zero, 0, 0, 0⟩ rfl rfl (by simpa using hs) (by intro x hx; cases hx)
    (by simpa using hp)
  simpa using this

/-- With the last ID persisted - or when nothing above the present entries had been removed - a restart
    gives back exactly the state that was saved. -/
theorem restart_eq (q : Quirks) {r : Run} (h : Inv r)
    (hk : q.persistLastId = true ∨ (restart q r.st).lastId = r.st.lastId) : restart q r.st = r.st := by
  have hpos : ∀ e ∈ r.st.entries, Id.zero < e.1 := fun e he => h.pos e (h.sub.subset he)
  have hreb := rebuild_spec h.sorted hpos
  have hle : lastIdOf Id.zero r.st.entries ≤ r.st.lastId := by
    rcases lastIdOf_mem Id.zero r.st.entries with h0 | ⟨e, he, hee⟩
    · rw [h0]; exact Id.zero_le _
    · rw [← hee]; exact h.bound e (h.sub.subset he)
  have heta := stream_eta r.st h.last h.len
  have same : lastIdOf Id.zero r.st.entries = r.st.lastId → rebuild r.st.entries = r.st := by
    intro he; rw [hreb, he]; exact heta.symm
  by_cases hp : q.persistLastId = true
  · unfold restart raiseLastId
    rw [if_pos hp]
    by_cases hlt : (rebuild r.st.entries).lastId < r.st.lastId
    · rw [if_pos hlt, hreb]
      simp only
      exact heta.symm
    · rw [if_neg hlt]
      apply same
      rw [hreb] at hlt
      simp only at hlt
      id_omega
  · have hl : (restart q r.st).lastId = r.st.lastId := by
      rcases hk with hk | hk
      · exact absurd hk hp
      · exact hk
    have hp' : q.persistLastId = false := by
      cases hq : q.persistLastId with
      | false => rfl
      | true => exact absurd hq hp
    unfold restart at hl ⊢
    simp only [hp', Bool.false_eq_true, if_false] at hl ⊢
    apply same
    rw [hreb] at hl
    exact hl

/-! ### the flags only ever go up -/

theorem step_wrapped_mono (q : Quirks) (r : Run) (op : Op) (h : r.wrapped = true) : (step q r op).wrapped = true := by
  cases op with
  | addAuto now f =>
    simp only [step]
    cases xaddAuto q now f r.st with
    | mk st' o => cases o <;> simp [h]
  | addId id f =>
    simp only [step]
    cases addWithId id f r.st with
    | mk st' b => cases b <;> simp [h]
  | del ids => exact h
  | trimCount n => exact h
  | trimMinId m => exact h
  | restart => exact h

theorem step_lost_mono (q : Quirks) (r : Run) (op : Op) (h : r.lost = true) : (step q r op).lost = true := by
  cases op with
  | addAuto now f =>
    simp only [step]
    cases xaddAuto q now f r.st with
    | mk st' o => cases o <;> exact h
  | addId id f =>
    simp only [step]
    cases addWithId id f r.st with
    | mk st' b => cases b <;> exact h
  | del ids => exact h
  | trimCount n => exact h
  | trimMinId m => exact h
  | restart => simp [step, h]

theorem foldl_wrapped_mono (q : Quirks) (ops : List Op) (r : Run) (h : r.wrapped = true) :
    (ops.foldl (step q) r).wrapped = true := by
  induction ops generalizing r with
  | nil => exact h
  | cons op ops ih => exact ih _ (step_wrapped_mono q r op h)

theorem foldl_lost_mono (q : Quirks) (ops : List Op) (r : Run) (h : r.lost = true) :
    (ops.foldl (step q) r).lost = true := by
  induction ops generalizing r with
  | nil => exact h
  | cons op ops ih => exact ih _ (step_lost_mono q r op h)

theorem step_addAuto_wrapped (q : Quirks) (r : Run) (now : Nat) (f : Fields) :
    (step q r (.addAuto now f)).wrapped = (r.wrapped || wrapsAt now r.st) := by
  simp only [step]
  cases xaddAuto q now f r.st with
  | mk st' o => cases o <;> rfl

theorem step_inv (q : Quirks) (r : Run) (op : Op) (h : Inv r)
    (hw : q.seqCarry = true ∨ (step q r op).wrapped = false)
    (hl : q.persistLastId = true ∨ (step q r op).lost = false) : Inv (step q r op) := by
  cases op with
  | addAuto now f =>
    have hw' : q.seqCarry = true ∨ wrapsAt now r.st = false := by
      rcases hw with hw | hw
      · exact Or.inl hw
      · right
        rw [step_addAuto_wrapped, Bool.or_eq_false_iff] at hw
        exact hw.2
    simp only [step]
    rcases xaddAuto_cases q now f r.st with ⟨_, _, he⟩ | ⟨hnt, he⟩
    · rw [he]; exact inv_same h _ _
    · rw [he]
      simp only [addAuto]
      cases hn : nextAuto q now r.st with
      | none => exact inv_same h _ _
      | some p =>
        obtain ⟨id, ms, sq⟩ := p
        obtain ⟨hgt, rfl, rfl⟩ := nextAuto_gt q now r.st h.last hw' hnt id ms sq hn
        exact inv_push h id f _ _ hgt
  | addId id f =>
    simp only [step]
    rcases addWithId_cases id f r.st with ⟨_, he⟩ | ⟨_, _, he⟩ | ⟨hgt, _, he⟩
    · rw [he]; exact inv_same h _ _
    · rw [he]; exact inv_same h _ _
    · rw [he]; exact inv_push h id f _ _ hgt
  | del ids =>
    simp only [step, Code.delete]
    have hlen := deleteIds_length r.st.entries ids
    exact inv_shrink h _ _ _ _ (deleteIds_sublist _ _) (by rw [h.len]; omega)
  | trimCount n =>
    simp only [step, trimByCount]
    split
    · exact inv_same h _ _
    · exact inv_shrink h _ _ _ _ (List.drop_sublist _ _) (by simp [h.len])
  | trimMinId m =>
    simp only [step, trimByMinId]
    split
    · exact inv_same h _ _
    · exact inv_shrink h _ _ _ _ (List.drop_sublist _ _) (by simp [h.len])
  | restart =>
    have hk : q.persistLastId = true ∨ (restart q r.st).lastId = r.st.lastId := by
      rcases hl with hl | hl
      · exact Or.inl hl
      · right
        simp only [step, Bool.or_eq_false_iff, decide_eq_false_iff_not, ne_eq, Decidable.not_not] at hl
        exact hl.2
    simp only [step]
    rw [restart_eq q h hk]
    exact inv_same h _ _

theorem foldl_inv (q : Quirks) (ops : List Op) (r : Run) (h : Inv r)
    (hw : q.seqCarry = true ∨ (ops.foldl (step q) r).wrapped = false)
    (hl : q.persistLastId = true ∨ (ops.foldl (step q) r).lost = false) : Inv (ops.foldl (step q) r) := by
  induction ops generalizing r with
  | nil => exact h
  | cons op ops ih =>
    simp only [List.foldl_cons] at hw hl ⊢
    apply ih _ _ hw hl
    apply step_inv q r op h
    · rcases hw with hw | hw
      · exact Or.inl hw
      · right
        cases hs : (step q r op).wrapped with
        | false => rfl
        | true => rw [foldl_wrapped_mono q ops _ hs] at hw; cases hw
    · rcases hl with hl | hl
      · exact Or.inl hl
      · right
        cases hs : (step q r op).lost with
        | false => rfl
        | true => rw [foldl_lost_mono q ops _ hs] at hl; cases hl

theorem run_inv (q : Quirks) (ops : List Op) (hw : q.seqCarry = true ∨ (run q ops).wrapped = false)
    (hl : q.persistLastId = true ∨ (run q ops).lost = false) :
    Inv (run q ops) := foldl_inv q ops _ inv_init hw hl

/-- the last ID never goes down, whatever the operation (restart included) -/
theorem step_lastId_le (q : Quirks) (r : Run) (op : Op) (h : Inv r)
    (hw : q.seqCarry = true ∨ (step q r op).wrapped = false)
    (hl : q.persistLastId = true ∨ (step q r op).lost = false) :
    r.st.lastId ≤ (step q r op).st.lastId := by
  cases op with
  | addAuto now f =>
    have hw' : q.seqCarry = true ∨ wrapsAt now r.st = false := by
      rcases hw with hw | hw
      · exact Or.inl hw
      · right
        rw [step_addAuto_wrapped, Bool.or_eq_false_iff] at hw
        exact hw.2
    simp only [step]
    rcases xaddAuto_cases q now f r.st with ⟨_, _, he⟩ | ⟨hnt, he⟩
    · rw [he]; exact Id.le_refl _
    · rw [he]
      simp only [addAuto]
      cases hn : nextAuto q now r.st with
      | none => exact Id.le_refl _
      | some p =>
        obtain ⟨id, ms, sq⟩ := p
        obtain ⟨hgt, _, _⟩ := nextAuto_gt q now r.st h.last hw' hnt id ms sq hn
        exact Id.le_of_lt hgt
  | addId id f =>
    simp only [step]
    rcases addWithId_cases id f r.st with ⟨_, he⟩ | ⟨_, _, he⟩ | ⟨hgt, _, he⟩
    · rw [he]; exact Id.le_refl _
    · rw [he]; exact Id.le_refl _
    · rw [he]; exact Id.le_of_lt hgt
  | del ids => exact Id.le_refl _
  | trimCount n =>
    simp only [step, trimByCount]
    split <;> exact Id.le_refl _
  | trimMinId m =>
    simp only [step, trimByMinId]
    split <;> exact Id.le_refl _
  | restart =>
    have hk : q.persistLastId = true ∨ (restart q r.st).lastId = r.st.lastId := by
      rcases hl with hl | hl
      · exact Or.inl hl
      · right
        simp only [step, Bool.or_eq_false_iff, decide_eq_false_iff_not, ne_eq, Decidable.not_not] at hl
        exact hl.2
    simp only [step]
    rw [restart_eq q h hk]
    exact Id.le_refl _

/-! ### XLEN needs no hypothesis at all -/

theorem foldl_addStep_len (es : List Entry) (acc : Code.Stream) (h : acc.length = acc.entries.length) :
    (es.foldl addStep acc).length = (es.foldl addStep acc).entries.length := by
  induction es generalizing acc with
  | nil => exact h
  | cons e es ih =>
    simp only [List.foldl_cons]
    apply ih
    rcases addStep_cases acc e with ⟨_, he⟩ | ⟨_, _, he⟩
    · rw [he]; exact h
    · rw [he]; simp [push, h]

theorem restart_len (q : Quirks) (s : Code.Stream) :
    (restart q s).length = (restart q s).entries.length := by
  have := foldl_addStep_len s.entries Stream.new rfl
  rw [← rebuild_def] at this
  unfold restart raiseLastId
  split
  · split
    · exact this
    · exact this
  · exact this

theorem step_len (q : Quirks) (r : Run) (op : Op) (h : r.st.length = r.st.entries.length) :
    (step q r op).st.length = (step q r op).st.entries.length := by
  cases op with
  | addAuto now f =>
    simp only [step]
    rcases xaddAuto_cases q now f r.st with ⟨_, _, he⟩ | ⟨_, he⟩
    · rw [he]; exact h
    · rw [he]
      simp only [addAuto]
      cases nextAuto q now r.st with
      | none => exact h
      | some p => obtain ⟨id, ms, sq⟩ := p; simp [h]
  | addId id f =>
    simp only [step]
    rcases addWithId_cases id f r.st with ⟨_, he⟩ | ⟨_, _, he⟩ | ⟨hgt, _, he⟩
    · rw [he]; exact h
    · rw [he]; exact h
    · rw [he]; simp [push, h]
  | del ids =>
    simp only [step, Code.delete]
    have hl := deleteIds_length r.st.entries ids
    simp only [h]; omega
  | trimCount n =>
    simp only [step, trimByCount]
    split
    · exact h
    · simp [h]
  | trimMinId m =>
    simp only [step, trimByMinId]
    split
    · exact h
    · simp [h]
  | restart => exact restart_len q r.st

theorem foldl_len (q : Quirks) (ops : List Op) (r : Run) (h : r.st.length = r.st.entries.length) :
    (ops.foldl (step q) r).st.length = (ops.foldl (step q) r).st.entries.length := by
  induction ops generalizing r with
  | nil => exact h
  | cons op ops ih => exact ih _ (step_len q r op h)

/-! ### a wrap needs a sequence number at the top of the u64 range -/

/-- explicit IDs of a history stay `slack` away from the top sequence number -/
def seqRoom (slack : Nat) : Op → Prop
  | .addId id _ => id.seq + slack < u64Mod
  | _ => True

/-- every sequence number the state holds (generator, last ID, entries) is `k` below the top -/
def RoomSt (k : Nat) (s : Code.Stream) : Prop :=
  s.atomSeq + k < u64Mod ∧ s.lastId.seq + k < u64Mod ∧ ∀ e ∈ s.entries, e.1.seq + k < u64Mod

theorem RoomSt.mono {k : Nat} {s : Code.Stream} (h : RoomSt (k + 1) s) : RoomSt k s :=
  ⟨by have := h.1; omega, by have := h.2.1; omega, fun e he => by have := h.2.2 e he; omega⟩

theorem roomSt_push {k : Nat} {s : Code.Stream} (h : RoomSt k s) (id : Id) (f : Fields) (hid : id.seq + k < u64Mod) :
    RoomSt k (push s id f) := by
  refine ⟨hid, hid, ?_⟩
  intro e he
  simp only [push, List.mem_append, List.mem_singleton] at he
  rcases he with he | rfl
  · exact h.2.2 e he
  · exact hid

theorem roomSt_sub {k : Nat} {s : Code.Stream} (h : RoomSt k s) (es : List Entry) (n : Nat) (hs : es.Sublist s.entries) :
    RoomSt k { s with entries := es, length := n } :=
  ⟨h.1, h.2.1, fun e he => h.2.2 e (hs.subset he)⟩

theorem foldl_addStep_room (k : Nat) (es : List Entry) (acc : Code.Stream) (h : RoomSt k acc)
    (hes : ∀ e ∈ es, e.1.seq + k < u64Mod) : RoomSt k (es.foldl addStep acc) := by
  induction es generalizing acc with
  | nil => exact h
  | cons e es ih =>
    simp only [List.foldl_cons]
    apply ih _ _ (fun x hx => hes x (List.mem_cons_of_mem _ hx))
    rcases addStep_cases acc e with ⟨_, he⟩ | ⟨_, _, he⟩
    · rw [he]; exact h
    · rw [he]; exact roomSt_push h _ _ (hes e (by simp))

theorem restart_room (q : Quirks) (k : Nat) (s : Code.Stream) (h : RoomSt k s) : RoomSt k (restart q s) := by
  have hr : RoomSt k (rebuild s.entries) := by
    rw [rebuild_def]
    have hk : 0 + k < u64Mod := by have := h.1; omega
    exact foldl_addStep_room k s.entries Stream.new ⟨hk, hk, fun e he => by cases he⟩ h.2.2
  unfold restart raiseLastId
  split
  · split
    · exact ⟨h.2.1, h.2.1, hr.2.2⟩
    · exact hr
  · exact hr

theorem step_seq_room (q : Quirks) (r : Run) (op : Op) (k : Nat)
    (hk : RoomSt (k + 1) r.st) (hop : seqRoom (k + 1) op) :
    RoomSt k (step q r op).st ∧ ((step q r op).wrapped = r.wrapped) := by
  have hk0 := hk.mono
  cases op with
  | addAuto now f =>
    have hnw : wrapsAt now r.st = false := by
      simp only [wrapsAt, Bool.and_eq_false_iff, decide_eq_false_iff_not]; right; have := hk.1; omega
    refine ⟨?_, by rw [step_addAuto_wrapped, hnw, Bool.or_false]⟩
    simp only [step]
    rcases xaddAuto_cases q now f r.st with ⟨_, _, he⟩ | ⟨_, he⟩
    · rw [he]; exact hk0
    · rw [he]
      simp only [addAuto]
      have h1k := hk.1
      rcases nextAuto_cases q now r.st with ⟨h1, h⟩ | ⟨h1, h2, h3, h4, h⟩ | ⟨h1, h2, h3, h4, h⟩ | ⟨h1, h2, h⟩
      · rw [h]; exact roomSt_push hk0 ⟨now, 0⟩ f (by simp only [u64Mod] at *; omega)
      · omega
      · omega
      · rw [h, Nat.mod_eq_of_lt (by omega)]
        exact roomSt_push hk0 ⟨r.st.atomMs, r.st.atomSeq + 1⟩ f (by simp only; omega)
  | addId id f =>
    simp only [step]
    simp only [seqRoom] at hop
    rcases addWithId_cases id f r.st with ⟨_, he⟩ | ⟨_, _, he⟩ | ⟨hgt, _, he⟩
    · rw [he]; exact ⟨hk0, rfl⟩
    · rw [he]; exact ⟨hk0, rfl⟩
    · rw [he]; exact ⟨roomSt_push hk0 id f (by omega), rfl⟩
  | del ids =>
    simp only [step, Code.delete]
    exact ⟨roomSt_sub hk0 _ _ (deleteIds_sublist _ _), by first | rfl | trivial⟩
  | trimCount n =>
    simp only [step, trimByCount]
    split
    · exact ⟨hk0, by first | rfl | trivial⟩
    · exact ⟨roomSt_sub hk0 _ _ (List.drop_sublist _ _), by first | rfl | trivial⟩
  | trimMinId m =>
    simp only [step, trimByMinId]
    split
    · exact ⟨hk0, by first | rfl | trivial⟩
    · exact ⟨roomSt_sub hk0 _ _ (List.drop_sublist _ _), by first | rfl | trivial⟩
  | restart =>
    simp only [step]
    exact ⟨restart_room q k r.st hk0, by first | rfl | trivial⟩

theorem foldl_no_wrap (q : Quirks) (ops : List Op) (r : Run)
    (hk : RoomSt ops.length r.st) (hops : ∀ op ∈ ops, seqRoom ops.length op) :
    (ops.foldl (step q) r).wrapped = r.wrapped := by
  induction ops generalizing r with
  | nil => rfl
  | cons op ops ih =>
    simp only [List.foldl_cons, List.length_cons] at hk hops ⊢
    have h1 := step_seq_room q r op ops.length hk (hops op (by simp))
    rw [ih _ h1.1, h1.2]
    intro op' hop'
    have := hops op' (List.mem_cons_of_mem _ hop')
    cases op' <;> simp only [seqRoom] at this ⊢ <;> omega

end Ferrous.Stream
