/-
  C10, part 3: files and save runs.  `Inv` is the invariant of the machine while at most one save
  runs (which the repaired server enforces, and the unrepaired one as long as no SAVE is issued
  during a background save): the dump name never points to a file that is being written.
-/
import FerrousSpec.Model.RdbSave
set_option linter.unusedSimpArgs false
set_option linter.unusedVariables false
namespace Ferrous.RdbSave
open Ferrous Ferrous.Rdb

theorem writeAt_end (f b : Bytes) : writeAt f f.length b = f ++ b := by
  simp [writeAt, List.drop_eq_nil_of_le]

@[simp] theorem set_data_same (fs : FS) (k : Nat) (b : Bytes) : (fs.set k b).data k = b := by simp [FS.set]
theorem set_data_ne (fs : FS) (k : Nat) (b : Bytes) (i : Nat) (h : i ≠ k) : (fs.set k b).data i = fs.data i := by
  simp [FS.set, h]
@[simp] theorem set_dump (fs : FS) (k : Nat) (b : Bytes) : (fs.set k b).dump = fs.dump := rfl
@[simp] theorem set_tmp (fs : FS) (k : Nat) (b : Bytes) : (fs.set k b).tmp = fs.tmp := rfl
@[simp] theorem set_next (fs : FS) (k : Nat) (b : Bytes) : (fs.set k b).next = fs.next := rfl

/-- a running save and its file: before `open` everything is still to do; afterwards the tmp name
    points to its file, which holds exactly what the run has written so far -/
def ProcOK (fs : FS) (p : Proc) : Prop :=
  match p.ino with
  | none => p.todo.flatten = p.content
  | some k => fs.tmp = some k ∧ p.off = (fs.data k).length ∧ fs.data k ++ p.todo.flatten = p.content

structure Inv (Good : Bytes → Prop) (s : Sys) : Prop where
  one : s.procs.length ≤ 1
  bgflag : ∀ p ∈ s.procs, p.bg = true → s.flag = true
  flagbg : s.flag = true → ∃ p ∈ s.procs, p.bg = true
  distinct : ∀ i j, s.fs.dump = some i → s.fs.tmp = some j → i ≠ j
  dumplt : ∀ i, s.fs.dump = some i → i < s.fs.next
  tmplt : ∀ j, s.fs.tmp = some j → j < s.fs.next
  procs : ∀ p ∈ s.procs, ProcOK s.fs p ∧ Good p.content
  dump : ∀ i, s.fs.dump = some i → Good (s.fs.data i)

theorem inv_init (Good : Bytes → Prop) (old : Option Bytes) (h : ∀ b, old = some b → Good b) : Inv Good (initSys old) := by
  cases old with
  | none => constructor <;> simp [initSys]
  | some b =>
    constructor <;> simp [initSys]
    exact h b rfl

/-- no save is running when the flag is clear and no SAVE occupies the command thread -/
theorem procs_nil_of {Good : Bytes → Prop} {s : Sys} (h : Inv Good s) (hfg : s.procs.any (fun p => !p.bg) = false)
    (hflag : s.flag = false) : s.procs = [] := by
  cases hp : s.procs with
  | nil => rfl
  | cons p ps =>
    exfalso
    rw [hp] at hfg
    simp at hfg
    have hbg : p.bg = true := hfg.1
    have := h.bgflag p (by rw [hp]; simp) hbg
    rw [hflag] at this
    cases this

theorem inv_start {Good : Bytes → Prop} {s : Sys} (h : Inv Good s) (hnil : s.procs = []) (bg : Bool) (j : Job)
    (hj : Good j.chunks.flatten) (flag' : Bool) (hf : flag' = true ↔ bg = true) :
    Inv Good { s with flag := flag', procs := s.procs ++ [mkProc bg j] } := by
  constructor
  · simp [hnil]
  · intro p hp hb
    simp [hnil] at hp
    subst hp
    exact hf.mpr hb
  · intro hfl
    exact ⟨mkProc bg j, by simp [hnil], hf.mp hfl⟩
  · exact h.distinct
  · exact h.dumplt
  · exact h.tmplt
  · intro p hp
    simp [hnil] at hp
    subst hp
    exact ⟨by simp [ProcOK, mkProc], by simpa [mkProc] using hj⟩
  · exact h.dump

theorem inv_log {Good : Bytes → Prop} {s : Sys} (h : Inv Good s) (l : List Outcome) : Inv Good { s with log := l } :=
  ⟨h.one, h.bgflag, h.flagbg, h.distinct, h.dumplt, h.tmplt, h.procs, h.dump⟩

/-- the only running save makes one file operation -/
theorem inv_stepProc {Good : Bytes → Prop} (fs : FS) (flag : Bool) (p : Proc) (log : List Outcome)
    (h : Inv Good ⟨fs, flag, [p], log⟩) : Inv Good (stepProc ⟨fs, flag, [p], log⟩ 0 p) := by
  have hpok := (h.procs p (by simp)).1
  have hgood := (h.procs p (by simp)).2
  have hflag_of_fg : p.bg = false → flag = false := by
    intro hb
    cases hf : flag with
    | false => rfl
    | true =>
      obtain ⟨q, hq, hqb⟩ := h.flagbg hf
      simp at hq
      subst hq
      rw [hb] at hqb
      cases hqb
  have fin : ∀ (fs' : FS) (o : Outcome),
      (∀ i j, fs'.dump = some i → fs'.tmp = some j → i ≠ j) → (∀ i, fs'.dump = some i → i < fs'.next) →
      (∀ j, fs'.tmp = some j → j < fs'.next) → (∀ i, fs'.dump = some i → Good (fs'.data i)) →
      Inv Good (finish ⟨fs, flag, [p], log⟩ 0 p fs' o) := by
    intro fs' o a b c d
    constructor
    · simp [finish]
    · intro q hq; simp [finish] at hq
    · intro hfl
      simp only [finish] at hfl
      cases hb : p.bg with
      | true => simp [hb] at hfl
      | false =>
        simp [hb] at hfl
        rw [hflag_of_fg hb] at hfl
        cases hfl
    · exact a
    · exact b
    · exact c
    · intro q hq; simp [finish] at hq
    · exact d
  unfold stepProc
  unfold ProcOK at hpok
  cases hino : p.ino with
  | none =>
    simp only [hino] at hpok ⊢
    cases htmp : fs.tmp with
    | some k =>
      simp only [htmp, setNth]
      constructor
      · simp
      · intro q hq hb; simp at hq; subst hq; exact h.bgflag p (by simp) hb
      · intro hfl
        obtain ⟨q, hq, hqb⟩ := h.flagbg hfl
        simp at hq; subst hq
        exact ⟨_, List.mem_singleton.mpr rfl, hqb⟩
      · simpa using h.distinct
      · simpa using h.dumplt
      · simpa using h.tmplt
      · intro q hq
        simp at hq; subst hq
        exact ⟨by simp [ProcOK, htmp, hpok], hgood⟩
      · intro i hi
        have hne : i ≠ k := h.distinct i k hi htmp
        simp only [set_dump] at hi ⊢
        rw [set_data_ne _ _ _ _ hne]
        exact h.dump i hi
    | none =>
      simp only [htmp, setNth]
      constructor
      · simp
      · intro q hq hb; simp at hq; subst hq; exact h.bgflag p (by simp) hb
      · intro hfl
        obtain ⟨q, hq, hqb⟩ := h.flagbg hfl
        simp at hq; subst hq
        exact ⟨_, List.mem_singleton.mpr rfl, hqb⟩
      · intro i j hi hj
        simp at hi hj
        have := h.dumplt i hi
        simp at this
        omega
      · intro i hi
        simp at hi
        have := h.dumplt i hi
        simp at this ⊢
        omega
      · intro j hj
        simp at hj ⊢
        omega
      · intro q hq
        simp at hq; subst hq
        exact ⟨by simp [ProcOK, hpok], hgood⟩
      · intro i hi
        simp at hi
        have hlt := h.dumplt i hi
        simp at hlt
        have hne : i ≠ fs.next := by omega
        simp only [set_data_ne _ _ _ _ hne]
        exact h.dump i hi
  | some k =>
    simp only [hino] at hpok ⊢
    obtain ⟨htmp, hoff, hcont⟩ := hpok
    cases htodo : p.todo with
    | cons c rest =>
      simp only []
      split
      · exact fin fs .failed h.distinct h.dumplt h.tmplt h.dump
      · simp only [setNth]
        constructor
        · simp
        · intro q hq hb; simp at hq; subst hq; exact h.bgflag p (by simp) hb
        · intro hfl
          obtain ⟨q, hq, hqb⟩ := h.flagbg hfl
          simp at hq; subst hq
          exact ⟨_, List.mem_singleton.mpr rfl, hqb⟩
        · simpa using h.distinct
        · simpa using h.dumplt
        · simpa using h.tmplt
        · intro q hq
          simp at hq; subst hq
          refine ⟨?_, hgood⟩
          simp only [ProcOK, set_tmp, set_data_same]
          rw [hoff, writeAt_end]
          refine ⟨htmp, by simp, ?_⟩
          rw [htodo] at hcont
          simpa [List.append_assoc] using hcont
        · intro i hi
          have hne : i ≠ k := h.distinct i k hi htmp
          simp only [set_dump] at hi ⊢
          rw [set_data_ne _ _ _ _ hne]
          exact h.dump i hi
    | nil =>
      simp only [htmp]
      apply fin
      · intro i j hi hj; simp at hj
      · intro i hi
        simp at hi ⊢
        subst hi
        exact h.tmplt _ htmp
      · intro j hj; simp at hj
      · intro i hi
        simp at hi
        subst hi
        rw [htodo] at hcont
        simp at hcont
        simp only []
        rw [hcont]
        exact hgood

theorem inv_step {Good : Bytes → Prop} (x : Bool) (s : Sys) (e : Ev) (h : Inv Good s)
    (hjob : ∀ j, e = .startSave j ∨ e = .startBgsave j → Good j.chunks.flatten)
    (hex : x = true ∨ ∀ j, e = .startSave j → s.flag = false) : Inv Good (step x s e) := by
  cases e with
  | startSave j =>
    simp only [step]
    split
    · exact h
    · rename_i hfg
      have hfg' : s.procs.any (fun p => !p.bg) = false := by simpa using hfg
      split
      · exact inv_log h _
      · rename_i hx
        have hflag : s.flag = false := by
          cases hex with
          | inl hx1 => subst hx1; simpa using hx
          | inr hx2 => exact hx2 j rfl
        have hnil := procs_nil_of h hfg' hflag
        have := inv_start h hnil false j (hjob j (Or.inl rfl)) s.flag (by simp [hflag])
        simpa using this
  | startBgsave j =>
    simp only [step]
    split
    · exact h
    · rename_i hfg
      have hfg' : s.procs.any (fun p => !p.bg) = false := by simpa using hfg
      split
      · exact inv_log h _
      · rename_i hfl
        have hflag : s.flag = false := by simpa using hfl
        have hnil := procs_nil_of h hfg' hflag
        exact inv_start h hnil true j (hjob j (Or.inr rfl)) true (by simp)
  | step i =>
    simp only [step]
    obtain ⟨fs, flag, procs, log⟩ := s
    cases procs with
    | nil => simpa using h
    | cons p ps =>
      cases ps with
      | cons q qs => have := h.one; simp at this
      | nil =>
        cases i with
        | zero => simpa using inv_stepProc fs flag p log h
        | succ i => simpa using h

/-- every save in the schedule writes an acceptable file -/
def jobsGood (Good : Bytes → Prop) (evs : List Ev) : Prop :=
  ∀ e ∈ evs, ∀ j, e = .startSave j ∨ e = .startBgsave j → Good j.chunks.flatten

theorem inv_run {Good : Bytes → Prop} (x : Bool) (evs : List Ev) :
    ∀ s, Inv Good s → jobsGood Good evs → (x = true ∨ noSaveDuringBgsave x s evs = true) →
      Inv Good (run x s evs) := by
  induction evs with
  | nil => intro s h _ _; exact h
  | cons e es ih =>
    intro s h hj hx
    simp only [run, List.foldl_cons]
    apply ih
    · apply inv_step x s e h (fun j hjj => hj e (by simp) j hjj)
      cases hx with
      | inl hx => exact Or.inl hx
      | inr hx =>
        right
        intro j he
        subst he
        simp only [noSaveDuringBgsave, Bool.and_eq_true] at hx
        simpa using hx.1
    · exact fun e' he' => hj e' (by simp [he'])
    · cases hx with
      | inl hx => exact Or.inl hx
      | inr hx =>
        right
        simp only [noSaveDuringBgsave, Bool.and_eq_true] at hx
        exact hx.2

/-! ### every saver, with the save lock -/

/-- every save in the schedule writes an acceptable file -/
def jobsGoodL (Good : Bytes → Prop) (evs : List EvL) : Prop :=
  ∀ e ∈ evs, ∀ j, e = .save j ∨ e = .bgsave j ∨ e = .shutdown j → Good j.chunks.flatten

/-- the invariant of the locked machine: the files and the lock holder satisfy `Inv`, and every
    waiting saver is going to write an acceptable file -/
structure InvL (Good : Bytes → Prop) (s : SysL) : Prop where
  core : Inv Good s.core
  waiting : ∀ w ∈ s.waiting, Good w.2.chunks.flatten

theorem invL_init (Good : Bytes → Prop) (old : Option Bytes) (h : ∀ b, old = some b → Good b) :
    InvL Good (initSysL old) :=
  ⟨inv_init Good old h, by simp [initSysL]⟩

theorem inv_flag_of_nil {Good : Bytes → Prop} {s : Sys} (h : Inv Good s) (hnil : s.procs = []) : s.flag = false := by
  cases hf : s.flag with
  | false => rfl
  | true =>
    obtain ⟨p, hp, _⟩ := h.flagbg hf
    rw [hnil] at hp
    cases hp

theorem invL_step {Good : Bytes → Prop} (s : SysL) (e : EvL) (h : InvL Good s)
    (hjob : ∀ j, e = .save j ∨ e = .bgsave j ∨ e = .shutdown j → Good j.chunks.flatten) : InvL Good (stepL s e) := by
  cases e with
  | save j =>
    simp only [stepL]
    split
    · exact ⟨inv_log h.core _, h.waiting⟩
    · refine ⟨h.core, ?_⟩
      intro w hw
      simp only [List.mem_append, List.mem_singleton] at hw
      cases hw with
      | inl hw => exact h.waiting w hw
      | inr hw => subst hw; exact hjob j (Or.inl rfl)
  | bgsave j =>
    simp only [stepL]
    split
    · exact ⟨inv_log h.core _, h.waiting⟩
    · refine ⟨h.core, ?_⟩
      intro w hw
      simp only [List.mem_append, List.mem_singleton] at hw
      cases hw with
      | inl hw => exact h.waiting w hw
      | inr hw => subst hw; exact hjob j (Or.inr (Or.inl rfl))
  | shutdown j =>
    simp only [stepL]
    refine ⟨h.core, ?_⟩
    intro w hw
    simp only [List.mem_append, List.mem_singleton] at hw
    cases hw with
    | inl hw => exact h.waiting w hw
    | inr hw => subst hw; exact hjob j (Or.inr (Or.inr rfl))
  | grant i =>
    simp only [stepL]
    split
    · rename_i bg j hnil hw
      have hmem : (bg, j) ∈ s.waiting := List.mem_of_getElem? hw
      refine ⟨?_, ?_⟩
      · exact inv_start h.core hnil bg j (h.waiting _ hmem) bg (by simp)
      · intro w hw'
        exact h.waiting w (List.mem_of_mem_eraseIdx hw')
    · exact h
  | step =>
    simp only [stepL]
    split
    · rename_i p hp
      refine ⟨?_, h.waiting⟩
      obtain ⟨core, flag, waiting⟩ := s
      obtain ⟨fs, cflag, procs, log⟩ := core
      simp only at hp
      subst hp
      exact inv_stepProc fs cflag p log h.core
    · exact h

theorem invL_run {Good : Bytes → Prop} (evs : List EvL) :
    ∀ s, InvL Good s → jobsGoodL Good evs → InvL Good (runL s evs) := by
  induction evs with
  | nil => intro s h _; exact h
  | cons e es ih =>
    intro s h hj
    simp only [runL, List.foldl_cons]
    apply ih
    · exact invL_step s e h (fun j hjj => hj e (by simp) j hjj)
    · exact fun e' he' => hj e' (by simp [he'])

/-! ### one save alone, in closed form -/

theorem run_idle (x : Bool) (n : Nat) (s : Sys) (h : s.procs = []) : run x s (List.replicate n (.step 0)) = s := by
  induction n with
  | zero => rfl
  | succ n ih =>
    simp only [List.replicate_succ, run, List.foldl_cons] at ih ⊢
    have : step x s (.step 0) = s := by simp [step, h]
    rw [this]
    exact ih

theorem run_cons (x : Bool) (s : Sys) (e : Ev) (es : List Ev) : run x s (e :: es) = run x (step x s e) es := rfl

/-- the run writes all its remaining calls and renames -/
theorem solo_ok (x : Bool) : ∀ (cs : List Bytes) (fs : FS) (flag : Bool) (p : Proc) (log : List Outcome) (k : Nat),
    p.ino = some k → fs.tmp = some k → p.off = (fs.data k).length → p.todo = cs → p.failIn = none →
    (run x ⟨fs, flag, [p], log⟩ (List.replicate (cs.length + 1) (.step 0))).procs = [] ∧
    (run x ⟨fs, flag, [p], log⟩ (List.replicate (cs.length + 1) (.step 0))).fs.dump = some k ∧
    (run x ⟨fs, flag, [p], log⟩ (List.replicate (cs.length + 1) (.step 0))).fs.tmp = none ∧
    (run x ⟨fs, flag, [p], log⟩ (List.replicate (cs.length + 1) (.step 0))).fs.next = fs.next ∧
    (run x ⟨fs, flag, [p], log⟩ (List.replicate (cs.length + 1) (.step 0))).fs.data k = fs.data k ++ cs.flatten ∧
    (run x ⟨fs, flag, [p], log⟩ (List.replicate (cs.length + 1) (.step 0))).flag = (if p.bg then false else flag) ∧
    (run x ⟨fs, flag, [p], log⟩ (List.replicate (cs.length + 1) (.step 0))).log = .saved :: log := by
  intro cs
  induction cs with
  | nil =>
    intro fs flag p log k hino htmp hoff htodo hfail
    simp [List.replicate, run, step, stepProc, hino, htodo, htmp, finish]
  | cons c rest ih =>
    intro fs flag p log k hino htmp hoff htodo hfail
    have hstep : step x ⟨fs, flag, [p], log⟩ (.step 0) =
        ⟨fs.set k (fs.data k ++ c), flag,
         [{ p with off := p.off + c.length, todo := rest, failIn := none }], log⟩ := by
      simp [step, stepProc, hino, htodo, hfail, setNth, hoff, writeAt_end]
    simp only [List.length_cons, List.replicate_succ (n := rest.length + 1), run_cons, hstep]
    have := ih (fs.set k (fs.data k ++ c)) flag { p with off := p.off + c.length, todo := rest, failIn := none } log k
      hino (by simpa using htmp) (by simp [hoff]) rfl rfl
    simpa [List.append_assoc] using this

/-- the run fails at its `m`-th remaining call: nothing but its own file has changed -/
theorem solo_fail (x : Bool) : ∀ (cs : List Bytes) (m : Nat) (fs : FS) (flag : Bool) (p : Proc) (log : List Outcome) (k : Nat),
    p.ino = some k → fs.tmp = some k → p.off = (fs.data k).length → p.todo = cs → p.failIn = some m →
    1 ≤ m → m ≤ cs.length →
    (run x ⟨fs, flag, [p], log⟩ (List.replicate (cs.length + 1) (.step 0))).procs = [] ∧
    (run x ⟨fs, flag, [p], log⟩ (List.replicate (cs.length + 1) (.step 0))).fs.dump = fs.dump ∧
    (run x ⟨fs, flag, [p], log⟩ (List.replicate (cs.length + 1) (.step 0))).fs.tmp = some k ∧
    (run x ⟨fs, flag, [p], log⟩ (List.replicate (cs.length + 1) (.step 0))).fs.next = fs.next ∧
    (run x ⟨fs, flag, [p], log⟩ (List.replicate (cs.length + 1) (.step 0))).fs.data k =
      fs.data k ++ (cs.take (m - 1)).flatten ∧
    (∀ i, i ≠ k → (run x ⟨fs, flag, [p], log⟩ (List.replicate (cs.length + 1) (.step 0))).fs.data i = fs.data i) ∧
    (run x ⟨fs, flag, [p], log⟩ (List.replicate (cs.length + 1) (.step 0))).flag = (if p.bg then false else flag) ∧
    (run x ⟨fs, flag, [p], log⟩ (List.replicate (cs.length + 1) (.step 0))).log = .failed :: log := by
  intro cs
  induction cs with
  | nil => intro m fs flag p log k _ _ _ _ _ h1 h2; simp at h2; omega
  | cons c rest ih =>
    intro m fs flag p log k hino htmp hoff htodo hfail h1 h2
    simp only [List.length_cons, List.replicate_succ (n := rest.length + 1), run_cons]
    cases m with
    | zero => omega
    | succ m' =>
      cases m' with
      | zero =>
        -- this very call fails
        have hstep : step x ⟨fs, flag, [p], log⟩ (.step 0) =
            ⟨fs, if p.bg then false else flag, [], .failed :: log⟩ := by
          simp [step, stepProc, hino, htodo, hfail, finish]
        rw [hstep, run_idle x _ _ rfl]
        simp [htmp]
      | succ m'' =>
        have hne : ¬ ((m'' + 1 + 1) = 1) := by omega
        have hstep : step x ⟨fs, flag, [p], log⟩ (.step 0) =
            ⟨fs.set k (fs.data k ++ c), flag,
             [{ p with off := p.off + c.length, todo := rest, failIn := some (m'' + 1) }], log⟩ := by
          simp [step, stepProc, hino, htodo, hfail, setNth, hoff, writeAt_end, hne]
        rw [hstep]
        have := ih (m'' + 1) (fs.set k (fs.data k ++ c)) flag
          { p with off := p.off + c.length, todo := rest, failIn := some (m'' + 1) } log k
          hino (by simpa using htmp) (by simp [hoff]) rfl rfl (by omega) (by simp at h2; omega)
        obtain ⟨a1, a2, a3, a4, a5, a6, a7, a8⟩ := this
        refine ⟨a1, by simpa using a2, by simpa using a3, by simpa using a4, ?_, ?_, by simpa using a7, a8⟩
        · simpa [List.append_assoc] using a5
        · intro i hi
          rw [a6 i hi]
          exact set_data_ne _ _ _ _ hi

/-- the names are sane: dump and tmp are different files, both already allocated -/
structure NamesOK (fs : FS) : Prop where
  distinct : ∀ i j, fs.dump = some i → fs.tmp = some j → i ≠ j
  dumplt : ∀ i, fs.dump = some i → i < fs.next
  tmplt : ∀ j, fs.tmp = some j → j < fs.next

/-- the state right after `open(tmp)` of a run started on an idle server -/
def opened (fs : FS) : FS × Nat :=
  match fs.tmp with
  | some k => (fs.set k [], k)
  | none => ({ (fs.set fs.next []) with tmp := some fs.next, next := fs.next + 1 }, fs.next)

theorem opened_facts (fs : FS) (h : NamesOK fs) :
    (opened fs).1.tmp = some (opened fs).2 ∧ (opened fs).1.data (opened fs).2 = [] ∧
    (opened fs).1.dump = fs.dump ∧ (∀ i, fs.dump = some i → i ≠ (opened fs).2 ∧ (opened fs).1.data i = fs.data i) ∧
    NamesOK (opened fs).1 := by
  unfold opened
  cases ht : fs.tmp with
  | some k =>
    refine ⟨by simpa using ht, by simp, by simp, ?_, ?_⟩
    · intro i hi
      have := h.distinct i k hi ht
      exact ⟨this, set_data_ne _ _ _ _ this⟩
    · exact ⟨by simpa using h.distinct, by simpa using h.dumplt, by simpa using h.tmplt⟩
  | none =>
    refine ⟨by simp, by simp, by simp, ?_, ?_⟩
    · intro i hi
      have := h.dumplt i hi
      have hne : i ≠ fs.next := by omega
      exact ⟨hne, by simp [set_data_ne _ _ _ _ hne]⟩
    · refine ⟨?_, ?_, ?_⟩
      · intro i j hi hj
        simp at hi hj
        have := h.dumplt i hi
        omega
      · intro i hi
        simp at hi ⊢
        have := h.dumplt i hi
        omega
      · intro j hj
        simp at hj ⊢
        omega

theorem start_open (x : Bool) (s : Sys) (bg : Bool) (j : Job) (hidle : s.procs = []) (hflag : s.flag = false) :
    run x s [if bg then .startBgsave j else .startSave j, .step 0] =
      ⟨(opened s.fs).1, bg, [{ mkProc bg j with ino := some (opened s.fs).2, off := 0 }], s.log⟩ := by
  obtain ⟨fs, flag, procs, log⟩ := s
  simp only at hidle hflag
  subst hidle; subst hflag
  cases bg <;> cases ht : fs.tmp <;> simp [run, step, stepProc, mkProc, opened, ht, setNth]

def startEv (bg : Bool) (j : Job) : Ev := if bg then .startBgsave j else .startSave j

theorem run_split (x : Bool) (s : Sys) (e : Ev) (n : Nat) :
    run x s (e :: soloEvents n) = run x (run x s [e, .step 0]) (List.replicate (n + 1) (.step 0)) := by
  simp [soloEvents, List.replicate_succ, run]

/-- A save (SAVE or BGSAVE) started on an idle server and failing at its `n`-th `write_raw` call. -/
theorem saveRun_fail (x bg : Bool) (s : Sys) (hidle : s.procs = []) (hflag : s.flag = false) (hn : NamesOK s.fs)
    (chunks : List Bytes) (n : Nat) (h1 : 1 ≤ n) (h2 : n ≤ chunks.length) :
    (run x s (startEv bg ⟨chunks, some n⟩ :: soloEvents chunks.length)).procs = [] ∧
    (run x s (startEv bg ⟨chunks, some n⟩ :: soloEvents chunks.length)).flag = false ∧
    dumpContent (run x s (startEv bg ⟨chunks, some n⟩ :: soloEvents chunks.length)).fs = dumpContent s.fs ∧
    tmpContent (run x s (startEv bg ⟨chunks, some n⟩ :: soloEvents chunks.length)).fs = some (chunks.take (n - 1)).flatten ∧
    NamesOK (run x s (startEv bg ⟨chunks, some n⟩ :: soloEvents chunks.length)).fs ∧
    (run x s (startEv bg ⟨chunks, some n⟩ :: soloEvents chunks.length)).log = .failed :: s.log := by
  rw [run_split]
  have hso := start_open x s bg ⟨chunks, some n⟩ hidle hflag
  simp only [startEv] at hso ⊢
  rw [hso]
  obtain ⟨o1, o2, o3, o4, o5⟩ := opened_facts s.fs hn
  have := solo_fail x chunks n (opened s.fs).1 bg
    { mkProc bg ⟨chunks, some n⟩ with ino := some (opened s.fs).2, off := 0 } s.log (opened s.fs).2
    rfl o1 (by simp [o2]) (by simp [mkProc]) (by simp [mkProc]) h1 h2
  obtain ⟨a1, a2, a3, a4, a5, a6, a7, a8⟩ := this
  refine ⟨a1, ?_, ?_, ?_, ?_, a8⟩
  · rw [a7]; cases bg <;> simp [mkProc]
  · unfold dumpContent
    rw [a2, o3]
    cases hd : s.fs.dump with
    | none => rfl
    | some i =>
      obtain ⟨hne, hdat⟩ := o4 i hd
      simp only [Option.map_some]
      rw [a6 i hne, hdat]
  · unfold tmpContent
    rw [a3]
    simp only [Option.map_some]
    rw [a5, o2]
    simp
  · exact ⟨by rw [a2, a3, ← o1]; exact o5.distinct, by rw [a2, a4]; exact o5.dumplt, by rw [a3, a4, ← o1]; exact o5.tmplt⟩

/-- A save started on an idle server that is not made to fail. -/
theorem saveRun_ok (x bg : Bool) (s : Sys) (hidle : s.procs = []) (hflag : s.flag = false) (hn : NamesOK s.fs)
    (chunks : List Bytes) :
    (run x s (startEv bg ⟨chunks, none⟩ :: soloEvents chunks.length)).procs = [] ∧
    (run x s (startEv bg ⟨chunks, none⟩ :: soloEvents chunks.length)).flag = false ∧
    dumpContent (run x s (startEv bg ⟨chunks, none⟩ :: soloEvents chunks.length)).fs = some chunks.flatten ∧
    tmpContent (run x s (startEv bg ⟨chunks, none⟩ :: soloEvents chunks.length)).fs = none ∧
    NamesOK (run x s (startEv bg ⟨chunks, none⟩ :: soloEvents chunks.length)).fs ∧
    (run x s (startEv bg ⟨chunks, none⟩ :: soloEvents chunks.length)).log = .saved :: s.log := by
  rw [run_split]
  have hso := start_open x s bg ⟨chunks, none⟩ hidle hflag
  simp only [startEv] at hso ⊢
  rw [hso]
  obtain ⟨o1, o2, o3, o4, o5⟩ := opened_facts s.fs hn
  have := solo_ok x chunks (opened s.fs).1 bg
    { mkProc bg ⟨chunks, none⟩ with ino := some (opened s.fs).2, off := 0 } s.log (opened s.fs).2
    rfl o1 (by simp [o2]) (by simp [mkProc]) (by simp [mkProc])
  obtain ⟨a1, a2, a3, a4, a5, a6, a7⟩ := this
  refine ⟨a1, ?_, ?_, ?_, ?_, a7⟩
  · rw [a6]; cases bg <;> simp [mkProc]
  · unfold dumpContent
    rw [a2]
    simp only [Option.map_some]
    rw [a5, o2]
    simp
  · unfold tmpContent
    rw [a3]
    rfl
  · constructor
    · rw [a3]; intro i j _ hj; cases hj
    · intro i hi
      rw [a2] at hi
      rw [a4]
      cases hi
      exact o5.tmplt _ o1
    · rw [a3]; intro j hj; cases hj

theorem namesOK_init (old : Option Bytes) : NamesOK (initSys old).fs := by
  cases old <;> constructor <;> simp [initSys]

end Ferrous.RdbSave
