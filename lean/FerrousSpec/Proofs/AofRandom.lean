import FerrousSpec.Model.Aof
import FerrousSpec.Proofs.KsAtomic
import FerrousSpec.Proofs.KsInvCmds
set_option linter.unusedSimpArgs false
set_option linter.unusedVariables false
namespace Ferrous.Aof
open Ferrous Ferrous.KS

/-! ## A random write logged by its effect: `SPOP key [count]` that took `got` ≡ `SREM key got…`

The repaired log of the correspondence run (lib/c11.py, cause `random`) replaces a SPOP by the SREM of the members it
returned.  This is why that is sound: on every database, for every admissible outcome (the reply is not an error, in
particular not the oracle's rejection of an impossible draw), both leave the same database. -/

theorem removeAll_fst (s l : List Bytes) : (removeAll s l).1 = s.filter fun m => !l.contains m := by
  induction l generalizing s with
  | nil =>
    simp only [removeAll, List.contains_nil, Bool.not_false]
    exact (List.filter_eq_self.mpr (fun _ _ => rfl)).symm
  | cons m r ih =>
    unfold removeAll
    by_cases hc : s.contains m = true
    · simp only [hc, if_true]
      rw [ih, List.filter_filter]
      apply List.filter_congr
      intro x _
      simp [List.contains_cons, Bool.and_comm]
    · simp only [hc, Bool.false_eq_true, if_false]
      rw [ih]
      apply List.filter_congr
      intro x hx
      have hxm : x ≠ m := by
        intro h; subst h
        exact hc (by simpa using hx)
      simp [List.contains_cons, hxm]

theorem spop_as_srem (db : Db) (k : Bytes) (rest got : List Bytes) (hgot : got ≠ [])
    (hok : isErr (cmdSpop db (k :: rest) (some got)).2 = false) :
    (cmdSpop db (k :: rest) (some got)).1 = (cmdSrem db (k :: got)).1 := by
  obtain ⟨m, ms, rfl⟩ : ∃ m ms, got = m :: ms := by
    cases got with
    | nil => exact absurd rfl hgot
    | cons m ms => exact ⟨m, ms, rfl⟩
  unfold cmdSpop at hok ⊢
  unfold cmdSrem
  simp only [Option.getD_some] at hok ⊢
  rcases rest with _ | ⟨c, _ | ⟨c2, t⟩⟩
  · -- SPOP key
    simp only at hok ⊢
    cases hl : lookup db k with
    | none => simp [hl, isErr, reject] at hok
    | some e =>
      obtain ⟨val, d⟩ := e
      cases val with
      | set xs =>
        simp only [hl] at hok ⊢
        cases ms with
        | cons m2 t2 => simp [isErr, reject] at hok
        | nil =>
          by_cases hm : xs.contains m = true
          · simp only [hm, if_true]
            rw [removeAll_fst]
            congr 2
            apply List.filter_congr
            intro x _
            simp
          · have hm' : ¬ m ∈ xs := by simpa using hm
            simp [hm', isErr, reject] at hok
      | str b => simp [hl, isErr, wrongType] at hok
      | list l => simp [hl, isErr, wrongType] at hok
      | hash h => simp [hl, isErr, wrongType] at hok
      | zset z => simp [hl, isErr, wrongType] at hok
      | stream n => simp [hl, isErr, wrongType] at hok
  · -- SPOP key count
    simp only at hok ⊢
    cases hp : parseInt c with
    | none => simp [hp, isErr, err] at hok
    | some cnt =>
      simp only [hp] at hok ⊢
      by_cases hneg : cnt < 0
      · simp [hneg, isErr, err] at hok
      · simp only [hneg, if_false] at hok ⊢
        cases hl : lookup db k with
        | none => simp [hl, isErr, reject] at hok
        | some e =>
          obtain ⟨val, d⟩ := e
          cases val with
          | set xs =>
            simp only [hl] at hok ⊢
            split at hok
            · rename_i hcond
              simp only [hcond, if_true]
              rw [removeAll_fst]
            · simp [isErr, reject] at hok
          | str b => simp [hl, isErr, wrongType] at hok
          | list l => simp [hl, isErr, wrongType] at hok
          | hash h => simp [hl, isErr, wrongType] at hok
          | zset z => simp [hl, isErr, wrongType] at hok
          | stream n => simp [hl, isErr, wrongType] at hok
  · simp [isErr, err] at hok

theorem isErrReply_eq (f : Frame) : isErrReply f = isErr f := by cases f <;> rfl

theorem insert_lookup_self {db : Db} {k : Bytes} {e : Entry} (h : lookup db k = some e) : KS.insert db k e = db := by
  induction db with
  | nil => simp [lookup] at h
  | cons p t ih =>
    obtain ⟨k', e'⟩ := p
    simp only [lookup] at h
    simp only [KS.insert]
    by_cases hk : k' = k
    · simp only [hk, if_true] at h ⊢
      simp at h
      rw [h]
    · simp only [hk, if_false] at h ⊢
      rw [ih h]

/-- a SPOP that reports no member taken (or has no key) leaves a well-formed database as it is -/
theorem cmdSpop_nodraw (db : Db) (hdb : DbOk db) (args : List Bytes) (obs : Option (List Bytes))
    (h : obs.getD [] = [] ∨ args = []) : (cmdSpop db args obs).1 = db := by
  unfold cmdSpop
  rcases h with h | h
  · simp only [h]
    rcases args with _ | ⟨k, _ | ⟨c, _ | ⟨c2, t⟩⟩⟩
    · rfl
    · simp only
      cases hl : lookup db k with
      | none => simp
      | some e =>
        obtain ⟨val, d⟩ := e
        cases val <;> simp
    · simp only
      cases hp : parseInt c with
      | none => rfl
      | some cnt =>
        simp only
        by_cases hneg : cnt < 0
        · simp [hneg]
        · simp only [hneg, if_false]
          cases hl : lookup db k with
          | none => simp
          | some e =>
            obtain ⟨val, d⟩ := e
            cases val with
            | set xs =>
              simp only
              split
              · have hv := lookup_valOk hdb hl
                simp only [valOk] at hv
                have hf : (xs.filter fun m => !([] : List Bytes).contains m) = xs := by
                  simp [List.filter_eq_self]
                rw [hf]
                unfold putColl
                cases xs with
                | nil => exact absurd rfl hv.1
                | cons x t => simp only []; exact insert_lookup_self hl
              · rfl
            | str b => rfl
            | list l => rfl
            | hash hh => rfl
            | zset z => rfl
            | stream n => rfl
    · rfl
  · subst h
    rfl

end Ferrous.Aof
