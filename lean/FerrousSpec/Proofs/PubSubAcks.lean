/-
  The confirmations the server writes for SUBSCRIBE / PSUBSCRIBE / UNSUBSCRIBE / PUNSUBSCRIBE
  (manager results + the handlers' fallback for a client that holds nothing) are exactly the
  prescribed ones.
-/
import FerrousSpec.Proofs.PubSubRaw
set_option linter.unusedSimpArgs false
namespace Ferrous.PubSub

theorem loop_acks_length {σ : Type} (f : σ → Bytes → σ × Ack) (xs : List Bytes) (st : σ) :
    (loop f st xs).2.length = xs.length := by
  induction xs generalizing st with
  | nil => rfl
  | cons x xs ih => simp [loop, ih]

/-- A client that holds nothing: every named removal is acknowledged with count 0. -/
theorem Spec.unsub_idle_acks (k : Kind) (c : ConnId) : ∀ (l : List Bytes) (s : Spec.State),
    (∀ k', Spec.heldBy s c k' = []) →
    (loop (Spec.unsub1 k c) s l).2 = l.map (fun n => (⟨k, true, n, 0, false⟩ : Ack)) := by
  intro l
  induction l with
  | nil => intro s _; rfl
  | cons x l ih =>
    intro s h
    have h' : ∀ k', Spec.heldBy (Spec.unsub1 k c s x).1 c k' = [] := by
      intro k'
      simp only [Spec.unsub1]
      rw [Spec.heldBy_filter_ne]
      split
      · rw [h]; rfl
      · exact h k'
    simp only [loop, List.map_cons, ih _ h']
    congr 1
    have hc : Spec.count (Spec.unsub1 k c s x).1 c = 0 := by rw [Spec.count_eq, h', h']; rfl
    simp only [Spec.unsub1] at hc ⊢
    rw [hc]

theorem emit_subscribe_eq {st : State} {s : Spec.State} (hrel : Rel st s) (dedup idle : Bool) (c : ConnId) (k : Kind)
    (xs : List Bytes) : Code.emit dedup idle st (.subscribe c k xs) = Spec.emit s (.subscribe c k xs) := by
  have h := (hrel.next (.subscribe c k xs)).2
  simp only [Code.silent, Bool.false_eq_true, if_false] at h
  simp only [Code.emit, Spec.emit, h]

/-- With the handlers' fallback (`idle = true`) the confirmations of (P)UNSUBSCRIBE are exactly
    the prescribed ones, whatever the client holds. -/
theorem emit_unsubscribe_eq {st : State} {s : Spec.State} (hrel : Rel st s) (dedup : Bool) (c : ConnId) (k : Kind)
    (xs : Option (List Bytes)) :
    Code.emit dedup true st (.unsubscribe c k xs) = Spec.emit s (.unsubscribe c k xs) := by
  obtain ⟨hrel', hacks⟩ := hrel.unsubscribe k c xs
  have hrem : ((aget (unsubscribe k c st xs).1.subs c).getD ([], [])).total =
      Spec.count (Spec.unsubscribe k c s xs).1 c := (hrel'.count c).symm
  have hlen : (Spec.unsubscribe k c s xs).2.length = (xs.getD (Spec.heldBy s c k)).length :=
    loop_acks_length _ _ _
  simp only [Code.emit, Spec.emit, Code.apply]
  congr 1
  rw [hrem, hacks]
  -- the spec state is unchanged when nothing of kind `k` is named or held
  have hsame : Spec.heldBy s c k = [] → (Spec.unsubscribe k c s none).1 = s := by
    intro h; simp [Spec.unsubscribe, h, loop]
  cases ha : aget st.subs c with
  | none =>
    simp only [Option.isNone_none, if_true, Code.unsubEvents, List.isEmpty_nil, Bool.and_self]
    have hidle : ∀ k', Spec.heldBy s c k' = [] := by
      intro k'
      rw [hrel.heldEq]
      simp only [held, info, ha, Option.getD]
      cases k' <;> rfl
    cases xs with
    | none =>
      simp only [Spec.unsubEvents, hidle k, if_true]
      rw [hsame (hidle k)]
    | some l =>
      have hA : (Spec.unsubscribe k c s (some l)).2 = l.map (fun n => (⟨k, true, n, 0, false⟩ : Ack)) := by
        simp only [Spec.unsubscribe, Option.getD]
        exact Spec.unsub_idle_acks k c l s hidle
      have hR : Spec.count (Spec.unsubscribe k c s (some l)).1 c = 0 := by
        have : ∀ k', Spec.heldBy (Spec.unsubscribe k c s (some l)).1 c k' = [] := by
          intro k'
          have hst : (unsubscribe k c st (some l)).1 = st := by simp [unsubscribe, ha]
          rw [hrel'.heldEq, hst, ← hrel.heldEq]
          exact hidle k'
        rw [Spec.count_eq, this, this]; rfl
      simp only [Spec.unsubEvents, hA, hR, List.map_map]
      rfl
  | some i =>
    simp only [Option.isNone_some, Bool.false_eq_true, if_false]
    by_cases hres : (Spec.unsubscribe k c s xs).2 = []
    · have hl : xs.getD (Spec.heldBy s c k) = [] := by
        rw [hres] at hlen
        exact List.eq_nil_of_length_eq_zero hlen.symm
      simp only [Code.unsubEvents, hres, List.isEmpty_nil, Bool.and_self, if_true]
      cases xs with
      | none =>
        have hh : Spec.heldBy s c k = [] := by simpa using hl
        simp only [Spec.unsubEvents, hh, if_true]
        rw [hsame hh]
      | some l =>
        have : l = [] := by simpa using hl
        subst this
        simp [Spec.unsubEvents, hres]
    · have hne : (Spec.unsubscribe k c s xs).2.isEmpty = false := by
        cases h : (Spec.unsubscribe k c s xs).2 with
        | nil => exact absurd h hres
        | cons _ _ => rfl
      simp only [Code.unsubEvents, hne, Bool.false_and, Bool.false_eq_true, if_false]
      cases xs with
      | some l => rfl
      | none =>
        have hh : Spec.heldBy s c k ≠ [] := by
          intro h
          apply hres
          simp [Spec.unsubscribe, h, loop]
        simp only [Spec.unsubEvents, hh, if_false]

end Ferrous.PubSub
