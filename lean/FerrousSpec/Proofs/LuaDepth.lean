/-
  The reply-depth limit of the script return-value conversion (property C12; Model/Lua.lean `luaToRespD`):
  it answers `none` exactly for values nested deeper than the limit, otherwise it IS `luaToResp`; and a converted value is
  a frame no deeper than its nesting, so that what is accepted fits the parser's budget (Proofs/RespRoundtrip.lean).
-/
import FerrousSpec.Proofs.LuaRun
import FerrousSpec.Proofs.RespRoundtrip
set_option linter.unusedSimpArgs false
set_option linter.unusedVariables false
namespace Ferrous.Lua
open Ferrous

mutual
theorem luaToRespD_spec (q : Quirks) (limit : Nat) (v : LuaVal) (d : Nat) :
    (d + nest v ≤ limit → luaToRespD q limit v d = some (luaToResp q v)) ∧
    (d + nest v > limit → luaToRespD q limit v d = none) := by
  cases v with
  | table xs =>
    have hl := luaToRespListD_spec q limit xs d
    constructor
    · intro h
      simp only [nest] at h
      have hd : ¬ d > limit := by omega
      simp [luaToRespD, hd, hl.1 h, luaToResp]
    · intro h
      simp only [nest] at h
      by_cases hd : d > limit
      · simp [luaToRespD, hd]
      · simp [luaToRespD, hd, hl.2 (by omega) h]
  | nil => simp [luaToRespD, nest] <;> omega
  | bool b => simp [luaToRespD, nest] <;> omega
  | int n => simp [luaToRespD, nest] <;> omega
  | num n k => simp [luaToRespD, nest] <;> omega
  | str b => simp [luaToRespD, nest] <;> omega
  | errTable m => simp [luaToRespD, nest] <;> omega
  | statusTable m => simp [luaToRespD, nest] <;> omega
theorem luaToRespListD_spec (q : Quirks) (limit : Nat) (xs : List LuaVal) (d : Nat) :
    (d + nestList xs ≤ limit → luaToRespListD q limit xs (d + 1) = some (luaToRespList q xs)) ∧
    (d ≤ limit → d + nestList xs > limit → luaToRespListD q limit xs (d + 1) = none) := by
  cases xs with
  | nil => simp [luaToRespListD, luaToRespList, nestList] <;> omega
  | cons v t =>
    have hv := luaToRespD_spec q limit v (d + 1)
    have ht := luaToRespListD_spec q limit t d
    by_cases hn : v.isNil = true
    · simp [luaToRespListD, luaToRespList, nestList, hn] <;> omega
    · simp only [nestList, hn, Bool.false_eq_true, if_false]
      constructor
      · intro h
        have h1 : d + 1 + nest v ≤ limit := by omega
        have h2 : d + nestList t ≤ limit := by omega
        simp [luaToRespListD, luaToRespList, hn, hv.1 h1, ht.1 h2]
      · intro hd h
        by_cases h1 : d + 1 + nest v > limit
        · simp [luaToRespListD, hn, hv.2 h1]
        · have h2 : d + nestList t > limit := by omega
          simp only [luaToRespListD, hn, Bool.false_eq_true, if_false, ht.2 hd h2]
          split <;> simp_all
end

/-! ### a converted value is a frame no deeper than its nesting -/

mutual
theorem depth_luaToResp_le (q : Quirks) (v : LuaVal) : (luaToResp q v).depth ≤ nest v + 1 := by
  cases v with
  | table xs =>
    have := depthList_luaToRespList_le q xs
    simp only [luaToResp, nest]
    split <;> simp [Frame.depth] <;> omega
  | nil => simp [luaToResp, Frame.depth]
  | bool b => cases b <;> simp [luaToResp, Frame.depth] <;> (try split) <;> simp [Frame.depth]
  | int n => simp [luaToResp, Frame.depth]
  | num n k => simp only [luaToResp]; repeat' split
               all_goals simp [Frame.depth, nest]
  | str b => simp [luaToResp, Frame.depth]
  | errTable m => simp only [luaToResp]; repeat' split
                  all_goals simp [Frame.depth, depthList, nest]
  | statusTable m => simp only [luaToResp]; repeat' split
                     all_goals simp [Frame.depth, depthList, nest]
theorem depthList_luaToRespList_le (q : Quirks) (xs : List LuaVal) : depthList (luaToRespList q xs) ≤ nestList xs := by
  cases xs with
  | nil => simp [luaToRespList, depthList]
  | cons v t =>
    have h1 := depth_luaToResp_le q v
    have h2 := depthList_luaToRespList_le q t
    by_cases hn : v.isNil = true
    · simp [luaToRespList, nestList, hn, depthList]
    · simp only [luaToRespList, nestList, hn, Bool.false_eq_true, if_false, depthList]
      omega
end

/-! ### the bounded EVAL -/

theorem evalB_store (q : Quirks) (kq : KS.Quirks) (limit : Nat) (s : KS.Store) (db now : Nat) (keys argv : List Bytes) (p : Program) :
    (evalB q kq limit s db now keys argv p).1 = (eval q kq s db now keys argv p).1 := by
  unfold evalB eval
  split
  · rfl
  · split <;> rfl

end Ferrous.Lua
