/-
  The invariant of `PubSubManager`'s three maps and its preservation by every call:
  subscribe / psubscribe / unsubscribe / punsubscribe (one loop iteration at a time),
  the final clean-up, and `unsubscribe_all`.
-/
import FerrousSpec.Proofs.PubSubAList
set_option linter.unusedSimpArgs false
namespace Ferrous.PubSub

/-! ### Views of the state -/

/-- `SubscriberInfo` of a connection (empty when there is no entry). -/
def info (st : State) (c : ConnId) : Held := (aget st.subs c).getD ([], [])

/-- Names of kind `k` the connection-side map records for `c`. -/
def held (st : State) (c : ConnId) (k : Kind) : List Bytes := (info st c).sel k

/-- Connections the name-side map of kind `k` records for `x`. -/
def members (st : State) (k : Kind) (x : Bytes) : List ConnId := (aget (st.idx k) x).getD []

@[simp] theorem idx_withIdx (st : State) (k : Kind) (m) (k' : Kind) :
    (st.withIdx k m).idx k' = if k' = k then m else st.idx k' := by
  cases k <;> cases k' <;> simp [State.withIdx, State.idx]

@[simp] theorem subs_withIdx (st : State) (k : Kind) (m) : (st.withIdx k m).subs = st.subs := by
  cases k <;> rfl

@[simp] theorem idx_withSubs (st : State) (m) (k : Kind) : (st.withSubs m).idx k = st.idx k := by
  cases k <;> rfl

@[simp] theorem subs_withSubs (st : State) (m) : (st.withSubs m).subs = m := rfl

@[simp] theorem sel_upd (h : Held) (k : Kind) (l : List Bytes) (k' : Kind) :
    (h.upd k l).sel k' = if k' = k then l else h.sel k' := by
  cases k <;> cases k' <;> simp [Held.upd, Held.sel]

theorem upd_sel_self (h : Held) (k : Kind) : h.upd k (h.sel k) = h := by
  cases k <;> rfl

theorem total_eq (h : Held) : h.total = (h.sel .chan).length + (h.sel .pat).length := rfl

theorem info_of_subs (st : State) (m) (c : ConnId) : info (st.withSubs m) c = (aget m c).getD ([], []) := rfl

theorem members_def (st : State) (k : Kind) (x : Bytes) : members st k x = (aget (st.idx k) x).getD [] := rfl

/-! ### The invariant -/

structure Inv (st : State) : Prop where
  /-- the name-side and the connection-side maps are inverses of each other -/
  agree : ∀ k x c, c ∈ members st k x ↔ x ∈ held st c k
  keysIdx : ∀ k, (keys (st.idx k)).Nodup
  keysSubs : (keys st.subs).Nodup
  nodupMembers : ∀ k x, (members st k x).Nodup
  nodupHeld : ∀ c k, (held st c k).Nodup
  /-- no name is mapped to an empty set of connections -/
  noEmpty : ∀ k x, aget (st.idx k) x ≠ some []

theorem Inv.init : Inv {} := by
  have hm : ∀ k x, members {} k x = [] := by intro k x; cases k <;> rfl
  have hh : ∀ c k, held {} c k = [] := by intro c k; cases k <;> rfl
  have hi : ∀ k, State.idx {} k = [] := by intro k; cases k <;> rfl
  constructor
  · intro k x c; simp [hm, hh]
  · intro k; rw [hi]; exact List.nodup_nil
  · exact List.nodup_nil
  · intro k x; rw [hm]; exact List.nodup_nil
  · intro c k; rw [hh]; exact List.nodup_nil
  · intro k x; rw [hi]; simp [aget]

/-! ### `ensure` and `cleanup` do not change what is recorded -/

theorem info_ensure (st : State) (c c' : ConnId) : info (ensure st c) c' = info st c' := by
  unfold ensure
  cases h : aget st.subs c with
  | some _ => rfl
  | none =>
    simp only [info, subs_withSubs, aget_aset]
    by_cases hc : c = c'
    · subst hc; simp [h]
    · simp [hc]

theorem idx_ensure (st : State) (c : ConnId) (k : Kind) : (ensure st c).idx k = st.idx k := by
  unfold ensure
  cases aget st.subs c <;> simp

theorem Inv.ensure {st : State} (h : Inv st) (c : ConnId) : Inv (ensure st c) := by
  have hh : ∀ c' k, held (PubSub.ensure st c) c' k = held st c' k := by intro c' k; simp [held, info_ensure]
  have hm : ∀ k x, members (PubSub.ensure st c) k x = members st k x := by intro k x; simp [members, idx_ensure]
  constructor
  · intro k x c'; rw [hh, hm]; exact h.agree k x c'
  · intro k; rw [idx_ensure]; exact h.keysIdx k
  · unfold PubSub.ensure
    cases aget st.subs c with
    | some _ => exact h.keysSubs
    | none => exact nodup_keys_aset h.keysSubs _ _
  · intro k x; rw [hm]; exact h.nodupMembers k x
  · intro c' k; rw [hh]; exact h.nodupHeld c' k
  · intro k x; rw [idx_ensure]; exact h.noEmpty k x

theorem info_cleanup (st : State) (c c' : ConnId) : info (cleanup st c) c' = info st c' := by
  unfold cleanup
  cases h : aget st.subs c with
  | none => rfl
  | some i =>
    simp only
    split
    · rename_i he
      simp only [info, subs_withSubs, aget_adel]
      by_cases hc : c = c'
      · subst hc
        simp only [if_true, h, Option.getD]
        simp only [Bool.and_eq_true, List.isEmpty_iff] at he
        obtain ⟨i1, i2⟩ := i
        simp only at he
        rw [he.1, he.2]
      · simp [hc]
    · rfl

theorem idx_cleanup (st : State) (c : ConnId) (k : Kind) : (cleanup st c).idx k = st.idx k := by
  unfold cleanup
  cases aget st.subs c with
  | none => rfl
  | some i => simp only; split <;> simp

theorem Inv.cleanup {st : State} (h : Inv st) (c : ConnId) : Inv (cleanup st c) := by
  have hh : ∀ c' k, held (PubSub.cleanup st c) c' k = held st c' k := by intro c' k; simp [held, info_cleanup]
  have hm : ∀ k x, members (PubSub.cleanup st c) k x = members st k x := by intro k x; simp [members, idx_cleanup]
  constructor
  · intro k x c'; rw [hh, hm]; exact h.agree k x c'
  · intro k; rw [idx_cleanup]; exact h.keysIdx k
  · unfold PubSub.cleanup
    cases aget st.subs c with
    | none => exact h.keysSubs
    | some i =>
      simp only
      split
      · exact nodup_keys_adel h.keysSubs _
      · exact h.keysSubs
  · intro k x; rw [hm]; exact h.nodupMembers k x
  · intro c' k; rw [hh]; exact h.nodupHeld c' k
  · intro k x; rw [idx_cleanup]; exact h.noEmpty k x

/-- After the clean-up a connection's entry, if any, is not empty. -/
theorem cleanup_nonempty (st : State) (c : ConnId) (i : Held) (h : aget (cleanup st c).subs c = some i) :
    i ≠ ([], []) := by
  unfold cleanup at h
  cases h0 : aget st.subs c with
  | none => rw [h0] at h; simp only at h; rw [h0] at h; cases h
  | some j =>
    rw [h0] at h
    simp only at h
    split at h
    · simp [aget_adel] at h
    · rename_i he
      rw [h0] at h
      injection h with h
      subst h
      intro e
      apply he
      rw [e]; rfl

/-! ### One iteration of (P)SUBSCRIBE -/

theorem sub1_dup {k : Kind} {c : ConnId} {st : State} {x : Bytes} (h : x ∈ held st c k) :
    sub1 k c st x = (st, ⟨k, false, x, (info st c).total, false⟩) := by
  unfold sub1
  simp only [held, info] at h
  simp only [h, if_true, info]

theorem sub1_new {k : Kind} {c : ConnId} {st : State} {x : Bytes} (h : x ∉ held st c k) :
    sub1 k c st x =
      ((st.withIdx k (aset (st.idx k) x (sins (members st k x) c))).withSubs
          (aset st.subs c ((info st c).upd k (held st c k ++ [x]))),
       ⟨k, false, x, ((info st c).upd k (held st c k ++ [x])).total, true⟩) := by
  unfold sub1
  simp only [held, info] at h
  simp only [h, if_false, info, held, members]

theorem info_sub1 (k : Kind) (c : ConnId) (st : State) (x : Bytes) (c' : ConnId) :
    info (sub1 k c st x).1 c' = if c' = c then (info st c).upd k (sins (held st c k) x) else info st c' := by
  by_cases h : x ∈ held st c k
  · rw [sub1_dup h, sins_of_mem h]
    unfold held
    rw [upd_sel_self]
    split
    · rename_i e; rw [e]
    · rfl
  · rw [sub1_new h, sins_of_not_mem h]
    simp only [info, subs_withSubs, aget_aset]
    by_cases hc : c = c'
    · subst hc; simp
    · have : ¬ c' = c := fun e => hc e.symm
      simp [hc, this]

theorem held_sub1 (k : Kind) (c : ConnId) (st : State) (x : Bytes) (c' : ConnId) (k' : Kind) :
    held (sub1 k c st x).1 c' k' = if c' = c ∧ k' = k then sins (held st c k) x else held st c' k' := by
  unfold held
  rw [info_sub1]
  by_cases hc : c' = c
  · subst hc
    by_cases hk : k' = k
    · simp [hk, held]
    · simp [hk]
  · simp [hc]

theorem idx_sub1 (k : Kind) (c : ConnId) (st : State) (x : Bytes) (k' : Kind) :
    (sub1 k c st x).1.idx k' =
      if x ∈ held st c k then st.idx k'
      else if k' = k then aset (st.idx k) x (sins (members st k x) c) else st.idx k' := by
  by_cases h : x ∈ held st c k
  · rw [sub1_dup h]; simp [h]
  · rw [sub1_new h]; simp [h]

theorem members_sub1 {k : Kind} {c : ConnId} {st : State} {x : Bytes}
    (hag : c ∈ members st k x ↔ x ∈ held st c k) (k' : Kind) (x' : Bytes) :
    members (sub1 k c st x).1 k' x' =
      if k' = k ∧ x' = x then sins (members st k x) c else members st k' x' := by
  rw [members_def, idx_sub1]
  by_cases h : x ∈ held st c k
  · simp only [h, if_true]
    split
    · rename_i e
      obtain ⟨e1, e2⟩ := e
      subst e1; subst e2
      rw [sins_of_mem (hag.2 h)]
      rfl
    · rfl
  · simp only [h, if_false]
    by_cases hk : k' = k
    · subst hk
      simp only [if_true, aget_aset, true_and]
      by_cases hx : x = x'
      · subst hx; simp
      · have : ¬ x' = x := fun e => hx e.symm
        simp [hx, this, members_def]
    · simp [hk, members_def]

theorem Inv.sub1 {st : State} (h : Inv st) (k : Kind) (c : ConnId) (x : Bytes) : Inv (sub1 k c st x).1 := by
  have hag := h.agree k x c
  constructor
  · intro k' x' c'
    rw [members_sub1 hag, held_sub1]
    by_cases hk : k' = k
    · subst hk
      by_cases hx : x' = x
      · subst hx
        by_cases hc : c' = c
        · subst hc; simp [mem_sins]
        · simp [hc, mem_sins, h.agree]
      · by_cases hc : c' = c
        · subst hc; simp [hx, mem_sins, h.agree]
        · simp [hx, hc, h.agree]
    · simp [hk, h.agree]
  · intro k'
    rw [idx_sub1]
    split
    · exact h.keysIdx k'
    · split
      · exact nodup_keys_aset (h.keysIdx k) _ _
      · exact h.keysIdx k'
  · by_cases hx : x ∈ held st c k
    · rw [sub1_dup hx]; exact h.keysSubs
    · rw [sub1_new hx]; exact nodup_keys_aset h.keysSubs _ _
  · intro k' x'
    rw [members_sub1 hag]
    split
    · exact nodup_sins (h.nodupMembers k x) c
    · exact h.nodupMembers k' x'
  · intro c' k'
    rw [held_sub1]
    split
    · exact nodup_sins (h.nodupHeld c k) x
    · exact h.nodupHeld c' k'
  · intro k' x'
    rw [idx_sub1]
    split
    · exact h.noEmpty k' x'
    · split
      · rw [aget_aset]
        split
        · intro e; injection e with e; exact sins_ne_nil _ _ e
        · exact h.noEmpty k x'
      · exact h.noEmpty k' x'

/-! ### One iteration of (P)UNSUBSCRIBE -/

theorem info_unsub1 (k : Kind) (c : ConnId) (st : State) (x : Bytes) (c' : ConnId) :
    info (unsub1 k c st x).1 c' = if c' = c then (info st c).upd k (srem (held st c k) x) else info st c' := by
  unfold unsub1
  simp only [info, subs_withSubs, aget_aset, held]
  by_cases hc : c = c'
  · subst hc; simp
  · have : ¬ c' = c := fun e => hc e.symm
    simp [hc, this]

theorem held_unsub1 (k : Kind) (c : ConnId) (st : State) (x : Bytes) (c' : ConnId) (k' : Kind) :
    held (unsub1 k c st x).1 c' k' = if c' = c ∧ k' = k then srem (held st c k) x else held st c' k' := by
  unfold held
  rw [info_unsub1]
  by_cases hc : c' = c
  · subst hc
    by_cases hk : k' = k
    · simp [hk, held]
    · simp [hk]
  · simp [hc]

/-- The name-side map after one iteration. -/
def unsubIdx (k : Kind) (c : ConnId) (st : State) (x : Bytes) : List (Bytes × List ConnId) :=
  if x ∈ held st c k then
    match aget (st.idx k) x with
    | some subscribers =>
      if (srem subscribers c).isEmpty then adel (st.idx k) x else aset (st.idx k) x (srem subscribers c)
    | none => st.idx k
  else st.idx k

theorem idx_unsub1 (k : Kind) (c : ConnId) (st : State) (x : Bytes) (k' : Kind) :
    (unsub1 k c st x).1.idx k' = if k' = k then unsubIdx k c st x else st.idx k' := by
  cases k <;> cases k' <;> rfl

theorem aget_unsubIdx (k : Kind) (c : ConnId) (st : State) (x x' : Bytes) :
    (aget (unsubIdx k c st x) x').getD [] =
      if x' = x ∧ x ∈ held st c k then srem (members st k x) c else members st k x' := by
  unfold unsubIdx members
  by_cases h : x ∈ held st c k
  · simp only [h, if_true, and_true]
    cases ha : aget (st.idx k) x with
    | none =>
      simp only
      split
      · rename_i e; subst e; simp [ha]
      · rfl
    | some subscribers =>
      simp only
      by_cases he : (srem subscribers c).isEmpty = true
      · simp only [he, if_true, aget_adel]
        by_cases hx : x = x'
        · subst hx
          simp only [if_true, Option.getD]
          simp only [List.isEmpty_iff] at he
          rw [he]
        · have : ¬ x' = x := fun e => hx e.symm
          simp [hx, this]
      · simp only [he, Bool.false_eq_true, if_false, aget_aset]
        by_cases hx : x = x'
        · subst hx; simp
        · have : ¬ x' = x := fun e => hx e.symm
          simp [hx, this]
  · simp [h]

theorem members_unsub1 {k : Kind} {c : ConnId} {st : State} {x : Bytes}
    (hag : c ∈ members st k x ↔ x ∈ held st c k) (k' : Kind) (x' : Bytes) :
    members (unsub1 k c st x).1 k' x' =
      if k' = k ∧ x' = x then srem (members st k x) c else members st k' x' := by
  rw [members_def, idx_unsub1]
  by_cases hk : k' = k
  · subst hk
    simp only [if_true, true_and, aget_unsubIdx]
    by_cases hx : x' = x
    · subst hx
      by_cases h : x' ∈ held st c k'
      · simp [h]
      · have : c ∉ members st k' x' := fun hm => h (hag.1 hm)
        simp [h, srem_of_not_mem this]
    · simp [hx]
  · simp [hk, members_def]

theorem unsubIdx_noEmpty {k : Kind} {c : ConnId} {st : State} {x : Bytes}
    (hne : ∀ x', aget (st.idx k) x' ≠ some []) (x' : Bytes) : aget (unsubIdx k c st x) x' ≠ some [] := by
  unfold unsubIdx
  split
  · cases ha : aget (st.idx k) x with
    | none => exact hne x'
    | some subscribers =>
      simp only
      by_cases he : (srem subscribers c).isEmpty = true
      · simp only [he, if_true, aget_adel]
        split
        · simp
        · exact hne x'
      · simp only [he, Bool.false_eq_true, if_false, aget_aset]
        split
        · intro e; injection e with e; exact he (by simp [e])
        · exact hne x'
  · exact hne x'

theorem unsubIdx_keys {k : Kind} {c : ConnId} {st : State} {x : Bytes}
    (hn : (keys (st.idx k)).Nodup) : (keys (unsubIdx k c st x)).Nodup := by
  unfold unsubIdx
  split
  · cases aget (st.idx k) x with
    | none => exact hn
    | some subscribers =>
      simp only
      split
      · exact nodup_keys_adel hn _
      · exact nodup_keys_aset hn _ _
  · exact hn

theorem Inv.unsub1 {st : State} (h : Inv st) (k : Kind) (c : ConnId) (x : Bytes) : Inv (unsub1 k c st x).1 := by
  have hag := h.agree k x c
  constructor
  · intro k' x' c'
    rw [members_unsub1 hag, held_unsub1]
    by_cases hk : k' = k
    · subst hk
      by_cases hx : x' = x
      · subst hx
        by_cases hc : c' = c
        · subst hc; simp [mem_srem]
        · simp [hc, mem_srem, h.agree]
      · by_cases hc : c' = c
        · subst hc; simp [hx, mem_srem, h.agree]
        · simp [hx, hc, h.agree]
    · simp [hk, h.agree]
  · intro k'
    rw [idx_unsub1]
    split
    · exact unsubIdx_keys (h.keysIdx k)
    · exact h.keysIdx k'
  · unfold PubSub.unsub1
    simp only [subs_withSubs]
    exact nodup_keys_aset h.keysSubs _ _
  · intro k' x'
    rw [members_unsub1 hag]
    split
    · exact nodup_srem (h.nodupMembers k x) c
    · exact h.nodupMembers k' x'
  · intro c' k'
    rw [held_unsub1]
    split
    · exact nodup_srem (h.nodupHeld c k) x
    · exact h.nodupHeld c' k'
  · intro k' x'
    rw [idx_unsub1]
    split
    · exact unsubIdx_noEmpty (h.noEmpty k) x'
    · exact h.noEmpty k' x'

/-! ### Loops -/

theorem loop_fst_inv {P : State → Prop} {f : State → Bytes → State × Ack}
    (hf : ∀ st x, P st → P (f st x).1) : ∀ (xs : List Bytes) (st : State), P st → P (loop f st xs).1 := by
  intro xs
  induction xs with
  | nil => intro st h; exact h
  | cons x xs ih => intro st h; exact ih _ (hf st x h)

theorem Inv.subscribe {st : State} (h : Inv st) (k : Kind) (c : ConnId) (xs : List Bytes) :
    Inv (subscribe k c st xs).1 :=
  loop_fst_inv (P := Inv) (fun _ x hs => Inv.sub1 hs k c x) xs _ (h.ensure c)

theorem Inv.unsubscribe {st : State} (h : Inv st) (k : Kind) (c : ConnId) (xs : Option (List Bytes)) :
    Inv (unsubscribe k c st xs).1 := by
  unfold PubSub.unsubscribe
  cases aget st.subs c with
  | none => exact h
  | some i => exact Inv.cleanup (loop_fst_inv (P := Inv) (fun _ x hs => Inv.unsub1 hs k c x) _ _ h) c

/-! ### `unsubscribe_all` -/

theorem info_unsubscribeAll (st : State) (c c' : ConnId) :
    info (unsubscribeAll st c) c' = if c' = c then ([], []) else info st c' := by
  simp only [unsubscribeAll, info, aget_adel]
  by_cases hc : c = c'
  · subst hc; simp
  · have : ¬ c' = c := fun e => hc e.symm
    simp [hc, this]

theorem held_unsubscribeAll (st : State) (c c' : ConnId) (k : Kind) :
    held (unsubscribeAll st c) c' k = if c' = c then [] else held st c' k := by
  unfold held
  rw [info_unsubscribeAll]
  split
  · cases k <;> rfl
  · rfl

theorem idx_unsubscribeAll (st : State) (c : ConnId) (k : Kind) :
    (unsubscribeAll st c).idx k = purge (st.idx k) c := by
  cases k <;> rfl

theorem members_unsubscribeAll {st : State} (h : Inv st) (c : ConnId) (k : Kind) (x : Bytes) :
    members (unsubscribeAll st c) k x = srem (members st k x) c := by
  rw [members_def, idx_unsubscribeAll, aget_purge (h.keysIdx k), members_def]
  cases aget (st.idx k) x with
  | none => rfl
  | some cs =>
    simp only
    by_cases he : (srem cs c).isEmpty = true
    · simp only [he, if_true, Option.getD]
      simp only [List.isEmpty_iff] at he
      rw [he]
    · simp [he]

theorem Inv.unsubscribeAll {st : State} (h : Inv st) (c : ConnId) : Inv (unsubscribeAll st c) := by
  constructor
  · intro k x c'
    rw [members_unsubscribeAll h, held_unsubscribeAll, mem_srem]
    by_cases hc : c' = c
    · simp [hc]
    · simp [hc, h.agree]
  · intro k; rw [idx_unsubscribeAll]; exact nodup_keys_purge (h.keysIdx k) c
  · exact nodup_keys_adel h.keysSubs c
  · intro k x; rw [members_unsubscribeAll h]; exact nodup_srem (h.nodupMembers k x) c
  · intro c' k
    rw [held_unsubscribeAll]
    split
    · exact List.nodup_nil
    · exact h.nodupHeld c' k
  · intro k x; rw [idx_unsubscribeAll]; exact aget_purge_ne_nil (h.keysIdx k) c x

/-! ### Histories -/

theorem Inv.next {st : State} (h : Inv st) (op : Op) : Inv (Code.next st op) := by
  cases op with
  | subscribe c k xs => exact h.subscribe k c xs
  | unsubscribe c k xs => exact h.unsubscribe k c xs
  | disconnect c => exact h.unsubscribeAll c
  | publish c ch msg => exact h

theorem Inv.after {st : State} (h : Inv st) (ops : List Op) : Inv (Code.after st ops) := by
  induction ops generalizing st with
  | nil => exact h
  | cons op ops ih => exact ih (h.next op)

end Ferrous.PubSub
