/-
  Per-connection streams: the event log is append-only in operation order, the message
  part of a connection's stream is the concatenation of one block per PUBLISH, and a
  connection that holds no matching subscription (after UNSUBSCRIBE / disconnect, until it
  subscribes again) receives nothing.
-/
import FerrousSpec.Proofs.PubSubPublish
set_option linter.unusedSimpArgs false
namespace Ferrous.PubSub

/-! ### Logs and streams are append-only -/

theorem Code.after_append (st : State) (ops1 ops2 : List Op) :
    Code.after st (ops1 ++ ops2) = Code.after (Code.after st ops1) ops2 := by
  simp [Code.after, List.foldl_append]

theorem Code.after_cons (st : State) (op : Op) (ops : List Op) :
    Code.after st (op :: ops) = Code.after (Code.next st op) ops := rfl

theorem Spec.after_cons (s : Spec.State) (op : Op) (ops : List Op) :
    Spec.after s (op :: ops) = Spec.after (Spec.next s op) ops := rfl

theorem Code.log_append (dedup idle : Bool) (st : State) (ops1 ops2 : List Op) :
    Code.log dedup idle st (ops1 ++ ops2) =
      Code.log dedup idle st ops1 ++ Code.log dedup idle (Code.after st ops1) ops2 := by
  induction ops1 generalizing st with
  | nil => rfl
  | cons op ops ih => simp [Code.log, ih, Code.after_cons]

theorem received_append (l1 l2 : List (ConnId × Event)) (c : ConnId) :
    received (l1 ++ l2) c = received l1 c ++ received l2 c := by
  simp [received]

theorem msgsOf_append (a b : List Event) : msgsOf (a ++ b) = msgsOf a ++ msgsOf b := by
  simp [msgsOf]

/-! ### The message part of a stream, operation by operation -/

theorem msgsOf_received_acks (c c' : ConnId) (as : List Ack) :
    msgsOf (received (as.map (fun a => ((c', Event.ack a) : ConnId × Event))) c) = [] := by
  induction as with
  | nil => rfl
  | cons a as ih =>
    simp only [List.map_cons, received, msgsOf] at ih ⊢
    by_cases h : c' = c
    · subst h
      simp only [List.filter, decide_true, List.map_cons, Event.isMsg]
      exact ih
    · simp only [List.filter, h, decide_false]
      exact ih

theorem msgsOf_received_toEvents (c : ConnId) (ch msg : Bytes) (ds : List Delivery) :
    msgsOf (received (ds.map (toEvent ch msg)) c) = msgBlock c ch msg ds := by
  unfold msgBlock
  induction ds with
  | nil => rfl
  | cons d ds ih =>
    simp only [received, msgsOf, List.map_cons] at ih ⊢
    have h1 : (toEvent ch msg d).1 = d.1 := by unfold toEvent; split <;> rfl
    have h3 : (toEvent ch msg d).2.isMsg = true := by unfold toEvent; split <;> rfl
    by_cases h : d.1 = c
    · simp only [List.filter, h1, h, decide_true, List.map_cons, h3]
      rw [ih]
    · simp only [List.filter, h1, h, decide_false]
      exact ih

theorem msgsOf_received_pubEvents (c p : ConnId) (ch msg : Bytes) (ds : List Delivery) :
    msgsOf (received (pubEvents p ch msg ds) c) = msgBlock c ch msg ds := by
  unfold pubEvents
  rw [received_append, msgsOf_append]
  have h2 : msgsOf (received [((p, Event.published ds.length) : ConnId × Event)] c) = [] := by
    by_cases h : p = c <;> simp [received, msgsOf, List.filter, h, Event.isMsg]
  rw [h2, List.append_nil, msgsOf_received_toEvents]

/-- Events that are not `message` / `pmessage` frames contribute nothing to the message part. -/
theorem msgsOf_received_nonmsg (c c' : ConnId) (es : List Event) (h : ∀ e ∈ es, e.isMsg = false) :
    msgsOf (received (es.map (fun e => ((c', e) : ConnId × Event))) c) = [] := by
  induction es with
  | nil => rfl
  | cons e es ih =>
    have ih := ih (fun e' he' => h e' (List.mem_cons_of_mem _ he'))
    have he : e.isMsg = false := h e List.mem_cons_self
    simp only [List.map_cons, received, msgsOf] at ih ⊢
    by_cases hc : c' = c
    · subst hc
      simp only [List.filter, decide_true, List.map_cons, he]
      exact ih
    · simp only [List.filter, hc, decide_false]
      exact ih

theorem unsubEvents_nonmsg (idle : Bool) (k : Kind) (xs : Option (List Bytes)) (results : List Ack) (n : Nat) :
    ∀ e ∈ Code.unsubEvents idle k xs results n, e.isMsg = false := by
  intro e he
  unfold Code.unsubEvents at he
  split at he
  · cases xs with
    | none => simp only [List.mem_singleton] at he; subst he; rfl
    | some l =>
      simp only [List.mem_map] at he
      obtain ⟨_, _, rfl⟩ := he
      rfl
  · simp only [List.mem_map] at he
    obtain ⟨_, _, rfl⟩ := he
    rfl

theorem msgsOf_received_emit (dedup idle : Bool) (st : State) (op : Op) (c : ConnId) :
    msgsOf (received (Code.emit dedup idle st op) c) =
      match op with
      | .publish _ ch msg => msgBlock c ch msg (publish dedup st ch)
      | _ => [] := by
  cases op with
  | subscribe c' k xs => exact msgsOf_received_acks c c' _
  | unsubscribe c' k xs => exact msgsOf_received_nonmsg c c' _ (unsubEvents_nonmsg _ _ _ _ _)
  | disconnect c' => rfl
  | publish p ch msg => exact msgsOf_received_pubEvents c p ch msg _

/-- A connection's messages are the blocks of the history's PUBLISHes, in publish order. -/
theorem msgs_eq_blocks (dedup idle : Bool) (st : State) (ops : List Op) (c : ConnId) :
    msgsOf (received (Code.log dedup idle st ops) c) = (Code.blocks dedup st ops c).flatten := by
  induction ops generalizing st with
  | nil => rfl
  | cons op ops ih =>
    simp only [Code.log, received_append, msgsOf_append, msgsOf_received_emit, ih]
    cases op <;> simp [Code.blocks]

theorem msgBlock_perm {c : ConnId} {ch msg : Bytes} {l1 l2 : List Delivery} (h : l1.Perm l2) :
    (msgBlock c ch msg l1).Perm (msgBlock c ch msg l2) :=
  (h.filter _).map _

theorem blocks_perm_spec {st : State} {s : Spec.State} (hinv : Inv st) (hrel : Rel st s) (ops : List Op) (c : ConnId) :
    BlocksPerm (Code.blocks false st ops c) (Spec.blocks s ops c) := by
  induction ops generalizing st s with
  | nil => trivial
  | cons op ops ih =>
    have hn := ih (hinv.next op) (hrel.next op).1
    cases op with
    | publish p ch msg =>
      simp only [Code.blocks, Spec.blocks, BlocksPerm]
      exact ⟨msgBlock_perm (by simpa [publish] using candidates_perm_spec hinv hrel ch), hn⟩
    | subscribe c' k xs => simpa [Code.blocks, Spec.blocks] using hn
    | unsubscribe c' k xs => simpa [Code.blocks, Spec.blocks] using hn
    | disconnect c' => simpa [Code.blocks, Spec.blocks] using hn

theorem publish_dedup_perm_spec {st : State} {s : Spec.State} (hinv : Inv st) (hrel : Rel st s) (ch : Bytes)
    (hno : ((Spec.deliveries s ch).map (·.1)).Nodup) : (publish true st ch).Perm (Spec.deliveries s ch) := by
  have hp := candidates_perm_spec hinv hrel ch
  have hn : ((candidates st ch).map (·.1)).Nodup := (hp.map (·.1)).nodup_iff.2 hno
  simp only [publish, if_true]
  rw [dedupGo_eq_self [] _ hn (by intro d _ h; cases h)]
  exact hp

theorem blocks_dedup_perm_spec {st : State} {s : Spec.State} (hinv : Inv st) (hrel : Rel st s) (ops : List Op) (c : ConnId)
    (hno : Spec.neverOverlap s ops) : BlocksPerm (Code.blocks true st ops c) (Spec.blocks s ops c) := by
  induction ops generalizing st s with
  | nil => trivial
  | cons op ops ih =>
    cases op with
    | publish p ch msg =>
      simp only [Spec.neverOverlap] at hno
      simp only [Code.blocks, Spec.blocks, BlocksPerm]
      exact ⟨msgBlock_perm (publish_dedup_perm_spec hinv hrel ch hno.1),
        ih (hinv.next _) (hrel.next _).1 hno.2⟩
    | subscribe c' k xs =>
      simp only [Spec.neverOverlap] at hno
      simpa [Code.blocks, Spec.blocks] using ih (hinv.next _) (hrel.next (.subscribe c' k xs)).1 hno
    | unsubscribe c' k xs =>
      simp only [Spec.neverOverlap] at hno
      simpa [Code.blocks, Spec.blocks] using ih (hinv.next _) (hrel.next (.unsubscribe c' k xs)).1 hno
    | disconnect c' =>
      simp only [Spec.neverOverlap] at hno
      simpa [Code.blocks, Spec.blocks] using ih (hinv.next _) (hrel.next (.disconnect c')).1 hno

/-! ### What a connection holds never grows unless it subscribes -/

theorem held_loop_sub1_other {k : Kind} {c c' : ConnId} (hc : c ≠ c') (k' : Kind) (xs : List Bytes) (st : State) :
    held (loop (sub1 k c') st xs).1 c k' = held st c k' := by
  induction xs generalizing st with
  | nil => rfl
  | cons x xs ih =>
    simp only [loop]
    rw [ih, held_sub1]
    simp [hc]

theorem held_loop_unsub1_subset {k : Kind} {c c' : ConnId} (k' : Kind) (y : Bytes) (xs : List Bytes) (st : State)
    (h : y ∈ held (loop (unsub1 k c') st xs).1 c k') : y ∈ held st c k' := by
  induction xs generalizing st with
  | nil => exact h
  | cons x xs ih =>
    simp only [loop] at h
    have := ih _ h
    rw [held_unsub1] at this
    split at this
    · rename_i e
      obtain ⟨e1, e2⟩ := e
      subst e1; subst e2
      exact ((mem_srem _ _ _).1 this).1
    · exact this

theorem held_next_subset {st : State} {op : Op} {c : ConnId} (hop : op.subscribesAs c = false) (k : Kind) (y : Bytes)
    (h : y ∈ held (Code.next st op) c k) : y ∈ held st c k := by
  cases op with
  | subscribe c' k' xs =>
    have hc : c ≠ c' := by
      intro e
      simp [Op.subscribesAs, e] at hop
    simp only [Code.next, Code.apply, subscribe] at h
    rw [held_loop_sub1_other hc] at h
    simpa [held, info_ensure] using h
  | unsubscribe c' k' xs =>
    simp only [Code.next, Code.apply, unsubscribe] at h
    cases ha : aget st.subs c' with
    | none => rw [ha] at h; exact h
    | some i =>
      rw [ha] at h
      simp only [held, info_cleanup] at h
      exact held_loop_unsub1_subset k y _ st h
  | disconnect c' =>
    simp only [Code.next, Code.apply] at h
    rw [held_unsubscribeAll] at h
    split at h
    · cases h
    · exact h
  | publish p ch msg => exact h

/-- Connection `c` holds no subscription matching channel `ch`. -/
def quiet (st : State) (c : ConnId) (ch : Bytes) : Prop :=
  ch ∉ held st c .chan ∧ ∀ p ∈ held st c .pat, globBytes p ch = false

theorem quiet_next {st : State} {op : Op} {c : ConnId} {ch : Bytes} (hop : op.subscribesAs c = false)
    (h : quiet st c ch) : quiet (Code.next st op) c ch :=
  ⟨fun hm => h.1 (held_next_subset hop _ _ hm), fun p hp => h.2 p (held_next_subset hop _ _ hp)⟩

theorem no_delivery_of_quiet {dedup : Bool} {st : State} (hinv : Inv st) {c : ConnId} {ch : Bytes} (h : quiet st c ch)
    (o : Option Bytes) : ((c, o) : Delivery) ∉ publish dedup st ch := by
  intro hm
  have hm := mem_publish hm
  cases o with
  | none =>
    rw [mem_candidates_none, hinv.agree] at hm
    exact h.1 hm
  | some p =>
    rw [mem_candidates_some hinv, hinv.agree] at hm
    have := h.2 p hm.2
    rw [hm.1] at this
    cases this

theorem chan_of_mem_msgBlock {c : ConnId} {ch msg : Bytes} {ds : List Delivery} {e : Event}
    (h : e ∈ msgBlock c ch msg ds) : ∃ o, ((c, o) : Delivery) ∈ ds := by
  unfold msgBlock at h
  simp only [List.mem_map, List.mem_filter, decide_eq_true_eq] at h
  obtain ⟨d, ⟨hd, hc⟩, _⟩ := h
  obtain ⟨d1, d2⟩ := d
  simp only at hc
  subst hc
  exact ⟨d2, hd⟩

theorem chan_of_msgBlock {c : ConnId} {ch msg : Bytes} {ds : List Delivery} {e : Event}
    (h : e ∈ msgBlock c ch msg ds) : e.chan? = some ch := by
  unfold msgBlock at h
  simp only [List.mem_map] at h
  obtain ⟨d, _, rfl⟩ := h
  unfold toEvent
  split <;> rfl

/-- While `c` holds nothing matching `ch` and does not subscribe, no frame for channel `ch`
    enters its stream. -/
theorem quiet_blocks (dedup : Bool) {c : ConnId} {ch : Bytes} : ∀ (ops : List Op) (st : State), Inv st → quiet st c ch →
    (∀ op ∈ ops, op.subscribesAs c = false) →
    ∀ b ∈ Code.blocks dedup st ops c, ∀ e ∈ b, e.chan? ≠ some ch := by
  intro ops
  induction ops with
  | nil => intro st _ _ _ b hb; cases hb
  | cons op ops ih =>
    intro st hinv hq hops b hb e he
    have hop : op.subscribesAs c = false := hops op List.mem_cons_self
    have hrest := ih (Code.next st op) (hinv.next op) (quiet_next hop hq)
      (fun o ho => hops o (List.mem_cons_of_mem _ ho))
    cases op with
    | publish p ch' msg =>
      simp only [Code.blocks, List.mem_cons] at hb
      rcases hb with hb | hb
      · subst hb
        intro hch
        have hch' := chan_of_msgBlock he
        rw [hch'] at hch
        injection hch with hch
        subst hch
        obtain ⟨o, ho⟩ := chan_of_mem_msgBlock he
        exact no_delivery_of_quiet hinv hq o ho
      · exact hrest b hb e he
    | subscribe c' k xs => exact hrest b (by simpa [Code.blocks] using hb) e he
    | unsubscribe c' k xs => exact hrest b (by simpa [Code.blocks] using hb) e he
    | disconnect c' => exact hrest b (by simpa [Code.blocks] using hb) e he

theorem isMsg_of_mem_msgsOf {es : List Event} {e : Event} (h : e ∈ msgsOf es) : e.isMsg = true := by
  unfold msgsOf at h
  exact (List.mem_filter.1 h).2

theorem chan_of_isMsg {e : Event} (h : e.isMsg = true) : ∃ ch, e.chan? = some ch := by
  cases e with
  | ack a => cases h
  | ackNil k n => cases h
  | message ch m => exact ⟨ch, rfl⟩
  | pmessage p ch m => exact ⟨ch, rfl⟩
  | published n => cases h

/-! ### The same for one pattern: after PUNSUBSCRIBE no `pmessage` naming it -/

theorem pat_of_mem_msgBlock {c : ConnId} {ch msg : Bytes} {ds : List Delivery} {p ch' m : Bytes}
    (h : Event.pmessage p ch' m ∈ msgBlock c ch msg ds) : ((c, some p) : Delivery) ∈ ds := by
  unfold msgBlock at h
  simp only [List.mem_map, List.mem_filter, decide_eq_true_eq] at h
  obtain ⟨d, ⟨hd, hc⟩, he⟩ := h
  obtain ⟨d1, d2⟩ := d
  simp only at hc
  subst hc
  unfold toEvent at he
  cases d2 with
  | none => simp at he
  | some q =>
    simp only at he
    injection he with h1 _ _
    subst h1
    exact hd

theorem no_pdelivery_of_not_held {dedup : Bool} {st : State} (hinv : Inv st) {c : ConnId} {p ch : Bytes}
    (h : p ∉ held st c .pat) : ((c, some p) : Delivery) ∉ publish dedup st ch := by
  intro hm
  have hm := mem_publish hm
  rw [mem_candidates_some hinv, hinv.agree] at hm
  exact h hm.2

/-- While `c` does not hold pattern `p` and does not subscribe, no `pmessage` naming `p` enters its stream. -/
theorem quietPat_blocks (dedup : Bool) {c : ConnId} {p : Bytes} : ∀ (ops : List Op) (st : State), Inv st →
    p ∉ held st c .pat → (∀ op ∈ ops, op.subscribesAs c = false) →
    ∀ b ∈ Code.blocks dedup st ops c, ∀ ch m, Event.pmessage p ch m ∉ b := by
  intro ops
  induction ops with
  | nil => intro st _ _ _ b hb; cases hb
  | cons op ops ih =>
    intro st hinv hq hops b hb ch m he
    have hop : op.subscribesAs c = false := hops op List.mem_cons_self
    have hrest := ih (Code.next st op) (hinv.next op) (fun hm => hq (held_next_subset hop _ _ hm))
      (fun o ho => hops o (List.mem_cons_of_mem _ ho))
    cases op with
    | publish q ch' msg =>
      simp only [Code.blocks, List.mem_cons] at hb
      rcases hb with hb | hb
      · subst hb
        exact no_pdelivery_of_not_held hinv hq (pat_of_mem_msgBlock he)
      · exact hrest b hb ch m he
    | subscribe c' k xs => exact hrest b (by simpa [Code.blocks] using hb) ch m he
    | unsubscribe c' k xs => exact hrest b (by simpa [Code.blocks] using hb) ch m he
    | disconnect c' => exact hrest b (by simpa [Code.blocks] using hb) ch m he

/-! ### What is certainly gone after (P)UNSUBSCRIBE -/

theorem Spec.heldBy_loop_unsub1 {k : Kind} {c : ConnId} (k' : Kind) (y : Bytes) : ∀ (l : List Bytes) (s : Spec.State),
    y ∈ Spec.heldBy (loop (Spec.unsub1 k c) s l).1 c k' → y ∈ Spec.heldBy s c k' ∧ (k' = k → y ∉ l) := by
  intro l
  induction l with
  | nil => intro s h; exact ⟨h, fun _ => by simp⟩
  | cons x l ih =>
    intro s h
    have := ih (Spec.unsub1 k c s x).1 (by simpa [loop] using h)
    simp only [Spec.unsub1] at this
    rw [Spec.heldBy_filter_ne] at this
    by_cases hk : k' = k
    · subst hk
      simp only [and_self, if_true, mem_srem] at this
      exact ⟨this.1.1, fun _ => by simp only [List.mem_cons, not_or]; exact ⟨this.1.2, this.2 trivial⟩⟩
    · simp only [hk, and_false, if_false] at this
      exact ⟨this.1, fun e => absurd e hk⟩

/-- After `(P)UNSUBSCRIBE` naming `x` (or naming nothing = all) the connection does not hold `x`. -/
theorem not_held_after_unsubscribe (ops : List Op) (c : ConnId) (k : Kind) (xs : Option (List Bytes)) (x : Bytes)
    (hx : ∀ l, xs = some l → x ∈ l) : x ∉ held (Code.after {} (ops ++ [Op.unsubscribe c k xs])) c k := by
  have hrel := Rel.init.after (ops ++ [Op.unsubscribe c k xs])
  have hspec : Spec.after [] (ops ++ [Op.unsubscribe c k xs]) =
      (loop (Spec.unsub1 k c) (Spec.after [] ops) (xs.getD (Spec.heldBy (Spec.after [] ops) c k))).1 := by
    simp [Spec.after, List.foldl_append, Spec.next, Spec.apply, Spec.unsubscribe]
  rw [← hrel.heldEq, hspec]
  intro hm
  obtain ⟨h1, h2⟩ := Spec.heldBy_loop_unsub1 k x _ _ hm
  cases xs with
  | none => exact h2 rfl (by simpa using h1)
  | some l => exact h2 rfl (by simpa using hx l rfl)

end Ferrous.PubSub
