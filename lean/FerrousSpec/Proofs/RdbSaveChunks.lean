/-
  C10, part 1: the call-by-call writer (`cSnapshot`) concatenates to the byte-level writer of C09
  (`encSnapshot`), so everything proved about `encSnapshot` holds for a completed save run.
-/
import FerrousSpec.Model.RdbSave
import FerrousSpec.Proofs.RdbPrim
set_option linter.unusedSimpArgs false
set_option linter.unusedVariables false
namespace Ferrous.RdbSave
open Ferrous Ferrous.Rdb

theorem flatten_flatMap {α : Type} (f : α → List Bytes) (l : List α) :
    (l.flatMap f).flatten = l.flatMap fun x => (f x).flatten := by
  induction l with
  | nil => rfl
  | cons x xs ih => simp [List.flatMap_cons, List.flatten_append, ih]

theorem flatMap_congr_fun {α β : Type} (f g : α → List β) (h : ∀ x, f x = g x) (l : List α) :
    l.flatMap f = l.flatMap g := by
  have : f = g := funext h
  rw [this]

@[simp] theorem cLen_flatten (n : Nat) : (cLen n).flatten = encLen n := by
  unfold cLen encLen
  split
  · simp
  · split <;> simp

@[simp] theorem cString_flatten (s : Bytes) : (cString s).flatten = encString s := by
  simp [cString, encString, List.flatten_append]

@[simp] theorem cStrings_flatten (xs : List Bytes) : (cStrings xs).flatten = encStrings xs := by
  unfold cStrings encStrings
  rw [flatten_flatMap]
  exact flatMap_congr_fun _ _ cString_flatten xs

@[simp] theorem cPairs_flatten (fs : List (Bytes × Bytes)) : (cPairs fs).flatten = encPairs fs := by
  unfold cPairs encPairs
  rw [flatten_flatMap]
  exact flatMap_congr_fun _ _ (fun p => by simp [cPair, encPair, List.flatten_append]) fs

@[simp] theorem cZItems_flatten (zs : List (Bytes × Nat)) : (cZItems zs).flatten = encZItems zs := by
  unfold cZItems encZItems
  rw [flatten_flatMap]
  exact flatMap_congr_fun _ _ (fun p => by simp [cZItem, encZItem, List.flatten_append]) zs

@[simp] theorem cSEntries_flatten (es : List SEntry) : (cSEntries es).flatten = encSEntries es := by
  unfold cSEntries encSEntries
  rw [flatten_flatMap]
  exact flatMap_congr_fun _ _ (fun e => by simp [cSEntry, encSEntry, List.flatten_append]) es

@[simp] theorem cLastId_flatten (es : List SEntry) : (cLastId es).flatten = encLastId es := by
  simp [cLastId, encLastId, List.flatten_append]

@[simp] theorem cValue_flatten (v : Value) : (cValue v).flatten = encValue v := by
  cases v <;> simp [cValue, encValue, List.flatten_append]

@[simp] theorem cKV_flatten (k : Bytes) (v : Value) : (cKV k v).flatten = encKV k v := by
  simp [cKV, encKV, List.flatten_append]

@[simp] theorem cEntry_flatten (t : Nat) (e : Entry) : (cEntry t e).flatten = encEntry t e := by
  unfold cEntry encEntry
  cases e.deadline with
  | none => simp
  | some d =>
    simp only []
    split <;> simp

@[simp] theorem cEntries_flatten (t : Nat) (es : Db) : (cEntries t es).flatten = encEntries t es := by
  unfold cEntries encEntries
  rw [flatten_flatMap]
  exact flatMap_congr_fun _ _ (cEntry_flatten t) es

@[simp] theorem cDb_flatten (t : Nat) (p : Nat × Db) : (cDb t p).flatten = encDb t p := by
  unfold cDb encDb
  split <;> simp [List.flatten_append]

@[simp] theorem cDbs_flatten (t : Nat) (d : Dataset) : (cDbs t d).flatten = encDbs t d := by
  unfold cDbs encDbs
  rw [flatten_flatMap]
  exact flatMap_congr_fun _ _ (cDb_flatten t) d

@[simp] theorem cAux_flatten (k v : Bytes) : (cAux k v).flatten = encAux k v := by
  simp [cAux, encAux, List.flatten_append]

theorem cBody_flatten (ver : Bytes) (d : Dataset) (t : Nat) : (cBody ver d t).flatten = encBody ver d t := by
  simp [cBody, encBody, header, List.flatten_append, List.append_assoc]

/-- The `write_raw` calls of a complete save concatenate to exactly `encSnapshot`. -/
theorem cSnapshot_flatten (ver : Bytes) (d : Dataset) (t : Nat) : (cSnapshot ver d t).flatten = encSnapshot ver d t := by
  simp [cSnapshot, encSnapshot, List.flatten_append, cBody_flatten]

end Ferrous.RdbSave
