/-
  Single-star backtracking over tokens computes the textbook glob semantics.

  `tokLoop` is the engine's loop (`Code.globLoop`) with the pattern already cut into tokens;
  `tokLoop_correct` shows that its verdict is `Spec.matchToks` — the classical argument that it is
  enough to backtrack to the most recent `*` because every token other than `*` consumes exactly
  one character.
-/
import FerrousSpec.Model.Scan
namespace Ferrous.Scan
open Spec

def isStar : Tok → Bool
  | .star => true
  | _ => false

inductive TStep where
  | adv (r : List Tok)
  | star (r : List Tok)
  | fail

def tokStep : List Tok → Nat → TStep
  | [], _ => .fail
  | tk :: r, c => if isStar tk then .star r else if tokAccepts tk c then .adv r else .fail

def tokLoop : Nat → List Tok → List Nat → Option (List Tok × List Nat) → Option Bool
  | 0, _, _, _ => none
  | _ + 1, toks, [], _ => some (toks.all isStar)
  | f + 1, toks, c :: t, star =>
    match tokStep toks c with
    | .adv r => tokLoop f r t star
    | .star r => tokLoop f r (c :: t) (some (r, c :: t))
    | .fail =>
      match star with
      | none => some false
      | some (ps, ts) => tokLoop f ps ts.tail (some (ps, ts.tail))

/-! ### `matchToks`, equation by equation -/

theorem matchToks_star (ps : List Tok) (t : List Nat) : matchToks (.star :: ps) t = someSuffix (matchToks ps) t := by
  cases t <;> simp [matchToks]

theorem matchToks_cons_nil {tk : Tok} (h : isStar tk = false) (ps : List Tok) : matchToks (tk :: ps) [] = false := by
  cases tk <;> simp_all [matchToks, isStar]

theorem matchToks_cons_cons {tk : Tok} (h : isStar tk = false) (ps : List Tok) (c : Nat) (t : List Nat) :
    matchToks (tk :: ps) (c :: t) = (tokAccepts tk c && matchToks ps t) := by
  cases tk <;> simp_all [matchToks, isStar]

theorem matchToks_nil_text : ∀ toks : List Tok, matchToks toks [] = toks.all isStar
  | [] => by simp [matchToks]
  | tk :: ps => by
    cases h : isStar tk
    · rw [matchToks_cons_nil h]; simp [h]
    · have : tk = .star := by cases tk <;> simp_all [isStar]
      subst this
      rw [matchToks_star]
      simp [someSuffix, matchToks_nil_text ps, isStar]

/-! ### Suffixes -/

theorem someSuffix_iff (k : List Nat → Bool) : ∀ t : List Nat,
    someSuffix k t = true ↔ ∃ i, i ≤ t.length ∧ k (t.drop i) = true
  | [] => by
    simp only [someSuffix, List.length_nil, Nat.le_zero_eq, List.drop_nil]
    constructor
    · intro h; exact ⟨0, rfl, h⟩
    · rintro ⟨_, _, h⟩; exact h
  | c :: t => by
    simp only [someSuffix, Bool.or_eq_true, someSuffix_iff k t, List.length_cons]
    constructor
    · rintro (h | ⟨i, hi, h⟩)
      · exact ⟨0, by omega, by simpa using h⟩
      · exact ⟨i + 1, by omega, by simpa using h⟩
    · rintro ⟨i, hi, h⟩
      cases i with
      | zero => left; simpa using h
      | succ i => right; exact ⟨i, by omega, by simpa using h⟩

/-- The alternatives still open at the saved star: the pattern after it against a later suffix. -/
def alt : Option (List Tok × List Nat) → Bool
  | none => false
  | some (_, []) => false
  | some (ps, _ :: ts) => someSuffix (matchToks ps) ts

theorem alt_iff (ps : List Tok) (ts : List Nat) :
    alt (some (ps, ts)) = true ↔ ∃ i, 1 ≤ i ∧ i ≤ ts.length ∧ matchToks ps (ts.drop i) = true := by
  cases ts with
  | nil =>
    simp only [alt, List.length_nil]
    constructor
    · intro h; simp at h
    · rintro ⟨i, h1, h2, _⟩; omega
  | cons c ts =>
    simp only [alt, someSuffix_iff, List.length_cons]
    constructor
    · rintro ⟨i, hi, h⟩
      exact ⟨i + 1, by omega, by omega, by simpa using h⟩
    · rintro ⟨i, h1, h2, h⟩
      cases i with
      | zero => omega
      | succ i => exact ⟨i, by omega, by simpa using h⟩

/-! ### Tokens that consume exactly one character -/

theorem prefix_consume : ∀ (q rest : List Tok) (s : List Nat), (∀ tk ∈ q, isStar tk = false) →
    matchToks (q ++ rest) s = true → q.length ≤ s.length ∧ matchToks rest (s.drop q.length) = true
  | [], _, _, _, h => by simpa using h
  | tk :: q, rest, [], hq, h => by
    rw [List.cons_append, matchToks_cons_nil (hq tk (by simp))] at h
    simp at h
  | tk :: q, rest, c :: s, hq, h => by
    rw [List.cons_append, matchToks_cons_cons (hq tk (by simp)), Bool.and_eq_true] at h
    have := prefix_consume q rest s (fun x hx => hq x (by simp [hx])) h.2
    simp only [List.length_cons, List.drop_succ_cons]
    exact ⟨by omega, this.2⟩

/-- What links the saved star to the current position: the pattern after the star is `q` followed
    by the current pattern, the text at the star is `seg` followed by the current text, and `q`
    consists of `|seg|` one-character tokens. -/
def Inv (toks : List Tok) (t : List Nat) : Option (List Tok × List Nat) → Prop
  | none => True
  | some (ps, ts) => ∃ q seg, ps = q ++ toks ∧ ts = seg ++ t ∧ seg.length = q.length ∧ ∀ tk ∈ q, isStar tk = false

/-- A new `*` makes the alternatives of the previous one redundant. -/
theorem alt_subsumed {r : List Tok} {t : List Nat} {star : Option (List Tok × List Nat)}
    (hinv : Inv (.star :: r) t star) (halt : alt star = true) : matchToks (.star :: r) t = true := by
  cases star with
  | none => simp [alt] at halt
  | some st =>
    obtain ⟨ps, ts⟩ := st
    obtain ⟨q, seg, hps, hts, hlen, hq⟩ := hinv
    obtain ⟨i, hi1, hi2, hm⟩ := (alt_iff ps ts).mp halt
    rw [hps] at hm
    obtain ⟨hlen2, hm2⟩ := prefix_consume q (.star :: r) (ts.drop i) hq hm
    -- (ts.drop i).drop |q| = t.drop i
    have hdrop : (ts.drop i).drop q.length = t.drop i := by
      rw [List.drop_drop, hts, ← hlen, Nat.add_comm, ← List.drop_drop]
      simp
    rw [hdrop, matchToks_star, someSuffix_iff] at hm2
    obtain ⟨j, hj, hmj⟩ := hm2
    rw [matchToks_star, someSuffix_iff]
    simp only [List.length_drop] at hj hlen2
    refine ⟨i + j, ?_, ?_⟩
    · have : ts.length = seg.length + t.length := by rw [hts]; simp
      omega
    · rw [List.drop_drop] at hmj
      exact hmj

/-- With the text exhausted no alternative of the saved star is left. -/
theorem alt_nil {toks : List Tok} {star : Option (List Tok × List Nat)} (hinv : Inv toks [] star) : alt star = false := by
  cases star with
  | none => rfl
  | some st =>
    obtain ⟨ps, ts⟩ := st
    obtain ⟨q, seg, hps, hts, hlen, hq⟩ := hinv
    cases h : alt (some (ps, ts)) with
    | false => rfl
    | true =>
      obtain ⟨i, hi1, hi2, hm⟩ := (alt_iff ps ts).mp h
      rw [hps] at hm
      have := (prefix_consume q toks (ts.drop i) hq hm).1
      have hl : ts.length = q.length := by rw [hts]; simp [hlen]
      simp only [List.length_drop] at this
      omega

/-! ### The loop -/

theorem tokLoop_correct : ∀ (f : Nat) (toks : List Tok) (t : List Nat) (star : Option (List Tok × List Nat)) (b : Bool),
    tokLoop f toks t star = some b → Inv toks t star → b = (matchToks toks t || alt star)
  | 0, _, _, _, _, h, _ => by simp [tokLoop] at h
  | f + 1, toks, [], star, b, h, hinv => by
    simp only [tokLoop, Option.some.injEq] at h
    rw [alt_nil hinv, matchToks_nil_text, ← h]
    simp
  | f + 1, toks, c :: t, star, b, h, hinv => by
    simp only [tokLoop] at h
    cases toks with
    | nil =>
      -- pattern exhausted, text not: backtrack
      simp only [tokStep] at h
      have hm : matchToks [] (c :: t) = false := by simp [matchToks]
      rw [hm, Bool.false_or]
      cases star with
      | none => simp only [Option.some.injEq] at h; simp [alt, ← h]
      | some st =>
        obtain ⟨ps, ts⟩ := st
        simp only at h
        obtain ⟨q, seg, hps, hts, hlen, hq⟩ := hinv
        have ih := tokLoop_correct f ps ts.tail (some (ps, ts.tail)) b h
          ⟨[], [], by simp, by simp, rfl, by simp⟩
        rw [ih]
        cases ts with
        | nil => simp at hts
        | cons d ts' =>
          simp only [List.tail_cons, alt]
          cases ts' with
          | nil => simp [someSuffix]
          | cons e ts'' => simp [someSuffix]
    | cons tk r =>
      simp only [tokStep] at h
      cases hst : isStar tk with
      | true =>
        have htk : tk = .star := by cases tk <;> simp_all [isStar]
        subst htk
        simp only [isStar, if_true] at h
        have ih := tokLoop_correct f r (c :: t) (some (r, c :: t)) b h
          ⟨[], [], by simp, by simp, rfl, by simp⟩
        have hself : matchToks (.star :: r) (c :: t) = (matchToks r (c :: t) || alt (some (r, c :: t))) := by
          rw [matchToks_star]; simp [someSuffix, alt]
        rw [ih, ← hself]
        cases halt : alt star with
        | false => simp
        | true => rw [alt_subsumed hinv halt]; simp
      | false =>
        simp only [hst, Bool.false_eq_true, if_false] at h
        rw [matchToks_cons_cons hst]
        cases hacc : tokAccepts tk c with
        | true =>
          simp only [hacc, if_true] at h
          have hinv' : Inv r t star := by
            cases star with
            | none => trivial
            | some st =>
              obtain ⟨ps, ts⟩ := st
              obtain ⟨q, seg, hps, hts, hlen, hq⟩ := hinv
              refine ⟨q ++ [tk], seg ++ [c], by simp [hps], by simp [hts], by simp [hlen], ?_⟩
              intro x hx
              rcases List.mem_append.mp hx with hx | hx
              · exact hq x hx
              · simp at hx; subst hx; exact hst
          rw [tokLoop_correct f r t star b h hinv']
          simp
        | false =>
          simp only [hacc, Bool.false_eq_true, if_false] at h
          rw [Bool.false_and, Bool.false_or]
          cases star with
          | none => simp only [Option.some.injEq] at h; simp [alt, ← h]
          | some st =>
            obtain ⟨ps, ts⟩ := st
            simp only at h
            obtain ⟨q, seg, hps, hts, hlen, hq⟩ := hinv
            have ih := tokLoop_correct f ps ts.tail (some (ps, ts.tail)) b h
              ⟨[], [], by simp, by simp, rfl, by simp⟩
            rw [ih]
            cases ts with
            | nil => simp at hts
            | cons d ts' =>
              simp only [List.tail_cons, alt]
              cases ts' with
              | nil => simp [someSuffix]
              | cons e ts'' => simp [someSuffix]

/-- Started without a saved star, the loop's verdict is the textbook semantics. -/
theorem tokLoop_matchToks {f : Nat} {toks : List Tok} {t : List Nat} {b : Bool}
    (h : tokLoop f toks t none = some b) : b = matchToks toks t := by
  have := tokLoop_correct f toks t none b h trivial
  simpa [alt] using this

end Ferrous.Scan
