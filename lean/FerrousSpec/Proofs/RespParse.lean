import FerrousSpec.Model.Resp
import FerrousSpec.Proofs.Decimal
set_option linter.unusedSimpArgs false
set_option linter.unusedVariables false
namespace Ferrous

/-! ## splitCRLF -/

/-- an adjacent `\r\n` occurs in the list -/
def hasCRLF : Bytes → Bool
  | [] => false
  | [_] => false
  | a :: b :: t => (a == 13 && b == 10) || hasCRLF (b :: t)

theorem splitCRLF_append {d l r : Bytes} (e : Bytes) (h : splitCRLF d = some (l, r)) :
    splitCRLF (d ++ e) = some (l, r ++ e) := by
  induction d using splitCRLF.induct generalizing l r with
  | case1 => simp [splitCRLF] at h
  | case2 a => simp [splitCRLF] at h
  | case3 a b t hc =>
    simp [splitCRLF, hc] at h
    obtain ⟨h1, h2⟩ := h
    subst h1 h2
    simp [splitCRLF, hc]
  | case4 a b t hc hn ih =>
    simp [splitCRLF, hc, hn] at h
  | case5 a b t hc l' r' hs ih =>
    simp [splitCRLF, hc, hs] at h
    obtain ⟨h1, h2⟩ := h
    subst h1 h2
    have := ih hs
    simp only [List.cons_append] at this ⊢
    simp [splitCRLF, hc, this]

theorem splitCRLF_eq {d l r : Bytes} (h : splitCRLF d = some (l, r)) : d = l ++ 13 :: 10 :: r := by
  induction d using splitCRLF.induct generalizing l r with
  | case1 => simp [splitCRLF] at h
  | case2 a => simp [splitCRLF] at h
  | case3 a b t hc =>
    simp [splitCRLF, hc] at h
    obtain ⟨h1, h2⟩ := h
    subst h1 h2
    simp [hc.1, hc.2]
  | case4 a b t hc hn ih => simp [splitCRLF, hc, hn] at h
  | case5 a b t hc l' r' hs ih =>
    simp [splitCRLF, hc, hs] at h
    obtain ⟨h1, h2⟩ := h
    subst h1 h2
    have := ih hs
    simp [this]

theorem splitCRLF_length {d l r : Bytes} (h : splitCRLF d = some (l, r)) : r.length + 2 ≤ d.length := by
  have := splitCRLF_eq h
  subst this
  simp

theorem splitCRLF_line (l rest : Bytes) (h : hasCRLF l = false) :
    splitCRLF (l ++ 13 :: 10 :: rest) = some (l, rest) := by
  induction l using hasCRLF.induct with
  | case1 => simp [splitCRLF]
  | case2 a => simp [splitCRLF]
  | case3 a b t ih =>
    simp [hasCRLF] at h
    have ih' := ih h.2
    have hc : ¬(a = 13 ∧ b = 10) := fun hh => by simp [hh.1, hh.2] at h
    simp only [List.cons_append] at ih' ⊢
    simp [splitCRLF, hc, ih']

theorem hasCRLF_of_all_digits (l : Bytes) (h : l.all isDigit = true) : hasCRLF l = false := by
  induction l using hasCRLF.induct with
  | case1 => rfl
  | case2 a => rfl
  | case3 a b t ih =>
    simp [List.all_cons] at h
    have : a ≠ 13 := by
      have := h.1; simp [isDigit] at this; omega
    simp [hasCRLF, this]
    apply ih
    simp [List.all_cons, h.2.1]
    exact h.2.2

end Ferrous

namespace Ferrous

/-! ## prefix stability: a result other than `need` is not changed by appending bytes -/

def Res.ext (e : Bytes) : Res → Res
  | .ok f r => .ok f (r ++ e)
  | .err => .err
  | .need => .need

def ERes.ext (e : Bytes) : ERes → ERes
  | .ok fs r => .ok fs (r ++ e)
  | .err => .err
  | .need => .need

theorem parseElemsWith_append (p : Bytes → Res) (e : Bytes)
    (hp : ∀ d, p d ≠ .need → p (d ++ e) = (p d).ext e) :
    ∀ k d, parseElemsWith p k d ≠ .need →
      parseElemsWith p k (d ++ e) = (parseElemsWith p k d).ext e := by
  intro k
  induction k with
  | zero => intro d _; simp [parseElemsWith, ERes.ext]
  | succ k ih =>
    intro d h
    unfold parseElemsWith at h ⊢
    cases hpd : p d with
    | need => simp [hpd] at h
    | err =>
      have := hp d (by simp [hpd])
      simp [this, hpd, Res.ext, ERes.ext]
    | ok f r =>
      have h1 := hp d (by simp [hpd])
      rw [hpd] at h1
      simp only [Res.ext] at h1
      simp only [hpd] at h
      rw [h1]
      simp only
      cases hk : parseElemsWith p k r with
      | need => simp [hk] at h
      | err =>
        have := ih r (by simp [hk])
        simp [this, hk, ERes.ext]
      | ok fs r' =>
        have := ih r (by simp [hk])
        simp [this, hk, ERes.ext]

theorem bulk_append (r e : Bytes) (len : Nat) (h : ¬ r.length < len + 2) :
    ¬ (r ++ e).length < len + 2 ∧
    ((r ++ e).drop len).take 2 = (r.drop len).take 2 ∧
    (r ++ e).take len = r.take len ∧
    (r ++ e).drop (len + 2) = r.drop (len + 2) ++ e := by
  have h1 : len ≤ r.length := by omega
  have h2 : len + 2 ≤ r.length := by omega
  refine ⟨by simp; omega, ?_, ?_, ?_⟩
  · rw [List.drop_append_of_le_length h1, List.take_append_of_le_length (by simp; omega)]
  · rw [List.take_append_of_le_length h1]
  · rw [List.drop_append_of_le_length h2]

/-- `h` keeps every non-`need` answer when `e` is appended to its input. -/
def Stable (e : Bytes) (h : Bytes → Res) : Prop := ∀ d, h d ≠ .need → h (d ++ e) = (h d).ext e

theorem parseLineWith_stable (e : Bytes) (mk : Bytes → Option Frame) : Stable e (parseLineWith mk) := by
  intro d h
  unfold parseLineWith at h ⊢
  cases hs : splitCRLF d with
  | none => simp [hs] at h
  | some lr =>
    obtain ⟨l, r⟩ := lr
    rw [splitCRLF_append e hs]
    cases hm : mk l <;> simp [Res.ext, hm]

theorem parseBulk_stable (e : Bytes) : Stable e parseBulk := by
  intro d h
  unfold parseBulk at h ⊢
  cases hs : splitCRLF d with
  | none => simp [hs] at h
  | some lr =>
    obtain ⟨l, r⟩ := lr
    rw [splitCRLF_append e hs]
    simp only [hs] at h
    cases hp : parseI64 l with
    | none => simp [Res.ext, hp]
    | some n =>
      simp only [hp] at h ⊢
      by_cases h1 : n = -1
      · simp [h1, Res.ext]
      · by_cases h2 : n < 0
        · simp [h1, h2, Res.ext]
        · simp only [h1, h2, if_false] at h ⊢
          by_cases h3 : r.length < n.toNat + 2
          · simp [h3] at h
          · obtain ⟨b1, b2, b3, b4⟩ := bulk_append r e n.toNat h3
            simp only [h3, b1, b2, b3, b4, if_false]
            split <;> simp [Res.ext]

theorem parseArray_stable (e : Bytes) (p : Bytes → Res) (hp : Stable e p) : Stable e (parseArray p) := by
  intro d h
  unfold parseArray at h ⊢
  cases hs : splitCRLF d with
  | none => simp [hs] at h
  | some lr =>
    obtain ⟨l, r⟩ := lr
    rw [splitCRLF_append e hs]
    simp only [hs] at h
    cases hq : parseI64 l with
    | none => simp [Res.ext, hq]
    | some n =>
      simp only [hq] at h ⊢
      by_cases h1 : n = -1
      · simp [h1, Res.ext]
      · by_cases h2 : n < 0
        · simp [h1, h2, Res.ext]
        · simp only [h1, h2, if_false] at h ⊢
          cases hk : parseElemsWith p n.toNat r with
          | need => simp [hk] at h
          | err =>
            rw [parseElemsWith_append p e hp _ _ (by simp [hk]), hk]
            simp [ERes.ext, Res.ext]
          | ok fs r' =>
            rw [parseElemsWith_append p e hp _ _ (by simp [hk]), hk]
            simp [ERes.ext, Res.ext]

theorem parseAgg_stable (e : Bytes) (p : Bytes → Res) (hp : Stable e p) (m : Bool) : Stable e (parseAgg p m) := by
  intro d h
  unfold parseAgg at h ⊢
  cases hs : splitCRLF d with
  | none => simp [hs] at h
  | some lr =>
    obtain ⟨l, r⟩ := lr
    rw [splitCRLF_append e hs]
    simp only [hs] at h
    cases hq : parseU64 l with
    | none => simp [Res.ext, hq]
    | some n =>
      simp only [hq] at h ⊢
      cases hk : parseElemsWith p (if m = true then 2 * n else n) r with
      | need => simp [hk] at h
      | err =>
        rw [parseElemsWith_append p e hp _ _ (by simp [hk]), hk]
        simp [ERes.ext, Res.ext]
      | ok fs r' =>
        rw [parseElemsWith_append p e hp _ _ (by simp [hk]), hk]
        simp [ERes.ext, Res.ext]

theorem parseNull_stable (e : Bytes) : Stable e parseNull := by
  intro d h
  unfold parseNull at h ⊢
  match d with
  | [] => simp at h
  | [_] => simp at h
  | a :: b :: r =>
    simp only [List.cons_append]
    split <;> simp [Res.ext]

theorem parseBool_stable (e : Bytes) : Stable e parseBool := by
  intro d h
  unfold parseBool at h ⊢
  match d with
  | [] => simp at h
  | [_] => simp at h
  | [_, _] => simp at h
  | a :: b :: c :: r =>
    simp only [List.cons_append]
    split
    · simp [Res.ext]
    · split <;> simp [Res.ext]

theorem parseFrame_stable (e : Bytes) : ∀ n, Stable e (parseFrame n) := by
  intro n
  induction n with
  | zero => intro d h; simp [parseFrame, Res.ext]
  | succ n ih =>
    intro d h
    cases d with
    | nil => simp [parseFrame] at h
    | cons t body =>
      simp only [List.cons_append]
      unfold parseFrame at h ⊢
      split
      · rename_i ht; simp only [ht, if_true] at h; exact parseLineWith_stable e _ body h
      split
      · rename_i ht0 ht; simp only [ht0, ht, if_true, if_false] at h; exact parseLineWith_stable e _ body h
      split
      · rename_i ht0 ht1 ht; simp only [ht0, ht1, ht, if_true, if_false] at h; exact parseLineWith_stable e _ body h
      split
      · rename_i ht0 ht1 ht2 ht; simp only [ht0, ht1, ht2, ht, if_true, if_false] at h; exact parseBulk_stable e body h
      split
      · rename_i ht0 ht1 ht2 ht3 ht; simp only [ht0, ht1, ht2, ht3, ht, if_true, if_false] at h; exact parseArray_stable e _ ih body h
      split
      · rename_i ht0 ht1 ht2 ht3 ht4 ht; simp only [ht0, ht1, ht2, ht3, ht4, ht, if_true, if_false] at h; exact parseNull_stable e body h
      split
      · rename_i ht0 ht1 ht2 ht3 ht4 ht5 ht; simp only [ht0, ht1, ht2, ht3, ht4, ht5, ht, if_true, if_false] at h; exact parseBool_stable e body h
      split
      · rename_i ht0 ht1 ht2 ht3 ht4 ht5 ht6 ht; simp only [ht0, ht1, ht2, ht3, ht4, ht5, ht6, ht, if_true, if_false] at h; exact parseLineWith_stable e _ body h
      split
      · rename_i ht0 ht1 ht2 ht3 ht4 ht5 ht6 ht7 ht; simp only [ht0, ht1, ht2, ht3, ht4, ht5, ht6, ht7, ht, if_true, if_false] at h; exact parseAgg_stable e _ ih true body h
      split
      · rename_i ht0 ht1 ht2 ht3 ht4 ht5 ht6 ht7 ht8 ht; simp only [ht0, ht1, ht2, ht3, ht4, ht5, ht6, ht7, ht8, ht, if_true, if_false] at h; exact parseAgg_stable e _ ih false body h
      · simp [Res.ext]

/-! ## progress: a parsed frame consumes at least one byte -/

def Shrinks (p : Bytes → Res) : Prop := ∀ d f r, p d = .ok f r → r.length < d.length

theorem parseElemsWith_le (p : Bytes → Res) (hp : Shrinks p) :
    ∀ k d fs r, parseElemsWith p k d = .ok fs r → r.length ≤ d.length := by
  intro k
  induction k with
  | zero => intro d fs r h; simp [parseElemsWith] at h; simp [h.2]
  | succ k ih =>
    intro d fs r h
    unfold parseElemsWith at h
    cases hpd : p d with
    | need => simp [hpd] at h
    | err => simp [hpd] at h
    | ok f r1 =>
      simp only [hpd] at h
      cases hk : parseElemsWith p k r1 with
      | need => simp [hk] at h
      | err => simp [hk] at h
      | ok fs' r' =>
        simp [hk] at h
        have h1 := hp d f r1 hpd
        have h2 := ih r1 fs' r' hk
        rw [← h.2]
        omega

theorem parseLineWith_shrinks (mk : Bytes → Option Frame) : ∀ d f r, parseLineWith mk d = .ok f r → r.length + 2 ≤ d.length := by
  intro d f r h
  unfold parseLineWith at h
  cases hs : splitCRLF d with
  | none => simp [hs] at h
  | some lr =>
    obtain ⟨l, r1⟩ := lr
    simp only [hs] at h
    cases hm : mk l with
    | none => simp [hm] at h
    | some f' =>
      simp [hm] at h
      have := splitCRLF_length hs
      rw [← h.2]; exact this

theorem parseBulk_shrinks : ∀ d f r, parseBulk d = .ok f r → r.length + 2 ≤ d.length := by
  intro d f r h
  unfold parseBulk at h
  cases hs : splitCRLF d with
  | none => simp [hs] at h
  | some lr =>
    obtain ⟨l, r1⟩ := lr
    have hl := splitCRLF_length hs
    simp only [hs] at h
    cases hq : parseI64 l with
    | none => simp [hq] at h
    | some n =>
      simp only [hq] at h
      by_cases h1 : n = -1
      · simp [h1] at h; rw [← h.2]; exact hl
      · by_cases h2 : n < 0
        · simp [h1, h2] at h
        · simp only [h1, h2, if_false] at h
          by_cases h3 : r1.length < n.toNat + 2
          · simp [h3] at h
          · simp only [h3, if_false] at h
            split at h
            · simp at h; rw [← h.2]; simp; omega
            · simp at h

theorem parseArray_shrinks (p : Bytes → Res) (hp : Shrinks p) : ∀ d f r, parseArray p d = .ok f r → r.length + 2 ≤ d.length := by
  intro d f r h
  unfold parseArray at h
  cases hs : splitCRLF d with
  | none => simp [hs] at h
  | some lr =>
    obtain ⟨l, r1⟩ := lr
    have hl := splitCRLF_length hs
    simp only [hs] at h
    cases hq : parseI64 l with
    | none => simp [hq] at h
    | some n =>
      simp only [hq] at h
      by_cases h1 : n = -1
      · simp [h1] at h; rw [← h.2]; exact hl
      · by_cases h2 : n < 0
        · simp [h1, h2] at h
        · simp only [h1, h2, if_false] at h
          cases hk : parseElemsWith p n.toNat r1 with
          | need => simp [hk] at h
          | err => simp [hk] at h
          | ok fs r' =>
            simp [hk] at h
            have := parseElemsWith_le p hp _ _ _ _ hk
            rw [← h.2]; omega

theorem parseAgg_shrinks (p : Bytes → Res) (hp : Shrinks p) (m : Bool) : ∀ d f r, parseAgg p m d = .ok f r → r.length + 2 ≤ d.length := by
  intro d f r h
  unfold parseAgg at h
  cases hs : splitCRLF d with
  | none => simp [hs] at h
  | some lr =>
    obtain ⟨l, r1⟩ := lr
    have hl := splitCRLF_length hs
    simp only [hs] at h
    cases hq : parseU64 l with
    | none => simp [hq] at h
    | some n =>
      simp only [hq] at h
      cases hk : parseElemsWith p (if m = true then 2 * n else n) r1 with
      | need => simp [hk] at h
      | err => simp [hk] at h
      | ok fs r' =>
        simp [hk] at h
        have := parseElemsWith_le p hp _ _ _ _ hk
        rw [← h.2]; omega

theorem parseNull_shrinks : ∀ d f r, parseNull d = .ok f r → r.length + 2 ≤ d.length := by
  intro d f r h
  unfold parseNull at h
  match d with
  | [] => simp at h
  | [_] => simp at h
  | a :: b :: r1 =>
    simp only at h
    split at h
    · simp at h; rw [← h.2]; simp
    · simp at h

theorem parseBool_shrinks : ∀ d f r, parseBool d = .ok f r → r.length + 2 ≤ d.length := by
  intro d f r h
  unfold parseBool at h
  match d with
  | [] => simp at h
  | [_] => simp at h
  | [_, _] => simp at h
  | a :: b :: c :: r1 =>
    simp only at h
    split at h
    · simp at h; rw [← h.2]; simp
    · split at h
      · simp at h; rw [← h.2]; simp
      · simp at h

/-- Every parsed frame consumes at least three bytes. -/
theorem parseFrame_shrinks : ∀ n d f r, parseFrame n d = .ok f r → r.length + 3 ≤ d.length := by
  intro n
  induction n with
  | zero => intro d f r h; simp [parseFrame] at h
  | succ n ih =>
    intro d f r h
    have ihs : Shrinks (parseFrame n) := fun d f r h => by have := ih d f r h; omega
    cases d with
    | nil => simp [parseFrame] at h
    | cons t body =>
      unfold parseFrame at h
      simp only [List.length_cons]
      split at h
      · have := parseLineWith_shrinks _ _ _ _ h; omega
      split at h
      · have := parseLineWith_shrinks _ _ _ _ h; omega
      split at h
      · have := parseLineWith_shrinks _ _ _ _ h; omega
      split at h
      · have := parseBulk_shrinks _ _ _ h; omega
      split at h
      · have := parseArray_shrinks _ ihs _ _ _ h; omega
      split at h
      · have := parseNull_shrinks _ _ _ h; omega
      split at h
      · have := parseBool_shrinks _ _ _ h; omega
      split at h
      · have := parseLineWith_shrinks _ _ _ _ h; omega
      split at h
      · have := parseAgg_shrinks _ ihs _ _ _ _ h; omega
      split at h
      · have := parseAgg_shrinks _ ihs _ _ _ _ h; omega
      · simp at h

end Ferrous
