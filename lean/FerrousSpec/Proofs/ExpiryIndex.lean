/-
  C02 helper lemmas (4): the index-agreement invariant (I) and what it gives for the sweeper of the code as it is.
-/
import FerrousSpec.Proofs.ExpirySweep
set_option linter.unusedSimpArgs false
set_option linter.unusedVariables false
namespace Ferrous.Exp
open Ferrous

/-- INDEX AGREEMENT (I): every index entry `(k, t)` belongs to a stored entry whose stored deadline is `t`. -/
def IndexAgrees (s : Shard) : Prop :=
  ∀ k t, lookup s.expiring k = some t → ∃ e, lookup s.data k = some e ∧ e.deadline = some t

/-- the storage calls that keep (I) under configuration `c` -/
def keepsIndex (c : Cfg) : Op → Bool
  | .setValue _ _ _ ttl => ttl.isSome || c.setValueDropsStale
  | .setNx _ _ ttl => ttl.isSome || c.setNxDropsStale || !c.lazy (setNxFn ttl) || c.reaps (setNxFn ttl)
  | .update fn _ _ _ => !c.lazy fn || c.reaps fn
  | .shrink _ _ _ => c.emptiedDropsIndex
  | .rename _ _ => c.renameMovesIndex
  | _ => true

theorem indexAgrees_empty : IndexAgrees Shard.empty := by
  intro k t h; simp [Shard.empty, lookup_nil] at h

/-- (I) after removing `k` from both maps -/
theorem ia_erase_both (s : Shard) (k : Key) (h : IndexAgrees s) : IndexAgrees ⟨erase s.data k, erase s.expiring k⟩ := by
  intro x t hx
  by_cases hk : x = k
  · subst hk; simp [lookup_erase_self] at hx
  · simp only [] at hx ⊢
    rw [lookup_erase_other _ _ _ hk] at hx ⊢
    exact h x t hx

/-- (I) after writing `k` in `data` with deadline `d` and setting the index entry of `k` accordingly -/
theorem ia_put (s : Shard) (k : Key) (e : Stored) (idx : List (Key × Nat)) (h : IndexAgrees s)
    (hk : ∀ t, lookup idx k = some t → e.deadline = some t)
    (ho : ∀ x, x ≠ k → lookup idx x = lookup s.expiring x) : IndexAgrees ⟨insert s.data k e, idx⟩ := by
  intro x t hx
  by_cases hxk : x = k
  · subst hxk
    exact ⟨e, lookup_insert_self _ _ _, hk t hx⟩
  · simp only [] at hx ⊢
    rw [lookup_insert_other _ _ _ _ hxk]
    rw [ho x hxk] at hx
    exact h x t hx

theorem enter_ia (c : Cfg) (fn : String) (now : Nat) (s : Shard) (k : Key) (h : IndexAgrees s) :
    IndexAgrees (enter c fn now s k).1 := by
  unfold enter
  cases hl : lookup s.data k with
  | none => exact h
  | some e =>
    simp only []
    split
    · split
      · exact ia_erase_both s k h
      · exact h
    · exact h

/-- after `enter`, if the function was handed nothing and (it has no lazy test or it reaps), `k` has no index entry -/
theorem enter_none_index (c : Cfg) (fn : String) (now : Nat) (s : Shard) (k : Key) (h : IndexAgrees s)
    (hc : (enter c fn now s k).2 = none) (hq : c.lazy fn = false ∨ c.reaps fn = true) :
    lookup (enter c fn now s k).1.expiring k = none := by
  unfold enter at hc ⊢
  cases hl : lookup s.data k with
  | none =>
    simp only []
    cases hi : lookup s.expiring k with
    | none => rfl
    | some t => obtain ⟨e, he, _⟩ := h k t hi; simp [hl] at he
  | some e =>
    simp only [hl] at hc ⊢
    split at hc
    · rename_i hcond
      simp only [Bool.and_eq_true] at hcond
      rcases hq with hq | hq
      · simp [hq] at hcond
      · simp [hq, hcond.1, hcond.2, lookup_erase_self]
    · simp at hc


theorem step_ia (c : Cfg) (o : Op) (now : Nat) (s : Shard) (hk : keepsIndex c o = true) (h : IndexAgrees s) :
    IndexAgrees (step c o now s).1 := by
  cases o with
  | setValue k tag val ttl =>
    have h1 := enter_ia c "set_value" now s k h
    simp only [step]
    apply ia_put _ _ _ _ h1
    · intro t ht
      cases ttl with
      | some tt => simp [lookup_insert_self] at ht; simp [ht]
      | none =>
        simp only [keepsIndex, Option.isSome_none, Bool.false_or] at hk
        simp [hk, lookup_erase_self] at ht
    · intro x hx
      cases ttl with
      | some tt => exact lookup_insert_other _ _ _ _ hx
      | none =>
        simp only [keepsIndex, Option.isSome_none, Bool.false_or] at hk
        simp only [hk, if_true]
        exact lookup_erase_other _ _ _ hx
  | setNx k val ttl =>
    have h1 := enter_ia c (setNxFn ttl) now s k h
    have h2 := enter_none_index c (setNxFn ttl) now s k h
    simp only [step]
    generalize enter c (setNxFn ttl) now s k = r at h1 h2 ⊢
    obtain ⟨s1, cur⟩ := r
    cases cur with
    | some e => exact h1
    | none =>
      simp only []
      apply ia_put _ _ _ _ h1
      · intro t ht
        cases ttl with
        | some tt => simp [lookup_insert_self] at ht; simp [ht]
        | none =>
          simp only [keepsIndex, Option.isSome_none, Bool.false_or, Bool.or_eq_true, Bool.not_eq_true'] at hk
          simp only [] at ht
          split at ht
          · simp [lookup_erase_self] at ht
          · rename_i hds
            have hq : c.lazy (setNxFn none) = false ∨ c.reaps (setNxFn none) = true := by
              rcases hk with (hk | hk) | hk
              · exact absurd hk hds
              · exact Or.inl hk
              · exact Or.inr hk
            have := h2 rfl hq
            simp only [] at this
            rw [this] at ht; simp at ht
      · intro x hx
        cases ttl with
        | some tt => exact lookup_insert_other _ _ _ _ hx
        | none =>
          simp only []
          split
          · exact lookup_erase_other _ _ _ hx
          · rfl
  | get k =>
    have h1 := enter_ia c "get" now s k h
    simp only [step]
    generalize enter c "get" now s k = r at h1 ⊢
    obtain ⟨s1, cur⟩ := r
    cases cur <;> exact h1
  | «exists» k => exact enter_ia c "exists" now s k h
  | delete k =>
    have h1 := enter_ia c "delete" now s k h
    simp only [step]
    generalize enter c "delete" now s k = r at h1 ⊢
    obtain ⟨s1, cur⟩ := r
    cases cur with
    | none => exact h1
    | some e => exact ia_erase_both s1 k h1
  | expire k ttl =>
    have h1 := enter_ia c "expire" now s k h
    simp only [step]
    generalize enter c "expire" now s k = r at h1 ⊢
    obtain ⟨s1, cur⟩ := r
    cases cur with
    | none => exact h1
    | some e =>
      simp only []
      apply ia_put _ _ _ _ h1
      · intro t ht; simp [lookup_insert_self] at ht; simp [ht]
      · intro x hx; exact lookup_insert_other _ _ _ _ hx
  | persist k =>
    have h1 := enter_ia c "persist" now s k h
    simp only [step]
    generalize enter c "persist" now s k = r at h1 ⊢
    obtain ⟨s1, cur⟩ := r
    cases cur with
    | none => exact h1
    | some e =>
      simp only []
      split
      · apply ia_put _ _ _ _ h1
        · intro t ht; simp [lookup_erase_self] at ht
        · intro x hx; exact lookup_erase_other _ _ _ hx
      · exact h1
  | ttl k =>
    have h1 := enter_ia c "ttl" now s k h
    simp only [step]
    generalize enter c "ttl" now s k = r at h1 ⊢
    obtain ⟨s1, cur⟩ := r
    cases cur <;> exact h1
  | keyType k => exact enter_ia c "key_type" now s k h
  | read fn k tag =>
    have h1 := enter_ia c fn now s k h
    simp only [step]
    generalize enter c fn now s k = r at h1 ⊢
    obtain ⟨s1, cur⟩ := r
    cases cur with
    | none => exact h1
    | some e => simp only []; split <;> exact h1
  | update fn k tag delta =>
    have h1 := enter_ia c fn now s k h
    have h2 := enter_none_index c fn now s k h
    have h3 := enter_some c fn now s k
    simp only [step]
    generalize enter c fn now s k = r at h1 h2 h3 ⊢
    obtain ⟨s1, cur⟩ := r
    cases cur with
    | none =>
      simp only []
      apply ia_put _ _ _ _ h1
      · intro t ht
        simp only [keepsIndex, Bool.or_eq_true, Bool.not_eq_true'] at hk
        have := h2 rfl hk
        simp only [] at this ht
        rw [this] at ht; simp at ht
      · intro x hx; rfl
    | some e =>
      simp only []
      split
      · apply ia_put _ _ _ _ h1
        · intro t ht
          obtain ⟨hs, hle⟩ := h3 e rfl
          simp only [] at hs ht
          subst hs
          obtain ⟨e', he', hd⟩ := h k t ht
          rw [hle] at he'; injection he' with he'; subst he'
          exact hd
        · intro x hx; rfl
      · exact h1
  | shrink fn k tag =>
    have h1 := enter_ia c fn now s k h
    have h3 := enter_some c fn now s k
    simp only [step]
    generalize enter c fn now s k = r at h1 h3 ⊢
    obtain ⟨s1, cur⟩ := r
    cases cur with
    | none => exact h1
    | some e =>
      simp only [keepsIndex] at hk
      simp only [hk, if_true]
      split
      · split
        · exact ia_erase_both s1 k h1
        · apply ia_put _ _ _ _ h1
          · intro t ht
            obtain ⟨hs, hle⟩ := h3 e rfl
            simp only [] at hs ht
            subst hs
            obtain ⟨e', he', hd⟩ := h k t ht
            rw [hle] at he'; injection he' with he'; subst he'
            exact hd
          · intro x hx; rfl
      · exact h1
  | rename a b =>
    have h1 := enter_ia c "rename" now s a h
    have h3 := enter_some c "rename" now s a
    simp only [step]
    generalize enter c "rename" now s a = r at h1 h3 ⊢
    obtain ⟨s1, cur⟩ := r
    cases cur with
    | none => exact h1
    | some e =>
      simp only [keepsIndex] at hk
      simp only [hk, if_true]
      obtain ⟨hs, hle⟩ := h3 e rfl
      simp only [] at hs
      subst hs
      intro x t hx
      simp only [] at hx ⊢
      by_cases hxb : x = b
      · subst hxb
        refine ⟨e, lookup_insert_self _ _ _, ?_⟩
        cases hd : e.deadline with
        | none => simp [hd, lookup_erase_self] at hx
        | some d => simp [hd, lookup_insert_self] at hx; simp [hx]
      · rw [lookup_insert_other _ _ _ _ hxb]
        have hx' : lookup (erase s1.expiring a) x = some t := by
          cases hd : e.deadline with
          | none => simpa [hd, lookup_erase_other _ _ _ hxb] using hx
          | some d => simpa [hd, lookup_insert_other _ _ _ _ hxb] using hx
        by_cases hxa : x = a
        · subst hxa; simp [lookup_erase_self] at hx'
        · rw [lookup_erase_other _ _ _ hxa] at hx' ⊢
          exact h1 x t hx'
  | keys fn => exact h
  | scan => exact h
  | flush => intro k t hx; simp [step, lookup_nil] at hx

theorem sweepDeleteKey_ia (c : Cfg) (now : Nat) (s : Shard) (k : Key) (h : IndexAgrees s) :
    IndexAgrees (sweepDeleteKey c now s k) := by
  unfold sweepDeleteKey
  cases hl : lookup s.data k with
  | none =>
    simp only []
    split
    · intro x t hx
      by_cases hxk : x = k
      · subst hxk; simp [lookup_erase_self] at hx
      · simp only [] at hx ⊢; rw [lookup_erase_other _ _ _ hxk] at hx; exact h x t hx
    · exact h
  | some e =>
    simp only []
    split
    · split
      · exact ia_erase_both s k h
      · split
        · rename_i d hd
          intro x t hx
          by_cases hxk : x = k
          · subst hxk
            simp [lookup_insert_self] at hx
            exact ⟨e, hl, by rw [hd, hx]⟩
          · simp only [] at hx ⊢; rw [lookup_insert_other _ _ _ _ hxk] at hx; exact h x t hx
        · intro x t hx
          by_cases hxk : x = k
          · subst hxk; simp [lookup_erase_self] at hx
          · simp only [] at hx ⊢; rw [lookup_erase_other _ _ _ hxk] at hx; exact h x t hx
    · exact ia_erase_both s k h

theorem sweepDelete_ia (c : Cfg) (now : Nat) (ks : List Key) (s : Shard) (h : IndexAgrees s) :
    IndexAgrees (sweepDelete c now ks s) := by
  induction ks generalizing s with
  | nil => exact h
  | cons k r ih => exact ih _ (sweepDeleteKey_ia c now s k h)

/-- under (I), the keys a collect phase returns are exactly keys whose STORED deadline is `≤ now` -/
theorem collect_due (now : Nat) (s : Shard) (h : IndexAgrees s) (hn : NodupKeys s.expiring) (k : Key) (hk : k ∈ sweepCollect now s) :
    ∃ e d, lookup s.data k = some e ∧ e.deadline = some d ∧ d ≤ now := by
  simp only [sweepCollect, List.mem_map, List.mem_filter, decide_eq_true_eq] at hk
  obtain ⟨⟨k', t⟩, ⟨hmem, hle⟩, hk'⟩ := hk
  simp only [] at hk' hle
  subst hk'
  have := lookup_of_mem_nodup s.expiring k' t hn hmem
  obtain ⟨e, he, hd⟩ := h k' t this
  exact ⟨e, t, he, hd, hle⟩

/-- NO SPURIOUS DELETE, the part that holds for the code as it is: under (I), an ATOMIC pass (collect immediately
    followed by delete, nothing in between) removes no entry whose stored deadline is absent or after `now`. -/
theorem atomic_sweep_safe (c : Cfg) (now : Nat) (s : Shard) (h : IndexAgrees s) (hn : NodupKeys s.expiring)
    (k : Key) (e : Stored) (hl : lookup s.data k = some e) (hd : ∀ d, e.deadline = some d → now < d) :
    lookup (sweepDelete c now (sweepCollect now s) s).data k = some e := by
  rw [sweepDelete_other c now _ s k]
  · exact hl
  · intro hk
    obtain ⟨e', d, he', hde, hle⟩ := collect_due now s h hn k hk
    rw [hl] at he'; injection he' with he'; subst he'
    have := hd d hde
    omega


/-- how the witnesses refute (I): an index entry whose key holds no such stored deadline -/
theorem not_ia (s : Shard) (k : Key) (t : Nat) (h1 : lookup s.expiring k = some t)
    (h2 : (lookup s.data k).bind (·.deadline) ≠ some t) : ¬ IndexAgrees s := by
  intro h
  obtain ⟨e, he, hd⟩ := h k t h1
  rw [he] at h2
  exact h2 hd

theorem enter_nodup_idx (c : Cfg) (fn : String) (now : Nat) (s : Shard) (k : Key) (hn : NodupKeys s.expiring) :
    NodupKeys (enter c fn now s k).1.expiring := by
  unfold enter
  cases hl : lookup s.data k with
  | none => exact hn
  | some e =>
    simp only []
    split
    · split
      · exact nodup_erase _ _ hn
      · exact hn
    · exact hn

theorem step_nodup_idx (c : Cfg) (o : Op) (now : Nat) (s : Shard) (hn : NodupKeys s.expiring) :
    NodupKeys (step c o now s).1.expiring := by
  have key : ∀ fn k, NodupKeys (enter c fn now s k).1.expiring := fun fn k => enter_nodup_idx c fn now s k hn
  cases o with
  | setValue k tag val ttl =>
    simp only [step]
    cases ttl with
    | some t => exact nodup_insert _ _ _ (key _ k)
    | none => simp only []; split
              · exact nodup_erase _ _ (key _ k)
              · exact key _ k
  | setNx k val ttl =>
    have := key (setNxFn ttl) k
    simp only [step]
    generalize enter c (setNxFn ttl) now s k = r at this ⊢
    obtain ⟨s1, cur⟩ := r
    cases cur with
    | some e => exact this
    | none =>
      simp only []
      cases ttl with
      | some t => exact nodup_insert _ _ _ this
      | none => simp only []; split
                · exact nodup_erase _ _ this
                · exact this
  | get k =>
    have := key "get" k
    simp only [step]
    generalize enter c "get" now s k = r at this ⊢
    obtain ⟨s1, cur⟩ := r
    cases cur <;> exact this
  | «exists» k => exact key "exists" k
  | delete k =>
    have := key "delete" k
    simp only [step]
    generalize enter c "delete" now s k = r at this ⊢
    obtain ⟨s1, cur⟩ := r
    cases cur <;> first | exact this | exact nodup_erase _ _ this
  | expire k ttl =>
    have := key "expire" k
    simp only [step]
    generalize enter c "expire" now s k = r at this ⊢
    obtain ⟨s1, cur⟩ := r
    cases cur <;> first | exact this | exact nodup_insert _ _ _ this
  | persist k =>
    have := key "persist" k
    simp only [step]
    generalize enter c "persist" now s k = r at this ⊢
    obtain ⟨s1, cur⟩ := r
    cases cur with
    | none => exact this
    | some e =>
      simp only []
      split
      · exact nodup_erase _ _ this
      · exact this
  | ttl k =>
    have := key "ttl" k
    simp only [step]
    generalize enter c "ttl" now s k = r at this ⊢
    obtain ⟨s1, cur⟩ := r
    cases cur <;> exact this
  | keyType k => exact key "key_type" k
  | read fn k tag =>
    have := key fn k
    simp only [step]
    generalize enter c fn now s k = r at this ⊢
    obtain ⟨s1, cur⟩ := r
    cases cur with
    | none => exact this
    | some e => simp only []; split <;> exact this
  | update fn k tag delta =>
    have := key fn k
    simp only [step]
    generalize enter c fn now s k = r at this ⊢
    obtain ⟨s1, cur⟩ := r
    cases cur with
    | none => exact this
    | some e => simp only []; split <;> exact this
  | shrink fn k tag =>
    have := key fn k
    simp only [step]
    generalize enter c fn now s k = r at this ⊢
    obtain ⟨s1, cur⟩ := r
    cases cur with
    | none => exact this
    | some e =>
      simp only []
      split
      · split
        · simp only []; split
          · exact nodup_erase _ _ this
          · exact this
        · exact this
      · exact this
  | rename a b =>
    have := key "rename" a
    simp only [step]
    generalize enter c "rename" now s a = r at this ⊢
    obtain ⟨s1, cur⟩ := r
    cases cur with
    | none => exact this
    | some e =>
      simp only []
      split
      · split
        · exact nodup_insert _ _ _ (nodup_erase _ _ this)
        · exact nodup_erase _ _ (nodup_erase _ _ this)
      · exact this
  | keys fn => exact hn
  | scan => exact hn
  | flush => exact nodup_nil

theorem sweepDeleteKey_nodup_idx (c : Cfg) (now : Nat) (s : Shard) (k : Key) (hn : NodupKeys s.expiring) :
    NodupKeys (sweepDeleteKey c now s k).expiring := by
  unfold sweepDeleteKey
  cases hl : lookup s.data k with
  | none => simp only []; split
            · exact nodup_erase _ _ hn
            · exact hn
  | some e =>
    simp only []
    split
    · split
      · exact nodup_erase _ _ hn
      · split
        · exact nodup_insert _ _ _ hn
        · exact nodup_erase _ _ hn
    · exact nodup_erase _ _ hn

theorem sweepDelete_nodup_idx (c : Cfg) (now : Nat) (ks : List Key) (s : Shard) (hn : NodupKeys s.expiring) :
    NodupKeys (sweepDelete c now ks s).expiring := by
  induction ks generalizing s with
  | nil => exact hn
  | cons k r ih => exact ih _ (sweepDeleteKey_nodup_idx c now s k hn)

end Ferrous.Exp
