/-
  RDB codec, part 4: the opcode loop of `load_into` run on `write_snapshot`'s output.

  `loadedEntry/loadedDb/loadedDataset` say exactly what the loader (with any switch setting) makes
  of a saved dataset; `decSnapshot_encSnapshot` proves it by induction over entries, databases and
  the dataset.  The property theorems in Props/C09.lean are corollaries.
-/
import FerrousSpec.Proofs.RdbValue
set_option linter.unusedSimpArgs false
set_option linter.unusedVariables false
namespace Ferrous.Rdb
open Ferrous

/-! ### what a save at `t` followed by a load at `now` makes of one key -/

/-- not written when the deadline is before the save; kept with its deadline when that is after the
    load; otherwise (deadline reached during the downtime) dropped by the repaired loader and
    loaded WITHOUT a deadline by the pinned one. -/
def loadedEntry (fix : Fix) (t now : Nat) (e : Entry) : List Entry :=
  match e.deadline with
  | none => [e]
  | some d =>
    if d < t then []
    else if now < d then [e]
    else if fix.dropExpired then []
    else [{ e with deadline := none }]

def loadedDb (fix : Fix) (t now : Nat) (db : Db) : Db := db.flatMap (loadedEntry fix t now)

def loadedDataset (fix : Fix) (t now : Nat) (d : Dataset) : Dataset :=
  d.flatMap fun p => if (loadedDb fix t now p.2).isEmpty then [] else [(p.1, loadedDb fix t now p.2)]

/-- allocation trace of one pair (nothing when the pair is not written) -/
def entryAllocs (t : Nat) (e : Entry) : List Nat :=
  match e.deadline with
  | none => e.key.length :: valueAllocs e.val
  | some d => if d < t then [] else e.key.length :: valueAllocs e.val

def dbAllocs (t : Nat) (p : Nat × Db) : List Nat := p.2.flatMap (entryAllocs t)

/-- hypotheses on one key, as propositions (`val`: well-formed AS WRITTEN, i.e. with the escape
    element counted when writer and loader apply the escape rule) -/
structure EntryOk (fix : Fix) (e : Entry) : Prop where
  key : strOk e.key = true
  val : valueWF (escValue fix.listEscape e.val) = true
  dl : ∀ d, e.deadline = some d → d ≤ i64max
  nomarker : startsWithMarker e.val = false ∨ fix.listEscape = true
  stream : isEmptyStream e.val = false ∨ fix.keepEmptyStream = true

/-! ### the writer with the escape rule, seen through the byte-level writer -/

@[simp] theorem Fix.code_listEscape : Fix.code.listEscape = false := rfl
@[simp] theorem Fix.fixed_listEscape : Fix.fixed.listEscape = true := rfl

@[simp] theorem escEntry_mk (esc : Bool) (k : Bytes) (v : Value) (dl : Option Nat) :
    escEntry esc ⟨k, v, dl⟩ = ⟨k, escValue esc v, dl⟩ := rfl

@[simp] theorem escDb_nil (esc : Bool) : escDb esc [] = [] := rfl
@[simp] theorem escDb_cons (esc : Bool) (e : Entry) (es : Db) : escDb esc (e :: es) = escEntry esc e :: escDb esc es := rfl
@[simp] theorem escDb_length (esc : Bool) (db : Db) : (escDb esc db).length = db.length := by simp [escDb]
@[simp] theorem escDb_isEmpty (esc : Bool) (db : Db) : (escDb esc db).isEmpty = db.isEmpty := by cases db <;> rfl
@[simp] theorem escDataset_nil (esc : Bool) : escDataset esc [] = [] := rfl
@[simp] theorem escDataset_cons (esc : Bool) (p : Nat × Db) (d : Dataset) :
    escDataset esc (p :: d) = (p.1, escDb esc p.2) :: escDataset esc d := rfl

@[simp] theorem escEntry_false (e : Entry) : escEntry false e = e := by
  obtain ⟨k, v, dl⟩ := e
  simp
@[simp] theorem escDb_false (db : Db) : escDb false db = db := by
  induction db with
  | nil => rfl
  | cons e es ih => simp [ih]
@[simp] theorem escDataset_false (d : Dataset) : escDataset false d = d := by
  induction d with
  | nil => rfl
  | cons p d ih => simp [ih]
@[simp] theorem saveSnapshot_false (ver : Bytes) (d : Dataset) (t : Nat) : saveSnapshot false ver d t = encSnapshot ver d t := by
  simp [saveSnapshot]

theorem typeByte_le (v : Value) : typeByte v ≤ 4 := by cases v <;> simp [typeByte]

theorem keys_loadedEntry (fix : Fix) (t now : Nat) (e : Entry) :
    ∀ x ∈ keys (loadedEntry fix t now e), x = e.key := by
  intro x hx
  unfold loadedEntry at hx
  split at hx
  · simpa [keys] using hx
  · split at hx
    · simp [keys] at hx
    · split at hx
      · simpa [keys] using hx
      · split at hx
        · simp [keys] at hx
        · simpa [keys] using hx

/-! ### one key -/

theorem loadLoop_entry (fix : Fix) (t now : Nat) (s : Store) (i : Nat) (hi : i < numDbs) (his : i ∉ indices s)
    (acc : Db) (e : Entry) (he : EntryOk fix e) (hfresh : e.key ∉ keys acc) (rest : Bytes) (fuel : Nat)
    (hfuel : (encEntry t (escEntry fix.listEscape e) ++ rest).length + 1 ≤ fuel) :
    ∃ fuel', rest.length + 1 ≤ fuel' ∧
      loadLoop fix now fuel i (withDb s i acc) (encEntry t (escEntry fix.listEscape e) ++ rest) =
        (loadLoop fix now fuel' i (withDb s i (acc ++ loadedEntry fix t now e)) rest).pre
          (entryAllocs t (escEntry fix.listEscape e)) := by
  obtain ⟨k, v, dl⟩ := e
  obtain ⟨hk, hv, hdl, hm, hs⟩ := he
  simp only at hk hv hdl hm hs hfresh
  simp only [escEntry_mk] at hfuel ⊢
  have hty := typeByte_le v
  have hkv : ∀ dl', dlOk dl' = true → ∀ r, loadTyped fix true acc (typeByte v) dl' (encString k ++ (encValue (escValue fix.listEscape v) ++ r)) =
      .ok (k, acc ++ [⟨k, v, dl'⟩]) r (k.length :: valueAllocs (escValue fix.listEscape v)) :=
    fun dl' hd' r => loadTyped_encKV fix acc k v dl' hd' hk hv hm hs hfresh r
  have hvalid : decide (i < numDbs) = true := by simp [hi]
  cases dl with
  | none =>
    cases fuel with
    | zero => simp at hfuel
    | succ f =>
      refine ⟨f, ?_, ?_⟩
      · simp [encEntry, encKV] at hfuel; omega
      · have h1 : ¬ typeByte v = 255 := by omega
        have h2 : ¬ typeByte v = 254 := by omega
        have h3 : ¬ typeByte v = 251 := by omega
        have h4 : ¬ typeByte v = 250 := by omega
        have h5 : ¬ typeByte v = 252 := by omega
        have h6 : ¬ typeByte v = 253 := by omega
        rw [loadLoop]
        simp only [encEntry, encKV, typeByte_escValue, List.cons_append, readByte, Res.bind_ok, Res.pre_nil, h1, h2, h3, h4, h5, h6,
          if_false, getDb_withDb s i acc his, hvalid, List.append_assoc]
        rw [hkv none rfl rest]
        simp only [Res.bind_ok, setDb_withDb s i _ _ his, loadedEntry, entryAllocs]
  | some d =>
    have hd64 := hdl d rfl
    have hd : d < two64 := by simp only [i64max] at hd64; simp only [two64]; omega
    by_cases hdt : d < t
    · refine ⟨fuel, ?_, ?_⟩
      · simpa [encEntry, hdt] using hfuel
      · simp [encEntry, loadedEntry, entryAllocs, hdt]
    · cases fuel with
      | zero => simp at hfuel
      | succ f =>
        refine ⟨f, ?_, ?_⟩
        · simp [encEntry, hdt, encKV] at hfuel; omega
        · have e1 : t + (d - t) = d := by omega
          have h1 : ¬ typeByte v = 255 := by omega
          rw [loadLoop]
          simp only [encEntry, hdt, if_false, encKV, typeByte_escValue, List.cons_append, readByte, Res.bind_ok, Res.pre_nil, e1,
            List.append_assoc, Nat.reduceEqDiff, if_true]
          rw [readFixed_u64le]
          simp only [Res.bind_ok, Res.pre_nil, readByte, leVal_u64le d hd, getDb_withDb s i acc his, hvalid]
          unfold loadExpiring
          by_cases hnow : d > now
          · have hnow' : now < d := hnow
            simp only [hnow, if_true]
            rw [hkv (some d) (by simpa [dlOk] using hd64) rest]
            simp only [Res.bind_ok, Res.pre_ok, setDb_withDb s i _ _ his, loadedEntry, entryAllocs, hdt, hnow',
              if_false, if_true, List.append_nil, List.nil_append, Res.pre_nil]
          · have hnow' : ¬ now < d := hnow
            simp only [hnow, if_false]
            by_cases hfix : fix.dropExpired = true
            · simp only [hfix, if_true]
              rw [hkv none rfl rest]
              have her := eraseKey_append_single acc ⟨k, v, none⟩ hfresh
              simp only at her
              simp only [Res.bind_ok, Res.pre_ok, her, setDb_withDb s i _ _ his, loadedEntry, entryAllocs, hdt,
                hnow', hfix, if_false, if_true, List.append_nil, List.nil_append, Res.pre_nil, lift_ok]
            · simp only [hfix, if_false]
              rw [hkv none rfl rest]
              simp only [Res.bind_ok, Res.pre_ok, setDb_withDb s i _ _ his, loadedEntry, entryAllocs, hdt,
                hnow', hfix, if_false, if_true, List.append_nil, List.nil_append, Res.pre_nil,
                Bool.false_eq_true]

/-! ### the keys of one database -/

theorem loadLoop_entries (fix : Fix) (t now : Nat) (s : Store) (i : Nat) (hi : i < numDbs) (his : i ∉ indices s)
    (es : Db) :
    ∀ (acc : Db) (fuel : Nat) (rest : Bytes),
      (∀ e ∈ es, EntryOk fix e) → (keys es).Nodup → (∀ e ∈ es, e.key ∉ keys acc) →
      (encEntries t (escDb fix.listEscape es) ++ rest).length + 1 ≤ fuel →
      ∃ fuel', rest.length + 1 ≤ fuel' ∧
        loadLoop fix now fuel i (withDb s i acc) (encEntries t (escDb fix.listEscape es) ++ rest) =
          (loadLoop fix now fuel' i (withDb s i (acc ++ loadedDb fix t now es)) rest).pre
            ((escDb fix.listEscape es).flatMap (entryAllocs t)) := by
  induction es with
  | nil =>
    intro acc fuel rest _ _ _ hfuel
    exact ⟨fuel, by simpa [encEntries] using hfuel, by simp [encEntries, loadedDb]⟩
  | cons e es ih =>
    intro acc fuel rest hok hnd hfresh hfuel
    simp only [keys, List.map_cons, List.nodup_cons] at hnd
    have hfuel' : (encEntry t (escEntry fix.listEscape e) ++ (encEntries t (escDb fix.listEscape es) ++ rest)).length + 1 ≤ fuel := by
      simpa [encEntries, List.append_assoc] using hfuel
    obtain ⟨f1, hf1, h1⟩ := loadLoop_entry fix t now s i hi his acc e (hok e (by simp)) (hfresh e (by simp))
      (encEntries t (escDb fix.listEscape es) ++ rest) fuel hfuel'
    have hfresh' : ∀ e' ∈ es, e'.key ∉ keys (acc ++ loadedEntry fix t now e) := by
      intro e' he' hmem
      rw [keys_append, List.mem_append] at hmem
      cases hmem with
      | inl h => exact hfresh e' (by simp [he']) h
      | inr h =>
        have := keys_loadedEntry fix t now e _ h
        exact hnd.1 (by rw [← this]; exact List.mem_map_of_mem he')
    obtain ⟨f2, hf2, h2⟩ := ih (acc ++ loadedEntry fix t now e) f1 rest (fun x hx => hok x (by simp [hx]))
      (by simpa [keys] using hnd.2) hfresh' hf1
    refine ⟨f2, hf2, ?_⟩
    simp only [encEntries, escDb_cons, List.flatMap_cons, List.append_assoc] at h1 h2 ⊢
    rw [h1, h2]
    simp [loadedDb, List.append_assoc]

/-! ### one database: selector, resize hints, keys -/

structure DbOk (fix : Fix) (p : Nat × Db) : Prop where
  idx : p.1 < numDbs
  nonempty : p.2.isEmpty = false
  len : p.2.length < two32
  entries : ∀ e ∈ p.2, EntryOk fix e
  nodup : (keys p.2).Nodup

theorem loadLoop_db (fix : Fix) (t now : Nat) (s : Store) (p : Nat × Db) (hp : DbOk fix p) (his : p.1 ∉ indices s)
    (cur fuel : Nat) (rest : Bytes) (hfuel : (encDb t (p.1, escDb fix.listEscape p.2) ++ rest).length + 1 ≤ fuel) :
    ∃ fuel', rest.length + 1 ≤ fuel' ∧
      loadLoop fix now fuel cur s (encDb t (p.1, escDb fix.listEscape p.2) ++ rest) =
        (loadLoop fix now fuel' p.1 (withDb s p.1 (loadedDb fix t now p.2)) rest).pre
          (dbAllocs t (p.1, escDb fix.listEscape p.2)) := by
  obtain ⟨i, es⟩ := p
  obtain ⟨hi, hne, hlen, hok, hnd⟩ := hp
  simp only at hi hne hlen hok hnd his
  have hi32 : i < two32 := by unfold numDbs at hi; unfold two32; omega
  simp only [encDb, escDb_isEmpty, escDb_length, hne, Bool.false_eq_true, if_false, List.cons_append, List.append_assoc] at hfuel ⊢
  cases fuel with
  | zero => simp at hfuel
  | succ f1 =>
    have hl1 := encLen_length_pos i
    cases f1 with
    | zero => simp at hfuel <;> omega
    | succ f2 =>
      have hfuel2 : (encEntries t (escDb fix.listEscape es) ++ rest).length + 1 ≤ f2 := by
        simp only [List.length_cons, List.length_append] at hfuel ⊢
        omega
      have hs0 : withDb s i [] = s := by simp [withDb]
      obtain ⟨f3, hf3, h3⟩ := loadLoop_entries fix t now s i hi his es [] f2 rest hok hnd (by simp [keys]) hfuel2
      rw [hs0] at h3
      refine ⟨f3, hf3, ?_⟩
      rw [loadLoop]
      simp only [readByte, Res.bind_ok, Res.pre_nil, Nat.reduceEqDiff, if_false, if_true]
      rw [readLen_encLen i hi32]
      simp only [Res.bind_ok, Res.pre_nil]
      rw [loadLoop]
      simp only [readByte, Res.bind_ok, Res.pre_nil, Nat.reduceEqDiff, if_false, if_true]
      rw [readLen_encLen es.length hlen]
      simp only [Res.bind_ok, Res.pre_nil]
      rw [readLen_encLen es.length hlen]
      simp only [Res.bind_ok, Res.pre_nil]
      rw [h3]
      simp [dbAllocs]

/-! ### all databases -/

theorem mem_indices_withDb {s : Store} {i j : Nat} {db : Db} (h : j ∈ indices (withDb s i db)) :
    j ∈ indices s ∨ j = i := by
  rw [indices_withDb] at h
  split at h
  · exact Or.inl h
  · simpa using h

theorem loadLoop_dbs (fix : Fix) (t now : Nat) (d : Dataset) :
    ∀ (s : Store) (cur fuel : Nat) (rest : Bytes),
      (∀ p ∈ d, DbOk fix p) → (d.map (·.1)).Nodup → (∀ p ∈ d, p.1 ∉ indices s) →
      (encDbs t (escDataset fix.listEscape d) ++ rest).length + 1 ≤ fuel →
      ∃ fuel' cur', rest.length + 1 ≤ fuel' ∧
        loadLoop fix now fuel cur s (encDbs t (escDataset fix.listEscape d) ++ rest) =
          (loadLoop fix now fuel' cur' (s ++ loadedDataset fix t now d) rest).pre
            ((escDataset fix.listEscape d).flatMap (dbAllocs t)) := by
  induction d with
  | nil =>
    intro s cur fuel rest _ _ _ hfuel
    exact ⟨fuel, cur, by simpa [encDbs] using hfuel, by simp [encDbs, loadedDataset]⟩
  | cons p d ih =>
    intro s cur fuel rest hok hnd hdisj hfuel
    simp only [List.map_cons, List.nodup_cons] at hnd
    have hfuel' : (encDb t (p.1, escDb fix.listEscape p.2) ++ (encDbs t (escDataset fix.listEscape d) ++ rest)).length + 1 ≤ fuel := by
      simpa [encDbs, List.append_assoc] using hfuel
    obtain ⟨f1, hf1, h1⟩ := loadLoop_db fix t now s p (hok p (by simp)) (hdisj p (by simp)) cur fuel
      (encDbs t (escDataset fix.listEscape d) ++ rest) hfuel'
    have hdisj' : ∀ q ∈ d, q.1 ∉ indices (withDb s p.1 (loadedDb fix t now p.2)) := by
      intro q hq hmem
      cases mem_indices_withDb hmem with
      | inl h => exact hdisj q (by simp [hq]) h
      | inr h => exact hnd.1 (by rw [← h]; exact List.mem_map_of_mem hq)
    obtain ⟨f2, c2, hf2, h2⟩ := ih (withDb s p.1 (loadedDb fix t now p.2)) p.1 f1 rest
      (fun q hq => hok q (by simp [hq])) hnd.2 hdisj' hf1
    refine ⟨f2, c2, hf2, ?_⟩
    simp only [encDbs, escDataset_cons, List.flatMap_cons, List.append_assoc] at h1 h2 ⊢
    rw [h1, h2]
    have hst : withDb s p.1 (loadedDb fix t now p.2) ++ loadedDataset fix t now d =
        s ++ loadedDataset fix t now (p :: d) := by
      simp only [loadedDataset, List.flatMap_cons, withDb]
      split <;> simp
    simp [hst, List.append_assoc]

/-! ### the whole file -/

def snapshotAllocs (ver : Bytes) (d : Dataset) (t : Nat) : List Nat :=
  [auxVerKey.length, ver.length, auxCtimeKey.length, (natDigits (t / 1000)).length] ++ d.flatMap (dbAllocs t)

/-- Hypotheses on the dataset, as propositions. -/
structure DatasetOk (fix : Fix) (d : Dataset) : Prop where
  dbs : ∀ p ∈ d, DbOk fix p
  nodup : (d.map (·.1)).Nodup

/-- the opcode loop on everything after the 9-byte header, with any sufficient fuel -/
theorem loadLoop_body (fix : Fix) (ver : Bytes) (d : Dataset) (t now : Nat)
    (hver : ver.length < two32) (ht : t < two64) (hd : DatasetOk fix d) (ck : Bytes) (hck8 : ck.length = 8)
    (fuel : Nat)
    (hfuel : (encAux auxVerKey ver ++ (encAux auxCtimeKey (natDigits (t / 1000)) ++ (encDbs t (escDataset fix.listEscape d) ++ 255 :: ck))).length + 1 ≤ fuel) :
    loadLoop fix now fuel 0 [] (encAux auxVerKey ver ++ (encAux auxCtimeKey (natDigits (t / 1000)) ++ (encDbs t (escDataset fix.listEscape d) ++ 255 :: ck))) =
      .ok (loadedDataset fix t now d) [] (snapshotAllocs ver (escDataset fix.listEscape d) t) := by
  have hct : (natDigits (t / 1000)).length < two32 := by
    have := natDigits_length_u64 (t / 1000) (by unfold two64 at ht ⊢; omega)
    unfold two32; omega
  have hvk : auxVerKey.length < two32 := by decide
  have hck : auxCtimeKey.length < two32 := by decide
  simp only [encAux, List.cons_append, List.append_assoc, List.length_cons, List.length_append] at hfuel
  cases fuel with
  | zero => omega
  | succ f1 =>
    rw [loadLoop]
    simp only [encAux, List.cons_append, List.append_assoc, readByte, Res.bind_ok, Res.pre_nil, Nat.reduceEqDiff,
      if_false, if_true]
    rw [readString_encString auxVerKey hvk]
    simp only [Res.bind_ok]
    rw [readString_encString ver hver]
    simp only [Res.bind_ok]
    cases f1 with
    | zero => omega
    | succ f2 =>
      rw [loadLoop]
      simp only [readByte, Res.bind_ok, Res.pre_nil, Nat.reduceEqDiff, if_false, if_true]
      rw [readString_encString auxCtimeKey hck]
      simp only [Res.bind_ok]
      rw [readString_encString _ hct]
      simp only [Res.bind_ok]
      have hf2 : (encDbs t (escDataset fix.listEscape d) ++ (255 :: ck)).length + 1 ≤ f2 := by
        simp only [List.length_cons, List.length_append]
        omega
      obtain ⟨f3, c3, hf3, h3⟩ := loadLoop_dbs fix t now d [] 0 f2 (255 :: ck) hd.dbs hd.nodup
        (by simp [indices]) hf2
      rw [h3]
      cases f3 with
      | zero => simp at hf3
      | succ f4 =>
        rw [loadLoop]
        simp only [readByte, Res.bind_ok, Res.pre_nil, if_true]
        have := readFixed_append 8 ck [] hck8
        simp only [List.append_nil] at this
        rw [this]
        simp [snapshotAllocs, List.append_assoc]

theorem encSnapshot_eq (ver : Bytes) (d : Dataset) (t : Nat) :
    encSnapshot ver d t = magic ++ ([48, 48, 48, 57] ++ (encAux auxVerKey ver ++
      (encAux auxCtimeKey (natDigits (t / 1000)) ++ (encDbs t d ++ 255 :: u64le (encBody ver d t).sum)))) := by
  simp [encSnapshot, encBody, header, List.append_assoc]

/-- The loader (any switch setting) applied to the output of the writer that agrees with it on the
    escape rule, for ANY valid dataset, at any save time `t < 2^64` and load time `now`: the result
    is `loadedDataset`, nothing is left over, and the allocations are exactly the string lengths. -/
theorem decSnapshotT_encSnapshot (fix : Fix) (ver : Bytes) (d : Dataset) (t now : Nat)
    (hver : ver.length < two32) (ht : t < two64) (hd : DatasetOk fix d) :
    decSnapshotT fix (saveSnapshot fix.listEscape ver d t) now =
      .ok (loadedDataset fix t now d) [] (snapshotAllocs ver (escDataset fix.listEscape d) t) := by
  unfold saveSnapshot
  rw [encSnapshot_eq]
  generalize hsum : u64le _ = ck
  have hck8 : ck.length = 8 := by rw [← hsum]; exact u64le_length _
  unfold decSnapshotT loadInto
  rw [readFixed_append 5 magic _ (by decide)]
  simp only [Res.bind_ok, Res.pre_nil, ne_eq, not_true, if_false]
  rw [readFixed_append 4 [48, 48, 48, 57] _ (by decide)]
  simp only [Res.bind_ok, Res.pre_nil, show versionOk [48, 48, 48, 57] = true by decide, Bool.not_true,
    Bool.false_eq_true, if_false]
  exact loadLoop_body fix ver d t now hver ht hd ck hck8 _ (Nat.le_refl _)

theorem decSnapshot_encSnapshot (fix : Fix) (ver : Bytes) (d : Dataset) (t now : Nat)
    (hver : ver.length < two32) (ht : t < two64) (hd : DatasetOk fix d) :
    decSnapshot fix (saveSnapshot fix.listEscape ver d t) now = .ok (loadedDataset fix t now d) := by
  unfold decSnapshot
  rw [decSnapshotT_encSnapshot fix ver d t now hver ht hd]

/-! ### from the Boolean well-formedness predicates of the model to `DatasetOk` -/

theorem datasetOk_of_wf (fix : Fix) (d : Dataset) (hwf : datasetWF (escDataset fix.listEscape d) = true)
    (hm : anyEntry (fun e => startsWithMarker e.val) d = false ∨ fix.listEscape = true)
    (hs : anyEntry (fun e => isEmptyStream e.val) d = false ∨ fix.keepEmptyStream = true) :
    DatasetOk fix d := by
  simp only [datasetWF, Bool.and_eq_true, List.all_eq_true, decide_eq_true_eq, Bool.not_eq_true'] at hwf
  obtain ⟨hall, hnd⟩ := hwf
  have hidx : (escDataset fix.listEscape d).map (·.1) = d.map (·.1) := by simp [escDataset]
  rw [hidx] at hnd
  refine ⟨?_, hnd⟩
  intro p hp
  have hp' : (p.1, escDb fix.listEscape p.2) ∈ escDataset fix.listEscape d :=
    List.mem_map.mpr ⟨p, hp, rfl⟩
  obtain ⟨⟨hidx, hne⟩, hdb⟩ := hall _ hp'
  simp only [dbWF, Bool.and_eq_true, List.all_eq_true, decide_eq_true_eq, escDb_isEmpty, escDb_length] at hdb hne
  obtain ⟨⟨hents, hlen⟩, hknd⟩ := hdb
  have hkeys : (escDb fix.listEscape p.2).map (·.key) = p.2.map (·.key) := by simp [escDb, escEntry]
  rw [hkeys] at hknd
  refine ⟨hidx, hne, hlen, ?_, by simpa [keys] using hknd⟩
  intro e he
  have hewf := hents (escEntry fix.listEscape e) (List.mem_map.mpr ⟨e, he, rfl⟩)
  simp only [entryWF, Bool.and_eq_true] at hewf
  obtain ⟨⟨hk, hv⟩, hdl⟩ := hewf
  refine ⟨hk, hv, ?_, ?_, ?_⟩
  · intro dd hdd
    have : (escEntry fix.listEscape e).deadline = some dd := hdd
    rw [this] at hdl
    simpa using hdl
  · cases hm with
    | inl h =>
      simp only [anyEntry, List.any_eq_false] at h
      have := h p hp
      simp only [List.any_eq_true, not_exists, not_and, Bool.not_eq_true] at this
      exact Or.inl (this e he)
    | inr h => exact Or.inr h
  · cases hs with
    | inl h =>
      simp only [anyEntry, List.any_eq_false] at h
      have := h p hp
      simp only [List.any_eq_true, not_exists, not_and, Bool.not_eq_true] at this
      exact Or.inl (this e he)
    | inr h => exact Or.inr h

/-! ### the rule touches nothing but lists headed by a reserved string -/

theorem escValue_of_not_reserved (esc : Bool) (v : Value) (h : reservedHead v = false) : escValue esc v = v := by
  cases v with
  | list xs => simp only [reservedHead] at h; simp [escValue, listItems, h]
  | _ => rfl

theorem startsWithMarker_le_reservedHead (v : Value) (h : reservedHead v = false) : startsWithMarker v = false := by
  cases v with
  | list xs =>
    cases xs with
    | nil => rfl
    | cons x xs =>
      simp only [reservedHead, needsEscape, Bool.or_eq_false_iff] at h
      simpa [startsWithMarker] using h.1
  | _ => rfl

theorem anyEntry_mono (p q : Entry → Bool) (d : Dataset) (hpq : ∀ e, q e = false → p e = false)
    (h : anyEntry q d = false) : anyEntry p d = false := by
  simp only [anyEntry, List.any_eq_false, List.any_eq_true, not_exists, not_and, Bool.not_eq_true] at h ⊢
  exact fun x hx e he => hpq e (h x hx e he)

/-- a dataset without such a list is written byte for byte the same with and without the rule -/
theorem escDataset_of_no_reserved (esc : Bool) (d : Dataset) (h : anyEntry (fun e => reservedHead e.val) d = false) :
    escDataset esc d = d := by
  simp only [anyEntry, List.any_eq_false] at h
  unfold escDataset
  rw [List.map_congr_left (g := id)]
  · simp
  · intro p hp
    have hp' := h p hp
    simp only [List.any_eq_true, not_exists, not_and, Bool.not_eq_true] at hp'
    have : escDb esc p.2 = p.2 := by
      unfold escDb
      rw [List.map_congr_left (g := id)]
      · simp
      · intro e he
        obtain ⟨k, v, dl⟩ := e
        have := hp' _ he
        simp only at this
        simp [escValue_of_not_reserved esc v this]
    simp [this]

/-! ### when the loader's result is what the property prescribes -/

theorem loadedEntry_eq_live (fix : Fix) (t now : Nat) (e : Entry) (htn : t ≤ now)
    (h : fix.dropExpired = true ∨ expiresInDowntime t now e = false) :
    loadedEntry fix t now e = if alive now e = true then [e] else [] := by
  obtain ⟨k, v, dl⟩ := e
  cases dl with
  | none => simp [loadedEntry, alive]
  | some d =>
    simp only [loadedEntry, alive, decide_eq_true_eq]
    by_cases h1 : d < t
    · have : ¬ now < d := by omega
      simp [h1, this]
    · by_cases h2 : now < d
      · simp [h1, h2]
      · cases h with
        | inl hf => simp [h1, h2, hf]
        | inr hx =>
          simp [expiresInDowntime] at hx
          omega

theorem flatMap_congr' {α β : Type} (l : List α) (f g : α → List β) (h : ∀ x ∈ l, f x = g x) :
    l.flatMap f = l.flatMap g := by
  induction l with
  | nil => rfl
  | cons x xs ih =>
    simp only [List.flatMap_cons]
    rw [h x (by simp), ih (fun y hy => h y (by simp [hy]))]

theorem flatMap_ite_eq_filter {α : Type} (p : α → Bool) (l : List α) :
    l.flatMap (fun x => if p x = true then [x] else []) = l.filter p := by
  induction l with
  | nil => rfl
  | cons x xs ih =>
    simp only [List.flatMap_cons, ih, List.filter_cons]
    split <;> simp

theorem loadedDb_eq_live (fix : Fix) (t now : Nat) (db : Db) (htn : t ≤ now)
    (h : fix.dropExpired = true ∨ ∀ e ∈ db, expiresInDowntime t now e = false) :
    loadedDb fix t now db = liveDb now db := by
  unfold loadedDb liveDb
  rw [← flatMap_ite_eq_filter]
  apply flatMap_congr'
  intro e he
  apply loadedEntry_eq_live fix t now e htn
  cases h with
  | inl hf => exact Or.inl hf
  | inr hx => exact Or.inr (hx e he)

theorem loadedDataset_eq_live (fix : Fix) (t now : Nat) (d : Dataset) (htn : t ≤ now)
    (h : fix.dropExpired = true ∨ anyEntry (expiresInDowntime t now) d = false) :
    loadedDataset fix t now d = live now d := by
  unfold loadedDataset live
  apply flatMap_congr'
  intro p hp
  have : loadedDb fix t now p.2 = liveDb now p.2 := by
    apply loadedDb_eq_live fix t now p.2 htn
    cases h with
    | inl hf => exact Or.inl hf
    | inr hx =>
      right
      simp only [anyEntry, List.any_eq_false] at hx
      have := hx p hp
      simp only [List.any_eq_true, not_exists, not_and, Bool.not_eq_true] at this
      exact this
  rw [this]

end Ferrous.Rdb
