/-
  The full C19 completeness statement is satisfiable by a stateless scan over a list that is rebuilt
  on every call: resume strictly after the last key examined (`Spec.scanAfter`).
-/
import FerrousSpec.Proofs.ScanOrder
namespace Ferrous.Scan
open Spec

theorem sorted_filter {l : List Bytes} (p : Bytes → Bool) (h : Sorted l) : Sorted (l.filter p) :=
  List.Pairwise.sublist List.filter_sublist h

/-- Whatever is added or deleted between calls, a key that is in every list of the history and
    lies strictly after the cursor is returned by the key-cursor iteration. -/
theorem iterAfter_complete (m : Bytes → Bool) (count : Nat) (k : Bytes) (hm : m k = true) :
    ∀ (hist : List (List Bytes)) (cur : Option Bytes),
      (∀ ks ∈ hist, Sorted ks) → (∀ ks ∈ hist, k ∈ ks) →
      iterAfterFinishes m count cur hist = true →
      (∀ c, cur = some c → bytesLt c k = true) →
      k ∈ (iterAfter m count cur hist).flatten
  | [], _, _, _, hfin, _ => by simp [iterAfterFinishes] at hfin
  | ks :: rest, cur, hsorted, hmem, hfin, hcur => by
    have hs := hsorted ks (by simp)
    have hk := hmem ks (by simp)
    -- the candidates of this call
    let cand : List Bytes := match cur with
      | none => ks
      | some c => ks.filter (fun k => bytesLt c k)
    have hcand_sorted : Sorted cand := by
      cases cur with
      | none => exact hs
      | some c => exact sorted_filter _ hs
    have hcand_mem : k ∈ cand := by
      cases cur with
      | none => exact hk
      | some c => exact List.mem_filter.mpr ⟨hk, hcur c rfl⟩
    have hsplit : cand = cand.take (max count 1) ++ cand.drop (max count 1) := (List.take_append_drop _ _).symm
    unfold iterAfter
    simp only [List.flatten_cons, List.mem_append]
    have hitems : (scanAfter m ks cur count).2 = (cand.take (max count 1)).filter m := by
      unfold scanAfter; cases cur <;> rfl
    have hnext : (scanAfter m ks cur count).1 =
        (if cand.length ≤ max count 1 then none else (cand.take (max count 1)).getLast?) := by
      unfold scanAfter; cases cur <;> rfl
    rw [hsplit] at hcand_mem
    rcases List.mem_append.mp hcand_mem with hin | hout
    · left
      rw [hitems]
      exact List.mem_filter.mpr ⟨hin, hm⟩
    · right
      have hlen : ¬ cand.length ≤ max count 1 := by
        intro hle
        rw [List.drop_eq_nil_of_le hle] at hout
        simp at hout
      have htake_ne : cand.take (max count 1) ≠ [] := by
        intro h
        have := congrArg List.length h
        simp only [List.length_take, List.length_nil] at this
        omega
      obtain ⟨c', hc'⟩ : ∃ c', (cand.take (max count 1)).getLast? = some c' := by
        cases hgl : (cand.take (max count 1)).getLast? with
        | none => exact absurd (List.getLast?_eq_none_iff.mp hgl) htake_ne
        | some c' => exact ⟨c', rfl⟩
      have hc'mem : c' ∈ cand.take (max count 1) := List.mem_of_getLast? hc'
      have hlt : bytesLt c' k = true := by
        have hp := hcand_sorted
        rw [hsplit] at hp
        unfold Sorted at hp
        exact (List.pairwise_append.mp hp).2.2 c' hc'mem k hout
      have hn : (scanAfter m ks cur count).1 = some c' := by
        rw [hnext]; simp only [hlen, if_false]; exact hc'
      unfold iterAfterFinishes at hfin
      rw [hn] at hfin ⊢
      simp only at hfin ⊢
      exact iterAfter_complete m count k hm rest (some c')
        (fun l hl => hsorted l (by simp [hl])) (fun l hl => hmem l (by simp [hl])) hfin
        (fun c hc => by
          simp only [Option.some.injEq] at hc
          subst hc
          exact hlt)

end Ferrous.Scan
