import FerrousSpec.Model.Keyspace
set_option linter.unusedSimpArgs false
set_option linter.unusedVariables false
namespace Ferrous.KS

/-- the reply is an error -/
def isErr : Frame → Bool
  | .error _ => true
  | _ => false

/-- a command function is failure-atomic: whenever it answers with an error it returns the database it was given -/
def Atomic (f : Db × Frame) (db : Db) : Prop := isErr f.2 = true → f.1 = db

macro "atomic_solve" : tactic =>
  `(tactic| (
    repeat' split
    all_goals (try simp [isErr, ok, nil, int, nat, bulk, bulks, err, wrongType, reject])
    all_goals (try (repeat' split))
    all_goals (try simp [isErr, ok, nil, int, nat, bulk, bulks, err, wrongType, reject])
    all_goals (try (repeat' split))
    all_goals (try simp [isErr, ok, nil, int, nat, bulk, bulks, err, wrongType, reject])
    all_goals (try simp_all [isErr, ok, nil, int, nat, bulk, bulks, err, wrongType, reject])))

theorem cmdGet_atomic (db : Db) (args : List Bytes) : Atomic (cmdGet db args) db := by
  unfold Atomic cmdGet; atomic_solve
theorem cmdSet_atomic (db : Db) (now : Nat) (args : List Bytes) : Atomic (cmdSet db now args) db := by
  unfold Atomic cmdSet; atomic_solve
theorem cmdMget_atomic (db : Db) (args : List Bytes) : Atomic (cmdMget db args) db := by
  unfold Atomic cmdMget; atomic_solve
theorem cmdMset_atomic (db : Db) (args : List Bytes) : Atomic (cmdMset db args) db := by
  unfold Atomic cmdMset; atomic_solve
theorem cmdGetset_atomic (db : Db) (args : List Bytes) : Atomic (cmdGetset db args) db := by
  unfold Atomic cmdGetset; atomic_solve
theorem cmdSetnx_atomic (db : Db) (args : List Bytes) : Atomic (cmdSetnx db args) db := by
  unfold Atomic cmdSetnx; atomic_solve
theorem cmdSetex_atomic (db : Db) (now u : Nat) (args : List Bytes) : Atomic (cmdSetex db now u args) db := by
  unfold Atomic cmdSetex; atomic_solve
theorem cmdAppend_atomic (db : Db) (args : List Bytes) : Atomic (cmdAppend db args) db := by
  unfold Atomic cmdAppend; atomic_solve
theorem cmdStrlen_atomic (db : Db) (args : List Bytes) : Atomic (cmdStrlen db args) db := by
  unfold Atomic cmdStrlen; atomic_solve
theorem cmdGetrange_atomic (db : Db) (args : List Bytes) : Atomic (cmdGetrange db args) db := by
  unfold Atomic cmdGetrange; atomic_solve
theorem cmdSetrange_atomic (db : Db) (args : List Bytes) : Atomic (cmdSetrange db args) db := by
  unfold Atomic cmdSetrange; atomic_solve
theorem incrBy_atomic (db : Db) (k : Bytes) (d : Int) : Atomic (incrBy db k d) db := by
  unfold Atomic incrBy; atomic_solve
theorem cmdIncrDecr_atomic (db : Db) (sg : Int) (args : List Bytes) : Atomic (cmdIncrDecr db sg args) db := by
  unfold cmdIncrDecr
  split
  · exact incrBy_atomic _ _ _
  · unfold Atomic; simp
theorem cmdIncrbyDecrby_atomic (db : Db) (sg : Int) (args : List Bytes) : Atomic (cmdIncrbyDecrby db sg args) db := by
  unfold cmdIncrbyDecrby
  repeat' split
  all_goals first | exact incrBy_atomic _ _ _ | (unfold Atomic; simp)
theorem cmdDel_atomic (db : Db) (args : List Bytes) : Atomic (cmdDel db args) db := by
  unfold Atomic cmdDel; atomic_solve
theorem cmdExists_atomic (db : Db) (args : List Bytes) : Atomic (cmdExists db args) db := by
  unfold Atomic cmdExists; atomic_solve
theorem cmdType_atomic (db : Db) (args : List Bytes) : Atomic (cmdType db args) db := by
  unfold Atomic cmdType; atomic_solve
theorem cmdRename_atomic (db : Db) (nx : Bool) (args : List Bytes) : Atomic (cmdRename db nx args) db := by
  unfold Atomic cmdRename; atomic_solve
theorem cmdKeys_atomic (db : Db) (args : List Bytes) : Atomic (cmdKeys db args) db := by
  unfold Atomic cmdKeys; atomic_solve
theorem cmdDbsize_atomic (db : Db) (args : List Bytes) : Atomic (cmdDbsize db args) db := by
  unfold Atomic cmdDbsize; atomic_solve
theorem cmdRandomkey_atomic (db : Db) (args : List Bytes) (o : Option (List Bytes)) : Atomic (cmdRandomkey db args o) db := by
  unfold Atomic cmdRandomkey; atomic_solve
theorem cmdExpire_atomic (db : Db) (now u : Nat) (args : List Bytes) : Atomic (cmdExpire db now u args) db := by
  unfold Atomic cmdExpire; atomic_solve
theorem cmdTtl_atomic (db : Db) (now u : Nat) (args : List Bytes) : Atomic (cmdTtl db now u args) db := by
  unfold Atomic cmdTtl; atomic_solve
theorem cmdPersist_atomic (db : Db) (args : List Bytes) : Atomic (cmdPersist db args) db := by
  unfold Atomic cmdPersist; atomic_solve
theorem cmdPush_atomic (db : Db) (l : Bool) (args : List Bytes) : Atomic (cmdPush db l args) db := by
  unfold Atomic cmdPush; atomic_solve
theorem cmdPop_atomic (db : Db) (l : Bool) (args : List Bytes) : Atomic (cmdPop db l args) db := by
  unfold Atomic cmdPop; atomic_solve
theorem cmdLlen_atomic (db : Db) (args : List Bytes) : Atomic (cmdLlen db args) db := by
  unfold Atomic cmdLlen; atomic_solve
theorem cmdLrange_atomic (db : Db) (args : List Bytes) : Atomic (cmdLrange db args) db := by
  unfold Atomic cmdLrange; atomic_solve
theorem cmdLindex_atomic (db : Db) (args : List Bytes) : Atomic (cmdLindex db args) db := by
  unfold Atomic cmdLindex; atomic_solve
theorem cmdLset_atomic (db : Db) (args : List Bytes) : Atomic (cmdLset db args) db := by
  unfold Atomic cmdLset; atomic_solve
theorem cmdLtrim_atomic (db : Db) (args : List Bytes) : Atomic (cmdLtrim db args) db := by
  unfold Atomic cmdLtrim; atomic_solve
theorem cmdLrem_atomic (db : Db) (args : List Bytes) : Atomic (cmdLrem db args) db := by
  unfold Atomic cmdLrem; atomic_solve
theorem cmdSadd_atomic (db : Db) (args : List Bytes) : Atomic (cmdSadd db args) db := by
  unfold Atomic cmdSadd; atomic_solve
theorem cmdSrem_atomic (db : Db) (args : List Bytes) : Atomic (cmdSrem db args) db := by
  unfold Atomic cmdSrem; atomic_solve
theorem cmdSmembers_atomic (db : Db) (args : List Bytes) : Atomic (cmdSmembers db args) db := by
  unfold Atomic cmdSmembers; atomic_solve
theorem cmdSismember_atomic (db : Db) (args : List Bytes) : Atomic (cmdSismember db args) db := by
  unfold Atomic cmdSismember; atomic_solve
theorem cmdScard_atomic (db : Db) (args : List Bytes) : Atomic (cmdScard db args) db := by
  unfold Atomic cmdScard; atomic_solve
theorem cmdSetAlgebra_atomic (db : Db) (op : SetOp) (args : List Bytes) : Atomic (cmdSetAlgebra db op args) db := by
  unfold Atomic cmdSetAlgebra; atomic_solve
theorem cmdSpop_atomic (db : Db) (args : List Bytes) (o : Option (List Bytes)) : Atomic (cmdSpop db args o) db := by
  unfold Atomic cmdSpop; atomic_solve
theorem cmdSrandmember_atomic (db : Db) (args : List Bytes) (o : Option (List Bytes)) : Atomic (cmdSrandmember db args o) db := by
  unfold Atomic cmdSrandmember; atomic_solve
theorem cmdHset_atomic (db : Db) (m : Bool) (args : List Bytes) : Atomic (cmdHset db m args) db := by
  unfold Atomic cmdHset; atomic_solve
theorem cmdHget_atomic (db : Db) (args : List Bytes) : Atomic (cmdHget db args) db := by
  unfold Atomic cmdHget; atomic_solve
theorem cmdHmget_atomic (db : Db) (args : List Bytes) : Atomic (cmdHmget db args) db := by
  unfold Atomic cmdHmget; atomic_solve
theorem cmdHall_atomic (db : Db) (w : Nat) (args : List Bytes) : Atomic (cmdHall db w args) db := by
  unfold Atomic cmdHall; atomic_solve
theorem cmdHdel_atomic (db : Db) (args : List Bytes) : Atomic (cmdHdel db args) db := by
  unfold Atomic cmdHdel; atomic_solve
theorem cmdHlen_atomic (db : Db) (args : List Bytes) : Atomic (cmdHlen db args) db := by
  unfold Atomic cmdHlen; atomic_solve
theorem cmdHexists_atomic (db : Db) (args : List Bytes) : Atomic (cmdHexists db args) db := by
  unfold Atomic cmdHexists; atomic_solve
theorem cmdHincrby_atomic (db : Db) (args : List Bytes) : Atomic (cmdHincrby db args) db := by
  unfold Atomic cmdHincrby; atomic_solve
theorem cmdZaddSetup_atomic (db : Db) (args : List Bytes) : Atomic (cmdZaddSetup db args) db := by
  unfold Atomic cmdZaddSetup; atomic_solve
theorem cmdXaddSetup_atomic (db : Db) (args : List Bytes) : Atomic (cmdXaddSetup db args) db := by
  unfold Atomic cmdXaddSetup; atomic_solve

theorem stepDb_atomic (q : Quirks) (db : Db) (now : Nat) (name : String) (args : List Bytes) (obs : Option (List Bytes)) :
    Atomic (stepDb q db now name args obs) db := by
  unfold stepDb
  split
  all_goals first | apply cmdGet_atomic | apply cmdSet_atomic | apply cmdMget_atomic | apply cmdMset_atomic | apply cmdGetset_atomic | apply cmdSetnx_atomic | apply cmdSetex_atomic | apply cmdAppend_atomic | apply cmdStrlen_atomic | apply cmdGetrange_atomic | apply cmdSetrange_atomic | apply incrBy_atomic | apply cmdIncrDecr_atomic | apply cmdIncrbyDecrby_atomic | apply cmdDel_atomic | apply cmdExists_atomic | apply cmdType_atomic | apply cmdRename_atomic | apply cmdKeys_atomic | apply cmdDbsize_atomic | apply cmdRandomkey_atomic | apply cmdExpire_atomic | apply cmdTtl_atomic | apply cmdPersist_atomic | apply cmdPush_atomic | apply cmdPop_atomic | apply cmdLlen_atomic | apply cmdLrange_atomic | apply cmdLindex_atomic | apply cmdLset_atomic | apply cmdLtrim_atomic | apply cmdLrem_atomic | apply cmdSadd_atomic | apply cmdSrem_atomic | apply cmdSmembers_atomic | apply cmdSismember_atomic | apply cmdScard_atomic | apply cmdSetAlgebra_atomic | apply cmdSpop_atomic | apply cmdSrandmember_atomic | apply cmdHset_atomic | apply cmdHget_atomic | apply cmdHmget_atomic | apply cmdHall_atomic | apply cmdHdel_atomic | apply cmdHlen_atomic | apply cmdHexists_atomic | apply cmdHincrby_atomic | apply cmdZaddSetup_atomic | apply cmdXaddSetup_atomic | (unfold Atomic; split <;> simp [isErr, ok, err]) | (unfold Atomic; simp [isErr, ok, err])

/-- A refused command leaves the store exactly as every command sees it (expired entries dropped). -/
theorem step_atomic (q : Quirks) (s : Store) (i now : Nat) (cmd : List Bytes) (obs : Option (List Bytes))
    (h : isErr (step q s i now cmd obs).2 = true) :
    (step q s i now cmd obs).1 = s ∨ (step q s i now cmd obs).1 = setDb s i (purge now (getDb s i)) := by
  unfold step at h ⊢
  cases cmd with
  | nil => left; rfl
  | cons n args =>
    simp only at h ⊢
    by_cases hname : String.ofList ((upperBytes n).map fun b => Char.ofNat b) = "FLUSHALL"
    · simp only [hname, if_true] at h ⊢
      by_cases he : args.isEmpty = true
      · simp [he, isErr, ok] at h
      · simp [he]
    · simp only [hname, if_false] at h ⊢
      right
      have := stepDb_atomic q (purge now (getDb s i)) now _ _ obs h
      rw [this]

end Ferrous.KS
