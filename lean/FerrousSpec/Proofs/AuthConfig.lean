/-
  Helper lemmas for C17: the configuration-file grammar (sdssplitargs round trip, a requirepass line is never skipped
  under the prescribed grammar, a password once set stays set).
-/
import FerrousSpec.Model.Auth
namespace Ferrous.Auth
open Ferrous

theorem hexv_hexd : ∀ n, n < 16 → hexv (hexd n) = some n := by decide

/-- the escaped form of one byte inside double quotes -/
def encByte (b : Nat) : Bytes :=
  if 32 ≤ b ∧ b < 127 ∧ b ≠ 34 ∧ b ≠ 92 then [b] else [92, 120, hexd (b / 16), hexd (b % 16)]

theorem quoteArg_eq (p : Bytes) : quoteArg p = 34 :: (p.flatMap encByte ++ [34]) := rfl

theorem dqF_plain (f : Nat) (acc : Bytes) (b : Nat) (t : Bytes) (h1 : b ≠ 92) (h2 : b ≠ 34) :
    dqF (f + 1) acc (b :: t) = dqF f (acc ++ [b]) t := by
  simp [dqF, h1, h2]

theorem dqF_hex (f : Nat) (acc : Bytes) (x y : Nat) (t : Bytes) (hx : x < 16) (hy : y < 16) :
    dqF (f + 1) acc (92 :: 120 :: hexd x :: hexd y :: t) = dqF f (acc ++ [x * 16 + y]) t := by
  simp [dqF, hexv_hexd x hx, hexv_hexd y hy]

theorem dqF_enc (p : Bytes) (hp : ∀ b ∈ p, b < 256) :
    ∀ (acc : Bytes) (f : Nat), (p.flatMap encByte).length + 1 ≤ f →
      dqF f acc (p.flatMap encByte ++ [34]) = some (acc ++ p, []) := by
  induction p with
  | nil =>
    intro acc f hf
    cases f with
    | zero => omega
    | succ f => simp [dqF]
  | cons b t ih =>
    intro acc f hf
    have hb : b < 256 := hp b (by simp)
    have ht : ∀ x ∈ t, x < 256 := fun x hx => hp x (by simp [hx])
    cases f with
    | zero => omega
    | succ f =>
      by_cases hpl : 32 ≤ b ∧ b < 127 ∧ b ≠ 34 ∧ b ≠ 92
      · have he : encByte b = [b] := by simp [encByte, hpl]
        simp only [List.flatMap_cons, he, List.cons_append, List.nil_append, List.length_cons,
          List.length_nil, List.length_append] at hf ⊢
        rw [dqF_plain f acc b _ hpl.2.2.2 hpl.2.2.1, ih ht (acc ++ [b]) f (by simp at hf ⊢; omega)]
        simp
      · have he : encByte b = [92, 120, hexd (b / 16), hexd (b % 16)] := by simp [encByte, hpl]
        simp only [List.flatMap_cons, he, List.cons_append, List.nil_append, List.length_cons,
          List.length_append] at hf ⊢
        rw [dqF_hex f acc (b / 16) (b % 16) _ (by omega) (by omega),
          ih ht (acc ++ [b / 16 * 16 + b % 16]) f (by simp at hf ⊢; omega)]
        have : b / 16 * 16 + b % 16 = b := by omega
        simp [this]

/-- `sdssplitargs` reads the quoted form of ANY byte string back as exactly that string, one argument. -/
theorem splitArgs_quoteArg (p : Bytes) (hp : ∀ b ∈ p, b < 256) : splitArgs (quoteArg p) = some [p] := by
  rw [quoteArg_eq]
  generalize hX : p.flatMap encByte ++ [34] = X
  have hd : dqF (X.length + 1) [] X = some (p, []) := by
    have := dqF_enc p hp [] (X.length + 1) (by rw [← hX]; simp)
    rw [hX] at this; simpa using this
  have htok : tokU [] (34 :: X) = some (p, []) := by
    have : tokU [] (34 :: X) = dq [] X := by simp [tokU, isSp]
    rw [this]; exact hd
  show splitArgsF ((X.length + 1) + 1) (34 :: X) = some [p]
  have hskip : skipSp (34 :: X) = 34 :: X := by simp [skipSp, isSp]
  rw [splitArgsF, hskip]
  simp only [htok]
  simp [splitArgsF, skipSp]

/-! ### a password once set stays set; a requirepass line is never skipped -/

theorem loadFrom_some (g : Grammar) (ls : List Bytes) :
    ∀ (first : Bool) (v : Bytes), Code.loadFrom g first (some v) ls ≠ .running none := by
  induction ls with
  | nil => intro first v; simp [Code.loadFrom]
  | cons l ls ih =>
    intro first v
    unfold Code.loadFrom
    split
    · simp
    · exact ih false _
    · exact ih false v

theorem splitFirstWs_hash (t : Bytes) (p r : Bytes) (h : splitFirstWs (35 :: t) = some (p, r)) : p.head? = some 35 := by
  simp only [splitFirstWs] at h
  have : wsLen (35 :: t) = 0 := by simp [wsLen]
  simp only [this, Nat.lt_irrefl, gt_iff_lt, if_false] at h
  cases hs : splitFirstWs t with
  | none => simp [hs] at h
  | some q => simp [hs] at h; rw [← h.1]; rfl

/-- Under the prescribed grammar a line that reads as a `requirepass` directive sets the password or stops the start-up. -/
theorem spec_line_never_skipped (g : Grammar) (ha : g.anyWs = true) (hbom : g.bom = true)
    (first : Bool) (l : Bytes) (h : looksLikeRequirepass first l = true) :
    Code.parseLine g first l = .error ∨ ∃ v, Code.parseLine g first l = .requirepass v := by
  unfold looksLikeRequirepass at h
  unfold Code.parseLine Code.prepLine
  simp only [ha, hbom, Bool.true_and, if_true] at h ⊢
  generalize trim (if (first && List.take 3 l == BOM) = true then List.drop 3 l else l) = l' at h ⊢
  cases hl : l' with
  | nil => simp [hl, splitFirstWs, lowerAscii, REQUIREPASS] at h
  | cons b t =>
    by_cases hb : b = 35
    · subst hb
      rw [hl] at h
      cases hs : splitFirstWs (35 :: t) with
      | none => simp [hs, lowerAscii, REQUIREPASS] at h
      | some q =>
        obtain ⟨p, r⟩ := q
        have hh := splitFirstWs_hash t p r hs
        simp only [hs] at h
        cases p with
        | nil => simp at hh
        | cons x xs =>
          simp only [List.head?_cons, Option.some.injEq] at hh
          subst hh
          simp [lowerAscii, REQUIREPASS] at h
    · have hne : ¬ (b :: t = [] ∨ (b :: t).head? = some 35) := by simp [hb]
      rw [if_neg hne]
      rw [hl] at h
      cases hs : splitFirstWs (b :: t) with
      | none => left; rfl
      | some q =>
        obtain ⟨p, r⟩ := q
        simp only [hs, beq_iff_eq] at h
        simp only [h, if_true]
        cases hq : g.unquote with
        | false => right; exact ⟨trim r, by simp⟩
        | true =>
        simp only [if_true]
        cases hsa : splitArgs (trim r) with
        | none => left; rfl
        | some as =>
          match as with
          | [] => left; rfl
          | [a] =>
            by_cases hu : utf8Valid a = true
            · right; exact ⟨a, by simp [hu]⟩
            · left; simp [hu]
          | _ :: _ :: _ => left; rfl

theorem loadFrom_never_open (g : Grammar) (ha : g.anyWs = true) (hbom : g.bom = true) (post : List Bytes) (l : Bytes) (pre : List Bytes) :
    ∀ (first : Bool) (pw : Option Bytes), looksLikeRequirepass (first && pre.isEmpty) l = true →
      Code.loadFrom g first pw (pre ++ l :: post) ≠ .running none := by
  induction pre with
  | nil =>
    intro first pw h
    simp only [List.isEmpty_nil, Bool.and_true] at h
    simp only [List.nil_append, Code.loadFrom]
    rcases spec_line_never_skipped g ha hbom first l h with he | ⟨v, hv⟩
    · rw [he]; simp
    · rw [hv]; exact loadFrom_some _ post false v
  | cons x xs ih =>
    intro first pw h
    simp only [List.isEmpty_cons, Bool.and_false] at h
    simp only [List.cons_append]
    unfold Code.loadFrom
    split
    · simp
    · exact loadFrom_some _ _ false _
    · exact ih false pw (by simpa using h)

end Ferrous.Auth
