/-
  Blocking pops, repaired tree — an atomic EXEC (`execAtomic`): the queued commands neither notify nor wake;
  afterwards every key they pushed to is served while it has both waiters and elements (`serveKeys`).
  Inside the transaction the counting part of the invariant is suspended for the keys pushed so far
  (`InvX dirty`); serving them restores it.
-/
import FerrousSpec.Proofs.BlockingFixSteps
namespace Ferrous.Blk

/-- The slack that makes the counting clause of `InvG` hold by itself when the wake queue is empty. -/
def autoSlack (s : State) : Key → Nat := fun k => if 0 < cntR s k then cntL s k else 0

/-- Registry, wake queue (empty), blocked states unchanged: the invariant holds again with the automatic slack. -/
theorem InvG.reslack {sl st} {s t : State} (hI : InvG sl st s)
    (hr : t.registry = s.registry) (hw : t.wakeQ = s.wakeQ) (hl : t.lost = s.lost)
    (hc : ∀ c, (t.conns c).blocked = (s.conns c).blocked ∧ (t.conns c).gone = (s.conns c).gone ∧
      (t.conns c).peerClosed = (s.conns c).peerClosed)
    (hq : s.wakeQ = []) : InvG (autoSlack t) st t := by
  refine hI.congr hr hw hl hc ?_
  intro k
  have hW : cntW t k = 0 := by unfold cntW; rw [hw, hq]; rfl
  simp only [hW, autoSlack, Nat.zero_add]
  split
  · exact ⟨Nat.le_refl _, fun _ => rfl⟩
  · next h => exact ⟨Nat.zero_le _, fun h' => absurd h' h⟩

/-- Inside an atomic EXEC: everything but the counting clause, an empty wake queue, and the counting clause for
    the keys not pushed to so far. -/
structure InvX (dirty : Key → Prop) (s : State) : Prop where
  inv : ∃ sl, InvG sl noStale s
  quiet : s.wakeQ = []
  calm : Calm s
  clean : ∀ k, ¬ dirty k → 0 < cntR s k → cntL s k = 0

theorem InvB.toX {s : State} (hB : InvB s) : InvX (fun _ => False) s := by
  refine ⟨⟨noSlack, hB.inv⟩, hB.quiet, hB.calm, ?_⟩
  intro k _ hR
  have := (hB.inv.counts k).2 hR
  have hW : cntW s k = 0 := by unfold cntW; rw [hB.quiet]; rfl
  simpa [hW, noSlack] using this

/-- All keys are clean again: the invariant between commands. -/
theorem InvX.toB {dirty} {s : State} (hX : InvX dirty s) (hall : ∀ k, 0 < cntR s k → cntL s k = 0) : InvB s := by
  obtain ⟨sl, hI⟩ := hX.inv
  refine ⟨hI.congr rfl rfl rfl (fun _ => ⟨rfl, rfl, rfl⟩) ?_, hX.quiet, hX.calm⟩
  intro k
  have hW : cntW s k = 0 := by unfold cntW; rw [hX.quiet]; rfl
  simp only [hW, noSlack, Nat.add_zero]
  exact ⟨Nat.zero_le _, fun h => hall k h⟩

/-! ## The queued commands -/

theorem InvX.congr {dirty dirty' : Key → Prop} {s t : State} (hX : InvX dirty s)
    (hr : t.registry = s.registry) (hw : t.wakeQ = s.wakeQ) (hl : t.lost = s.lost)
    (hc : ∀ c, (t.conns c).blocked = (s.conns c).blocked ∧ (t.conns c).gone = (s.conns c).gone ∧
      (t.conns c).peerClosed = (s.conns c).peerClosed)
    (hclean : ∀ k, ¬ dirty' k → 0 < cntR t k → cntL t k = 0) : InvX dirty' t := by
  obtain ⟨sl, hI⟩ := hX.inv
  refine ⟨⟨_, hI.reslack hr hw hl hc hX.quiet⟩, by rw [hw]; exact hX.quiet, ?_, hclean⟩
  intro c hb
  rw [(hc c).1] at hb
  rw [(hc c).2.2]
  exact hX.calm c hb

theorem InvX_emit {dirty} {s : State} {c : Conn} (hX : InvX dirty s) (h : (s.conns c).peerClosed = false) (r : Reply) :
    InvX dirty (emit s c r) := by
  obtain ⟨sl, hI⟩ := hX.inv
  refine ⟨⟨sl, InvG_emit hI h r⟩, by simp [hX.quiet], by unfold Calm; rw [emit_conns]; exact hX.calm, ?_⟩
  intro k hk hR
  have : cntR (emit s c r) k = cntR s k := by unfold cntR; simp
  have hL : cntL (emit s c r) k = cntL s k := by unfold cntL; simp
  rw [hL]; rw [this] at hR
  exact hX.clean k hk hR

theorem InvX_pop {dirty} {s : State} (hX : InvX dirty s) {op : Op} {k : Key} {e : Key × Elem} {st' : List (Key × Elem)}
    (hp : popElem op k s.store = some (e, st')) : InvX dirty { s with store := st' } := by
  obtain ⟨a, b, h1, h2, _⟩ := popElem_some hp
  refine hX.congr rfl rfl rfl (fun _ => ⟨rfl, rfl, rfl⟩) ?_
  intro k' hk' hR
  have h0 := hX.clean k' hk' hR
  have hL : cntL s k' = st'.countP (keyIs k') + (if keyIs k' e = true then 1 else 0) := by
    unfold cntL; rw [h1, h2]; exact countP_remove _ _ _ _
  show st'.countP (keyIs k') = 0
  omega

theorem InvX_dataCore (q : Quirks) (hx : q.execAtomic = true) (hrit : q.refuseBlockingInTx = true)
    (now : Nat) (c : Conn) {dirty} (s : State) (cmd : Cmd) (hX : InvX dirty s) (hcp : (s.conns c).peerClosed = false) :
    InvX (fun k => dirty k ∨ k ∈ pushKeys [cmd]) (dataCore q now c 0 s cmd) := by
  have hmono : ∀ {t : State}, InvX dirty t → InvX (fun k => dirty k ∨ k ∈ pushKeys [cmd]) t :=
    fun h => ⟨h.inv, h.quiet, h.calm, fun k hk => h.clean k (fun hd => hk (.inl hd))⟩
  cases cmd with
  | push op k vs =>
    simp only [dataCore]
    split
    · exact hmono (InvX_emit hX hcp _)
    · simp only [hx, true_and, if_true]
      refine InvX_emit ?_ (by exact hcp) _
      refine hX.congr rfl rfl rfl (fun _ => ⟨rfl, rfl, rfl⟩) ?_
      intro k' hk' hR
      have hne : k' ≠ k := by
        intro e; exact hk' (.inr (by simp [pushKeys, e]))
      have hd : ¬ dirty k' := fun h => hk' (.inl h)
      have h0 := hX.clean k' hd hR
      show (pushElems op k vs s.store).countP (keyIs k') = 0
      rw [countP_pushElems]
      simp only [hne, if_false, Nat.add_zero]
      exact h0
  | pop op k =>
    simp only [dataCore]
    split
    · next e st' hp => exact hmono (InvX_emit (InvX_pop hX hp) hcp _)
    · exact hmono (InvX_emit hX hcp _)
  | bpop op keys t =>
    simp only [dataCore]
    split
    · exact hmono (InvX_emit hX hcp _)
    · split
      · next e st' hp =>
        obtain ⟨k, _, hp'⟩ := firstNonEmpty_some hp
        exact hmono (InvX_emit (InvX_pop hX hp') hcp _)
      · simp only [hrit, and_self, if_true]
        exact hmono (InvX_emit hX hcp _)
  | multi => exact hmono hX
  | exec => exact hmono hX

/-- With nothing queued the drain at the end of a command does nothing. -/
theorem drain_quiet (q : Quirks) (s : State) (h : s.wakeQ = []) : drain q s = s := by
  unfold drain
  split
  · exact iter_wakeOne_nil q _ s h
  · rfl

/-- A command executed by an atomic EXEC requests no wake-up. -/
theorem dataCore_wakeQ_atomic (q : Quirks) (hx : q.execAtomic = true) (now : Nat) (c : Conn) (s : State) (cmd : Cmd) :
    (dataCore q now c 0 s cmd).wakeQ = s.wakeQ := by
  cases cmd with
  | push op k vs =>
    simp only [dataCore, hx, true_and, if_true]
    split <;> simp
  | pop op k => simp only [dataCore]; split <;> simp
  | bpop op keys t =>
    simp only [dataCore]
    split
    · simp
    · split
      · simp
      · split <;> simp
  | multi => rfl
  | exec => rfl

/-- …so, on an empty wake queue, it is the handler alone. -/
theorem dataCmd_atomic_quiet (q : Quirks) (hx : q.execAtomic = true) (now : Nat) (c : Conn) (s : State) (cmd : Cmd)
    (h : s.wakeQ = []) : dataCmd q now c 0 s cmd = dataCore q now c 0 s cmd := by
  unfold dataCmd
  exact drain_quiet q _ (by rw [dataCore_wakeQ_atomic q hx]; exact h)

theorem pushKeys_cons (cmd : Cmd) (r : List Cmd) : pushKeys (cmd :: r) = pushKeys [cmd] ++ pushKeys r := by
  cases cmd <;> simp [pushKeys]

theorem InvX_foldl (q : Quirks) (hx : q.execAtomic = true) (hrit : q.refuseBlockingInTx = true)
    (now : Nat) (c : Conn) (cmds : List Cmd) : ∀ {dirty} (s : State), InvX dirty s → (s.conns c).peerClosed = false →
      InvX (fun k => dirty k ∨ k ∈ pushKeys cmds) (cmds.foldl (dataCmd q now c 0) s) := by
  induction cmds with
  | nil =>
    intro dirty s hX _
    exact ⟨hX.inv, hX.quiet, hX.calm, fun k hk => hX.clean k (fun hd => hk (.inl hd))⟩
  | cons cmd r ih =>
    intro dirty s hX hcp
    simp only [List.foldl_cons]
    have hd : dataCmd q now c 0 s cmd = dataCore q now c 0 s cmd := dataCmd_atomic_quiet q hx now c s cmd hX.quiet
    rw [hd]
    have h1 := InvX_dataCore q hx hrit now c s cmd hX hcp
    have hcp' : ((dataCore q now c 0 s cmd).conns c).peerClosed = false := by
      rw [(life_dataCore q now c 0 s cmd c).2]; exact hcp
    have h2 := ih _ h1 hcp'
    refine ⟨h2.inv, h2.quiet, h2.calm, ?_⟩
    intro k hk
    apply h2.clean k
    intro hk'
    apply hk
    rw [pushKeys_cons]
    rcases hk' with (hk' | hk') | hk'
    · exact .inl hk'
    · exact .inr (List.mem_append_left _ hk')
    · exact .inr (List.mem_append_right _ hk')

/-! ## Serving a key -/

theorem any_keyIs_iff_pos {α : Type} (k : Key) (l : List (Key × α)) : l.any (keyIs k) = true ↔ 0 < l.countP (keyIs k) := by
  rw [List.countP_pos_iff, List.any_eq_true]

theorem cntR_notify_le (k k' : Key) (s : State) : cntR (notify k s) k' ≤ cntR s k' := by
  unfold notify
  split
  · exact Nat.le_refl _
  · next e reg' hp =>
    obtain ⟨a, b, h1, h2, _, _⟩ := popFirst_some hp
    unfold cntR
    show reg'.countP (keyIs k') ≤ _
    rw [h1, h2, countP_remove]; omega

theorem cntR_notify_lt (k : Key) (s : State) (h : 0 < cntR s k) : cntR (notify k s) k < cntR s k := by
  unfold notify
  split
  · next hp =>
    have := cntR_zero_of_popFirst_none hp
    omega
  · next e reg' hp =>
    obtain ⟨a, b, h1, h2, h3, _⟩ := popFirst_some hp
    unfold cntR
    show reg'.countP (keyIs k) < _
    rw [h1, h2, countP_remove, h3]; simp

theorem cntL_notify (k k' : Key) (s : State) : cntL (notify k s) k' = cntL s k' := by
  unfold cntL; rw [notify_store]

theorem cnt_wakeOne_le (q : Quirks) (s : State) (k' : Key) :
    cntL (wakeOne q s) k' ≤ cntL s k' ∧ cntR (wakeOne q s) k' ≤ cntR s k' := by
  unfold wakeOne
  split
  · exact ⟨Nat.le_refl _, Nat.le_refl _⟩
  · next w rest hw =>
    simp only []
    split
    · split
      · exact ⟨by rw [cntL_notify]; exact Nat.le_refl _, cntR_notify_le w.key k' { s with wakeQ := rest }⟩
      · exact ⟨Nat.le_refl _, Nat.le_refl _⟩
    split
    · have hd : cntL { (setBlocked { s with wakeQ := rest } w.conn none) with
            registry := (setBlocked { s with wakeQ := rest } w.conn none).registry.filter fun x => x.2.conn != w.conn } k' ≤ cntL s k' ∧
          cntR { (setBlocked { s with wakeQ := rest } w.conn none) with
            registry := (setBlocked { s with wakeQ := rest } w.conn none).registry.filter fun x => x.2.conn != w.conn } k' ≤ cntR s k' := by
        refine ⟨?_, ?_⟩
        · unfold cntL; simp only [setBlocked_store]; exact Nat.le_refl _
        · unfold cntR; simp only [setBlocked_registry]; exact countP_filter_le _ _ _
      split
      · exact ⟨by rw [cntL_notify]; exact hd.1, Nat.le_trans (cntR_notify_le w.key k' _) hd.2⟩
      · exact hd
    split
    · exact ⟨Nat.le_refl _, Nat.le_refl _⟩
    · next e st' hpe =>
      obtain ⟨a, b, h1, h2, _⟩ := popElem_some hpe
      have hL : st'.countP (keyIs k') ≤ cntL s k' := by
        unfold cntL; rw [h1, h2, countP_remove]; omega
      split
      · split
        · refine ⟨?_, ?_⟩
          · unfold cntL; simp only [setBlocked_store, emit_store]; exact hL
          · unfold cntR; simp only [setBlocked_registry, emit_registry]; exact countP_filter_le _ _ _
        · refine ⟨?_, ?_⟩
          · unfold cntL; simp only [setBlocked_store, emit_store]; exact hL
          · unfold cntR; simp only [setBlocked_registry, emit_registry]; exact Nat.le_refl _
      · exact ⟨hL, Nat.le_refl _⟩

theorem notify_wakeQ_pos (k : Key) (s : State) (hR : 0 < cntR s k) : 0 < (notify k s).wakeQ.length := by
  unfold notify
  split
  · next hp =>
    have := cntR_zero_of_popFirst_none hp
    omega
  · simp

/-- Carrying out the one queued request empties the queue: further `process_wakeups` calls do nothing. -/
theorem iter_wakeOne_of_quiet (q : Quirks) (n : Nat) (s : State) (h : (wakeOne q s).wakeQ = []) (hn : 0 < n) :
    iter (wakeOne q) n s = wakeOne q s := by
  cases n with
  | zero => omega
  | succ n => simp only [iter]; exact iter_wakeOne_nil q n _ h

/-- One round of `serve_key`. -/
theorem serveRound (q : Quirks) (huas : q.unregisterAllOnServe = true) (k : Key) {sl} (s : State)
    (hI : InvG sl noStale s) (hq : s.wakeQ = []) (hcalm : Calm s) (hR : 0 < cntR s k) (hL : 0 < cntL s k) :
    InvG (decAt sl k) noStale (wakeOne q (notify k s)) ∧ (wakeOne q (notify k s)).wakeQ = [] ∧ Calm (wakeOne q (notify k s)) ∧
      (∀ k', cntL (wakeOne q (notify k s)) k' ≤ cntL s k' ∧ cntR (wakeOne q (notify k s)) k' ≤ cntR s k') ∧
      cntR (wakeOne q (notify k s)) k < cntR s k := by
  have hpos : 0 < sl k := by
    have := (hI.counts k).2 hR
    have hW : cntW s k = 0 := by unfold cntW; rw [hq]; rfl
    omega
  obtain ⟨h1, _, h3⟩ := InvG_notify_sl k hI hpos (by rw [hq]; intro w hw; cases hw)
  have hcalm' : Calm (notify k s) := by unfold Calm; rw [notify_conns]; exact hcalm
  refine ⟨InvG_wakeOne q huas _ h1 hcalm', ?_, Calm_wakeOne q _ hcalm', ?_, ?_⟩
  · rw [wakeOne_wakeQ q _ (fun w rest hw => h1.target_ok hw) (fun w rest hw => by
      obtain ⟨b, hb, _⟩ := h1.wakeOk w (by rw [hw]; simp)
      exact hcalm' w.conn (by rw [hb]; simp))]
    rw [hq] at h3
    simp only [List.length_nil, Nat.zero_add] at h3
    cases hwq : (notify k s).wakeQ with
    | nil => rfl
    | cons a r =>
      rw [hwq] at h3
      simp only [List.length_cons] at h3
      have : r = [] := List.length_eq_zero_iff.mp (by omega)
      rw [this]; rfl
  · intro k'
    obtain ⟨g1, g2⟩ := cnt_wakeOne_le q (notify k s) k'
    rw [cntL_notify] at g1
    exact ⟨g1, Nat.le_trans g2 (cntR_notify_le k k' s)⟩
  · exact Nat.lt_of_le_of_lt (cnt_wakeOne_le q (notify k s) k).2 (cntR_notify_lt k s hR)

theorem serveKey_spec (q : Quirks) (huas : q.unregisterAllOnServe = true) (k : Key) :
    ∀ (n : Nat) (s : State), (∃ sl, InvG sl noStale s) → s.wakeQ = [] → Calm s → cntR s k ≤ n →
      (∃ sl, InvG sl noStale (serveKey q k n s)) ∧ (serveKey q k n s).wakeQ = [] ∧ Calm (serveKey q k n s) ∧
      (∀ k', cntL (serveKey q k n s) k' ≤ cntL s k' ∧ cntR (serveKey q k n s) k' ≤ cntR s k') ∧
      (cntR (serveKey q k n s) k = 0 ∨ cntL (serveKey q k n s) k = 0) := by
  intro n
  induction n with
  | zero =>
    intro s hI hq hc hn
    exact ⟨hI, hq, hc, fun _ => ⟨Nat.le_refl _, Nat.le_refl _⟩, .inl (by simp only [serveKey]; omega)⟩
  | succ n ih =>
    intro s hI hq hcalm hn
    simp only [serveKey]
    split
    · next hc =>
      simp only [Bool.and_eq_true] at hc
      have hR : 0 < cntR s k := (any_keyIs_iff_pos k s.registry).mp hc.1
      have hL : 0 < cntL s k := (any_keyIs_iff_pos k s.store).mp hc.2
      obtain ⟨sl, hI⟩ := hI
      obtain ⟨g1, g2, gc, g3, g4⟩ := serveRound q huas k s hI hq hcalm hR hL
      have hall : (if q.serveDrains = true then
            iter (wakeOne q) ((notify k s).wakeQ.length + (notify k s).registry.length) (notify k s)
          else wakeOne q (notify k s)) = wakeOne q (notify k s) := by
        split
        · exact iter_wakeOne_of_quiet q _ _ g2 (Nat.lt_of_lt_of_le (notify_wakeQ_pos k s hR) (Nat.le_add_right _ _))
        · rfl
      rw [hall]
      obtain ⟨f1, f2, fc, f3, f4⟩ := ih _ ⟨_, g1⟩ g2 gc (by omega)
      refine ⟨f1, f2, fc, ?_, f4⟩
      intro k'
      exact ⟨Nat.le_trans (f3 k').1 (g3 k').1, Nat.le_trans (f3 k').2 (g3 k').2⟩
    · next hc =>
      refine ⟨hI, hq, hcalm, fun _ => ⟨Nat.le_refl _, Nat.le_refl _⟩, ?_⟩
      simp only [Bool.and_eq_true, not_and] at hc
      by_cases hR : 0 < cntR s k
      · right
        have : ¬ (s.store.any (keyIs k) = true) := hc ((any_keyIs_iff_pos k s.registry).mpr hR)
        have : ¬ 0 < cntL s k := fun h => this ((any_keyIs_iff_pos k s.store).mpr h)
        omega
      · left; omega

/-- After serving the keys `ks`: every one of them, and every key that was clean, is clean. -/
theorem serveKeys_spec (q : Quirks) (huas : q.unregisterAllOnServe = true) (ks : List Key) :
    ∀ (s : State) (dirty : Key → Prop), InvX dirty s →
      InvX (fun k => dirty k ∧ k ∉ ks) (serveKeys q ks s) := by
  unfold serveKeys
  induction ks with
  | nil =>
    intro s dirty hX
    exact ⟨hX.inv, hX.quiet, hX.calm, fun k hk => hX.clean k (fun hd => hk ⟨hd, by simp⟩)⟩
  | cons k r ih =>
    intro s dirty hX
    simp only [List.foldl_cons]
    obtain ⟨g1, g2, gc, g3, g4⟩ := serveKey_spec q huas k s.registry.length s hX.inv hX.quiet hX.calm List.countP_le_length
    have hX1 : InvX (fun k' => dirty k' ∧ k' ≠ k) (serveKey q k s.registry.length s) := by
      refine ⟨g1, g2, gc, ?_⟩
      intro k' hk' hR
      by_cases hkk : k' = k
      · subst hkk
        rcases g4 with h | h
        · omega
        · exact h
      · have hd : ¬ dirty k' := fun hd => hk' ⟨hd, hkk⟩
        have hR0 : 0 < cntR s k' := Nat.lt_of_lt_of_le hR (g3 k').2
        have := hX.clean k' hd hR0
        have := (g3 k').1
        omega
    have h2 := ih _ _ hX1
    refine ⟨h2.inv, h2.quiet, h2.calm, ?_⟩
    intro k' hk'
    apply h2.clean k'
    intro ⟨⟨hd, hne⟩, hnr⟩
    exact hk' ⟨hd, by simp [hne, hnr]⟩

/-! ## What an atomic EXEC sees does not depend on who is blocked -/

/-- Same lists, same replies so far, same connection table — registry and wake queue may differ. -/
structure Sim (s t : State) : Prop where
  store : s.store = t.store
  out : s.out = t.out
  conns : s.conns = t.conns
  lost : s.lost = t.lost
  /-- no wake-up request is waiting on either side (a left-over request would be carried out by the drain that
      follows each queued command) -/
  quietL : s.wakeQ = []
  quietR : t.wakeQ = []

theorem Sim_emit {s t : State} (h : Sim s t) (c : Conn) (r : Reply) : Sim (emit s c r) (emit t c r) := by
  have hc : (s.conns c).peerClosed = (t.conns c).peerClosed := by rw [h.conns]
  unfold emit
  rw [hc]
  split
  · split
    · exact ⟨h.store, h.out, h.conns, by show s.lost ++ _ = t.lost ++ _; rw [h.lost], h.quietL, h.quietR⟩
    · exact h
  · exact ⟨h.store, by show s.out ++ _ = t.out ++ _; rw [h.out], h.conns, h.lost, h.quietL, h.quietR⟩

theorem Sim_store {s t : State} (h : Sim s t) (st' : List (Key × Elem)) (pu pu' : List (Key × Elem)) :
    Sim { s with store := st', pushed := pu } { t with store := st', pushed := pu' } :=
  ⟨rfl, h.out, h.conns, h.lost, h.quietL, h.quietR⟩

theorem Sim_dataCore (q : Quirks) (hx : q.execAtomic = true) (now : Nat) (c : Conn) {s t : State} (h : Sim s t) (cmd : Cmd) :
    Sim (dataCore q now c 0 s cmd) (dataCore q now c 0 t cmd) := by
  cases cmd with
  | push op k vs =>
    simp only [dataCore, hx, true_and, if_true]
    split
    · exact Sim_emit h c _
    · rw [h.store]
      exact Sim_emit (Sim_store h _ _ _) c _
  | pop op k =>
    simp only [dataCore]
    rw [h.store]
    split
    · exact Sim_emit (Sim_store h _ _ _) c _
    · exact Sim_emit h c _
  | bpop op keys tm =>
    simp only [dataCore]
    rw [h.store]
    split
    · exact Sim_emit h c _
    · split
      · exact Sim_emit (Sim_store h _ _ _) c _
      · split
        · exact Sim_emit h c _
        · simp only [setBlocked, if_true]
          exact ⟨rfl, h.out, h.conns, h.lost, h.quietL, h.quietR⟩
  | multi => exact h
  | exec => exact h

theorem Sim_foldl (q : Quirks) (hx : q.execAtomic = true) (now : Nat) (c : Conn) (cmds : List Cmd) :
    ∀ {s t : State}, Sim s t → Sim (cmds.foldl (dataCmd q now c 0) s) (cmds.foldl (dataCmd q now c 0) t) := by
  induction cmds with
  | nil => intro s t h; exact h
  | cons cmd r ih =>
    intro s t h
    simp only [List.foldl_cons]
    rw [dataCmd_atomic_quiet q hx now c s cmd h.quietL, dataCmd_atomic_quiet q hx now c t cmd h.quietR]
    exact ih (Sim_dataCore q hx now c h cmd)

end Ferrous.Blk
