/-
  C16 helper lemmas, part 2: the representation-agreement invariant is preserved by
  acknowledge / claim / delete_consumer for EVERY agreeing state, and by add_pending for fresh ids.
-/
import FerrousSpec.Proofs.GroupsBasic
namespace Ferrous.Grp
open Code

theorem length_filter_add_not {α : Type} (p : α → Bool) (l : List α) :
    (l.filter p).length + (l.filter (fun x => !p x)).length = l.length := by
  induction l with
  | nil => rfl
  | cons x t ih =>
    simp only [List.filter_cons]
    cases p x <;> simp <;> omega

/-! ### the per-consumer vectors and counters, membership form -/

theorem bcRemoveId_none {o : Name} {id : Id} {bc : List (Name × List Id)} (h : alGet o bc = none) :
    bcRemoveId o id bc = bc := by
  simp [bcRemoveId, h]

theorem mem_bcRemoveId {o : Name} {id : Id} {bc : List (Name × List Id)} {l : List Id}
    (hn : (keys bc).Nodup) (hl : alGet o bc = some l) (p : Name × List Id) :
    p ∈ bcRemoveId o id bc ↔
      (p.1 ≠ o ∧ p ∈ bc) ∨ (p = (o, l.filter (fun x => x != id)) ∧ l.filter (fun x => x != id) ≠ []) := by
  simp only [bcRemoveId, hl]
  split
  · rename_i he
    have he' : l.filter (fun x => x != id) = [] := by simpa using he
    rw [mem_alErase]
    simp [he']
  · rename_i he
    have he' : l.filter (fun x => x != id) ≠ [] := by simpa using he
    rw [mem_alSet hn]
    simp [he']

theorem nodup_keys_bcRemoveId {o : Name} {id : Id} {bc : List (Name × List Id)} (hn : (keys bc).Nodup) :
    (keys (bcRemoveId o id bc)).Nodup := by
  unfold bcRemoveId
  split
  · split
    · exact nodup_keys_alErase hn
    · exact nodup_keys_alSet hn
  · exact hn

theorem mem_bcPush {c : Name} {id : Id} {bc : List (Name × List Id)} (hn : (keys bc).Nodup)
    (p : Name × List Id) :
    p ∈ bcPush c id bc ↔ (p.1 ≠ c ∧ p ∈ bc) ∨ p = (c, (alGet c bc).getD [] ++ [id]) := by
  unfold bcPush
  cases h : alGet c bc with
  | some l => simp only [mem_alSet hn, Option.getD_some]
  | none => simp only [mem_alSet hn, Option.getD_none, List.nil_append]

theorem nodup_keys_bcPush {c : Name} {id : Id} {bc : List (Name × List Id)} (hn : (keys bc).Nodup) :
    (keys (bcPush c id bc)).Nodup := by
  unfold bcPush
  split <;> exact nodup_keys_alSet hn

theorem alGet_bcPush (j c : Name) (id : Id) (bc : List (Name × List Id)) :
    alGet j (bcPush c id bc) = if c = j then some ((alGet c bc).getD [] ++ [id]) else alGet j bc := by
  unfold bcPush
  cases h : alGet c bc with
  | some l => simp only [alGet_alSet, Option.getD_some]
  | none => simp only [alGet_alSet, Option.getD_none, List.nil_append]

theorem consAdjust_none {c : Name} {f : Nat → Nat} {cs : List (Name × Nat)} (h : alGet c cs = none) :
    consAdjust c f cs = cs := by
  simp [consAdjust, h]

theorem mem_consAdjust {c : Name} {f : Nat → Nat} {cs : List (Name × Nat)} {n : Nat}
    (hn : (keys cs).Nodup) (h : alGet c cs = some n) (r : Name × Nat) :
    r ∈ consAdjust c f cs ↔ (r.1 ≠ c ∧ r ∈ cs) ∨ r = (c, f n) := by
  simp only [consAdjust, h, mem_alSet hn]

theorem nodup_keys_consAdjust {c : Name} {f : Nat → Nat} {cs : List (Name × Nat)} (hn : (keys cs).Nodup) :
    (keys (consAdjust c f cs)).Nodup := by
  unfold consAdjust
  split
  · exact nodup_keys_alSet hn
  · exact hn

theorem alGet_consAdjust (j c : Name) (f : Nat → Nat) (cs : List (Name × Nat)) :
    alGet j (consAdjust c f cs) = if c = j then (alGet c cs).map f else alGet j cs := by
  unfold consAdjust
  cases h : alGet c cs with
  | some n => simp only [alGet_alSet, Option.map_some]
  | none =>
    by_cases hj : c = j
    · subst hj; simp [h]
    · simp [hj]

theorem mem_consCreate {c : Name} {cs : List (Name × Nat)} (hn : (keys cs).Nodup) (r : Name × Nat) :
    r ∈ consCreate c cs ↔ r ∈ cs ∨ (r = (c, 0) ∧ alGet c cs = none) := by
  unfold consCreate
  cases h : alGet c cs with
  | some n => simp
  | none =>
    simp only [mem_alSet hn, and_true]
    constructor
    · rintro (⟨_, h'⟩ | h')
      · exact Or.inl h'
      · exact Or.inr h'
    · rintro (h' | h')
      · refine Or.inl ⟨?_, h'⟩
        intro e
        exact (alGet_eq_none_iff.mp h) (e ▸ mem_keys_of_mem h')
      · exact Or.inr h'

theorem nodup_keys_consCreate {c : Name} {cs : List (Name × Nat)} (hn : (keys cs).Nodup) :
    (keys (consCreate c cs)).Nodup := by
  unfold consCreate
  split
  · exact hn
  · exact nodup_keys_alSet hn

theorem alGet_consCreate_self (c : Name) (cs : List (Name × Nat)) : (alGet c (consCreate c cs)).isSome := by
  unfold consCreate
  cases h : alGet c cs with
  | some n => simp [h]
  | none => simp [alGet_alSet]

/-! ### facts available in every agreeing state -/

/-- the vector of the owner of a pending entry, and the owner's counter -/
theorem AgreeCore.owner_facts {g : Group} (h : AgreeCore g) {e : PEntry} (he : e ∈ g.byId) :
    ∃ l, alGet e.owner g.byConsumer = some l ∧ e.id ∈ l ∧ l.Nodup ∧
         alGet e.owner g.consumers = some l.length := by
  obtain ⟨p, hp, hpo, hpid⟩ := h.own₁ e he
  obtain ⟨r, hr, hro, hrn⟩ := h.cnt₁ p hp
  refine ⟨p.2, ?_, hpid, (h.lists p hp).2, ?_⟩
  · exact alGet_of_mem h.bcKeys (by rw [← hpo]; exact hp)
  · apply alGet_of_mem h.csKeys
    rw [← hpo, ← hro, ← hrn]; exact hr

theorem AgreeCore.vec_owner {g : Group} (h : AgreeCore g) {c : Name} {l : List Id}
    (hl : alGet c g.byConsumer = some l) {id : Id} (hid : id ∈ l) :
    ∃ e ∈ g.byId, e.id = id ∧ e.owner = c :=
  h.own₂ (c, l) (mem_of_alGet hl) id hid

/-! ### acknowledge -/

theorem agreeCore_ackOne {g : Group} (h : AgreeCore g) (id : Id) : AgreeCore (ackOne g id).1 := by
  unfold ackOne
  cases hf : pelFind id g.byId with
  | none => exact h
  | some e =>
    obtain ⟨he, hid⟩ := pelFind_some hf
    subst hid
    obtain ⟨l, hl, hidl, hnd, hc⟩ := h.owner_facts he
    have hbc := mem_bcRemoveId (id := e.id) h.bcKeys hl
    have hcs := mem_consAdjust (f := (· - 1)) h.csKeys hc
    refine { sorted := ?_, bcKeys := ?_, csKeys := ?_, lists := ?_, own₁ := ?_, own₂ := ?_, cnt₁ := ?_,
             cnt₂ := ?_, bmin := rfl, bmax := rfl }
    · exact sorted_pelRemove h.sorted
    · exact nodup_keys_bcRemoveId h.bcKeys
    · exact nodup_keys_consAdjust h.csKeys
    · intro p hp
      rcases (hbc p).mp hp with ⟨_, hp⟩ | ⟨hp, hne⟩
      · exact h.lists p hp
      · subst hp; exact ⟨hne, hnd.filter _⟩
    · intro e' he'
      obtain ⟨he'₁, he'₂⟩ := mem_pelRemove.mp he'
      obtain ⟨p, hp, hpo, hpid⟩ := h.own₁ e' he'₁
      by_cases ho : p.1 = e.owner
      · have : p = (e.owner, l) := pair_unique h.bcKeys hp (mem_of_alGet hl) ho
        subst this
        have hmem : e'.id ∈ l.filter (fun x => x != e.id) := by
          simp only [List.mem_filter, bne_iff_ne]; exact ⟨hpid, he'₂⟩
        refine ⟨(e.owner, l.filter (fun x => x != e.id)), (hbc _).mpr (Or.inr ⟨rfl, ?_⟩), hpo, hmem⟩
        intro e0; rw [e0] at hmem; cases hmem
      · exact ⟨p, (hbc p).mpr (Or.inl ⟨ho, hp⟩), hpo, hpid⟩
    · intro p hp i hi
      rcases (hbc p).mp hp with ⟨hpo, hp⟩ | ⟨hp, _⟩
      · obtain ⟨e', he', hid', ho'⟩ := h.own₂ p hp i hi
        refine ⟨e', mem_pelRemove.mpr ⟨he', ?_⟩, hid', ho'⟩
        intro e0
        have := sorted_unique h.sorted he' he e0
        subst this; exact hpo ho'.symm
      · subst hp
        simp only [List.mem_filter, bne_iff_ne] at hi
        obtain ⟨e', he', hid', ho'⟩ := h.vec_owner hl hi.1
        exact ⟨e', mem_pelRemove.mpr ⟨he', by rw [hid']; exact hi.2⟩, hid', ho'⟩
    · intro p hp
      rcases (hbc p).mp hp with ⟨hpo, hp⟩ | ⟨hp, _⟩
      · obtain ⟨r, hr, hro, hrn⟩ := h.cnt₁ p hp
        exact ⟨r, (hcs r).mpr (Or.inl ⟨by rw [hro]; exact hpo, hr⟩), hro, hrn⟩
      · subst hp
        refine ⟨(e.owner, l.length - 1), (hcs _).mpr (Or.inr rfl), rfl, ?_⟩
        have := length_filter_ne hnd hidl
        simp only; omega
    · intro r hr
      rcases (hcs r).mp hr with ⟨hro, hr⟩ | hr
      · rcases h.cnt₂ r hr with h0 | ⟨p, hp, hpo⟩
        · exact Or.inl h0
        · exact Or.inr ⟨p, (hbc p).mpr (Or.inl ⟨by rw [hpo]; exact hro, hp⟩), hpo⟩
      · subst hr
        by_cases hne : l.filter (fun x => x != e.id) = []
        · left
          have := length_filter_ne hnd hidl
          rw [hne] at this; simp at this; simp only; omega
        · exact Or.inr ⟨_, (hbc _).mpr (Or.inr ⟨rfl, hne⟩), rfl⟩

/-- `ackOne` removes the row for `id` from `byId` when there is one, and only then reports success -/
theorem ackOne_byId (g : Group) (id : Id) :
    (ackOne g id).1.byId = pelRemove id g.byId ∧
    ((ackOne g id).2 = true ↔ ∃ e ∈ g.byId, e.id = id) := by
  unfold ackOne
  cases hf : pelFind id g.byId with
  | none =>
    have := pelFind_none.mp hf
    refine ⟨(pelRemove_of_not_mem this).symm, ?_⟩
    simp only [Bool.false_eq_true, false_iff, not_exists, not_and]
    exact this
  | some e =>
    have := pelFind_some hf
    exact ⟨rfl, by simp only [true_iff]; exact ⟨e, this.1, this.2⟩⟩

theorem ackOne_fields (g : Group) (id : Id) :
    (ackOne g id).1.totalPending = g.totalPending ∧ (ackOne g id).1.lastDelivered = g.lastDelivered := by
  unfold ackOne; split <;> exact ⟨rfl, rfl⟩

theorem ackLoop_spec (g : Group) (ids : List Id) (n : Nat) (h : AgreeCore g) :
    AgreeCore (ackLoop g ids n).1 ∧
    (ackLoop g ids n).1.totalPending = g.totalPending ∧
    (ackLoop g ids n).1.lastDelivered = g.lastDelivered ∧
    (ackLoop g ids n).1.byId.length + (ackLoop g ids n).2 = g.byId.length + n := by
  induction ids generalizing g n with
  | nil => exact ⟨h, rfl, rfl, rfl⟩
  | cons id ids ih =>
    simp only [ackLoop]
    obtain ⟨h1, h2, h3, h4⟩ := ih (ackOne g id).1 (if (ackOne g id).2 then n + 1 else n) (agreeCore_ackOne h id)
    refine ⟨h1, by rw [h2, (ackOne_fields g id).1], by rw [h3, (ackOne_fields g id).2], ?_⟩
    rw [h4]
    obtain ⟨hb, hr⟩ := ackOne_byId g id
    rw [hb]
    by_cases hx : (ackOne g id).2 = true
    · obtain ⟨e, he, hid⟩ := hr.mp hx
      subst hid
      have := length_pelRemove h.sorted he
      simp only [hx, if_true]; omega
    · have : ∀ e ∈ g.byId, e.id ≠ id := by
        intro e he hid; exact hx (hr.mpr ⟨e, he, hid⟩)
      rw [pelRemove_of_not_mem this]
      simp [hx]

theorem agree_acknowledge {g : Group} (h : Agree g) (ids : List Id) : Agree (acknowledge g ids).1 := by
  obtain ⟨h1, h2, _, h4⟩ := ackLoop_spec g ids 0 h.toAgreeCore
  unfold acknowledge
  refine { toAgreeCore := ?_, total := ?_ }
  · exact { sorted := h1.sorted, bcKeys := h1.bcKeys, csKeys := h1.csKeys, lists := h1.lists, own₁ := h1.own₁,
            own₂ := h1.own₂, cnt₁ := h1.cnt₁, cnt₂ := h1.cnt₂, bmin := h1.bmin, bmax := h1.bmax }
  · show (ackLoop g ids 0).1.totalPending - (ackLoop g ids 0).2 = (ackLoop g ids 0).1.byId.length
    rw [h2, h.total]; omega

/-! ### claim -/

theorem agreeCore_createConsumer {g : Group} (h : AgreeCore g) (c : Name) : AgreeCore (createConsumer g c) := by
  have hcs := mem_consCreate (c := c) h.csKeys
  refine { sorted := h.sorted, bcKeys := h.bcKeys, csKeys := nodup_keys_consCreate h.csKeys, lists := h.lists,
           own₁ := h.own₁, own₂ := h.own₂, cnt₁ := ?_, cnt₂ := ?_, bmin := h.bmin, bmax := h.bmax }
  · intro p hp
    obtain ⟨r, hr, hro, hrn⟩ := h.cnt₁ p hp
    exact ⟨r, (hcs r).mpr (Or.inl hr), hro, hrn⟩
  · intro r hr
    rcases (hcs r).mp hr with hr | ⟨hr, _⟩
    · exact h.cnt₂ r hr
    · subst hr; exact Or.inl rfl

theorem agree_createConsumer {g : Group} (h : Agree g) (c : Name) : Agree (createConsumer g c) :=
  { toAgreeCore := agreeCore_createConsumer h.toAgreeCore c, total := h.total }

/-- moving one pending entry to `c` (which must already be a consumer) keeps the representations in agreement -/
theorem agreeCore_claimOne {g : Group} (h : AgreeCore g) (c : Name) (elig : Bool) (id : Id)
    (hc : (alGet c g.consumers).isSome) : AgreeCore (claimOne c elig g id).1 := by
  unfold claimOne
  cases hf : pelFind id g.byId with
  | none => exact h
  | some e =>
    cases elig with
    | false => exact h
    | true =>
      simp only [if_true]
      obtain ⟨he, hid⟩ := pelFind_some hf
      subst hid
      obtain ⟨l, hl, hidl, hnd, hco⟩ := h.owner_facts he
      -- the state after the two counter updates
      unfold transfer
      simp only [hf]
      have hbc1 := mem_bcRemoveId (id := e.id) h.bcKeys hl
      have hk1 := nodup_keys_bcRemoveId (o := e.owner) (id := e.id) h.bcKeys
      have hbc := mem_bcPush (c := c) (id := e.id) hk1
      -- the claimer's vector after the removal
      have hget1 : ∀ j, j ≠ e.owner → alGet j (bcRemoveId e.owner e.id g.byConsumer) = alGet j g.byConsumer := by
        intro j hj
        simp only [bcRemoveId, hl]
        split
        · rw [alGet_alErase]; simp [Ne.symm hj]
        · rw [alGet_alSet]; simp [Ne.symm hj]
      have hgetO : alGet e.owner (bcRemoveId e.owner e.id g.byConsumer) =
          if l.filter (fun x => x != e.id) = [] then none else some (l.filter (fun x => x != e.id)) := by
        simp only [bcRemoveId, hl]
        by_cases hemp : l.filter (fun x => x != e.id) = []
        · simp [hemp, alGet_alErase]
        · have : (l.filter (fun x => x != e.id)).isEmpty = false := by simpa using hemp
          simp [hemp, this, alGet_alSet]
      have hcs1 := mem_consAdjust (f := (· - 1)) h.csKeys hco
      have hk2 := nodup_keys_consAdjust (c := e.owner) (f := (· - 1)) h.csKeys
      obtain ⟨nc, hnc⟩ := Option.isSome_iff_exists.mp
        (show (alGet c (consAdjust e.owner (· - 1) g.consumers)).isSome by
          rw [alGet_consAdjust]; split
          · rename_i heq; rw [hco]; rfl
          · exact hc)
      have hcs := mem_consAdjust (f := (· + 1)) hk2 hnc
      have hlen := length_filter_ne hnd hidl
      -- id is in no vector after the removal
      have hfresh : ∀ p ∈ bcRemoveId e.owner e.id g.byConsumer, e.id ∉ p.2 := by
        intro p hp hin
        rcases (hbc1 p).mp hp with ⟨hpo, hp⟩ | ⟨hp, _⟩
        · obtain ⟨e', he', hid', ho'⟩ := h.own₂ p hp e.id hin
          have := sorted_unique h.sorted he' he hid'
          subst this; exact hpo ho'.symm
        · subst hp; simp at hin
      refine { sorted := sorted_pelSetOwner h.sorted, bcKeys := nodup_keys_bcPush hk1,
               csKeys := nodup_keys_consAdjust hk2, lists := ?_, own₁ := ?_, own₂ := ?_, cnt₁ := ?_, cnt₂ := ?_,
               bmin := ?_, bmax := ?_ }
      · intro p hp
        rcases (hbc p).mp hp with ⟨_, hp⟩ | hp
        · rcases (hbc1 p).mp hp with ⟨_, hp⟩ | ⟨hp, hne⟩
          · exact h.lists p hp
          · subst hp; exact ⟨hne, hnd.filter _⟩
        · subst hp
          refine ⟨by simp, ?_⟩
          rw [List.nodup_append]
          refine ⟨?_, by simp, ?_⟩
          · cases hg : alGet c (bcRemoveId e.owner e.id g.byConsumer) with
            | none => simp
            | some l' =>
              simp only [Option.getD_some]
              rcases (hbc1 (c, l')).mp (mem_of_alGet hg) with ⟨_, hp⟩ | ⟨hp, _⟩
              · exact (h.lists _ hp).2
              · simp only [Prod.mk.injEq] at hp; rw [hp.2]; exact hnd.filter _
          · intro a ha b hb
            simp only [List.mem_singleton] at hb; subst hb
            intro e0; subst e0
            cases hg : alGet c (bcRemoveId e.owner e.id g.byConsumer) with
            | none => rw [hg] at ha; simp at ha
            | some l' =>
              rw [hg] at ha; simp only [Option.getD_some] at ha
              exact hfresh (c, l') (mem_of_alGet hg) ha
      · intro x hx
        obtain ⟨e', he', hx⟩ := mem_pelSetOwner.mp hx
        by_cases hid' : e'.id = e.id
        · have := sorted_unique h.sorted he' he hid'
          subst this
          simp only [if_true] at hx; subst hx
          exact ⟨_, (hbc _).mpr (Or.inr rfl), rfl, by simp⟩
        · simp only [hid', if_false] at hx; subst hx
          obtain ⟨p, hp, hpo, hpid⟩ := h.own₁ x he'
          -- x's vector after the removal step
          have hp1 : ∃ p1 ∈ bcRemoveId e.owner e.id g.byConsumer, p1.1 = x.owner ∧ x.id ∈ p1.2 := by
            by_cases ho : p.1 = e.owner
            · have : p = (e.owner, l) := pair_unique h.bcKeys hp (mem_of_alGet hl) ho
              subst this
              have hmem : x.id ∈ l.filter (fun y => y != e.id) := by
                simp only [List.mem_filter, bne_iff_ne]; exact ⟨hpid, hid'⟩
              refine ⟨(e.owner, l.filter (fun y => y != e.id)), (hbc1 _).mpr (Or.inr ⟨rfl, ?_⟩), hpo, hmem⟩
              intro e0; rw [e0] at hmem; cases hmem
            · exact ⟨p, (hbc1 p).mpr (Or.inl ⟨ho, hp⟩), hpo, hpid⟩
          obtain ⟨p1, hp1, hp1o, hp1id⟩ := hp1
          by_cases hxc : p1.1 = c
          · refine ⟨_, (hbc _).mpr (Or.inr rfl), by rw [← hp1o, hxc], ?_⟩
            have : alGet c (bcRemoveId e.owner e.id g.byConsumer) = some p1.2 :=
              alGet_of_mem hk1 (by rw [← hxc]; exact hp1)
            simp [this, hp1id]
          · exact ⟨p1, (hbc p1).mpr (Or.inl ⟨hxc, hp1⟩), hp1o, hp1id⟩
      · intro p hp i hi
        have key : ∀ p1 ∈ bcRemoveId e.owner e.id g.byConsumer, ∀ i ∈ p1.2,
            ∃ e' ∈ g.byId, e'.id = i ∧ e'.owner = p1.1 ∧ e'.id ≠ e.id := by
          intro p1 hp1 i hi
          have hne : i ≠ e.id := fun e0 => hfresh p1 hp1 (e0 ▸ hi)
          rcases (hbc1 p1).mp hp1 with ⟨_, hp1'⟩ | ⟨hp1', _⟩
          · obtain ⟨e', he', hid', ho'⟩ := h.own₂ p1 hp1' i hi
            exact ⟨e', he', hid', ho', by rw [hid']; exact hne⟩
          · subst hp1'
            simp only [List.mem_filter, bne_iff_ne] at hi
            obtain ⟨e', he', hid', ho'⟩ := h.vec_owner hl hi.1
            exact ⟨e', he', hid', ho', by rw [hid']; exact hne⟩
        rcases (hbc p).mp hp with ⟨_, hp⟩ | hp
        · obtain ⟨e', he', hid', ho', hne⟩ := key p hp i hi
          exact ⟨e', mem_pelSetOwner.mpr ⟨e', he', by simp [hne]⟩, hid', ho'⟩
        · subst hp
          simp only [List.mem_append, List.mem_singleton] at hi
          rcases hi with hi | hi
          · cases hg : alGet c (bcRemoveId e.owner e.id g.byConsumer) with
            | none => rw [hg] at hi; simp at hi
            | some l' =>
              rw [hg] at hi; simp only [Option.getD_some] at hi
              obtain ⟨e', he', hid', ho', hne⟩ := key (c, l') (mem_of_alGet hg) i hi
              exact ⟨e', mem_pelSetOwner.mpr ⟨e', he', by simp [hne]⟩, hid', ho'⟩
          · subst hi
            exact ⟨{ e with owner := c, count := e.count + 1 }, mem_pelSetOwner.mpr ⟨e, he, by simp⟩, rfl, rfl⟩
      · -- counters: every vector has a counter equal to its length
        -- first describe the counters after both updates through alGet
        have hcnt : ∀ j, alGet j (consAdjust c (· + 1) (consAdjust e.owner (· - 1) g.consumers)) =
            if c = j then some (nc + 1) else if e.owner = j then some (l.length - 1) else alGet j g.consumers := by
          intro j
          rw [alGet_consAdjust, hnc, alGet_consAdjust, hco]
          rfl
        have hnc' : nc = if e.owner = c then l.length - 1 else
            ((alGet c g.byConsumer).getD []).length := by
          rw [alGet_consAdjust, hco] at hnc
          by_cases ho : e.owner = c
          · simp only [ho, if_true, Option.map_some, Option.some.injEq] at hnc ⊢; omega
          · simp only [ho, if_false] at hnc ⊢
            cases hg : alGet c g.byConsumer with
            | none =>
              have hr := mem_of_alGet hnc
              rcases h.cnt₂ _ hr with h0 | ⟨p, hp, hpo⟩
              · simpa using h0
              · have := alGet_of_mem h.bcKeys (show (p.1, p.2) ∈ g.byConsumer from hp)
                simp only at hpo; rw [hpo, hg] at this; cases this
            | some lc =>
              obtain ⟨r, hr, hro, hrn⟩ := h.cnt₁ (c, lc) (mem_of_alGet hg)
              have := alGet_of_mem h.csKeys (show (r.1, r.2) ∈ g.consumers from hr)
              simp only at hro; rw [hro, hnc] at this
              simp only [Option.some.injEq] at this
              simp [this, hrn]
        intro p hp
        refine ⟨(p.1, p.2.length), mem_of_alGet ?_, rfl, rfl⟩
        rw [hcnt]
        rcases (hbc p).mp hp with ⟨hpc, hp⟩ | hp
        · simp only [Ne.symm hpc, if_false]
          rcases (hbc1 p).mp hp with ⟨hpo, hp⟩ | ⟨hp, _⟩
          · simp only [Ne.symm hpo, if_false]
            obtain ⟨r, hr, hro, hrn⟩ := h.cnt₁ p hp
            rw [← hro, ← hrn]; exact alGet_of_mem h.csKeys hr
          · subst hp; simp only [if_true, Option.some.injEq]; omega
        · subst hp
          simp only [if_true, Option.some.injEq, List.length_append, List.length_singleton]
          rw [hnc']
          by_cases ho : e.owner = c
          · subst ho
            rw [hgetO]
            by_cases hemp : l.filter (fun x => x != e.id) = []
            · rw [hemp] at hlen; simp only [hemp, if_true, Option.getD_none, List.length_nil] at hlen ⊢; omega
            · simp only [hemp, if_false, Option.getD_some, if_true]; omega
          · simp only [ho, if_false]
            rw [hget1 c (Ne.symm ho)]
      · intro r hr
        by_cases hrc : r.1 = c
        · exact Or.inr ⟨_, (hbc _).mpr (Or.inr rfl), hrc.symm⟩
        · rcases (hcs r).mp hr with ⟨_, hr⟩ | hr
          · rcases (hcs1 r).mp hr with ⟨hro, hr⟩ | hr
            · rcases h.cnt₂ r hr with h0 | ⟨p, hp, hpo⟩
              · exact Or.inl h0
              · refine Or.inr ⟨p, (hbc p).mpr (Or.inl ⟨by rw [hpo]; exact hrc, ?_⟩), hpo⟩
                exact (hbc1 p).mpr (Or.inl ⟨by rw [hpo]; exact hro, hp⟩)
            · subst hr
              by_cases hemp : l.filter (fun x => x != e.id) = []
              · left; rw [hemp] at hlen; simp at hlen; simp only; omega
              · refine Or.inr ⟨(e.owner, l.filter (fun x => x != e.id)), (hbc _).mpr (Or.inl ⟨hrc, ?_⟩), rfl⟩
                exact (hbc1 _).mpr (Or.inr ⟨rfl, hemp⟩)
          · subst hr; exact absurd rfl hrc
      · show g.minPending = _
        rw [h.bmin]; exact (head?_pelSetOwner e.id c g.byId).symm
      · show g.maxPending = _
        rw [h.bmax]; exact (getLast?_pelSetOwner e.id c g.byId).symm

theorem claimOne_some {c : Name} {g : Group} {id : Id} {e : PEntry} (hf : pelFind id g.byId = some e) :
    claimOne c true g id =
      ({ g with consumers := consAdjust c (· + 1) (consAdjust e.owner (· - 1) g.consumers),
                byConsumer := bcPush c id (bcRemoveId e.owner id g.byConsumer),
                byId := pelSetOwner id c g.byId }, true) := by
  simp [claimOne, transfer, hf]

theorem claimOne_fields (c : Name) (elig : Bool) (g : Group) (id : Id) :
    (claimOne c elig g id).1.totalPending = g.totalPending ∧
    (claimOne c elig g id).1.lastDelivered = g.lastDelivered ∧
    (claimOne c elig g id).1.byId.length = g.byId.length ∧
    ((alGet c g.consumers).isSome → (alGet c (claimOne c elig g id).1.consumers).isSome) := by
  cases hf : pelFind id g.byId with
  | none => simp [claimOne, hf]
  | some e =>
    cases elig with
    | false => simp [claimOne, hf]
    | true =>
      rw [claimOne_some hf]
      refine ⟨rfl, rfl, by simp [pelSetOwner], ?_⟩
      intro hc
      show (alGet c (consAdjust c (· + 1) (consAdjust e.owner (· - 1) g.consumers))).isSome
      rw [alGet_consAdjust]; simp only [if_true, Option.isSome_map]
      rw [alGet_consAdjust]; split
      · rename_i heq; subst heq; simpa using hc
      · exact hc

theorem claimLoop_spec (c : Name) (elig : Bool) (g : Group) (ids : List Id) (h : AgreeCore g)
    (hc : (alGet c g.consumers).isSome) :
    AgreeCore (claimLoop c elig g ids).1 ∧
    (claimLoop c elig g ids).1.totalPending = g.totalPending ∧
    (claimLoop c elig g ids).1.lastDelivered = g.lastDelivered ∧
    (claimLoop c elig g ids).1.byId.length = g.byId.length := by
  induction ids generalizing g with
  | nil => exact ⟨h, rfl, rfl, rfl⟩
  | cons id ids ih =>
    simp only [claimLoop]
    obtain ⟨f1, f2, f3, f4⟩ := claimOne_fields c elig g id
    obtain ⟨h1, h2, h3, h4⟩ := ih (claimOne c elig g id).1 (agreeCore_claimOne h c elig id hc) (f4 hc)
    exact ⟨h1, by rw [h2, f1], by rw [h3, f2], by rw [h4, f3]⟩

theorem agree_claim {g : Group} (h : Agree g) (c : Name) (elig : Bool) (ids : List Id) :
    Agree (claim g c elig ids).1 := by
  unfold claim
  have h0 := agree_createConsumer h c
  obtain ⟨h1, h2, _, h4⟩ := claimLoop_spec c elig (createConsumer g c) ids h0.toAgreeCore
    (alGet_consCreate_self c g.consumers)
  exact { toAgreeCore := h1, total := by rw [h2, h4]; exact h0.total }

/-! ### delete_consumer -/

theorem agree_deleteConsumer {g : Group} (h : Agree g) (c : Name) : Agree (deleteConsumer g c).1 := by
  unfold deleteConsumer
  cases hc : alGet c g.consumers with
  | none => exact h
  | some n =>
    simp only
    unfold removeConsumerEntries
    cases hl : alGet c g.byConsumer with
    | none =>
      -- no vector: the counter was 0; only the consumer row disappears
      simp only
      refine { toAgreeCore := ?_, total := by show g.totalPending - 0 = _; rw [h.total]; rfl }
      refine { sorted := h.sorted, bcKeys := h.bcKeys, csKeys := nodup_keys_alErase h.csKeys, lists := h.lists,
               own₁ := h.own₁, own₂ := h.own₂, cnt₁ := ?_, cnt₂ := ?_, bmin := h.bmin, bmax := h.bmax }
      · intro p hp
        obtain ⟨r, hr, hro, hrn⟩ := h.cnt₁ p hp
        refine ⟨r, (mem_alErase r).mpr ⟨?_, hr⟩, hro, hrn⟩
        intro e0
        have := alGet_of_mem h.bcKeys (show (p.1, p.2) ∈ g.byConsumer from hp)
        rw [← hro, e0, hl] at this; cases this
      · intro r hr
        exact h.cnt₂ r ((mem_alErase r).mp hr).2
    | some l =>
      simp only
      have hmemId : ∀ e ∈ g.byId, (e.id ∈ l ↔ e.owner = c) := by
        intro e he
        constructor
        · intro hin
          obtain ⟨e', he', hid', ho'⟩ := h.vec_owner hl hin
          rw [← sorted_unique h.sorted he' he hid']; exact ho'
        · intro ho
          obtain ⟨l', hl', hidl', _, _⟩ := h.owner_facts he
          rw [ho, hl] at hl'; cases hl'; exact hidl'
      have hfilter : ∀ e, e ∈ g.byId.filter (fun e => !l.contains e.id) ↔ e ∈ g.byId ∧ e.owner ≠ c := by
        intro e
        simp only [List.mem_filter, Bool.not_eq_true', List.contains_eq_mem, decide_eq_false_iff_not]
        constructor
        · rintro ⟨he, hn⟩; exact ⟨he, fun ho => hn ((hmemId e he).mpr ho)⟩
        · rintro ⟨he, hn⟩; exact ⟨he, fun hin => hn ((hmemId e he).mp hin)⟩
      refine { toAgreeCore := ?_, total := ?_ }
      · refine { sorted := h.sorted.filter _, bcKeys := nodup_keys_alErase h.bcKeys,
                 csKeys := nodup_keys_alErase h.csKeys, lists := ?_, own₁ := ?_, own₂ := ?_, cnt₁ := ?_,
                 cnt₂ := ?_, bmin := rfl, bmax := rfl }
        · intro p hp; exact h.lists p ((mem_alErase p).mp hp).2
        · intro e he
          obtain ⟨he, hne⟩ := (hfilter e).mp he
          obtain ⟨p, hp, hpo, hpid⟩ := h.own₁ e he
          exact ⟨p, (mem_alErase p).mpr ⟨by rw [hpo]; exact hne, hp⟩, hpo, hpid⟩
        · intro p hp i hi
          obtain ⟨hpc, hp⟩ := (mem_alErase p).mp hp
          obtain ⟨e, he, hid, ho⟩ := h.own₂ p hp i hi
          exact ⟨e, (hfilter e).mpr ⟨he, by rw [ho]; exact hpc⟩, hid, ho⟩
        · intro p hp
          obtain ⟨hpc, hp⟩ := (mem_alErase p).mp hp
          obtain ⟨r, hr, hro, hrn⟩ := h.cnt₁ p hp
          exact ⟨r, (mem_alErase r).mpr ⟨by rw [hro]; exact hpc, hr⟩, hro, hrn⟩
        · intro r hr
          obtain ⟨hrc, hr⟩ := (mem_alErase r).mp hr
          rcases h.cnt₂ r hr with h0 | ⟨p, hp, hpo⟩
          · exact Or.inl h0
          · exact Or.inr ⟨p, (mem_alErase p).mpr ⟨by rw [hpo]; exact hrc, hp⟩, hpo⟩
      · -- |byId| drops by exactly |l|
        show g.totalPending - l.length = (g.byId.filter (fun e => !l.contains e.id)).length
        rw [h.total]
        have hnd : l.Nodup := (h.lists _ (mem_of_alGet hl)).2
        have hsub : ∀ i ∈ l, ∃ e ∈ g.byId, e.id = i := by
          intro i hi; obtain ⟨e, he, hid, _⟩ := h.vec_owner hl hi; exact ⟨e, he, hid⟩
        have hids : (g.byId.map (·.id)).Nodup := by
          have := sorted_iff_ids.mp h.sorted
          exact this.imp (fun hlt => idLt_ne hlt)
        -- count the complementary filter through the id lists
        have hcount : (g.byId.filter (fun e => l.contains e.id)).length = l.length := by
          have hperm : ((g.byId.filter (fun e => l.contains e.id)).map (·.id)).Perm l := by
            apply (List.perm_ext_iff_of_nodup ?_ hnd).mpr
            · intro i
              simp only [List.mem_map, List.mem_filter, List.contains_eq_mem, decide_eq_true_eq]
              constructor
              · rintro ⟨e, ⟨_, hin⟩, rfl⟩; exact hin
              · intro hi; obtain ⟨e, he, hid⟩ := hsub i hi; exact ⟨e, ⟨he, hid ▸ hi⟩, hid⟩
            · exact hids.sublist (List.filter_sublist.map _)
          simpa using hperm.length_eq
        have := length_filter_add_not (fun e : PEntry => l.contains e.id) g.byId
        omega

/-! ### add_pending (deliveries) -/

def bump (c : Name) (g : Group) (n : Nat) : Group :=
  { g with consumers := consAdjust c (· + n) g.consumers, totalPending := g.totalPending + n }

theorem alSet_same {β : Type} {k : Name} {v : β} {l : List (Name × β)} (h : alGet k l = some v) : alSet k v l = l := by
  induction l with
  | nil => simp [alGet] at h
  | cons p t ih =>
    simp only [alGet] at h
    simp only [alSet]
    by_cases hk : p.1 = k
    · simp only [hk, if_true, Option.some.injEq] at h ⊢
      rcases p with ⟨a, b⟩; simp only at hk h; subst hk; subst h; rfl
    · simp only [hk, if_false] at h ⊢
      rw [ih h]

theorem alSet_alSet {β : Type} (k : Name) (v w : β) (l : List (Name × β)) : alSet k w (alSet k v l) = alSet k w l := by
  induction l with
  | nil => simp [alSet]
  | cons p t ih =>
    simp only [alSet]
    by_cases hk : p.1 = k
    · simp [hk, alSet]
    · simp [hk, alSet, ih]

theorem consAdjust_zero (c : Name) (cs : List (Name × Nat)) : consAdjust c (· + 0) cs = cs := by
  unfold consAdjust
  cases h : alGet c cs with
  | none => rfl
  | some n => exact alSet_same h

theorem consAdjust_add (c : Name) (a b : Nat) (cs : List (Name × Nat)) :
    consAdjust c (· + a) (consAdjust c (· + b) cs) = consAdjust c (· + (b + a)) cs := by
  unfold consAdjust
  cases h : alGet c cs with
  | none => simp [h]
  | some n => simp [alGet_alSet, alSet_alSet, Nat.add_assoc]

theorem addEntry_bump (c : Name) (g : Group) (n : Nat) (id : Id) :
    addEntry c (bump c g n) id = bump c (addEntry c g id) n := rfl

theorem foldl_addEntry_bump (c : Name) (ids : List Id) (g : Group) (n : Nat) :
    ids.foldl (addEntry c) (bump c g n) = bump c (ids.foldl (addEntry c) g) n := by
  induction ids generalizing g with
  | nil => rfl
  | cons id ids ih => simp only [List.foldl_cons, addEntry_bump, ih]

theorem bump_bump (c : Name) (g : Group) (a b : Nat) : bump c (bump c g b) a = bump c g (b + a) := by
  simp only [bump, consAdjust_add, Nat.add_assoc]

theorem foldl_addOne (c : Name) (ids : List Id) (g : Group) :
    ids.foldl (addOne c) g = bump c (ids.foldl (addEntry c) g) ids.length := by
  induction ids generalizing g with
  | nil =>
    show g = { g with consumers := consAdjust c (· + 0) g.consumers, totalPending := g.totalPending + 0 }
    rw [consAdjust_zero]; rfl
  | cons id ids ih =>
    simp only [List.foldl_cons, List.length_cons]
    rw [ih]
    have : addOne c g id = bump c (addEntry c g id) 1 := rfl
    rw [this, foldl_addEntry_bump, bump_bump, Nat.add_comm]

theorem agree_addOne {g : Group} (h : Agree g) {c : Name} {n : Nat} (hc : alGet c g.consumers = some n)
    {id : Id} (hfresh : ∀ e ∈ g.byId, e.id ≠ id) : Agree (addOne c g id) := by
  have hbc := mem_bcPush (c := c) (id := id) h.bcKeys
  have hcs := mem_consAdjust (f := (· + 1)) h.csKeys hc
  have hins := mem_pelInsert (e := ⟨id, c, 1⟩) h.sorted
  -- the claimer's current vector and counter
  have hvec : ∀ lc, alGet c g.byConsumer = some lc → lc.Nodup ∧ id ∉ lc ∧ n = lc.length := by
    intro lc hlc
    refine ⟨(h.lists _ (mem_of_alGet hlc)).2, ?_, ?_⟩
    · intro hin
      obtain ⟨e, he, hid, _⟩ := h.vec_owner hlc hin
      exact hfresh e he hid
    · obtain ⟨r, hr, hro, hrn⟩ := h.cnt₁ _ (mem_of_alGet hlc)
      have := alGet_of_mem h.csKeys (show (r.1, r.2) ∈ g.consumers from hr)
      simp only at hro; rw [hro, hc] at this
      simp only [Option.some.injEq] at this; rw [this, hrn]
  have hnone : alGet c g.byConsumer = none → n = 0 := by
    intro hn
    rcases h.cnt₂ _ (mem_of_alGet hc) with h0 | ⟨p, hp, hpo⟩
    · exact h0
    · have := alGet_of_mem h.bcKeys (show (p.1, p.2) ∈ g.byConsumer from hp)
      simp only at hpo; rw [hpo, hn] at this; cases this
  refine { toAgreeCore := ?_, total := ?_ }
  · refine { sorted := sorted_pelInsert h.sorted, bcKeys := nodup_keys_bcPush h.bcKeys,
             csKeys := nodup_keys_consAdjust h.csKeys, lists := ?_, own₁ := ?_, own₂ := ?_, cnt₁ := ?_,
             cnt₂ := ?_, bmin := rfl, bmax := rfl }
    · intro p hp
      rcases (hbc p).mp hp with ⟨_, hp⟩ | hp
      · exact h.lists p hp
      · subst hp
        refine ⟨by simp, ?_⟩
        cases hg : alGet c g.byConsumer with
        | none => simp
        | some lc =>
          obtain ⟨h1, h2, _⟩ := hvec lc hg
          simp only [Option.getD_some]
          rw [List.nodup_append]
          refine ⟨h1, by simp, ?_⟩
          intro a ha b hb
          simp only [List.mem_singleton] at hb; subst hb
          intro e0; subst e0; exact h2 ha
    · intro x hx
      rcases (hins x).mp hx with hx | ⟨hx, _⟩
      · subst hx
        exact ⟨_, (hbc _).mpr (Or.inr rfl), rfl, by simp⟩
      · obtain ⟨p, hp, hpo, hpid⟩ := h.own₁ x hx
        by_cases hpc : p.1 = c
        · refine ⟨_, (hbc _).mpr (Or.inr rfl), by rw [← hpo, hpc], ?_⟩
          have : alGet c g.byConsumer = some p.2 := alGet_of_mem h.bcKeys (by rw [← hpc]; exact hp)
          simp [this, hpid]
        · exact ⟨p, (hbc p).mpr (Or.inl ⟨hpc, hp⟩), hpo, hpid⟩
    · intro p hp i hi
      rcases (hbc p).mp hp with ⟨_, hp⟩ | hp
      · obtain ⟨e, he, hid, ho⟩ := h.own₂ p hp i hi
        exact ⟨e, (hins e).mpr (Or.inr ⟨he, hfresh e he⟩), hid, ho⟩
      · subst hp
        simp only [List.mem_append, List.mem_singleton] at hi
        rcases hi with hi | hi
        · cases hg : alGet c g.byConsumer with
          | none => rw [hg] at hi; simp at hi
          | some lc =>
            rw [hg] at hi; simp only [Option.getD_some] at hi
            obtain ⟨e, he, hid, ho⟩ := h.vec_owner hg hi
            exact ⟨e, (hins e).mpr (Or.inr ⟨he, hfresh e he⟩), hid, ho⟩
        · subst hi
          exact ⟨⟨i, c, 1⟩, (hins _).mpr (Or.inl rfl), rfl, rfl⟩
    · intro p hp
      rcases (hbc p).mp hp with ⟨hpc, hp⟩ | hp
      · obtain ⟨r, hr, hro, hrn⟩ := h.cnt₁ p hp
        exact ⟨r, (hcs r).mpr (Or.inl ⟨by rw [hro]; exact hpc, hr⟩), hro, hrn⟩
      · subst hp
        refine ⟨(c, n + 1), (hcs _).mpr (Or.inr rfl), rfl, ?_⟩
        cases hg : alGet c g.byConsumer with
        | none => simp [hnone hg]
        | some lc => simp [(hvec lc hg).2.2]
    · intro r hr
      rcases (hcs r).mp hr with ⟨hrc, hr⟩ | hr
      · rcases h.cnt₂ r hr with h0 | ⟨p, hp, hpo⟩
        · exact Or.inl h0
        · exact Or.inr ⟨p, (hbc p).mpr (Or.inl ⟨by rw [hpo]; exact hrc, hp⟩), hpo⟩
      · subst hr
        exact Or.inr ⟨_, (hbc _).mpr (Or.inr rfl), rfl⟩
  · show g.totalPending + 1 = (pelInsert ⟨id, c, 1⟩ g.byId).length
    rw [length_pelInsert_fresh (by simpa using hfresh), h.total]

theorem addOne_consumer (c : Name) (g : Group) (id : Id) {n : Nat} (hc : alGet c g.consumers = some n) :
    alGet c (addOne c g id).consumers = some (n + 1) := by
  show alGet c (consAdjust c (· + 1) g.consumers) = _
  rw [alGet_consAdjust, hc]; simp

theorem agree_foldl_addOne {c : Name} (ids : List Id) : ∀ {g : Group}, Agree g → ∀ {n : Nat}, alGet c g.consumers = some n →
    ids.Nodup → (∀ id ∈ ids, ∀ e ∈ g.byId, e.id ≠ id) → Agree (ids.foldl (addOne c) g) := by
  induction ids with
  | nil => intro g h _ _ _ _; exact h
  | cons id ids ih =>
    intro g h n hc hnd hfresh
    rw [List.nodup_cons] at hnd
    simp only [List.foldl_cons]
    have h1 := agree_addOne h hc (hfresh id List.mem_cons_self)
    refine ih h1 (addOne_consumer c g id hc) hnd.2 ?_
    intro id' hid' e he
    have : e ∈ pelInsert ⟨id, c, 1⟩ g.byId := he
    rcases (mem_pelInsert h.sorted e).mp this with he | ⟨he, _⟩
    · subst he; intro e0; simp only at e0; subst e0; exact hnd.1 hid'
    · exact hfresh id' (List.mem_cons_of_mem _ hid') e he

/-- `add_pending` as a fold of single deliveries, then the cursor update -/
theorem addPending_eq (g : Group) (c : Name) (ids : List Id) :
    ∃ last, addPending g c ids = { ids.foldl (addOne c) (createConsumer g c) with lastDelivered := last } := by
  unfold addPending
  simp only
  rw [foldl_addOne]
  cases ids.getLast? with
  | none => exact ⟨_, rfl⟩
  | some l =>
    simp only
    split
    · exact ⟨_, rfl⟩
    · exact ⟨_, rfl⟩

theorem agree_setLast {g : Group} (h : Agree g) (l : Id) : Agree { g with lastDelivered := l } :=
  { sorted := h.sorted, bcKeys := h.bcKeys, csKeys := h.csKeys, lists := h.lists, own₁ := h.own₁, own₂ := h.own₂,
    cnt₁ := h.cnt₁, cnt₂ := h.cnt₂, bmin := h.bmin, bmax := h.bmax, total := h.total }

theorem agree_addPending {g : Group} (h : Agree g) (c : Name) {ids : List Id} (hnd : ids.Nodup)
    (hfresh : ∀ id ∈ ids, ∀ e ∈ g.byId, e.id ≠ id) : Agree (addPending g c ids) := by
  obtain ⟨last, he⟩ := addPending_eq g c ids
  rw [he]
  apply agree_setLast
  obtain ⟨n, hn⟩ := Option.isSome_iff_exists.mp (alGet_consCreate_self c g.consumers)
  exact agree_foldl_addOne ids (agree_createConsumer h c) hn hnd hfresh

/-! ### the repaired add_pending: re-delivered ids change hands as with XCLAIM -/

theorem agreeCore_setTotal {g : Group} (h : AgreeCore g) (t : Nat) : AgreeCore { g with totalPending := t } :=
  { sorted := h.sorted, bcKeys := h.bcKeys, csKeys := h.csKeys, lists := h.lists, own₁ := h.own₁, own₂ := h.own₂,
    cnt₁ := h.cnt₁, cnt₂ := h.cnt₂, bmin := h.bmin, bmax := h.bmax }

/-- one step of the repaired loop keeps the representations (all but the deferred total) in agreement, keeps the
    reader a consumer, and the number of rows grows exactly by the number of new ids -/
theorem deliverOneFixed_spec {c : Name} {s : Group × Nat} (h : AgreeCore s.1) (hc : (alGet c s.1.consumers).isSome)
    (id : Id) :
    AgreeCore (deliverOneFixed c s id).1 ∧ (alGet c (deliverOneFixed c s id).1.consumers).isSome ∧
    (deliverOneFixed c s id).1.byId.length + s.2 = s.1.byId.length + (deliverOneFixed c s id).2 ∧
    (deliverOneFixed c s id).1.totalPending = s.1.totalPending ∧
    (deliverOneFixed c s id).1.lastDelivered = s.1.lastDelivered := by
  unfold deliverOneFixed
  cases hf : pelFind id s.1.byId with
  | some e =>
    simp only
    obtain ⟨f1, f2, f3, f4⟩ := claimOne_fields c true s.1 id
    exact ⟨agreeCore_claimOne h c true id hc, f4 hc, by rw [f3], f1, f2⟩
  | none =>
    simp only
    obtain ⟨n, hn⟩ := Option.isSome_iff_exists.mp hc
    have hfresh : ∀ e ∈ s.1.byId, e.id ≠ id := pelFind_none.mp hf
    -- the same state with its total brought up to date agrees fully; `agree_addOne` applies to it
    have hA : Agree { s.1 with totalPending := s.1.byId.length } :=
      { toAgreeCore := agreeCore_setTotal h _, total := rfl }
    have h1 := agree_addOne hA (c := c) (n := n) hn (id := id) hfresh
    refine ⟨?_, ?_, ?_, rfl, rfl⟩
    · have := agreeCore_setTotal h1.toAgreeCore s.1.totalPending
      exact this
    · show (alGet c (consAdjust c (· + 1) s.1.consumers)).isSome
      rw [alGet_consAdjust, hn]; simp
    · show (pelInsert ⟨id, c, 1⟩ s.1.byId).length + s.2 = s.1.byId.length + (s.2 + 1)
      rw [length_pelInsert_fresh (by simpa using hfresh)]; omega

theorem foldl_deliverOneFixed_spec {c : Name} (ids : List Id) : ∀ {s : Group × Nat}, AgreeCore s.1 →
    (alGet c s.1.consumers).isSome →
    AgreeCore (ids.foldl (deliverOneFixed c) s).1 ∧
    (ids.foldl (deliverOneFixed c) s).1.byId.length + s.2 = s.1.byId.length + (ids.foldl (deliverOneFixed c) s).2 ∧
    (ids.foldl (deliverOneFixed c) s).1.totalPending = s.1.totalPending ∧
    (ids.foldl (deliverOneFixed c) s).1.lastDelivered = s.1.lastDelivered := by
  induction ids with
  | nil => intro s h _; exact ⟨h, rfl, rfl, rfl⟩
  | cons id ids ih =>
    intro s h hc
    simp only [List.foldl_cons]
    obtain ⟨a1, a2, a3, a4, a5⟩ := deliverOneFixed_spec h hc id
    obtain ⟨b1, b2, b3, b4⟩ := ih a1 a2
    exact ⟨b1, by omega, by rw [b3, a4], by rw [b4, a5]⟩

/-- The repaired `add_pending` preserves agreement for EVERY id list — fresh ids, ids that are already pending for
    anyone, repeats. -/
theorem agree_addPendingFixed {g : Group} (h : Agree g) (c : Name) (ids : List Id) :
    Agree (addPendingFixed g c ids) := by
  have h0 := agree_createConsumer h c
  obtain ⟨b1, b2, b3, _⟩ := foldl_deliverOneFixed_spec (c := c) ids (s := (createConsumer g c, 0)) h0.toAgreeCore
    (alGet_consCreate_self c g.consumers)
  have hA : Agree { (ids.foldl (deliverOneFixed c) (createConsumer g c, 0)).1 with
      totalPending := (ids.foldl (deliverOneFixed c) (createConsumer g c, 0)).1.totalPending +
        (ids.foldl (deliverOneFixed c) (createConsumer g c, 0)).2 } := by
    refine { toAgreeCore := agreeCore_setTotal b1 _, total := ?_ }
    show _ + _ = (ids.foldl (deliverOneFixed c) (createConsumer g c, 0)).1.byId.length
    have b3' : (ids.foldl (deliverOneFixed c) (createConsumer g c, 0)).1.totalPending = (createConsumer g c).totalPending := b3
    have b2' : (ids.foldl (deliverOneFixed c) (createConsumer g c, 0)).1.byId.length + 0 =
        (createConsumer g c).byId.length + (ids.foldl (deliverOneFixed c) (createConsumer g c, 0)).2 := b2
    rw [b3']
    have := h0.total
    omega
  unfold addPendingFixed
  simp only
  cases ids.getLast? with
  | none => exact hA
  | some l =>
    simp only
    split
    · exact agree_setLast hA l
    · exact hA

theorem deliverOneFixed_last (c : Name) (s : Group × Nat) (id : Id) :
    (deliverOneFixed c s id).1.lastDelivered = s.1.lastDelivered := by
  unfold deliverOneFixed
  cases pelFind id s.1.byId with
  | some e => exact (claimOne_fields c true s.1 id).2.1
  | none => rfl

theorem foldl_deliverOneFixed_last (c : Name) (ids : List Id) (s : Group × Nat) :
    (ids.foldl (deliverOneFixed c) s).1.lastDelivered = s.1.lastDelivered := by
  induction ids generalizing s with
  | nil => rfl
  | cons id ids ih => simp only [List.foldl_cons, ih, deliverOneFixed_last]

theorem addPendingFixed_last (g : Group) (c : Name) (ids : List Id) :
    (addPendingFixed g c ids).lastDelivered =
      match ids.getLast? with
      | some l => if idLt g.lastDelivered l then l else g.lastDelivered
      | none => g.lastDelivered := by
  have hl : (ids.foldl (deliverOneFixed c) (createConsumer g c, 0)).1.lastDelivered = g.lastDelivered :=
    foldl_deliverOneFixed_last c ids _
  unfold addPendingFixed
  simp only
  cases ids.getLast? with
  | none => first | rfl | exact hl
  | some l =>
    simp only [hl]
    split
    · rfl
    · first | rfl | exact hl

end Ferrous.Grp
