/-
  C16 helper lemmas, part 1: the id order, association lists, the sorted pending list.
-/
import FerrousSpec.Model.Groups
namespace Ferrous.Grp

/-! ### order on ids -/

theorem idLt_iff {a b : Id} : idLt a b = true ↔ a.1 < b.1 ∨ (a.1 = b.1 ∧ a.2 < b.2) := by
  simp [idLt]

theorem idLt_irrefl (a : Id) : idLt a a = false := by
  cases h : idLt a a with
  | false => rfl
  | true => rw [idLt_iff] at h; omega

theorem idLt_trans {a b c : Id} (h₁ : idLt a b = true) (h₂ : idLt b c = true) : idLt a c = true := by
  rw [idLt_iff] at *; omega

theorem idLt_asymm {a b : Id} (h : idLt a b = true) : idLt b a = false := by
  cases h' : idLt b a with
  | false => rfl
  | true => rw [idLt_iff] at *; omega

theorem idLt_ne {a b : Id} (h : idLt a b = true) : a ≠ b := by
  intro e; subst e; rw [idLt_irrefl] at h; cases h

theorem idLt_total (a b : Id) : idLt a b = true ∨ a = b ∨ idLt b a = true := by
  rcases a with ⟨a1, a2⟩; rcases b with ⟨b1, b2⟩
  simp only [idLt_iff, Prod.mk.injEq]; omega

theorem idLe_iff {a b : Id} : idLe a b = true ↔ idLt a b = true ∨ a = b := by
  unfold idLe
  rcases idLt_total a b with h | h | h
  · simp [h, idLt_asymm h]
  · subst h; simp [idLt_irrefl]
  · simp only [h, Bool.not_true, Bool.false_eq_true, false_iff, not_or]
    exact ⟨by simp [idLt_asymm h], fun e => idLt_ne h e.symm⟩

theorem not_idLt_iff {a b : Id} : idLt a b = false ↔ idLe b a = true := by
  unfold idLe; cases idLt a b <;> simp

theorem idLt_of_lt_of_le {a b c : Id} (h₁ : idLt a b = true) (h₂ : idLe b c = true) : idLt a c = true := by
  rcases idLe_iff.mp h₂ with h | h
  · exact idLt_trans h₁ h
  · subst h; exact h₁

theorem idLt_of_le_of_lt {a b c : Id} (h₁ : idLe a b = true) (h₂ : idLt b c = true) : idLt a c = true := by
  rcases idLe_iff.mp h₁ with h | h
  · exact idLt_trans h h₂
  · subst h; exact h₂

theorem idLe_refl (a : Id) : idLe a a = true := idLe_iff.mpr (Or.inr rfl)

theorem idLe_trans {a b c : Id} (h₁ : idLe a b = true) (h₂ : idLe b c = true) : idLe a c = true := by
  rcases idLe_iff.mp h₁ with h | h
  · exact idLe_iff.mpr (Or.inl (idLt_of_lt_of_le h h₂))
  · subst h; exact h₂

theorem idLe_of_lt {a b : Id} (h : idLt a b = true) : idLe a b = true := idLe_iff.mpr (Or.inl h)

/-! ### association lists -/

section AL
variable {β : Type}

theorem alGet_eq_none_iff {k : Name} {l : List (Name × β)} : alGet k l = none ↔ k ∉ keys l := by
  induction l with
  | nil => simp [alGet, keys]
  | cons p t ih =>
    simp only [alGet, keys, List.map_cons, List.mem_cons, not_or]
    by_cases h : p.1 = k
    · simp [h]
    · simp only [h, if_false]
      rw [ih]; simp only [keys]
      exact ⟨fun h' => ⟨fun e => h e.symm, h'⟩, fun h' => h'.2⟩

theorem mem_of_alGet {k : Name} {v : β} {l : List (Name × β)} (h : alGet k l = some v) : (k, v) ∈ l := by
  induction l with
  | nil => simp [alGet] at h
  | cons p t ih =>
    simp only [alGet] at h
    by_cases hk : p.1 = k
    · simp only [hk, if_true, Option.some.injEq] at h
      rcases p with ⟨a, b⟩
      simp only at hk h; subst hk; subst h; exact List.mem_cons_self
    · simp only [hk, if_false] at h
      exact List.mem_cons_of_mem _ (ih h)

theorem alGet_of_mem {k : Name} {v : β} {l : List (Name × β)} (hn : (keys l).Nodup) (h : (k, v) ∈ l) :
    alGet k l = some v := by
  induction l with
  | nil => cases h
  | cons p t ih =>
    simp only [keys, List.map_cons, List.nodup_cons] at hn
    simp only [alGet]
    rcases List.mem_cons.mp h with h | h
    · subst h; simp
    · have : p.1 ≠ k := by
        intro e; apply hn.1; rw [e]
        exact List.mem_map.mpr ⟨(k, v), h, rfl⟩
      simp only [this, if_false]
      exact ih hn.2 h

theorem alGet_eq_some_iff {k : Name} {v : β} {l : List (Name × β)} (hn : (keys l).Nodup) :
    alGet k l = some v ↔ (k, v) ∈ l := ⟨mem_of_alGet, alGet_of_mem hn⟩

theorem alGet_alSet (j k : Name) (v : β) (l : List (Name × β)) :
    alGet j (alSet k v l) = if k = j then some v else alGet j l := by
  induction l with
  | nil => simp [alSet, alGet]
  | cons p t ih =>
    simp only [alSet]
    by_cases h : p.1 = k
    · simp only [h, if_true, alGet]
      by_cases hj : k = j <;> simp [hj]
    · simp only [h, if_false, alGet, ih]
      by_cases hj : k = j
      · subst hj; simp [h]
      · simp [hj]

theorem keys_alSet (k : Name) (v : β) (l : List (Name × β)) :
    keys (alSet k v l) = if k ∈ keys l then keys l else keys l ++ [k] := by
  induction l with
  | nil => simp [alSet, keys]
  | cons p t ih =>
    simp only [alSet]
    by_cases h : p.1 = k
    · simp [h, keys]
    · have h' : ¬ k = p.1 := fun e => h e.symm
      simp only [h, if_false, keys, List.map_cons, List.mem_cons, h', false_or] at ih ⊢
      rw [ih]
      by_cases hm : k ∈ List.map (fun x => x.fst) t <;> simp [hm]

theorem nodup_keys_alSet {k : Name} {v : β} {l : List (Name × β)} (hn : (keys l).Nodup) :
    (keys (alSet k v l)).Nodup := by
  rw [keys_alSet]
  split
  · exact hn
  · rename_i h
    rw [List.nodup_append]
    refine ⟨hn, by simp, ?_⟩
    intro a ha b hb
    simp only [List.mem_singleton] at hb; subst hb
    intro e; subst e; exact h ha

theorem mem_alSet {k : Name} {v : β} {l : List (Name × β)} (hn : (keys l).Nodup) (p : Name × β) :
    p ∈ alSet k v l ↔ (p.1 ≠ k ∧ p ∈ l) ∨ p = (k, v) := by
  induction l with
  | nil => simp [alSet]
  | cons x t ih =>
    simp only [keys, List.map_cons, List.nodup_cons] at hn
    simp only [alSet]
    by_cases h : x.1 = k
    · simp only [h, if_true, List.mem_cons]
      constructor
      · rintro (e | e)
        · exact Or.inr e
        · refine Or.inl ⟨?_, Or.inr e⟩
          intro e'; apply hn.1; rw [h, ← e']; exact List.mem_map.mpr ⟨p, e, rfl⟩
      · rintro (⟨hne, e | e⟩ | e)
        · subst e; exact absurd h hne
        · exact Or.inr e
        · exact Or.inl e
    · simp only [h, if_false, List.mem_cons, ih hn.2]
      constructor
      · rintro (e | ⟨hne, e⟩ | e)
        · subst e; exact Or.inl ⟨h, Or.inl rfl⟩
        · exact Or.inl ⟨hne, Or.inr e⟩
        · exact Or.inr e
      · rintro (⟨hne, e | e⟩ | e)
        · exact Or.inl e
        · exact Or.inr (Or.inl ⟨hne, e⟩)
        · exact Or.inr (Or.inr e)

theorem mem_alErase {k : Name} {l : List (Name × β)} (p : Name × β) :
    p ∈ alErase k l ↔ p.1 ≠ k ∧ p ∈ l := by
  simp [alErase, and_comm]

theorem alGet_alErase (j k : Name) (l : List (Name × β)) :
    alGet j (alErase k l) = if k = j then none else alGet j l := by
  induction l with
  | nil => simp [alErase, alGet]
  | cons p t ih =>
    simp only [alErase, List.filter_cons] at ih ⊢
    by_cases h : p.1 = k
    · simp only [h, bne_self_eq_false, Bool.false_eq_true, if_false, ih, alGet]
      by_cases hj : k = j <;> simp [hj]
    · have : (p.1 != k) = true := by simp [h]
      simp only [this, if_true, alGet, ih]
      by_cases hj : k = j
      · subst hj; simp [h]
      · simp [hj]

theorem keys_alErase (k : Name) (l : List (Name × β)) :
    keys (alErase k l) = (keys l).filter (fun x => x != k) := by
  simp only [keys, alErase, List.filter_map]
  rfl

theorem nodup_keys_alErase {k : Name} {l : List (Name × β)} (hn : (keys l).Nodup) :
    (keys (alErase k l)).Nodup := by
  rw [keys_alErase]; exact hn.filter _

theorem mem_keys_of_mem {l : List (Name × β)} {p : Name × β} (h : p ∈ l) : p.1 ∈ keys l :=
  List.mem_map.mpr ⟨p, h, rfl⟩

/-- two pairs with the same key in a list with distinct keys are equal -/
theorem pair_unique {l : List (Name × β)} (hn : (keys l).Nodup) {p r : Name × β}
    (hp : p ∈ l) (hr : r ∈ l) (h : p.1 = r.1) : p = r := by
  have h1 := alGet_of_mem hn (show (p.1, p.2) ∈ l from hp)
  have h2 := alGet_of_mem hn (show (r.1, r.2) ∈ l from hr)
  rw [h] at h1; rw [h1] at h2
  rcases p with ⟨a, b⟩; rcases r with ⟨c, d⟩
  simp only [Option.some.injEq] at h2; simp only at h; subst h; subst h2; rfl

end AL

/-! ### the sorted pending list -/

abbrev Sorted (l : List PEntry) : Prop := l.Pairwise (fun a b => idLt a.id b.id = true)

theorem sorted_unique {l : List PEntry} (hs : Sorted l) {a b : PEntry} (ha : a ∈ l) (hb : b ∈ l)
    (h : a.id = b.id) : a = b := by
  induction l with
  | nil => cases ha
  | cons x t ih =>
    rw [Sorted, List.pairwise_cons] at hs
    rcases List.mem_cons.mp ha with ha | ha <;> rcases List.mem_cons.mp hb with hb | hb
    · rw [ha, hb]
    · rw [ha] at h; exact absurd h (idLt_ne (hs.1 b hb))
    · rw [hb] at h; exact absurd h.symm (idLt_ne (hs.1 a ha))
    · exact ih hs.2 ha hb

theorem pelFind_some {id : Id} {l : List PEntry} {e : PEntry} (h : pelFind id l = some e) :
    e ∈ l ∧ e.id = id := by
  unfold pelFind at h
  exact ⟨List.mem_of_find?_eq_some h, by simpa using List.find?_some h⟩

theorem pelFind_of_mem {l : List PEntry} (hs : Sorted l) {e : PEntry} (he : e ∈ l) :
    pelFind e.id l = some e := by
  cases h : pelFind e.id l with
  | none =>
    unfold pelFind at h
    rw [List.find?_eq_none] at h
    have := h e he; simp at this
  | some e' =>
    have := pelFind_some h
    rw [sorted_unique hs this.1 he this.2]

theorem pelFind_none {id : Id} {l : List PEntry} : pelFind id l = none ↔ ∀ e ∈ l, e.id ≠ id := by
  unfold pelFind
  rw [List.find?_eq_none]
  simp

theorem mem_pelRemove {id : Id} {l : List PEntry} {e : PEntry} : e ∈ pelRemove id l ↔ e ∈ l ∧ e.id ≠ id := by
  simp [pelRemove]

theorem sorted_pelRemove {id : Id} {l : List PEntry} (hs : Sorted l) : Sorted (pelRemove id l) :=
  hs.filter _

theorem length_pelRemove {l : List PEntry} (hs : Sorted l) {e : PEntry} (he : e ∈ l) :
    (pelRemove e.id l).length + 1 = l.length := by
  induction l with
  | nil => cases he
  | cons x t ih =>
    rw [Sorted, List.pairwise_cons] at hs
    simp only [pelRemove, List.filter_cons]
    rcases List.mem_cons.mp he with h | h
    · subst h
      have : t.filter (fun x => x.id != e.id) = t := by
        rw [List.filter_eq_self]
        intro a ha
        have := idLt_ne (hs.1 a ha)
        simp [Ne.symm this]
      simp [this]
    · have hx : x.id ≠ e.id := idLt_ne (hs.1 e h)
      have := ih hs.2 h
      simp only [pelRemove] at this
      simp [hx, this]

theorem pelRemove_of_not_mem {id : Id} {l : List PEntry} (h : ∀ e ∈ l, e.id ≠ id) : pelRemove id l = l := by
  unfold pelRemove
  rw [List.filter_eq_self]
  intro a ha; simp [h a ha]

theorem mem_pelInsert {e : PEntry} {l : List PEntry} (hs : Sorted l) (x : PEntry) :
    x ∈ pelInsert e l ↔ x = e ∨ (x ∈ l ∧ x.id ≠ e.id) := by
  induction l with
  | nil => simp [pelInsert]
  | cons y t ih =>
    rw [Sorted, List.pairwise_cons] at hs
    simp only [pelInsert]
    split
    · rename_i hlt
      simp only [List.mem_cons]
      constructor
      · rintro (h | h | h)
        · exact Or.inl h
        · subst h; exact Or.inr ⟨Or.inl rfl, (idLt_ne hlt).symm⟩
        · exact Or.inr ⟨Or.inr h, (idLt_ne (idLt_trans hlt (hs.1 x h))).symm⟩
      · rintro (h | ⟨h | h, _⟩)
        · exact Or.inl h
        · exact Or.inr (Or.inl h)
        · exact Or.inr (Or.inr h)
    · split
      · rename_i heq
        simp only [List.mem_cons]
        constructor
        · rintro (h | h)
          · exact Or.inl h
          · refine Or.inr ⟨Or.inr h, ?_⟩
            rw [heq]; exact (idLt_ne (hs.1 x h)).symm
        · rintro (h | ⟨h | h, hne⟩)
          · exact Or.inl h
          · subst h; exact absurd heq.symm hne
          · exact Or.inr h
      · rename_i hne
        simp only [List.mem_cons, ih hs.2]
        constructor
        · rintro (h | h | ⟨h, h'⟩)
          · subst h; exact Or.inr ⟨Or.inl rfl, fun e => hne e.symm⟩
          · exact Or.inl h
          · exact Or.inr ⟨Or.inr h, h'⟩
        · rintro (h | ⟨h | h, h'⟩)
          · exact Or.inr (Or.inl h)
          · exact Or.inl h
          · exact Or.inr (Or.inr ⟨h, h'⟩)

theorem sorted_pelInsert {e : PEntry} {l : List PEntry} (hs : Sorted l) : Sorted (pelInsert e l) := by
  induction l with
  | nil => simp [pelInsert, Sorted]
  | cons y t ih =>
    have hs' := hs
    rw [Sorted, List.pairwise_cons] at hs
    simp only [pelInsert]
    split
    · rename_i hlt
      rw [Sorted, List.pairwise_cons]
      refine ⟨?_, hs'⟩
      intro a ha
      rcases List.mem_cons.mp ha with h | h
      · subst h; exact hlt
      · exact idLt_trans hlt (hs.1 a h)
    · split
      · rename_i heq
        rw [Sorted, List.pairwise_cons]
        exact ⟨fun a ha => by rw [heq]; exact hs.1 a ha, hs.2⟩
      · rename_i hnlt hne
        rw [Sorted, List.pairwise_cons]
        refine ⟨?_, ih hs.2⟩
        intro a ha
        rcases (mem_pelInsert hs.2 a).mp ha with h | ⟨h, _⟩
        · subst h
          rcases idLt_total a.id y.id with h | h | h
          · exact absurd h hnlt
          · exact absurd h hne
          · exact h
        · exact hs.1 a h

theorem length_pelInsert_fresh {e : PEntry} {l : List PEntry} (h : ∀ x ∈ l, x.id ≠ e.id) :
    (pelInsert e l).length = l.length + 1 := by
  induction l with
  | nil => simp [pelInsert]
  | cons y t ih =>
    simp only [pelInsert]
    split
    · simp
    · split
      · rename_i heq; exact absurd heq.symm (h y List.mem_cons_self)
      · simp [ih (fun x hx => h x (List.mem_cons_of_mem _ hx))]

theorem length_pelInsert_present {e : PEntry} {l : List PEntry} (hs : Sorted l) (h : ∃ x ∈ l, x.id = e.id) :
    (pelInsert e l).length = l.length := by
  induction l with
  | nil => obtain ⟨x, hx, _⟩ := h; cases hx
  | cons y t ih =>
    rw [Sorted, List.pairwise_cons] at hs
    simp only [pelInsert]
    obtain ⟨x, hx, hxe⟩ := h
    split
    · rename_i hlt
      rcases List.mem_cons.mp hx with h' | h'
      · subst h'; rw [hxe] at hlt; rw [idLt_irrefl] at hlt; cases hlt
      · have := idLt_trans hlt (hs.1 x h'); rw [hxe, idLt_irrefl] at this; cases this
    · split
      · simp
      · rename_i hne
        rcases List.mem_cons.mp hx with h' | h'
        · subst h'; exact absurd hxe.symm hne
        · simp [ih hs.2 ⟨x, h', hxe⟩]

theorem mem_pelSetOwner {id : Id} {c : Name} {l : List PEntry} {x : PEntry} :
    x ∈ pelSetOwner id c l ↔
      ∃ e ∈ l, x = (if e.id = id then { e with owner := c, count := e.count + 1 } else e) := by
  simp only [pelSetOwner, List.mem_map]
  constructor
  · rintro ⟨e, he, h⟩; exact ⟨e, he, h.symm⟩
  · rintro ⟨e, he, h⟩; exact ⟨e, he, h.symm⟩

theorem pelIds_pelSetOwner (id : Id) (c : Name) (l : List PEntry) :
    (pelSetOwner id c l).map (·.id) = l.map (·.id) := by
  simp only [pelSetOwner, List.map_map]
  apply List.map_congr_left
  intro e _
  simp only [Function.comp]
  split <;> rfl

theorem sorted_iff_ids {l : List PEntry} : Sorted l ↔ (l.map (·.id)).Pairwise (fun a b => idLt a b = true) := by
  rw [Sorted, List.pairwise_map]

theorem sorted_pelSetOwner {id : Id} {c : Name} {l : List PEntry} (hs : Sorted l) :
    Sorted (pelSetOwner id c l) := by
  rw [sorted_iff_ids, pelIds_pelSetOwner, ← sorted_iff_ids]; exact hs

theorem head?_pelSetOwner (id : Id) (c : Name) (l : List PEntry) :
    (pelSetOwner id c l).head?.map (·.id) = l.head?.map (·.id) := by
  have := congrArg List.head? (pelIds_pelSetOwner id c l)
  simpa [List.head?_map] using this

theorem getLast?_pelSetOwner (id : Id) (c : Name) (l : List PEntry) :
    (pelSetOwner id c l).getLast?.map (·.id) = l.getLast?.map (·.id) := by
  have := congrArg List.getLast? (pelIds_pelSetOwner id c l)
  simpa [List.getLast?_map] using this

/-- removing one element from a duplicate-free list that contains it shortens it by one -/
theorem length_filter_ne {l : List Id} (hn : l.Nodup) {id : Id} (h : id ∈ l) :
    (l.filter (fun x => x != id)).length + 1 = l.length := by
  induction l with
  | nil => cases h
  | cons x t ih =>
    rw [List.nodup_cons] at hn
    simp only [List.filter_cons]
    rcases List.mem_cons.mp h with h | h
    · subst h
      have : t.filter (fun x => x != id) = t := by
        rw [List.filter_eq_self]
        intro a ha
        have : a ≠ id := fun e => hn.1 (e ▸ ha)
        simp [this]
      simp [this]
    · have hx : x ≠ id := fun e => hn.1 (e ▸ h)
      simp [hx, ih hn.2 h]

end Ferrous.Grp
