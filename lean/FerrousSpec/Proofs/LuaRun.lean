/-
  Helper lemmas about script execution in Model/Lua.lean (property C12):
  step lists compose, a failing `redis.call` aborts, `redis.pcall` continues, the event loop runs
  every script as one contiguous block of data commands.
-/
import FerrousSpec.Proofs.LuaConv
import FerrousSpec.Proofs.KsAtomic
set_option linter.unusedSimpArgs false
set_option linter.unusedVariables false
namespace Ferrous.Lua
open Ferrous

/-! ### arguments -/

theorem resolveArgs_lits (env : Env) (cmd : List Bytes) : resolveArgs env (cmd.map Arg.lit) = some cmd := by
  induction cmd with
  | nil => rfl
  | cons b t ih => simp [resolveArgs, ih]

theorem resolveArgs_unpack (env : Env) : resolveArgs env [Arg.unpackArgv] = some env.argv := by
  simp [resolveArgs]

/-! ### one step -/

theorem runSteps_nil (q : Quirks) (kq : KS.Quirks) (env : Env) (db now : Nat) (s : KS.Store) (acc : List LuaVal) :
    runSteps q kq env db now s acc [] = (s, .ok acc) := by
  rw [runSteps]

theorem runSteps_cons (q : Quirks) (kq : KS.Quirks) (env : Env) (db now : Nat) (s : KS.Store) (acc : List LuaVal)
    (st : Step) (rest : List Step) :
    runSteps q kq env db now s acc (st :: rest) =
      match resolveArgs env st.args with
      | none =>
        if st.pcall then runSteps q kq env db now s (acc ++ [pcallFailure q (strBytes "ERR Invalid argument type")]) rest
        else (s, .error (strBytes "ERR Invalid argument type"))
      | some cmd =>
        match respToLua q (execCall q kq s db now cmd).2 with
        | .errTable m =>
          if st.pcall then runSteps q kq env db now (execCall q kq s db now cmd).1 (acc ++ [pcallFailure q m]) rest
          else ((execCall q kq s db now cmd).1, .error m)
        | v => runSteps q kq env db now (execCall q kq s db now cmd).1 (acc ++ [v]) rest := by
  rw [runSteps]; rfl

theorem callsOf_cons (q : Quirks) (kq : KS.Quirks) (env : Env) (conn db now : Nat) (s : KS.Store) (st : Step) (rest : List Step) :
    callsOf q kq env conn db now s (st :: rest) =
      match resolveArgs env st.args with
      | none => if st.pcall then callsOf q kq env conn db now s rest else []
      | some cmd =>
        match respToLua q (execCall q kq s db now cmd).2 with
        | .errTable _ =>
          if st.pcall then
            { conn := conn, db := db, now := now, scripted := true, cmd := cmd } :: callsOf q kq env conn db now (execCall q kq s db now cmd).1 rest
          else [{ conn := conn, db := db, now := now, scripted := true, cmd := cmd }]
        | _ => { conn := conn, db := db, now := now, scripted := true, cmd := cmd } :: callsOf q kq env conn db now (execCall q kq s db now cmd).1 rest := by
  rw [callsOf]; rfl

/-- the result a step leaves in the result list, and whether the script goes on -/
theorem runSteps_cons_ok (q : Quirks) (kq : KS.Quirks) (env : Env) (db now : Nat) (s : KS.Store) (acc : List LuaVal)
    (st : Step) (rest : List Step) (cmd : List Bytes) (hc : resolveArgs env st.args = some cmd)
    (hne : ∀ m, (execCall q kq s db now cmd).2 ≠ .error m) :
    runSteps q kq env db now s acc (st :: rest) =
      runSteps q kq env db now (execCall q kq s db now cmd).1 (acc ++ [respToLua q (execCall q kq s db now cmd).2]) rest := by
  rw [runSteps_cons]
  simp only [hc]
  split
  · next m hm => exact absurd ((respToLua_errTable_iff q _ m).1 hm) (hne m)
  · rfl

theorem runSteps_cons_call_err (q : Quirks) (kq : KS.Quirks) (env : Env) (db now : Nat) (s : KS.Store) (acc : List LuaVal)
    (st : Step) (rest : List Step) (cmd : List Bytes) (m : Bytes) (hc : resolveArgs env st.args = some cmd)
    (he : (execCall q kq s db now cmd).2 = .error m) (hp : st.pcall = false) :
    runSteps q kq env db now s acc (st :: rest) = ((execCall q kq s db now cmd).1, .error m) := by
  rw [runSteps_cons]
  simp only [hc, he, respToLua, hp]
  simp

theorem runSteps_cons_pcall_err (q : Quirks) (kq : KS.Quirks) (env : Env) (db now : Nat) (s : KS.Store) (acc : List LuaVal)
    (st : Step) (rest : List Step) (cmd : List Bytes) (m : Bytes) (hc : resolveArgs env st.args = some cmd)
    (he : (execCall q kq s db now cmd).2 = .error m) (hp : st.pcall = true) :
    runSteps q kq env db now s acc (st :: rest) =
      runSteps q kq env db now (execCall q kq s db now cmd).1 (acc ++ [pcallFailure q m]) rest := by
  rw [runSteps_cons]
  simp only [hc, he, respToLua, hp]
  simp

/-! ### step lists compose: the second part starts from what the first part left -/

theorem runSteps_append (q : Quirks) (kq : KS.Quirks) (env : Env) (db now : Nat) (p1 p2 : List Step) :
    ∀ (s : KS.Store) (acc : List LuaVal),
    runSteps q kq env db now s acc (p1 ++ p2) =
      match runSteps q kq env db now s acc p1 with
      | (s', .ok acc') => runSteps q kq env db now s' acc' p2
      | (s', .error m) => (s', .error m) := by
  induction p1 with
  | nil => intro s acc; simp [runSteps_nil]
  | cons st rest ih =>
    intro s acc
    simp only [List.cons_append]
    rw [runSteps_cons, runSteps_cons]
    split
    · split
      · exact ih _ _
      · rfl
    · split
      · split
        · exact ih _ _
        · rfl
      · exact ih _ _

/-! ### a refused or failing command changes nothing -/

theorem execCall_error_store (q : Quirks) (kq : KS.Quirks) (s : KS.Store) (db now : Nat) (cmd : List Bytes) (m : Bytes)
    (h : (execCall q kq s db now cmd).2 = .error m) :
    (execCall q kq s db now cmd).1 = s ∨
    (execCall q kq s db now cmd).1 = KS.setDb s db (KS.purge now (KS.getDb s db)) := by
  unfold execCall at h ⊢
  split
  · left; rfl
  · split
    · left; rfl
    · split
      · left; rfl
      · next h1 h2 h3 =>
        simp only [h1, h2, h3, if_false, Bool.false_eq_true] at h
        exact KS.step_atomic kq s db now cmd none (by rw [h]; rfl)

theorem execCall_refused (q : Quirks) (kq : KS.Quirks) (s : KS.Store) (db now : Nat) (cmd : List Bytes)
    (h : refusedNames.contains (nameOf cmd) = true) :
    ∃ m, execCall q kq s db now cmd = (s, .error m) := by
  unfold execCall
  split
  · exact ⟨_, rfl⟩
  · split
    · exact ⟨_, rfl⟩
    · exact ⟨_, rfl⟩

/-- what is not refused is the direct command -/
def allowed (q : Quirks) (cmd : List Bytes) : Bool :=
  !cmd.isEmpty && (!q.utf8ArgsOnly || cmd.all validUtf8) && !refusedNames.contains (nameOf cmd)

theorem execCall_allowed (q : Quirks) (kq : KS.Quirks) (s : KS.Store) (db now : Nat) (cmd : List Bytes)
    (h : allowed q cmd = true) : execCall q kq s db now cmd = KS.step kq s db now cmd none := by
  unfold allowed at h
  simp only [Bool.and_eq_true, Bool.not_eq_true', Bool.or_eq_true] at h
  obtain ⟨⟨h1, h2⟩, h3⟩ := h
  unfold execCall
  have hu : (q.utf8ArgsOnly && !cmd.all validUtf8) = false := by
    cases h2 with
    | inl hq => simp [hq]
    | inr hv => simp [hv]
  rw [if_neg (by simp [h1]), if_neg (by simp [hu]), if_neg (by rw [h3]; exact Bool.false_ne_true)]

/-! ### a script of one call -/

theorem eval_single (q : Quirks) (kq : KS.Quirks) (s : KS.Store) (db now : Nat) (keys argv : List Bytes)
    (pc : Bool) (cmd : List Bytes) :
    eval q kq s db now keys argv ⟨[⟨pc, cmd.map Arg.lit⟩], .res 1⟩ =
      ((execCall q kq s db now cmd).1,
        match respToLua q (execCall q kq s db now cmd).2 with
        | .errTable m => if pc then luaToResp q (pcallFailure q m) else .error m
        | v => luaToResp q v) := by
  unfold eval
  simp only []
  rw [runSteps_cons]
  simp only [resolveArgs_lits]
  cases hr : respToLua q (execCall q kq s db now cmd).2 with
  | errTable m => cases pc <;> simp [runSteps_nil, evalRet, resOf, nth1]
  | _ => simp [runSteps_nil, evalRet, resOf, nth1]

/-! ### the loop at command grain -/

theorem runSteps_store_eq_calls (q : Quirks) (kq : KS.Quirks) (env : Env) (conn db now : Nat) (steps : List Step) :
    ∀ (s : KS.Store) (acc : List LuaVal),
    (runSteps q kq env db now s acc steps).1 = (callsOf q kq env conn db now s steps).foldl (microStep q kq) s := by
  induction steps with
  | nil => intro s acc; simp [runSteps_nil, callsOf]
  | cons st rest ih =>
    intro s acc
    rw [runSteps_cons, callsOf_cons]
    split
    · split
      · exact ih _ _
      · simp
    · next cmd hc =>
      split
      · split
        · rw [ih]; simp [microStep]
        · simp [microStep]
      · rw [ih]; simp [microStep]

theorem eval_store_eq_calls (q : Quirks) (kq : KS.Quirks) (s : KS.Store) (conn db now : Nat) (keys argv : List Bytes) (p : Program) :
    (eval q kq s db now keys argv p).1 =
      (callsOf q kq (mkEnv q keys argv) conn db now s p.steps).foldl (microStep q kq) s := by
  have h := runSteps_store_eq_calls q kq (mkEnv q keys argv) conn db now p.steps s []
  unfold eval
  split
  · next s' m hm => simp only [hm] at h; exact h
  · next s' rs hm =>
    simp only [hm] at h
    split <;> exact h

theorem processFrame_store_eq_micros (q : Quirks) (kq : KS.Quirks) (c : Cache) (s : KS.Store) (e : Ev) :
    (processFrame q kq c s e).1 = (microsOf q kq c s e).foldl (microStep q kq) s := by
  unfold processFrame microsOf
  split
  · simp [microStep]
  · exact eval_store_eq_calls ..
  · unfold evalsha
    split
    · simp
    · exact eval_store_eq_calls ..

theorem runLoop_store_eq_flatten (q : Quirks) (kq : KS.Quirks) (c : Cache) (evs : List Ev) :
    ∀ s, (runLoop q kq c s evs).1 = (flatten q kq c s evs).foldl (microStep q kq) s := by
  induction evs with
  | nil => intro s; simp [runLoop, flatten]
  | cons e rest ih =>
    intro s
    simp only [runLoop, flatten, List.foldl_append]
    rw [ih, processFrame_store_eq_micros]

theorem runLoop_append (q : Quirks) (kq : KS.Quirks) (c : Cache) (pre post : List Ev) :
    ∀ s, runLoop q kq c s (pre ++ post) =
      ((runLoop q kq c (runLoop q kq c s pre).1 post).1, (runLoop q kq c s pre).2 ++ (runLoop q kq c (runLoop q kq c s pre).1 post).2) := by
  induction pre with
  | nil => intro s; simp [runLoop]
  | cons e rest ih => intro s; simp [runLoop, ih]

theorem flatten_append (q : Quirks) (kq : KS.Quirks) (c : Cache) (pre post : List Ev) :
    ∀ s, flatten q kq c s (pre ++ post) = flatten q kq c s pre ++ flatten q kq c (runLoop q kq c s pre).1 post := by
  induction pre with
  | nil => intro s; simp [flatten, runLoop]
  | cons e rest ih => intro s; simp [flatten, runLoop, ih]

theorem observable_prefix (q : Quirks) (kq : KS.Quirks) (c : Cache) (evs : List Ev) :
    ∀ s st, st ∈ observable q kq c s evs → ∃ k, k ≤ evs.length ∧ st = (runLoop q kq c s (evs.take k)).1 := by
  induction evs with
  | nil =>
    intro s st h
    simp [observable] at h
    exact ⟨0, by simp, by simp [h, runLoop]⟩
  | cons e rest ih =>
    intro s st h
    simp only [observable, List.mem_cons] at h
    cases h with
    | inl h0 => exact ⟨0, by simp, by simp [h0, runLoop]⟩
    | inr h1 =>
      obtain ⟨k, hk, hst⟩ := ih _ _ h1
      exact ⟨k + 1, by simp; omega, by simp [runLoop, hst]⟩

end Ferrous.Lua
