/-
  RDB codec, part 5: the loader model is total for the right reason.  On EVERY byte string each
  reader hands back a suffix of its input, and the recursion budgets (`input length + 1`) are
  never what stops it: `Err.fuel` is unreachable.  (Used by C09 as a statement about the model's
  faithfulness; the basis of C10's `loader_total`.)
-/
import FerrousSpec.Proofs.RdbPrim
set_option linter.unusedSimpArgs false
set_option linter.unusedVariables false
namespace Ferrous.Rdb
open Ferrous

/-- `x` (a reader run inside a file of `N` bytes) is not a fuel error; when it succeeds it leaves at most
    `n` bytes; every successful allocation is at most `N`; and when it fails in `read_string`, the bytes
    that were still available are at most `N`. -/
def Good {α : Type} (N : Nat) (x : Res α) (n : Nat) : Prop :=
  (∀ al, x ≠ .err .fuel al) ∧ (∀ a r al, x = .ok a r al → r.length ≤ n) ∧
  (∀ a ∈ x.allocs, a ≤ N) ∧ (∀ w h al, x = .err (.shortString w h) al → h ≤ N)

theorem Good.mono {α : Type} {N : Nat} {x : Res α} {n m : Nat} (h : Good N x n) (hnm : n ≤ m) : Good N x m :=
  ⟨h.1, fun a r al hx => Nat.le_trans (h.2.1 a r al hx) hnm, h.2.2.1, h.2.2.2⟩

theorem Good.pre {α : Type} {N : Nat} {x : Res α} {n : Nat} (h : Good N x n) (al : List Nat)
    (hal : ∀ a ∈ al, a ≤ N) : Good N (x.pre al) n := by
  cases x with
  | ok a r al' =>
    refine ⟨fun _ hh => by simp at hh, ?_, ?_, fun _ _ _ hh => by simp at hh⟩
    · intro a' r' al'' hh
      simp at hh
      rw [← hh.2.1]
      exact h.2.1 a r al' rfl
    · intro x hx
      simp [Res.allocs] at hx
      cases hx with
      | inl hx => exact hal x hx
      | inr hx => exact h.2.2.1 x (by simp [Res.allocs, hx])
  | err e al' =>
    refine ⟨?_, fun _ _ _ hh => by simp at hh, ?_, ?_⟩
    · intro al'' hh
      simp at hh
      exact h.1 al' (by rw [hh.1])
    · intro x hx
      simp [Res.allocs] at hx
      cases hx with
      | inl hx => exact hal x hx
      | inr hx => exact h.2.2.1 x (by simp [Res.allocs, hx])
    · intro w hv al'' hh
      simp at hh
      exact h.2.2.2 w hv al' (by rw [hh.1])

theorem Good.bind {α β : Type} {N : Nat} {x : Res α} {f : α → Bytes → Res β} {n : Nat} (hx : Good N x n)
    (hf : ∀ a r, r.length ≤ n → Good N (f a r) n) : Good N (x.bind f) n := by
  cases x with
  | ok a r al => exact (hf a r (hx.2.1 a r al rfl)).pre al (fun y hy => hx.2.2.1 y (by simp [Res.allocs, hy]))
  | err e al =>
    refine ⟨?_, fun _ _ _ hh => by simp at hh, ?_, ?_⟩
    · intro al' hh
      simp at hh
      exact hx.1 al (by rw [hh.1])
    · intro y hy
      exact hx.2.2.1 y (by simpa [Res.allocs] using hy)
    · intro w hv al' hh
      simp at hh
      exact hx.2.2.2 w hv al (by rw [hh.1])

theorem Good.map {α β : Type} {N : Nat} {x : Res α} {g : α → β} {n : Nat} (hx : Good N x n) : Good N (x.map g) n := by
  cases x with
  | ok a r al =>
    refine ⟨fun _ hh => by simp at hh, ?_, ?_, fun _ _ _ hh => by simp at hh⟩
    · intro a' r' al' hh
      simp at hh
      rw [← hh.2.1]
      exact hx.2.1 a r al rfl
    · intro y hy
      exact hx.2.2.1 y (by simpa [Res.allocs] using hy)
  | err e al =>
    refine ⟨?_, fun _ _ _ hh => by simp at hh, ?_, ?_⟩
    · intro al' hh
      simp at hh
      exact hx.1 al (by rw [hh.1])
    · intro y hy
      exact hx.2.2.1 y (by simpa [Res.allocs] using hy)
    · intro w hv al' hh
      simp at hh
      exact hx.2.2.2 w hv al (by rw [hh.1])

/-- a success that allocated nothing -/
theorem good_ok {α : Type} {N : Nat} (a : α) (r : Bytes) (n : Nat) (h : r.length ≤ n) : Good N (Res.ok a r []) n :=
  ⟨fun _ hh => by simp at hh, fun a' r' al' hh => by simp at hh; rw [← hh.2.1]; exact h,
   fun y hy => by simp [Res.allocs] at hy, fun _ _ _ hh => by simp at hh⟩

/-- a success with one allocation -/
theorem good_ok1 {α : Type} {N : Nat} (a : α) (r : Bytes) (k n : Nat) (h : r.length ≤ n) (hk : k ≤ N) :
    Good N (Res.ok a r [k]) n :=
  ⟨fun _ hh => by simp at hh, fun a' r' al' hh => by simp at hh; rw [← hh.2.1]; exact h,
   fun y hy => by simp [Res.allocs] at hy; rw [hy]; exact hk, fun _ _ _ hh => by simp at hh⟩

/-- a failure other than `fuel` / `shortString` -/
theorem good_err {α : Type} {N : Nat} (e : Err) (n : Nat) (h : e ≠ .fuel) (hs : ∀ w v, e ≠ .shortString w v) :
    Good N (Res.err e [] : Res α) n :=
  ⟨fun al' hh => by simp at hh; exact h hh.1, fun _ _ _ hh => by simp at hh,
   fun y hy => by simp [Res.allocs] at hy, fun w v al hh => by simp at hh; exact absurd hh.1 (hs w v)⟩

theorem good_short {α : Type} {N : Nat} (w v n : Nat) (hv : v ≤ N) : Good N (Res.err (.shortString w v) [] : Res α) n :=
  ⟨fun al' hh => by simp at hh, fun _ _ _ hh => by simp at hh,
   fun y hy => by simp [Res.allocs] at hy, fun w' v' al hh => by simp at hh; rw [← hh.1.2]; exact hv⟩

/-- an engine call that cannot answer `fuel` -/
def NoFuel {α : Type} (x : Except Err α) : Prop := ∀ e, x = .error e → e ≠ .fuel ∧ ∀ w v, e ≠ .shortString w v

theorem good_lift {α : Type} {N : Nat} (x : Except Err α) (r : Bytes) (n : Nat) (hx : NoFuel x) (h : r.length ≤ n) :
    Good N (lift x r) n := by
  cases x with
  | ok a => exact good_ok a r n h
  | error e => exact good_err e n (hx e rfl).1 (hx e rfl).2

/-! ### primitives: each consumes what it reads -/

theorem readByte_good {N : Nat} (bs : Bytes) : Good N (readByte bs) (bs.length - 1) := by
  cases bs with
  | nil => exact good_err _ _ (by simp) (by simp)
  | cons b r => exact good_ok b r _ (by simp)

theorem readExact_length {n : Nat} {bs h r : Bytes} (hh : readExact n bs = some (h, r)) : r.length + n = bs.length := by
  obtain ⟨h1, h2⟩ := readExact_some hh
  rw [h1, List.length_append, h2]; omega

theorem readFixed_good {N : Nat} (k : Nat) (bs : Bytes) : Good N (readFixed k bs) (bs.length - k) := by
  unfold readFixed
  cases hh : readExact k bs with
  | none => exact good_err _ _ (by simp) (by simp)
  | some p =>
    obtain ⟨h, r⟩ := p
    have := readExact_length hh
    exact good_ok h r _ (by omega)

theorem readLen_good {N : Nat} (bs : Bytes) : Good N (readLen bs) (bs.length - 1) := by
  cases bs with
  | nil => exact good_err _ _ (by simp) (by simp)
  | cons b r =>
    simp only [readLen, List.length_cons, Nat.add_sub_cancel]
    by_cases h0 : b / 64 = 0
    · simp only [h0, if_true]
      exact good_ok _ _ _ (Nat.le_refl _)
    · by_cases h1 : b / 64 = 1
      · simp only [h1, if_true, if_false, Nat.reduceEqDiff]
        cases r with
        | nil => exact good_err _ _ (by simp) (by simp)
        | cons c r' => exact good_ok _ _ _ (by simp)
      · by_cases h2 : b / 64 = 2
        · simp only [h2, if_true, if_false, Nat.reduceEqDiff]
          cases hh : readExact 4 r with
          | none => exact good_err _ _ (by simp) (by simp)
          | some p =>
            obtain ⟨h, r'⟩ := p
            have := readExact_length hh
            exact good_ok _ _ _ (by omega)
        · simp only [h0, h1, h2, if_false]
          exact good_err _ _ (by simp) (by simp)

theorem readString_good {N : Nat} (bs : Bytes) (hN : bs.length ≤ N) : Good N (readString bs) (bs.length - 1) := by
  unfold readString
  apply Good.bind (readLen_good bs)
  intro n r hr
  cases hh : readExact n r with
  | none => exact good_short _ _ _ (by omega)
  | some p =>
    obtain ⟨h, r'⟩ := p
    have := readExact_length hh
    exact good_ok1 _ _ _ _ (by omega) (by omega)

theorem readStrings_good {N : Nat} : ∀ (k : Nat) (bs : Bytes), bs.length ≤ N → Good N (readStrings k bs) bs.length
  | 0, bs, _ => good_ok _ _ _ (Nat.le_refl _)
  | k+1, bs, hN => by
    unfold readStrings
    apply Good.bind ((readString_good bs hN).mono (by omega))
    intro s r hr
    exact Good.map ((readStrings_good k r (by omega)).mono hr)

theorem readPairs_good {N : Nat} : ∀ (k : Nat) (bs : Bytes), bs.length ≤ N → Good N (readPairs k bs) bs.length
  | 0, bs, _ => good_ok _ _ _ (Nat.le_refl _)
  | k+1, bs, hN => by
    unfold readPairs
    apply Good.bind ((readString_good bs hN).mono (by omega))
    intro f r hr
    apply Good.bind ((readString_good r (by omega)).mono (by omega))
    intro v r' hr'
    exact Good.map ((readPairs_good k r' (by omega)).mono hr')

theorem readZPairs_good {N : Nat} : ∀ (k : Nat) (bs : Bytes), bs.length ≤ N → Good N (readZPairs k bs) bs.length
  | 0, bs, _ => good_ok _ _ _ (Nat.le_refl _)
  | k+1, bs, hN => by
    unfold readZPairs
    apply Good.bind ((readString_good bs hN).mono (by omega))
    intro m r hr
    apply Good.bind ((readFixed_good 8 r).mono (by omega))
    intro sc r' hr'
    exact Good.map ((readZPairs_good k r' (by omega)).mono hr')

/-! ### engine calls never answer `fuel` (nor `shortString`) -/

theorem nofuel_of {α : Type} (x : Except Err α) (h : ∀ e, x = .error e → e = .invalidDb ∨ e = .wrongType ∨ e = .badExpire) : NoFuel x := by
  intro e he
  rcases h e he with h | h | h
  · subst h; exact ⟨by simp, by simp⟩
  · subst h; exact ⟨by simp, by simp⟩
  · subst h; exact ⟨by simp, by simp⟩

theorem setValue_nofuel (valid : Bool) (db : Db) (e : Entry) : NoFuel (setValue valid db e) := by
  apply nofuel_of; intro e' h; unfold setValue at h
  split at h
  · simp at h; exact Or.inr (Or.inr h.symm)
  · split at h <;> simp at h; exact Or.inl h.symm

theorem rpush_nofuel (valid : Bool) (db : Db) (k x : Bytes) : NoFuel (rpush valid db k x) := by
  apply nofuel_of; intro e' h; unfold rpush at h
  split at h
  · simp at h; exact Or.inl h.symm
  · split at h <;> simp at h; exact Or.inr (Or.inl h.symm)

theorem sadd_nofuel (valid : Bool) (db : Db) (k : Bytes) (ms : List Bytes) : NoFuel (sadd valid db k ms) := by
  apply nofuel_of; intro e' h; unfold sadd at h
  split at h
  · simp at h; exact Or.inl h.symm
  · split at h <;> simp at h; exact Or.inr (Or.inl h.symm)

theorem hset_nofuel (valid : Bool) (db : Db) (k : Bytes) (fvs : List (Bytes × Bytes)) : NoFuel (hset valid db k fvs) := by
  apply nofuel_of; intro e' h; unfold hset at h
  split at h
  · simp at h; exact Or.inl h.symm
  · split at h <;> simp at h; exact Or.inr (Or.inl h.symm)

theorem zadd_nofuel (valid : Bool) (db : Db) (k m : Bytes) (sc : Nat) : NoFuel (zadd valid db k m sc) := by
  apply nofuel_of; intro e' h; unfold zadd at h
  split at h
  · simp at h; exact Or.inl h.symm
  · split at h <;> simp at h; exact Or.inr (Or.inl h.symm)

theorem expireOpt_nofuel (valid : Bool) (db : Db) (k : Bytes) (dl : Option Nat) : NoFuel (expireOpt valid db k dl) := by
  apply nofuel_of; intro e' h
  cases dl with
  | none => simp [expireOpt] at h
  | some d =>
    simp only [expireOpt, expire] at h
    split at h
    · simp at h; exact Or.inr (Or.inr h.symm)
    · split at h
      · simp at h; exact Or.inl h.symm
      · split at h <;> simp at h

theorem ensureStream_nofuel (valid : Bool) (db : Db) (k : Bytes) : NoFuel (ensureStream valid db k) := by
  apply nofuel_of; intro e' h; unfold ensureStream at h
  split at h
  · simp at h; exact Or.inl h.symm
  · split at h <;> simp at h; exact Or.inr (Or.inl h.symm)

theorem nofuel_ok {α : Type} (a : α) : NoFuel (.ok a : Except Err α) := by
  intro e h; cases h

theorem nofuel_ite {α : Type} (c : Prop) [Decidable c] (x y : Except Err α) (hx : NoFuel x) (hy : NoFuel y) :
    NoFuel (if c then x else y) := by
  split
  · exact hx
  · exact hy

theorem nofuel_invalid {α : Type} : NoFuel (.error .invalidDb : Except Err α) := by
  apply nofuel_of; intro e h; cases h; exact Or.inl rfl

/-! ### the stream loop and `read_key_value_with_type` -/

/-- one step of a reader chain: the next reader is good and leaves no more than the bound -/
macro "rd " t:term : tactic => `(tactic| (apply Good.bind (Good.mono $t (by omega)); intro _ _ _))
/-- one engine call in a reader chain -/
macro "eng " t:term : tactic => `(tactic| (apply Good.bind (good_lift _ _ _ $t (by omega)); intro _ _ _))

theorem streamLoop_good {N : Nat} (valid : Bool) (k : Bytes) (remaining : Nat) :
    ∀ (fuel idx : Nat) (db : Db) (bs : Bytes), bs.length < fuel → bs.length ≤ N →
      Good N (streamLoop valid k remaining fuel idx db bs) bs.length := by
  intro fuel
  induction fuel with
  | zero => intro idx db bs h; omega
  | succ f ih =>
    intro idx db bs h hN
    rw [streamLoop]
    split
    · exact good_ok _ _ _ (Nat.le_refl _)
    · split
      · exact good_ok _ _ _ (Nat.le_refl _)
      · cases bs with
        | nil => exact good_err _ _ (by simp) (by simp)
        | cons b t =>
          -- at least the first string's length byte is consumed before the recursive call
          simp only [List.length_cons] at hN h
          refine Good.mono (n := t.length) ?_ (by simp)
          have h0 : Good N (readString (b :: t)) t.length := by
            simpa using readString_good (N := N) (b :: t) (by simp; omega)
          apply Good.bind h0
          intro idStr r1 hr1
          rd (readString_good r1 (by omega))
          dsimp only
          split
          · exact good_ok _ _ _ (by omega)
          · rd (readPairs_good _ _ (by omega))
            rename_i r3 hr3
            exact (ih _ _ r3 (by omega) (by omega)).mono (by omega)

theorem loadPlainList_good {N : Nat} (valid : Bool) (db : Db) (k : Bytes) (dl : Option Nat) (n : Nat) (bs : Bytes)
    (hN : bs.length ≤ N) : Good N (loadPlainList valid db k dl n bs) bs.length := by
  unfold loadPlainList
  split
  · rd (readString_good bs hN)
    eng (rpush_nofuel _ _ _ _)
    rd (readStrings_good _ _ (by omega))
    eng (expireOpt_nofuel _ _ _ _)
    exact good_ok _ _ _ (by omega)
  · eng (expireOpt_nofuel _ _ _ _)
    exact good_ok _ _ _ (by omega)

theorem loadTyped_good {N : Nat} (fix : Fix) (valid : Bool) (db : Db) (ty : Nat) (dl : Option Nat) (bs : Bytes)
    (hN : bs.length ≤ N) : Good N (loadTyped fix valid db ty dl bs) bs.length := by
  unfold loadTyped
  split
  · rd (readString_good bs hN)
    rd (readString_good _ (by omega))
    eng (setValue_nofuel _ _ _)
    exact good_ok _ _ _ (by omega)
  · split
    · rd (readString_good bs hN)
      rd (readLen_good _)
      split
      · rd (readString_good _ (by omega))
        rd (readFixed_good 8 _)
        eng (zadd_nofuel _ _ _ _ _)
        rd (readZPairs_good _ _ (by omega))
        eng (expireOpt_nofuel _ _ _ _)
        exact good_ok _ _ _ (by omega)
      · eng (expireOpt_nofuel _ _ _ _)
        exact good_ok _ _ _ (by omega)
    · split
      · rd (readString_good bs hN)
        rd (readLen_good _)
        split
        · rd (readString_good _ (by omega))
          split
          · eng (nofuel_ite _ _ _ (setValue_nofuel _ _ _) (nofuel_ok _))
            rename_i r2' hr2'
            rd (streamLoop_good _ _ _ _ _ _ r2' (Nat.lt_succ_self _) (by omega))
            eng (nofuel_ite _ _ _ (ensureStream_nofuel _ _ _) (nofuel_ok _))
            eng (expireOpt_nofuel _ _ _ _)
            exact good_ok _ _ _ (by omega)
          · split
            · rename_i r2 hr2 _ _
              exact (loadPlainList_good _ _ _ _ _ r2 (by omega)).mono (by omega)
            · eng (rpush_nofuel _ _ _ _)
              rd (readStrings_good _ _ (by omega))
              eng (expireOpt_nofuel _ _ _ _)
              exact good_ok _ _ _ (by omega)
        · eng (expireOpt_nofuel _ _ _ _)
          exact good_ok _ _ _ (by omega)
      · split
        · rd (readString_good bs hN)
          rd (readLen_good _)
          rd (readStrings_good _ _ (by omega))
          eng (sadd_nofuel _ _ _ _)
          eng (expireOpt_nofuel _ _ _ _)
          exact good_ok _ _ _ (by omega)
        · split
          · rd (readString_good bs hN)
            rd (readLen_good _)
            rd (readPairs_good _ _ (by omega))
            eng (hset_nofuel _ _ _ _)
            eng (expireOpt_nofuel _ _ _ _)
            exact good_ok _ _ _ (by omega)
          · exact good_err _ _ (by simp) (by simp)

theorem loadExpiring_good {N : Nat} (fix : Fix) (now : Nat) (valid : Bool) (db : Db) (ty expiry : Nat) (bs : Bytes)
    (hN : bs.length ≤ N) : Good N (loadExpiring fix now valid db ty expiry bs) bs.length := by
  unfold loadExpiring
  split
  · rd (loadTyped_good _ _ _ _ _ bs hN)
    exact good_ok _ _ _ (by omega)
  · split
    · rd (loadTyped_good _ _ _ _ _ bs hN)
      exact good_lift _ _ _ (nofuel_ite _ _ _ (nofuel_ok _) nofuel_invalid) (by omega)
    · rd (loadTyped_good _ _ _ _ _ bs hN)
      exact good_ok _ _ _ (by omega)

/-! ### the opcode loop and the whole file -/

theorem loadLoop_good {N : Nat} (fix : Fix) (now : Nat) :
    ∀ (fuel cur : Nat) (s : Store) (bs : Bytes), bs.length < fuel → bs.length ≤ N →
      Good N (loadLoop fix now fuel cur s bs) bs.length := by
  intro fuel
  induction fuel with
  | zero => intro cur s bs h; omega
  | succ f ih =>
    intro cur s bs h hN
    rw [loadLoop]
    cases bs with
    | nil => exact good_err _ _ (by simp) (by simp)
    | cons b t =>
      simp only [List.length_cons] at hN h
      refine Good.mono (n := t.length) ?_ (by simp)
      simp only [readByte, Res.bind_ok, Res.pre_nil]
      have hf : ∀ (c : Nat) (s' : Store) (r : Bytes), r.length ≤ t.length → Good N (loadLoop fix now f c s' r) t.length :=
        fun c s' r hr => (ih c s' r (by omega) (by omega)).mono hr
      split
      · rd (readFixed_good 8 t)
        exact good_ok _ _ _ (by omega)
      · split
        · rd (readLen_good t)
          exact hf _ _ _ (by omega)
        · split
          · rd (readLen_good t)
            rd (readLen_good _)
            exact hf _ _ _ (by omega)
          · split
            · rd (readString_good t (by omega))
              rd (readString_good _ (by omega))
              exact hf _ _ _ (by omega)
            · split
              · rd (readFixed_good 8 t)
                rd (readByte_good _)
                rd (loadExpiring_good _ _ _ _ _ _ _ (by omega))
                exact hf _ _ _ (by omega)
              · split
                · rd (readFixed_good 4 t)
                  rd (readByte_good _)
                  rd (loadExpiring_good _ _ _ _ _ _ _ (by omega))
                  exact hf _ _ _ (by omega)
                · rd (loadTyped_good _ _ _ _ _ t (by omega))
                  exact hf _ _ _ (by omega)

theorem loadInto_good (fix : Fix) (s : Store) (bs : Bytes) (now : Nat) : Good bs.length (loadInto fix s bs now) bs.length := by
  unfold loadInto
  rd (readFixed_good 5 bs)
  split
  · exact good_err _ _ (by simp) (by simp)
  · rd (readFixed_good 4 _)
    split
    · exact good_err _ _ (by simp) (by simp)
    · rename_i v r' hr' hv
      exact (loadLoop_good fix now _ 0 s r' (Nat.lt_succ_self _) (by omega)).mono (by omega)

/-- The recursion budgets of the model are never the reason for an answer: on EVERY byte string the
    loader model ends in `ok` or in one of the loader's own errors. -/
theorem decSnapshotT_never_fuel (fix : Fix) (bs : Bytes) (now : Nat) (al : List Nat) :
    decSnapshotT fix bs now ≠ .err .fuel al :=
  (loadInto_good fix [] bs now).1 al

/-- … and it never reads past the end: what is left over is a suffix no longer than the input. -/
theorem decSnapshotT_rest_le (fix : Fix) (bs : Bytes) (now : Nat) (s : Store) (r : Bytes) (al : List Nat)
    (h : decSnapshotT fix bs now = .ok s r al) : r.length ≤ bs.length :=
  (loadInto_good fix [] bs now).2.1 s r al h

/-- Every allocation that is followed by a successful read is at most the size of the file … -/
theorem decSnapshotT_allocs_le (fix : Fix) (bs : Bytes) (now : Nat) :
    ∀ a ∈ (decSnapshotT fix bs now).allocs, a ≤ bs.length :=
  (loadInto_good fix [] bs now).2.2.1

/-- … and when `read_string` fails, fewer bytes than the file holds were still available. -/
theorem decSnapshotT_short_avail_le (fix : Fix) (bs : Bytes) (now : Nat) (w v : Nat) (al : List Nat)
    (h : decSnapshotT fix bs now = .err (.shortString w v) al) : v ≤ bs.length :=
  (loadInto_good fix [] bs now).2.2.2 w v al h

end Ferrous.Rdb
