/-
  The connection layer above the pub/sub calls: a session executes core operations
  (`run_state`), a connection marked as closing receives and counts no more when subscriptions
  are released at that moment, and with the subscriber-context gate a subscribed connection is
  never blocked, so no delivery is ever deferred.
-/
import FerrousSpec.Proofs.PubSubAcks
set_option linter.unusedSimpArgs false
namespace Ferrous.PubSub

/-! ### A session runs the core machine -/

theorem Code.after_nil (st : State) : Code.after st [] = st := rfl

/-- A command of connection `c`: either nothing happens (the connection is closing or blocked, or
    the command is refused), or it is executed by the core machine. -/
theorem Sess.step_op_cases (q : Quirks) (s : Sess) (o : Op) (c : ConnId) (ho : o.sender = some c) :
    Sess.step q s (.op o) = (s, []) ∨
    (¬(c ∈ s.closed ∨ c ∈ s.blocked) ∧
      Sess.step q s (.op o) = ({ st := Code.next s.st o, closed := s.closed, blocked := s.blocked }, [o])) := by
  cases o with
  | disconnect c' => cases ho
  | subscribe c' k xs =>
    simp only [Op.sender, Option.some.injEq] at ho
    subst ho
    by_cases hcb : c' ∈ s.closed ∨ c' ∈ s.blocked
    · left; simp only [Sess.step, Op.sender, hcb, if_true]
    · right; exact ⟨hcb, by simp only [Sess.step, Op.sender, Op.isPublish, hcb, if_false, Bool.and_false, Bool.false_eq_true]⟩
  | unsubscribe c' k xs =>
    simp only [Op.sender, Option.some.injEq] at ho
    subst ho
    by_cases hcb : c' ∈ s.closed ∨ c' ∈ s.blocked
    · left; simp only [Sess.step, Op.sender, hcb, if_true]
    · right; exact ⟨hcb, by simp only [Sess.step, Op.sender, Op.isPublish, hcb, if_false, Bool.and_false, Bool.false_eq_true]⟩
  | publish c' ch m =>
    simp only [Op.sender, Option.some.injEq] at ho
    subst ho
    by_cases hcb : c' ∈ s.closed ∨ c' ∈ s.blocked
    · left; simp only [Sess.step, Op.sender, hcb, if_true]
    · by_cases hg : (q.gate && subscribed s.st c' && true) = true
      · left; simp only [Sess.step, Op.sender, Op.isPublish, hcb, if_false, hg, if_true]
      · right; exact ⟨hcb, by simp only [Sess.step, Op.sender, Op.isPublish, hcb, if_false, hg, Bool.false_eq_true]⟩

theorem Sess.step_cmd_cases (q : Quirks) (s : Sess) (c : ConnId) (b : Bool) :
    Sess.step q s (.cmd c b) = (s, []) ∨
    ((q.gate && subscribed s.st c) = false ∧
      Sess.step q s (.cmd c b) = ({ st := s.st, closed := s.closed, blocked := sins s.blocked c }, [])) := by
  by_cases hcb : c ∈ s.closed ∨ c ∈ s.blocked
  · left; simp only [Sess.step, hcb, if_true]
  · by_cases hg : (q.gate && subscribed s.st c) = true
    · left; simp only [Sess.step, hcb, if_false, hg, if_true]
    · cases b with
      | false => left; simp only [Sess.step, hcb, if_false, hg, Bool.false_eq_true]
      | true =>
        right
        refine ⟨by simpa using hg, ?_⟩
        simp only [Sess.step, hcb, if_false, hg, if_true, Bool.false_eq_true]

theorem Sess.step_close (q : Quirks) (s : Sess) (c : ConnId) :
    Sess.step q s (.close c) =
      if q.releaseAtClose = true then
        ({ st := unsubscribeAll s.st c, closed := sins s.closed c, blocked := s.blocked }, [.disconnect c])
      else ({ st := s.st, closed := sins s.closed c, blocked := s.blocked }, []) := by
  simp only [Sess.step]

theorem Sess.step_state (q : Quirks) (s : Sess) (lo : LOp) :
    (Sess.step q s lo).1.st = Code.after s.st (Sess.step q s lo).2 := by
  cases lo with
  | op o =>
    cases ho : o.sender with
    | none =>
      cases o with
      | disconnect c => rfl
      | subscribe c k xs => cases ho
      | unsubscribe c k xs => cases ho
      | publish c ch m => cases ho
    | some c =>
      rcases Sess.step_op_cases q s o c ho with h | ⟨_, h⟩ <;> rw [h] <;> rfl
  | close c =>
    rw [Sess.step_close]
    by_cases h : q.releaseAtClose = true
    · rw [if_pos h]; rfl
    · rw [if_neg h]; rfl
  | cmd c b =>
    rcases Sess.step_cmd_cases q s c b with h | ⟨_, h⟩ <;> rw [h] <;> rfl
  | unblock c => rfl

/-- The pub/sub state of a session is the core model's state after the operations it executed. -/
theorem Sess.run_state (q : Quirks) : ∀ (l : List LOp) (s : Sess),
    (Sess.run q s l).1.st = Code.after s.st (Sess.run q s l).2 := by
  intro l
  induction l with
  | nil => intro s; rfl
  | cons lo l ih =>
    intro s
    simp only [Sess.run]
    rw [ih, Code.after_append, ← Sess.step_state]

theorem Sess.run_append (q : Quirks) : ∀ (l1 l2 : List LOp) (s : Sess),
    (Sess.run q s (l1 ++ l2)).1 = (Sess.run q (Sess.run q s l1).1 l2).1 := by
  intro l1
  induction l1 with
  | nil => intro l2 s; rfl
  | cons lo l ih => intro l2 s; simp only [List.cons_append, Sess.run]; exact ih l2 _

theorem Inv.sess_step {q : Quirks} {s : Sess} (h : Inv s.st) (lo : LOp) : Inv (Sess.step q s lo).1.st := by
  rw [Sess.step_state]
  exact h.after _

/-! ### What one step does to a connection that is marked as closing -/

theorem held_sess_step_subset {q : Quirks} {s : Sess} {lo : LOp} {c : ConnId} (hc : c ∈ s.closed)
    (k : Kind) (y : Bytes) (h : y ∈ held (Sess.step q s lo).1.st c k) : y ∈ held s.st c k := by
  cases lo with
  | op o =>
    cases ho : o.sender with
    | none =>
      cases o with
      | disconnect c' =>
        simp only [Sess.step] at h
        rw [held_unsubscribeAll] at h
        split at h
        · cases h
        · exact h
      | subscribe c' k' xs => cases ho
      | unsubscribe c' k' xs => cases ho
      | publish c' ch m => cases ho
    | some c' =>
      rcases Sess.step_op_cases q s o c' ho with h' | ⟨hn, h'⟩
      · rw [h'] at h; exact h
      · rw [h'] at h
        have hne : c' ≠ c := fun e => hn (Or.inl (e ▸ hc))
        have hs : o.subscribesAs c = false := by
          cases o with
          | subscribe c'' k' xs =>
            simp only [Op.sender, Option.some.injEq] at ho
            subst ho
            simp [Op.subscribesAs, hne]
          | unsubscribe c'' k' xs => rfl
          | disconnect c'' => rfl
          | publish c'' ch m => rfl
        exact held_next_subset hs k y h
  | close c' =>
    rw [Sess.step_close] at h
    by_cases hr : q.releaseAtClose = true
    · rw [if_pos hr] at h
      simp only at h
      rw [held_unsubscribeAll] at h
      split at h
      · cases h
      · exact h
    · rw [if_neg hr] at h; exact h
  | cmd c' b =>
    rcases Sess.step_cmd_cases q s c' b with h' | ⟨_, h'⟩ <;> rw [h'] at h <;> exact h
  | unblock c' => exact h

theorem closed_sess_step {q : Quirks} {s : Sess} {lo : LOp} {c : ConnId} (hc : c ∈ s.closed)
    (hlo : lo ≠ .op (.disconnect c)) : c ∈ (Sess.step q s lo).1.closed := by
  cases lo with
  | op o =>
    cases ho : o.sender with
    | none =>
      cases o with
      | disconnect c' =>
        simp only [Sess.step]
        have : c ≠ c' := by
          intro e
          apply hlo
          rw [e]
        exact (mem_srem _ _ _).2 ⟨hc, this⟩
      | subscribe c' k' xs => cases ho
      | unsubscribe c' k' xs => cases ho
      | publish c' ch m => cases ho
    | some c' =>
      rcases Sess.step_op_cases q s o c' ho with h' | ⟨_, h'⟩ <;> rw [h'] <;> exact hc
  | close c' =>
    rw [Sess.step_close]
    by_cases hr : q.releaseAtClose = true
    · rw [if_pos hr]; exact (mem_sins _ _ _).2 (Or.inl hc)
    · rw [if_neg hr]; exact (mem_sins _ _ _).2 (Or.inl hc)
  | cmd c' b =>
    rcases Sess.step_cmd_cases q s c' b with h' | ⟨_, h'⟩ <;> rw [h'] <;> exact hc
  | unblock c' => exact hc

/-- A connection that is marked as closing and holds nothing keeps holding nothing for as long as it
    is not removed, whatever happens. -/
theorem closed_quiet_run (q : Quirks) (c : ConnId) : ∀ (l : List LOp) (s : Sess), Inv s.st → c ∈ s.closed →
    (∀ k, held s.st c k = []) → LOp.op (.disconnect c) ∉ l →
    Inv (Sess.run q s l).1.st ∧ ∀ k, held (Sess.run q s l).1.st c k = [] := by
  intro l
  induction l with
  | nil => intro s hi _ hh _; exact ⟨hi, hh⟩
  | cons lo l ih =>
    intro s hi hc hh hl
    simp only [Sess.run]
    have hlo : lo ≠ .op (.disconnect c) := fun e => hl (e ▸ List.mem_cons_self)
    apply ih _ (hi.sess_step lo) (closed_sess_step hc hlo)
    · intro k
      cases hk : held (Sess.step q s lo).1.st c k with
      | nil => rfl
      | cons y ys =>
        have : y ∈ held s.st c k := held_sess_step_subset hc k y (by rw [hk]; exact List.mem_cons_self)
        rw [hh] at this
        cases this
    · exact fun e => hl (List.mem_cons_of_mem _ e)

/-! ### Subscriber context: a blocked connection holds no subscription -/

theorem subscribed_of_held {st : State} {c : ConnId} {k : Kind} {y : Bytes} (h : y ∈ held st c k) :
    subscribed st c = true := by
  unfold held info at h
  unfold subscribed
  cases ha : aget st.subs c with
  | none => rw [ha] at h; cases k <;> cases h
  | some i => rfl

theorem subscribed_of_delivery {dedup : Bool} {st : State} (hinv : Inv st) {ch : Bytes} {d : Delivery}
    (h : d ∈ publish dedup st ch) : subscribed st d.1 = true := by
  have hm := mem_publish h
  obtain ⟨c, o⟩ := d
  cases o with
  | none =>
    rw [mem_candidates_none, hinv.agree] at hm
    exact subscribed_of_held hm
  | some p =>
    rw [mem_candidates_some hinv, hinv.agree] at hm
    exact subscribed_of_held hm.2

theorem subs_ensure_other {c x : ConnId} (hx : x ≠ c) (st : State) : aget (ensure st c).subs x = aget st.subs x := by
  unfold ensure
  cases aget st.subs c with
  | some _ => rfl
  | none =>
    simp only [subs_withSubs, aget_aset]
    have : ¬ c = x := fun e => hx e.symm
    simp [this]

theorem subs_cleanup_other {c x : ConnId} (hx : x ≠ c) (st : State) : aget (cleanup st c).subs x = aget st.subs x := by
  unfold cleanup
  cases aget st.subs c with
  | none => rfl
  | some _ =>
    simp only
    split
    · simp only [subs_withSubs, aget_adel]
      have : ¬ c = x := fun e => hx e.symm
      simp [this]
    · rfl

/-- A command of connection `c` does not touch the entry of any other connection. -/
theorem subs_next_other {o : Op} {c x : ConnId} (ho : o.sender = some c) (hx : x ≠ c) (st : State) :
    aget (Code.next st o).subs x = aget st.subs x := by
  cases o with
  | subscribe c' k xs =>
    simp only [Op.sender, Option.some.injEq] at ho
    subst ho
    simp only [Code.next, Code.apply, subscribe]
    rw [subs_loop_other (fun st y => subs_sub1_other hx st y), subs_ensure_other hx]
  | unsubscribe c' k xs =>
    simp only [Op.sender, Option.some.injEq] at ho
    subst ho
    simp only [Code.next, Code.apply, unsubscribe]
    cases aget st.subs c' with
    | none => rfl
    | some i =>
      simp only
      rw [subs_cleanup_other hx, subs_loop_other (fun st y => subs_unsub1_other hx st y)]
  | disconnect c' => cases ho
  | publish c' ch m => rfl

theorem subscribed_unsubscribeAll (st : State) (c x : ConnId) (h : subscribed st x = false) :
    subscribed (unsubscribeAll st c) x = false := by
  unfold subscribed at h ⊢
  simp only [unsubscribeAll, aget_adel]
  split
  · rfl
  · exact h

/-- With the gate, whoever is blocked holds no subscription. -/
def BlockedIdle (s : Sess) : Prop := ∀ c ∈ s.blocked, subscribed s.st c = false

theorem BlockedIdle.step {q : Quirks} (hq : q.gate = true) {s : Sess} (h : BlockedIdle s) (lo : LOp) :
    BlockedIdle (Sess.step q s lo).1 := by
  intro x hx
  cases lo with
  | op o =>
    cases ho : o.sender with
    | none =>
      cases o with
      | disconnect c =>
        simp only [Sess.step] at hx ⊢
        exact subscribed_unsubscribeAll _ _ _ (h x ((mem_srem _ _ _).1 hx).1)
      | subscribe c' k' xs => cases ho
      | unsubscribe c' k' xs => cases ho
      | publish c' ch m => cases ho
    | some c =>
      rcases Sess.step_op_cases q s o c ho with h' | ⟨hn, h'⟩
      · rw [h'] at hx ⊢; exact h x hx
      · rw [h'] at hx ⊢
        simp only at hx ⊢
        have hne : x ≠ c := fun e => hn (Or.inr (e ▸ hx))
        unfold subscribed
        rw [subs_next_other ho hne]
        exact h x hx
  | close c =>
    rw [Sess.step_close] at hx ⊢
    by_cases hr : q.releaseAtClose = true
    · rw [if_pos hr] at hx ⊢
      exact subscribed_unsubscribeAll _ _ _ (h x hx)
    · rw [if_neg hr] at hx ⊢
      exact h x hx
  | cmd c b =>
    rcases Sess.step_cmd_cases q s c b with h' | ⟨hg, h'⟩
    · rw [h'] at hx ⊢; exact h x hx
    · rw [h'] at hx ⊢
      simp only at hx ⊢
      rcases (mem_sins _ _ _).1 hx with hx | hx
      · exact h x hx
      · subst hx
        simpa [hq] using hg
  | unblock c =>
    simp only [Sess.step] at hx ⊢
    exact h x ((mem_srem _ _ _).1 hx).1

theorem BlockedIdle.run {q : Quirks} (hq : q.gate = true) : ∀ (l : List LOp) (s : Sess), BlockedIdle s →
    BlockedIdle (Sess.run q s l).1 := by
  intro l
  induction l with
  | nil => intro s h; exact h
  | cons lo l ih => intro s h; simp only [Sess.run]; exact ih _ (h.step hq lo)

theorem Inv.sess_run {q : Quirks} : ∀ (l : List LOp) (s : Sess), Inv s.st → Inv (Sess.run q s l).1.st := by
  intro l
  induction l with
  | nil => intro s h; exact h
  | cons lo l ih => intro s h; simp only [Sess.run]; exact ih _ (h.sess_step lo)

end Ferrous.PubSub
