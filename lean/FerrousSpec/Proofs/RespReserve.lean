import FerrousSpec.Proofs.RespParse
set_option linter.unusedSimpArgs false
set_option linter.unusedVariables false
namespace Ferrous

/-! ## capped container sizing never reserves more than twice the bytes received -/

theorem reserveElemsWith_le (p : Bytes → Res) (rv : Bytes → Nat) (hp : Shrinks p) (B : Nat) :
    ∀ k d, (∀ d', d'.length ≤ d.length → rv d' ≤ B) → reserveElemsWith p rv k d ≤ B := by
  intro k
  induction k with
  | zero => intro d _; simp [reserveElemsWith]
  | succ k ih =>
    intro d h
    unfold reserveElemsWith
    cases hpd : p d with
    | need => exact h d (Nat.le_refl _)
    | err => exact h d (Nat.le_refl _)
    | ok f r =>
      simp only
      have hl := hp d f r hpd
      have h1 := h d (Nat.le_refl _)
      have h2 := ih r (fun d' hd' => h d' (by omega))
      omega

theorem reserveOf_capped_le : ∀ n d, reserveOf true n d ≤ 2 * d.length := by
  intro n
  induction n with
  | zero => intro d; simp [reserveOf]
  | succ n ih =>
    intro d
    cases d with
    | nil => simp [reserveOf]
    | cons t body =>
      have ihs : Shrinks (parseFrame n) := fun d f r h => by have := parseFrame_shrinks n d f r h; omega
      have hel : ∀ k r, r.length ≤ body.length →
          reserveElemsWith (parseFrame n) (reserveOf true n) k r ≤ 2 * (t :: body).length := by
        intro k r hr
        apply reserveElemsWith_le _ _ ihs
        intro d' hd'
        have := ih d'
        simp only [List.length_cons]
        omega
      unfold reserveOf
      simp only [capReq, if_true]
      split
      · cases hs : splitCRLF body with
        | none => simp
        | some lr =>
          obtain ⟨l, r⟩ := lr
          have hr := splitCRLF_length hs
          simp only
          cases hq : parseI64 l with
          | none => simp
          | some v =>
            simp only
            split
            · simp
            · have := hel v.toNat r (by omega)
              simp only [List.length_cons] at this ⊢
              omega
      split
      · cases hs : splitCRLF body with
        | none => simp
        | some lr =>
          obtain ⟨l, r⟩ := lr
          have hr := splitCRLF_length hs
          simp only
          cases hq : parseU64 l with
          | none => simp
          | some v =>
            simp only
            have := hel (2 * v) r (by omega)
            simp only [List.length_cons] at this ⊢
            omega
      split
      · cases hs : splitCRLF body with
        | none => simp
        | some lr =>
          obtain ⟨l, r⟩ := lr
          have hr := splitCRLF_length hs
          simp only
          cases hq : parseU64 l with
          | none => simp
          | some v =>
            simp only
            have := hel v r (by omega)
            simp only [List.length_cons] at this ⊢
            omega
      · simp

/-! ## … nor more than a constant, however much is buffered -/

theorem reserveOf_capped_le_const : ∀ n d, reserveOf true n d ≤ 2 * reserveMax := by
  intro n
  induction n with
  | zero => intro d; simp [reserveOf]
  | succ n ih =>
    intro d
    cases d with
    | nil => simp [reserveOf]
    | cons t body =>
      have ihs : Shrinks (parseFrame n) := fun d f r h => by have := parseFrame_shrinks n d f r h; omega
      have hel : ∀ k r, r.length ≤ body.length →
          reserveElemsWith (parseFrame n) (reserveOf true n) k r ≤ 2 * reserveMax := by
        intro k r hr
        apply reserveElemsWith_le _ _ ihs
        intro d' hd'
        exact ih d'
      unfold reserveOf
      simp only [capReq, if_true]
      split
      · cases hs : splitCRLF body with
        | none => simp
        | some lr =>
          obtain ⟨l, r⟩ := lr
          have hr := splitCRLF_length hs
          simp only
          cases hq : parseI64 l with
          | none => simp
          | some v =>
            simp only
            split
            · simp
            · have := hel v.toNat r (by omega)
              simp only [reserveMax] at this ⊢
              omega
      split
      · cases hs : splitCRLF body with
        | none => simp
        | some lr =>
          obtain ⟨l, r⟩ := lr
          have hr := splitCRLF_length hs
          simp only
          cases hq : parseU64 l with
          | none => simp
          | some v =>
            simp only
            have := hel (2 * v) r (by omega)
            simp only [reserveMax] at this ⊢
            omega
      split
      · cases hs : splitCRLF body with
        | none => simp
        | some lr =>
          obtain ⟨l, r⟩ := lr
          have hr := splitCRLF_length hs
          simp only
          cases hq : parseU64 l with
          | none => simp
          | some v =>
            simp only
            have := hel v r (by omega)
            simp only [reserveMax] at this ⊢
            omega
      · simp


end Ferrous
