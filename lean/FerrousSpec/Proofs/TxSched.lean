/-
  Schedules of the event loop (C07): per-connection projection, invariants, EXEC as one transition,
  transactions that end in DISCARD / disconnect are invisible.
-/
import FerrousSpec.Proofs.TxBasic
set_option linter.unusedSimpArgs false
set_option linter.unusedVariables false
namespace Ferrous.Tx
open Ferrous

/-! ### a frame changes only its own connection's state, and that change is `connStep` -/

theorem exec_conn_other (q : Quirks) (s : Server) (cid j : Nat) (r : Req) (h : j ≠ cid) :
    (exec q s cid r).1.conns j = s.conns j := by
  unfold exec
  simp only []
  repeat' split
  all_goals simp [setConn, h]

theorem processFrame_conn_other (q : Quirks) (s : Server) (cid j : Nat) (r : Req) (h : j ≠ cid) :
    (processFrame q s cid r).1.conns j = s.conns j := by
  unfold processFrame
  simp only []
  split
  · rfl
  · split
    · rfl
    · split
      all_goals (repeat' split)
      all_goals first | rfl | exact exec_conn_other q s cid j r h | simp [setConn, h]

theorem exec_conn_self (q : Quirks) (s : Server) (cid : Nat) (r : Req) :
    (exec q s cid r).1.conns cid =
      (if !(s.conns cid).inTx then s.conns cid
       else if !r.watchOk then cleared (s.conns cid)
       else if (s.conns cid).aborted then cleared (s.conns cid)
       else { cleared (s.conns cid) with db := (s.conns cid).queue.foldl (dbAfter q true) (s.conns cid).db }) := by
  unfold exec
  simp only []
  repeat' split
  all_goals simp_all [setConn, execFold_db]

theorem processFrame_conn_self (q : Quirks) (s : Server) (cid : Nat) (r : Req) :
    (processFrame q s cid r).1.conns cid = connStep q (s.conns cid) r := by
  unfold processFrame connStep
  simp only []
  split
  · rfl
  · split
    · rfl
    · split
      · split <;> simp [setConn]
      · exact exec_conn_self q s cid r
      · split <;> simp [setConn]
      · repeat' split
        all_goals rfl
      · split
        · simp [setConn]
        · simp [setConn, runOne_db]

theorem stepEvent_conn_other (q : Quirks) (s : Server) (e : Event) (j : Nat) (h : e.conn? ≠ some j) :
    (stepEvent q s e).1.conns j = s.conns j := by
  cases e with
  | frame c r =>
    have : j ≠ c := by intro hh; apply h; simp [Event.conn?, hh]
    simp [stepEvent, processFrame_conn_other q s c j r this]
  | disconnect c =>
    have : j ≠ c := by intro hh; apply h; simp [Event.conn?, hh]
    simp [stepEvent, setConn, this]
  | between g => rfl

theorem stepEvent_conn_self (q : Quirks) (s : Server) (e : Event) (j : Nat) (h : e.conn? = some j) :
    (stepEvent q s e).1.conns j = connEvent q (s.conns j) e := by
  cases e with
  | frame c r =>
    simp [Event.conn?] at h; subst h
    simp [stepEvent, connEvent, processFrame_conn_self]
  | disconnect c =>
    simp [Event.conn?] at h; subst h
    simp [stepEvent, connEvent]
  | between g => simp [Event.conn?] at h

/-- For EVERY schedule: the state of connection `cid` (database index, in-transaction flag, queue,
    aborted flag) is the fold of `connEvent` over its own events — the dataset and the frames of all
    other connections play no part. -/
theorem conn_state_is_fold_of_own_events (q : Quirks) (s : Server) (evs : List Event) (cid : Nat) :
    (run q s evs).conns cid = (ownEvents cid evs).foldl (connEvent q) (s.conns cid) := by
  induction evs generalizing s with
  | nil => rfl
  | cons e es ih =>
    rw [run_cons, ih]
    unfold ownEvents
    by_cases h : e.conn? = some cid
    · simp [List.filter_cons, h, stepEvent_conn_self q s e cid h]
    · simp [List.filter_cons, h, stepEvent_conn_other q s e cid h]

/-! ### invariants of the per-connection state -/

/-- what holds of every connection in every reachable state -/
structure ConnOk (q : Quirks) (c : Conn) : Prop where
  notAborted : c.aborted = false
  idleEmpty : c.inTx = false → c.queue = []
  queueOk : ∀ x ∈ c.queue, queueable q x = true

theorem ConnOk_fresh (q : Quirks) : ConnOk q Conn.fresh := ⟨rfl, fun _ => rfl, by simp [Conn.fresh]⟩

theorem ConnOk_cleared (q : Quirks) (c : Conn) : ConnOk q (cleared c) := ⟨rfl, fun _ => rfl, by simp [cleared]⟩

theorem connStep_ok (q : Quirks) (c : Conn) (r : Req) (h : ConnOk q c) : ConnOk q (connStep q c r) := by
  unfold connStep
  split
  · exact h
  · split
    · exact h
    · split
      · split
        · exact h
        · exact ⟨rfl, fun hh => by simp at hh, by simp⟩
      · repeat' split
        all_goals first | exact h | exact ConnOk_cleared q c | exact ⟨rfl, fun _ => rfl, by simp [cleared]⟩
      · split
        · exact h
        · exact ConnOk_cleared q c
      · exact h
      · rename_i hne _ hk
        split
        · rename_i hc
          simp only [Bool.and_eq_true, Bool.not_eq_true'] at hc
          refine ⟨h.notAborted, fun hh => (by have h2 : c.inTx = false := hh; rw [hc.1] at h2; cases h2), ?_⟩
          intro x hx
          simp only [List.mem_append, List.mem_singleton] at hx
          rcases hx with hx | hx
          · exact h.queueOk x hx
          · subst hx
            rw [queueable_iff]
            refine ⟨?_, hk, ?_⟩
            · intro he; simp_all
            · intro hm; have := List.contains_iff_mem.2 hm; simp_all
        · exact ⟨h.notAborted, h.idleEmpty, h.queueOk⟩

theorem connEvent_ok (q : Quirks) (c : Conn) (e : Event) (h : ConnOk q c) : ConnOk q (connEvent q c e) := by
  cases e with
  | frame _ r => exact connStep_ok q c r h
  | disconnect _ => exact ConnOk_fresh q
  | between _ => exact h

theorem run_ok (q : Quirks) (s : Server) (evs : List Event) (h : ∀ j, ConnOk q (s.conns j)) :
    ∀ j, ConnOk q ((run q s evs).conns j) := by
  intro j
  rw [conn_state_is_fold_of_own_events]
  generalize ownEvents j evs = l
  have := h j
  generalize s.conns j = c at this
  induction l generalizing c with
  | nil => exact this
  | cons e es ih => exact ih _ (connEvent_ok q c e this)

/-! ### EXEC is one transition of the loop -/

/-- the dataset EXEC leaves: EXEC's loop over the connection's queue, started on the dataset EXEC found -/
def execResult (q : Quirks) (s : Server) (cid now : Nat) : ExecSt × List Out :=
  execFold q true cid now ⟨s.store, (s.conns cid).db, s.ext⟩ (s.conns cid).queue

theorem exec_runs (q : Quirks) (s : Server) (cid : Nat) (r : Req)
    (hin : (s.conns cid).inTx = true) (hw : r.watchOk = true) (ha : (s.conns cid).aborted = false) :
    (exec q s cid r).1.store = (execResult q s cid r.now).1.store ∧
    (exec q s cid r).1.ext = (execResult q s cid r.now).1.ext ∧
    (exec q s cid r).2 = .exec (execResult q s cid r.now).2 := by
  unfold exec execResult
  simp [hin, hw, ha]

theorem exec_refused (q : Quirks) (s : Server) (cid : Nat) (r : Req) (hin : (s.conns cid).inTx = false) :
    exec q s cid r = (s, .one (.frame KS.err)) := by
  unfold exec; simp [hin]

theorem exec_watch_failed (q : Quirks) (s : Server) (cid : Nat) (r : Req)
    (hin : (s.conns cid).inTx = true) (hw : r.watchOk = false) :
    exec q s cid r = (setConn s cid (cleared (s.conns cid)), .one (.frame .nullArray)) := by
  unfold exec; simp [hin, hw]

theorem trace_getElem (q : Quirks) (s : Server) (evs : List Event) (p : Nat) (e : Event) (h : evs[p]? = some e) :
    (trace q s evs)[p]? = some (stepEvent q (run q s (evs.take p)) e).2 := by
  induction evs generalizing s p with
  | nil => simp at h
  | cons x xs ih =>
    cases p with
    | zero => simp at h; subst h; simp [trace, run_nil]
    | succ p =>
      simp at h
      simp [trace, run_cons, ih _ _ h]

/-! ### the store changes only through EXEC, direct commands and loop work -/

theorem processFrame_store_inTx (q : Quirks) (s : Server) (cid : Nat) (r : Req)
    (hin : (s.conns cid).inTx = true) (hne : nameOf r.cmd ≠ "EXEC") (himm : nameOf r.cmd ∉ q.immediate) :
    (processFrame q s cid r).1.store = s.store ∧ (processFrame q s cid r).1.ext = s.ext := by
  unfold processFrame
  simp only []
  split
  · exact ⟨rfl, rfl⟩
  · split
    · exact ⟨rfl, rfl⟩
    · split
      · first | exact ⟨rfl, rfl⟩ | (split <;> exact ⟨rfl, rfl⟩)
      · rename_i hk; exact absurd ((kindOf_exec _).1 hk) hne
      · first | exact ⟨rfl, rfl⟩ | (split <;> exact ⟨rfl, rfl⟩)
      · first | exact ⟨rfl, rfl⟩ | (repeat' split
                                    all_goals exact ⟨rfl, rfl⟩)
      · simp [hin, himm]

/-! ### erasing a connection whose frames never reach the dataset

`Agree cid a b`: the two servers are the same except for the state of connection `cid`. -/

def Agree (cid : Nat) (a b : Server) : Prop :=
  a.store = b.store ∧ a.ext = b.ext ∧ ∀ j, j ≠ cid → a.conns j = b.conns j

theorem Agree.refl (cid : Nat) (a : Server) : Agree cid a a := ⟨rfl, rfl, fun _ _ => rfl⟩

/-- a frame of another connection does the same thing on two servers that agree outside `cid` -/
theorem processFrame_agree (q : Quirks) (a b : Server) (cid d : Nat) (r : Req) (hd : d ≠ cid) (h : Agree cid a b) :
    Agree cid (processFrame q a d r).1 (processFrame q b d r).1 ∧ (processFrame q a d r).2 = (processFrame q b d r).2 := by
  obtain ⟨h1, h2, h3⟩ := h
  have hc : a.conns d = b.conns d := h3 d hd
  have key : ∀ (x y : Server × Reply), x.1.store = y.1.store → x.1.ext = y.1.ext → x.1.conns d = y.1.conns d →
      x.2 = y.2 → (∀ j, j ≠ d → x.1.conns j = a.conns j) → (∀ j, j ≠ d → y.1.conns j = b.conns j) →
      Agree cid x.1 y.1 ∧ x.2 = y.2 := by
    intro x y e1 e2 e3 e4 e5 e6
    refine ⟨⟨e1, e2, ?_⟩, e4⟩
    intro j hj
    by_cases hjd : j = d
    · subst hjd; exact e3
    · rw [e5 j hjd, e6 j hjd]; exact h3 j hj
  apply key
  · unfold processFrame exec; simp only [hc, h1, h2]
    repeat' split
    all_goals simp_all [setConn]
  · unfold processFrame exec; simp only [hc, h1, h2]
    repeat' split
    all_goals simp_all [setConn]
  · rw [processFrame_conn_self, processFrame_conn_self, hc]
  · unfold processFrame exec; simp only [hc, h1, h2]
    repeat' split
    all_goals simp_all [setConn]
  · intro j hj; exact processFrame_conn_other q a d j r hj
  · intro j hj; exact processFrame_conn_other q b d j r hj

theorem stepEvent_agree (q : Quirks) (a b : Server) (cid : Nat) (e : Event) (he : e.conn? ≠ some cid) (h : Agree cid a b) :
    Agree cid (stepEvent q a e).1 (stepEvent q b e).1 ∧ (stepEvent q a e).2 = (stepEvent q b e).2 := by
  cases e with
  | frame d r =>
    have hd : d ≠ cid := by intro hh; apply he; simp [Event.conn?, hh]
    have := processFrame_agree q a b cid d r hd h
    exact ⟨this.1, by simp [stepEvent, this.2]⟩
  | disconnect d =>
    have hd : d ≠ cid := by intro hh; apply he; simp [Event.conn?, hh]
    obtain ⟨h1, h2, h3⟩ := h
    refine ⟨⟨h1, h2, ?_⟩, rfl⟩
    intro j hj
    by_cases hjd : j = d
    · subst hjd; simp [stepEvent]
    · simp [stepEvent, setConn, hjd, h3 j hj]
  | between g =>
    obtain ⟨h1, h2, h3⟩ := h
    exact ⟨⟨by simp [stepEvent, h1], h2, h3⟩, rfl⟩

/-- an event of `cid` is *silent* in state `s` when it leaves dataset and hand-over log alone -/
def Silent (q : Quirks) (s : Server) (e : Event) : Prop :=
  (stepEvent q s e).1.store = s.store ∧ (stepEvent q s e).1.ext = s.ext

theorem stepEvent_silent_agree (q : Quirks) (a b : Server) (cid : Nat) (e : Event) (he : e.conn? = some cid)
    (hs : Silent q a e) (h : Agree cid a b) : Agree cid (stepEvent q a e).1 b := by
  obtain ⟨h1, h2, h3⟩ := h
  refine ⟨hs.1.trans h1, hs.2.trans h2, ?_⟩
  intro j hj
  rw [stepEvent_conn_other q a e j (by rw [he]; intro hh; exact hj (Option.some.inj hh).symm)]
  exact h3 j hj

/-- a frame that cannot reach the dataset given the connection's state `c`: an empty frame, MULTI,
    DISCARD, WATCH, an EXEC that is refused / fails its WATCH check, or a queueable command
    while in a transaction -/
def quietFrame (q : Quirks) (c : Conn) (r : Req) : Bool :=
  r.cmd.isEmpty ||
  (match kindOf (nameOf r.cmd) with
   | .multi => true
   | .discard => true
   | .watch => true
   | .exec => !c.inTx || !r.watchOk || c.aborted
   | .other => c.inTx && !q.immediate.contains (nameOf r.cmd))

theorem quietFrame_silent (q : Quirks) (s : Server) (cid : Nat) (r : Req) (h : quietFrame q (s.conns cid) r = true) :
    (processFrame q s cid r).1.store = s.store ∧ (processFrame q s cid r).1.ext = s.ext := by
  unfold quietFrame at h
  unfold processFrame exec
  simp only []
  split
  · exact ⟨rfl, rfl⟩
  · rename_i hne
    simp only [hne, Bool.false_or] at h
    split
    · exact ⟨rfl, rfl⟩
    · split <;> rename_i hk <;> simp only [hk] at h
      · first | exact ⟨rfl, rfl⟩ | (split <;> exact ⟨rfl, rfl⟩)
      · simp only [Bool.or_eq_true, Bool.not_eq_true'] at h
        repeat' split
        all_goals first | exact ⟨rfl, rfl⟩ | simp_all
      · first | exact ⟨rfl, rfl⟩ | (split <;> exact ⟨rfl, rfl⟩)
      · first | exact ⟨rfl, rfl⟩ | (repeat' split
                                    all_goals exact ⟨rfl, rfl⟩)
      · simp only [Bool.and_eq_true, Bool.not_eq_true'] at h
        have hm : nameOf r.cmd ∉ q.immediate := by
          intro hm; have := List.contains_iff_mem.2 hm; simp_all
        simp [h.1, hm]

/-- the connection's own events, followed from its state `c`, never reach the dataset -/
def QuietRun (q : Quirks) : Conn → List Event → Prop
  | _, [] => True
  | c, e :: es =>
    (match e with
     | .frame _ r => quietFrame q c r = true
     | _ => True) ∧ QuietRun q (connEvent q c e) es

/-- replies sent to the connections other than `cid`, computed along the FULL schedule -/
def repliesToOthers (q : Quirks) (cid : Nat) : Server → List Event → List (Option Reply)
  | _, [] => []
  | s, e :: es =>
    if e.conn? == some cid then repliesToOthers q cid (stepEvent q s e).1 es
    else (stepEvent q s e).2 :: repliesToOthers q cid (stepEvent q s e).1 es

theorem quiet_erase (q : Quirks) (cid : Nat) (evs : List Event) (a b : Server) (h : Agree cid a b)
    (hq : QuietRun q (a.conns cid) (ownEvents cid evs)) :
    Agree cid (run q a evs) (run q b (otherEvents cid evs)) ∧
    repliesToOthers q cid a evs = trace q b (otherEvents cid evs) := by
  induction evs generalizing a b with
  | nil => exact ⟨h, rfl⟩
  | cons e es ih =>
    by_cases he : e.conn? = some cid
    · -- an event of `cid`: silent, erased on the right
      have hown : ownEvents cid (e :: es) = e :: ownEvents cid es := by simp [ownEvents, List.filter_cons, he]
      have hoth : otherEvents cid (e :: es) = otherEvents cid es := by simp [otherEvents, List.filter_cons, he]
      rw [hown] at hq
      obtain ⟨hq1, hq2⟩ := hq
      have hsil : Silent q a e := by
        cases e with
        | frame c r =>
          simp [Event.conn?] at he; subst he
          exact quietFrame_silent q a c r hq1
        | disconnect c => exact ⟨rfl, rfl⟩
        | between g => simp [Event.conn?] at he
      have hag := stepEvent_silent_agree q a b cid e he hsil h
      rw [← stepEvent_conn_self q a e cid he] at hq2
      have := ih _ _ hag hq2
      rw [run_cons, hoth]
      refine ⟨this.1, ?_⟩
      simp only [repliesToOthers, he, beq_self_eq_true, if_true]
      exact this.2
    · have hown : ownEvents cid (e :: es) = ownEvents cid es := by simp [ownEvents, List.filter_cons, he]
      have hoth : otherEvents cid (e :: es) = e :: otherEvents cid es := by simp [otherEvents, List.filter_cons, he]
      rw [hown] at hq
      have hst := stepEvent_agree q a b cid e he h
      rw [← stepEvent_conn_other q a e cid he] at hq
      have := ih _ _ hst.1 hq
      rw [run_cons, hoth, run_cons]
      refine ⟨this.1, ?_⟩
      have hne : (e.conn? == some cid) = false := by simp [he]
      simp only [repliesToOthers, hne, trace, hst.2, this.2]
      simp

/-- MULTI, then any queueable commands, are quiet, and leave the connection in a transaction -/
theorem quietRun_queueing (q : Quirks) (cid now : Nat) (cmds : List Cmd) (c : Conn) (tail : List Event)
    (hin : c.inTx = true) (hc : ∀ x ∈ cmds, queueable q x = true)
    (ht : ∀ c' : Conn, c'.inTx = true → QuietRun q c' tail) :
    QuietRun q c (framesOf cid now cmds ++ tail) := by
  induction cmds generalizing c with
  | nil => exact ht c hin
  | cons x xs ih =>
    have hx := (queueable_iff q x).1 (hc x (by simp))
    have hne : x.isEmpty = false := by cases x <;> simp_all
    have himm : q.immediate.contains (nameOf x) = false := by
      cases hcc : q.immediate.contains (nameOf x)
      · rfl
      · exact absurd (List.contains_iff_mem.1 hcc) hx.2.2
    simp only [framesOf, List.map_cons, List.cons_append, QuietRun]
    refine ⟨by simp [quietFrame, hne, hx.2.1, hin, himm, hx.2.2], ?_⟩
    apply ih
    · simp [connEvent, connStep, hne, hx.2.1, hin, himm, hx.2.2, badArity_other q x hx.2.1]
    · intro y hy; exact hc y (by simp [hy])

/-- queueable commands sent while in a transaction only extend the queue, in order -/
theorem fold_queueing (q : Quirks) (cid now : Nat) (cmds : List Cmd) (c : Conn)
    (hin : c.inTx = true) (hc : ∀ x ∈ cmds, queueable q x = true) :
    (framesOf cid now cmds).foldl (connEvent q) c = { c with queue := c.queue ++ cmds } := by
  induction cmds generalizing c with
  | nil => simp [framesOf]
  | cons x xs ih =>
    have hx := (queueable_iff q x).1 (hc x (by simp))
    have hne : x.isEmpty = false := by cases x <;> simp_all
    have hstep : connEvent q c (.frame cid { cmd := x, now := now }) = { c with queue := c.queue ++ [x] } := by
      simp [connEvent, connStep, hne, hx.2.1, hin, hx.2.2, badArity_other q x hx.2.1]
    simp only [framesOf, List.map_cons, List.foldl_cons]
    rw [hstep]
    have := ih { c with queue := c.queue ++ [x] } hin (fun y hy => hc y (by simp [hy]))
    simp only [framesOf] at this
    rw [this]
    simp

end Ferrous.Tx
