/-
  C04 helper lemmas (4): laws of the Spec queries, and refinement of the Code queries
  (`get_score`, `get_rank`, `range_by_score`, engine `zrange`) to them on well-formed lists.
-/
import FerrousSpec.Proofs.ZSetInv
import FerrousSpec.Proofs.ZSetIndex
namespace Ferrous.ZSet
open Ferrous Code

abbrev SSorted (z : Spec.ZSet) : Prop := z.Pairwise (fun a b => entLt a b = true)

theorem insSorted_perm {α : Type} (lt : α → α → Bool) (x : α) (l : List α) :
    (insSorted lt x l).Perm (x :: l) := by
  induction l with
  | nil => exact List.Perm.refl _
  | cons y ys ih =>
    unfold insSorted
    split
    · exact (ih.cons y).trans (List.Perm.swap x y ys)
    · exact List.Perm.refl _

theorem eq_of_pairwise_key {α β : Type} {R : α → α → Prop} {key : α → β} {l : List α}
    (h : l.Pairwise R) (hk : ∀ x y, R x y → key x ≠ key y) {a b : α}
    (ha : a ∈ l) (hb : b ∈ l) (e : key a = key b) : a = b := by
  induction l with
  | nil => simp at ha
  | cons p ps ih =>
    rw [List.pairwise_cons] at h
    rcases List.mem_cons.mp ha with ha' | ha' <;> rcases List.mem_cons.mp hb with hb' | hb'
    · rw [ha', hb']
    · rw [ha'] at e; exact absurd e (hk _ _ (h.1 _ hb'))
    · rw [hb'] at e; exact absurd e.symm (hk _ _ (h.1 _ ha'))
    · exact ih h.2 ha' hb'

namespace Spec

theorem mem_zrem {m : Bytes} {z : ZSet} {e : Entry} : e ∈ zrem m z ↔ e ∈ z ∧ e.2 ≠ m := by
  simp [zrem]

theorem mem_zadd {m : Bytes} {s : Score} {z : ZSet} {e : Entry} :
    e ∈ zadd m s z ↔ e = (s, m) ∨ (e ∈ z ∧ e.2 ≠ m) := by
  simp [zadd, mem_insSorted, mem_zrem]

theorem wf_unique {z : ZSet} (h : WF z) {m : Bytes} {a b : Score}
    (ha : (a, m) ∈ z) (hb : (b, m) ∈ z) : a = b := by
  have hp : z.Pairwise (fun x y => x.2 ≠ y.2) := List.pairwise_map.mp h.2
  have := eq_of_pairwise_key (key := Prod.snd) hp (fun _ _ hxy => hxy) ha hb rfl
  exact (Prod.mk.inj this).1

theorem wf_nil : WF [] := ⟨List.Pairwise.nil, List.nodup_nil⟩

theorem wf_zrem {z : ZSet} (h : WF z) (m : Bytes) : WF (zrem m z) :=
  ⟨h.1.filter _, h.2.sublist (List.filter_sublist.map _)⟩

theorem wf_zadd {z : ZSet} (h : WF z) (m : Bytes) (s : Score) : WF (zadd m s z) := by
  have hr := wf_zrem h m
  constructor
  · apply pairwise_insSorted entLt_strictTotal.trans hr.1
    intro y hy hlt
    have hne : y ≠ (s, m) := fun e => (mem_zrem.mp hy).2 (by rw [e])
    cases h2 : entLt (s, m) y
    · exact absurd (entLt_strictTotal.total _ _ hlt h2) hne
    · rfl
  · have hp : ((zadd m s z).map Prod.snd).Perm (m :: (zrem m z).map Prod.snd) :=
      (insSorted_perm entLt (s, m) (zrem m z)).map Prod.snd
    rw [hp.nodup_iff, List.nodup_cons]
    refine ⟨?_, hr.2⟩
    intro hm
    rcases List.mem_map.mp hm with ⟨e, he, hem⟩
    exact (mem_zrem.mp he).2 hem

theorem zscore_some_mem {z : ZSet} {m : Bytes} {s : Score} (h : zscore m z = some s) : (s, m) ∈ z := by
  unfold zscore at h
  cases hf : z.find? (fun e => e.2 == m) with
  | none => simp [hf] at h
  | some p =>
    simp [hf] at h
    have hp := List.find?_some hf
    have hm := List.mem_of_find?_eq_some hf
    simp at hp
    rw [← h, ← hp]
    exact hm

theorem zscore_eq_none {z : ZSet} {m : Bytes} : zscore m z = none ↔ ∀ s, (s, m) ∉ z := by
  unfold zscore
  simp only [Option.map_eq_none_iff, List.find?_eq_none]
  constructor
  · intro h s hm
    exact h _ hm (by simp)
  · intro h p hp
    simp only [beq_iff_eq]
    intro e
    apply h p.1
    rw [← e]
    exact hp

/-- ZSCORE answers the score stored with the member (and nothing for a non-member). -/
theorem zscore_eq_some {z : ZSet} (h : WF z) {m : Bytes} {s : Score} :
    zscore m z = some s ↔ (s, m) ∈ z := by
  constructor
  · exact zscore_some_mem
  · intro hmem
    cases hg : zscore m z with
    | none => exact absurd hmem (zscore_eq_none.mp hg s)
    | some s' => rw [wf_unique h (zscore_some_mem hg) hmem]

/-- Position of an entry in a strictly sorted list = number of smaller entries;
    what follows it = the larger entries. -/
theorem count_of_decomp {l1 l2 : ZSet} {q : Entry} (h : SSorted (l1 ++ q :: l2)) :
    (l1 ++ q :: l2).countP (fun e => entLt e q) = l1.length ∧
    (l1 ++ q :: l2).countP (fun e => entLt q e) = l2.length := by
  have hp := List.pairwise_append.mp h
  have hq := List.pairwise_cons.mp hp.2.1
  have st := entLt_strictTotal
  constructor
  · rw [List.countP_append, List.countP_eq_length.mpr, List.countP_eq_zero.mpr]
    · simp
    · intro a ha
      rcases List.mem_cons.mp ha with rfl | ha
      · simp [st.irrefl]
      · simp [st.asymm (hq.1 a ha)]
    · intro a ha
      exact hp.2.2 a ha q List.mem_cons_self
  · rw [List.countP_append, List.countP_eq_zero.mpr, List.countP_cons_of_neg, List.countP_eq_length.mpr]
    · simp
    · intro a ha
      exact hq.1 a ha
    · simp [st.irrefl]
    · intro a ha
      simp [st.asymm (hp.2.2 a ha q List.mem_cons_self)]

theorem zrank_decomp {z : ZSet} (h : WF z) {m : Bytes} {s : Score} (hm : (s, m) ∈ z) :
    ∃ l1 l2, z = l1 ++ (s, m) :: l2 ∧ zrank m z = some l1.length ∧ zrevrank m z = some l2.length := by
  obtain ⟨l1, l2, rfl⟩ := List.append_of_mem hm
  have hs := (zscore_eq_some h).mpr hm
  have hc := count_of_decomp h.1
  refine ⟨l1, l2, rfl, ?_, ?_⟩
  · rw [zrank, hs, Option.map_some, hc.1]
  · rw [zrevrank, hs, Option.map_some, hc.2]

theorem rangeIdx_zero_neg_one (len : Nat) (h : 0 < len) : rangeIdx len 0 (-1) = some (0, len - 1) := by
  unfold rangeIdx
  simp only
  repeat' split
  all_goals first
    | omega
    | (simp only [Option.some.injEq, Prod.mk.injEq, reduceCtorEq]; omega)

theorem zrange_all (z : ZSet) : zrange z 0 (-1) = z := by
  unfold zrange
  cases z with
  | nil => simp [rangeIdx]
  | cons e r =>
    rw [rangeIdx_zero_neg_one _ (by simp)]
    exact slice_full _ (by simp)

end Spec

/-! ### Code queries on a well-formed list -/

theorem abs_wf {sl : SkipList} (h : Inv sl) : Spec.WF (abs sl) := by
  have hl := level0_eq_lift_abs h
  have hs : SSorted (abs sl) := by
    have := h.sorted0
    rw [hl, CSorted, List.pairwise_map] at this
    simpa using this
  refine ⟨hs, ?_⟩
  rw [List.Nodup, List.pairwise_map]
  apply hs.imp_of_mem
  intro a b ha hb hlt e
  have ha' : (CScore.num a.1, a.2) ∈ level0 sl := by
    rw [hl]; exact List.mem_map.mpr ⟨a, ha, rfl⟩
  have hb' : (CScore.num b.1, a.2) ∈ level0 sl := by
    rw [hl, e]; exact List.mem_map.mpr ⟨b, hb, rfl⟩
  have := h.member_unique ha' hb'
  have hab : a = b := Prod.ext (CScore.num.inj this) e
  rw [hab, entLt_strictTotal.irrefl] at hlt
  exact Bool.noConfusion hlt

theorem mem_level0_iff {sl : SkipList} (h : Inv sl) {s : Score} {m : Bytes} :
    (CScore.num s, m) ∈ level0 sl ↔ (s, m) ∈ abs sl := by
  rw [level0_eq_lift_abs h, List.mem_map]
  constructor
  · rintro ⟨e, he, hl⟩
    have : e = (s, m) := by
      simp only [lift, Prod.mk.injEq, CScore.num.injEq] at hl
      exact Prod.ext hl.1 hl.2
    exact this ▸ he
  · intro hm
    exact ⟨(s, m), hm, rfl⟩

/-- `get_score` (the key index) agrees with the chain. -/
theorem getScore_refines {sl : SkipList} (h : Inv sl) (m : Bytes) :
    getScore m sl = (Spec.zscore m (abs sl)).map CScore.num := by
  unfold getScore
  cases hz : Spec.zscore m (abs sl) with
  | none =>
    simp only [Option.map_none]
    apply idxGet_eq_none.mpr
    intro sc hsc
    have hl := (h.idxMap m sc).mp hsc
    cases sc with
    | nan => exact h.noNaN _ hl rfl
    | num s => exact Spec.zscore_eq_none.mp hz s ((mem_level0_iff h).mp hl)
  | some s =>
    simp only [Option.map_some]
    apply (idxGet_eq_some h.idxSorted).mpr
    apply (h.idxMap m _).mpr
    exact (mem_level0_iff h).mpr (Spec.zscore_some_mem hz)

theorem rankWalk_eq {q : CEntry} : ∀ {l : List CEntry} (r : Nat), CSorted l → q ∈ l →
    rankWalk centLt (fun a b => decide (a = b)) q l r = some (r + l.countP (fun e => centLt e q))
  | [], _, _, h => by simp at h
  | y :: ys, r, hs, h => by
    have hp := List.pairwise_cons.mp hs
    unfold rankWalk
    split
    · rename_i hlt
      have hq : q ∈ ys := by
        rcases List.mem_cons.mp h with e | h
        · exact absurd e.symm (centLt_strictTotal.ne hlt)
        · exact h
      rw [rankWalk_eq (r + 1) hp.2 hq, List.countP_cons_of_pos (p := fun e => centLt e q) hlt]
      congr 1
      omega
    · rename_i hnlt
      have hyq : y = q := by
        rcases List.mem_cons.mp h with e | h
        · exact e.symm
        · exact absurd (hp.1 q h) hnlt
      subst hyq
      have : ys.countP (fun e => centLt e y) = 0 := by
        apply List.countP_eq_zero.mpr
        intro a ha
        simp [centLt_strictTotal.asymm (hp.1 a ha)]
      rw [List.countP_cons_of_neg (p := fun e => centLt e y) (by simpa using hnlt), this]
      simp

theorem rankWalk_congr {lt lt' eq eq' : CEntry → CEntry → Bool} {q : CEntry} : ∀ {l : List CEntry} (r : Nat),
    (∀ y ∈ l, lt y q = lt' y q ∧ eq y q = eq' y q) → rankWalk lt eq q l r = rankWalk lt' eq' q l r
  | [], _, _ => rfl
  | y :: ys, r, h => by
    simp only [rankWalk, (h y List.mem_cons_self).1, (h y List.mem_cons_self).2,
      rankWalk_congr (r + 1) (fun z hz => h z (List.mem_cons_of_mem _ hz))]

/-- `get_rank` = number of entries below the member in the prescribed order. -/
theorem getRank_refines {sl : SkipList} (h : Inv sl) (m : Bytes) :
    getRank m sl = Spec.zrank m (abs sl) := by
  have hg := getScore_refines h m
  unfold getScore at hg
  unfold getRank Spec.zrank
  rw [hg]
  cases hz : Spec.zscore m (abs sl) with
  | none => rfl
  | some s =>
    simp only [Option.map_some]
    have hm : (CScore.num s, m) ∈ level0 sl := (mem_level0_iff h).mpr (Spec.zscore_some_mem hz)
    rw [rankWalk_congr (lt' := centLt) (eq' := fun a b => decide (a = b)) 0
        (fun y hy => ⟨ccmp_eq_cent (h.only_member hm y hy), ccmpEq_eq (h.only_member hm y hy)⟩),
      rankWalk_eq 0 h.sorted0 hm, level0_eq_lift_abs h, List.countP_map]
    simp only [Nat.zero_add, Option.some.injEq]
    apply List.countP_congr
    intro e _
    show centLt (lift e) (lift (s, m)) = true ↔ entLt e (s, m) = true
    rw [centLt_lift]

/-! `range_by_score` on a list sorted by score is the filter -/

theorem takeWhile_le_eq_filter (hi : Score) : ∀ {z : Spec.ZSet}, z.Pairwise (fun a b => a.1.le b.1 = true) →
    z.takeWhile (fun e => e.1.le hi) = z.filter (fun e => e.1.le hi)
  | [], _ => rfl
  | e :: r, hs => by
    have hp := List.pairwise_cons.mp hs
    by_cases he : e.1.le hi = true
    · rw [List.takeWhile_cons_of_pos (p := fun e : Entry => e.1.le hi) he, List.filter_cons_of_pos (p := fun e : Entry => e.1.le hi) he, takeWhile_le_eq_filter hi hp.2]
    · rw [List.takeWhile_cons_of_neg (p := fun e : Entry => e.1.le hi) he, List.filter_cons_of_neg (p := fun e : Entry => e.1.le hi) he]
      symm
      apply List.filter_eq_nil_iff.mpr
      intro a ha hah
      exact he (Score.le_trans (hp.1 a ha) hah)

theorem dropTake_eq_filter (lo hi : Score) : ∀ {z : Spec.ZSet}, z.Pairwise (fun a b => a.1.le b.1 = true) →
    (z.dropWhile (fun e => e.1.lt lo)).takeWhile (fun e => e.1.le hi) =
      z.filter (fun e => lo.le e.1 && e.1.le hi)
  | [], _ => rfl
  | e :: r, hs => by
    have hp := List.pairwise_cons.mp hs
    by_cases he : e.1.lt lo = true
    · have hne : (lo.le e.1 && e.1.le hi) = false := by simp [Score.le, he]
      rw [List.dropWhile_cons_of_pos (p := fun e : Entry => e.1.lt lo) he, List.filter_cons_of_neg (p := fun e : Entry => lo.le e.1 && e.1.le hi) (by simp [hne]), dropTake_eq_filter lo hi hp.2]
    · rw [List.dropWhile_cons_of_neg (p := fun e : Entry => e.1.lt lo) he, takeWhile_le_eq_filter hi hs]
      apply List.filter_congr
      intro a ha
      have hlo : lo.le e.1 = true := by simpa [Score.le] using he
      have : lo.le a.1 = true := by
        rcases List.mem_cons.mp ha with rfl | ha
        · exact hlo
        · exact Score.le_trans hlo (hp.1 a ha)
      simp [this]

theorem ssorted_scores {z : Spec.ZSet} (h : SSorted z) : z.Pairwise (fun a b => a.1.le b.1 = true) := by
  apply h.imp
  intro a b hlt
  simp only [entLt, Bool.or_eq_true, Bool.and_eq_true] at hlt
  rcases hlt with hlt | ⟨e, _⟩
  · exact Score.le_of_lt hlt
  · exact Score.le_of_eqv e

theorem rangeByScore_refines {sl : SkipList} (h : Inv sl) (lo hi : Score) :
    rangeByScore (.num lo) (.num hi) sl = (Spec.zrangebyscore (abs sl) lo hi).map lift := by
  unfold rangeByScore Spec.zrangebyscore
  rw [level0_eq_lift_abs h, ← dropTake_eq_filter lo hi (ssorted_scores (abs_wf h).1),
    List.dropWhile_map, List.takeWhile_map]
  rfl

/-! ### Engine level -/

/-- What is stored under a key is a well-formed, non-empty skip list. -/
def KeyInv (k : ZKey) : Prop := ∀ sl, k = some sl → Inv sl ∧ level0 sl ≠ []

def absKey : ZKey → Spec.ZSet
  | none => []
  | some sl => abs sl

theorem slice_map {α β : Type} (f : α → β) (l : List α) (a b : Nat) :
    slice (l.map f) a b = (slice l a b).map f := by
  simp [slice, List.map_take, List.map_drop]

theorem abs_length {sl : SkipList} (h : Inv sl) : (abs sl).length = sl.length := by
  rw [h.len, level0_eq_lift_abs h, List.length_map]

theorem spec_zrange_nil (start stop : Int) : Spec.zrange [] start stop = [] ∧ Spec.zrevrange [] start stop = [] := by
  have : Spec.rangeIdx 0 start stop = none := by
    cases hr : Spec.rangeIdx 0 start stop with
    | none => rfl
    | some p => have := rangeIdx_wf (a := p.1) (b := p.2) hr; omega
  simp [Spec.zrange, Spec.zrevrange, this]

/-- Engine `zrange` (forward and reverse) against Redis' rule, given the index refinement. -/
theorem zrange_refines_of {sl : SkipList} (h : Inv sl) (fixed rev : Bool) (start stop : Int)
    (hidx : 0 < sl.length → normIv sl.length (zrangeIdx fixed rev sl.length start stop) =
      if rev then (Spec.rangeIdx sl.length start stop).map (flipIv sl.length) else Spec.rangeIdx sl.length start stop) :
    Code.zrange fixed start stop rev (some sl) =
      ((if rev then Spec.zrevrange (abs sl) start stop else Spec.zrange (abs sl) start stop)).map lift := by
  have hlen := abs_length h
  unfold Code.zrange
  by_cases h0 : sl.length = 0
  · have hz : abs sl = [] := List.eq_nil_of_length_eq_zero (hlen.trans h0)
    simp [h0, hz, spec_zrange_nil]
  · have hpos : 0 < sl.length := Nat.pos_of_ne_zero h0
    have hidx := hidx hpos
    simp only [beq_iff_eq, h0, if_false]
    have key : (match zrangeIdx fixed rev sl.length start stop with
        | none => ([] : List CEntry)
        | some (a, b) => if rev = true then (rangeByRank a b sl).reverse else rangeByRank a b sl) =
        (match normIv sl.length (zrangeIdx fixed rev sl.length start stop) with
        | none => ([] : List CEntry)
        | some (a, b) => if rev = true then (slice (level0 sl) a b).reverse else slice (level0 sl) a b) := by
      cases hz : zrangeIdx fixed rev sl.length start stop with
      | none => simp [normIv]
      | some p =>
        obtain ⟨a, b⟩ := p
        simp only
        rw [rangeByRank_norm sl h.len a b]
        cases hn : normIv sl.length (some (a, b)) with
        | none => simp
        | some p' => rfl
    refine key.trans ?_
    rw [hidx, level0_eq_lift_abs h]
    cases rev with
    | false =>
      simp only [Bool.false_eq_true, if_false, Spec.zrange, hlen]
      cases hr : Spec.rangeIdx sl.length start stop with
      | none => rfl
      | some p => obtain ⟨a, b⟩ := p; simp only [slice_map]
    | true =>
      simp only [if_true, Spec.zrevrange, hlen]
      cases hr : Spec.rangeIdx sl.length start stop with
      | none => rfl
      | some p =>
        obtain ⟨a, b⟩ := p
        have hw := rangeIdx_wf hr
        simp only [Option.map_some, flipIv, slice_map]
        rw [slice_reverse (abs sl) hw.1 (by rw [hlen]; exact hw.2), hlen, List.map_reverse]

end Ferrous.ZSet
