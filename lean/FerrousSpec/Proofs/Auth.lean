/-
  Helper lemmas for C17: the connection table, `handle_auth`, one frame, pipelines, histories.
-/
import FerrousSpec.Model.Auth
namespace Ferrous.Auth
open Ferrous

/-! ### The connection table -/

theorem stateOf_setState_self (cs : List Conn) (c : Nat) (st : CState) :
    stateOf (setState cs c st) c = (stateOf cs c).map fun _ => st := by
  induction cs with
  | nil => rfl
  | cons x t ih =>
    by_cases hx : x.id = c
    · simp [setState, stateOf, hx]
    · simp [setState, stateOf, hx, ih]

theorem stateOf_setState_other (cs : List Conn) (c b : Nat) (st : CState) (hb : b ≠ c) :
    stateOf (setState cs c st) b = stateOf cs b := by
  induction cs with
  | nil => rfl
  | cons x t ih =>
    by_cases hx : x.id = c
    · have hxb : ¬ x.id = b := fun h => hb (h ▸ hx)
      rw [setState, if_pos hx, stateOf, if_neg hxb]
      exact (if_neg hxb).symm
    · rw [setState, if_neg hx, stateOf, stateOf, ih]

theorem stateOf_removeConn (cs : List Conn) (c b : Nat) :
    stateOf (removeConn cs c) b = if b = c then none else stateOf cs b := by
  induction cs with
  | nil => simp [removeConn, stateOf]
  | cons x t ih =>
    by_cases hx : x.id = c
    · rw [removeConn, if_pos hx, ih]
      by_cases hb : b = c
      · rw [if_pos hb, if_pos hb]
      · have hxb : ¬ x.id = b := fun h => hb (h ▸ hx)
        rw [if_neg hb, if_neg hb, stateOf, if_neg hxb]
    · rw [removeConn, if_neg hx, stateOf, ih]
      by_cases hxb : x.id = b
      · have hb : ¬ b = c := fun h => hx (hxb ▸ h)
        rw [if_pos hxb, if_neg hb, stateOf, if_pos hxb]
      · rw [if_neg hxb]
        conv => rhs; rw [stateOf, if_neg hxb]

theorem setState_absent (cs : List Conn) (c : Nat) (st : CState) (h : stateOf cs c = none) : setState cs c st = cs := by
  induction cs with
  | nil => rfl
  | cons x t ih =>
    by_cases hx : x.id = c
    · simp [stateOf, hx] at h
    · rw [stateOf, if_neg hx] at h
      rw [setState, if_neg hx, ih h]

/-- no live connection has an id below the first id the accept loop hands out -/
theorem stateOf_below_start (cs : List Conn) (start i : Nat) (hids : ∀ x ∈ cs, start ≤ x.id) (hi : i < start) :
    stateOf cs i = none := by
  induction cs with
  | nil => rfl
  | cons x t ih =>
    have hx : ¬ x.id = i := fun h => by have := hids x (by simp); omega
    rw [stateOf, if_neg hx]
    exact ih (fun y hy => hids y (by simp [hy]))

theorem low_none : low none := by simp [low]
theorem low_connected : low (some .connected) := by simp [low]
theorem low_closing : low (some .closing) := by simp [low]

theorem low_map_closing (o : Option CState) : low (o.map fun _ => CState.closing) := by
  cases o <;> simp [low]

theorem low_not_auth {o : Option CState} (h : low o) : o ≠ some .authenticated := h.1

/-! ### `findArm` -/

theorem findArm_none_iff (arms : List (Bytes × Arm)) (n : Bytes) :
    findArm arms n = none ↔ n ∉ arms.map (·.1) := by
  induction arms with
  | nil => simp [findArm]
  | cons p t ih =>
    obtain ⟨k, a⟩ := p
    unfold findArm
    by_cases hk : k = n
    · simp [hk]
    · have hk' : ¬ n = k := fun h => hk h.symm
      simp [hk, hk', ih]

theorem findArm_known {arms : List (Bytes × Arm)} (hk : (arms.all fun p => p.2 != .other) = true) (n : Bytes) :
    findArm arms n ≠ some .other := by
  induction arms with
  | nil => simp [findArm]
  | cons p t ih =>
    obtain ⟨k, a⟩ := p
    simp only [List.all_cons, Bool.and_eq_true] at hk
    unfold findArm
    by_cases hkn : k = n
    · simp only [hkn, if_true]
      intro h
      have : a = .other := by simpa using h
      simp [this] at hk
    · simp only [hkn, if_false]
      exact ih hk.2

/-! ### `handle_auth` -/

section
variable {D R : Type}

/-- `handle_auth` succeeds exactly on `[some pw]` with `pw` the configured password and valid UTF-8. -/
theorem auth_cases (s : Server D) (c : Nat) (args : List Arg) :
    (∃ pw, s.password = some pw ∧ args = [some pw] ∧ utf8Valid pw = true ∧
        (Code.auth s c args : Server D × Reply D R) =
          ({ s with conns := setState s.conns c .authenticated }, .ok)) ∨
    ((¬ ∃ pw, s.password = some pw ∧ args = [some pw] ∧ utf8Valid pw = true) ∧
        (Code.auth s c args : Server D × Reply D R) = (s, .error .other)) := by
  unfold Code.auth
  match args with
  | [] => right; simp
  | [none] => right; simp
  | _ :: _ :: _ => right; simp
  | [some p] =>
    by_cases hv : utf8Valid p = true
    · cases hp : s.password with
      | none => right; simp [hv]
      | some pw =>
        by_cases he : p = pw
        · subst he
          left; exact ⟨p, rfl, rfl, hv, by simp [hv]⟩
        · right; simp [hv, he]
    · right
      simp only [hv]
      refine ⟨?_, by simp⟩
      rintro ⟨pw, _, h1, h2⟩
      have : p = pw := by simpa using h1
      exact hv (this ▸ h2)

theorem authenticates_of (pw : Bytes) : Spec.authenticates (some pw) [some pw] = true := by
  simp [Spec.authenticates]

/-! ### One frame -/

/-- The outcome of one frame for the state, in three cases: unchanged; the calling connection
    authenticated by the exact password; or a step that the gate let through / that ran before the gate. -/
inductive FrameOutcome (cfg : Cfg) (h : Dispatch D R) (s : Server D) (c : Nat) (req : Req) (s' : Server D) : Prop
  | same : s' = s → FrameOutcome cfg h s c req s'
  | authed (pw : Bytes) : s.password = some pw → isExactAuth cfg pw req = true →
      s' = { s with conns := setState s.conns c .authenticated } → FrameOutcome cfg h s c req s'
  | replica : s' = Code.registerReplica s c →
      (∃ name args, req = .cmd name args ∧ cfg.normLoop name ∈ cfg.preGate) → FrameOutcome cfg h s c req s'
  | dispatched (name : Bytes) (args : List Arg) : s' = (h s c name args).1 →
      ((s.password.isSome → stateOf s.conns c = some .authenticated) ∨
        (∃ a, req = .cmd name a ∧ cfg.normLoop name ∈ cfg.preGate) ∨
        (∃ a, req = .cmd name a ∧ findArm cfg.allow (cfg.normFrame name) = some .other)) →
      FrameOutcome cfg h s c req s'

theorem auth_outcome (cfg : Cfg) (h : Dispatch D R) (s : Server D) (c : Nat) (name : Bytes) (args : List Arg)
    (hn : isAuthName cfg (cfg.normFrame name) = true) :
    FrameOutcome cfg h s c (.cmd name args) (Code.auth s c args : Server D × Reply D R).1 := by
  rcases auth_cases (R := R) s c args with ⟨pw, hpw, ha, _, he⟩ | ⟨_, he⟩
  · rw [he]
    exact .authed pw hpw (by simp [isExactAuth, hn, ha, authenticates_of]) rfl
  · rw [he]; exact .same rfl

theorem syncCommand_outcome (cfg : Cfg) (h : Dispatch D R) (s : Server D) (c : Nat) (name : Bytes) (args : List Arg)
    (hp : cfg.normLoop name ∈ cfg.preGate) :
    FrameOutcome cfg h s c (.cmd name args) (Code.syncCommand h s c (cfg.normLoop name) name args).1 := by
  have hrep : FrameOutcome cfg h s c (.cmd name args) (Code.registerReplica s c) :=
    .replica rfl ⟨name, args, rfl, hp⟩
  unfold Code.syncCommand
  by_cases h1 : cfg.normLoop name = SYNC
  · simp only [h1, if_true]; exact hrep
  · simp only [h1, if_false]
    by_cases h2 : cfg.normLoop name = PSYNC
    · simp only [h2, if_true]
      split
      · split
        · exact hrep
        · split
          · exact .same rfl
          · split
            · exact .same rfl
            · exact hrep
      · exact .same rfl
      · exact .same rfl
    · simp only [h2, if_false]
      exact .dispatched name args rfl (Or.inr (Or.inl ⟨args, rfl, hp⟩))

theorem processFrame_outcome (cfg : Cfg) (h : Dispatch D R) (s : Server D) (c : Nat) (req : Req) :
    FrameOutcome cfg h s c req (Code.processFrame cfg h s c req).1 := by
  match req with
  | .notArray => exact .same rfl
  | .badName => exact .same rfl
  | .cmd name args =>
    unfold Code.processFrame
    simp only
    cases hst : stateOf s.conns c with
    | none => exact .same rfl
    | some st =>
      simp only
      by_cases hg : s.password.isSome ∧ st ≠ .authenticated
      · rw [if_pos hg]
        cases hf : findArm cfg.allow (cfg.normFrame name) with
        | none => exact .same rfl
        | some a =>
          cases a with
          | auth => exact auth_outcome cfg h s c name args (by simp [isAuthName, hf])
          | ping => exact .same rfl
          | okOnly => exact .same rfl
          | other => exact .dispatched name args rfl (Or.inr (Or.inr ⟨args, rfl, hf⟩))
      · rw [if_neg hg]
        by_cases hn : cfg.normFrame name = AUTH
        · rw [if_pos hn]
          exact auth_outcome cfg h s c name args (by simp [isAuthName, hn])
        · rw [if_neg hn]
          refine .dispatched name args rfl (Or.inl ?_)
          intro hp
          have : ¬ st ≠ .authenticated := fun h' => hg ⟨hp, h'⟩
          simp only [ne_eq, Decidable.not_not] at this
          rw [hst, this]

theorem frame_outcome (cfg : Cfg) (h : Dispatch D R) (s : Server D) (c : Nat) (req : Req) :
    FrameOutcome cfg h s c req (Code.processConnectionFrame cfg h s c req).1 := by
  unfold Code.processConnectionFrame
  match req with
  | .notArray => exact processFrame_outcome cfg h s c _
  | .badName => exact processFrame_outcome cfg h s c _
  | .cmd name args =>
    simp only
    by_cases hp : cfg.normLoop name ∈ cfg.preGate
    · simp only [hp, if_true]; exact syncCommand_outcome cfg h s c name args hp
    · simp only [hp, if_false]; exact processFrame_outcome cfg h s c _

/-- The gate: for an unauthenticated connection of a password-protected server, a request that is neither
    special-cased before the gate nor on the allow-list is answered with an error and changes nothing. -/
theorem gate_refuses (cfg : Cfg) (h : Dispatch D R) (s : Server D) (c : Nat) (name : Bytes) (args : List Arg)
    (hpw : s.password.isSome = true) (hst : stateOf s.conns c ≠ some .authenticated)
    (hallow : cfg.normFrame name ∉ cfg.allow.map (·.1)) (hpre : cfg.normLoop name ∉ cfg.preGate) :
    ∃ k, Code.processConnectionFrame cfg h s c (.cmd name args) = (s, .error k) := by
  unfold Code.processConnectionFrame
  simp only [hpre, if_false]
  unfold Code.processFrame
  simp only
  cases hc : stateOf s.conns c with
  | none => exact ⟨.other, rfl⟩
  | some st =>
    have hne : st ≠ .authenticated := fun h' => hst (by rw [hc, h'])
    simp only [hpw, hne, ne_eq, not_false_eq_true, and_self, if_true, (findArm_none_iff _ _).2 hallow]
    exact ⟨.noauth, rfl⟩

/-- A malformed request is answered with an error and changes nothing, whoever sends it. -/
theorem malformed_refused (cfg : Cfg) (h : Dispatch D R) (s : Server D) (c : Nat) (req : Req)
    (hreq : req = .badName ∨ req = .notArray) :
    Code.processConnectionFrame cfg h s c req = (s, .error .other) := by
  rcases hreq with rfl | rfl <;> rfl

/-! ### Low connections stay low -/

theorem low_after_outcome {cfg : Cfg} {h : Dispatch D R} (hh : Honest h) {s s' : Server D} {c : Nat} {req : Req}
    (ho : FrameOutcome cfg h s c req s') (pw : Bytes) (hpw : s.password = some pw) (b : Nat)
    (hb : low (stateOf s.conns b)) (hno : b = c → isExactAuth cfg pw req = false) :
    s'.password = some pw ∧ low (stateOf s'.conns b) := by
  cases ho with
  | same e => subst e; exact ⟨hpw, hb⟩
  | authed pw' hp' hex e =>
    subst e
    refine ⟨hpw, ?_⟩
    by_cases hbc : b = c
    · have : pw' = pw := by rw [hpw] at hp'; exact (Option.some.inj hp').symm
      rw [this, hno hbc] at hex; exact absurd hex (by simp)
    · simp only; rw [stateOf_setState_other _ _ _ _ hbc]; exact hb
  | replica e _ => subst e; exact ⟨hpw, hb⟩
  | dispatched name args e _ =>
    subst e
    exact ⟨by rw [hh.keepsPassword, hpw], hh.keepsLow s c name args b hb⟩

theorem frame_low {cfg : Cfg} {h : Dispatch D R} (hh : Honest h) (s : Server D) (c : Nat) (req : Req)
    (pw : Bytes) (hpw : s.password = some pw) (b : Nat) (hb : low (stateOf s.conns b))
    (hno : b = c → isExactAuth cfg pw req = false) :
    (Code.processConnectionFrame cfg h s c req).1.password = some pw ∧
    low (stateOf (Code.processConnectionFrame cfg h s c req).1.conns b) :=
  low_after_outcome hh (frame_outcome cfg h s c req) pw hpw b hb hno

theorem runFrames_low {cfg : Cfg} {h : Dispatch D R} (hh : Honest h) (c : Nat) (pw : Bytes) (b : Nat)
    (reqs : List Req) (hno : b = c → ∀ r ∈ reqs, isExactAuth cfg pw r = false) :
    ∀ (s : Server D), s.password = some pw → low (stateOf s.conns b) →
      (Code.runFrames cfg h s c reqs).1.password = some pw ∧
      low (stateOf (Code.runFrames cfg h s c reqs).1.conns b) := by
  induction reqs with
  | nil => intro s hpw hb; exact ⟨hpw, hb⟩
  | cons r rs ih =>
    intro s hpw hb
    have h1 := frame_low (cfg := cfg) hh s c r pw hpw b hb (fun e => hno e r (by simp))
    have := ih (fun e r' hr' => hno e r' (by simp [hr'])) _ h1.1 h1.2
    simpa [Code.runFrames] using this

/-- the real loop (which may stop behind QUIT or at a command that blocked) keeps low connections low -/
theorem runFramesD_pres {cfg : Cfg} {h : Dispatch D R} (hh : Honest h) (c : Nat) (pw : Bytes) (b : Nat)
    (reqs : List Req) (hno : b = c → ∀ r ∈ reqs, isExactAuth cfg pw r = false) :
    ∀ (s : Server D), s.password = some pw → low (stateOf s.conns b) →
      (Code.runFramesD cfg h s c reqs).1.password = some pw ∧
      low (stateOf (Code.runFramesD cfg h s c reqs).1.conns b) := by
  induction reqs with
  | nil => intro s hpw hb; exact ⟨hpw, hb⟩
  | cons r rs ih =>
    intro s hpw hb
    have h1 := frame_low (cfg := cfg) hh s c r pw hpw b hb (fun e => hno e r (by simp))
    have h2 := ih (fun e r' hr' => hno e r' (by simp [hr'])) _ h1.1 h1.2
    unfold Code.runFramesD
    simp only
    split
    · exact h1
    · split
      · exact h1
      · exact h2

theorem processBatch_low {cfg : Cfg} {h : Dispatch D R} (hh : Honest h) (s : Server D) (c : Nat) (pw : Bytes) (b : Nat)
    (reqs : List Req) (hno : b = c → ∀ r ∈ reqs, isExactAuth cfg pw r = false)
    (hpw : s.password = some pw) (hb : low (stateOf s.conns b)) :
    (Code.processBatch cfg h s c reqs).1.password = some pw ∧
    low (stateOf (Code.processBatch cfg h s c reqs).1.conns b) := by
  have h1 := runFramesD_pres (cfg := cfg) hh c pw b reqs hno s hpw hb
  unfold Code.processBatch
  simp only
  split
  · refine ⟨h1.1, ?_⟩
    simp only
    by_cases hbc : b = c
    · subst hbc; rw [stateOf_setState_self]; exact low_map_closing _
    · rw [stateOf_setState_other _ _ _ _ hbc]; exact h1.2
  · exact h1

/-- `b` never presents the exact password in this history. -/
def neverAuthenticates (cfg : Cfg) (pw : Bytes) (b : Nat) (evs : List Code.Event) : Prop :=
  ∀ reqs, Code.Event.batch b reqs ∈ evs → ∀ r ∈ reqs, isExactAuth cfg pw r = false

theorem applyEvent_low {cfg : Cfg} {h : Dispatch D R} (hh : Honest h) (s : Server D) (e : Code.Event) (pw : Bytes) (b : Nat)
    (hno : ∀ reqs, e = .batch b reqs → ∀ r ∈ reqs, isExactAuth cfg pw r = false)
    (hpw : s.password = some pw) (hb : low (stateOf s.conns b)) :
    (Code.applyEvent cfg h s e).1.password = some pw ∧
    low (stateOf (Code.applyEvent cfg h s e).1.conns b) := by
  cases e with
  | accept c =>
    simp only [Code.applyEvent]
    cases hc : stateOf s.conns c with
    | some _ => exact ⟨hpw, hb⟩
    | none =>
      refine ⟨hpw, ?_⟩
      simp only [hpw, Option.isSome_some, if_true, stateOf]
      by_cases hbc : c = b
      · simp [hbc, low]
      · simp only [hbc, if_false]; exact hb
  | batch c reqs =>
    exact processBatch_low hh s c pw b reqs (fun e => hno reqs (by rw [e])) hpw hb
  | wake c =>
    simp only [Code.applyEvent]
    cases hc : stateOf s.conns c with
    | none => exact ⟨hpw, hb⟩
    | some st =>
      cases st with
      | blocked =>
        refine ⟨hpw, ?_⟩
        simp only
        by_cases hbc : b = c
        · subst hbc; rw [hc] at hb; exact absurd rfl hb.2
        · rw [stateOf_setState_other _ _ _ _ hbc]; exact hb
      | connected => exact ⟨hpw, hb⟩
      | authenticated => exact ⟨hpw, hb⟩
      | closing => exact ⟨hpw, hb⟩
  | close c =>
    refine ⟨hpw, ?_⟩
    simp only [Code.applyEvent]
    by_cases hbc : b = c
    · subst hbc; rw [stateOf_setState_self]; exact low_map_closing _
    · rw [stateOf_setState_other _ _ _ _ hbc]; exact hb
  | drop c =>
    refine ⟨hpw, ?_⟩
    simp only [Code.applyEvent, stateOf_removeConn]
    split
    · exact low_none
    · exact hb

theorem run_low {cfg : Cfg} {h : Dispatch D R} (hh : Honest h) (pw : Bytes) (b : Nat) (evs : List Code.Event)
    (hno : neverAuthenticates cfg pw b evs) :
    ∀ (s : Server D), s.password = some pw → low (stateOf s.conns b) →
      (Code.run cfg h s evs).1.password = some pw ∧ low (stateOf (Code.run cfg h s evs).1.conns b) := by
  induction evs with
  | nil => intro s hpw hb; exact ⟨hpw, hb⟩
  | cons e es ih =>
    intro s hpw hb
    have h1 := applyEvent_low (cfg := cfg) hh s e pw b
      (fun reqs he r hr => hno reqs (by simp [he]) r hr) hpw hb
    have := ih (fun reqs hm => hno reqs (by simp [hm])) _ h1.1 h1.2
    simpa [Code.run] using this

/-! ### Pipelines -/

/-- Nothing is kept back for a connection that stays low: without a QUIT that ends the batch, the real loop is the plain loop. -/
theorem runFramesD_low {cfg : Cfg} {h : Dispatch D R} (hh : Honest h) (c : Nat) (pw : Bytes)
    (reqs : List Req) (hno : ∀ r ∈ reqs, isExactAuth cfg pw r = false)
    (hq : cfg.quitEndsBatch = true → ∀ r ∈ reqs, Code.isQuit cfg r = false) :
    ∀ (s : Server D), s.password = some pw → low (stateOf s.conns c) →
      Code.runFramesD cfg h s c reqs = ((Code.runFrames cfg h s c reqs).1, (Code.runFrames cfg h s c reqs).2, []) := by
  induction reqs with
  | nil => intro s _ _; rfl
  | cons r rs ih =>
    intro s hpw hc
    have h1 := frame_low (cfg := cfg) hh s c r pw hpw c hc (fun _ => hno r (by simp))
    have hnb : ¬ stateOf (Code.processConnectionFrame cfg h s c r).1.conns c = some .blocked := h1.2.2
    have hnq : (cfg.quitEndsBatch && Code.isQuit cfg r) = false := by
      cases hb : cfg.quitEndsBatch with
      | false => rfl
      | true => simp [hq hb r (by simp)]
    have := ih (fun r' hr' => hno r' (by simp [hr'])) (fun hb r' hr' => hq hb r' (by simp [hr'])) _ h1.1 h1.2
    simp only [Code.runFramesD, Code.runFrames, hnb, hnq, if_false, Bool.false_eq_true, this]

/-- What follows a QUIT in the same read does not matter: the state and the replies are those of the batch cut behind the
    QUIT — for ANY connection, authenticated or not, any dispatch, any frames before it. -/
theorem runFramesD_behind_quit (cfg : Cfg) (hq : cfg.quitEndsBatch = true) (h : Dispatch D R) (c : Nat)
    (q : Req) (hquit : Code.isQuit cfg q = true) (post : List Req) (pre : List Req) :
    ∀ (s : Server D),
      (Code.runFramesD cfg h s c (pre ++ q :: post)).1 = (Code.runFramesD cfg h s c (pre ++ [q])).1 ∧
      (Code.runFramesD cfg h s c (pre ++ q :: post)).2.1 = (Code.runFramesD cfg h s c (pre ++ [q])).2.1 := by
  induction pre with
  | nil =>
    intro s
    simp [Code.runFramesD, hq, hquit]
  | cons r rs ih =>
    intro s
    have := ih (Code.processConnectionFrame cfg h s c r).1
    simp only [List.cons_append, Code.runFramesD]
    split
    · exact ⟨rfl, rfl⟩
    · split
      · exact ⟨rfl, rfl⟩
      · exact ⟨this.1, by rw [this.2]⟩

/-- … and exactly one reply per frame up to and including the QUIT, none behind it (when nothing before it ends the batch). -/
theorem runFramesD_replies_length_le (cfg : Cfg) (h : Dispatch D R) (c : Nat) (reqs : List Req) :
    ∀ (s : Server D), (Code.runFramesD cfg h s c reqs).2.1.length ≤ reqs.length := by
  induction reqs with
  | nil => intro s; simp [Code.runFramesD]
  | cons r rs ih =>
    intro s
    have := ih (Code.processConnectionFrame cfg h s c r).1
    simp only [Code.runFramesD]
    split
    · simp
    · split
      · simp
      · simp only [List.length_cons]; exact Nat.succ_le_succ this

theorem runFrames_append (cfg : Cfg) (h : Dispatch D R) (c : Nat) (xs ys : List Req) :
    ∀ s : Server D, Code.runFrames cfg h s c (xs ++ ys) =
      ((Code.runFrames cfg h (Code.runFrames cfg h s c xs).1 c ys).1,
       (Code.runFrames cfg h s c xs).2 ++ (Code.runFrames cfg h (Code.runFrames cfg h s c xs).1 c ys).2) := by
  induction xs with
  | nil => intro s; simp [Code.runFrames]
  | cons x xs ih => intro s; simp [Code.runFrames, ih]

/-! ### What an unauthenticated connection can change at all -/

/-- The data an unauthenticated connection must not touch. -/
def sameData (s s' : Server D) : Prop :=
  s'.password = s.password ∧ s'.store = s.store ∧ s'.subs = s.subs ∧ s'.replicas = s.replicas ∧
  s'.monitors = s.monitors ∧ s'.replId = s.replId ∧ s'.backlogStart = s.backlogStart ∧ s'.backlogSize = s.backlogSize

theorem sameData_refl (s : Server D) : sameData s s := by simp [sameData]

theorem sameData_trans {a b c : Server D} (h1 : sameData a b) (h2 : sameData b c) : sameData a c := by
  obtain ⟨a1, a2, a3, a4, a5, a6, a7, a8⟩ := h1
  obtain ⟨b1, b2, b3, b4, b5, b6, b7, b8⟩ := h2
  exact ⟨b1.trans a1, b2.trans a2, b3.trans a3, b4.trans a4, b5.trans a5, b6.trans a6, b7.trans a7, b8.trans a8⟩

/-- One frame of an unauthenticated connection, outside the pre-gate special cases and with an allow-list
    the model knows: the data are untouched and every OTHER connection keeps its state; the state as a
    whole is unchanged unless the frame is an AUTH carrying the exact password. -/
theorem unauth_frame_harmless (cfg : Cfg) (hk : cfg.allowKnown = true) (h : Dispatch D R) (s : Server D) (c : Nat)
    (req : Req) (pw : Bytes) (hpw : s.password = some pw) (hst : stateOf s.conns c ≠ some .authenticated)
    (hpre : ∀ name args, req = .cmd name args → cfg.normLoop name ∉ cfg.preGate) :
    let s' := (Code.processConnectionFrame cfg h s c req).1
    sameData s s' ∧ (∀ b, b ≠ c → stateOf s'.conns b = stateOf s.conns b) ∧
    (isExactAuth cfg pw req = false → s' = s) := by
  intro s'
  have ho : FrameOutcome cfg h s c req s' := frame_outcome cfg h s c req
  cases ho with
  | same e => rw [e]; exact ⟨sameData_refl s, fun _ _ => rfl, fun _ => rfl⟩
  | authed pw' hp' hex e =>
    rw [e]
    refine ⟨by simp [sameData], fun b hb => stateOf_setState_other _ _ _ _ hb, fun hno => ?_⟩
    have : pw' = pw := by rw [hpw] at hp'; exact (Option.some.inj hp').symm
    rw [this, hno] at hex; exact absurd hex (by simp)
  | replica _ hp =>
    obtain ⟨name, args, hr, hm⟩ := hp
    exact absurd hm (hpre name args hr)
  | dispatched name args _ hwhy =>
    rcases hwhy with hauth | ⟨a, hr, hm⟩ | ⟨a, _, hf⟩
    · exact absurd (hauth (by simp [hpw])) hst
    · exact absurd hm (hpre name a hr)
    · exact absurd hf (findArm_known hk _)

end
end Ferrous.Auth
