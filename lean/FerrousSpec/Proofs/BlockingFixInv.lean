/-
  Blocking pops, repaired tree — the multi-key invariant.

  `InvG sl stale s`: every registry entry and every queued wake-up names a blocked connection that waits on that
  key (with the entry's deadline and operation); each (key, connection) slot exists exactly once across
  registry and wake queue, for exactly the keys the connection is blocked on; a connection has at most one
  wake-up under way; a key with waiters holds only elements that are spoken for.
  Two parameters describe the inside of the two loops of the machine:
  * `sl k`   elements of `k` pushed by the running LPUSH/RPUSH for which `notify_key_ready` has not yet been
             called (`notifyN`);
  * `stale`  registry entries that may belong to a connection the running deadline scan has already answered
             (the other keys of a multi-key wait expire in the same scan, one entry at a time).
  Between commands both are trivial: `InvF` — and the wake queue is empty: `InvB`.
-/
import FerrousSpec.Proofs.BlockingRun
namespace Ferrous.Blk

/-- The (key, connection) pairs named by the registry, then by the wake queue. -/
def slotsOf (s : State) : List (Key × Conn) :=
  s.registry.map (fun e => (e.1, e.2.conn)) ++ s.wakeQ.map (fun w => (w.key, w.conn))

structure InvG (sl : Key → Nat) (stale : Key × Waiter → Prop) (s : State) : Prop where
  regOk : ∀ k w, (k, w) ∈ s.registry →
    (∃ b, (s.conns w.conn).blocked = some b ∧ k ∈ b.keys ∧ w.deadline = b.deadline ∧ w.op = b.op) ∨
    ((s.conns w.conn).blocked = none ∧ stale (k, w))
  wakeOk : ∀ w, w ∈ s.wakeQ → ∃ b, (s.conns w.conn).blocked = some b ∧ w.key ∈ b.keys ∧ w.op = b.op
  slots : (slotsOf s).Nodup
  cover : ∀ c b, (s.conns c).blocked = some b → ∀ k, k ∈ b.keys → (k, c) ∈ slotsOf s
  keysNe : ∀ c b, (s.conns c).blocked = some b → b.keys ≠ []
  alive : ∀ c, (s.conns c).blocked ≠ none → c ≠ 0 ∧ (s.conns c).gone = false
  wakeConns : (s.wakeQ.map (·.conn)).Nodup
  counts : ∀ k, cntW s k + sl k ≤ cntL s k ∧ (0 < cntR s k → cntL s k = cntW s k + sl k)
  lost : s.lost = []

/-- No push in progress. -/
def noSlack : Key → Nat := fun _ => 0
/-- `m` elements of `k` pushed and not yet notified. -/
def slackAt (k : Key) (m : Nat) : Key → Nat := fun k' => if k' = k then m else 0
/-- No scan in progress. -/
def noStale : Key × Waiter → Prop := fun _ => False

/-- The invariant between micro-steps. -/
abbrev InvF (s : State) : Prop := InvG noSlack noStale s

/-- The server has looked at the socket of every blocked client whose peer has gone: who is blocked has a peer. -/
def Calm (s : State) : Prop := ∀ c, (s.conns c).blocked ≠ none → (s.conns c).peerClosed = false

/-- The invariant between commands of a batch (a batch runs only when the state is calm). -/
structure InvB (s : State) : Prop where
  inv : InvF s
  quiet : s.wakeQ = []
  calm : Calm s

/-- The invariant between events: a blocked client may have hung up without the server having looked yet. -/
structure InvR (s : State) : Prop where
  inv : InvF s
  quiet : s.wakeQ = []

theorem InvB.toR {s : State} (h : InvB s) : InvR s := ⟨h.inv, h.quiet⟩

theorem slackAt_zero (k : Key) : slackAt k 0 = noSlack := by
  funext k'; simp [slackAt, noSlack]

theorem InvB_init : InvB init := by
  refine ⟨⟨?_, ?_, ?_, ?_, ?_, ?_, ?_, ?_, rfl⟩, rfl, fun c h => absurd rfl h⟩
  · intro k w h; cases h
  · intro w h; cases h
  · exact List.nodup_nil
  · intro c b h; cases h
  · intro c b h; cases h
  · intro c h; exact absurd rfl h
  · exact List.nodup_nil
  · intro k; exact ⟨Nat.le_refl _, fun _ => rfl⟩

theorem mem_slots_iff {s : State} {k : Key} {c : Conn} :
    (k, c) ∈ slotsOf s ↔ (∃ w, (k, w) ∈ s.registry ∧ w.conn = c) ∨ (∃ w, w ∈ s.wakeQ ∧ w.key = k ∧ w.conn = c) := by
  unfold slotsOf
  simp only [List.mem_append, List.mem_map, Prod.mk.injEq]
  constructor
  · rintro (⟨⟨k', w⟩, h, rfl, rfl⟩ | ⟨w, h, rfl, rfl⟩)
    · exact .inl ⟨w, h, rfl⟩
    · exact .inr ⟨w, h, rfl, rfl⟩
  · rintro (⟨w, h, rfl⟩ | ⟨w, h, rfl, rfl⟩)
    · exact .inl ⟨(k, w), h, rfl, rfl⟩
    · exact .inr ⟨w, h, rfl, rfl⟩

theorem mem_slots_reg {s : State} {k : Key} {w : Waiter} (h : (k, w) ∈ s.registry) : (k, w.conn) ∈ slotsOf s :=
  mem_slots_iff.mpr (.inl ⟨w, h, rfl⟩)

theorem mem_slots_wake {s : State} {w : Wake} (h : w ∈ s.wakeQ) : (w.key, w.conn) ∈ slotsOf s :=
  mem_slots_iff.mpr (.inr ⟨w, h, rfl, rfl⟩)

/-- With no scan in progress, who is named by the registry is blocked. -/
theorem InvG.reg_blocked {sl} {s : State} (hI : InvG sl noStale s) {k : Key} {w : Waiter} (h : (k, w) ∈ s.registry) :
    ∃ b, (s.conns w.conn).blocked = some b ∧ k ∈ b.keys ∧ w.deadline = b.deadline ∧ w.op = b.op := by
  rcases hI.regOk k w h with h | ⟨_, h⟩
  · exact h
  · exact h.elim

theorem InvG.no_reg_of_unblocked {sl} {s : State} (hI : InvG sl noStale s) {c : Conn}
    (hc : (s.conns c).blocked = none) {k : Key} {w : Waiter} (h : (k, w) ∈ s.registry) : w.conn ≠ c := by
  intro e
  obtain ⟨b, hb, _⟩ := hI.reg_blocked h
  rw [e, hc] at hb; cases hb

theorem InvG.no_wake_of_unblocked {sl st} {s : State} (hI : InvG sl st s) {c : Conn}
    (hc : (s.conns c).blocked = none) {w : Wake} (h : w ∈ s.wakeQ) : w.conn ≠ c := by
  intro e
  obtain ⟨b, hb, _⟩ := hI.wakeOk w h
  rw [e, hc] at hb; cases hb

/-- Only `store`, `out`, `pushed` and fields of `conns` other than `blocked`, `gone`, `peerClosed` differ. -/
theorem InvG.congr {sl sl' st} {s t : State} (hI : InvG sl st s)
    (hr : t.registry = s.registry) (hw : t.wakeQ = s.wakeQ) (hl : t.lost = s.lost)
    (hc : ∀ c, (t.conns c).blocked = (s.conns c).blocked ∧ (t.conns c).gone = (s.conns c).gone ∧
      (t.conns c).peerClosed = (s.conns c).peerClosed)
    (hcounts : ∀ k, cntW t k + sl' k ≤ cntL t k ∧ (0 < cntR t k → cntL t k = cntW t k + sl' k)) : InvG sl' st t := by
  have hs : slotsOf t = slotsOf s := by unfold slotsOf; rw [hr, hw]
  refine ⟨?_, ?_, ?_, ?_, ?_, ?_, ?_, hcounts, by rw [hl]; exact hI.lost⟩
  · intro k w h
    rw [hr] at h
    rw [(hc w.conn).1]
    exact hI.regOk k w h
  · intro w h
    rw [hw] at h
    rw [(hc w.conn).1]
    exact hI.wakeOk w h
  · rw [hs]; exact hI.slots
  · intro c b hb k hk
    rw [(hc c).1] at hb
    rw [hs]; exact hI.cover c b hb k hk
  · intro c b hb
    rw [(hc c).1] at hb
    exact hI.keysNe c b hb
  · intro c hb
    rw [(hc c).1] at hb
    rw [(hc c).2.1]
    exact hI.alive c hb
  · rw [hw]; exact hI.wakeConns

/-- As `congr`, but `gone` / `peerClosed` may change for connections that are not blocked. -/
theorem InvG.congr_life {sl st} {s t : State} (hI : InvG sl st s)
    (hs : t.store = s.store) (hr : t.registry = s.registry) (hw : t.wakeQ = s.wakeQ) (hl : t.lost = s.lost)
    (hc : ∀ c, (t.conns c).blocked = (s.conns c).blocked ∧ ((s.conns c).blocked ≠ none →
      (t.conns c).gone = (s.conns c).gone)) : InvG sl st t := by
  have hsl : slotsOf t = slotsOf s := by unfold slotsOf; rw [hr, hw]
  refine ⟨?_, ?_, ?_, ?_, ?_, ?_, ?_, ?_, by rw [hl]; exact hI.lost⟩
  · intro k w h
    rw [hr] at h
    rw [(hc w.conn).1]
    exact hI.regOk k w h
  · intro w h
    rw [hw] at h
    rw [(hc w.conn).1]
    exact hI.wakeOk w h
  · rw [hsl]; exact hI.slots
  · intro c b hb k hk
    rw [(hc c).1] at hb
    rw [hsl]; exact hI.cover c b hb k hk
  · intro c b hb
    rw [(hc c).1] at hb
    exact hI.keysNe c b hb
  · intro c hb
    rw [(hc c).1] at hb
    rw [(hc c).2 hb]
    exact hI.alive c hb
  · rw [hw]; exact hI.wakeConns
  · intro k
    have := hI.counts k
    unfold cntW cntL cntR at *
    rw [hs, hr, hw]; exact this

/-- Same counts too (only `out`, `pushed`, transaction fields differ). -/
theorem InvG.congr' {sl st} {s t : State} (hI : InvG sl st s)
    (hs : t.store = s.store) (hr : t.registry = s.registry) (hw : t.wakeQ = s.wakeQ) (hl : t.lost = s.lost)
    (hc : ∀ c, (t.conns c).blocked = (s.conns c).blocked ∧ (t.conns c).gone = (s.conns c).gone ∧
      (t.conns c).peerClosed = (s.conns c).peerClosed) : InvG sl st t := by
  refine hI.congr hr hw hl hc ?_
  intro k
  have := hI.counts k
  unfold cntW cntL cntR at *
  rw [hs, hr, hw]; exact this

/-! ## `dedupL` -/

theorem mem_dedupL {x : Key} : ∀ {l : List Key}, x ∈ dedupL l ↔ x ∈ l := by
  intro l
  induction l with
  | nil => simp [dedupL]
  | cons k ks ih =>
    simp only [dedupL, List.mem_cons, List.mem_filter, bne_iff_ne, ne_eq]
    constructor
    · rintro (h | ⟨h, _⟩)
      · exact .inl h
      · exact .inr (ih.mp h)
    · rintro (h | h)
      · exact .inl h
      · by_cases hx : x = k
        · exact .inl hx
        · exact .inr ⟨ih.mpr h, hx⟩

theorem nodup_dedupL : ∀ (l : List Key), (dedupL l).Nodup := by
  intro l
  induction l with
  | nil => exact List.nodup_nil
  | cons k ks ih =>
    simp only [dedupL]
    refine List.nodup_cons.mpr ⟨?_, ih.sublist List.filter_sublist⟩
    simp [List.mem_filter]

theorem dedupL_ne_nil {l : List Key} (h : l ≠ []) : dedupL l ≠ [] := by
  cases l with
  | nil => exact absurd rfl h
  | cons k ks => simp [dedupL]

/-! ## The wake queue only ever loses its head in `wakeOne` -/

/-- When the request at the head names a client that is blocked on its key (always, under the invariant), `wakeOne`
    removes exactly that request. -/
theorem wakeOne_wakeQ (q : Quirks) (s : State)
    (h : ∀ w rest, s.wakeQ = w :: rest → wakeTargetOk { s with wakeQ := rest } w = true)
    (hp : ∀ w rest, s.wakeQ = w :: rest → (s.conns w.conn).peerClosed = false) :
    (wakeOne q s).wakeQ = s.wakeQ.tail := by
  unfold wakeOne
  split
  · next h' => rw [h']; rfl
  · next w rest hw =>
    rw [hw]
    have hps : probeSees q { s with wakeQ := rest } w.conn = false := by
      show ((s.conns w.conn).peerClosed && _) = false
      rw [hp w rest hw]; rfl
    simp only [List.tail_cons, h w rest hw, hps, Bool.true_eq_false, Bool.false_eq_true, and_false, if_false]
    split
    · rfl
    · split
      · split <;> simp
      · rfl

theorem wakeOne_nil (q : Quirks) (s : State) (h : s.wakeQ = []) : wakeOne q s = s := by
  unfold wakeOne; rw [h]

theorem iter_wakeOne_nil (q : Quirks) : ∀ n s, s.wakeQ = [] → iter (wakeOne q) n s = s := by
  intro n
  induction n with
  | zero => intro s _; rfl
  | succ n ih => intro s h; simp only [iter]; rw [wakeOne_nil q s h]; exact ih s h

end Ferrous.Blk
