/-
  Association lists and duplicate-free lists as the hash maps / hash sets of pubsub.rs:
  the laws the invariant proofs use (`get` after `insert`/`remove`, key uniqueness,
  membership after set insert/remove, the sweep of `unsubscribe_all`).
-/
import FerrousSpec.Model.PubSub
set_option linter.unusedSimpArgs false
set_option linter.unusedSectionVars false
namespace Ferrous.PubSub

section
variable {κ ν : Type} [DecidableEq κ]

def keys (m : List (κ × ν)) : List κ := m.map (·.1)

@[simp] theorem keys_nil : keys ([] : List (κ × ν)) = [] := rfl
@[simp] theorem keys_cons (e : κ × ν) (m : List (κ × ν)) : keys (e :: m) = e.1 :: keys m := rfl

theorem aget_aset (m : List (κ × ν)) (k : κ) (v : ν) (k' : κ) :
    aget (aset m k v) k' = if k = k' then some v else aget m k' := by
  induction m with
  | nil => simp [aset, aget]
  | cons e m ih =>
    obtain ⟨k0, v0⟩ := e
    simp only [aset]
    by_cases h : k0 = k
    · subst h
      simp only [if_true, aget]
      by_cases h' : k0 = k' <;> simp [h']
    · simp only [h, if_false, aget, ih]
      by_cases h' : k0 = k'
      · subst h'
        have : ¬ k = k0 := fun e => h e.symm
        simp [this]
      · simp [h']

theorem aget_adel (m : List (κ × ν)) (k k' : κ) :
    aget (adel m k) k' = if k = k' then none else aget m k' := by
  induction m with
  | nil => simp [adel, aget]
  | cons e m ih =>
    obtain ⟨k0, v0⟩ := e
    unfold adel at ih ⊢
    by_cases h : k0 = k
    · subst h
      simp only [List.filter, ne_eq, not_true_eq_false, decide_false, ih, aget]
      by_cases h' : k0 = k' <;> simp [h']
    · simp only [List.filter, ne_eq, h, not_false_eq_true, decide_true, aget, ih]
      by_cases h' : k0 = k'
      · subst h'
        have : ¬ k = k0 := fun e => h e.symm
        simp [this]
      · simp [h']

theorem aget_none_of_not_mem_keys {m : List (κ × ν)} {k : κ} (h : k ∉ keys m) : aget m k = none := by
  induction m with
  | nil => rfl
  | cons e m ih =>
    obtain ⟨k0, v0⟩ := e
    simp only [keys_cons, List.mem_cons, not_or] at h
    have : ¬ k0 = k := fun e => h.1 e.symm
    simp [aget, this, ih h.2]

theorem mem_keys_of_aget {m : List (κ × ν)} {k : κ} {v : ν} (h : aget m k = some v) : k ∈ keys m := by
  apply Classical.byContradiction
  intro hn
  rw [aget_none_of_not_mem_keys hn] at h
  cases h

theorem mem_of_aget {m : List (κ × ν)} {k : κ} {v : ν} (h : aget m k = some v) : (k, v) ∈ m := by
  induction m with
  | nil => cases h
  | cons e m ih =>
    obtain ⟨k0, v0⟩ := e
    simp only [aget] at h
    by_cases h' : k0 = k
    · simp only [h', if_true, Option.some.injEq] at h
      subst h; subst h'
      exact List.mem_cons_self
    · simp only [h', if_false] at h
      exact List.mem_cons_of_mem _ (ih h)

/-- With unique keys an entry is in the list iff `get` returns it. -/
theorem mem_iff_aget {m : List (κ × ν)} (hn : (keys m).Nodup) (k : κ) (v : ν) :
    (k, v) ∈ m ↔ aget m k = some v := by
  refine ⟨?_, mem_of_aget⟩
  induction m with
  | nil => intro h; cases h
  | cons e m ih =>
    obtain ⟨k0, v0⟩ := e
    simp only [keys_cons, List.nodup_cons] at hn
    intro h
    simp only [List.mem_cons, Prod.mk.injEq] at h
    rcases h with ⟨h1, h2⟩ | h
    · subst h1; subst h2; simp [aget]
    · have hk : k ∈ keys m := List.mem_map.2 ⟨(k, v), h, rfl⟩
      have : ¬ k0 = k := fun e => hn.1 (e ▸ hk)
      simp only [aget, this, if_false]
      exact ih hn.2 h

theorem keys_aset (m : List (κ × ν)) (k : κ) (v : ν) :
    keys (aset m k v) = if k ∈ keys m then keys m else keys m ++ [k] := by
  induction m with
  | nil => simp [aset]
  | cons e m ih =>
    obtain ⟨k0, v0⟩ := e
    simp only [aset]
    by_cases h : k0 = k
    · subst h; simp
    · have h' : ¬ k = k0 := fun e => h e.symm
      simp only [h, if_false, keys_cons, ih, List.mem_cons, h', false_or]
      split <;> simp

theorem nodup_keys_aset {m : List (κ × ν)} (hn : (keys m).Nodup) (k : κ) (v : ν) :
    (keys (aset m k v)).Nodup := by
  rw [keys_aset]
  split
  · exact hn
  · rename_i h
    rw [List.nodup_append]
    refine ⟨hn, by simp, ?_⟩
    intro a ha b hb
    simp only [List.mem_singleton] at hb
    subst hb
    exact fun e => h (e ▸ ha)

theorem keys_adel (m : List (κ × ν)) (k : κ) : keys (adel m k) = (keys m).filter (fun y => decide (y ≠ k)) := by
  unfold adel keys
  rw [List.filter_map]
  rfl

theorem nodup_keys_adel {m : List (κ × ν)} (hn : (keys m).Nodup) (k : κ) : (keys (adel m k)).Nodup := by
  rw [keys_adel]
  exact hn.sublist List.filter_sublist

/-! ### sets -/

theorem mem_sins (l : List κ) (x y : κ) : y ∈ sins l x ↔ y ∈ l ∨ y = x := by
  unfold sins
  split
  · rename_i h
    constructor
    · exact Or.inl
    · rintro (h' | h')
      · exact h'
      · exact h' ▸ h
  · simp

theorem nodup_sins {l : List κ} (hn : l.Nodup) (x : κ) : (sins l x).Nodup := by
  unfold sins
  split
  · exact hn
  · rename_i h
    rw [List.nodup_append]
    refine ⟨hn, by simp, ?_⟩
    intro a ha b hb
    simp only [List.mem_singleton] at hb
    subst hb
    exact fun e => h (e ▸ ha)

theorem sins_of_mem {l : List κ} {x : κ} (h : x ∈ l) : sins l x = l := by simp [sins, h]

theorem sins_of_not_mem {l : List κ} {x : κ} (h : x ∉ l) : sins l x = l ++ [x] := by simp [sins, h]

theorem sins_ne_nil (l : List κ) (x : κ) : sins l x ≠ [] := by
  intro h
  have : x ∈ sins l x := (mem_sins l x x).2 (Or.inr rfl)
  rw [h] at this
  cases this

theorem mem_srem (l : List κ) (x y : κ) : y ∈ srem l x ↔ y ∈ l ∧ y ≠ x := by
  simp [srem]

theorem nodup_srem {l : List κ} (hn : l.Nodup) (x : κ) : (srem l x).Nodup :=
  hn.sublist List.filter_sublist

theorem srem_of_not_mem {l : List κ} {x : κ} (h : x ∉ l) : srem l x = l := by
  unfold srem
  rw [List.filter_eq_self]
  intro a ha
  simp only [ne_eq, decide_eq_true_eq]
  exact fun e => h (e ▸ ha)

@[simp] theorem srem_nil (x : κ) : srem ([] : List κ) x = [] := rfl

end

/-! ### the sweep of `unsubscribe_all` -/

def purgeF (c : ConnId) (e : Bytes × List ConnId) : Option (Bytes × List ConnId) :=
  if (srem e.2 c).isEmpty then none else some (e.1, srem e.2 c)

theorem purge_eq (m : List (Bytes × List ConnId)) (c : ConnId) : purge m c = m.filterMap (purgeF c) := rfl

theorem purge_cons (e : Bytes × List ConnId) (m : List (Bytes × List ConnId)) (c : ConnId) :
    purge (e :: m) c = if (srem e.2 c).isEmpty then purge m c else (e.1, srem e.2 c) :: purge m c := by
  rw [purge_eq, purge_eq]
  by_cases he : (srem e.2 c).isEmpty = true
  · rw [List.filterMap_cons_none (by simp only [purgeF, he, if_true]), if_pos he]
  · rw [List.filterMap_cons_some (b := (e.1, srem e.2 c)) (by simp only [purgeF, he]; rfl), if_neg he]

theorem keys_purge_sublist (m : List (Bytes × List ConnId)) (c : ConnId) :
    List.Sublist (keys (purge m c)) (keys m) := by
  induction m with
  | nil => exact List.Sublist.refl _
  | cons e m ih =>
    rw [purge_cons]
    split
    · exact List.Sublist.cons _ ih
    · exact List.Sublist.cons_cons _ ih

theorem nodup_keys_purge {m : List (Bytes × List ConnId)} (hn : (keys m).Nodup) (c : ConnId) :
    (keys (purge m c)).Nodup := hn.sublist (keys_purge_sublist m c)

theorem aget_purge {m : List (Bytes × List ConnId)} (hn : (keys m).Nodup) (c : ConnId) (x : Bytes) :
    aget (purge m c) x =
      match aget m x with
      | some cs => if (srem cs c).isEmpty then none else some (srem cs c)
      | none => none := by
  induction m with
  | nil => rfl
  | cons e m ih =>
    obtain ⟨k0, v0⟩ := e
    simp only [keys_cons, List.nodup_cons] at hn
    have ih := ih hn.2
    rw [purge_cons]
    by_cases hk : k0 = x
    · subst hk
      have hnone : aget (purge m c) k0 = none :=
        aget_none_of_not_mem_keys (fun h => hn.1 ((keys_purge_sublist m c).subset h))
      simp only [aget, if_true]
      by_cases he : (srem v0 c).isEmpty = true
      · simp only [he, if_true, hnone]
      · simp only [he, Bool.false_eq_true, if_false, aget, if_true]
    · simp only [aget, hk, if_false]
      by_cases he : (srem v0 c).isEmpty = true
      · simp only [he, if_true]; exact ih
      · simp only [he, Bool.false_eq_true, if_false, aget, hk]; exact ih

/-- The sweep leaves no empty subscriber set behind. -/
theorem aget_purge_ne_nil {m : List (Bytes × List ConnId)} (hn : (keys m).Nodup) (c : ConnId) (x : Bytes) :
    aget (purge m c) x ≠ some [] := by
  rw [aget_purge hn]
  cases aget m x with
  | none => simp
  | some cs =>
    simp only
    by_cases he : (srem cs c).isEmpty = true
    · simp [he]
    · rw [if_neg he]
      intro e
      injection e with e
      exact he (by simp [e])

end Ferrous.PubSub
