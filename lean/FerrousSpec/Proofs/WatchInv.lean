/-
  C08 helper lemmas, part 4: the invariant of the WATCH machine —
    counters ≤ global counter per tracker; on every (database, shard) the watcher count is at least the
    number of watch entries registered there (so `mark_modified` is not a no-op while someone holds a
    baseline); baselines ≤ global counter; (code variant) every entry was registered in the database
    its connection has selected.
  It is preserved by every step of a `Safe` history: no registration wraps the usize counter, and — unless
  entries remember their database — no connection SELECTs another database while it holds entries.
-/
import FerrousSpec.Proofs.WatchStep
namespace Ferrous.Watch

/-- number of entries of a watch list registered on (database `d`, shard `sh`) -/
def wcount (d sh : Nat) (ws : List W) : Nat :=
  ws.countP (fun w => decide (w.regDb = d) && decide (shardOf w.key = sh))

/-- number of watch entries of all connections registered on (d, sh) -/
def regCount (s : State) (d sh : Nat) : Nat := (s.conns.map (fun p => wcount d sh p.2.watched)).sum

structure Inv (q : Q) (s : State) : Prop where
  tok : TOk s
  reg : ∀ d sh, regCount s d sh ≤ s.active d sh
  bound : ∀ d sh, s.active d sh < two64
  base : ∀ c w, w ∈ (s.conn c).watched → w.base ≤ (s.tracker w.regDb (shardOf w.key)).global
  here : q.perDb = false → ∀ c w, w ∈ (s.conn c).watched → w.regDb = (s.conn c).db

theorem inv_init (q : Q) : Inv q State.init := by
  refine ⟨tok_init, fun d sh => ?_, fun d sh => ?_, fun c w h => ?_, fun _ c w h => ?_⟩
  · simp [regCount, State.init]
  · have : State.init.active d sh = 0 := by simp [State.active, State.init, State.tracker, aget]
    rw [this]; unfold two64; omega
  · simp [State.init, State.conn, aget] at h
  · simp [State.init, State.conn, aget] at h

/-! ### counting -/

theorem wcount_nil (d sh : Nat) : wcount d sh [] = 0 := rfl

theorem wcount_cons (d sh : Nat) (w : W) (ws : List W) :
    wcount d sh (w :: ws) = (if w.regDb = d ∧ shardOf w.key = sh then 1 else 0) + wcount d sh ws := by
  unfold wcount
  rw [List.countP_cons]
  by_cases h1 : w.regDb = d <;> by_cases h2 : shardOf w.key = sh <;> simp [h1, h2] <;> omega

theorem wcount_filter_le (d sh : Nat) (ws : List W) (p : W → Bool) : wcount d sh (ws.filter p) ≤ wcount d sh ws := by
  unfold wcount
  rw [List.countP_filter]
  apply List.countP_mono_left
  intro w _ h
  simp only [Bool.and_eq_true] at h ⊢
  exact h.1

theorem wcount_pos_of_mem (d sh : Nat) (ws : List W) (w : W) (h : w ∈ ws) (h1 : w.regDb = d) (h2 : shardOf w.key = sh) :
    0 < wcount d sh ws := by
  unfold wcount
  rw [List.countP_pos_iff]
  exact ⟨w, h, by simp [h1, h2]⟩

theorem regCount_setConn (s : State) (c : Nat) (cn : Conn) (d sh : Nat) :
    regCount (s.setConn c cn) d sh + wcount d sh (s.conn c).watched = regCount s d sh + wcount d sh cn.watched := by
  unfold regCount State.setConn State.conn
  simp only []
  generalize s.conns = m
  induction m with
  | nil => simp [aset, aget, wcount_nil]
  | cons p r ih =>
    obtain ⟨a, v⟩ := p
    unfold aset aget
    by_cases e : a = c
    · subst e
      simp only [if_true, List.map_cons, List.sum_cons]
      omega
    · simp only [e, if_false, List.map_cons, List.sum_cons]
      omega

theorem wcount_le_regCount (s : State) (c : Nat) (d sh : Nat) :
    wcount d sh (s.conn c).watched ≤ regCount s d sh := by
  unfold regCount State.conn
  generalize s.conns = m
  induction m with
  | nil => simp [aget, wcount_nil]
  | cons p r ih =>
    obtain ⟨a, v⟩ := p
    unfold aget
    by_cases e : a = c
    · subst e
      simp only [if_true, List.map_cons, List.sum_cons]
      omega
    · simp only [e, if_false, List.map_cons, List.sum_cons]
      omega

theorem regCount_conns_eq {s s' : State} (h : s'.conns = s.conns) (d sh : Nat) : regCount s' d sh = regCount s d sh := by
  unfold regCount; rw [h]

theorem conn_conns_eq {s s' : State} (h : s'.conns = s.conns) (c : Nat) : s'.conn c = s.conn c := by
  unfold State.conn; rw [h]

/-! ### preservation: changes that leave connections and watcher counts alone -/

theorem inv_of_grows (q : Q) (s s' : State) (hi : Inv q s) (hg : Grows s s') (hc : s'.conns = s.conns)
    (ha : ∀ d sh, s'.active d sh = s.active d sh) : Inv q s' := by
  refine ⟨hg.tok hi.tok, fun d sh => ?_, fun d sh => ?_, fun c w h => ?_, fun hp c w h => ?_⟩
  · rw [regCount_conns_eq hc, ha]; exact hi.reg d sh
  · rw [ha]; exact hi.bound d sh
  · rw [conn_conns_eq hc] at h
    exact Nat.le_trans (hi.base c w h) (hg.global _ _)
  · rw [conn_conns_eq hc] at h ⊢
    exact hi.here hp c w h

/-- rewriting one connection's record with a watch list that is a part of the old one -/
theorem inv_setConn (q : Q) (s : State) (c : Nat) (cn : Conn) (hi : Inv q s)
    (hw : ∀ w ∈ cn.watched, w ∈ (s.conn c).watched)
    (hcount : ∀ d sh, wcount d sh cn.watched ≤ wcount d sh (s.conn c).watched)
    (hdb : q.perDb = false → cn.watched ≠ [] → cn.db = (s.conn c).db) : Inv q (s.setConn c cn) := by
  refine ⟨(grows_setConn s c cn).tok hi.tok, fun d sh => ?_, fun d sh => ?_, fun c' w h => ?_, fun hp c' w h => ?_⟩
  · have h1 := regCount_setConn s c cn d sh
    have h2 := hcount d sh
    have h3 := hi.reg d sh
    rw [active_setConn]
    omega
  · rw [active_setConn]; exact hi.bound d sh
  · rw [conn_setConn] at h
    rw [tracker_setConn]
    split at h
    · exact hi.base c w (hw w h)
    · exact hi.base c' w h
  · rw [conn_setConn] at h ⊢
    split at h
    · rename_i e
      simp only [e, if_true]
      have hne : cn.watched ≠ [] := fun e => by rw [e] at h; simp at h
      rw [hdb hp hne]
      exact hi.here hp c w (hw w h)
    · rename_i e
      simp only [e, if_false]
      exact hi.here hp c' w h

/-! ### WATCH -/

theorem inv_watchKeyNew (q : Q) (c : Nat) (s : State) (k : Key) (hi : Inv q s)
    (hs : s.active (s.conn c).db (shardOf k) + 1 < two64) : Inv q (watchKeyNew q c s k) := by
  have hact : ∀ d sh, (watchKeyNew q c s k).active d sh =
      if ((s.conn c).db, shardOf k) = (d, sh) then s.active d sh + 1 else s.active d sh := by
    intro d sh
    unfold watchKeyNew
    rw [active_setConn, active_setTracker]
    split
    · rename_i e
      simp only [Prod.mk.injEq] at e
      obtain ⟨e1, e2⟩ := e
      rw [register_active]
      have : (s.tracker (s.conn c).db (shardOf k)).active = s.active (s.conn c).db (shardOf k) := rfl
      rw [this, ← e1, ← e2]
      exact Nat.mod_eq_of_lt hs
    · rfl
  have hglob : ∀ d sh, ((watchKeyNew q c s k).tracker d sh).global = (s.tracker d sh).global := by
    intro d sh
    unfold watchKeyNew
    rw [tracker_setConn]
    exact global_setTracker_same s (s.conn c).db (shardOf k) ((s.tracker (s.conn c).db (shardOf k)).register k).1 rfl d sh
  have hconn : ∀ c', (watchKeyNew q c s k).conn c' =
      if c = c' then watchConn q (s.conn c) k ((s.tracker (s.conn c).db (shardOf k)).counter k) else s.conn c' := by
    intro c'
    unfold watchKeyNew
    rw [conn_setConn]
    split <;> rfl
  have hwl : (watchConn q (s.conn c) k ((s.tracker (s.conn c).db (shardOf k)).counter k)).watched =
      ⟨k, (s.tracker (s.conn c).db (shardOf k)).counter k, (s.conn c).db⟩ ::
        (s.conn c).watched.filter (fun w => !(decide (w.key = k) && (!q.perDb || decide (w.regDb = (s.conn c).db)))) := rfl
  have hwdb : (watchConn q (s.conn c) k ((s.tracker (s.conn c).db (shardOf k)).counter k)).db = (s.conn c).db := rfl
  have hgr : Grows s (watchKeyNew q c s k) := grows_watchKeyNew q c s k
  refine ⟨hgr.tok hi.tok, fun d sh => ?_, fun d sh => ?_, fun c' w h => ?_, fun hp c' w h => ?_⟩
  · -- registrations counted
    have h1 : regCount (watchKeyNew q c s k) d sh + wcount d sh (s.conn c).watched =
        regCount s d sh + wcount d sh (watchConn q (s.conn c) k ((s.tracker (s.conn c).db (shardOf k)).counter k)).watched := by
      unfold watchKeyNew
      have := regCount_setConn (s.setTracker (s.conn c).db (shardOf k) ((s.tracker (s.conn c).db (shardOf k)).register k).1)
        c (watchConn q (s.conn c) k ((s.tracker (s.conn c).db (shardOf k)).register k).2) d sh
      rw [conn_setTracker, regCount_conns_eq (conns_setTracker _ _ _ _)] at this
      exact this
    rw [hwl, wcount_cons] at h1
    have h2 := wcount_filter_le d sh (s.conn c).watched
      (fun w => !(decide (w.key = k) && (!q.perDb || decide (w.regDb = (s.conn c).db))))
    have h3 := hi.reg d sh
    rw [hact]
    generalize wcount d sh (List.filter (fun w => !(decide (w.key = k) && (!q.perDb || decide (w.regDb = (s.conn c).db))))
      (s.conn c).watched) = F at h1 h2
    by_cases e : (s.conn c).db = d ∧ shardOf k = sh
    · have e' : ((s.conn c).db, shardOf k) = (d, sh) := by rw [e.1, e.2]
      simp only [e, and_self, if_true] at h1
      simp only [e', if_true]
      omega
    · have e' : ¬ ((s.conn c).db, shardOf k) = (d, sh) := by
        intro x; simp only [Prod.mk.injEq] at x; exact e x
      simp only [e, if_false] at h1
      simp only [e', if_false]
      omega
  · rw [hact]
    split
    · rename_i e
      simp only [Prod.mk.injEq] at e
      rw [← e.1, ← e.2]; exact hs
    · exact hi.bound d sh
  · rw [hglob]
    rw [hconn] at h
    split at h
    · rw [hwl] at h
      simp only [List.mem_cons, List.mem_filter] at h
      rcases h with e | e
      · subst e
        exact hi.tok (s.conn c).db (shardOf k) k
      · exact hi.base c w e.1
    · exact hi.base c' w h
  · rw [hconn] at h ⊢
    split at h
    · rename_i e
      subst e
      simp only [if_true]
      rw [hwl] at h
      rw [hwdb]
      simp only [List.mem_cons, List.mem_filter] at h
      rcases h with e' | e'
      · subst e'; rfl
      · exact hi.here hp c w e'.1
    · rename_i e
      simp only [e, if_false]
      exact hi.here hp c' w h

theorem inv_purge (q : Q) (s : State) (d : Nat) (k : Key) (now : Nat) (hi : Inv q s) : Inv q (purgeAtWatch q s d k now) :=
  inv_of_grows q _ _ hi (grows_purge q s d k now) (conns_purge q s d k now) (fun d' sh' => active_purge q s d k now d' sh')

theorem inv_watchKey (q : Q) (c : Nat) (now : Nat) (s : State) (k : Key) (hi : Inv q s)
    (hs : s.active (s.conn c).db (shardOf k) + 1 < two64) : Inv q (watchKey q c now s k) := by
  rcases watchKey_cases q c now s k with e | e
  · rw [e]; exact hi
  · rw [e]
    apply inv_watchKeyNew q c _ k (inv_purge q s _ k now hi)
    rw [conn_purge, active_purge]; exact hs

theorem inv_watchAll (q : Q) (c : Nat) (now : Nat) (s : State) (keys : List Key) (hi : Inv q s)
    (hs : safeWatch q c now s keys = true) : Inv q (watchAll q c now s keys) := by
  induction keys generalizing s with
  | nil => exact hi
  | cons k r ih =>
    simp only [safeWatch, Bool.and_eq_true, decide_eq_true_eq] at hs
    simp only [watchAll, List.foldl_cons] at ih ⊢
    exact ih _ (inv_watchKey q c now s k hi hs.1) hs.2

/-! ### UNWATCH -/

theorem active_unregisterW (q : Q) (cn : Conn) (s : State) (w : W) (d sh : Nat) :
    (unregisterW q cn s w).active d sh =
      if (effDb q cn w, shardOf w.key) = (d, sh) then (s.active d sh + (two64 - 1)) % two64 else s.active d sh := by
  unfold unregisterW
  simp only []
  rw [active_setTracker]
  split
  · rename_i e
    simp only [Prod.mk.injEq] at e
    rw [unregister_active]
    have : (s.tracker (effDb q cn w) (shardOf w.key)).active = s.active (effDb q cn w) (shardOf w.key) := rfl
    rw [this, e.1, e.2]
  · rfl

/-- unregistering entries in the databases where they were registered takes exactly their number off
    each watcher count (no wrap-around while the count covers them) -/
theorem active_unregAll (q : Q) (cn : Conn) (s : State) (ws : List W)
    (heff : ∀ w ∈ ws, effDb q cn w = w.regDb)
    (hcov : ∀ d sh, wcount d sh ws ≤ s.active d sh) (hb : ∀ d sh, s.active d sh < two64) :
    ∀ d sh, (unregAll q cn s ws).active d sh + wcount d sh ws = s.active d sh := by
  induction ws generalizing s with
  | nil => intro d sh; simp [unregAll, wcount_nil]
  | cons w r ih =>
    intro d sh
    simp only [unregAll, List.foldl_cons] at ih ⊢
    have hw : effDb q cn w = w.regDb := heff w List.mem_cons_self
    have hact : ∀ d sh, (unregisterW q cn s w).active d sh + (if w.regDb = d ∧ shardOf w.key = sh then 1 else 0) = s.active d sh := by
      intro d sh
      rw [active_unregisterW, hw]
      have h1 := hcov d sh
      rw [wcount_cons] at h1
      have h2 := hb d sh
      by_cases e : w.regDb = d ∧ shardOf w.key = sh
      · have e' : (w.regDb, shardOf w.key) = (d, sh) := by rw [e.1, e.2]
        simp only [e, if_true, and_self] at h1 ⊢
        unfold two64 at h2 ⊢
        omega
      · have e' : ¬ (w.regDb, shardOf w.key) = (d, sh) := by
          intro x; simp only [Prod.mk.injEq] at x; exact e x
        simp only [e', e, if_false]
        omega
    have hcov' : ∀ d sh, wcount d sh r ≤ (unregisterW q cn s w).active d sh := by
      intro d sh
      have h1 := hcov d sh
      rw [wcount_cons] at h1
      have := hact d sh
      omega
    have hb' : ∀ d sh, (unregisterW q cn s w).active d sh < two64 := by
      intro d sh
      have := hact d sh
      have := hb d sh
      omega
    have := ih (unregisterW q cn s w) (fun w' m => heff w' (List.mem_cons_of_mem _ m)) hcov' hb' d sh
    rw [wcount_cons]
    have := hact d sh
    omega

theorem inv_unwatch (q : Q) (s : State) (now c : Nat) (hi : Inv q s) : Inv q (step q s now (.unwatch c)).1 := by
  rw [step_unwatch]
  split
  · exact inv_setConn q s c { (s.conn c) with queued := (s.conn c).queued + 1 } hi (fun w h => h) (fun d sh => Nat.le_refl _) (fun _ _ => rfl)
  rename_i hnq
  have heff : ∀ w ∈ (s.conn c).watched, effDb q (s.conn c) w = w.regDb := by
    intro w m
    unfold effDb
    cases hp : q.perDb
    · simp only [Bool.false_eq_true, if_false]; exact (hi.here hp c w m).symm
    · rfl
  have hcov : ∀ d sh, wcount d sh (s.conn c).watched ≤ s.active d sh :=
    fun d sh => Nat.le_trans (wcount_le_regCount s c d sh) (hi.reg d sh)
  have hact := active_unregAll q (s.conn c) s (s.conn c).watched heff hcov hi.bound
  have hgr := grows_unregAll q (s.conn c) s (s.conn c).watched
  refine ⟨((hgr.trans (grows_setConn _ _ _)).tok hi.tok), fun d sh => ?_, fun d sh => ?_, fun c' w h => ?_, fun hp c' w h => ?_⟩
  · have h1 : regCount ((unregAll q (s.conn c) s (s.conn c).watched).setConn c { (s.conn c) with watched := [] }) d sh +
        wcount d sh (s.conn c).watched = regCount s d sh := by
      have := regCount_setConn (unregAll q (s.conn c) s (s.conn c).watched) c { (s.conn c) with watched := [] } d sh
      rw [conn_conns_eq (conns_unregAll _ _ _ _), regCount_conns_eq (conns_unregAll _ _ _ _)] at this
      have hz : wcount d sh ({ (s.conn c) with watched := [] } : Conn).watched = 0 := rfl
      rw [hz] at this
      omega
    rw [active_setConn]
    have := hact d sh
    have := hi.reg d sh
    omega
  · rw [active_setConn]
    have := hact d sh
    have := hi.bound d sh
    omega
  · rw [tracker_setConn, global_unregAll]
    rw [conn_setConn] at h
    split at h
    · simp at h
    · rw [conn_conns_eq (conns_unregAll _ _ _ _)] at h
      exact hi.base c' w h
  · rw [conn_setConn] at h ⊢
    split at h
    · simp at h
    · rename_i e
      simp only [e, if_false]
      rw [conn_conns_eq (conns_unregAll _ _ _ _)] at h ⊢
      exact hi.here hp c' w h

/-! ### all steps -/

/-- the event is safe in state `s`: no registration wraps the usize watcher count, and a connection that
    holds watch entries does not SELECT another database unless entries remember theirs -/
def stepSafe (q : Q) (s : State) (now : Nat) : Ev → Bool
  | .watch c keys => safeWatch q c now s keys
  | .select c d => q.perDb || (s.conn c).inTx || (s.conn c).watched.isEmpty || decide (d = (s.conn c).db)
  | _ => true

def Safe (q : Q) : State → List (Nat × Ev) → Bool
  | _, [] => true
  | s, (now, ev) :: r => stepSafe q s now ev && Safe q (step q s now ev).1 r

theorem inv_cleared (q : Q) (s : State) (c : Nat) (hi : Inv q s) : Inv q (s.setConn c (s.conn c).cleared) := by
  apply inv_setConn q s c _ hi
  · intro w h; simp [Conn.cleared] at h
  · intro d sh; simp [Conn.cleared, wcount_nil]
  · intro _ h; simp [Conn.cleared] at h

theorem inv_step (q : Q) (s : State) (now : Nat) (ev : Ev) (hi : Inv q s) (hs : stepSafe q s now ev = true) :
    Inv q (step q s now ev).1 := by
  cases ev with
  | watch c keys =>
    rw [step_watch]
    split
    · exact hi
    · exact inv_watchAll q c now s keys hi hs
  | unwatch c => exact inv_unwatch q s now c hi
  | multi c =>
    rw [step_multi]
    split
    · exact hi
    · exact inv_setConn q s c { (s.conn c) with inTx := true, queued := 0 } hi (fun w h => h) (fun d sh => Nat.le_refl _) (fun _ _ => rfl)
  | exec c ops =>
    rw [step_exec]
    split
    · exact hi
    · split
      · exact inv_cleared q s c hi
      · exact inv_of_grows q _ _ (inv_cleared q s c hi) (grows_applyOps _ _ _) (conns_applyOps _ _ _)
          (fun d sh => active_applyOps _ _ _ d sh)
  | discard c =>
    rw [step_discard]
    split
    · exact hi
    · exact inv_cleared q s c hi
  | select c d =>
    rw [step_select]
    split
    · exact inv_setConn q s c { (s.conn c) with queued := (s.conn c).queued + 1 } hi (fun w h => h) (fun d sh => Nat.le_refl _) (fun _ _ => rfl)
    · rename_i hin
      split
      · exact hi
      · apply inv_setConn q s c { (s.conn c) with db := d } hi (fun w h => h) (fun d sh => Nat.le_refl _)
        intro hp hne
        simp only [stepSafe, hp, Bool.false_or, Bool.or_eq_true, List.isEmpty_iff, decide_eq_true_eq] at hs
        rcases hs with (h1 | h1) | h1
        · exact absurd h1 hin
        · exact absurd h1 hne
        · exact h1
  | cmd c ops =>
    rw [step_cmd]
    split
    · exact inv_setConn q s c { (s.conn c) with queued := (s.conn c).queued + 1 } hi (fun w h => h) (fun d sh => Nat.le_refl _) (fun _ _ => rfl)
    · exact inv_of_grows q _ _ hi (grows_applyOps _ _ _) (conns_applyOps _ _ _) (fun d sh => active_applyOps _ _ _ d sh)
  | refused c => exact hi
  | sweep d k m =>
    rw [step_sweep]
    exact inv_of_grows q _ _ hi (grows_sweepKey _ _ _ _ _) (conns_sweepKey _ _ _ _ _) (fun d' sh' => active_sweepKey _ _ _ _ _ d' sh')

theorem inv_run (q : Q) (s : State) (evs : List (Nat × Ev)) (hi : Inv q s) (hs : Safe q s evs = true) :
    Inv q (run q s evs) := by
  induction evs generalizing s with
  | nil => exact hi
  | cons e r ih =>
    obtain ⟨now, ev⟩ := e
    simp only [Safe, Bool.and_eq_true] at hs
    simp only [run]
    exact ih _ (inv_step q s now ev hi hs.1) hs.2

theorem safe_append (q : Q) (s : State) (a b : List (Nat × Ev)) (h : Safe q s (a ++ b) = true) :
    Safe q s a = true ∧ Safe q (run q s a) b = true := by
  induction a generalizing s with
  | nil => exact ⟨rfl, h⟩
  | cons e r ih =>
    obtain ⟨now, ev⟩ := e
    simp only [List.cons_append, Safe, Bool.and_eq_true] at h ⊢
    simp only [run]
    have := ih _ h.2
    exact ⟨⟨h.1, this.1⟩, this.2⟩

/-- while a connection holds an entry registered on (d, shard of k), marking is not a no-op there -/
theorem active_pos_of_watched (q : Q) (s : State) (hi : Inv q s) (c : Nat) (w : W) (h : w ∈ (s.conn c).watched) :
    s.active w.regDb (shardOf w.key) ≠ 0 := by
  have h1 := wcount_pos_of_mem w.regDb (shardOf w.key) (s.conn c).watched w h rfl rfl
  have h2 := wcount_le_regCount s c w.regDb (shardOf w.key)
  have h3 := hi.reg w.regDb (shardOf w.key)
  omega

end Ferrous.Watch
