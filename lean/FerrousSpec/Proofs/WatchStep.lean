/-
  C08 helper lemmas, part 3: whole steps and histories — trackers only grow, a quiet connection keeps
  its watch list, untouched keys keep counter and entry, an executed marking operation is seen.
-/
import FerrousSpec.Proofs.WatchOps
namespace Ferrous.Watch

/-! ### WATCH of one key -/

/-- the connection record after registering `k` with baseline `b` -/
def watchConn (q : Q) (cn : Conn) (k : Key) (b : Nat) : Conn :=
  { cn with watched := ⟨k, b, cn.db⟩ ::
      cn.watched.filter (fun w => !(decide (w.key = k) && (!q.perDb || decide (w.regDb = cn.db)))) }

/-- the registering branch of `watchKey` -/
def watchKeyNew (q : Q) (c : Nat) (s : State) (k : Key) : State :=
  (s.setTracker (s.conn c).db (shardOf k) ((s.tracker (s.conn c).db (shardOf k)).register k).1).setConn c
    (watchConn q (s.conn c) k ((s.tracker (s.conn c).db (shardOf k)).register k).2)

/-! the purge of the `watchPurges` variant is the sweeper's deletion -/

/-- is the stored entry past its deadline? -/
def expiredNow (s : State) (d : Nat) (k : Key) (now : Nat) : Bool :=
  match s.entry d k with
  | some e => e.expired now
  | none => false

theorem sweepKey_not_expired (s : State) (d : Nat) (k : Key) (m : Bool) (now : Nat)
    (h : expiredNow s d k now = false) : sweepKey s d k m now = s := by
  unfold expiredNow at h
  unfold sweepKey
  split
  · rename_i e he
    rw [he] at h
    simp only at h
    simp [h]
  · rfl

@[simp] theorem conns_purge (q : Q) (s : State) (d : Nat) (k : Key) (now : Nat) :
    (purgeAtWatch q s d k now).conns = s.conns := by
  unfold purgeAtWatch; split <;> simp

@[simp] theorem conn_purge (q : Q) (s : State) (d : Nat) (k : Key) (now : Nat) (c : Nat) :
    (purgeAtWatch q s d k now).conn c = s.conn c := by
  unfold State.conn; rw [conns_purge]

@[simp] theorem active_purge (q : Q) (s : State) (d : Nat) (k : Key) (now : Nat) (d' sh' : Nat) :
    (purgeAtWatch q s d k now).active d' sh' = s.active d' sh' := by
  unfold purgeAtWatch; split <;> simp

theorem grows_purge (q : Q) (s : State) (d : Nat) (k : Key) (now : Nat) : Grows s (purgeAtWatch q s d k now) := by
  unfold purgeAtWatch
  split
  · exact grows_sweepKey s d k true now
  · exact Grows.refl s

/-- the purge leaves `(d', k')` alone unless it is the purged key, purging is on and the entry is expired -/
theorem purge_untouched (q : Q) (s : State) (d : Nat) (k : Key) (now : Nat) (d' : Nat) (k' : Key)
    (h : ¬ (q.watchPurges = true ∧ (d, k) = (d', k') ∧ expiredNow s d' k' now = true)) :
    (purgeAtWatch q s d k now).counter d' k' = s.counter d' k' ∧ (purgeAtWatch q s d k now).entry d' k' = s.entry d' k' := by
  unfold purgeAtWatch
  by_cases hp : q.watchPurges = true
  · simp only [hp, if_true]
    by_cases e : (d, k) = (d', k')
    · have hx : expiredNow s d' k' now = false := by
        cases hh : expiredNow s d' k' now
        · rfl
        · exact absurd ⟨hp, e, hh⟩ h
      simp only [Prod.mk.injEq] at e
      obtain ⟨e1, e2⟩ := e
      subst e1; subst e2
      rw [sweepKey_not_expired s d k true now hx]
      exact ⟨rfl, rfl⟩
    · exact sweepKey_untouched s d k true now d' k' e
  · simp only [hp]
    exact ⟨rfl, rfl⟩

theorem purge_changed_marks (q : Q) (s : State) (d : Nat) (k : Key) (now : Nat)
    (hch : (purgeAtWatch q s d k now).entry d k ≠ s.entry d k) (ha : s.active d (shardOf k) ≠ 0) :
    (s.tracker d (shardOf k)).global < (purgeAtWatch q s d k now).counter d k := by
  unfold purgeAtWatch at hch ⊢
  split
  · rename_i hp
    simp only [hp, if_true] at hch
    exact sweepKey_changed_marks s d k now hch ha
  · rename_i hp
    simp only [hp] at hch
    exact absurd rfl hch

theorem watchKey_cases (q : Q) (c : Nat) (now : Nat) (s : State) (k : Key) :
    watchKey q c now s k = s ∨
    watchKey q c now s k = watchKeyNew q c (purgeAtWatch q s (s.conn c).db k now) k := by
  unfold watchKey watchKeyNew watchConn
  simp only [conn_purge]
  split
  · exact Or.inl rfl
  · exact Or.inr rfl

theorem grows_watchKeyNew (q : Q) (c : Nat) (s : State) (k : Key) : Grows s (watchKeyNew q c s k) := by
  unfold watchKeyNew
  exact (grows_setTracker_same s (s.conn c).db (shardOf k) ((s.tracker (s.conn c).db (shardOf k)).register k).1
    rfl (fun _ => rfl)).trans (grows_setConn _ _ _)

theorem counter_watchKeyNew (q : Q) (c : Nat) (s : State) (k : Key) (d : Nat) (k' : Key) :
    (watchKeyNew q c s k).counter d k' = s.counter d k' := by
  unfold watchKeyNew
  rw [counter_setConn]
  exact counter_setTracker_same s (s.conn c).db (shardOf k) ((s.tracker (s.conn c).db (shardOf k)).register k).1
    (fun _ => rfl) d k'

theorem entry_watchKeyNew (q : Q) (c : Nat) (s : State) (k : Key) (d : Nat) (k' : Key) :
    (watchKeyNew q c s k).entry d k' = s.entry d k' := rfl

theorem global_watchKeyNew (q : Q) (c : Nat) (s : State) (k : Key) (d sh : Nat) :
    ((watchKeyNew q c s k).tracker d sh).global = (s.tracker d sh).global := by
  unfold watchKeyNew
  rw [tracker_setConn]
  exact global_setTracker_same s (s.conn c).db (shardOf k) ((s.tracker (s.conn c).db (shardOf k)).register k).1 rfl d sh

theorem grows_watchKey (q : Q) (c : Nat) (now : Nat) (s : State) (k : Key) : Grows s (watchKey q c now s k) := by
  rcases watchKey_cases q c now s k with h | h
  · rw [h]; exact Grows.refl s
  · rw [h]
    exact (grows_purge q s _ k now).trans (grows_watchKeyNew q c _ k)

/-- WATCH of `k0` leaves counter and entry of `(d, k)` alone unless it purges exactly that entry -/
theorem watchKey_same (q : Q) (c : Nat) (now : Nat) (s : State) (k0 : Key) (d : Nat) (k : Key)
    (h : ¬ (q.watchPurges = true ∧ ((s.conn c).db, k0) = (d, k) ∧ expiredNow s d k now = true)) :
    (watchKey q c now s k0).counter d k = s.counter d k ∧ (watchKey q c now s k0).entry d k = s.entry d k := by
  rcases watchKey_cases q c now s k0 with e | e
  · rw [e]; exact ⟨rfl, rfl⟩
  · rw [e, counter_watchKeyNew, entry_watchKeyNew]
    exact purge_untouched q s (s.conn c).db k0 now d k h

theorem conn_watchKey_other (q : Q) (c : Nat) (now : Nat) (s : State) (k : Key) (c' : Nat) (h : c ≠ c') :
    (watchKey q c now s k).conn c' = s.conn c' := by
  rcases watchKey_cases q c now s k with e | e
  · rw [e]
  · rw [e]; unfold watchKeyNew; rw [conn_setConn]; simp [h]

theorem db_watchKey (q : Q) (c : Nat) (now : Nat) (s : State) (k : Key) (c' : Nat) :
    ((watchKey q c now s k).conn c').db = (s.conn c').db := by
  rcases watchKey_cases q c now s k with e | e
  · rw [e]
  · rw [e]; unfold watchKeyNew; rw [conn_setConn]
    split
    · rename_i h; subst h; simp [watchConn]
    · simp

def watchAll (q : Q) (c : Nat) (now : Nat) (s : State) (keys : List Key) : State := keys.foldl (watchKey q c now) s

theorem grows_watchAll (q : Q) (c : Nat) (now : Nat) (s : State) (keys : List Key) : Grows s (watchAll q c now s keys) := by
  induction keys generalizing s with
  | nil => exact Grows.refl s
  | cons k r ih =>
    simp only [watchAll, List.foldl_cons] at ih ⊢
    exact (grows_watchKey q c now s k).trans (ih _)

/-- does this WATCH purge the entry `(d, k)`? -/
def watchTouches (q : Q) (s : State) (now : Nat) (c : Nat) (keys : List Key) (d : Nat) (k : Key) : Bool :=
  q.watchPurges && decide ((s.conn c).db = d) && keys.contains k && expiredNow s d k now

theorem watchAll_same (q : Q) (c : Nat) (now : Nat) (s : State) (keys : List Key) (d : Nat) (k : Key)
    (h : watchTouches q s now c keys d k = false) :
    (watchAll q c now s keys).counter d k = s.counter d k ∧ (watchAll q c now s keys).entry d k = s.entry d k := by
  induction keys generalizing s with
  | nil => exact ⟨rfl, rfl⟩
  | cons k0 r ih =>
    simp only [watchAll, List.foldl_cons] at ih ⊢
    have h0 : ¬ (q.watchPurges = true ∧ ((s.conn c).db, k0) = (d, k) ∧ expiredNow s d k now = true) := by
      rintro ⟨hp, e, hx⟩
      simp only [Prod.mk.injEq] at e
      simp [watchTouches, hp, e.1, e.2, hx] at h
    have h1 := watchKey_same q c now s k0 d k h0
    have h2 : watchTouches q (watchKey q c now s k0) now c r d k = false := by
      have hx : expiredNow (watchKey q c now s k0) d k now = expiredNow s d k now := by
        unfold expiredNow; rw [h1.2]
      unfold watchTouches at h ⊢
      rw [db_watchKey, hx]
      cases hp : q.watchPurges
      · simp
      · simp only [hp, Bool.true_and] at h ⊢
        by_cases hd : (s.conn c).db = d
        · simp only [hd, decide_true, Bool.true_and] at h ⊢
          cases hxx : expiredNow s d k now
          · simp
          · simp only [hxx, Bool.and_true] at h ⊢
            simp only [List.contains_cons, Bool.or_eq_false_iff] at h
            exact h.2
        · simp [hd]
    have := ih (watchKey q c now s k0) h2
    exact ⟨this.1.trans h1.1, this.2.trans h1.2⟩

theorem conn_watchAll_other (q : Q) (c : Nat) (now : Nat) (s : State) (keys : List Key) (c' : Nat) (h : c ≠ c') :
    (watchAll q c now s keys).conn c' = s.conn c' := by
  induction keys generalizing s with
  | nil => rfl
  | cons k r ih =>
    simp only [watchAll, List.foldl_cons] at ih ⊢
    rw [ih, conn_watchKey_other q c now s k c' h]

/-! ### UNWATCH: unregistering a list of entries -/

def unregAll (q : Q) (cn : Conn) (s : State) (ws : List W) : State := ws.foldl (unregisterW q cn) s

theorem grows_unregisterW (q : Q) (cn : Conn) (s : State) (w : W) : Grows s (unregisterW q cn s w) := by
  unfold unregisterW
  exact grows_setTracker_same s _ _ _ (unregister_global _) (fun _ => unregister_counter _ _)

@[simp] theorem conns_unregisterW (q : Q) (cn : Conn) (s : State) (w : W) : (unregisterW q cn s w).conns = s.conns := rfl
@[simp] theorem data_unregisterW (q : Q) (cn : Conn) (s : State) (w : W) : (unregisterW q cn s w).data = s.data := rfl

theorem counter_unregisterW (q : Q) (cn : Conn) (s : State) (w : W) (d : Nat) (k : Key) :
    (unregisterW q cn s w).counter d k = s.counter d k := by
  unfold unregisterW
  exact counter_setTracker_same _ _ _ _ (fun _ => unregister_counter _ _) d k

theorem global_unregisterW (q : Q) (cn : Conn) (s : State) (w : W) (d sh : Nat) :
    ((unregisterW q cn s w).tracker d sh).global = (s.tracker d sh).global := by
  unfold unregisterW
  exact global_setTracker_same _ _ _ _ (unregister_global _) d sh

theorem grows_unregAll (q : Q) (cn : Conn) (s : State) (ws : List W) : Grows s (unregAll q cn s ws) := by
  induction ws generalizing s with
  | nil => exact Grows.refl s
  | cons w r ih =>
    simp only [unregAll, List.foldl_cons] at ih ⊢
    exact (grows_unregisterW q cn s w).trans (ih _)

@[simp] theorem conns_unregAll (q : Q) (cn : Conn) (s : State) (ws : List W) : (unregAll q cn s ws).conns = s.conns := by
  induction ws generalizing s with
  | nil => rfl
  | cons w r ih => simp only [unregAll, List.foldl_cons] at ih ⊢; rw [ih]; rfl

@[simp] theorem data_unregAll (q : Q) (cn : Conn) (s : State) (ws : List W) : (unregAll q cn s ws).data = s.data := by
  induction ws generalizing s with
  | nil => rfl
  | cons w r ih => simp only [unregAll, List.foldl_cons] at ih ⊢; rw [ih]; rfl

theorem counter_unregAll (q : Q) (cn : Conn) (s : State) (ws : List W) (d : Nat) (k : Key) :
    (unregAll q cn s ws).counter d k = s.counter d k := by
  induction ws generalizing s with
  | nil => rfl
  | cons w r ih => simp only [unregAll, List.foldl_cons] at ih ⊢; rw [ih, counter_unregisterW]

theorem global_unregAll (q : Q) (cn : Conn) (s : State) (ws : List W) (d sh : Nat) :
    ((unregAll q cn s ws).tracker d sh).global = (s.tracker d sh).global := by
  induction ws generalizing s with
  | nil => rfl
  | cons w r ih => simp only [unregAll, List.foldl_cons] at ih ⊢; rw [ih, global_unregisterW]

/-! ### `step` in terms of the folds above -/

theorem step_watch (q : Q) (s : State) (now c : Nat) (keys : List Key) :
    (step q s now (.watch c keys)).1 = if keys.isEmpty || (s.conn c).inTx then s else watchAll q c now s keys := by
  simp only [step, watchAll]
  split <;> rfl

theorem step_unwatch (q : Q) (s : State) (now c : Nat) :
    (step q s now (.unwatch c)).1 =
      if (q.unwatchQueued && (s.conn c).inTx) = true then s.setConn c { (s.conn c) with queued := (s.conn c).queued + 1 }
      else (unregAll q (s.conn c) s (s.conn c).watched).setConn c { s.conn c with watched := [] } := by
  simp only [step, unregAll]
  split <;> rfl

theorem step_refused (q : Q) (s : State) (now c : Nat) : (step q s now (.refused c)).1 = s := rfl

/-- the connection after EXEC / DISCARD -/
def Conn.cleared (cn : Conn) : Conn := { cn with inTx := false, watched := [], queued := 0 }

theorem step_multi (q : Q) (s : State) (now c : Nat) :
    (step q s now (.multi c)).1 =
      if (s.conn c).inTx = true then s else s.setConn c { (s.conn c) with inTx := true, queued := 0 } := by
  simp only [step]; split <;> rfl

theorem step_exec (q : Q) (s : State) (now c : Nat) (ops : List Op) :
    (step q s now (.exec c ops)).1 =
      if (s.conn c).inTx = false then s
      else if execAborts q s (s.conn c) now = true then s.setConn c (s.conn c).cleared
      else applyOps (s.setConn c (s.conn c).cleared) (s.conn c).db ops := by
  simp only [step, Conn.cleared]
  cases (s.conn c).inTx
  · rfl
  · simp only [Bool.not_true, Bool.false_eq_true, if_false]
    split <;> rfl

theorem step_discard (q : Q) (s : State) (now c : Nat) :
    (step q s now (.discard c)).1 = if (s.conn c).inTx = false then s else s.setConn c (s.conn c).cleared := by
  simp only [step, Conn.cleared]
  cases (s.conn c).inTx <;> rfl

theorem step_select (q : Q) (s : State) (now c d : Nat) :
    (step q s now (.select c d)).1 =
      if (s.conn c).inTx = true then s.setConn c { (s.conn c) with queued := (s.conn c).queued + 1 }
      else if 16 ≤ d then s else s.setConn c { (s.conn c) with db := d } := by
  simp only [step]
  split
  · rfl
  · split <;> rfl

theorem step_cmd (q : Q) (s : State) (now c : Nat) (ops : List Op) :
    (step q s now (.cmd c ops)).1 =
      if (s.conn c).inTx = true then s.setConn c { (s.conn c) with queued := (s.conn c).queued + 1 }
      else applyOps s (s.conn c).db ops := by
  simp only [step]; split <;> rfl

theorem step_sweep (q : Q) (s : State) (now d : Nat) (k : Key) (m : Bool) :
    (step q s now (.sweep d k m)).1 = sweepKey s d k m now := rfl

/-! ### every step lets trackers only grow -/

theorem grows_step (q : Q) (s : State) (now : Nat) (ev : Ev) : Grows s (step q s now ev).1 := by
  cases ev with
  | watch c keys =>
    rw [step_watch]
    split
    · exact Grows.refl s
    · exact grows_watchAll q c now s keys
  | unwatch c =>
    rw [step_unwatch]
    split
    · exact grows_setConn _ _ _
    · exact (grows_unregAll q _ s _).trans (grows_setConn _ _ _)
  | refused c => exact Grows.refl s
  | multi c =>
    simp only [step]
    split
    · exact Grows.refl s
    · exact grows_setConn _ _ _
  | exec c ops =>
    simp only [step]
    split
    · exact Grows.refl s
    · split
      · exact grows_setConn _ _ _
      · exact (grows_setConn s c _).trans (grows_applyOps _ _ _)
  | discard c =>
    simp only [step]
    split
    · exact Grows.refl s
    · exact grows_setConn _ _ _
  | select c d =>
    simp only [step]
    split
    · exact grows_setConn _ _ _
    · split
      · exact Grows.refl s
      · exact grows_setConn _ _ _
  | cmd c ops =>
    simp only [step]
    split
    · exact grows_setConn _ _ _
    · exact grows_applyOps _ _ _
  | sweep d k m =>
    simp only [step]
    exact grows_sweepKey s d k m now

theorem grows_run (q : Q) (s : State) (evs : List (Nat × Ev)) : Grows s (run q s evs) := by
  induction evs generalizing s with
  | nil => exact Grows.refl s
  | cons e r ih =>
    obtain ⟨now, ev⟩ := e
    simp only [run]
    exact (grows_step q s now ev).trans (ih _)

theorem run_append (q : Q) (s : State) (a b : List (Nat × Ev)) : run q s (a ++ b) = run q (run q s a) b := by
  induction a generalizing s with
  | nil => rfl
  | cons e r ih => obtain ⟨now, ev⟩ := e; simp only [List.cons_append, run]; exact ih _

/-! ### a quiet connection keeps its watch list -/

/-- `c` issues no WATCH, UNWATCH, EXEC, DISCARD in this event, and no SELECT unless watch entries
    remember their database (MULTI and data commands are allowed; other connections may do anything) -/
def quiet (q : Q) (c : Nat) : Ev → Bool
  | .watch c' _ => decide (c' ≠ c)
  | .unwatch c' => decide (c' ≠ c)
  | .exec c' _ => decide (c' ≠ c)
  | .discard c' => decide (c' ≠ c)
  | .select c' _ => decide (c' ≠ c) || q.perDb
  | _ => true

theorem quiet_step (q : Q) (s : State) (now : Nat) (ev : Ev) (c : Nat) (h : quiet q c ev = true) :
    ((step q s now ev).1.conn c).watched = (s.conn c).watched ∧
    (q.perDb = true ∨ ((step q s now ev).1.conn c).db = (s.conn c).db) := by
  cases ev with
  | watch c' keys =>
    have hc : c' ≠ c := by simpa [quiet] using h
    rw [step_watch]
    split
    · exact ⟨rfl, Or.inr rfl⟩
    · rw [conn_watchAll_other q c' now s keys c hc]; exact ⟨rfl, Or.inr rfl⟩
  | unwatch c' =>
    have hc : c' ≠ c := by simpa [quiet] using h
    rw [step_unwatch]
    split
    · rw [conn_setConn]; simp [hc]
    · rw [conn_setConn]
      simp only [hc, if_false]
      unfold State.conn; rw [conns_unregAll]; exact ⟨rfl, Or.inr rfl⟩
  | refused c' => exact ⟨rfl, Or.inr rfl⟩
  | multi c' =>
    rw [step_multi]
    split
    · exact ⟨rfl, Or.inr rfl⟩
    · rw [conn_setConn]
      split
      · rename_i e; subst e; exact ⟨rfl, Or.inr rfl⟩
      · exact ⟨rfl, Or.inr rfl⟩
  | exec c' ops =>
    have hc : c' ≠ c := by simpa [quiet] using h
    rw [step_exec]
    split
    · exact ⟨rfl, Or.inr rfl⟩
    · split
      · rw [conn_setConn]; simp [hc]
      · rw [conn_applyOps, conn_setConn]; simp [hc]
  | discard c' =>
    have hc : c' ≠ c := by simpa [quiet] using h
    rw [step_discard]
    split
    · exact ⟨rfl, Or.inr rfl⟩
    · rw [conn_setConn]; simp [hc]
  | select c' d =>
    rw [step_select]
    split
    · rw [conn_setConn]
      split
      · rename_i e; subst e; exact ⟨rfl, Or.inr rfl⟩
      · exact ⟨rfl, Or.inr rfl⟩
    · split
      · exact ⟨rfl, Or.inr rfl⟩
      · rw [conn_setConn]
        split
        · rename_i e; subst e
          refine ⟨rfl, ?_⟩
          have : q.perDb = true := by simpa [quiet] using h
          exact Or.inl this
        · exact ⟨rfl, Or.inr rfl⟩
  | cmd c' ops =>
    rw [step_cmd]
    split
    · rw [conn_setConn]
      split
      · rename_i e; subst e; exact ⟨rfl, Or.inr rfl⟩
      · exact ⟨rfl, Or.inr rfl⟩
    · rw [conn_applyOps]; exact ⟨rfl, Or.inr rfl⟩
  | sweep d k m =>
    rw [step_sweep]
    unfold State.conn; rw [conns_sweepKey]; exact ⟨rfl, Or.inr rfl⟩

theorem quiet_run (q : Q) (s : State) (evs : List (Nat × Ev)) (c : Nat) (h : ∀ e ∈ evs, quiet q c e.2 = true) :
    ((run q s evs).conn c).watched = (s.conn c).watched ∧
    (q.perDb = true ∨ ((run q s evs).conn c).db = (s.conn c).db) := by
  induction evs generalizing s with
  | nil => exact ⟨rfl, Or.inr rfl⟩
  | cons e r ih =>
    obtain ⟨now, ev⟩ := e
    simp only [run]
    have h1 := quiet_step q s now ev c (h (now, ev) List.mem_cons_self)
    have h2 := ih (step q s now ev).1 (fun e m => h e (List.mem_cons_of_mem _ m))
    refine ⟨h2.1.trans h1.1, ?_⟩
    rcases h2.2 with p | p
    · exact Or.inl p
    · rcases h1.2 with p' | p'
      · exact Or.inl p'
      · exact Or.inr (p.trans p')

/-- the database in which a kept entry is looked at does not move while the connection is quiet -/
theorem effDb_quiet (q : Q) (cn cn' : Conn) (w : W) (h : q.perDb = true ∨ cn'.db = cn.db) :
    effDb q cn' w = effDb q cn w := by
  unfold effDb
  rcases h with p | p
  · simp [p]
  · rw [p]

/-! ### untouched keys -/

/-- does the event address the entry `(d, k)`: an executed operation on it (or a flush of its database),
    or the sweeper's deletion of it -/
def evTouches (q : Q) (s : State) (now : Nat) (d : Nat) (k : Key) (ev : Ev) : Bool :=
  (executed q s now ev).any (fun p => opTouches d k p.1 p.2) ||
    (match ev with
     | .sweep d' k' _ => decide (d' = d) && decide (k' = k)
     | .watch c keys => !(keys.isEmpty || (s.conn c).inTx) && watchTouches q s now c keys d k
     | _ => false)

def untouched (q : Q) (d : Nat) (k : Key) : State → List (Nat × Ev) → Bool
  | _, [] => true
  | s, (now, ev) :: r => !evTouches q s now d k ev && untouched q d k (step q s now ev).1 r

theorem step_untouched (q : Q) (s : State) (now : Nat) (ev : Ev) (d : Nat) (k : Key)
    (h : evTouches q s now d k ev = false) :
    (step q s now ev).1.counter d k = s.counter d k ∧ (step q s now ev).1.entry d k = s.entry d k := by
  cases ev with
  | watch c keys =>
    rw [step_watch]
    split
    · exact ⟨rfl, rfl⟩
    · rename_i hc
      simp only [evTouches, executed, List.any_nil, Bool.false_or, hc, Bool.not_false, Bool.true_and] at h
      exact watchAll_same q c now s keys d k h
  | unwatch c =>
    rw [step_unwatch]
    split
    · exact ⟨rfl, rfl⟩
    · refine ⟨?_, ?_⟩
      · rw [counter_setConn, counter_unregAll]
      · rw [entry_setConn]; unfold State.entry; rw [data_unregAll]
  | refused c => exact ⟨rfl, rfl⟩
  | multi c => simp only [step]; split <;> exact ⟨rfl, rfl⟩
  | exec c ops =>
    simp only [evTouches, executed, Bool.or_false] at h
    simp only [step]
    split
    · exact ⟨rfl, rfl⟩
    · rename_i hin
      split
      · exact ⟨rfl, rfl⟩
      · rename_i hab
        have hin' : (s.conn c).inTx = true := by simpa using hin
        have hab' : execAborts q s (s.conn c) now = false := by simpa using hab
        simp only [hin', hab', Bool.not_false, Bool.and_self, if_true] at h
        have hu : ∀ o ∈ ops, opTouches d k (s.conn c).db o = false := by
          intro o m
          have := (List.any_eq_false.mp h) ((s.conn c).db, o) (List.mem_map.mpr ⟨o, m, rfl⟩)
          simpa using this
        exact applyOps_untouched _ _ ops d k hu
  | discard c => simp only [step]; split <;> exact ⟨rfl, rfl⟩
  | select c d' =>
    simp only [step]
    split
    · exact ⟨rfl, rfl⟩
    · split <;> exact ⟨rfl, rfl⟩
  | cmd c ops =>
    simp only [evTouches, executed, Bool.or_false] at h
    simp only [step]
    split
    · exact ⟨rfl, rfl⟩
    · rename_i hin
      have hin' : (s.conn c).inTx = false := by simpa using hin
      simp only [hin', Bool.false_eq_true, if_false] at h
      have hu : ∀ o ∈ ops, opTouches d k (s.conn c).db o = false := by
        intro o m
        have := (List.any_eq_false.mp h) ((s.conn c).db, o) (List.mem_map.mpr ⟨o, m, rfl⟩)
        simpa using this
      exact applyOps_untouched _ _ ops d k hu
  | sweep d' k' m =>
    simp only [evTouches, executed, List.any_nil, Bool.false_or] at h
    simp only [step]
    apply sweepKey_untouched
    intro e
    simp only [Prod.mk.injEq] at e
    simp [e.1, e.2] at h

theorem run_untouched (q : Q) (s : State) (evs : List (Nat × Ev)) (d : Nat) (k : Key)
    (h : untouched q d k s evs = true) :
    (run q s evs).counter d k = s.counter d k ∧ (run q s evs).entry d k = s.entry d k := by
  induction evs generalizing s with
  | nil => exact ⟨rfl, rfl⟩
  | cons e r ih =>
    obtain ⟨now, ev⟩ := e
    simp only [untouched, Bool.and_eq_true, Bool.not_eq_true'] at h
    simp only [run]
    have h1 := step_untouched q s now ev d k h.1
    have h2 := ih (step q s now ev).1 h.2
    exact ⟨h2.1.trans h1.1, h2.2.trans h1.2⟩

/-! ### an executed marking operation, a change made by marking operations -/

/-- an event that executes operations: they are `ops` run in the issuing connection's database, on a state
    that differs from `s` only in that connection's record -/
theorem executed_mem (q : Q) (s : State) (now : Nat) (ev : Ev) (p : Nat × Op) (h : p ∈ executed q s now ev) :
    ∃ c ops s0, p.1 = (s.conn c).db ∧ p.2 ∈ ops ∧ executed q s now ev = ops.map (fun o => ((s.conn c).db, o)) ∧
      s0.trk = s.trk ∧ s0.data = s.data ∧ (step q s now ev).1 = applyOps s0 (s.conn c).db ops := by
  cases ev with
  | exec c ops =>
    simp only [executed] at h ⊢
    split at h
    · rename_i hc
      simp only [Bool.and_eq_true, Bool.not_eq_true'] at hc
      obtain ⟨o, m, rfl⟩ := List.mem_map.mp h
      refine ⟨c, ops, s.setConn c (s.conn c).cleared, rfl, m, by simp [hc.1, hc.2], rfl, rfl, ?_⟩
      rw [step_exec]; simp [hc.1, hc.2]
    · simp at h
  | cmd c ops =>
    simp only [executed] at h ⊢
    split at h
    · simp at h
    · rename_i hc
      have hc' : (s.conn c).inTx = false := by simpa using hc
      obtain ⟨o, m, rfl⟩ := List.mem_map.mp h
      refine ⟨c, ops, s, rfl, m, by simp [hc'], rfl, rfl, ?_⟩
      rw [step_cmd]; simp [hc']
  | watch c keys => simp [executed] at h
  | unwatch c => simp [executed] at h
  | refused c => simp [executed] at h
  | multi c => simp [executed] at h
  | discard c => simp [executed] at h
  | select c d => simp [executed] at h
  | sweep d k m => simp [executed] at h

theorem tracker_of_trk_eq {s s0 : State} (h : s0.trk = s.trk) (d sh : Nat) : s0.tracker d sh = s.tracker d sh := by
  simp [State.tracker, h]

/-- an executed operation that marks and reaches its mutating path, while a watcher is counted on the
    shard, pushes the key's counter beyond the shard's global counter of before the step -/
theorem step_marks (q : Q) (s : State) (now : Nat) (ev : Ev) (d : Nat) (ko : KeyOp) (hk : TOk s)
    (hmem : (d, Op.key ko) ∈ executed q s now ev) (hr : ko.eff.reaches = true) (hm : ko.marks = true)
    (ha : s.active d (shardOf ko.key) ≠ 0) :
    (s.tracker d (shardOf ko.key)).global < (step q s now ev).1.counter d ko.key := by
  obtain ⟨c, ops, s0, hd, hmo, _, htrk, _, hstep⟩ := executed_mem q s now ev _ hmem
  simp only at hd hmo
  rw [hstep, ← hd]
  have ht := tracker_of_trk_eq htrk
  have hk0 : TOk s0 := fun d' sh' => by rw [ht]; exact hk d' sh'
  have ha0 : s0.active d (shardOf ko.key) ≠ 0 := by unfold State.active; rw [ht]; exact ha
  have := applyOps_marks s0 d ops ko hk0 hmo hr hm ha0
  rw [ht] at this
  exact this

/-! ### WATCH that purges an expired entry (variant `watchPurges`) -/

/-- no registration of this WATCH wraps the usize watcher count -/
def safeWatch (q : Q) (c : Nat) (now : Nat) : State → List Key → Bool
  | _, [] => true
  | s, k :: r => decide (s.active (s.conn c).db (shardOf k) + 1 < two64) && safeWatch q c now (watchKey q c now s k) r

theorem active_watchKeyNew (q : Q) (c : Nat) (s : State) (k : Key) (d sh : Nat) :
    (watchKeyNew q c s k).active d sh =
      if ((s.conn c).db, shardOf k) = (d, sh) then (s.active d sh + 1) % two64 else s.active d sh := by
  unfold watchKeyNew
  rw [active_setConn, active_setTracker]
  split
  · rename_i e
    simp only [Prod.mk.injEq] at e
    rw [register_active]
    have : (s.tracker (s.conn c).db (shardOf k)).active = s.active (s.conn c).db (shardOf k) := rfl
    rw [this, e.1, e.2]
  · rfl

theorem active_watchKey_ne_zero (q : Q) (c : Nat) (now : Nat) (s : State) (k : Key) (d sh : Nat)
    (hs : s.active (s.conn c).db (shardOf k) + 1 < two64) (ha : s.active d sh ≠ 0) :
    (watchKey q c now s k).active d sh ≠ 0 := by
  rcases watchKey_cases q c now s k with e | e
  · rw [e]; exact ha
  · rw [e, active_watchKeyNew]
    simp only [conn_purge, active_purge]
    split
    · rename_i e2
      simp only [Prod.mk.injEq] at e2
      rw [← e2.1, ← e2.2, Nat.mod_eq_of_lt hs]
      omega
    · exact ha

theorem watchAll_changed_marks (q : Q) (c : Nat) (now : Nat) (s : State) (keys : List Key) (d : Nat) (k : Key)
    (hk : TOk s) (hs : safeWatch q c now s keys = true)
    (hch : (watchAll q c now s keys).entry d k ≠ s.entry d k) (ha : s.active d (shardOf k) ≠ 0) :
    (s.tracker d (shardOf k)).global < (watchAll q c now s keys).counter d k := by
  induction keys generalizing s with
  | nil => exact absurd rfl hch
  | cons k0 r ih =>
    simp only [safeWatch, Bool.and_eq_true, decide_eq_true_eq] at hs
    simp only [watchAll, List.foldl_cons] at ih hch ⊢
    have hk1 : TOk (watchKey q c now s k0) := (grows_watchKey q c now s k0).tok hk
    by_cases e : (watchKey q c now s k0).entry d k = s.entry d k
    · rw [← e] at hch
      have := ih (watchKey q c now s k0) hk1 hs.2 hch (active_watchKey_ne_zero q c now s k0 d (shardOf k) hs.1 ha)
      exact Nat.lt_of_le_of_lt ((grows_watchKey q c now s k0).global d (shardOf k)) this
    · have hmono := (grows_watchAll q c now (watchKey q c now s k0) r).counter hk1 d k
      simp only [watchAll] at hmono
      refine Nat.lt_of_lt_of_le ?_ hmono
      rcases watchKey_cases q c now s k0 with h | h
      · rw [h] at e; exact absurd rfl e
      · rw [h, entry_watchKeyNew] at e
        rw [h, counter_watchKeyNew]
        by_cases hkey : ((s.conn c).db, k0) = (d, k)
        · simp only [Prod.mk.injEq] at hkey
          obtain ⟨e1, e2⟩ := hkey
          rw [e1, e2] at e ⊢
          exact purge_changed_marks q s d k now e ha
        · have := purge_untouched q s (s.conn c).db k0 now d k (fun x => hkey x.2.1)
          exact absurd this.2 e

/-- every operation the event executes marks what it changes, and a sweep marks -/
def evMarksOk (q : Q) (s : State) (now : Nat) (ev : Ev) : Bool :=
  (executed q s now ev).all (fun p => opMarksOk p.2) &&
    (match ev with
     | .sweep _ _ m => m
     | _ => true)

/-- if a step whose operations all mark changes the entry `(d, k)` while a watcher is counted on the
    shard, the key's counter exceeds the shard's global counter of before the step -/
theorem step_changed_marks (q : Q) (s : State) (now : Nat) (ev : Ev) (d : Nat) (k : Key) (hk : TOk s)
    (hok : evMarksOk q s now ev = true) (hch : (step q s now ev).1.entry d k ≠ s.entry d k)
    (ha : s.active d (shardOf k) ≠ 0)
    (hsw : ∀ c keys, ev = .watch c keys → safeWatch q c now s keys = true) :
    (s.tracker d (shardOf k)).global < (step q s now ev).1.counter d k := by
  by_cases ht : evTouches q s now d k ev = false
  · exact absurd (step_untouched q s now ev d k ht).2 hch
  · simp only [evMarksOk, Bool.and_eq_true] at hok
    cases ev with
    | sweep d' k' m =>
      have hm : m = true := hok.2
      subst hm
      have e : d' = d ∧ k' = k := by
        simp only [evTouches, executed, List.any_nil, Bool.false_or] at ht
        simpa using ht
      obtain ⟨e1, e2⟩ := e
      subst e1; subst e2
      rw [step_sweep] at hch ⊢
      exact sweepKey_changed_marks s d' k' now hch ha
    | exec c ops =>
      have hex : ∃ p, p ∈ executed q s now (.exec c ops) := by
        simp only [evTouches, Bool.or_false] at ht
        have : (executed q s now (.exec c ops)).any (fun p => opTouches d k p.1 p.2) = true := by simpa using ht
        obtain ⟨p, m, _⟩ := List.any_eq_true.mp this
        exact ⟨p, m⟩
      obtain ⟨p, hp⟩ := hex
      obtain ⟨c', ops', s0, _, _, hexe, htrk, hdata, hstep⟩ := executed_mem q s now _ p hp
      have htr := tracker_of_trk_eq htrk
      have hk0 : TOk s0 := fun d' sh' => by rw [htr]; exact hk d' sh'
      have ha0 : s0.active d (shardOf k) ≠ 0 := by unfold State.active; rw [htr]; exact ha
      have he0 : s0.entry d k = s.entry d k := by unfold State.entry; rw [hdata]
      have hok' : ∀ o ∈ ops', opMarksOk o = true := by
        intro o m
        have := (List.all_eq_true.mp hok.1) ((s.conn c').db, o) (by rw [hexe]; exact List.mem_map.mpr ⟨o, m, rfl⟩)
        simpa using this
      rw [hstep] at hch ⊢
      rw [← he0] at hch
      have := applyOps_changed_marks s0 (s.conn c').db ops' d k hk0 hok' hch ha0
      rw [htr] at this
      exact this
    | cmd c ops =>
      have hex : ∃ p, p ∈ executed q s now (.cmd c ops) := by
        simp only [evTouches, Bool.or_false] at ht
        have : (executed q s now (.cmd c ops)).any (fun p => opTouches d k p.1 p.2) = true := by simpa using ht
        obtain ⟨p, m, _⟩ := List.any_eq_true.mp this
        exact ⟨p, m⟩
      obtain ⟨p, hp⟩ := hex
      obtain ⟨c', ops', s0, _, _, hexe, htrk, hdata, hstep⟩ := executed_mem q s now _ p hp
      have htr := tracker_of_trk_eq htrk
      have hk0 : TOk s0 := fun d' sh' => by rw [htr]; exact hk d' sh'
      have ha0 : s0.active d (shardOf k) ≠ 0 := by unfold State.active; rw [htr]; exact ha
      have he0 : s0.entry d k = s.entry d k := by unfold State.entry; rw [hdata]
      have hok' : ∀ o ∈ ops', opMarksOk o = true := by
        intro o m
        have := (List.all_eq_true.mp hok.1) ((s.conn c').db, o) (by rw [hexe]; exact List.mem_map.mpr ⟨o, m, rfl⟩)
        simpa using this
      rw [hstep] at hch ⊢
      rw [← he0] at hch
      have := applyOps_changed_marks s0 (s.conn c').db ops' d k hk0 hok' hch ha0
      rw [htr] at this
      exact this
    | watch c keys =>
      rw [step_watch] at hch ⊢
      split at hch
      · exact absurd rfl hch
      · rename_i hc
        simp only [hc, if_false]
        exact watchAll_changed_marks q c now s keys d k hk (hsw c keys rfl) hch ha
    | unwatch c => simp [evTouches, executed] at ht
    | refused c => simp [evTouches, executed] at ht
    | multi c => simp [evTouches, executed] at ht
    | discard c => simp [evTouches, executed] at ht
    | select c d' => simp [evTouches, executed] at ht

end Ferrous.Watch
