/-
  C08 helper lemmas, part 3: whole steps and histories — trackers only grow, a quiet connection keeps
  its watch list, untouched keys keep counter and entry, an executed marking operation is seen.
-/
import FerrousSpec.Proofs.WatchOps
namespace Ferrous.Watch

/-! ### WATCH of one key -/

/-- the connection record after registering `k` with baseline `b` -/
def watchConn (q : Q) (cn : Conn) (k : Key) (b : Nat) : Conn :=
  { cn with watched := ⟨k, b, cn.db⟩ ::
      cn.watched.filter (fun w => !(decide (w.key = k) && (!q.perDb || decide (w.regDb = cn.db)))) }

/-- the registering branch of `watchKey` -/
def watchKeyNew (q : Q) (c : Nat) (s : State) (k : Key) : State :=
  (s.setTracker (s.conn c).db (shardOf k) ((s.tracker (s.conn c).db (shardOf k)).register k).1).setConn c
    (watchConn q (s.conn c) k ((s.tracker (s.conn c).db (shardOf k)).register k).2)

theorem watchKey_cases (q : Q) (c : Nat) (s : State) (k : Key) :
    watchKey q c s k = s ∨ watchKey q c s k = watchKeyNew q c s k := by
  unfold watchKey watchKeyNew watchConn
  simp only []
  split
  · exact Or.inl rfl
  · exact Or.inr rfl

theorem grows_watchKey (q : Q) (c : Nat) (s : State) (k : Key) : Grows s (watchKey q c s k) := by
  rcases watchKey_cases q c s k with h | h
  · rw [h]; exact Grows.refl s
  · rw [h]
    exact (grows_setTracker_same s (s.conn c).db (shardOf k) ((s.tracker (s.conn c).db (shardOf k)).register k).1
      rfl (fun _ => rfl)).trans (grows_setConn _ _ _)

theorem counter_watchKey (q : Q) (c : Nat) (s : State) (k : Key) (d : Nat) (k' : Key) :
    (watchKey q c s k).counter d k' = s.counter d k' := by
  rcases watchKey_cases q c s k with h | h
  · rw [h]
  · rw [h]
    unfold watchKeyNew
    rw [counter_setConn]
    exact counter_setTracker_same s (s.conn c).db (shardOf k) ((s.tracker (s.conn c).db (shardOf k)).register k).1
      (fun _ => rfl) d k'

theorem entry_watchKey (q : Q) (c : Nat) (s : State) (k : Key) (d : Nat) (k' : Key) :
    (watchKey q c s k).entry d k' = s.entry d k' := by
  rcases watchKey_cases q c s k with h | h
  · rw [h]
  · rw [h]; rfl

theorem conn_watchKey_other (q : Q) (c : Nat) (s : State) (k : Key) (c' : Nat) (h : c ≠ c') :
    (watchKey q c s k).conn c' = s.conn c' := by
  rcases watchKey_cases q c s k with e | e
  · rw [e]
  · rw [e]; unfold watchKeyNew; rw [conn_setConn]; simp [h]

theorem db_watchKey (q : Q) (c : Nat) (s : State) (k : Key) (c' : Nat) :
    ((watchKey q c s k).conn c').db = (s.conn c').db := by
  rcases watchKey_cases q c s k with e | e
  · rw [e]
  · rw [e]; unfold watchKeyNew; rw [conn_setConn]
    split
    · rename_i h; subst h; rfl
    · rfl

def watchAll (q : Q) (c : Nat) (s : State) (keys : List Key) : State := keys.foldl (watchKey q c) s

theorem grows_watchAll (q : Q) (c : Nat) (s : State) (keys : List Key) : Grows s (watchAll q c s keys) := by
  induction keys generalizing s with
  | nil => exact Grows.refl s
  | cons k r ih =>
    simp only [watchAll, List.foldl_cons] at ih ⊢
    exact (grows_watchKey q c s k).trans (ih _)

theorem watchAll_same (q : Q) (c : Nat) (s : State) (keys : List Key) (d : Nat) (k' : Key) :
    (watchAll q c s keys).counter d k' = s.counter d k' ∧ (watchAll q c s keys).entry d k' = s.entry d k' := by
  induction keys generalizing s with
  | nil => exact ⟨rfl, rfl⟩
  | cons k r ih =>
    simp only [watchAll, List.foldl_cons] at ih ⊢
    have := ih (watchKey q c s k)
    exact ⟨this.1.trans (counter_watchKey q c s k d k'), this.2.trans (entry_watchKey q c s k d k')⟩

theorem conn_watchAll_other (q : Q) (c : Nat) (s : State) (keys : List Key) (c' : Nat) (h : c ≠ c') :
    (watchAll q c s keys).conn c' = s.conn c' := by
  induction keys generalizing s with
  | nil => rfl
  | cons k r ih =>
    simp only [watchAll, List.foldl_cons] at ih ⊢
    rw [ih, conn_watchKey_other q c s k c' h]

/-! ### UNWATCH: unregistering a list of entries -/

def unregAll (q : Q) (cn : Conn) (s : State) (ws : List W) : State := ws.foldl (unregisterW q cn) s

theorem grows_unregisterW (q : Q) (cn : Conn) (s : State) (w : W) : Grows s (unregisterW q cn s w) := by
  unfold unregisterW
  exact grows_setTracker_same s _ _ _ (unregister_global _) (fun _ => unregister_counter _ _)

@[simp] theorem conns_unregisterW (q : Q) (cn : Conn) (s : State) (w : W) : (unregisterW q cn s w).conns = s.conns := rfl
@[simp] theorem data_unregisterW (q : Q) (cn : Conn) (s : State) (w : W) : (unregisterW q cn s w).data = s.data := rfl

theorem counter_unregisterW (q : Q) (cn : Conn) (s : State) (w : W) (d : Nat) (k : Key) :
    (unregisterW q cn s w).counter d k = s.counter d k := by
  unfold unregisterW
  exact counter_setTracker_same _ _ _ _ (fun _ => unregister_counter _ _) d k

theorem global_unregisterW (q : Q) (cn : Conn) (s : State) (w : W) (d sh : Nat) :
    ((unregisterW q cn s w).tracker d sh).global = (s.tracker d sh).global := by
  unfold unregisterW
  exact global_setTracker_same _ _ _ _ (unregister_global _) d sh

theorem grows_unregAll (q : Q) (cn : Conn) (s : State) (ws : List W) : Grows s (unregAll q cn s ws) := by
  induction ws generalizing s with
  | nil => exact Grows.refl s
  | cons w r ih =>
    simp only [unregAll, List.foldl_cons] at ih ⊢
    exact (grows_unregisterW q cn s w).trans (ih _)

@[simp] theorem conns_unregAll (q : Q) (cn : Conn) (s : State) (ws : List W) : (unregAll q cn s ws).conns = s.conns := by
  induction ws generalizing s with
  | nil => rfl
  | cons w r ih => simp only [unregAll, List.foldl_cons] at ih ⊢; rw [ih]; rfl

@[simp] theorem data_unregAll (q : Q) (cn : Conn) (s : State) (ws : List W) : (unregAll q cn s ws).data = s.data := by
  induction ws generalizing s with
  | nil => rfl
  | cons w r ih => simp only [unregAll, List.foldl_cons] at ih ⊢; rw [ih]; rfl

theorem counter_unregAll (q : Q) (cn : Conn) (s : State) (ws : List W) (d : Nat) (k : Key) :
    (unregAll q cn s ws).counter d k = s.counter d k := by
  induction ws generalizing s with
  | nil => rfl
  | cons w r ih => simp only [unregAll, List.foldl_cons] at ih ⊢; rw [ih, counter_unregisterW]

theorem global_unregAll (q : Q) (cn : Conn) (s : State) (ws : List W) (d sh : Nat) :
    ((unregAll q cn s ws).tracker d sh).global = (s.tracker d sh).global := by
  induction ws generalizing s with
  | nil => rfl
  | cons w r ih => simp only [unregAll, List.foldl_cons] at ih ⊢; rw [ih, global_unregisterW]

/-! ### `step` in terms of the folds above -/

theorem step_watch (q : Q) (s : State) (now c : Nat) (keys : List Key) :
    (step q s now (.watch c keys)).1 = if keys.isEmpty || (s.conn c).inTx then s else watchAll q c s keys := by
  simp only [step, watchAll]
  split <;> rfl

theorem step_unwatch (q : Q) (s : State) (now c : Nat) :
    (step q s now (.unwatch c)).1 =
      (unregAll q (s.conn c) s (s.conn c).watched).setConn c { s.conn c with watched := [] } := rfl

/-- the connection after EXEC / DISCARD -/
def Conn.cleared (cn : Conn) : Conn := { cn with inTx := false, watched := [], queued := 0 }

theorem step_multi (q : Q) (s : State) (now c : Nat) :
    (step q s now (.multi c)).1 =
      if (s.conn c).inTx = true then s else s.setConn c { (s.conn c) with inTx := true, queued := 0 } := by
  simp only [step]; split <;> rfl

theorem step_exec (q : Q) (s : State) (now c : Nat) (ops : List Op) :
    (step q s now (.exec c ops)).1 =
      if (s.conn c).inTx = false then s
      else if execAborts q s (s.conn c) now = true then s.setConn c (s.conn c).cleared
      else applyOps (s.setConn c (s.conn c).cleared) (s.conn c).db ops := by
  simp only [step, Conn.cleared]
  cases (s.conn c).inTx
  · rfl
  · simp only [Bool.not_true, Bool.false_eq_true, if_false]
    split <;> rfl

theorem step_discard (q : Q) (s : State) (now c : Nat) :
    (step q s now (.discard c)).1 = if (s.conn c).inTx = false then s else s.setConn c (s.conn c).cleared := by
  simp only [step, Conn.cleared]
  cases (s.conn c).inTx <;> rfl

theorem step_select (q : Q) (s : State) (now c d : Nat) :
    (step q s now (.select c d)).1 =
      if (s.conn c).inTx = true then s.setConn c { (s.conn c) with queued := (s.conn c).queued + 1 }
      else if 16 ≤ d then s else s.setConn c { (s.conn c) with db := d } := by
  simp only [step]
  split
  · rfl
  · split <;> rfl

theorem step_cmd (q : Q) (s : State) (now c : Nat) (ops : List Op) :
    (step q s now (.cmd c ops)).1 =
      if (s.conn c).inTx = true then s.setConn c { (s.conn c) with queued := (s.conn c).queued + 1 }
      else applyOps s (s.conn c).db ops := by
  simp only [step]; split <;> rfl

theorem step_sweep (q : Q) (s : State) (now d : Nat) (k : Key) (m : Bool) :
    (step q s now (.sweep d k m)).1 = sweepKey s d k m now := rfl

/-! ### every step lets trackers only grow -/

theorem grows_step (q : Q) (s : State) (now : Nat) (ev : Ev) : Grows s (step q s now ev).1 := by
  cases ev with
  | watch c keys =>
    rw [step_watch]
    split
    · exact Grows.refl s
    · exact grows_watchAll q c s keys
  | unwatch c =>
    rw [step_unwatch]
    exact (grows_unregAll q _ s _).trans (grows_setConn _ _ _)
  | multi c =>
    simp only [step]
    split
    · exact Grows.refl s
    · exact grows_setConn _ _ _
  | exec c ops =>
    simp only [step]
    split
    · exact Grows.refl s
    · split
      · exact grows_setConn _ _ _
      · exact (grows_setConn s c _).trans (grows_applyOps _ _ _)
  | discard c =>
    simp only [step]
    split
    · exact Grows.refl s
    · exact grows_setConn _ _ _
  | select c d =>
    simp only [step]
    split
    · exact grows_setConn _ _ _
    · split
      · exact Grows.refl s
      · exact grows_setConn _ _ _
  | cmd c ops =>
    simp only [step]
    split
    · exact grows_setConn _ _ _
    · exact grows_applyOps _ _ _
  | sweep d k m =>
    simp only [step]
    exact grows_sweepKey s d k m now

theorem grows_run (q : Q) (s : State) (evs : List (Nat × Ev)) : Grows s (run q s evs) := by
  induction evs generalizing s with
  | nil => exact Grows.refl s
  | cons e r ih =>
    obtain ⟨now, ev⟩ := e
    simp only [run]
    exact (grows_step q s now ev).trans (ih _)

theorem run_append (q : Q) (s : State) (a b : List (Nat × Ev)) : run q s (a ++ b) = run q (run q s a) b := by
  induction a generalizing s with
  | nil => rfl
  | cons e r ih => obtain ⟨now, ev⟩ := e; simp only [List.cons_append, run]; exact ih _

/-! ### a quiet connection keeps its watch list -/

/-- `c` issues no WATCH, UNWATCH, EXEC, DISCARD in this event, and no SELECT unless watch entries
    remember their database (MULTI and data commands are allowed; other connections may do anything) -/
def quiet (q : Q) (c : Nat) : Ev → Bool
  | .watch c' _ => decide (c' ≠ c)
  | .unwatch c' => decide (c' ≠ c)
  | .exec c' _ => decide (c' ≠ c)
  | .discard c' => decide (c' ≠ c)
  | .select c' _ => decide (c' ≠ c) || q.perDb
  | _ => true

theorem quiet_step (q : Q) (s : State) (now : Nat) (ev : Ev) (c : Nat) (h : quiet q c ev = true) :
    ((step q s now ev).1.conn c).watched = (s.conn c).watched ∧
    (q.perDb = true ∨ ((step q s now ev).1.conn c).db = (s.conn c).db) := by
  cases ev with
  | watch c' keys =>
    have hc : c' ≠ c := by simpa [quiet] using h
    rw [step_watch]
    split
    · exact ⟨rfl, Or.inr rfl⟩
    · rw [conn_watchAll_other q c' s keys c hc]; exact ⟨rfl, Or.inr rfl⟩
  | unwatch c' =>
    have hc : c' ≠ c := by simpa [quiet] using h
    rw [step_unwatch, conn_setConn]
    simp only [hc, if_false]
    unfold State.conn; rw [conns_unregAll]; exact ⟨rfl, Or.inr rfl⟩
  | multi c' =>
    rw [step_multi]
    split
    · exact ⟨rfl, Or.inr rfl⟩
    · rw [conn_setConn]
      split
      · rename_i e; subst e; exact ⟨rfl, Or.inr rfl⟩
      · exact ⟨rfl, Or.inr rfl⟩
  | exec c' ops =>
    have hc : c' ≠ c := by simpa [quiet] using h
    rw [step_exec]
    split
    · exact ⟨rfl, Or.inr rfl⟩
    · split
      · rw [conn_setConn]; simp [hc]
      · rw [conn_applyOps, conn_setConn]; simp [hc]
  | discard c' =>
    have hc : c' ≠ c := by simpa [quiet] using h
    rw [step_discard]
    split
    · exact ⟨rfl, Or.inr rfl⟩
    · rw [conn_setConn]; simp [hc]
  | select c' d =>
    rw [step_select]
    split
    · rw [conn_setConn]
      split
      · rename_i e; subst e; exact ⟨rfl, Or.inr rfl⟩
      · exact ⟨rfl, Or.inr rfl⟩
    · split
      · exact ⟨rfl, Or.inr rfl⟩
      · rw [conn_setConn]
        split
        · rename_i e; subst e
          refine ⟨rfl, ?_⟩
          have : q.perDb = true := by simpa [quiet] using h
          exact Or.inl this
        · exact ⟨rfl, Or.inr rfl⟩
  | cmd c' ops =>
    rw [step_cmd]
    split
    · rw [conn_setConn]
      split
      · rename_i e; subst e; exact ⟨rfl, Or.inr rfl⟩
      · exact ⟨rfl, Or.inr rfl⟩
    · rw [conn_applyOps]; exact ⟨rfl, Or.inr rfl⟩
  | sweep d k m =>
    rw [step_sweep]
    unfold State.conn; rw [conns_sweepKey]; exact ⟨rfl, Or.inr rfl⟩

theorem quiet_run (q : Q) (s : State) (evs : List (Nat × Ev)) (c : Nat) (h : ∀ e ∈ evs, quiet q c e.2 = true) :
    ((run q s evs).conn c).watched = (s.conn c).watched ∧
    (q.perDb = true ∨ ((run q s evs).conn c).db = (s.conn c).db) := by
  induction evs generalizing s with
  | nil => exact ⟨rfl, Or.inr rfl⟩
  | cons e r ih =>
    obtain ⟨now, ev⟩ := e
    simp only [run]
    have h1 := quiet_step q s now ev c (h (now, ev) List.mem_cons_self)
    have h2 := ih (step q s now ev).1 (fun e m => h e (List.mem_cons_of_mem _ m))
    refine ⟨h2.1.trans h1.1, ?_⟩
    rcases h2.2 with p | p
    · exact Or.inl p
    · rcases h1.2 with p' | p'
      · exact Or.inl p'
      · exact Or.inr (p.trans p')

/-- the database in which a kept entry is looked at does not move while the connection is quiet -/
theorem effDb_quiet (q : Q) (cn cn' : Conn) (w : W) (h : q.perDb = true ∨ cn'.db = cn.db) :
    effDb q cn' w = effDb q cn w := by
  unfold effDb
  rcases h with p | p
  · simp [p]
  · rw [p]

/-! ### untouched keys -/

/-- does the event address the entry `(d, k)`: an executed operation on it (or a flush of its database),
    or the sweeper's deletion of it -/
def evTouches (q : Q) (s : State) (now : Nat) (d : Nat) (k : Key) (ev : Ev) : Bool :=
  (executed q s now ev).any (fun p => opTouches d k p.1 p.2) ||
    (match ev with
     | .sweep d' k' _ => decide (d' = d) && decide (k' = k)
     | _ => false)

def untouched (q : Q) (d : Nat) (k : Key) : State → List (Nat × Ev) → Bool
  | _, [] => true
  | s, (now, ev) :: r => !evTouches q s now d k ev && untouched q d k (step q s now ev).1 r

theorem step_untouched (q : Q) (s : State) (now : Nat) (ev : Ev) (d : Nat) (k : Key)
    (h : evTouches q s now d k ev = false) :
    (step q s now ev).1.counter d k = s.counter d k ∧ (step q s now ev).1.entry d k = s.entry d k := by
  cases ev with
  | watch c keys =>
    rw [step_watch]
    split
    · exact ⟨rfl, rfl⟩
    · exact watchAll_same q c s keys d k
  | unwatch c =>
    rw [step_unwatch]
    refine ⟨?_, ?_⟩
    · rw [counter_setConn, counter_unregAll]
    · rw [entry_setConn]; unfold State.entry; rw [data_unregAll]
  | multi c => simp only [step]; split <;> exact ⟨rfl, rfl⟩
  | exec c ops =>
    simp only [evTouches, executed, Bool.or_false] at h
    simp only [step]
    split
    · exact ⟨rfl, rfl⟩
    · rename_i hin
      split
      · exact ⟨rfl, rfl⟩
      · rename_i hab
        have hin' : (s.conn c).inTx = true := by simpa using hin
        have hab' : execAborts q s (s.conn c) now = false := by simpa using hab
        simp only [hin', hab', Bool.not_false, Bool.and_self, if_true] at h
        have hu : ∀ o ∈ ops, opTouches d k (s.conn c).db o = false := by
          intro o m
          have := (List.any_eq_false.mp h) ((s.conn c).db, o) (List.mem_map.mpr ⟨o, m, rfl⟩)
          simpa using this
        exact applyOps_untouched _ _ ops d k hu
  | discard c => simp only [step]; split <;> exact ⟨rfl, rfl⟩
  | select c d' =>
    simp only [step]
    split
    · exact ⟨rfl, rfl⟩
    · split <;> exact ⟨rfl, rfl⟩
  | cmd c ops =>
    simp only [evTouches, executed, Bool.or_false] at h
    simp only [step]
    split
    · exact ⟨rfl, rfl⟩
    · rename_i hin
      have hin' : (s.conn c).inTx = false := by simpa using hin
      simp only [hin', Bool.false_eq_true, if_false] at h
      have hu : ∀ o ∈ ops, opTouches d k (s.conn c).db o = false := by
        intro o m
        have := (List.any_eq_false.mp h) ((s.conn c).db, o) (List.mem_map.mpr ⟨o, m, rfl⟩)
        simpa using this
      exact applyOps_untouched _ _ ops d k hu
  | sweep d' k' m =>
    simp only [evTouches, executed, List.any_nil, Bool.false_or] at h
    simp only [step]
    apply sweepKey_untouched
    intro e
    simp only [Prod.mk.injEq] at e
    simp [e.1, e.2] at h

theorem run_untouched (q : Q) (s : State) (evs : List (Nat × Ev)) (d : Nat) (k : Key)
    (h : untouched q d k s evs = true) :
    (run q s evs).counter d k = s.counter d k ∧ (run q s evs).entry d k = s.entry d k := by
  induction evs generalizing s with
  | nil => exact ⟨rfl, rfl⟩
  | cons e r ih =>
    obtain ⟨now, ev⟩ := e
    simp only [untouched, Bool.and_eq_true, Bool.not_eq_true'] at h
    simp only [run]
    have h1 := step_untouched q s now ev d k h.1
    have h2 := ih (step q s now ev).1 h.2
    exact ⟨h2.1.trans h1.1, h2.2.trans h1.2⟩

/-! ### an executed marking operation, a change made by marking operations -/

/-- an event that executes operations: they are `ops` run in the issuing connection's database, on a state
    that differs from `s` only in that connection's record -/
theorem executed_mem (q : Q) (s : State) (now : Nat) (ev : Ev) (p : Nat × Op) (h : p ∈ executed q s now ev) :
    ∃ c ops s0, p.1 = (s.conn c).db ∧ p.2 ∈ ops ∧ executed q s now ev = ops.map (fun o => ((s.conn c).db, o)) ∧
      s0.trk = s.trk ∧ s0.data = s.data ∧ (step q s now ev).1 = applyOps s0 (s.conn c).db ops := by
  cases ev with
  | exec c ops =>
    simp only [executed] at h ⊢
    split at h
    · rename_i hc
      simp only [Bool.and_eq_true, Bool.not_eq_true'] at hc
      obtain ⟨o, m, rfl⟩ := List.mem_map.mp h
      refine ⟨c, ops, s.setConn c (s.conn c).cleared, rfl, m, by simp [hc.1, hc.2], rfl, rfl, ?_⟩
      rw [step_exec]; simp [hc.1, hc.2]
    · simp at h
  | cmd c ops =>
    simp only [executed] at h ⊢
    split at h
    · simp at h
    · rename_i hc
      have hc' : (s.conn c).inTx = false := by simpa using hc
      obtain ⟨o, m, rfl⟩ := List.mem_map.mp h
      refine ⟨c, ops, s, rfl, m, by simp [hc'], rfl, rfl, ?_⟩
      rw [step_cmd]; simp [hc']
  | watch c keys => simp [executed] at h
  | unwatch c => simp [executed] at h
  | multi c => simp [executed] at h
  | discard c => simp [executed] at h
  | select c d => simp [executed] at h
  | sweep d k m => simp [executed] at h

theorem tracker_of_trk_eq {s s0 : State} (h : s0.trk = s.trk) (d sh : Nat) : s0.tracker d sh = s.tracker d sh := by
  simp [State.tracker, h]

/-- an executed operation that marks and reaches its mutating path, while a watcher is counted on the
    shard, pushes the key's counter beyond the shard's global counter of before the step -/
theorem step_marks (q : Q) (s : State) (now : Nat) (ev : Ev) (d : Nat) (ko : KeyOp) (hk : TOk s)
    (hmem : (d, Op.key ko) ∈ executed q s now ev) (hr : ko.eff.reaches = true) (hm : ko.marks = true)
    (ha : s.active d (shardOf ko.key) ≠ 0) :
    (s.tracker d (shardOf ko.key)).global < (step q s now ev).1.counter d ko.key := by
  obtain ⟨c, ops, s0, hd, hmo, _, htrk, _, hstep⟩ := executed_mem q s now ev _ hmem
  simp only at hd hmo
  rw [hstep, ← hd]
  have ht := tracker_of_trk_eq htrk
  have hk0 : TOk s0 := fun d' sh' => by rw [ht]; exact hk d' sh'
  have ha0 : s0.active d (shardOf ko.key) ≠ 0 := by unfold State.active; rw [ht]; exact ha
  have := applyOps_marks s0 d ops ko hk0 hmo hr hm ha0
  rw [ht] at this
  exact this

/-- every operation the event executes marks what it changes, and a sweep marks -/
def evMarksOk (q : Q) (s : State) (now : Nat) (ev : Ev) : Bool :=
  (executed q s now ev).all (fun p => opMarksOk p.2) &&
    (match ev with
     | .sweep _ _ m => m
     | _ => true)

/-- if a step whose operations all mark changes the entry `(d, k)` while a watcher is counted on the
    shard, the key's counter exceeds the shard's global counter of before the step -/
theorem step_changed_marks (q : Q) (s : State) (now : Nat) (ev : Ev) (d : Nat) (k : Key) (hk : TOk s)
    (hok : evMarksOk q s now ev = true) (hch : (step q s now ev).1.entry d k ≠ s.entry d k)
    (ha : s.active d (shardOf k) ≠ 0) :
    (s.tracker d (shardOf k)).global < (step q s now ev).1.counter d k := by
  by_cases ht : evTouches q s now d k ev = false
  · exact absurd (step_untouched q s now ev d k ht).2 hch
  · simp only [evMarksOk, Bool.and_eq_true] at hok
    cases ev with
    | sweep d' k' m =>
      have hm : m = true := hok.2
      subst hm
      have e : d' = d ∧ k' = k := by
        simp only [evTouches, executed, List.any_nil, Bool.false_or] at ht
        simpa using ht
      obtain ⟨e1, e2⟩ := e
      subst e1; subst e2
      rw [step_sweep] at hch ⊢
      exact sweepKey_changed_marks s d' k' now hch ha
    | exec c ops =>
      have hex : ∃ p, p ∈ executed q s now (.exec c ops) := by
        simp only [evTouches, Bool.or_false] at ht
        have : (executed q s now (.exec c ops)).any (fun p => opTouches d k p.1 p.2) = true := by simpa using ht
        obtain ⟨p, m, _⟩ := List.any_eq_true.mp this
        exact ⟨p, m⟩
      obtain ⟨p, hp⟩ := hex
      obtain ⟨c', ops', s0, _, _, hexe, htrk, hdata, hstep⟩ := executed_mem q s now _ p hp
      have htr := tracker_of_trk_eq htrk
      have hk0 : TOk s0 := fun d' sh' => by rw [htr]; exact hk d' sh'
      have ha0 : s0.active d (shardOf k) ≠ 0 := by unfold State.active; rw [htr]; exact ha
      have he0 : s0.entry d k = s.entry d k := by unfold State.entry; rw [hdata]
      have hok' : ∀ o ∈ ops', opMarksOk o = true := by
        intro o m
        have := (List.all_eq_true.mp hok.1) ((s.conn c').db, o) (by rw [hexe]; exact List.mem_map.mpr ⟨o, m, rfl⟩)
        simpa using this
      rw [hstep] at hch ⊢
      rw [← he0] at hch
      have := applyOps_changed_marks s0 (s.conn c').db ops' d k hk0 hok' hch ha0
      rw [htr] at this
      exact this
    | cmd c ops =>
      have hex : ∃ p, p ∈ executed q s now (.cmd c ops) := by
        simp only [evTouches, Bool.or_false] at ht
        have : (executed q s now (.cmd c ops)).any (fun p => opTouches d k p.1 p.2) = true := by simpa using ht
        obtain ⟨p, m, _⟩ := List.any_eq_true.mp this
        exact ⟨p, m⟩
      obtain ⟨p, hp⟩ := hex
      obtain ⟨c', ops', s0, _, _, hexe, htrk, hdata, hstep⟩ := executed_mem q s now _ p hp
      have htr := tracker_of_trk_eq htrk
      have hk0 : TOk s0 := fun d' sh' => by rw [htr]; exact hk d' sh'
      have ha0 : s0.active d (shardOf k) ≠ 0 := by unfold State.active; rw [htr]; exact ha
      have he0 : s0.entry d k = s.entry d k := by unfold State.entry; rw [hdata]
      have hok' : ∀ o ∈ ops', opMarksOk o = true := by
        intro o m
        have := (List.all_eq_true.mp hok.1) ((s.conn c').db, o) (by rw [hexe]; exact List.mem_map.mpr ⟨o, m, rfl⟩)
        simpa using this
      rw [hstep] at hch ⊢
      rw [← he0] at hch
      have := applyOps_changed_marks s0 (s.conn c').db ops' d k hk0 hok' hch ha0
      rw [htr] at this
      exact this
    | watch c keys => simp [evTouches, executed] at ht
    | unwatch c => simp [evTouches, executed] at ht
    | multi c => simp [evTouches, executed] at ht
    | discard c => simp [evTouches, executed] at ht
    | select c d' => simp [evTouches, executed] at ht

end Ferrous.Watch
