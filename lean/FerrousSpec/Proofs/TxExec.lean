/-
  EXEC versus the same commands sent directly (C07): plain queues are folds of `KS.step`,
  the direct path is `execFold … false`, which slots can be `NoResponse`.
-/
import FerrousSpec.Proofs.TxSched
set_option linter.unusedSimpArgs false
set_option linter.unusedVariables false
namespace Ferrous.Tx
open Ferrous

/-! ### plain queues -/

theorem foldl_plain (q : Quirks) (b : Bool) (cid now : Nat) (cs : List Cmd) (st : ExecSt)
    (h : ∀ c ∈ cs, plain c = true) :
    cs.foldl (fun st c => (runOne q b cid st now c).1) st =
      ⟨cs.foldl (fun s c => (KS.step q.ks s st.db now c none).1) st.store, st.db, st.ext⟩ := by
  induction cs generalizing st with
  | nil => rfl
  | cons c cs ih =>
    have hc := h c (by simp)
    simp only [List.foldl_cons]
    rw [ih _ (fun x hx => h x (by simp [hx])), runOne_plain q b cid st now c hc]

theorem take_plain {cs : List Cmd} (h : ∀ c ∈ cs, plain c = true) (i : Nat) : ∀ c ∈ cs.take i, plain c = true :=
  fun c hc => h c (List.mem_of_mem_take hc)

/-! ### EXEC's loop and the direct path agree except on SELECT (switch) and blocking pops -/

theorem runOne_exec_eq_direct (q : Quirks) (cid : Nat) (st : ExecSt) (now : Nat) (c : Cmd)
    (hb : isBlockingName (nameOf c) = false)
    (hs : q.selectInExecIgnored = false ∨ nameOf c ≠ "SELECT")
    (hcn : q.connCommandsUnderConnZero = false ∨ nameOf c ∉ connectionNames)
    (hu : q.controlArityUnchecked = false ∨ nameOf c ≠ "UNWATCH") :
    runOne q true cid st now c = runOne q false cid st now c := by
  unfold isBlockingName at hb
  simp only [Bool.or_eq_false_iff, beq_eq_false_iff_ne, ne_eq] at hb
  unfold runOne
  by_cases h1 : nameOf c = "SELECT"
  · rcases hs with hs | hs
    · simp [h1, hs]
    · exact absurd h1 hs
  · rcases hcn with hcn | hcn <;> rcases hu with hu | hu <;> simp [h1, hb.1, hb.2, hcn, hu]

theorem execFold_exec_eq_direct (q : Quirks) (cid now : Nat) (cs : List Cmd) (st : ExecSt)
    (hb : ∀ c ∈ cs, isBlockingName (nameOf c) = false)
    (hs : q.selectInExecIgnored = false ∨ ∀ c ∈ cs, nameOf c ≠ "SELECT")
    (hcn : q.connCommandsUnderConnZero = false ∨ ∀ c ∈ cs, nameOf c ∉ connectionNames)
    (hu : q.controlArityUnchecked = false ∨ ∀ c ∈ cs, nameOf c ≠ "UNWATCH") :
    execFold q true cid now st cs = execFold q false cid now st cs := by
  induction cs generalizing st with
  | nil => rfl
  | cons c cs ih =>
    have h1 : runOne q true cid st now c = runOne q false cid st now c :=
      runOne_exec_eq_direct q cid st now c (hb c (by simp)) (hs.imp id fun h => h c (by simp))
        (hcn.imp id fun h => h c (by simp)) (hu.imp id fun h => h c (by simp))
    rw [execFold_cons, execFold_cons, h1,
      ih _ (fun x hx => hb x (by simp [hx])) (hs.imp id fun h x hx => h x (by simp [hx]))
        (hcn.imp id fun h x hx => h x (by simp [hx])) (hu.imp id fun h x hx => h x (by simp [hx]))]

/-- Frames of a connection that is NOT in a transaction, sent one after another with nothing in
    between, are `execFold … false` on the dataset, component by component. -/
theorem direct_run (q : Quirks) (cid now : Nat) (cmds : List Cmd) (s : Server)
    (hin : (s.conns cid).inTx = false)
    (hk : ∀ c ∈ cmds, c ≠ [] ∧ kindOf (nameOf c) = .other) :
    let F := execFold q false cid now ⟨s.store, (s.conns cid).db, s.ext⟩ cmds
    (run q s (framesOf cid now cmds)).store = F.1.store ∧
    (run q s (framesOf cid now cmds)).ext = F.1.ext ∧
    (run q s (framesOf cid now cmds)).conns cid = { s.conns cid with db := F.1.db } ∧
    (∀ j, j ≠ cid → (run q s (framesOf cid now cmds)).conns j = s.conns j) ∧
    trace q s (framesOf cid now cmds) = F.2.map fun o => some (.one o) := by
  induction cmds generalizing s with
  | nil => simp [framesOf, run_nil, execFold_nil, trace]
  | cons c cs ih =>
    have hc := hk c (by simp)
    have hstep := processFrame_direct q s cid { cmd := c, now := now } hc.1 hc.2 hin
    simp only [] at hstep
    let R := runOne q false cid ⟨s.store, (s.conns cid).db, s.ext⟩ now c
    let s1 : Server := setConn { s with store := R.1.store, ext := R.1.ext } cid { s.conns cid with db := R.1.db }
    have hs1 : (stepEvent q s (.frame cid { cmd := c, now := now })).1 = s1 := by
      simp [stepEvent, hstep, s1, R]
    have hrep : (stepEvent q s (.frame cid { cmd := c, now := now })).2 = some (.one R.2) := by
      simp [stepEvent, hstep, R]
    have hin1 : (s1.conns cid).inTx = false := by simp [s1, hin]
    have := ih s1 hin1 (fun x hx => hk x (by simp [hx]))
    simp only [] at this
    have hst : (⟨s1.store, (s1.conns cid).db, s1.ext⟩ : ExecSt) = R.1 := by simp [s1]
    rw [hst] at this
    obtain ⟨i1, i2, i3, i4, i5⟩ := this
    have hfr : framesOf cid now (c :: cs) = .frame cid { cmd := c, now := now } :: framesOf cid now cs := by
      simp [framesOf]
    simp only [hfr, run_cons, hs1, execFold_cons, trace, hrep]
    refine ⟨i1, i2, ?_, ?_, ?_⟩
    · rw [i3]; simp [s1] <;> rfl
    · intro j hj; rw [i4 j hj]; simp [s1, setConn, hj]
    · simp [R, i5]

/-! ### which slots can be `NoResponse` -/

def isNoResponse : Out → Bool
  | .noResponse => true
  | _ => false

theorem runBlocking_noResponse (q : Quirks) (b : Bool) (cid : Nat) (st : ExecSt) (now : Nat) (l : Bool) (c : Cmd)
    (h : isNoResponse (runBlocking q b cid st now l c).2 = true) :
    b = false ∨ q.blockingInExecNoResponse = true := by
  unfold runBlocking at h
  repeat' split at h
  all_goals simp_all [isNoResponse]

theorem runOne_noResponse (q : Quirks) (b : Bool) (cid : Nat) (st : ExecSt) (now : Nat) (c : Cmd)
    (h : isNoResponse (runOne q b cid st now c).2 = true) :
    isBlockingName (nameOf c) = true ∧ (b = false ∨ q.blockingInExecNoResponse = true) := by
  unfold runOne at h
  simp only [] at h
  repeat' split at h
  all_goals first
    | (simp [isNoResponse] at h; done)
    | (rename_i hn; exact ⟨by simp [isBlockingName, hn], runBlocking_noResponse _ _ _ _ _ _ _ h⟩)

/-- the hand-over log only grows, and (outside the switch) only by entries of the issuing connection -/
theorem runBlocking_ext (q : Quirks) (cid : Nat) (st : ExecSt) (now : Nat) (l : Bool) (c : Cmd)
    (hq : q.blockingInExecNoResponse = false) :
    (runBlocking q true cid st now l c).1.ext = st.ext := by
  unfold runBlocking
  repeat' split
  all_goals simp_all

end Ferrous.Tx
