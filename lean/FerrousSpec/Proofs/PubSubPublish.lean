/-
  `publish`: who is a candidate receiver (in terms of the maps), absence of duplicates,
  what the de-duplication does, and the comparison with one delivery per matching subscription.
-/
import FerrousSpec.Proofs.PubSubRefine
import FerrousSpec.Proofs.PubSubGlob
set_option linter.unusedSimpArgs false
namespace Ferrous.PubSub

/-! ### Candidates -/

theorem mem_getD_aget {m : List (Bytes × List ConnId)} {x : Bytes} {c : ConnId} :
    c ∈ (aget m x).getD [] ↔ ∃ cs, aget m x = some cs ∧ c ∈ cs := by
  cases aget m x with
  | none => simp
  | some cs => simp

theorem mem_candidates_none (st : State) (ch : Bytes) (c : ConnId) :
    ((c, none) : Delivery) ∈ candidates st ch ↔ c ∈ members st .chan ch := by
  unfold candidates members
  simp only [List.mem_append, List.mem_map, List.mem_flatMap, State.idx]
  constructor
  · rintro (⟨c', h1, h2⟩ | ⟨e, _, h2⟩)
    · injection h2 with h3 _
      subst h3
      exact h1
    · split at h2
      · simp only [List.mem_map] at h2
        obtain ⟨_, _, h3⟩ := h2
        injection h3 with _ h4
        cases h4
      · cases h2
  · intro h
    exact Or.inl ⟨c, h, rfl⟩

theorem mem_candidates_some {st : State} (hinv : Inv st) (ch : Bytes) (c : ConnId) (p : Bytes) :
    ((c, some p) : Delivery) ∈ candidates st ch ↔ globBytes p ch = true ∧ c ∈ members st .pat p := by
  unfold candidates
  rw [members_def, mem_getD_aget]
  simp only [List.mem_append, List.mem_map, List.mem_flatMap, State.idx]
  have hk : (keys st.patterns).Nodup := hinv.keysIdx .pat
  constructor
  · rintro (⟨c', _, h2⟩ | ⟨e, he, h2⟩)
    · injection h2 with _ h3
      cases h3
    · split at h2
      · rename_i hg
        simp only [List.mem_map] at h2
        obtain ⟨c', hc', h3⟩ := h2
        injection h3 with h4 h5
        injection h5 with h5
        subst h4
        obtain ⟨e1, e2⟩ := e
        simp only at h5 hg hc'
        subst h5
        exact ⟨hg, e2, (mem_iff_aget hk e1 e2).1 he, hc'⟩
      · cases h2
  · rintro ⟨hg, cs, hcs, hc⟩
    refine Or.inr ⟨(p, cs), mem_of_aget hcs, ?_⟩
    simp only [hg, if_true, List.mem_map]
    exact ⟨c, hc, rfl⟩

theorem nodup_candidates {st : State} (hinv : Inv st) (ch : Bytes) : (candidates st ch).Nodup := by
  unfold candidates
  rw [List.nodup_append]
  refine ⟨?_, ?_, ?_⟩
  · -- direct subscribers
    have hn : (members st .chan ch).Nodup := hinv.nodupMembers .chan ch
    unfold members State.idx at hn
    simp only at hn
    exact List.Pairwise.map _ (fun a b hab e => hab (by injection e)) hn
  · -- pattern subscribers
    have hk : (keys st.patterns).Nodup := hinv.keysIdx .pat
    unfold List.Nodup
    rw [List.pairwise_flatMap]
    constructor
    · intro e he
      split
      · have hn : (members st .pat e.1).Nodup := hinv.nodupMembers .pat e.1
        have : aget st.patterns e.1 = some e.2 := (mem_iff_aget hk e.1 e.2).1 he
        unfold members State.idx at hn
        simp only [this, Option.getD] at hn
        exact List.Pairwise.map _ (fun a b hab e' => hab (by injection e')) hn
      · exact List.Pairwise.nil
    · unfold keys List.Nodup at hk
      rw [List.pairwise_map] at hk
      refine hk.imp ?_
      intro e1 e2 hne x hx y hy
      split at hx
      · split at hy
        · simp only [List.mem_map] at hx hy
          obtain ⟨_, _, rfl⟩ := hx
          obtain ⟨_, _, rfl⟩ := hy
          intro e'
          injection e' with _ e''
          injection e'' with e''
          exact hne e''
        · cases hy
      · cases hx
  · intro a ha b hb
    simp only [List.mem_map] at ha
    obtain ⟨c, _, rfl⟩ := ha
    simp only [List.mem_flatMap] at hb
    obtain ⟨e, _, hb⟩ := hb
    split at hb
    · simp only [List.mem_map] at hb
      obtain ⟨_, _, rfl⟩ := hb
      intro e'
      injection e' with _ e''
      cases e''
    · cases hb

/-! ### The de-duplication -/

theorem dedupGo_sublist (seen : List ConnId) (l : List Delivery) : List.Sublist (dedupGo seen l) l := by
  induction l generalizing seen with
  | nil => exact List.Sublist.refl _
  | cons d l ih =>
    simp only [dedupGo]
    split
    · exact List.Sublist.cons _ (ih _)
    · exact List.Sublist.cons_cons _ (ih _)

theorem mem_of_mem_dedupGo {seen : List ConnId} {l : List Delivery} {d : Delivery} (h : d ∈ dedupGo seen l) : d ∈ l :=
  (dedupGo_sublist seen l).subset h

/-- Every connection among the candidates that was not seen before still gets (exactly) one frame. -/
theorem conns_dedupGo (seen : List ConnId) (l : List Delivery) (c : ConnId) :
    c ∈ (dedupGo seen l).map (·.1) ↔ c ∈ l.map (·.1) ∧ c ∉ seen := by
  induction l generalizing seen with
  | nil => simp [dedupGo]
  | cons d l ih =>
    simp only [dedupGo]
    split
    · rename_i hs
      rw [ih]
      simp only [List.map_cons, List.mem_cons]
      constructor
      · rintro ⟨h1, h2⟩; exact ⟨Or.inr h1, h2⟩
      · rintro ⟨h1 | h1, h2⟩
        · exact absurd (h1 ▸ hs) h2
        · exact ⟨h1, h2⟩
    · rename_i hs
      simp only [List.map_cons, List.mem_cons, ih]
      constructor
      · rintro (h | ⟨h1, h2⟩)
        · exact ⟨Or.inl h, h ▸ hs⟩
        · exact ⟨Or.inr h1, fun e => h2 (Or.inr e)⟩
      · rintro ⟨h1 | h1, h2⟩
        · exact Or.inl h1
        · by_cases e : c = d.1
          · exact Or.inl e
          · exact Or.inr ⟨h1, by intro h; rcases h with h | h; exact e h; exact h2 h⟩

theorem nodup_conns_dedupGo (seen : List ConnId) (l : List Delivery) : ((dedupGo seen l).map (·.1)).Nodup := by
  induction l generalizing seen with
  | nil => exact List.nodup_nil
  | cons d l ih =>
    simp only [dedupGo]
    split
    · exact ih _
    · simp only [List.map_cons, List.nodup_cons]
      refine ⟨?_, ih _⟩
      intro h
      have := ((conns_dedupGo (d.1 :: seen) l d.1).1 h).2
      exact this List.mem_cons_self

/-- Without two candidates for the same connection the de-duplication removes nothing. -/
theorem dedupGo_eq_self (seen : List ConnId) (l : List Delivery) (hn : (l.map (·.1)).Nodup)
    (hs : ∀ d ∈ l, d.1 ∉ seen) : dedupGo seen l = l := by
  induction l generalizing seen with
  | nil => rfl
  | cons d l ih =>
    simp only [List.map_cons, List.nodup_cons] at hn
    have hd : d.1 ∉ seen := hs d List.mem_cons_self
    simp only [dedupGo, hd, if_false]
    congr 1
    apply ih _ hn.2
    intro d' hd' hm
    rcases List.mem_cons.1 hm with e | e
    · exact hn.1 (e ▸ List.mem_map_of_mem hd')
    · exact hs d' (List.mem_cons_of_mem _ hd') e

theorem mem_publish {dedup : Bool} {st : State} {ch : Bytes} {d : Delivery} (h : d ∈ publish dedup st ch) :
    d ∈ candidates st ch := by
  unfold publish at h
  split at h
  · exact mem_of_mem_dedupGo h
  · exact h

/-! ### One delivery per matching subscription -/

namespace Spec

theorem mem_deliveries_none (s : State) (ch : Bytes) (c : ConnId) :
    ((c, none) : Delivery) ∈ deliveries s ch ↔ (⟨c, .chan, ch⟩ : Sub) ∈ s := by
  unfold deliveries
  simp only [List.mem_filterMap]
  constructor
  · rintro ⟨e, he, h⟩
    obtain ⟨ec, ek, en⟩ := e
    unfold deliveryOf at h
    cases ek with
    | chan =>
      simp only at h
      split at h
      · rename_i hn
        injection h with h
        injection h with h1 _
        subst h1; subst hn
        exact he
      · cases h
    | pat =>
      simp only at h
      split at h
      · injection h with h
        injection h with _ h2
        cases h2
      · cases h
  · intro h
    exact ⟨⟨c, .chan, ch⟩, h, by simp [deliveryOf]⟩

theorem mem_deliveries_some (s : State) (ch : Bytes) (c : ConnId) (p : Bytes) :
    ((c, some p) : Delivery) ∈ deliveries s ch ↔ (⟨c, .pat, p⟩ : Sub) ∈ s ∧ glob p ch = true := by
  unfold deliveries
  simp only [List.mem_filterMap]
  constructor
  · rintro ⟨e, he, h⟩
    obtain ⟨ec, ek, en⟩ := e
    unfold deliveryOf at h
    cases ek with
    | chan =>
      simp only at h
      split at h
      · injection h with h
        injection h with _ h2
        cases h2
      · cases h
    | pat =>
      simp only at h
      split at h
      · rename_i hg
        injection h with h
        injection h with h1 h2
        injection h2 with h2
        subst h1; subst h2
        exact ⟨he, hg⟩
      · cases h
  · rintro ⟨h, hg⟩
    exact ⟨⟨c, .pat, p⟩, h, by simp [deliveryOf, hg]⟩

theorem nodup_deliveries {s : State} (h : s.Nodup) (ch : Bytes) : (deliveries s ch).Nodup := by
  unfold deliveries List.Nodup
  refine List.Pairwise.filterMap _ ?_ h
  intro a a' hne b hb b' hb' e
  subst e
  apply hne
  obtain ⟨ac, ak, an⟩ := a
  obtain ⟨ac', ak', an'⟩ := a'
  unfold deliveryOf at hb hb'
  cases ak <;> cases ak' <;> simp only at hb hb'
  · split at hb
    · split at hb'
      · rename_i h1 h2
        injection hb with hb
        injection hb' with hb'
        subst hb
        injection hb' with h3 _
        subst h1; subst h2; subst h3
        rfl
      · cases hb'
    · cases hb
  · split at hb
    · split at hb'
      · injection hb with hb
        injection hb' with hb'
        subst hb
        injection hb' with _ h4
        cases h4
      · cases hb'
    · cases hb
  · split at hb
    · split at hb'
      · injection hb with hb
        injection hb' with hb'
        subst hb
        injection hb' with _ h4
        cases h4
      · cases hb'
    · cases hb
  · split at hb
    · split at hb'
      · injection hb with hb
        injection hb' with hb'
        subst hb
        injection hb' with h3 h4
        injection h4 with h4
        subst h3; subst h4
        rfl
      · cases hb'
    · cases hb

end Spec

/-- The candidates of the code are, up to order, one delivery per matching subscription. -/
theorem candidates_perm_spec {st : State} {s : Spec.State} (hinv : Inv st) (hrel : Rel st s) (ch : Bytes) :
    (candidates st ch).Perm (Spec.deliveries s ch) := by
  rw [List.perm_ext_iff_of_nodup (nodup_candidates hinv ch) (Spec.nodup_deliveries hrel.nodup ch)]
  intro d
  obtain ⟨c, o⟩ := d
  cases o with
  | none =>
    rw [mem_candidates_none, Spec.mem_deliveries_none, hinv.agree, hrel.mem]
  | some p =>
    rw [mem_candidates_some hinv, Spec.mem_deliveries_some, hinv.agree, hrel.mem, globBytes_eq_spec]
    exact And.comm

end Ferrous.PubSub
