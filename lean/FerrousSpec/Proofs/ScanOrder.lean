/-
  Byte-wise order of keys, sorting, and the counting lemma behind the rank argument of C19.
-/
import FerrousSpec.Model.Scan
namespace Ferrous.Scan

/-! ### `bytesLe` is a total order -/

theorem bytesLe_refl : ∀ a : Bytes, bytesLe a a = true
  | [] => rfl
  | x :: as => by simp [bytesLe, bytesLe_refl as]

theorem bytesLe_total : ∀ a b : Bytes, bytesLe a b = true ∨ bytesLe b a = true
  | [], _ => Or.inl rfl
  | _ :: _, [] => Or.inr rfl
  | x :: as, y :: bs => by
    simp only [bytesLe]
    rcases Nat.lt_trichotomy x y with h | h | h
    · left; simp [h]
    · subst h
      simp only [Nat.lt_irrefl, if_false, if_true]
      exact bytesLe_total as bs
    · right; simp [h]

theorem bytesLe_antisymm : ∀ a b : Bytes, bytesLe a b = true → bytesLe b a = true → a = b
  | [], [], _, _ => rfl
  | [], _ :: _, _, h => by simp [bytesLe] at h
  | _ :: _, [], h, _ => by simp [bytesLe] at h
  | x :: as, y :: bs, h1, h2 => by
    simp only [bytesLe] at h1 h2
    rcases Nat.lt_trichotomy x y with h | h | h
    · have : ¬ y < x := by omega
      have hne : ¬ y = x := by omega
      simp [this, hne] at h2
    · subst h
      simp only [Nat.lt_irrefl, if_false, if_true] at h1 h2
      rw [bytesLe_antisymm as bs h1 h2]
    · have : ¬ x < y := by omega
      have hne : ¬ x = y := by omega
      simp [this, hne] at h1

theorem bytesLe_trans : ∀ a b c : Bytes, bytesLe a b = true → bytesLe b c = true → bytesLe a c = true
  | [], _, _, _, _ => rfl
  | _ :: _, [], _, h, _ => by simp [bytesLe] at h
  | _ :: _, _ :: _, [], _, h => by simp [bytesLe] at h
  | x :: as, y :: bs, z :: cs, h1, h2 => by
    simp only [bytesLe] at h1 h2 ⊢
    by_cases hxy : x < y
    · by_cases hyz : y < z
      · have : x < z := by omega
        simp [this]
      · by_cases hyz' : y = z
        · subst hyz'; simp [hxy]
        · simp [hyz, hyz'] at h2
    · by_cases hxy' : x = y
      · subst hxy'
        simp only [Nat.lt_irrefl, if_false, if_true] at h1
        by_cases hyz : x < z
        · simp [hyz]
        · by_cases hyz' : x = z
          · subst hyz'
            simp only [Nat.lt_irrefl, if_false, if_true] at h2 ⊢
            exact bytesLe_trans as bs cs h1 h2
          · simp [hyz, hyz'] at h2
      · simp [hxy, hxy'] at h1

theorem bytesLt_irrefl (a : Bytes) : bytesLt a a = false := by simp [bytesLt]

theorem bytesLt_asymm (a b : Bytes) (h : bytesLt a b = true) : bytesLt b a = false := by
  simp only [bytesLt, Bool.and_eq_true, Bool.not_eq_true', beq_eq_false_iff_ne, ne_eq] at h
  cases hba : bytesLt b a with
  | false => rfl
  | true =>
    simp only [bytesLt, Bool.and_eq_true, Bool.not_eq_true', beq_eq_false_iff_ne, ne_eq] at hba
    exact absurd (bytesLe_antisymm a b h.1 hba.1) h.2

theorem bytesLt_of_le_ne (a b : Bytes) (h : bytesLe a b = true) (hne : a ≠ b) : bytesLt a b = true := by
  simp [bytesLt, h, hne]

/-! ### Sortedness -/

/-- Strictly increasing (what `sort()` yields on the distinct keys of a `HashMap`). -/
def Sorted (l : List Bytes) : Prop := l.Pairwise (fun a b => bytesLt a b = true)

theorem Sorted.nodup {l : List Bytes} (h : Sorted l) : l.Nodup := by
  unfold Sorted at h
  refine List.Pairwise.imp ?_ h
  intro a b hab heq
  subst heq
  simp [bytesLt_irrefl] at hab

theorem mem_insertKey (x y : Bytes) : ∀ l : List Bytes, y ∈ insertKey x l ↔ y = x ∨ y ∈ l
  | [] => by simp [insertKey]
  | z :: l => by
    simp only [insertKey]
    split
    · simp
    · simp only [List.mem_cons, mem_insertKey x y l]
      constructor
      · rintro (h | h | h)
        · exact Or.inr (Or.inl h)
        · exact Or.inl h
        · exact Or.inr (Or.inr h)
      · rintro (h | h | h)
        · exact Or.inr (Or.inl h)
        · exact Or.inl h
        · exact Or.inr (Or.inr h)

theorem mem_sortKeys (y : Bytes) : ∀ l : List Bytes, y ∈ sortKeys l ↔ y ∈ l
  | [] => by simp [sortKeys]
  | x :: l => by simp [sortKeys, mem_insertKey, mem_sortKeys y l]

theorem length_insertKey (x : Bytes) : ∀ l : List Bytes, (insertKey x l).length = l.length + 1
  | [] => rfl
  | z :: l => by
    simp only [insertKey]
    split
    · simp
    · simp [length_insertKey x l]

theorem length_sortKeys : ∀ l : List Bytes, (sortKeys l).length = l.length
  | [] => rfl
  | x :: l => by simp [sortKeys, length_insertKey, length_sortKeys l]

theorem sorted_insertKey (x : Bytes) : ∀ l : List Bytes, Sorted l → x ∉ l → Sorted (insertKey x l)
  | [], _, _ => by simp [insertKey, Sorted]
  | z :: l, hs, hx => by
    unfold Sorted at hs ⊢
    simp only [insertKey]
    have hz := List.pairwise_cons.mp hs
    have hxz : x ≠ z := fun h => hx (by simp [h])
    have hxl : x ∉ l := fun h => hx (by simp [h])
    split
    · rename_i hle
      have hlt : bytesLt x z = true := bytesLt_of_le_ne x z hle hxz
      refine List.pairwise_cons.mpr ⟨?_, hs⟩
      intro b hb
      rcases List.mem_cons.mp hb with h | h
      · subst h; exact hlt
      · have hzb := hz.1 b h
        simp only [bytesLt, Bool.and_eq_true, Bool.not_eq_true', beq_eq_false_iff_ne, ne_eq] at hzb hlt ⊢
        refine ⟨bytesLe_trans x z b hlt.1 hzb.1, ?_⟩
        intro hxb
        subst hxb
        exact hlt.2 (bytesLe_antisymm x z hlt.1 hzb.1)
    · rename_i hle
      have hzx : bytesLe z x = true := by
        rcases bytesLe_total x z with h | h
        · exact absurd h hle
        · exact h
      refine List.pairwise_cons.mpr ⟨?_, sorted_insertKey x l hz.2 hxl⟩
      intro b hb
      rcases (mem_insertKey x b l).mp hb with h | h
      · subst h; exact bytesLt_of_le_ne z b hzx (fun h => hxz h.symm)
      · exact hz.1 b h

theorem sorted_sortKeys : ∀ l : List Bytes, l.Nodup → Sorted (sortKeys l)
  | [], _ => by simp [sortKeys, Sorted]
  | x :: l, h => by
    have h' := List.nodup_cons.mp h
    simp only [sortKeys]
    exact sorted_insertKey x _ (sorted_sortKeys l h'.2) (fun hm => h'.1 ((mem_sortKeys x l).mp hm))

/-! ### Position of an element in a strictly sorted list -/

theorem split_at_index {l : List Bytes} {j : Nat} {k : Bytes} (h : l[j]? = some k) :
    l = l.take j ++ k :: l.drop (j + 1) := by
  obtain ⟨hj, hk⟩ := List.getElem?_eq_some_iff.mp h
  have := List.drop_eq_getElem_cons hj
  rw [hk] at this
  rw [← this, List.take_append_drop]

/-- In a strictly sorted list the elements smaller than the one at index `j` are the first `j`. -/
theorem lt_mem_take {l : List Bytes} (hs : Sorted l) {j : Nat} {k : Bytes} (h : l[j]? = some k)
    {x : Bytes} (hx : x ∈ l) (hlt : bytesLt x k = true) : x ∈ l.take j := by
  have hsplit := split_at_index h
  rw [hsplit] at hx hs
  unfold Sorted at hs
  obtain ⟨_, h2, _⟩ := List.pairwise_append.mp hs
  rcases List.mem_append.mp hx with hx | hx
  · exact hx
  · rcases List.mem_cons.mp hx with hx | hx
    · subst hx; simp [bytesLt_irrefl] at hlt
    · have := (List.pairwise_cons.mp h2).1 x hx
      rw [bytesLt_asymm k x this] at hlt
      exact absurd hlt (by simp)

/-- …and every element before index `j` is smaller. -/
theorem take_lt {l : List Bytes} (hs : Sorted l) {j : Nat} {k : Bytes} (h : l[j]? = some k)
    {x : Bytes} (hx : x ∈ l.take j) : bytesLt x k = true := by
  have hsplit := split_at_index h
  rw [hsplit] at hs
  unfold Sorted at hs
  obtain ⟨_, _, h3⟩ := List.pairwise_append.mp hs
  exact h3 x hx k (by simp)

/-- A duplicate-free list contained in another is not longer. -/
theorem nodup_subset_length : ∀ (s t : List Bytes), s.Nodup → (∀ x ∈ s, x ∈ t) → s.length ≤ t.length
  | [], _, _, _ => by simp
  | a :: s, t, hnd, hsub => by
    have hnd' := List.nodup_cons.mp hnd
    have hat : a ∈ t := hsub a (by simp)
    have hsub' : ∀ x ∈ s, x ∈ t.erase a := by
      intro x hx
      have hxa : x ≠ a := fun h => hnd'.1 (h ▸ hx)
      exact (List.mem_erase_of_ne hxa).mpr (hsub x (by simp [hx]))
    have ih := nodup_subset_length s (t.erase a) hnd'.2 hsub'
    have hl := List.length_erase_of_mem hat
    have hpos : 0 < t.length := List.length_pos_of_mem hat
    simp only [List.length_cons]
    omega

/-- **The rank step.**  `k` sits at index `j ≥ c` of the sorted list `l`; every one of the first
    `c` elements of `l` is still in the sorted list `l'`, and so is `k`: then `k` sits at an index
    `≥ c` of `l'` (whatever else was added to or removed from `l'`). -/
theorem rank_step {l l' : List Bytes} (hs : Sorted l) (hs' : Sorted l') {j c : Nat} {k : Bytes}
    (hk : l[j]? = some k) (hc : c ≤ j) (hkeep : ∀ x ∈ l.take c, x ∈ l') (hk' : k ∈ l') :
    ∃ j', l'[j']? = some k ∧ c ≤ j' := by
  obtain ⟨j', hj', hget⟩ := List.getElem_of_mem hk'
  have hk'' : l'[j']? = some k := by simp [List.getElem?_eq_getElem hj', hget]
  refine ⟨j', hk'', ?_⟩
  -- the first c elements of l are distinct, smaller than k, and all among the first j' of l'
  have hjlt : j < l.length := (List.getElem?_eq_some_iff.mp hk).1
  have hsub : ∀ x ∈ l.take c, x ∈ l'.take j' := by
    intro x hx
    have hxj : x ∈ l.take j := by
      have : l.take c = (l.take j).take c := by simp [List.take_take, Nat.min_eq_left hc]
      rw [this] at hx
      exact List.mem_of_mem_take hx
    exact lt_mem_take hs' hk'' (hkeep x hx) (take_lt hs hk hxj)
  have hnd : (l.take c).Nodup := (List.Pairwise.sublist (List.take_sublist c l) hs.nodup)
  have := nodup_subset_length _ _ hnd hsub
  simp only [List.length_take] at this
  omega

end Ferrous.Scan
