/-
  KEYS and the glob matcher of the key-space model (`KS.glob`, Redis `stringmatchlen`).
  Helper lemmas; the property statements are in Props/C01.lean.
-/
import FerrousSpec.Model.Keyspace
namespace Ferrous.KS
open Ferrous

/-! ### sorting keeps exactly the elements -/

theorem mem_insertSorted (x y : Bytes) (l : List Bytes) : y ∈ insertSorted x l ↔ y = x ∨ y ∈ l := by
  induction l with
  | nil => simp [insertSorted]
  | cons a t ih =>
    unfold insertSorted
    split
    · simp only [List.mem_cons, ih]
      constructor
      · rintro (h | h | h)
        · exact Or.inr (Or.inl h)
        · exact Or.inl h
        · exact Or.inr (Or.inr h)
      · rintro (h | h | h)
        · exact Or.inr (Or.inl h)
        · exact Or.inl h
        · exact Or.inr (Or.inr h)
    · simp [List.mem_cons]

theorem mem_sortBytes (y : Bytes) (l : List Bytes) : y ∈ sortBytes l ↔ y ∈ l := by
  induction l with
  | nil => simp [sortBytes]
  | cons a t ih =>
    have : sortBytes (a :: t) = insertSorted a (sortBytes t) := rfl
    rw [this, mem_insertSorted, ih]; simp [List.mem_cons]

theorem length_insertSorted (x : Bytes) (l : List Bytes) : (insertSorted x l).length = l.length + 1 := by
  induction l with
  | nil => simp [insertSorted]
  | cons a t ih =>
    unfold insertSorted
    split
    · simp [ih]
    · simp

theorem length_sortBytes (l : List Bytes) : (sortBytes l).length = l.length := by
  induction l with
  | nil => simp [sortBytes]
  | cons a t ih =>
    have : sortBytes (a :: t) = insertSorted a (sortBytes t) := rfl
    rw [this, length_insertSorted, ih]; simp

/-! ### the matcher on patterns without special bytes, and on `*` -/

/-- a pattern byte that is none of `*` `?` `[` `\` -/
def plain (c : Nat) : Bool := c != 42 && c != 63 && c != 91 && c != 92

theorem globF_plain_nil (f c : Nat) (p : Bytes) (hc : plain c = true) : globF (f + 1) (c :: p) [] = false := by
  simp only [plain, Bool.and_eq_true, bne_iff_ne, ne_eq] at hc
  obtain ⟨⟨⟨h1, h2⟩, h3⟩, h4⟩ := hc
  conv => lhs; unfold globF
  split <;> simp_all

theorem globF_plain_cons (f c d : Nat) (p t : Bytes) (hc : plain c = true) :
    globF (f + 1) (c :: p) (d :: t) = if c = d then globF f p t else false := by
  simp only [plain, Bool.and_eq_true, bne_iff_ne, ne_eq] at hc
  obtain ⟨⟨⟨h1, h2⟩, h3⟩, h4⟩ := hc
  conv => lhs; unfold globF
  split <;> simp_all

theorem globF_literal : ∀ (p : Bytes) (f : Nat) (s : Bytes), p.all plain = true → p.length < f →
    globF f p s = decide (p = s) := by
  intro p
  induction p with
  | nil =>
    intro f s _ hf
    cases f with
    | zero => omega
    | succ f => cases s <;> simp [globF]
  | cons c p ih =>
    intro f s hp hf
    simp only [List.all_cons, Bool.and_eq_true] at hp
    cases f with
    | zero => omega
    | succ f =>
      cases s with
      | nil => rw [globF_plain_nil f c p hp.1]; simp
      | cons d t =>
        rw [globF_plain_cons f c d p t hp.1]
        simp only [List.length_cons] at hf
        by_cases hcd : c = d
        · subst hcd
          simp only [if_true]
          rw [ih f t hp.2 (by omega)]
          simp
        · simp [hcd]

theorem globF_star_all : ∀ (s : Bytes) (f : Nat), s.length + 2 ≤ f → globF f [42] s = true := by
  intro s
  induction s with
  | nil =>
    intro f hf
    match f, hf with
    | f + 2, _ => simp [globF]
  | cons a t ih =>
    intro f hf
    match f, hf with
    | f + 1, hf =>
      simp only [List.length_cons] at hf
      have := ih f (by omega)
      unfold globF
      simp [this]

end Ferrous.KS
