/-
  C02 helper lemmas (2): every storage call refines the prescribed (instant-expiry) store when it has a lazy
  test or meets no expired entry; key uniqueness is preserved.
-/
import FerrousSpec.Proofs.ExpiryBasic
set_option linter.unusedSimpArgs false
set_option linter.unusedVariables false
namespace Ferrous.Exp
open Ferrous

def lazyOp (c : Cfg) : Op → Bool
  | .setValue _ _ _ _ => true
  | .setNx _ _ ttl => c.lazy (setNxFn ttl)
  | .get _ => c.lazy "get"
  | .exists _ => c.lazy "exists"
  | .delete _ => c.lazy "delete"
  | .expire _ _ => c.lazy "expire"
  | .persist _ => c.lazy "persist"
  | .ttl _ => c.lazy "ttl"
  | .keyType _ => c.lazy "key_type"
  | .read fn _ _ => c.lazy fn
  | .update fn _ _ _ => c.lazy fn
  | .shrink fn _ _ => c.lazy fn
  | .rename _ _ => c.lazy "rename"
  | .keys fn => c.lazy fn
  | .scan => c.lazy "scan"
  | .flush => true

/-- no expired entry is stored under the key(s) the call looks at -/
def Clean (now : Nat) (o : Op) (s : Shard) : Prop :=
  match o with
  | .setValue _ _ _ _ => True
  | .flush => True
  | .keys _ => ∀ p ∈ s.data, expired now p.2 = false
  | .scan => ∀ p ∈ s.data, expired now p.2 = false
  | .setNx k _ _ => ∀ e, lookup s.data k = some e → expired now e = false
  | .get k => ∀ e, lookup s.data k = some e → expired now e = false
  | .exists k => ∀ e, lookup s.data k = some e → expired now e = false
  | .delete k => ∀ e, lookup s.data k = some e → expired now e = false
  | .expire k _ => ∀ e, lookup s.data k = some e → expired now e = false
  | .persist k => ∀ e, lookup s.data k = some e → expired now e = false
  | .ttl k => ∀ e, lookup s.data k = some e → expired now e = false
  | .keyType k => ∀ e, lookup s.data k = some e → expired now e = false
  | .read _ k _ => ∀ e, lookup s.data k = some e → expired now e = false
  | .update _ k _ _ => ∀ e, lookup s.data k = some e → expired now e = false
  | .shrink _ k _ => ∀ e, lookup s.data k = some e → expired now e = false
  | .rename a _ => ∀ e, lookup s.data a = some e → expired now e = false

/-- the three facts about `enter` packaged for the per-operation proofs -/
theorem enter_facts (c : Cfg) (fn : String) (now : Nat) (s : Shard) (k : Key) (hn : NodupKeys s.data)
    (h : Guarded c fn now s k) :
    ∃ s1 cur, enter c fn now s k = (s1, cur) ∧ cur = lookup (Spec.purge now s.data) k ∧
      Spec.purge now s1.data = Spec.purge now s.data ∧
      (∀ e, cur = some e → expired now e = false) := by
  refine ⟨(enter c fn now s k).1, (enter c fn now s k).2, rfl, enter_snd c fn now s k hn h, enter_view c fn now s k hn, ?_⟩
  intro e he
  rw [enter_snd c fn now s k hn h, lookup_purge now s.data k hn] at he
  cases hl : lookup s.data k with
  | none => simp [hl, Option.filter] at he
  | some e' =>
    simp only [hl, Option.filter] at he
    split at he
    · rename_i hh; simp at he; subst he; simpa using hh
    · simp at he

theorem fresh_alive (now t : Nat) (tag : Tag) (val : Nat) : expired now ⟨tag, val, some (now + t)⟩ = false := by
  simp [expired]

theorem fresh_alive_opt (now : Nat) (ttl : Option Nat) (tag : Tag) (val : Nat) :
    expired now ⟨tag, val, ttl.map (now + ·)⟩ = false := by
  cases ttl <;> simp [expired]


theorem refines_setValue (c : Cfg) (now : Nat) (s : Shard) (k : Key) (tag : Tag) (val : Nat) (ttl : Option Nat)
    (hn : NodupKeys s.data) :
    Spec.purge now (step c (.setValue k tag val ttl) now s).1.data = (Spec.step (.setValue k tag val ttl) now s.data).1 ∧
    (step c (.setValue k tag val ttl) now s).2 = (Spec.step (.setValue k tag val ttl) now s.data).2 := by
  simp only [step, Spec.step, and_true]
  rw [purge_insert_alive _ _ _ _ (fresh_alive_opt now ttl tag val), enter_view c _ now s k hn]

theorem refines_setNx (c : Cfg) (now : Nat) (s : Shard) (k : Key) (val : Nat) (ttl : Option Nat)
    (hn : NodupKeys s.data) (h : Guarded c (setNxFn ttl) now s k) :
    Spec.purge now (step c (.setNx k val ttl) now s).1.data = (Spec.step (.setNx k val ttl) now s.data).1 ∧
    (step c (.setNx k val ttl) now s).2 = (Spec.step (.setNx k val ttl) now s.data).2 := by
  obtain ⟨s1, cur, hE, hc, hv, ha⟩ := enter_facts c _ now s k hn h
  simp only [step, Spec.step, hE, ← hc]
  cases cur with
  | some e => simp [hv]
  | none => simp [purge_insert_alive _ _ _ _ (fresh_alive_opt now ttl .str val), hv]

theorem refines_get (c : Cfg) (now : Nat) (s : Shard) (k : Key) (hn : NodupKeys s.data) (h : Guarded c "get" now s k) :
    Spec.purge now (step c (.get k) now s).1.data = (Spec.step (.get k) now s.data).1 ∧
    (step c (.get k) now s).2 = (Spec.step (.get k) now s.data).2 := by
  obtain ⟨s1, cur, hE, hc, hv, ha⟩ := enter_facts c "get" now s k hn h
  simp only [step, Spec.step, hE, ← hc]
  cases cur <;> simp [hv]

theorem refines_exists (c : Cfg) (now : Nat) (s : Shard) (k : Key) (hn : NodupKeys s.data) (h : Guarded c "exists" now s k) :
    Spec.purge now (step c (.exists k) now s).1.data = (Spec.step (.exists k) now s.data).1 ∧
    (step c (.exists k) now s).2 = (Spec.step (.exists k) now s.data).2 := by
  obtain ⟨s1, cur, hE, hc, hv, ha⟩ := enter_facts c "exists" now s k hn h
  simp only [step, Spec.step, hE, ← hc]
  cases cur <;> simp [hv]

theorem refines_delete (c : Cfg) (now : Nat) (s : Shard) (k : Key) (hn : NodupKeys s.data) (h : Guarded c "delete" now s k) :
    Spec.purge now (step c (.delete k) now s).1.data = (Spec.step (.delete k) now s.data).1 ∧
    (step c (.delete k) now s).2 = (Spec.step (.delete k) now s.data).2 := by
  obtain ⟨s1, cur, hE, hc, hv, ha⟩ := enter_facts c "delete" now s k hn h
  simp only [step, Spec.step, hE, ← hc]
  cases cur <;> simp [hv, purge_erase]

theorem refines_expire (c : Cfg) (now : Nat) (s : Shard) (k : Key) (ttl : Nat) (hn : NodupKeys s.data)
    (h : Guarded c "expire" now s k) :
    Spec.purge now (step c (.expire k ttl) now s).1.data = (Spec.step (.expire k ttl) now s.data).1 ∧
    (step c (.expire k ttl) now s).2 = (Spec.step (.expire k ttl) now s.data).2 := by
  obtain ⟨s1, cur, hE, hc, hv, ha⟩ := enter_facts c "expire" now s k hn h
  simp only [step, Spec.step, hE, ← hc]
  cases cur with
  | none => simp [hv]
  | some e =>
    have : expired now { e with deadline := some (now + ttl) } = false := by simp [expired]
    simp [purge_insert_alive _ _ _ _ this, hv]

theorem refines_persist (c : Cfg) (now : Nat) (s : Shard) (k : Key) (hn : NodupKeys s.data)
    (h : Guarded c "persist" now s k) :
    Spec.purge now (step c (.persist k) now s).1.data = (Spec.step (.persist k) now s.data).1 ∧
    (step c (.persist k) now s).2 = (Spec.step (.persist k) now s.data).2 := by
  obtain ⟨s1, cur, hE, hc, hv, ha⟩ := enter_facts c "persist" now s k hn h
  simp only [step, Spec.step, hE, ← hc]
  cases cur with
  | none => simp [hv]
  | some e =>
    have : expired now { e with deadline := none } = false := by simp [expired]
    cases hd : e.deadline.isSome <;> simp [hd, purge_insert_alive _ _ _ _ this, hv]

theorem refines_ttl (c : Cfg) (now : Nat) (s : Shard) (k : Key) (hn : NodupKeys s.data) (h : Guarded c "ttl" now s k) :
    Spec.purge now (step c (.ttl k) now s).1.data = (Spec.step (.ttl k) now s.data).1 ∧
    (step c (.ttl k) now s).2 = (Spec.step (.ttl k) now s.data).2 := by
  obtain ⟨s1, cur, hE, hc, hv, ha⟩ := enter_facts c "ttl" now s k hn h
  simp only [step, Spec.step, hE, ← hc]
  cases cur <;> simp [hv]

theorem refines_keyType (c : Cfg) (now : Nat) (s : Shard) (k : Key) (hn : NodupKeys s.data) (h : Guarded c "key_type" now s k) :
    Spec.purge now (step c (.keyType k) now s).1.data = (Spec.step (.keyType k) now s.data).1 ∧
    (step c (.keyType k) now s).2 = (Spec.step (.keyType k) now s.data).2 := by
  obtain ⟨s1, cur, hE, hc, hv, ha⟩ := enter_facts c "key_type" now s k hn h
  simp only [step, Spec.step, hE, ← hc]
  cases cur <;> simp [hv]

theorem refines_read (c : Cfg) (fn : String) (now : Nat) (s : Shard) (k : Key) (tag : Tag) (hn : NodupKeys s.data)
    (h : Guarded c fn now s k) :
    Spec.purge now (step c (.read fn k tag) now s).1.data = (Spec.step (.read fn k tag) now s.data).1 ∧
    (step c (.read fn k tag) now s).2 = (Spec.step (.read fn k tag) now s.data).2 := by
  obtain ⟨s1, cur, hE, hc, hv, ha⟩ := enter_facts c fn now s k hn h
  simp only [step, Spec.step, hE, ← hc]
  cases cur with
  | none => simp [hv]
  | some e => by_cases ht : e.tag = tag <;> simp [ht, hv]

theorem refines_update (c : Cfg) (fn : String) (now : Nat) (s : Shard) (k : Key) (tag : Tag) (delta : Nat)
    (hn : NodupKeys s.data) (h : Guarded c fn now s k) :
    Spec.purge now (step c (.update fn k tag delta) now s).1.data = (Spec.step (.update fn k tag delta) now s.data).1 ∧
    (step c (.update fn k tag delta) now s).2 = (Spec.step (.update fn k tag delta) now s.data).2 := by
  obtain ⟨s1, cur, hE, hc, hv, ha⟩ := enter_facts c fn now s k hn h
  simp only [step, Spec.step, hE, ← hc]
  cases cur with
  | none =>
    have : expired now ⟨tag, delta, none⟩ = false := by simp [expired]
    simp [purge_insert_alive _ _ _ _ this, hv]
  | some e =>
    have he := ha e rfl
    have : expired now { e with val := e.val + delta } = false := by simpa [expired] using he
    by_cases ht : e.tag = tag
    · subst ht; simp [hv, purge_insert_alive _ _ _ _ this]
    · simp [ht, hv]

theorem refines_shrink (c : Cfg) (fn : String) (now : Nat) (s : Shard) (k : Key) (tag : Tag)
    (hn : NodupKeys s.data) (h : Guarded c fn now s k) :
    Spec.purge now (step c (.shrink fn k tag) now s).1.data = (Spec.step (.shrink fn k tag) now s.data).1 ∧
    (step c (.shrink fn k tag) now s).2 = (Spec.step (.shrink fn k tag) now s.data).2 := by
  obtain ⟨s1, cur, hE, hc, hv, ha⟩ := enter_facts c fn now s k hn h
  simp only [step, Spec.step, hE, ← hc]
  cases cur with
  | none => simp [hv]
  | some e =>
    have he := ha e rfl
    have : expired now { e with val := e.val - 1 } = false := by simpa [expired] using he
    by_cases ht : e.tag = tag
    · subst ht
      by_cases hv1 : e.val ≤ 1 <;> simp [hv1, hv, purge_erase, purge_insert_alive _ _ _ _ this]
    · simp [ht, hv]

theorem refines_rename (c : Cfg) (now : Nat) (s : Shard) (a b : Key) (hn : NodupKeys s.data) (h : Guarded c "rename" now s a) :
    Spec.purge now (step c (.rename a b) now s).1.data = (Spec.step (.rename a b) now s.data).1 ∧
    (step c (.rename a b) now s).2 = (Spec.step (.rename a b) now s.data).2 := by
  obtain ⟨s1, cur, hE, hc, hv, ha⟩ := enter_facts c "rename" now s a hn h
  simp only [step, Spec.step, hE, ← hc]
  cases cur with
  | none => simp [hv]
  | some e => simp [purge_insert_alive _ _ _ _ (ha e rfl), purge_erase, hv]

theorem refines_keys (c : Cfg) (fn : String) (now : Nat) (s : Shard)
    (h : c.lazy fn = true ∨ ∀ p ∈ s.data, expired now p.2 = false) :
    Spec.purge now (step c (.keys fn) now s).1.data = (Spec.step (.keys fn) now s.data).1 ∧
    (step c (.keys fn) now s).2 = (Spec.step (.keys fn) now s.data).2 := by
  simp only [step, Spec.step, true_and]
  rcases h with h | h
  · simp [h, Spec.purge]
  · have : Spec.purge now s.data = s.data := by
      unfold Spec.purge
      apply List.filter_eq_self.mpr
      intro p hp; simp [h p hp]
    cases hl : c.lazy fn
    · simp [this]
    · simp [Spec.purge]

theorem refines_scan (c : Cfg) (now : Nat) (s : Shard)
    (h : c.lazy "scan" = true ∨ ∀ p ∈ s.data, expired now p.2 = false) :
    Spec.purge now (step c .scan now s).1.data = (Spec.step .scan now s.data).1 ∧
    (step c .scan now s).2 = (Spec.step .scan now s.data).2 := by
  simp only [step, Spec.step, true_and]
  rcases h with h | h
  · simp [h, Spec.purge]
  · have : Spec.purge now s.data = s.data := by
      unfold Spec.purge
      apply List.filter_eq_self.mpr
      intro p hp; simp [h p hp]
    cases hl : c.lazy "scan"
    · simp [this]
    · simp [Spec.purge]

/-- SINGLE-STEP REFINEMENT.  A storage call that has a lazy test — or that meets no expired entry — returns what
    the prescribed store returns and leaves the same visible entries. -/
theorem step_refines (c : Cfg) (o : Op) (now : Nat) (s : Shard) (hn : NodupKeys s.data)
    (h : lazyOp c o = true ∨ Clean now o s) :
    Spec.purge now (step c o now s).1.data = (Spec.step o now s.data).1 ∧
    (step c o now s).2 = (Spec.step o now s.data).2 := by
  cases o with
  | setValue k tag val ttl => exact refines_setValue c now s k tag val ttl hn
  | setNx k val ttl => exact refines_setNx c now s k val ttl hn h
  | get k => exact refines_get c now s k hn h
  | «exists» k => exact refines_exists c now s k hn h
  | delete k => exact refines_delete c now s k hn h
  | expire k ttl => exact refines_expire c now s k ttl hn h
  | persist k => exact refines_persist c now s k hn h
  | ttl k => exact refines_ttl c now s k hn h
  | keyType k => exact refines_keyType c now s k hn h
  | read fn k tag => exact refines_read c fn now s k tag hn h
  | update fn k tag delta => exact refines_update c fn now s k tag delta hn h
  | shrink fn k tag => exact refines_shrink c fn now s k tag hn h
  | rename a b => exact refines_rename c now s a b hn h
  | keys fn => exact refines_keys c fn now s h
  | scan => exact refines_scan c now s h
  | flush => simp [step, Spec.step, Spec.purge]

/-- unique keys are preserved by every storage call -/
theorem step_nodup (c : Cfg) (o : Op) (now : Nat) (s : Shard) (hn : NodupKeys s.data) :
    NodupKeys (step c o now s).1.data := by
  have key : ∀ fn k, NodupKeys (enter c fn now s k).1.data := fun fn k => enter_nodup c fn now s k hn
  cases o with
  | setValue k tag val ttl => exact nodup_insert _ _ _ (key _ k)
  | setNx k val ttl =>
    have := key (setNxFn ttl) k
    simp only [step]
    generalize enter c (setNxFn ttl) now s k = r at this ⊢
    obtain ⟨s1, cur⟩ := r
    cases cur <;> first | exact this | exact nodup_insert _ _ _ this
  | get k =>
    have := key "get" k
    simp only [step]
    generalize enter c "get" now s k = r at this ⊢
    obtain ⟨s1, cur⟩ := r
    cases cur <;> exact this
  | «exists» k => exact key "exists" k
  | delete k =>
    have := key "delete" k
    simp only [step]
    generalize enter c "delete" now s k = r at this ⊢
    obtain ⟨s1, cur⟩ := r
    cases cur <;> first | exact this | exact nodup_erase _ _ this
  | expire k ttl =>
    have := key "expire" k
    simp only [step]
    generalize enter c "expire" now s k = r at this ⊢
    obtain ⟨s1, cur⟩ := r
    cases cur <;> first | exact this | exact nodup_insert _ _ _ this
  | persist k =>
    have := key "persist" k
    simp only [step]
    generalize enter c "persist" now s k = r at this ⊢
    obtain ⟨s1, cur⟩ := r
    cases cur with
    | none => exact this
    | some e =>
      simp only []
      split
      · exact nodup_insert _ _ _ this
      · exact this
  | ttl k =>
    have := key "ttl" k
    simp only [step]
    generalize enter c "ttl" now s k = r at this ⊢
    obtain ⟨s1, cur⟩ := r
    cases cur <;> exact this
  | keyType k => exact key "key_type" k
  | read fn k tag =>
    have := key fn k
    simp only [step]
    generalize enter c fn now s k = r at this ⊢
    obtain ⟨s1, cur⟩ := r
    cases cur with
    | none => exact this
    | some e => simp only []; split <;> exact this
  | update fn k tag delta =>
    have := key fn k
    simp only [step]
    generalize enter c fn now s k = r at this ⊢
    obtain ⟨s1, cur⟩ := r
    cases cur with
    | none => exact nodup_insert _ _ _ this
    | some e =>
      simp only []
      split
      · exact nodup_insert _ _ _ this
      · exact this
  | shrink fn k tag =>
    have := key fn k
    simp only [step]
    generalize enter c fn now s k = r at this ⊢
    obtain ⟨s1, cur⟩ := r
    cases cur with
    | none => exact this
    | some e =>
      simp only []
      split
      · split
        · exact nodup_erase _ _ this
        · exact nodup_insert _ _ _ this
      · exact this
  | rename a b =>
    have := key "rename" a
    simp only [step]
    generalize enter c "rename" now s a = r at this ⊢
    obtain ⟨s1, cur⟩ := r
    cases cur with
    | none => exact this
    | some e => exact nodup_insert _ _ _ (nodup_erase _ _ this)
  | keys fn => exact hn
  | scan => exact hn
  | flush => exact nodup_nil

end Ferrous.Exp
