/-
  C18 — the connection machine touches the store only through `access`; which database every access uses;
  what a request of one connection can change in the others.  Valid for EVERY setting of the switches.
-/
import FerrousSpec.Proofs.DbsFrame
set_option linter.unusedSimpArgs false
set_option linter.unusedVariables false
namespace Ferrous.Dbs
open Ferrous Ferrous.KS

/-! ### Bookkeeping relations between a state and a later state -/

/-- `st'` was reached from `st` by store accesses that all satisfy `P` (and by nothing else that touches the store) -/
def Logs (q : Quirks) (P : Access → Prop) (st st' : State) : Prop :=
  ∃ as, st'.log = st.log ++ as ∧ st'.store = runAcc q st.store as ∧ ∀ a ∈ as, P a

theorem Logs.of_eq {q : Quirks} {P : Access → Prop} {st st' : State} (hl : st'.log = st.log) (hs : st'.store = st.store) :
    Logs q P st st' := ⟨[], by simp [hl], by simp [hs, runAcc], by simp⟩

theorem Logs.refl {q : Quirks} {P : Access → Prop} (st : State) : Logs q P st st := Logs.of_eq rfl rfl

theorem Logs.trans {q : Quirks} {P : Access → Prop} {a b c : State} : Logs q P a b → Logs q P b c → Logs q P a c := by
  rintro ⟨as, h1, h2, h3⟩ ⟨bs, g1, g2, g3⟩
  refine ⟨as ++ bs, by rw [g1, h1, List.append_assoc], by rw [g2, h2, runAcc_append], ?_⟩
  intro x hx
  rcases List.mem_append.mp hx with h | h
  · exact h3 x h
  · exact g3 x h

theorem Logs.access {q : Quirks} {P : Access → Prop} (st : State) (a : Access) (h : P a) : Logs q P st (access q st a).1 :=
  ⟨[a], rfl, rfl, by simp [h]⟩

theorem Logs.mono {q : Quirks} {P Q : Access → Prop} {a b : State} (h : ∀ x, P x → Q x) : Logs q P a b → Logs q Q a b := by
  rintro ⟨as, h1, h2, h3⟩
  exact ⟨as, h1, h2, fun x hx => h x (h3 x hx)⟩

/-- selection, MULTI flag and queue of a connection -/
def SameCore (a b : Conn) : Prop := a.db = b.db ∧ a.inMulti = b.inMulti ∧ a.queue = b.queue

/-- every connection other than `c` keeps its selection, MULTI flag and queue -/
def Others (c : Nat) (st st' : State) : Prop := ∀ c', c' ≠ c → SameCore (st'.conns c') (st.conns c')

theorem Others.of_eq {c : Nat} {st st' : State} (h : st'.conns = st.conns) : Others c st st' := by
  intro c' _; rw [h]; exact ⟨rfl, rfl, rfl⟩

theorem Others.refl (c : Nat) (st : State) : Others c st st := Others.of_eq rfl

theorem Others.trans {c : Nat} {a b d : State} (h1 : Others c a b) (h2 : Others c b d) : Others c a d := by
  intro c' hc
  obtain ⟨x1, x2, x3⟩ := h1 c' hc
  obtain ⟨y1, y2, y3⟩ := h2 c' hc
  exact ⟨y1.trans x1, y2.trans x2, y3.trans x3⟩

theorem Others.updConn (c : Nat) (st : State) (f : Conn → Conn) : Others c st (updConn st c f) := by
  intro c' hc; simp [Dbs.updConn, hc]; exact ⟨rfl, rfl, rfl⟩

/-- changing only the `blocked` flag of any connection -/
theorem Others.unblock (c d : Nat) (st : State) (b : Bool) : Others c st (Dbs.updConn st d fun x => { x with blocked := b }) := by
  intro c' _
  simp only [Dbs.updConn]
  by_cases h : c' = d <;> simp [h, SameCore]

/-- what a step of connection `c` may do, bundled -/
def Tr (q : Quirks) (P : Access → Prop) (c : Nat) (st st' : State) : Prop := Logs q P st st' ∧ Others c st st'

theorem Tr.refl {q : Quirks} {P : Access → Prop} (c : Nat) (st : State) : Tr q P c st st := ⟨Logs.refl st, Others.refl c st⟩

theorem Tr.trans {q : Quirks} {P : Access → Prop} {c : Nat} {a b d : State} (h1 : Tr q P c a b) (h2 : Tr q P c b d) : Tr q P c a d :=
  ⟨h1.1.trans h2.1, h1.2.trans h2.2⟩

theorem Tr.access {q : Quirks} {P : Access → Prop} (c : Nat) (st : State) (a : Access) (h : P a) : Tr q P c st (access q st a).1 :=
  ⟨Logs.access st a h, Others.of_eq rfl⟩

theorem Tr.updConn {q : Quirks} {P : Access → Prop} (c : Nat) (st : State) (f : Conn → Conn) : Tr q P c st (Dbs.updConn st c f) :=
  ⟨Logs.of_eq rfl rfl, Others.updConn c st f⟩

theorem Tr.outbox {q : Quirks} {P : Access → Prop} {c : Nat} {st st' : State} (o : List (Nat × Frame)) (h : Tr q P c st st') :
    Tr q P c st { st' with outbox := o } := h.trans ⟨Logs.of_eq rfl rfl, Others.of_eq rfl⟩

/-! ### The discipline of the machine: which database an access uses -/

/-- Every access uses the prescribed database `sel`, except at the two places the switches describe. -/
def Disc (w : Switches) (a : Access) : Prop :=
  a.db = a.sel ∨
  (w.evalshaDb0 = true ∧ a.path = .script true ∧ a.db = 0) ∨
  (w.scriptDbCmdsDb0 = true ∧ (∃ b, a.path = .script b) ∧ scriptDbCmds.contains (nameOf a.cmd) = true ∧ a.db = 0)

theorem disc_script (w : Switches) (sel c now : Nat) (sha : Bool) (cmd : List Bytes) :
    Disc w { db := scriptCmdDb w (scriptDb w sel sha) cmd, sel := sel, conn := c, path := .script sha, now := now, cmd := cmd, obs := none } := by
  unfold Disc scriptCmdDb scriptDb
  by_cases h1 : (w.scriptDbCmdsDb0 && scriptDbCmds.contains (nameOf cmd)) = true
  · have h1' := h1
    simp only [Bool.and_eq_true] at h1'
    refine Or.inr (Or.inr ⟨h1'.1, ⟨sha, rfl⟩, h1'.2, ?_⟩)
    simp only [h1, if_true]
  · by_cases h2 : (sha && w.evalshaDb0) = true
    · have h2' := h2
      simp only [Bool.and_eq_true] at h2'
      refine Or.inr (Or.inl ⟨h2'.2, by rw [h2'.1], ?_⟩)
      simp only [h1, h2, Bool.false_eq_true, if_false, if_true]
    · refine Or.inl ?_
      simp only [h1, h2, Bool.false_eq_true, if_false]

/-! ### Every function of the machine, for every switch setting -/

section A
variable (w : Switches) (q : Quirks)

theorem doSelect_tr (st : State) (c : Nat) (args : List Bytes) (eff : Bool) :
    Tr q (Disc w) c st (doSelect st c args eff).1 := by
  unfold doSelect
  split
  · exact Tr.refl c st
  · simp only []
    split
    · exact Tr.updConn c st _
    · exact Tr.refl c st

theorem runScript_tr (c sel : Nat) (sha : Bool) (now : Nat) (cmds : List (List Bytes)) :
    ∀ (st : State) (pcs : List Bool) (last : Frame), Tr q (Disc w) c st (runScript w q c sel sha now st cmds pcs last).1 := by
  induction cmds with
  | nil => intro st pcs last; exact Tr.refl c st
  | cons cmd rest ih =>
    intro st pcs last
    simp only [runScript]
    split
    · split
      · exact ih _ _ _
      · exact Tr.refl c st
    · split
      · exact Tr.access c st _ (disc_script w sel c now sha cmd)
      · exact (Tr.access c st _ (disc_script w sel c now sha cmd)).trans (ih _ _ _)

theorem tryPops_tr (c : Nat) (path : Path) (now : Nat) (left : Bool) (keys : List Bytes) :
    ∀ (st : State), Tr q (Disc w) c st (tryPops q c path now left st keys).1 := by
  induction keys with
  | nil => intro st; exact Tr.refl c st
  | cons k rest ih =>
    intro st
    simp only [tryPops]
    split
    · exact Tr.access c st _ (Or.inl rfl)
    · exact (Tr.access c st _ (Or.inl rfl)).trans (ih _)
    · exact Tr.access c st _ (Or.inl rfl)

theorem doBpop_tr (st : State) (c now : Nat) (inExec left : Bool) (args : List Bytes) :
    Tr q (Disc w) c st (doBpop q st c now inExec left args).1 := by
  have h := tryPops_tr w q c (if inExec then Path.exec else Path.direct) now left args.dropLast st
  unfold doBpop
  by_cases h1 : args.length < 2
  · simp only [h1, if_true]; exact Tr.refl c st
  · by_cases h2 : (!timeoutOk (args.getLast?.getD [])) = true
    · simp only [h1, h2, if_true, if_false]; exact Tr.refl c st
    · simp only [h1, h2, if_false]
      cases hr : (tryPops q c (if inExec then Path.exec else Path.direct) now left st args.dropLast).2 with
      | some f => simp only [hr]; exact h
      | none =>
        simp only [hr]
        cases inExec with
        | true => simp only [if_true]; exact h
        | false =>
          simp only [Bool.false_eq_true, if_false] at h ⊢
          refine h.trans ⟨Logs.of_eq rfl rfl, ?_⟩
          intro c' hc; simp [Dbs.updConn, hc]; exact ⟨rfl, rfl, rfl⟩

theorem serveKey_tr (c now db : Nat) (k : Bytes) (f : Nat) : ∀ (st : State), Tr q (Disc w) c st (serveKey q now db k f st) := by
  induction f with
  | zero => intro st; exact Tr.refl c st
  | succ f ih =>
    intro st
    simp only [serveKey]
    split
    · exact Tr.refl c st
    · rename_i x _
      have h : Tr q (Disc w) c st (access q st { db := x.db, sel := x.db, conn := x.conn, path := Path.served, now := now, cmd := popCmd x.left k, obs := none }).1 :=
        Tr.access c st _ (Or.inl rfl)
      split
      · refine h.trans (Tr.trans ?_ (ih _))
        refine ⟨Logs.of_eq rfl rfl, ?_⟩
        exact Others.unblock c x.conn _ false
      · exact h

theorem sweepKeys_tr (c now db : Nat) (ks : List Bytes) : ∀ (st : State), Tr q (Disc w) c st (sweepKeys q now db ks st) := by
  induction ks with
  | nil => intro st; exact Tr.refl c st
  | cons k r ih => intro st; simp only [sweepKeys]; exact (serveKey_tr w q c now db k _ st).trans (ih _)

theorem sweepDb_tr (c now db : Nat) (st : State) : Tr q (Disc w) c st (sweepDb q now db st) := by
  unfold sweepDb; exact sweepKeys_tr w q c now db _ st

theorem servePushed_tr (c now : Nat) (wks : List Wake) : ∀ (st : State), Tr q (Disc w) c st (servePushed q now wks st) := by
  induction wks with
  | nil => intro st; exact Tr.refl c st
  | cons wk r ih =>
    intro st
    simp only [servePushed]
    split
    · exact (serveKey_tr w q c now wk.db _ _ st).trans (ih _)
    · exact ih _

theorem serveSwept_tr (c now : Nat) (wks : List Wake) : ∀ (st : State), Tr q (Disc w) c st (serveSwept q now wks st) := by
  induction wks with
  | nil => intro st; exact Tr.refl c st
  | cons wk r ih =>
    intro st
    simp only [serveSwept]
    split
    · exact ih _
    · exact (sweepDb_tr w q c now wk.db st).trans (ih _)

theorem processWakes_tr (st : State) (c now : Nat) : Tr q (Disc w) c st (processWakes q now st) := by
  unfold processWakes
  exact Tr.trans (b := { st with wakes := [] }) ⟨Logs.of_eq rfl rfl, Others.of_eq rfl⟩
    ((servePushed_tr w q c now st.wakes _).trans (serveSwept_tr w q c now st.wakes _))

theorem doPush_tr (st : State) (c now : Nat) (path : Path) (cmd : List Bytes) :
    Tr q (Disc w) c st (doPush q st c now path cmd).1 := by
  unfold doPush
  have h : Tr q (Disc w) c st (access q st { db := (st.conns c).db, sel := (st.conns c).db, conn := c, path := path, now := now, cmd := cmd, obs := none }).1 :=
    Tr.access c st _ (Or.inl rfl)
  simp only []
  split
  · split
    · split
      · exact h.trans ⟨Logs.of_eq rfl rfl, Others.of_eq rfl⟩
      · exact h.trans (serveKey_tr w q c now _ _ _ _)
    · exact h
  · exact h

theorem afterSweep_tr (st : State) (c now db : Nat) (inExec : Bool) : Tr q (Disc w) c st (afterSweep q st now db inExec) := by
  unfold afterSweep
  split
  · exact Tr.refl c st
  · split
    · exact ⟨Logs.of_eq rfl rfl, Others.of_eq rfl⟩
    · exact sweepDb_tr w q c now db st

theorem dispatch_tr (st : State) (c now : Nat) (inExec : Bool) (r : Req) :
    Tr q (Disc w) c st (dispatch w q st c now inExec r).1 := by
  unfold dispatch
  split
  · exact (runScript_tr w q c _ _ now _ st _ _).trans (afterSweep_tr w q _ c now _ inExec)
  · exact Tr.refl c st
  · simp only []
    split
    · exact doSelect_tr w q st c _ _
    · split
      · exact doBpop_tr w q st c now inExec true _
      · split
        · exact doBpop_tr w q st c now inExec false _
        · split
          · exact doPush_tr w q st c now _ _
          · split
            · refine (Tr.access c st _ ?_).trans (afterSweep_tr w q _ c now _ inExec)
              exact Or.inl rfl
            · refine Tr.access c st _ ?_
              exact Or.inl rfl

theorem execQueue_tr (c now : Nat) (rs : List Req) :
    ∀ (st : State), Tr q (Disc w) c st (execQueue w q c now st rs).1 := by
  induction rs with
  | nil => intro st; exact Tr.refl c st
  | cons r rest ih =>
    intro st
    simp only [execQueue]
    exact (dispatch_tr w q st c now true r).trans (ih _)

theorem exec_tr (st : State) (now c : Nat) (r : Req) : Tr q (Disc w) c st (exec w q st now c r).1 := by
  unfold exec
  split
  · exact Tr.refl c st
  · split
    · split
      · exact Tr.refl c st
      · exact Tr.updConn c st _
    · split
      · split
        · exact Tr.updConn c st _
        · exact Tr.refl c st
      · split
        · split
          · exact Tr.refl c st
          · refine Tr.outbox _ ?_
            exact (Tr.updConn c st _).trans ((execQueue_tr w q c now _ _).trans (processWakes_tr w q _ c now))
        · split
          · exact Tr.updConn c st _
          · refine Tr.outbox _ ?_
            exact (dispatch_tr w q st c now false r).trans (processWakes_tr w q _ c now)

theorem timeoutConn_tr (st : State) (c : Nat) : Tr q (Disc w) c st (timeoutConn st c).1 := by
  unfold timeoutConn
  split
  · exact Tr.trans (b := dropWaiters st c) ⟨Logs.of_eq rfl rfl, Others.of_eq rfl⟩ (Tr.updConn c _ _)
  · exact Tr.refl c st

theorem closeConn_tr (st : State) (c : Nat) : Tr q (Disc w) c st (closeConn st c) := by
  unfold closeConn
  split
  · exact Tr.refl c st
  · exact Tr.trans (b := dropWaiters st c) ⟨Logs.of_eq rfl rfl, Others.of_eq rfl⟩ (Tr.updConn c _ _)

/-- every event of a history: a request, a time-out, a hang-up -/
theorem stepEv_tr (st : State) (e : Dbs.Ev) : Tr q (Disc w) e.conn st (stepEv w q st e) := by
  cases e with
  | req now c r => exact exec_tr w q st now c r
  | timeout c => exact timeoutConn_tr w q st c
  | close c => exact closeConn_tr w q st c

theorem run_logs (evs : List Dbs.Ev) : ∀ (st : State), Logs q (Disc w) st (run w q st evs) := by
  induction evs with
  | nil => intro st; exact Logs.refl st
  | cons e rest ih =>
    intro st
    simp only [run, List.foldl_cons]
    exact (stepEv_tr w q st e).1.trans (ih _)

end A

/-! ### A request that selects nothing keeps every access on the connection's database -/

/-- the access is prescribed database `i`, is not a FLUSHALL, and (when `ns`) did not come from a script -/
def PB (i : Nat) (ns : Bool) (a : Access) : Prop :=
  a.sel = i ∧ isFlushAll a.cmd = false ∧ (ns = true → ∀ b, a.path ≠ .script b)

/-- a request that neither selects nor flushes everything; with `ns` also: not a script -/
def Clean (ns : Bool) : Req → Prop
  | .plain a _ => nameOf a ≠ "SELECT" ∧ nameOf a ≠ "FLUSHALL"
  | .script _ cmds _ => ns = false ∧ ∀ x ∈ cmds, nameOf x ≠ "FLUSHALL"

/-- connection `c` has database `i` selected and every pending wake-up is for database `i` -/
def Stay (i c : Nat) (st : State) : Prop := (st.conns c).db = i ∧ ∀ wk ∈ st.wakes, wk.db = i

def TrB (q : Quirks) (i : Nat) (ns : Bool) (c : Nat) (st st' : State) : Prop := Logs q (PB i ns) st st' ∧ Stay i c st'

theorem TrB.refl {q : Quirks} {i : Nat} {ns : Bool} {c : Nat} {st : State} (h : Stay i c st) : TrB q i ns c st st := ⟨Logs.refl st, h⟩

theorem TrB.trans {q : Quirks} {i : Nat} {ns : Bool} {c : Nat} {a b d : State} (h1 : TrB q i ns c a b) (h2 : Stay i c b → TrB q i ns c b d) :
    TrB q i ns c a d := ⟨h1.1.trans (h2 h1.2).1, (h2 h1.2).2⟩

theorem TrB.access {q : Quirks} {i : Nat} {ns : Bool} {c : Nat} {st : State} (a : Access) (h : Stay i c st) (ha : PB i ns a) :
    TrB q i ns c st (access q st a).1 := ⟨Logs.access st a ha, h⟩

theorem TrB.outbox {q : Quirks} {i : Nat} {ns : Bool} {c : Nat} {st st' : State} (o : List (Nat × Frame)) (h : TrB q i ns c st st') :
    TrB q i ns c st { st' with outbox := o } := ⟨h.1.trans (Logs.of_eq rfl rfl), h.2⟩

theorem isFlushAll_false_of_ne {cmd : List Bytes} (h : nameOf cmd ≠ "FLUSHALL") : isFlushAll cmd = false := by
  simp [isFlushAll, h]

theorem popCmd_not_flushall (l : Bool) (k : Bytes) : isFlushAll (popCmd l k) = false := by
  apply isFlushAll_false_of_ne
  cases l <;> simp only [popCmd, nameOf, Bool.false_eq_true, if_false, if_true] <;> decide

theorem pushName_not_flushall {cmd : List Bytes} (h : nameOf cmd = "LPUSH" ∨ nameOf cmd = "RPUSH") : isFlushAll cmd = false := by
  apply isFlushAll_false_of_ne
  rcases h with h | h <;> rw [h] <;> decide

theorem firstWaiter_db {ws : List Waiter} {db : Nat} {k : Bytes} {x : Waiter} (h : firstWaiter ws db k = some x) : x.db = db := by
  unfold firstWaiter at h
  have := List.find?_some h
  simp only [Bool.and_eq_true, beq_iff_eq] at this
  exact this.1

section B
variable (w : Switches) (q : Quirks) (i : Nat) (ns : Bool) (c : Nat)

theorem runScript_B (sha : Bool) (now : Nat) (hns : ns = false) (cmds : List (List Bytes)) (hc : ∀ x ∈ cmds, nameOf x ≠ "FLUSHALL") :
    ∀ (st : State) (pcs : List Bool) (last : Frame), Stay i c st → TrB q i ns c st (runScript w q c i sha now st cmds pcs last).1 := by
  induction cmds with
  | nil => intro st pcs last h; exact TrB.refl h
  | cons cmd rest ih =>
    intro st pcs last h
    have hp : PB i ns { db := scriptCmdDb w (scriptDb w i sha) cmd, sel := i, conn := c, path := Path.script sha, now := now, cmd := cmd, obs := none } :=
      ⟨rfl, isFlushAll_false_of_ne (hc cmd (by simp)), by intro h'; rw [hns] at h'; exact absurd h' (by decide)⟩
    have hc' : ∀ x ∈ rest, nameOf x ≠ "FLUSHALL" := fun x hx => hc x (by simp [hx])
    simp only [runScript]
    split
    · split
      · exact ih hc' _ _ _ h
      · exact TrB.refl h
    · split
      · exact TrB.access _ h hp
      · exact (TrB.access _ h hp).trans (fun h' => ih hc' _ _ _ h')

theorem tryPops_B (path : Path) (hpath : ∀ b, path ≠ .script b) (now : Nat) (left : Bool) (keys : List Bytes) :
    ∀ (st : State), Stay i c st → TrB q i ns c st (tryPops q c path now left st keys).1 := by
  induction keys with
  | nil => intro st h; exact TrB.refl h
  | cons k rest ih =>
    intro st h
    have hp : PB i ns { db := (st.conns c).db, sel := (st.conns c).db, conn := c, path := path, now := now, cmd := popCmd left k, obs := none } :=
      ⟨h.1, popCmd_not_flushall left k, fun _ => hpath⟩
    simp only [tryPops]
    split
    · exact TrB.access _ h hp
    · exact (TrB.access _ h hp).trans (fun h' => ih _ h')
    · exact TrB.access _ h hp

theorem doBpop_B (st : State) (now : Nat) (inExec left : Bool) (args : List Bytes) (h : Stay i c st) :
    TrB q i ns c st (doBpop q st c now inExec left args).1 := by
  have hpath : ∀ b, (if inExec then Path.exec else Path.direct) ≠ Path.script b := by
    intro b; cases inExec <;> simp
  have ht := tryPops_B q i ns c (if inExec then Path.exec else Path.direct) hpath now left args.dropLast st h
  unfold doBpop
  by_cases h1 : args.length < 2
  · simp only [h1, if_true]; exact TrB.refl h
  · by_cases h2 : (!timeoutOk (args.getLast?.getD [])) = true
    · simp only [h1, h2, if_true, if_false]; exact TrB.refl h
    · simp only [h1, h2, if_false]
      cases hr : (tryPops q c (if inExec then Path.exec else Path.direct) now left st args.dropLast).2 with
      | some f => simp only [hr]; exact ht
      | none =>
        simp only [hr]
        cases inExec with
        | true => simp only [if_true]; exact ht
        | false =>
          simp only [Bool.false_eq_true, if_false] at ht ⊢
          refine ⟨ht.1.trans (Logs.of_eq rfl rfl), ?_, ?_⟩
          · simp [Dbs.updConn]; exact ht.2.1
          · exact ht.2.2

theorem stay_updConn {st : State} (d : Nat) (f : Conn → Conn) (hf : ∀ x, (f x).db = x.db) (h : Stay i c st) : Stay i c (Dbs.updConn st d f) := by
  refine ⟨?_, h.2⟩
  simp only [Dbs.updConn]
  by_cases hcd : c = d
  · simp [hcd, hf]; rw [← hcd]; exact h.1
  · simp [hcd]; exact h.1

theorem serveKey_B (now : Nat) (k : Bytes) (f : Nat) : ∀ (st : State), Stay i c st → TrB q i ns c st (serveKey q now i k f st) := by
  induction f with
  | zero => intro st h; exact TrB.refl h
  | succ f ih =>
    intro st h
    simp only [serveKey]
    split
    · exact TrB.refl h
    · rename_i x hx
      have hp : PB i ns { db := x.db, sel := x.db, conn := x.conn, path := Path.served, now := now, cmd := popCmd x.left k, obs := none } :=
        ⟨firstWaiter_db hx, popCmd_not_flushall _ _, fun _ b => by simp⟩
      have ha := TrB.access (q := q) (c := c) _ h hp
      split
      · refine ha.trans (fun h' => ?_)
        have hs := stay_updConn i c x.conn (fun y => { y with blocked := false }) (fun _ => rfl) h'
        refine TrB.trans (b := { Dbs.updConn _ x.conn _ with waiting := _, outbox := _ }) ⟨Logs.of_eq rfl rfl, hs⟩ (fun h'' => ih _ h'')
      · exact ha

theorem sweepKeys_B (now : Nat) (ks : List Bytes) : ∀ (st : State), Stay i c st → TrB q i ns c st (sweepKeys q now i ks st) := by
  induction ks with
  | nil => intro st h; exact TrB.refl h
  | cons k r ih => intro st h; simp only [sweepKeys]; exact (serveKey_B q i ns c now k _ st h).trans (fun h' => ih _ h')

theorem sweepDb_B (now : Nat) (st : State) (h : Stay i c st) : TrB q i ns c st (sweepDb q now i st) := by
  unfold sweepDb; exact sweepKeys_B q i ns c now _ st h

theorem servePushed_B (now : Nat) (wks : List Wake) :
    ∀ (st : State), (∀ wk ∈ wks, wk.db = i) → Stay i c st → TrB q i ns c st (servePushed q now wks st) := by
  induction wks with
  | nil => intro st _ h; exact TrB.refl h
  | cons wk r ih =>
    intro st hw h
    have hw' : ∀ x ∈ r, x.db = i := fun x hx => hw x (by simp [hx])
    have e : wk.db = i := hw wk (by simp)
    simp only [servePushed]
    split
    · rw [e]; exact (serveKey_B q i ns c now _ _ st h).trans (fun h' => ih _ hw' h')
    · exact ih _ hw' h

theorem serveSwept_B (now : Nat) (wks : List Wake) :
    ∀ (st : State), (∀ wk ∈ wks, wk.db = i) → Stay i c st → TrB q i ns c st (serveSwept q now wks st) := by
  induction wks with
  | nil => intro st _ h; exact TrB.refl h
  | cons wk r ih =>
    intro st hw h
    have hw' : ∀ x ∈ r, x.db = i := fun x hx => hw x (by simp [hx])
    have e : wk.db = i := hw wk (by simp)
    simp only [serveSwept]
    split
    · exact ih _ hw' h
    · rw [e]; exact (sweepDb_B q i ns c now st h).trans (fun h' => ih _ hw' h')

theorem processWakes_B (st : State) (now : Nat) (h : Stay i c st) : TrB q i ns c st (processWakes q now st) := by
  unfold processWakes
  refine TrB.trans (b := { st with wakes := [] }) ⟨Logs.of_eq rfl rfl, h.1, by simp⟩ (fun h' => ?_)
  exact (servePushed_B q i ns c now st.wakes _ h.2 h').trans (fun h'' => serveSwept_B q i ns c now st.wakes _ h.2 h'')

theorem doPush_B (st : State) (now : Nat) (path : Path) (hpath : ∀ b, path ≠ .script b) (cmd : List Bytes)
    (hn : nameOf cmd = "LPUSH" ∨ nameOf cmd = "RPUSH") (h : Stay i c st) :
    TrB q i ns c st (doPush q st c now path cmd).1 := by
  have hp : PB i ns { db := (st.conns c).db, sel := (st.conns c).db, conn := c, path := path, now := now, cmd := cmd, obs := none } :=
    ⟨h.1, pushName_not_flushall hn, fun _ => hpath⟩
  have ha := TrB.access (q := q) (c := c) _ h hp
  unfold doPush
  simp only []
  split
  · split
    · split
      · refine ha.trans (fun h' => ⟨Logs.of_eq rfl rfl, h'.1, ?_⟩)
        intro wk hwk
        simp only [List.mem_append, List.mem_singleton] at hwk
        rcases hwk with hwk | hwk
        · exact h'.2 wk hwk
        · rw [hwk]; exact h.1
      · refine ha.trans (fun h' => ?_)
        rw [h.1]
        exact serveKey_B q i ns c now _ _ _ h'
    · exact ha
  · exact ha

theorem afterSweep_B (st : State) (now : Nat) (inExec : Bool) (h : Stay i c st) : TrB q i ns c st (afterSweep q st now i inExec) := by
  unfold afterSweep
  split
  · exact TrB.refl h
  · split
    · refine ⟨Logs.of_eq rfl rfl, h.1, ?_⟩
      intro wk hwk
      simp only [List.mem_append, List.mem_singleton] at hwk
      rcases hwk with hwk | hwk
      · exact h.2 wk hwk
      · rw [hwk]
    · exact sweepDb_B q i ns c now st h

theorem dispatch_B (st : State) (now : Nat) (inExec : Bool) (r : Req) (hr : Clean ns r) (h : Stay i c st) :
    TrB q i ns c st (dispatch w q st c now inExec r).1 := by
  have hpath : ∀ b, (if inExec then Path.exec else Path.direct) ≠ Path.script b := by
    intro b; cases inExec <;> simp
  unfold dispatch
  split
  · rename_i sha cmds pcs
    simp only [Clean] at hr
    rw [h.1]
    exact (runScript_B w q i ns c sha now hr.1 cmds hr.2 st _ _ h).trans (fun h' => afterSweep_B q i ns c _ now inExec h')
  · exact TrB.refl h
  · rename_i n args obs
    simp only [Clean] at hr
    simp only []
    split
    · rename_i hs; exact absurd hs hr.1
    · split
      · exact doBpop_B q i ns c st now inExec true _ h
      · split
        · exact doBpop_B q i ns c st now inExec false _ h
        · split
          · rename_i hp; exact doPush_B q i ns c st now _ hpath _ hp h
          · have hp : PB i ns { db := (st.conns c).db, sel := (st.conns c).db, conn := c, path := (if inExec then Path.exec else Path.direct), now := now, cmd := n :: args, obs := obs } :=
              ⟨h.1, isFlushAll_false_of_ne hr.2, fun _ => hpath⟩
            have ha := TrB.access (q := q) (c := c) _ h hp
            split
            · refine ha.trans (fun h' => ?_)
              rw [h.1]
              exact afterSweep_B q i ns c _ now inExec h'
            · exact ha

theorem execQueue_B (now : Nat) (rs : List Req) (hrs : ∀ r ∈ rs, Clean ns r) :
    ∀ (st : State), Stay i c st → TrB q i ns c st (execQueue w q c now st rs).1 := by
  induction rs with
  | nil => intro st h; exact TrB.refl h
  | cons r rest ih =>
    intro st h
    simp only [execQueue]
    exact (dispatch_B w q i ns c st now true r (hrs r (by simp)) h).trans (fun h' => ih (fun x hx => hrs x (by simp [hx])) _ h')

theorem exec_B (st : State) (now : Nat) (r : Req) (hr : Clean ns r)
    (hq : reqName r = "EXEC" → ∀ x ∈ (st.conns c).queue, Clean ns x) (h : Stay i c st) :
    TrB q i ns c st (exec w q st now c r).1 := by
  have upd : ∀ (f : Conn → Conn), (∀ x, (f x).db = x.db) → TrB q i ns c st (Dbs.updConn st c f) :=
    fun f hf => ⟨Logs.of_eq rfl rfl, stay_updConn i c c f hf h⟩
  unfold exec
  split
  · exact TrB.refl h
  · split
    · split
      · exact TrB.refl h
      · exact upd _ (fun _ => rfl)
    · split
      · split
        · exact upd _ (fun _ => rfl)
        · exact TrB.refl h
      · split
        · rename_i he
          split
          · exact TrB.refl h
          · simp only []
            refine TrB.trans (upd (fun x => { x with inMulti := false, queue := [] }) (fun _ => rfl)) (fun h' => ?_)
            exact (execQueue_B w q i ns c now _ (hq he) _ h').trans (fun h'' => TrB.outbox _ (processWakes_B q i ns c _ now h''))
        · split
          · exact upd _ (fun _ => rfl)
          · simp only []
            exact (dispatch_B w q i ns c st now false r hr h).trans (fun h' => TrB.outbox _ (processWakes_B q i ns c _ now h'))

end B

/-- the two descriptions of one step speak about the same accesses -/
theorem Logs.both {q : Quirks} {P Q : Access → Prop} {a b : State} (h1 : Logs q P a b) (h2 : Logs q Q a b) :
    Logs q (fun x => P x ∧ Q x) a b := by
  obtain ⟨as, e1, s1, p1⟩ := h1
  obtain ⟨bs, e2, _, p2⟩ := h2
  have : as = bs := List.append_cancel_left (e1.symm.trans e2)
  subst this
  exact ⟨as, e1, s1, fun x hx => ⟨p1 x hx, p2 x hx⟩⟩

/-- accesses none of which concerns database `j` -/
theorem Logs.frame {q : Quirks} {j : Nat} {a b : State} (h : Logs q (fun x => concerns j x = false) a b) :
    getDb b.store j = getDb a.store j := by
  obtain ⟨as, _, s1, p1⟩ := h
  rw [s1]
  exact runAcc_frame q a.store j as p1

end Ferrous.Dbs
