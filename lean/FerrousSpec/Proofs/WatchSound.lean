/-
  C08 helper lemmas, part 5: the two directions of the WATCH property on histories.
-/
import FerrousSpec.Proofs.WatchInv
namespace Ferrous.Watch

/-! ### EXEC replies -/

theorem exec_reply (q : Q) (s : State) (now c : Nat) (ops : List Op) :
    (step q s now (.exec c ops)).2 =
      if (s.conn c).inTx = false then .err
      else if execAborts q s (s.conn c) now = true then .nil else .array (s.conn c).queued := by
  simp only [step]
  cases (s.conn c).inTx
  · rfl
  · simp only [Bool.not_true, Bool.false_eq_true, if_false]
    split <;> rfl

theorem exec_nil_iff (q : Q) (s : State) (now c : Nat) (ops : List Op) :
    (step q s now (.exec c ops)).2 = .nil ↔ ((s.conn c).inTx = true ∧ execAborts q s (s.conn c) now = true) := by
  rw [exec_reply]
  cases (s.conn c).inTx <;> cases execAborts q s (s.conn c) now <;> simp

/-! ### no false abort -/

theorem not_modified_of_clean (s : State) (d : Nat) (k : Key) (base now : Nat)
    (hc : s.counter d k ≤ base) (he : ∀ e, s.entry d k = some e → e.deadline = none) :
    wasModifiedSince s d k base now = false := by
  unfold wasModifiedSince
  have h1 : decide (base < s.counter d k) = false := by simp; omega
  rw [h1, Bool.false_or]
  cases h : s.entry d k with
  | none => rfl
  | some e => simp [Entry.expired, he e h]

/-- After any history in which connection `c` stays quiet and nothing addresses its watched keys (which
    carry no deadline), none of them counts as modified. -/
theorem no_abort_of_untouched (q : Q) (s : State) (evs : List (Nat × Ev)) (c now : Nat)
    (hquiet : ∀ e ∈ evs, quiet q c e.2 = true)
    (hclean : ∀ w ∈ (s.conn c).watched,
      s.counter (effDb q (s.conn c) w) w.key ≤ w.base ∧
      (∀ e, s.entry (effDb q (s.conn c) w) w.key = some e → e.deadline = none) ∧
      untouched q (effDb q (s.conn c) w) w.key s evs = true) :
    execAborts q (run q s evs) ((run q s evs).conn c) now = false := by
  have hq := quiet_run q s evs c hquiet
  unfold execAborts
  rw [List.any_eq_false]
  intro w hw
  rw [hq.1] at hw
  have hd := effDb_quiet q (s.conn c) ((run q s evs).conn c) w hq.2
  rw [hd]
  obtain ⟨h1, h2, h3⟩ := hclean w hw
  have hu := run_untouched q s evs _ _ h3
  have := not_modified_of_clean (run q s evs) (effDb q (s.conn c) w) w.key w.base now
    (by rw [hu.1]; exact h1) (by rw [hu.2]; exact h2)
  simp [this]

/-! ### soundness -/

/-- The core of soundness: if in a `Safe` history the counter of a watched key is pushed beyond the shard's
    global counter of that moment, the watcher's later EXEC (it stayed quiet, it is inside MULTI) returns nil. -/
theorem sound_core (q : Q) (s : State) (pre post : List (Nat × Ev)) (now : Nat) (ev : Ev) (c : Nat) (w : W)
    (nowE : Nat) (ops : List Op)
    (hi : Inv q s) (hsafe : Safe q s pre = true)
    (hquiet : ∀ e ∈ pre ++ (now, ev) :: post, quiet q c e.2 = true)
    (hw : w ∈ (s.conn c).watched)
    (hbump : ((run q s pre).tracker w.regDb (shardOf w.key)).global <
      (step q (run q s pre) now ev).1.counter w.regDb w.key)
    (hin : ((run q s (pre ++ (now, ev) :: post)).conn c).inTx = true) :
    (step q (run q s (pre ++ (now, ev) :: post)) nowE (.exec c ops)).2 = .nil := by
  rw [exec_nil_iff]
  refine ⟨hin, ?_⟩
  have hi1 : Inv q (run q s pre) := inv_run q s pre hi hsafe
  have hq1 := quiet_run q s pre c (fun e m => hquiet e (List.mem_append_left _ m))
  have hw1 : w ∈ ((run q s pre).conn c).watched := by rw [hq1.1]; exact hw
  have hbase := hi1.base c w hw1
  -- the counter stays beyond the baseline until EXEC
  have hrun : run q s (pre ++ (now, ev) :: post) = run q (step q (run q s pre) now ev).1 post := by
    rw [run_append]; rfl
  have htok2 : TOk (step q (run q s pre) now ev).1 := (grows_step q _ now ev).tok hi1.tok
  have hmono := (grows_run q (step q (run q s pre) now ev).1 post).counter htok2 w.regDb w.key
  have hgt : w.base < (run q s (pre ++ (now, ev) :: post)).counter w.regDb w.key := by
    rw [hrun]; omega
  -- the watcher still holds the entry and looks at the database it was registered in
  have hqa := quiet_run q s (pre ++ (now, ev) :: post) c hquiet
  have hwa : w ∈ ((run q s (pre ++ (now, ev) :: post)).conn c).watched := by rw [hqa.1]; exact hw
  have hd : effDb q ((run q s (pre ++ (now, ev) :: post)).conn c) w = w.regDb := by
    rw [effDb_quiet q (s.conn c) _ w hqa.2]
    unfold effDb
    cases hp : q.perDb
    · simp only [Bool.false_eq_true, if_false]; exact (hi.here hp c w hw).symm
    · rfl
  unfold execAborts
  rw [List.any_eq_true]
  refine ⟨w, hwa, ?_⟩
  rw [hd]
  unfold wasModifiedSince
  simp [hgt]

/-- soundness for a change made by an operation that marks (whatever the rest of the table says) -/
theorem sound_of_marking_op (q : Q) (s : State) (pre post : List (Nat × Ev)) (now : Nat) (ev : Ev) (c : Nat) (w : W)
    (ko : KeyOp) (nowE : Nat) (ops : List Op)
    (hi : Inv q s) (hsafe : Safe q s pre = true)
    (hquiet : ∀ e ∈ pre ++ (now, ev) :: post, quiet q c e.2 = true)
    (hw : w ∈ (s.conn c).watched)
    (hop : (w.regDb, Op.key ko) ∈ executed q (run q s pre) now ev) (hkey : ko.key = w.key)
    (hreach : ko.eff.reaches = true) (hmarks : ko.marks = true)
    (hin : ((run q s (pre ++ (now, ev) :: post)).conn c).inTx = true) :
    (step q (run q s (pre ++ (now, ev) :: post)) nowE (.exec c ops)).2 = .nil := by
  have hi1 : Inv q (run q s pre) := inv_run q s pre hi hsafe
  have hq1 := quiet_run q s pre c (fun e m => hquiet e (List.mem_append_left _ m))
  have hw1 : w ∈ ((run q s pre).conn c).watched := by rw [hq1.1]; exact hw
  have ha := active_pos_of_watched q _ hi1 c w hw1
  have := step_marks q (run q s pre) now ev w.regDb ko hi1.tok hop hreach hmarks (by rw [hkey]; exact ha)
  rw [hkey] at this
  exact sound_core q s pre post now ev c w nowE ops hi hsafe hquiet hw this hin

/-- soundness for any change of the entry made by a step whose operations all mark what they change -/
theorem sound_of_change (q : Q) (s : State) (pre post : List (Nat × Ev)) (now : Nat) (ev : Ev) (c : Nat) (w : W)
    (nowE : Nat) (ops : List Op)
    (hi : Inv q s) (hsafe : Safe q s pre = true) (hsafeEv : stepSafe q (run q s pre) now ev = true)
    (hquiet : ∀ e ∈ pre ++ (now, ev) :: post, quiet q c e.2 = true)
    (hw : w ∈ (s.conn c).watched)
    (hok : evMarksOk q (run q s pre) now ev = true)
    (hch : (step q (run q s pre) now ev).1.entry w.regDb w.key ≠ (run q s pre).entry w.regDb w.key)
    (hin : ((run q s (pre ++ (now, ev) :: post)).conn c).inTx = true) :
    (step q (run q s (pre ++ (now, ev) :: post)) nowE (.exec c ops)).2 = .nil := by
  have hi1 : Inv q (run q s pre) := inv_run q s pre hi hsafe
  have hq1 := quiet_run q s pre c (fun e m => hquiet e (List.mem_append_left _ m))
  have hw1 : w ∈ ((run q s pre).conn c).watched := by rw [hq1.1]; exact hw
  have ha := active_pos_of_watched q _ hi1 c w hw1
  have := step_changed_marks q (run q s pre) now ev w.regDb w.key hi1.tok hok hch ha
    (fun c' keys e => by subst e; exact hsafeEv)
  exact sound_core q s pre post now ev c w nowE ops hi hsafe hquiet hw this hin

/-! ### forgetting, per connection -/

/-- the connection that issues the event (the sweeper has none) -/
def issuer : Ev → Option Nat
  | .watch c _ => some c | .unwatch c => some c | .multi c => some c | .exec c _ => some c
  | .discard c => some c | .select c _ => some c | .cmd c _ => some c | .sweep _ _ _ => none | .refused c => some c

theorem conn_step_other (q : Q) (s : State) (now : Nat) (ev : Ev) (c' : Nat) (h : issuer ev ≠ some c') :
    (step q s now ev).1.conn c' = s.conn c' := by
  cases ev with
  | watch c keys =>
    have hc : c ≠ c' := fun e => h (by rw [e]; rfl)
    rw [step_watch]
    split
    · rfl
    · exact conn_watchAll_other q c now s keys c' hc
  | unwatch c =>
    have hc : c ≠ c' := fun e => h (by rw [e]; rfl)
    rw [step_unwatch]
    split
    · rw [conn_setConn]; simp [hc]
    · rw [conn_setConn]
      simp only [hc, if_false]
      exact conn_conns_eq (conns_unregAll _ _ _ _) c'
  | refused c => rfl
  | multi c =>
    have hc : c ≠ c' := fun e => h (by rw [e]; rfl)
    rw [step_multi]
    split
    · rfl
    · rw [conn_setConn]; simp [hc]
  | exec c ops =>
    have hc : c ≠ c' := fun e => h (by rw [e]; rfl)
    rw [step_exec]
    split
    · rfl
    · split
      · rw [conn_setConn]; simp [hc]
      · rw [conn_applyOps, conn_setConn]; simp [hc]
  | discard c =>
    have hc : c ≠ c' := fun e => h (by rw [e]; rfl)
    rw [step_discard]
    split
    · rfl
    · rw [conn_setConn]; simp [hc]
  | select c d =>
    have hc : c ≠ c' := fun e => h (by rw [e]; rfl)
    rw [step_select]
    split
    · rw [conn_setConn]; simp [hc]
    · split
      · rfl
      · rw [conn_setConn]; simp [hc]
  | cmd c ops =>
    have hc : c ≠ c' := fun e => h (by rw [e]; rfl)
    rw [step_cmd]
    split
    · rw [conn_setConn]; simp [hc]
    · rw [conn_applyOps]
  | sweep d k m =>
    rw [step_sweep]
    exact conn_conns_eq (conns_sweepKey _ _ _ _ _) c'

/-- `c` issues no WATCH in this event -/
def noWatchBy (c : Nat) : Ev → Bool
  | .watch c' _ => decide (c' ≠ c)
  | _ => true

theorem empty_watch_step (q : Q) (s : State) (now : Nat) (ev : Ev) (c : Nat) (h : noWatchBy c ev = true)
    (he : (s.conn c).watched = []) : ((step q s now ev).1.conn c).watched = [] := by
  by_cases hi : issuer ev = some c
  · cases ev with
    | watch c' keys =>
      have e1 : c' = c := by simpa [issuer] using hi
      have e2 : c' ≠ c := by simpa [noWatchBy] using h
      exact absurd e1 e2
    | unwatch c' =>
      rw [step_unwatch]
      split
      · rw [conn_setConn]
        split
        · rename_i e; subst e; exact he
        · exact he
      · rw [conn_setConn]
        split
        · rfl
        · rw [conn_conns_eq (conns_unregAll _ _ _ _)]; exact he
    | refused c' => exact he
    | multi c' =>
      rw [step_multi]
      split
      · exact he
      · rw [conn_setConn]
        split
        · rename_i e; subst e; exact he
        · exact he
    | exec c' ops =>
      rw [step_exec]
      split
      · exact he
      · split
        · rw [conn_setConn]
          split
          · rfl
          · exact he
        · rw [conn_applyOps, conn_setConn]
          split
          · rfl
          · exact he
    | discard c' =>
      rw [step_discard]
      split
      · exact he
      · rw [conn_setConn]
        split
        · rfl
        · exact he
    | select c' d =>
      rw [step_select]
      split
      · rw [conn_setConn]
        split
        · rename_i e; subst e; exact he
        · exact he
      · split
        · exact he
        · rw [conn_setConn]
          split
          · rename_i e; subst e; exact he
          · exact he
    | cmd c' ops =>
      rw [step_cmd]
      split
      · rw [conn_setConn]
        split
        · rename_i e; subst e; exact he
        · exact he
      · rw [conn_applyOps]; exact he
    | sweep d k m => simp [issuer] at hi
  · rw [conn_step_other q s now ev c hi]; exact he

theorem empty_watch_run (q : Q) (s : State) (evs : List (Nat × Ev)) (c : Nat)
    (h : ∀ e ∈ evs, noWatchBy c e.2 = true) (he : (s.conn c).watched = []) :
    ((run q s evs).conn c).watched = [] := by
  induction evs generalizing s with
  | nil => exact he
  | cons e r ih =>
    obtain ⟨now, ev⟩ := e
    simp only [run]
    exact ih _ (fun e m => h e (List.mem_cons_of_mem _ m))
      (empty_watch_step q s now ev c (h (now, ev) List.mem_cons_self) he)

end Ferrous.Watch
