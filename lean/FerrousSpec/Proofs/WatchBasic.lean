/-
  C08 helper lemmas, part 1: association lists, the tracker, how each primitive of the WATCH machine
  changes the three observations of a state (`tracker d sh`, `entry d k`, `conn c`).
-/
import FerrousSpec.Model.Watch
namespace Ferrous.Watch

/-! ### association lists -/

theorem aget_aset {α β : Type} [DecidableEq α] (m : List (α × β)) (a b : α) (v dflt : β) :
    aget (aset m a v) b dflt = if a = b then v else aget m b dflt := by
  induction m with
  | nil => simp [aset, aget]
  | cons p r ih =>
    obtain ⟨a', v'⟩ := p
    unfold aset
    by_cases h : a' = a
    · subst h
      simp only [if_true, aget]
      by_cases h2 : a' = b <;> simp [h2]
    · simp only [h, if_false]
      unfold aget
      by_cases h2 : a' = b
      · subst h2
        have : ¬ a = a' := fun e => h e.symm
        simp [this]
      · simp only [h2, if_false]
        exact ih

theorem aget_aset_same {α β : Type} [DecidableEq α] (m : List (α × β)) (a : α) (v dflt : β) :
    aget (aset m a v) a dflt = v := by
  rw [aget_aset]; simp

theorem aget_aset_ne {α β : Type} [DecidableEq α] (m : List (α × β)) (a b : α) (v dflt : β) (h : a ≠ b) :
    aget (aset m a v) b dflt = aget m b dflt := by
  rw [aget_aset]; simp [h]

/-- a value different from the default is really stored -/
theorem aget_mem {α β : Type} [DecidableEq α] (m : List (α × β)) (a : α) (dflt : β)
    (h : aget m a dflt ≠ dflt) : (a, aget m a dflt) ∈ m := by
  induction m with
  | nil => simp [aget] at h
  | cons p r ih =>
    obtain ⟨a', v'⟩ := p
    unfold aget at h ⊢
    by_cases e : a' = a
    · subst e; simp
    · simp only [e, if_false] at h ⊢
      exact List.mem_cons_of_mem _ (ih h)

/-! ### observations after the three setters -/

@[simp] theorem tracker_setTracker (s : State) (d sh d' sh' : Nat) (t : Tracker) :
    (s.setTracker d sh t).tracker d' sh' = if (d, sh) = (d', sh') then t else s.tracker d' sh' := by
  simp [State.setTracker, State.tracker, aget_aset]

@[simp] theorem entry_setTracker (s : State) (d sh : Nat) (t : Tracker) (d' : Nat) (k : Key) :
    (s.setTracker d sh t).entry d' k = s.entry d' k := rfl

@[simp] theorem conns_setTracker (s : State) (d sh : Nat) (t : Tracker) :
    (s.setTracker d sh t).conns = s.conns := rfl

@[simp] theorem conn_setTracker (s : State) (d sh : Nat) (t : Tracker) (c : Nat) :
    (s.setTracker d sh t).conn c = s.conn c := rfl

@[simp] theorem data_setTracker (s : State) (d sh : Nat) (t : Tracker) :
    (s.setTracker d sh t).data = s.data := rfl

@[simp] theorem tracker_setEntry (s : State) (d : Nat) (k : Key) (e : Option Entry) (d' sh' : Nat) :
    (s.setEntry d k e).tracker d' sh' = s.tracker d' sh' := rfl

@[simp] theorem entry_setEntry (s : State) (d : Nat) (k : Key) (e : Option Entry) (d' : Nat) (k' : Key) :
    (s.setEntry d k e).entry d' k' = if (d, k) = (d', k') then e else s.entry d' k' := by
  simp [State.setEntry, State.entry, aget_aset]

@[simp] theorem conns_setEntry (s : State) (d : Nat) (k : Key) (e : Option Entry) :
    (s.setEntry d k e).conns = s.conns := rfl

@[simp] theorem conn_setEntry (s : State) (d : Nat) (k : Key) (e : Option Entry) (c : Nat) :
    (s.setEntry d k e).conn c = s.conn c := rfl

@[simp] theorem trk_setEntry (s : State) (d : Nat) (k : Key) (e : Option Entry) :
    (s.setEntry d k e).trk = s.trk := rfl

@[simp] theorem tracker_setConn (s : State) (c : Nat) (cn : Conn) (d sh : Nat) :
    (s.setConn c cn).tracker d sh = s.tracker d sh := rfl

@[simp] theorem entry_setConn (s : State) (c : Nat) (cn : Conn) (d : Nat) (k : Key) :
    (s.setConn c cn).entry d k = s.entry d k := rfl

@[simp] theorem data_setConn (s : State) (c : Nat) (cn : Conn) : (s.setConn c cn).data = s.data := rfl

@[simp] theorem trk_setConn (s : State) (c : Nat) (cn : Conn) : (s.setConn c cn).trk = s.trk := rfl

@[simp] theorem conn_setConn (s : State) (c : Nat) (cn : Conn) (c' : Nat) :
    (s.setConn c cn).conn c' = if c = c' then cn else s.conn c' := by
  simp [State.setConn, State.conn, aget_aset]

@[simp] theorem counter_setEntry (s : State) (d : Nat) (k : Key) (e : Option Entry) (d' : Nat) (k' : Key) :
    (s.setEntry d k e).counter d' k' = s.counter d' k' := rfl

@[simp] theorem counter_setConn (s : State) (c : Nat) (cn : Conn) (d : Nat) (k : Key) :
    (s.setConn c cn).counter d k = s.counter d k := rfl

@[simp] theorem active_setEntry (s : State) (d : Nat) (k : Key) (e : Option Entry) (d' sh : Nat) :
    (s.setEntry d k e).active d' sh = s.active d' sh := rfl

@[simp] theorem active_setConn (s : State) (c : Nat) (cn : Conn) (d sh : Nat) :
    (s.setConn c cn).active d sh = s.active d sh := rfl

/-! ### the tracker -/

/-- every per-key counter is at most the global counter of its tracker -/
def TrackerOk (t : Tracker) : Prop := ∀ k, t.counter k ≤ t.global

theorem trackerOk_default : TrackerOk ({} : Tracker) := by
  intro k; simp [Tracker.counter, aget]

@[simp] theorem mark_active (t : Tracker) (k : Key) : (t.mark k).active = t.active := by
  unfold Tracker.mark; split <;> rfl

theorem mark_global_le (t : Tracker) (k : Key) : t.global ≤ (t.mark k).global := by
  unfold Tracker.mark; split <;> simp

theorem mark_counter (t : Tracker) (k k' : Key) :
    (t.mark k).counter k' = if t.active = 0 then t.counter k' else if k = k' then t.global + 1 else t.counter k' := by
  unfold Tracker.mark
  by_cases h : t.active = 0
  · simp [h]
  · simp only [h, if_false, Tracker.counter, aget_aset]

theorem mark_counter_other (t : Tracker) (k k' : Key) (h : k ≠ k') : (t.mark k).counter k' = t.counter k' := by
  rw [mark_counter]; split <;> simp_all

theorem mark_ok (t : Tracker) (k : Key) (h : TrackerOk t) : TrackerOk (t.mark k) := by
  intro k'
  rw [mark_counter]
  by_cases ha : t.active = 0
  · simp only [ha, if_true]; exact Nat.le_trans (h k') (mark_global_le t k)
  · simp only [ha, if_false]
    have hg : (t.mark k).global = t.global + 1 := by simp [Tracker.mark, ha]
    rw [hg]
    split
    · exact Nat.le_refl _
    · exact Nat.le_succ_of_le (h k')

theorem mark_counter_mono (t : Tracker) (k k' : Key) (h : TrackerOk t) : t.counter k' ≤ (t.mark k).counter k' := by
  rw [mark_counter]
  split
  · exact Nat.le_refl _
  · split
    · rename_i e; subst e; exact Nat.le_succ_of_le (h k)
    · exact Nat.le_refl _

/-- the marked key's counter exceeds the old global counter when a watcher is active -/
theorem mark_counter_self (t : Tracker) (k : Key) (h : t.active ≠ 0) : t.global < (t.mark k).counter k := by
  rw [mark_counter]; simp [h]

@[simp] theorem register_counter (t : Tracker) (k k' : Key) : ((t.register k).1).counter k' = t.counter k' := rfl
@[simp] theorem register_global (t : Tracker) (k : Key) : ((t.register k).1).global = t.global := rfl
theorem register_active (t : Tracker) (k : Key) : ((t.register k).1).active = (t.active + 1) % two64 := by
  unfold Tracker.register
  rfl
@[simp] theorem register_base (t : Tracker) (k : Key) : (t.register k).2 = t.counter k := rfl
@[simp] theorem unregister_counter (t : Tracker) (k' : Key) : (t.unregister).counter k' = t.counter k' := by
  unfold Tracker.unregister Tracker.counter
  rfl
@[simp] theorem unregister_global (t : Tracker) : (t.unregister).global = t.global := by
  unfold Tracker.unregister
  rfl
theorem unregister_active (t : Tracker) : (t.unregister).active = (t.active + (two64 - 1)) % two64 := by
  unfold Tracker.unregister
  rfl

/-! ### `markKey` -/

@[simp] theorem entry_markKey (s : State) (d : Nat) (k : Key) (d' : Nat) (k' : Key) :
    (markKey s d k).entry d' k' = s.entry d' k' := rfl

@[simp] theorem conns_markKey (s : State) (d : Nat) (k : Key) : (markKey s d k).conns = s.conns := rfl
@[simp] theorem conn_markKey (s : State) (d : Nat) (k : Key) (c : Nat) : (markKey s d k).conn c = s.conn c := rfl
@[simp] theorem data_markKey (s : State) (d : Nat) (k : Key) : (markKey s d k).data = s.data := rfl

theorem tracker_markKey (s : State) (d : Nat) (k : Key) (d' sh' : Nat) :
    (markKey s d k).tracker d' sh' =
      if (d, shardOf k) = (d', sh') then (s.tracker d (shardOf k)).mark k else s.tracker d' sh' := by
  simp [markKey]

@[simp] theorem active_markKey (s : State) (d : Nat) (k : Key) (d' sh' : Nat) :
    (markKey s d k).active d' sh' = s.active d' sh' := by
  unfold State.active
  rw [tracker_markKey]
  split
  · rename_i h
    simp only [Prod.mk.injEq] at h
    obtain ⟨h1, h2⟩ := h
    subst h1; subst h2; simp
  · rfl

theorem global_markKey_le (s : State) (d : Nat) (k : Key) (d' sh' : Nat) :
    (s.tracker d' sh').global ≤ ((markKey s d k).tracker d' sh').global := by
  rw [tracker_markKey]
  split
  · rename_i h
    simp only [Prod.mk.injEq] at h
    obtain ⟨h1, h2⟩ := h
    subst h1; subst h2; exact mark_global_le _ _
  · exact Nat.le_refl _

/-- marking another (database, key) leaves this key's counter alone -/
theorem counter_markKey_other (s : State) (d : Nat) (k : Key) (d' : Nat) (k' : Key) (h : (d, k) ≠ (d', k')) :
    (markKey s d k).counter d' k' = s.counter d' k' := by
  unfold State.counter
  rw [tracker_markKey]
  split
  · rename_i e
    simp only [Prod.mk.injEq] at e
    obtain ⟨e1, e2⟩ := e
    subst e1
    have hk : k ≠ k' := fun e => h (by rw [e])
    rw [← e2]
    exact mark_counter_other _ _ _ hk
  · rfl

/-! ### the state-wide tracker invariant and growth -/

def TOk (s : State) : Prop := ∀ d sh, TrackerOk (s.tracker d sh)

theorem tok_init : TOk State.init := by
  intro d sh
  have : State.init.tracker d sh = {} := by simp [State.init, State.tracker, aget]
  rw [this]; exact trackerOk_default

theorem tok_markKey (s : State) (d : Nat) (k : Key) (h : TOk s) : TOk (markKey s d k) := by
  intro d' sh'
  rw [tracker_markKey]
  split
  · exact mark_ok _ _ (h _ _)
  · exact h _ _

theorem counter_markKey_mono (s : State) (d : Nat) (k : Key) (h : TOk s) (d' : Nat) (k' : Key) :
    s.counter d' k' ≤ (markKey s d k).counter d' k' := by
  unfold State.counter
  rw [tracker_markKey]
  split
  · rename_i e
    simp only [Prod.mk.injEq] at e
    obtain ⟨e1, e2⟩ := e
    subst e1
    rw [← e2]
    exact mark_counter_mono _ _ _ (h _ _)
  · exact Nat.le_refl _

theorem counter_markKey_self (s : State) (d : Nat) (k : Key) (h : s.active d (shardOf k) ≠ 0) :
    (s.tracker d (shardOf k)).global < (markKey s d k).counter d k := by
  unfold State.counter
  rw [tracker_markKey]
  simp only [if_true]
  exact mark_counter_self _ _ h

/-- `s'` differs from `s` in its trackers only by marks (and registrations): the tracker invariant is kept,
    global counters and per-key counters never decrease -/
structure Grows (s s' : State) : Prop where
  tok : TOk s → TOk s'
  global : ∀ d sh, (s.tracker d sh).global ≤ (s'.tracker d sh).global
  counter : TOk s → ∀ d k, s.counter d k ≤ s'.counter d k

theorem Grows.refl (s : State) : Grows s s := ⟨id, fun _ _ => Nat.le_refl _, fun _ _ _ => Nat.le_refl _⟩

theorem Grows.trans {a b c : State} (h1 : Grows a b) (h2 : Grows b c) : Grows a c :=
  ⟨fun h => h2.tok (h1.tok h), fun d sh => Nat.le_trans (h1.global d sh) (h2.global d sh),
   fun h d k => Nat.le_trans (h1.counter h d k) (h2.counter (h1.tok h) d k)⟩

/-- a state whose trackers are those of `s` grows from `s` -/
theorem Grows.of_trk_eq {s s' : State} (h : s'.trk = s.trk) : Grows s s' := by
  have ht : ∀ d sh, s'.tracker d sh = s.tracker d sh := fun d sh => by simp [State.tracker, h]
  refine ⟨fun hk d sh => by rw [ht]; exact hk d sh, fun d sh => by rw [ht]; exact Nat.le_refl _, fun _ d k => ?_⟩
  unfold State.counter; rw [ht]; exact Nat.le_refl _

theorem grows_markKey (s : State) (d : Nat) (k : Key) : Grows s (markKey s d k) :=
  ⟨tok_markKey s d k, global_markKey_le s d k, fun h d' k' => counter_markKey_mono s d k h d' k'⟩

theorem grows_setEntry (s : State) (d : Nat) (k : Key) (e : Option Entry) : Grows s (s.setEntry d k e) :=
  Grows.of_trk_eq rfl

theorem grows_setConn (s : State) (c : Nat) (cn : Conn) : Grows s (s.setConn c cn) :=
  Grows.of_trk_eq rfl

end Ferrous.Watch
