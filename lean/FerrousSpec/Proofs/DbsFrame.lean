/-
  C18 — the key-space machine touches one database: frame rule, locality, and isolation over access lists.
-/
import FerrousSpec.Model.Dbs
set_option linter.unusedSimpArgs false
set_option linter.unusedVariables false
namespace Ferrous.Dbs
open Ferrous Ferrous.KS

theorem getDb_setDb_ne (s : Store) (i j : Nat) (db : Db) (h : j ≠ i) : getDb (setDb s i db) j = getDb s j := by
  simp [getDb, setDb, List.getD, List.getElem?_set, h.symm]

theorem getDb_setDb_self (s : Store) (i : Nat) (db : Db) (h : i < s.length) : getDb (setDb s i db) i = db := by
  simp [getDb, setDb, List.getD, List.getElem?_set, h]

theorem getDb_setDb_self_ge (s : Store) (i : Nat) (db : Db) (h : s.length ≤ i) : getDb (setDb s i db) i = [] := by
  simp [getDb, setDb, List.getD, List.getElem?_set, Nat.not_lt.mpr h]

theorem getDb_flushed (s : Store) (j : Nat) : getDb (s.map fun _ => ([] : Db)) j = [] := by
  simp [getDb, List.getD]
  cases h : s[j]? <;> simp [h]

theorem getDb_ge (s : Store) (i : Nat) (h : s.length ≤ i) : getDb s i = [] := by
  simp [getDb, List.getD, List.getElem?_eq_none h]

/-- `KS.step` spelled out with `nameOf` -/
theorem step_eq (q : Quirks) (s : Store) (i now : Nat) (cmd : List Bytes) (obs : Option (List Bytes)) :
    KS.step q s i now cmd obs =
      match cmd with
      | [] => (s, err)
      | n :: args =>
        if isFlushAll (n :: args) = true then
          (if args.isEmpty then (s.map fun _ => [], ok) else (s, err))
        else
          (setDb s i (stepDb q (purge now (getDb s i)) now (nameOf (n :: args)) args obs).1,
           (stepDb q (purge now (getDb s i)) now (nameOf (n :: args)) args obs).2) := by
  cases cmd with
  | nil => rfl
  | cons n args =>
    simp only [KS.step, isFlushAll, nameOf, beq_iff_eq]

theorem step_length (q : Quirks) (s : Store) (i now : Nat) (cmd : List Bytes) (obs : Option (List Bytes)) :
    (KS.step q s i now cmd obs).1.length = s.length := by
  rw [step_eq]
  cases cmd with
  | nil => rfl
  | cons n args =>
    simp only []
    split
    · split <;> simp
    · simp [setDb]

/-- Frame rule: a command executed on database `i` — any command of the machine but FLUSHALL, any
    arguments, any store — leaves every other database exactly as it was. -/
theorem step_frame (q : Quirks) (s : Store) (i j now : Nat) (cmd : List Bytes) (obs : Option (List Bytes))
    (hij : j ≠ i) (hf : isFlushAll cmd = false) :
    getDb (KS.step q s i now cmd obs).1 j = getDb s j := by
  rw [step_eq]
  cases cmd with
  | nil => rfl
  | cons n args =>
    simp only [hf, Bool.false_eq_true, if_false]
    exact getDb_setDb_ne _ _ _ _ hij

/-- FLUSHALL does not look at the selection at all. -/
theorem step_flushall_any_db (q : Quirks) (s : Store) (i i' now : Nat) (cmd : List Bytes) (obs : Option (List Bytes))
    (hf : isFlushAll cmd = true) : KS.step q s i now cmd obs = KS.step q s i' now cmd obs := by
  rw [step_eq, step_eq]
  cases cmd with
  | nil => rfl
  | cons n args => simp only [hf, if_true]

/-- Two stores that agree on database `j` (and have the same number of databases). -/
def Agree (j : Nat) (s s' : Store) : Prop := s.length = s'.length ∧ getDb s j = getDb s' j

theorem Agree.refl (j : Nat) (s : Store) : Agree j s s := ⟨rfl, rfl⟩

/-- Locality: what a command executed on database `i` answers, and what database `i` holds afterwards,
    depends on the content of database `i` only. -/
theorem step_local (q : Quirks) (s s' : Store) (i now : Nat) (cmd : List Bytes) (obs : Option (List Bytes))
    (h : Agree i s s') :
    (KS.step q s i now cmd obs).2 = (KS.step q s' i now cmd obs).2 ∧
    Agree i (KS.step q s i now cmd obs).1 (KS.step q s' i now cmd obs).1 := by
  obtain ⟨hl, hd⟩ := h
  refine ⟨?_, ?_, ?_⟩
  · rw [step_eq, step_eq]
    cases cmd with
    | nil => rfl
    | cons n args =>
      simp only []
      split
      · split <;> rfl
      · simp only [hd]
  · rw [step_length, step_length, hl]
  · rw [step_eq, step_eq]
    cases cmd with
    | nil => exact hd
    | cons n args =>
      simp only []
      split
      · split
        · rw [getDb_flushed, getDb_flushed]
        · exact hd
      · simp only [hd]
        by_cases hi : i < s.length
        · rw [getDb_setDb_self _ _ _ hi, getDb_setDb_self _ _ _ (hl ▸ hi)]
        · rw [getDb_setDb_self_ge _ _ _ (Nat.not_lt.mp hi), getDb_setDb_self_ge _ _ _ (hl ▸ Nat.not_lt.mp hi)]

/-- the same access applied to two stores that agree on `j` keeps them agreeing on `j` -/
theorem agree_step_both (q : Quirks) (s s' : Store) (j i now : Nat) (cmd : List Bytes) (obs : Option (List Bytes))
    (h : Agree j s s') : Agree j (KS.step q s i now cmd obs).1 (KS.step q s' i now cmd obs).1 := by
  by_cases hij : j = i
  · subst hij; exact (step_local q s s' j now cmd obs h).2
  · cases hf : isFlushAll cmd with
    | false =>
      refine ⟨by rw [step_length, step_length, h.1], ?_⟩
      rw [step_frame q s i j now cmd obs hij hf, step_frame q s' i j now cmd obs hij hf]
      exact h.2
    | true =>
      rw [step_flushall_any_db q s i j now cmd obs hf, step_flushall_any_db q s' i j now cmd obs hf]
      exact (step_local q s s' j now cmd obs h).2

/-- an access on another database (not FLUSHALL) applied to one side only keeps the stores agreeing on `j` -/
theorem agree_step_left (q : Quirks) (s s' : Store) (j i now : Nat) (cmd : List Bytes) (obs : Option (List Bytes))
    (h : Agree j s s') (hij : j ≠ i) (hf : isFlushAll cmd = false) :
    Agree j (KS.step q s i now cmd obs).1 s' := by
  refine ⟨by rw [step_length, h.1], ?_⟩
  rw [step_frame q s i j now cmd obs hij hf]
  exact h.2

/-- the accesses that concern database `j`: those executed on `j`, and every FLUSHALL -/
def concerns (j : Nat) (a : Access) : Bool := a.db == j || isFlushAll a.cmd

theorem runAcc_append (q : Quirks) (s : Store) (as bs : List Access) :
    runAcc q s (as ++ bs) = runAcc q (runAcc q s as) bs := by
  simp [runAcc, List.foldl_append]

theorem runAcc_length (q : Quirks) (s : Store) (as : List Access) : (runAcc q s as).length = s.length := by
  induction as generalizing s with
  | nil => rfl
  | cons a r ih => simp only [runAcc, List.foldl_cons] at ih ⊢; rw [ih, step_length]

theorem agree_runAcc_filter (q : Quirks) (j : Nat) (as : List Access) :
    ∀ s s', Agree j s s' → Agree j (runAcc q s as) (runAcc q s' (as.filter (concerns j))) := by
  induction as with
  | nil => intro s s' h; exact h
  | cons a r ih =>
    intro s s' h
    by_cases hc : concerns j a = true
    · simp only [List.filter_cons, hc, if_true, runAcc, List.foldl_cons]
      exact ih _ _ (agree_step_both q s s' j a.db a.now a.cmd a.obs h)
    · simp only [List.filter_cons, hc, runAcc, List.foldl_cons]
      simp only [concerns, Bool.or_eq_true, beq_iff_eq, not_or, Bool.not_eq_true] at hc
      exact ih _ _ (agree_step_left q s s' j a.db a.now a.cmd a.obs h (fun e => hc.1 e.symm) hc.2)

/-- Isolation over access lists: after ANY sequence of commands executed on any databases, database `j` holds
    what it would hold had only the commands executed on `j` (and the FLUSHALLs) been run. -/
theorem runAcc_isolated (q : Quirks) (s : Store) (j : Nat) (as : List Access) :
    getDb (runAcc q s as) j = getDb (runAcc q s (as.filter (concerns j))) j :=
  (agree_runAcc_filter q j as s s (Agree.refl j s)).2

/-- accesses none of which concerns `j` leave database `j` untouched -/
theorem runAcc_frame (q : Quirks) (s : Store) (j : Nat) (as : List Access)
    (h : ∀ a ∈ as, concerns j a = false) : getDb (runAcc q s as) j = getDb s j := by
  rw [runAcc_isolated]
  have : as.filter (concerns j) = [] := by
    apply List.filter_eq_nil_iff.mpr
    intro a ha; simp [h a ha]
  rw [this]; rfl

end Ferrous.Dbs
