/-
  C18 — the switches of the connection machine that reproduce /repo's CURRENT source, read off the
  tables the translator regenerates on every run (Gen/Dispatch.lean).  Import-free (no Mathlib): the
  driver links against this file.
-/
import FerrousSpec.Model.Dbs
import FerrousSpec.Gen.Dispatch
namespace Ferrous.Dbs
open Ferrous

/-- does the dispatch arm of `name` mention `db`? (`false` for a name without an arm) -/
def passesDb (name : String) : Bool :=
  match Gen.Dispatch.dispatch.find? (fun c => c.1 == name) with
  | some c => c.2
  | none => false

/-- the machine as /repo's source has it today -/
def codeSwitches : Switches :=
  { evalshaDb0 := !passesDb "EVALSHA",
    scriptDbCmdsDb0 := !Gen.Dispatch.scriptDatabaseCmdsGetDb,
    execSelectNoop := !Gen.Dispatch.execSelectEffective }

end Ferrous.Dbs
