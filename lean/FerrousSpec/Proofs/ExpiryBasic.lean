/-
  C02 helper lemmas (1): association lists, `purge`, `enter`.
-/
import FerrousSpec.Model.Expiry
set_option linter.unusedSimpArgs false
set_option linter.unusedVariables false
namespace Ferrous.Exp
open Ferrous

/-- keys are unique (a `HashMap`) -/
def NodupKeys {α : Type} (l : List (Key × α)) : Prop := (l.map (·.1)).Nodup

theorem lookup_cons {α : Type} (k' : Key) (v : α) (t : List (Key × α)) (k : Key) :
    lookup ((k', v) :: t) k = if k' = k then some v else lookup t k := rfl

theorem lookup_nil {α : Type} (k : Key) : lookup ([] : List (Key × α)) k = none := rfl

theorem lookup_none_of_not_mem {α : Type} (l : List (Key × α)) (k : Key) (h : k ∉ l.map (·.1)) : lookup l k = none := by
  induction l with
  | nil => rfl
  | cons p t ih =>
    obtain ⟨k', v⟩ := p
    simp only [List.map_cons, List.mem_cons, not_or] at h
    rw [lookup_cons, if_neg (fun hh => h.1 hh.symm)]
    exact ih h.2

theorem mem_keys_of_lookup {α : Type} (l : List (Key × α)) (k : Key) (v : α) (h : lookup l k = some v) : (k, v) ∈ l := by
  induction l with
  | nil => simp [lookup_nil] at h
  | cons p t ih =>
    obtain ⟨k', v'⟩ := p
    rw [lookup_cons] at h
    split at h
    · rename_i hk; subst hk; simp at h; subst h; simp
    · exact List.mem_cons_of_mem _ (ih h)

theorem lookup_of_mem_nodup {α : Type} (l : List (Key × α)) (k : Key) (v : α) (hn : NodupKeys l) (h : (k, v) ∈ l) :
    lookup l k = some v := by
  induction l with
  | nil => simp at h
  | cons p t ih =>
    obtain ⟨k', v'⟩ := p
    have hn' := List.nodup_cons.mp hn
    rw [lookup_cons]
    rcases List.mem_cons.mp h with h | h
    · injection h with h1 h2; subst h1; subst h2; simp
    · have : k' ≠ k := by
        intro hk; subst hk
        exact hn'.1 (List.mem_map.mpr ⟨(k', v), h, rfl⟩)
      rw [if_neg this]
      exact ih hn'.2 h

theorem lookup_erase_self {α : Type} (l : List (Key × α)) (k : Key) : lookup (erase l k) k = none := by
  apply lookup_none_of_not_mem
  simp [erase, List.mem_map, List.mem_filter]

theorem lookup_filter_other {α : Type} (l : List (Key × α)) (p : Key × α → Bool) (k : Key)
    (h : ∀ v, (k, v) ∈ l → p (k, v) = true) : lookup (l.filter p) k = lookup l k := by
  induction l with
  | nil => rfl
  | cons q t ih =>
    obtain ⟨k', v'⟩ := q
    have ih' := ih (fun v hv => h v (List.mem_cons_of_mem _ hv))
    by_cases hk : k' = k
    · subst hk
      have := h v' (by simp)
      simp [List.filter_cons, this, lookup_cons]
    · cases hp : p (k', v') <;> simp [List.filter_cons, hp, lookup_cons, hk, ih']

theorem lookup_erase_other {α : Type} (l : List (Key × α)) (k k' : Key) (h : k' ≠ k) :
    lookup (erase l k) k' = lookup l k' := by
  apply lookup_filter_other
  intro v _
  simp [h]

theorem lookup_insert_self {α : Type} (l : List (Key × α)) (k : Key) (v : α) : lookup (insert l k v) k = some v := by
  simp [insert, lookup_cons]

theorem lookup_insert_other {α : Type} (l : List (Key × α)) (k k' : Key) (v : α) (h : k' ≠ k) :
    lookup (insert l k v) k' = lookup l k' := by
  simp only [insert, lookup_cons]
  rw [if_neg (fun hh => h hh.symm)]
  exact lookup_erase_other l k k' h

theorem erase_of_lookup_none {α : Type} (l : List (Key × α)) (k : Key) (h : lookup l k = none) : erase l k = l := by
  induction l with
  | nil => rfl
  | cons p t ih =>
    obtain ⟨k', v⟩ := p
    rw [lookup_cons] at h
    split at h
    · simp at h
    · rename_i hk
      simp only [erase, List.filter_cons, hk, decide_false, Bool.not_false, if_true]
      congr 1
      exact ih h

theorem nodup_filter {α : Type} (l : List (Key × α)) (p : Key × α → Bool) (h : NodupKeys l) : NodupKeys (l.filter p) := by
  unfold NodupKeys at *
  exact List.Nodup.sublist (List.Sublist.map _ List.filter_sublist) h

theorem nodup_erase {α : Type} (l : List (Key × α)) (k : Key) (h : NodupKeys l) : NodupKeys (erase l k) :=
  nodup_filter l _ h

theorem nodup_insert {α : Type} (l : List (Key × α)) (k : Key) (v : α) (h : NodupKeys l) : NodupKeys (insert l k v) := by
  unfold NodupKeys insert
  simp only [List.map_cons, List.nodup_cons]
  refine ⟨?_, nodup_erase l k h⟩
  simp [erase, List.mem_map, List.mem_filter]

theorem nodup_nil {α : Type} : NodupKeys ([] : List (Key × α)) := by simp [NodupKeys]

/-- on a list with unique keys, looking up in a filtered list = filtering the looked-up value -/
theorem lookup_filter_nodup {α : Type} (l : List (Key × α)) (p : Key × α → Bool) (k : Key) (hn : NodupKeys l) :
    lookup (l.filter p) k = (lookup l k).filter (fun v => p (k, v)) := by
  induction l with
  | nil => rfl
  | cons q t ih =>
    obtain ⟨k', v'⟩ := q
    have hn' := List.nodup_cons.mp hn
    by_cases hk : k' = k
    · subst hk
      have hnone : lookup t k' = none := lookup_none_of_not_mem t k' hn'.1
      cases hp : p (k', v')
      · simp only [List.filter_cons, hp, Bool.false_eq_true, if_false, lookup_cons, if_true, Option.filter, hp]
        rw [ih hn'.2, hnone]; rfl
      · simp [List.filter_cons, hp, lookup_cons, Option.filter]
    · cases hp : p (k', v') <;> simp [List.filter_cons, hp, lookup_cons, hk, ih hn'.2]

theorem erase_filter_comm {α : Type} (l : List (Key × α)) (p : Key × α → Bool) (k : Key) :
    erase (l.filter p) k = (erase l k).filter p := by
  simp only [erase, List.filter_filter]
  apply List.filter_congr
  intro x _
  exact Bool.and_comm _ _

/-! ### purge -/

theorem purge_erase (now : Nat) (d : Db) (k : Key) : Spec.purge now (erase d k) = erase (Spec.purge now d) k := by
  unfold Spec.purge
  exact (erase_filter_comm d _ k).symm

theorem purge_insert_alive (now : Nat) (d : Db) (k : Key) (e : Stored) (h : expired now e = false) :
    Spec.purge now (insert d k e) = insert (Spec.purge now d) k e := by
  have := purge_erase now d k
  unfold Spec.purge at *
  simp only [insert, List.filter_cons, h, Bool.not_false, if_true]
  rw [this]

theorem purge_insert_dead (now : Nat) (d : Db) (k : Key) (e : Stored) (h : expired now e = true) :
    Spec.purge now (insert d k e) = erase (Spec.purge now d) k := by
  have := purge_erase now d k
  unfold Spec.purge at *
  simp only [insert, List.filter_cons, h, Bool.not_true, Bool.false_eq_true, if_false]
  rw [this]

theorem purge_idem (now : Nat) (d : Db) : Spec.purge now (Spec.purge now d) = Spec.purge now d := by
  simp [Spec.purge, List.filter_filter]

theorem expired_mono (t t' : Nat) (e : Stored) (h : t ≤ t') (he : expired t e = true) : expired t' e = true := by
  unfold expired at *
  cases hd : e.deadline with
  | none => simp [hd] at he
  | some d => simp [hd] at he ⊢; omega

/-- later purges absorb earlier ones -/
theorem purge_purge_le (t t' : Nat) (d : Db) (h : t ≤ t') : Spec.purge t' (Spec.purge t d) = Spec.purge t' d := by
  simp only [Spec.purge, List.filter_filter]
  apply List.filter_congr
  intro x _
  cases h1 : expired t' x.2 <;> cases h2 : expired t x.2 <;> simp
  have := expired_mono t t' x.2 h h2
  simp [h1] at this

theorem purge_nodup (now : Nat) (d : Db) (h : NodupKeys d) : NodupKeys (Spec.purge now d) := nodup_filter d _ h

theorem lookup_purge (now : Nat) (d : Db) (k : Key) (hn : NodupKeys d) :
    lookup (Spec.purge now d) k = (lookup d k).filter (fun e => !expired now e) := by
  unfold Spec.purge
  exact lookup_filter_nodup d _ k hn

theorem purge_of_lookup_dead (now : Nat) (d : Db) (k : Key) (e : Stored) (hn : NodupKeys d)
    (hl : lookup d k = some e) (he : expired now e = true) : Spec.purge now (erase d k) = Spec.purge now d := by
  rw [purge_erase]
  apply erase_of_lookup_none
  rw [lookup_purge now d k hn, hl]
  simp [Option.filter, he]

/-! ### enter -/

/-- the hypothesis under which a storage call behaves as prescribed on key `k`: it has a lazy test, or there is
    no expired entry under `k` -/
def Guarded (c : Cfg) (fn : String) (now : Nat) (s : Shard) (k : Key) : Prop :=
  c.lazy fn = true ∨ ∀ e, lookup s.data k = some e → expired now e = false

theorem enter_snd (c : Cfg) (fn : String) (now : Nat) (s : Shard) (k : Key) (hn : NodupKeys s.data)
    (h : Guarded c fn now s k) : (enter c fn now s k).2 = lookup (Spec.purge now s.data) k := by
  rw [lookup_purge now s.data k hn]
  unfold enter
  cases hl : lookup s.data k with
  | none => simp [Option.filter]
  | some e =>
    cases he : expired now e
    · simp [Option.filter, he]
    · rcases h with h | h
      · simp [Option.filter, he, h]
      · have := h e hl; simp [he] at this

theorem enter_view (c : Cfg) (fn : String) (now : Nat) (s : Shard) (k : Key) (hn : NodupKeys s.data) :
    Spec.purge now (enter c fn now s k).1.data = Spec.purge now s.data := by
  unfold enter
  cases hl : lookup s.data k with
  | none => rfl
  | some e =>
    simp only []
    split
    · rename_i hc
      simp only [Bool.and_eq_true] at hc
      split
      · exact purge_of_lookup_dead now s.data k e hn hl hc.2
      · rfl
    · rfl

theorem enter_nodup (c : Cfg) (fn : String) (now : Nat) (s : Shard) (k : Key) (hn : NodupKeys s.data) :
    NodupKeys (enter c fn now s k).1.data := by
  unfold enter
  cases hl : lookup s.data k with
  | none => exact hn
  | some e =>
    simp only []
    split
    · split
      · exact nodup_erase _ _ hn
      · exact hn
    · exact hn

/-- when `enter` hands an entry to the function, nothing was removed and the entry is the stored one -/
theorem enter_some (c : Cfg) (fn : String) (now : Nat) (s : Shard) (k : Key) (e : Stored)
    (h : (enter c fn now s k).2 = some e) : (enter c fn now s k).1 = s ∧ lookup s.data k = some e := by
  unfold enter at h ⊢
  cases hl : lookup s.data k with
  | none => simp [hl] at h
  | some e' =>
    simp only [hl] at h ⊢
    split at h
    · simp at h
    · rename_i hc
      simp at h; subst h
      simp [hc]

/-- a live entry (deadline absent or not yet passed) is always handed to the function, whatever the configuration -/
theorem enter_live (c : Cfg) (fn : String) (now : Nat) (s : Shard) (k : Key) (e : Stored)
    (hl : lookup s.data k = some e) (he : expired now e = false) : enter c fn now s k = (s, some e) := by
  simp [enter, hl, he]

theorem enter_absent (c : Cfg) (fn : String) (now : Nat) (s : Shard) (k : Key)
    (hl : lookup s.data k = none) : enter c fn now s k = (s, none) := by
  simp [enter, hl]

/-- `enter` never touches another key -/
theorem enter_frame (c : Cfg) (fn : String) (now : Nat) (s : Shard) (k k' : Key) (h : k' ≠ k) :
    lookup (enter c fn now s k).1.data k' = lookup s.data k' ∧ lookup (enter c fn now s k).1.expiring k' = lookup s.expiring k' := by
  unfold enter
  cases hl : lookup s.data k with
  | none => exact ⟨rfl, rfl⟩
  | some e =>
    simp only []
    split
    · split
      · exact ⟨lookup_erase_other _ _ _ h, lookup_erase_other _ _ _ h⟩
      · exact ⟨rfl, rfl⟩
    · exact ⟨rfl, rfl⟩

end Ferrous.Exp
