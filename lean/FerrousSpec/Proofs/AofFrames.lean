import FerrousSpec.Model.Aof
import FerrousSpec.Proofs.RespRoundtrip
import FerrousSpec.Proofs.RespStream
set_option linter.unusedSimpArgs false
set_option linter.unusedVariables false
namespace Ferrous.Aof
open Ferrous

/-! ## The file parses back to exactly the appended commands -/

/-- no argument of 8 EiB, no command of 2^63 arguments (the serializer writes lengths that `parse::<i64>` reads back) -/
def cmdWf (c : List Bytes) : Prop := c.length ≤ 9223372036854775807 ∧ ∀ a ∈ c, a.length ≤ 9223372036854775807

theorem wfList_bulks (c : List Bytes) (h : ∀ a ∈ c, a.length ≤ 9223372036854775807) :
    wfList (c.map .bulk) = true := by
  induction c with
  | nil => simp [wfList]
  | cons a t ih =>
    simp only [List.map_cons, wfList, wf, Bool.and_eq_true, decide_eq_true_eq]
    exact ⟨h a (by simp), ih (fun b hb => h b (by simp [hb]))⟩

theorem wf_cmdFrame (c : List Bytes) (h : cmdWf c) : wf (cmdFrame c) = true := by
  unfold cmdFrame
  simp only [wf, Bool.and_eq_true, decide_eq_true_eq, List.length_map]
  exact ⟨h.1, wfList_bulks c h.2⟩

theorem bulksOf_map (c : List Bytes) : bulksOf (c.map .bulk) = some c := by
  induction c with
  | nil => rfl
  | cons a t ih => simp [bulksOf, ih]

theorem cmdOfFrame_cmdFrame (c : List Bytes) : cmdOfFrame (cmdFrame c) = some c := by
  simp [cmdOfFrame, cmdFrame, bulksOf_map]

theorem serCmd_cons (c : List Bytes) : ∃ t, serCmd c = 42 :: t := by
  unfold serCmd cmdFrame
  rw [ser]
  exact ⟨_, rfl⟩

theorem depthList_bulks (c : List Bytes) : depthList (c.map .bulk) ≤ 1 := by
  induction c with
  | nil => simp [depthList]
  | cons a t ih => simp only [List.map_cons, depthList, Frame.depth]; omega

theorem depth_cmdFrame (c : List Bytes) : (cmdFrame c).depth ≤ maxNesting + 1 := by
  unfold cmdFrame
  have := depthList_bulks c
  simp only [Frame.depth, maxNesting]
  omega

theorem serCmd_length_pos (c : List Bytes) : 0 < (serCmd c).length := by
  obtain ⟨t, ht⟩ := serCmd_cons c
  simp [ht]

theorem fileOf_length (cs : List (List Bytes)) : cs.length ≤ (fileOf cs).length := by
  induction cs with
  | nil => simp [fileOf]
  | cons c t ih =>
    have := serCmd_length_pos c
    simp [fileOf]; omega

theorem fileOf_append (a b : List (List Bytes)) : fileOf (a ++ b) = fileOf a ++ fileOf b := by
  induction a with
  | nil => simp [fileOf]
  | cons c t ih => simp [fileOf, ih]

/-- an empty file or one that starts with `*` -/
theorem fileOf_head (cs : List (List Bytes)) : fileOf cs = [] ∨ ∃ t, fileOf cs = 42 :: t := by
  cases cs with
  | nil => left; rfl
  | cons c t =>
    right
    obtain ⟨u, hu⟩ := serCmd_cons c
    exact ⟨u ++ fileOf t, by simp [fileOf, hu]⟩

/-- one step of the reader on a complete frame -/
theorem readLogF_step (n : Nat) (c : List Bytes) (hc : cmdWf c) (rest : Bytes) :
    readLogF (n + 1) (serCmd c ++ rest) = (c :: (readLogF n rest).1, (readLogF n rest).2) := by
  obtain ⟨t, ht⟩ := serCmd_cons c
  have hne : (serCmd c ++ rest).isEmpty = false := by simp [ht]
  have hp : parseBytes (serCmd c ++ rest) = .ok (cmdFrame c) rest := parseBytes_ser (cmdFrame c) (wf_cmdFrame c hc) (depth_cmdFrame c) rest
  simp only [readLogF, hne, hp, cmdOfFrame_cmdFrame]
  simp

theorem readLogF_file (cs : List (List Bytes)) (hw : ∀ c ∈ cs, cmdWf c) :
    ∀ n, cs.length < n → ∀ (p : Bytes),
      readLogF n (fileOf cs ++ p) = (cs ++ (readLogF (n - cs.length) p).1, (readLogF (n - cs.length) p).2) := by
  induction cs with
  | nil => intro n hn p; simp [fileOf]
  | cons c t ih =>
    intro n hn p
    cases n with
    | zero => simp at hn
    | succ n =>
      have hc := hw c (by simp)
      have := ih (fun d hd => hw d (by simp [hd])) n (by simp at hn; omega) p
      simp only [fileOf, List.append_assoc]
      rw [readLogF_step n c hc, this]
      simp

/-- (reader, whole file) -/
theorem readLog_fileOf (cs : List (List Bytes)) (hw : ∀ c ∈ cs, cmdWf c) : readLog (fileOf cs) = (cs, .clean) := by
  unfold readLog
  have hl := fileOf_length cs
  have := readLogF_file cs hw ((fileOf cs).length + 1) (by omega) []
  simp only [List.append_nil] at this
  rw [this]
  have h2 : (fileOf cs).length + 1 - cs.length = ((fileOf cs).length - cs.length) + 1 := by omega
  rw [h2]
  simp [readLogF]

/-- every proper, non-empty prefix of a serialised frame asks for more data -/
theorem proper_prefix_needs (f : Frame) (hw : wf f = true) (hd : f.depth ≤ maxNesting + 1) (p e : Bytes) (hpe : p ++ e = ser f) (he : e ≠ []) :
    parseBytes p = .need := by
  by_cases h : parseBytes p = .need
  · exact h
  · have h1 := parseBytes_append p e h
    have h2 : parseBytes (ser f) = .ok f [] := by
      have := parseBytes_ser f hw hd []
      simpa using this
    rw [hpe, h2] at h1
    cases hp : parseBytes p with
    | need => exact absurd hp h
    | err => simp [hp, Res.ext] at h1
    | ok f' r =>
      simp only [hp, Res.ext, Res.ok.injEq] at h1
      have : r ++ e = [] := h1.2.symm
      simp at this
      exact absurd this.2 he

/-- (reader, torn tail) the file followed by a proper non-empty prefix of one more command: exactly the complete
    commands, then "need more data" -/
theorem readLog_torn (cs : List (List Bytes)) (hw : ∀ c ∈ cs, cmdWf c) (c : List Bytes) (hc : cmdWf c)
    (p e : Bytes) (hpe : p ++ e = serCmd c) (hp : p ≠ []) (he : e ≠ []) :
    readLog (fileOf cs ++ p) = (cs, .torn p) := by
  unfold readLog
  have hl := fileOf_length cs
  have hpl : 0 < p.length := by cases p <;> simp at hp ⊢
  have := readLogF_file cs hw ((fileOf cs ++ p).length + 1) (by simp; omega) p
  rw [this]
  have h2 : (fileOf cs ++ p).length + 1 - cs.length = ((fileOf cs ++ p).length - cs.length) + 1 := by simp; omega
  rw [h2]
  have hneed := proper_prefix_needs (cmdFrame c) (wf_cmdFrame c hc) (depth_cmdFrame c) p e hpe he
  have hne : p.isEmpty = false := by cases p <;> simp at hp ⊢
  simp [readLogF, hne, hneed]

/-! ## ferrous's own incremental parser on the file -/

theorem dropWhile_head42 (q : Nat → Bool) (hq : q 42 = false) (t : Bytes) : (42 :: t).dropWhile q = 42 :: t := by
  simp [List.dropWhile_cons, hq]

theorem parserParse_cmd (c : List Bytes) (hc : cmdWf c) (rest : Bytes) :
    parserParse true (serCmd c ++ rest) = (.frame (cmdFrame c), rest.dropWhile isNl) := by
  obtain ⟨t, ht⟩ := serCmd_cons c
  have hp : parseBytes (serCmd c ++ rest) = .ok (cmdFrame c) rest := parseBytes_ser (cmdFrame c) (wf_cmdFrame c hc) (depth_cmdFrame c) rest
  unfold parserParse
  have hws : (serCmd c ++ rest).dropWhile isWs = serCmd c ++ rest := by
    rw [ht]; exact dropWhile_head42 isWs (by decide) _
  simp only [hws]
  have hne : (serCmd c ++ rest).isEmpty = false := by simp [ht]
  have hsp : stripPing (serCmd c ++ rest) = none := by
    unfold stripPing pingBytes
    rw [ht]
    cases h : (t ++ rest) with
    | nil => simp [h]
    | cons a u =>
      simp only [List.cons_append, h]
      cases u with
      | nil => simp
      | cons b v => cases v with
        | nil => simp
        | cons d w => simp
  have hpp : isPingProperPrefix (serCmd c ++ rest) = false := by
    rw [ht]
    simp [isPingProperPrefix]
  simp only [hne, hsp, hpp, hp, Bool.and_false, Bool.false_eq_true, if_false]

theorem drainF_file (cs : List (List Bytes)) (hw : ∀ c ∈ cs, cmdWf c) :
    ∀ n, cs.length < n → drainF true n (fileOf cs) = (cs.map fun c => .frame (cmdFrame c), [], false) := by
  induction cs with
  | nil =>
    intro n hn
    cases n with
    | zero => simp at hn
    | succ n => simp [fileOf, drainF, parserParse]
  | cons c t ih =>
    intro n hn
    cases n with
    | zero => simp at hn
    | succ n =>
      have hc := hw c (by simp)
      have hpp := parserParse_cmd c hc (fileOf t)
      have hrest : (fileOf t).dropWhile isNl = fileOf t := by
        rcases fileOf_head t with h | ⟨u, hu⟩
        · simp [h]
        · rw [hu]; exact dropWhile_head42 isNl (by decide) _
      rw [hrest] at hpp
      simp only [fileOf]
      rw [drainF_frame hpp, ih (fun d hd => hw d (by simp [hd])) n (by simp at hn; omega)]
      simp

/-- ferrous's incremental parser, fed the whole file, yields exactly the appended commands -/
theorem runWhole_fileOf (cs : List (List Bytes)) (hw : ∀ c ∈ cs, cmdWf c) :
    runWhole true (fileOf cs) = cs.map fun c => .frame (cmdFrame c) := by
  unfold runWhole drain
  have hl := fileOf_length cs
  rw [drainF_file cs hw _ (by omega)]

/-! ## the bytes the code appends are the serialisation of `log (Cfg.code w)` -/

/-- the commands of a history that reached `process_normal_command`, in order -/
def rawsOf : List Ev → List (List Bytes)
  | [] => []
  | .cmd _ _ _ raw :: h => raw :: rawsOf h
  | .wake _ _ _ _ :: h => rawsOf h
  | .expire _ _ _ :: h => rawsOf h

theorem logEv_code_cmd (w : List String) (st : LogSt) (ve : Bool) (now : Nat) (obs : Option (List Bytes)) (raw : List Bytes) :
    (logEv (Cfg.code w) st (.cmd ve now obs raw)).1 = if isWrite w (nameOf raw) = true then [raw] else [] := by
  simp only [logEv, Cfg.code, entryOf, selFor, Bool.false_eq_true, false_and, if_false, List.nil_append]
  split <;> rfl

theorem logEv_code_wake (w : List String) (st : LogSt) (db now : Nat) (left : Bool) (key : Bytes) :
    (logEv (Cfg.code w) st (.wake db now left key)).1 = [] := by
  simp [logEv, Cfg.code]

theorem logEv_code_expire (w : List String) (st : LogSt) (db now : Nat) (key : Bytes) :
    (logEv (Cfg.code w) st (.expire db now key)).1 = [] := by
  simp [logEv, Cfg.code]

/-- the code's log is the sub-list of those commands whose name is in the table: each once, in execution order -/
theorem log_code_eq_filter (w : List String) (st : LogSt) (h : List Ev) :
    logFrom (Cfg.code w) st h = (rawsOf h).filter fun raw => isWrite w (nameOf raw) := by
  induction h generalizing st with
  | nil => rfl
  | cons ev t ih =>
    cases ev with
    | cmd ve now obs raw =>
      rw [logFrom, logEv_code_cmd, ih, rawsOf, List.filter_cons]
      split <;> simp
    | wake db now left key =>
      rw [logFrom, logEv_code_wake, ih, rawsOf]
      simp
    | expire db now key =>
      rw [logFrom, logEv_code_expire, ih, rawsOf]
      simp

/-- one `append_command_in_db` writes the entries `selFor … ++ [cmd]` and moves `last_db` as the tracking says -/
theorem appendInDb_eq (cfg : Cfg) (st : LogSt) (file : Bytes) (d : Nat) (cmd : List Bytes) :
    Code.appendInDb cfg.logSelect st.file file d cmd =
      (file ++ fileOf (selFor cfg st d ++ [cmd]), fileAfter cfg st d) := by
  unfold Code.appendInDb selFor fileAfter
  by_cases h : cfg.logSelect = true ∧ st.file ≠ d
  · simp [h, h.1, fileOf]
  · simp only [h, if_false]
    simp [fileOf]

theorem fileStep_eq (w : List String) (sel wake eff exp : Bool) (hwf : isWrite w "SELECT" = false) (s : Code.FileSt) (ev : Ev) :
    (Code.fileStep w sel wake eff exp s ev).file = s.file ++ fileOf (logEv (Cfg.treeX w sel wake eff exp) ⟨s.conn, s.last⟩ ev).1 ∧
    (⟨(Code.fileStep w sel wake eff exp s ev).conn, (Code.fileStep w sel wake eff exp s ev).last⟩ : LogSt) =
      (logEv (Cfg.treeX w sel wake eff exp) ⟨s.conn, s.last⟩ ev).2 := by
  cases ev with
  | cmd ve now obs raw =>
    by_cases hw : isWrite w (nameOf raw) = true
    · have hs : nameOf raw ≠ "SELECT" := by
        intro h; rw [h, hwf] at hw; exact absurd hw (by decide)
      cases he : entryOf eff raw obs with
      | none => simp [Code.fileStep, logEv, hw, he, Cfg.treeX, fileOf]
      | some e =>
        have := appendInDb_eq (Cfg.treeX w sel wake eff exp) ⟨s.conn, s.last⟩ s.file s.conn e
        simp only [Cfg.treeX] at this
        simp only [Code.fileStep, logEv, hw, if_true, hs, if_false, he, Cfg.treeX, this]
        simp
    · have hw' : isWrite w (nameOf raw) = false := by simpa using hw
      simp [Code.fileStep, logEv, hw', Cfg.treeX, fileOf]
  | wake db now left key =>
    cases wake with
    | false => simp [Code.fileStep, logEv, Cfg.treeX, fileOf]
    | true =>
      have := appendInDb_eq (Cfg.treeX w sel true eff exp) ⟨s.conn, s.last⟩ s.file db (popCmd left key)
      simp only [Cfg.treeX] at this
      simp only [Code.fileStep, logEv, if_true, Cfg.treeX, this]
      simp
  | expire db now key =>
    cases exp with
    | false => simp [Code.fileStep, logEv, Cfg.treeX, fileOf]
    | true =>
      have := appendInDb_eq (Cfg.treeX w sel wake eff true) ⟨s.conn, s.last⟩ s.file db (delCmd key)
      simp only [Cfg.treeX] at this
      simp only [Code.fileStep, logEv, if_true, Cfg.treeX, this]
      simp

/-- the file after a history = what was there ++ the serialisation of the log -/
theorem fileAfter_eq_from (w : List String) (sel wake eff exp : Bool) (hwf : isWrite w "SELECT" = false) (s : Code.FileSt) (h : List Ev) :
    (Code.fileAfter w sel wake eff exp s h).file = s.file ++ fileOf (logFrom (Cfg.treeX w sel wake eff exp) ⟨s.conn, s.last⟩ h) := by
  induction h generalizing s with
  | nil => simp [Code.fileAfter, logFrom, fileOf]
  | cons ev t ih =>
    have hstep := fileStep_eq w sel wake eff exp hwf s ev
    have := ih (Code.fileStep w sel wake eff exp s ev)
    simp only [Code.fileAfter, List.foldl_cons] at this ⊢
    rw [this, hstep.1, hstep.2, logFrom, fileOf_append, List.append_assoc]

theorem fileAfter_eq (w : List String) (sel wake eff exp : Bool) (hwf : isWrite w "SELECT" = false) (h : List Ev) :
    (Code.fileAfter w sel wake eff exp {} h).file = fileOf (log (Cfg.treeX w sel wake eff exp) h) := by
  have := fileAfter_eq_from w sel wake eff exp hwf {} h
  simpa [log] using this

end Ferrous.Aof
