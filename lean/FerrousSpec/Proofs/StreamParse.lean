/-
  C15 helper lemmas, part 3: the ID text parser (`parse_u64_fast` wraps, the prescribed reader does not)
  and the real halving search against the search contract used by the model.
-/
import FerrousSpec.Proofs.StreamRange
set_option linter.unusedSimpArgs false
set_option linter.unusedVariables false
namespace Ferrous.Stream
open Code

/-! ## `parse_u64_fast` -/

def valFold (acc : Nat) (bs : Bytes) : Nat := bs.foldl (fun a d => a * 10 + (d - 48)) acc

theorem decVal_eq (bs : Bytes) : decVal bs = valFold 0 bs := rfl

/-- the loop body of `parse_u64_fast` -/
def pstep (checked : Bool) (acc : Option Nat) (b : Nat) : Option Nat :=
  match acc with
  | none => none
  | some r =>
    if b < 48 || b > 57 then none
    else if checked && decide (r * 10 + (b - 48) ≥ u64Mod) then none
    else some ((r * 10 + (b - 48)) % u64Mod)

theorem parseU64Fast_def (checked : Bool) (bs : Bytes) :
    parseU64Fast checked bs = if checked && bs.isEmpty then none else bs.foldl (pstep checked) (some 0) := rfl

theorem foldl_pstep_none (c : Bool) (bs : Bytes) : bs.foldl (pstep c) none = none := by
  induction bs with
  | nil => rfl
  | cons b r ih => simpa [pstep] using ih

theorem isDigit_iff (b : Nat) : isDigit b = true ↔ ¬ (b < 48 ∨ b > 57) := by
  simp [isDigit] <;> omega

theorem valFold_cons (acc b : Nat) (r : Bytes) : valFold acc (b :: r) = valFold (acc * 10 + (b - 48)) r := by
  unfold valFold; rw [List.foldl_cons]

theorem le_valFold (acc : Nat) (bs : Bytes) : acc ≤ valFold acc bs := by
  induction bs generalizing acc with
  | nil => exact Nat.le_refl _
  | cons b r ih =>
    have := ih (acc * 10 + (b - 48))
    simp only [valFold, List.foldl_cons] at this ⊢
    omega

/-- unchecked: the value modulo 2^64 -/
theorem foldl_pstep_false (acc : Nat) (bs : Bytes) :
    bs.foldl (pstep false) (some (acc % u64Mod)) =
      if bs.all isDigit then some (valFold acc bs % u64Mod) else none := by
  induction bs generalizing acc with
  | nil => simp [valFold]
  | cons b r ih =>
    simp only [List.foldl_cons, List.all_cons, valFold_cons]
    by_cases hd : isDigit b = true
    · have hnd := (isDigit_iff b).1 hd
      have hstep : pstep false (some (acc % u64Mod)) b = some ((acc * 10 + (b - 48)) % u64Mod) := by
        simp only [pstep, Bool.false_and, Bool.false_eq_true, if_false]
        rw [if_neg (by simpa using hnd)]
        congr 1
        simp only [u64Mod]; omega
      rw [hstep, ih]
      simp [hd]
    · have hnd : b < 48 ∨ b > 57 := by
        have : ¬ ¬ (b < 48 ∨ b > 57) := fun hh => hd ((isDigit_iff b).2 hh)
        omega
      have hstep : pstep false (some (acc % u64Mod)) b = none := by
        simp only [pstep]; rw [if_pos (by simpa using hnd)]
      rw [hstep, foldl_pstep_none]
      simp [hd]

/-- checked: the value if it stays below 2^64 all the way, else refusal -/
theorem foldl_pstep_true (acc : Nat) (hacc : acc < u64Mod) (bs : Bytes) :
    bs.foldl (pstep true) (some acc) =
      if bs.all isDigit = true ∧ valFold acc bs < u64Mod then some (valFold acc bs) else none := by
  induction bs generalizing acc with
  | nil => simp [valFold, hacc]
  | cons b r ih =>
    simp only [List.foldl_cons, List.all_cons, valFold_cons]
    by_cases hd : isDigit b = true
    · have hnd := (isDigit_iff b).1 hd
      by_cases hov : acc * 10 + (b - 48) ≥ u64Mod
      · have hstep : pstep true (some acc) b = none := by
          simp only [pstep]
          rw [if_neg (by simpa using hnd), if_pos (by simpa using hov)]
        have hge := le_valFold (acc * 10 + (b - 48)) r
        rw [hstep, foldl_pstep_none]
        symm
        apply if_neg
        intro h; omega
      · have hlt : acc * 10 + (b - 48) < u64Mod := by omega
        have hstep : pstep true (some acc) b = some (acc * 10 + (b - 48)) := by
          simp only [pstep]
          rw [if_neg (by simpa using hnd), if_neg (by simpa using hov), Nat.mod_eq_of_lt hlt]
        rw [hstep, ih _ hlt]
        simp [hd]
    · have hnd : b < 48 ∨ b > 57 := by
        have : ¬ ¬ (b < 48 ∨ b > 57) := fun hh => hd ((isDigit_iff b).2 hh)
        omega
      have hstep : pstep true (some acc) b = none := by
        simp only [pstep]; rw [if_pos (by simpa using hnd)]
      rw [hstep, foldl_pstep_none]
      simp [hd]

theorem parseU64Fast_false (bs : Bytes) :
    parseU64Fast false bs = if bs.all isDigit then some (decVal bs % u64Mod) else none := by
  rw [parseU64Fast_def, decVal_eq]
  simp only [Bool.false_and, Bool.false_eq_true, if_false]
  have := foldl_pstep_false 0 bs
  simpa using this

theorem spec_parseU64_eq (bs : Bytes) :
    Spec.parseU64 bs =
      if bs = [] then none else if bs.all isDigit = true ∧ decVal bs < u64Mod then some (decVal bs) else none := by
  unfold Spec.parseU64 digitsVal
  cases bs with
  | nil => simp
  | cons b r =>
    simp only [List.isEmpty_cons, Bool.false_eq_true, if_false, reduceCtorEq]
    by_cases h1 : (b :: r).all isDigit = true
    · simp only [h1, if_true, true_and]
    · simp [h1]

/-- the repaired reader is the prescribed one, on every byte string -/
theorem parseU64Fast_true (bs : Bytes) : parseU64Fast true bs = Spec.parseU64 bs := by
  rw [parseU64Fast_def, spec_parseU64_eq, decVal_eq]
  cases bs with
  | nil => simp
  | cons b r =>
    simp only [Bool.true_and, List.isEmpty_cons, Bool.false_eq_true, if_false, reduceCtorEq]
    exact foldl_pstep_true 0 (by simp [u64Mod]) (b :: r)

/-- a component on which `parse_u64_fast` is right: not a digit string at all, or a non-empty one below 2^64 -/
def compOk (bs : Bytes) : Bool := !(bs.all isDigit) || (!bs.isEmpty && decide (decVal bs < u64Mod))

theorem parseU64Fast_false_ok (bs : Bytes) (h : compOk bs = true) :
    parseU64Fast false bs = Spec.parseU64 bs := by
  rw [parseU64Fast_false, spec_parseU64_eq]
  simp only [compOk, Bool.or_eq_true, Bool.not_eq_true', Bool.and_eq_true, decide_eq_true_eq] at h
  rcases h with h | ⟨h1, h2⟩
  · have hne : bs ≠ [] := by intro he; rw [he] at h; simp at h
    simp [h, hne]
  · have hne : bs ≠ [] := by intro he; rw [he] at h1; simp at h1
    by_cases hd : bs.all isDigit = true
    · simp [hd, hne, h2, Nat.mod_eq_of_lt h2]
    · simp [hd, hne]

/-! ## exclusive bounds, pairs -/

theorem nextId_spec (a b : Id) (h : nextId a = some b) (x : Id) (hx : x.seq < u64Mod) : a < x ↔ b ≤ x := by
  unfold nextId at h
  split at h
  · cases h; simp only [Id.lt_def, Id.le_def]; omega
  · split at h
    · cases h; simp only [Id.lt_def, Id.le_def]; omega
    · cases h

theorem prevId_spec (a b : Id) (h : prevId a = some b) (x : Id) (hx : x.seq < u64Mod) : x < a ↔ x ≤ b := by
  unfold prevId at h
  split at h
  · cases h; simp only [Id.lt_def, Id.le_def]; omega
  · split at h
    · cases h; simp only [Id.lt_def, Id.le_def, u64Max, u64Mod] at *; omega
    · cases h

theorem pairsOfArgs_flatten : ∀ (args : List Bytes), args.length % 2 = 0 →
    (pairsOfArgs args).flatMap (fun p => [p.1, p.2]) = args
  | [], _ => rfl
  | [_], h => by simp at h
  | k :: v :: r, h => by
    have := pairsOfArgs_flatten r (by simp only [List.length_cons] at h; omega)
    simp [pairsOfArgs, this]

/-! ## the halving search meets the contract on sorted lists -/

/-- loop invariant of `binary_search_by`: the answer lies in `[base, base+size)`, everything before
    `base` is `≤ t` … -/
theorem bsLoop_spec {es : List Entry} (h : Sorted es) (t : Id) :
    ∀ (f base size : Nat), size ≤ f → 0 < size → base + size ≤ es.length →
      (∀ i x, i ≤ base → es[i]? = some x → base = 0 ∨ x.1 ≤ t) →
      (∀ i x, base + size ≤ i → es[i]? = some x → t < x.1) →
      ∃ b, bsLoop es t f base size = b ∧ b < es.length ∧
        (∀ i x, i ≤ b → es[i]? = some x → b = 0 ∨ x.1 ≤ t) ∧
        (∀ i x, b + 1 ≤ i → es[i]? = some x → t < x.1) ∧
        (b = 0 → base = 0) := by
  intro f
  induction f with
  | zero => intro base size h1 h2; omega
  | succ f ih =>
    intro base size hf hpos hlen hlo hhi
    unfold bsLoop
    by_cases h1 : size ≤ 1
    · have : size = 1 := by omega
      subst this
      rw [if_pos h1]
      exact ⟨base, rfl, by omega, hlo, hhi, fun hb => hb⟩
    · rw [if_neg h1]
      simp only
      have hmid : base + size / 2 < es.length := by omega
      rw [List.getElem?_eq_getElem hmid]
      simp only
      have hpw := List.pairwise_iff_getElem.1 h
      by_cases hgt : t < es[base + size / 2].1
      · rw [if_pos hgt]
        obtain ⟨b, hb, hrest⟩ := ih base (size - size / 2) (by omega) (by omega) (by omega) hlo (by
          intro i x hi hx
          have hil : i < es.length := by
            rcases Nat.lt_or_ge i es.length with h' | h'
            · exact h'
            · rw [List.getElem?_eq_none h'] at hx; cases hx
          rw [List.getElem?_eq_getElem hil] at hx
          cases hx
          -- i ≥ base + size - size/2 ≥ mid (as size - size/2 ≥ size/2)
          rcases Nat.lt_or_ge (base + size / 2) i with h3 | h3
          · exact Id.lt_trans hgt (hpw _ _ hmid hil h3)
          · have : i = base + size / 2 := by omega
            subst this; exact hgt)
        exact ⟨b, hb, hrest⟩
      · rw [if_neg hgt]
        have hle : es[base + size / 2].1 ≤ t := Id.not_lt.1 hgt
        obtain ⟨b, hb, h2, h3, h4, h5⟩ := ih (base + size / 2) (size - size / 2) (by omega) (by omega) (by omega) (by
          intro i x hi hx
          right
          have hil : i < es.length := by omega
          rw [List.getElem?_eq_getElem hil] at hx
          cases hx
          rcases Nat.lt_or_ge i (base + size / 2) with h3 | h3
          · exact Id.le_of_lt (Id.lt_of_lt_of_le (hpw _ _ hil hmid h3) hle)
          · have : i = base + size / 2 := by omega
            subst this; exact hle) (by
          intro i x hi hx
          exact hhi i x (by omega) hx)
        refine ⟨b, hb, h2, h3, h4, ?_⟩
        intro hb0
        have := h5 hb0
        omega

/-- `core::slice::binary_search_by` (halving loop) returns what the model's `bsearch` returns, on every sorted list -/
theorem bsearchLoop_eq {es : List Entry} (h : Sorted es) (t : Id) : bsearchLoop es t = bsearch es t := by
  unfold bsearchLoop
  by_cases hlen : es.length = 0
  · have : es = [] := List.length_eq_zero_iff.1 hlen
    subst this; rfl
  · rw [if_neg hlen]
    obtain ⟨b, hb, hblt, hlo, hhi, _⟩ := bsLoop_spec h t es.length 0 es.length (Nat.le_refl _) (by omega) (by omega)
      (fun i x hi hx => Or.inl rfl)
      (fun i x hi hx => by
        have : es.length ≤ i := by omega
        rw [List.getElem?_eq_none this] at hx; cases hx)
    simp only [hb]
    rw [List.getElem?_eq_getElem hblt]
    simp only
    have hxb : es[b]? = some es[b] := List.getElem?_eq_getElem hblt
    -- locate the model's insertion point relative to b
    have hlb_le : lowerBound es t ≤ b + 1 := by
      rcases Nat.lt_or_ge (b + 1) (lowerBound es t) with h1 | h1
      · have hl := lowerBound_le_length es t
        have hx1 : es[b + 1]? = some es[b + 1] := List.getElem?_eq_getElem (by omega)
        have := lt_of_lt_lowerBound h1 hx1
        have := hhi (b + 1) _ (Nat.le_refl _) hx1
        id_omega
      · exact h1
    by_cases heq : es[b].1 = t
    · rw [if_pos heq]
      have hlb : lowerBound es t = b := by
        have h1 : ¬ b < lowerBound es t := fun hlt => by
          have := lt_of_lt_lowerBound hlt hxb; rw [heq] at this; exact Id.lt_irrefl _ this
        rcases Nat.lt_or_ge (lowerBound es t) b with h2 | h2
        · have hl2 : lowerBound es t < es.length := by omega
          have hy : es[lowerBound es t]? = some es[lowerBound es t] := List.getElem?_eq_getElem hl2
          have h4 := le_of_lowerBound_le h (Nat.le_refl _) hy
          have h5 := (List.pairwise_iff_getElem.1 h) _ _ hl2 hblt h2
          rw [heq] at h5
          id_omega
        · omega
      unfold bsearch
      simp only [hlb, hxb, heq, decide_true]
    · rw [if_neg heq]
      by_cases hlt : es[b].1 < t
      · rw [if_pos hlt]
        have hlb : lowerBound es t = b + 1 := by
          rcases Nat.lt_or_ge (lowerBound es t) (b + 1) with h1 | h1
          · have := le_of_lowerBound_le h (t := t) (i := b) (by omega) hxb
            id_omega
          · omega
        unfold bsearch
        simp only [hlb]
        cases hx1 : es[b + 1]? with
        | none => rfl
        | some x =>
          have := hhi (b + 1) x (Nat.le_refl _) hx1
          have hne : ¬ x.1 = t := by intro he; rw [he] at this; exact Id.lt_irrefl _ this
          simp [hne]
      · rw [if_neg hlt]
        -- es[b] > t: then b = 0 (else the invariant says es[b] ≤ t) and the insertion point is 0
        have hb0 : b = 0 := by
          rcases hlo b _ (Nat.le_refl _) hxb with h1 | h1
          · exact h1
          · exfalso; id_omega
        have hlb : lowerBound es t = 0 := by
          rcases Nat.eq_zero_or_pos (lowerBound es t) with h1 | h1
          · exact h1
          · have hx0 : es[0]? = some es[0] := List.getElem?_eq_getElem (by omega)
            have := lt_of_lt_lowerBound h1 hx0
            subst hb0
            exact absurd this hlt
        unfold bsearch
        subst hb0
        simp only [hlb, hxb, heq, decide_false, Nat.add_zero]

end Ferrous.Stream
