/-
  C02 helper lemmas (6): a multi-member write made as ONE storage call is atomic with respect to the deadline.
-/
import FerrousSpec.Proofs.ExpiryRefine
set_option linter.unusedSimpArgs false
set_option linter.unusedVariables false
namespace Ferrous.Exp
open Ferrous

/-- what ONE modify-or-create call does under the key, in terms of the entry the lazy test hands it -/
theorem update_result (c : Cfg) (fn : String) (k : Key) (tag : Tag) (n now : Nat) (s : Shard) :
    (∃ e, (enter c fn now s k).2 = some e ∧ e.tag = tag ∧
        lookup (step c (.update fn k tag n) now s).1.data k = some { e with val := e.val + n } ∧
        (step c (.update fn k tag n) now s).2 = .num (e.val + n)) ∨
    ((enter c fn now s k).2 = none ∧
        lookup (step c (.update fn k tag n) now s).1.data k = some ⟨tag, n, none⟩ ∧
        (step c (.update fn k tag n) now s).2 = .num n) ∨
    (∃ e, (enter c fn now s k).2 = some e ∧ e.tag ≠ tag ∧ (step c (.update fn k tag n) now s).2 = .wrongType ∧
        (step c (.update fn k tag n) now s).1 = (enter c fn now s k).1) := by
  simp only [step]
  generalize enter c fn now s k = r
  obtain ⟨s1, cur⟩ := r
  cases cur with
  | none => right; left; simp [lookup_insert_self]
  | some e =>
    by_cases ht : e.tag = tag
    · left; exact ⟨e, rfl, ht, by simp [ht, lookup_insert_self], by simp [ht]⟩
    · right; right; exact ⟨e, rfl, ht, by simp [ht], by simp [ht]⟩

/-- the per-member loop on a key that stays live throughout (no reading past the deadline) adds every member to it -/
theorem perMemberRun_live (c : Cfg) (fn : String) (k : Key) (times : List Nat) (s : Shard) (e : Stored)
    (hl : lookup s.data k = some e) (ht : e.tag = .zset) (hv : ∀ t ∈ times, expired t e = false) :
    lookup (perMemberRun c fn k times s).1.data k = some { e with val := e.val + times.length } ∧
    (perMemberRun c fn k times s).2 = times.length := by
  induction times generalizing s e with
  | nil => simp [perMemberRun, hl]
  | cons t r ih =>
    have he := hv t (by simp)
    have hstep : step c (.update fn k .zset 1) t s =
        (⟨insert s.data k { e with val := e.val + 1 }, s.expiring⟩, .num (e.val + 1)) := by
      simp [step, enter_live c fn t s k e hl he, ht]
    have hl' : lookup (⟨insert s.data k { e with val := e.val + 1 }, s.expiring⟩ : Shard).data k = some { e with val := e.val + 1 } :=
      lookup_insert_self _ _ _
    have := ih ⟨insert s.data k { e with val := e.val + 1 }, s.expiring⟩ { e with val := e.val + 1 } hl' ht
      (fun t' h' => by have := hv t' (List.mem_cons_of_mem _ h'); simpa [expired] using this)
    simp only [perMemberRun, hstep]
    refine ⟨?_, by simp [this.2]⟩
    rw [this.1]
    simp only [List.length_cons]
    congr 1
    simp only [Stored.mk.injEq, true_and, and_true]
    omega

end Ferrous.Exp
